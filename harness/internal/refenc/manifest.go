package refenc

import (
	"encoding/base64"
	"encoding/json"
	"fmt"
	"sort"
	"strings"
	"unicode/utf16"
	"unicode/utf8"
)

// Manifest encodings. The README fixes the manifest as "a JSON object,
// compacted with all the unnecessary whitespaces removed" and warns that
// "each JSON encoder could produce a slightly different output" - the MAC is
// over the exact bytes. So white space is NOT varied (the format mandates the
// compact form) and the base64 values are exactly the padded standard
// encoding; what a conforming writer is free in is the ORDER of the members
// and the ESCAPING inside JSON strings (RFC 8259 section 7: any character may
// be written as \uXXXX, "/" may be written "\/", only quotation mark, reverse
// solidus and the control characters MUST be escaped).

// Member orders.
const (
	OrderGo           = ""             // k, kw, wfk, cph, np - the order of the README's struct
	OrderAlphabetical = "alphabetical" // cph, k, kw, np, wfk
	OrderReversed     = "reversed"     // np, cph, wfk, kw, k
	OrderKLast        = "k-last"       // kw, wfk, cph, np, k
)

// String escapings.
const (
	EscapeGo         = ""             // what encoding/json does: <, >, &, U+2028, U+2029 as \u escapes, \n \r \t short, other controls \u00XX
	EscapeMinimal    = "minimal"      // only what RFC 8259 requires: \" \\ and the control characters (short forms \b \f \n \r \t), everything else raw
	EscapeSolidus    = "solidus"      // minimal, and "/" written "\/" (also inside the base64 values)
	EscapeNonASCII   = "u-non-ascii"  // minimal, and every non-ASCII character as \uXXXX (upper-case hex; surrogate pairs beyond the BMP)
	EscapeSomeASCII  = "u-some-ascii" // minimal, and every third ASCII letter or digit as \u00xx
	EscapeEverything = "u-everything" // every character as \uXXXX
)

// ManifestOrders and ManifestEscapes list the styles.
var (
	ManifestOrders  = []string{OrderGo, OrderAlphabetical, OrderReversed, OrderKLast}
	ManifestEscapes = []string{EscapeGo, EscapeMinimal, EscapeSolidus, EscapeNonASCII, EscapeSomeASCII, EscapeEverything}
)

// StyleName prints a style ("" is "go").
func StyleName(s string) string {
	if s == "" {
		return "go"
	}
	return s
}

func u4(r uint16, upper bool) string {
	if upper {
		return fmt.Sprintf(`\u%04X`, r)
	}
	return fmt.Sprintf(`\u%04x`, r)
}

// jsonString writes s as a JSON string in the given escaping style. s must be valid UTF-8.
func jsonString(s, style string) (string, error) {
	if !utf8.ValidString(s) {
		return "", fmt.Errorf("refenc: %q is not valid UTF-8 and cannot be a JSON string", s)
	}
	if style == EscapeGo {
		b, err := json.Marshal(s)
		return string(b), err
	}
	var sb strings.Builder
	sb.WriteByte('"')
	n := 0
	for _, r := range s {
		n++
		switch {
		case style == EscapeEverything:
			if r > 0xFFFF {
				a, b := utf16.EncodeRune(r)
				sb.WriteString(u4(uint16(a), false) + u4(uint16(b), true))
			} else {
				sb.WriteString(u4(uint16(r), n%2 == 0))
			}
		case r == '"':
			sb.WriteString(`\"`)
		case r == '\\':
			sb.WriteString(`\\`)
		case r == '\b':
			sb.WriteString(`\b`)
		case r == '\f':
			sb.WriteString(`\f`)
		case r == '\n':
			sb.WriteString(`\n`)
		case r == '\r':
			sb.WriteString(`\r`)
		case r == '\t':
			sb.WriteString(`\t`)
		case r < 0x20:
			sb.WriteString(u4(uint16(r), true))
		case r == '/' && style == EscapeSolidus:
			sb.WriteString(`\/`)
		case r > 0x7F && style == EscapeNonASCII:
			if r > 0xFFFF {
				a, b := utf16.EncodeRune(r)
				sb.WriteString(u4(uint16(a), true) + u4(uint16(b), true))
			} else {
				sb.WriteString(u4(uint16(r), true))
			}
		case style == EscapeSomeASCII && n%3 == 0 && (r >= 'a' && r <= 'z' || r >= 'A' && r <= 'Z' || r >= '0' && r <= '9'):
			sb.WriteString(u4(uint16(r), false))
		default:
			sb.WriteRune(r)
		}
	}
	sb.WriteByte('"')
	return sb.String(), nil
}

// manifestLine builds the second header line (without the line feed).
func manifestLine(o EncryptOptions, wfk, np []byte) (string, error) {
	type member struct{ key, val string }
	var ms []member
	if o.KeyName != "" {
		k, err := jsonString(o.KeyName, o.ManifestEscape)
		if err != nil {
			return "", err
		}
		ms = append(ms, member{"k", k})
	}
	b64 := func(b []byte) string {
		// the VALUE is exactly the padded standard base64 the format prescribes; only its JSON spelling follows the style
		s, _ := jsonString(base64.StdEncoding.EncodeToString(b), o.ManifestEscape)
		return s
	}
	ms = append(ms, member{"kw", fmt.Sprint(o.KW)}, member{"wfk", b64(wfk)}, member{"cph", fmt.Sprint(o.Cipher)}, member{"np", b64(np)})
	switch o.ManifestOrder {
	case OrderGo:
	case OrderAlphabetical:
		sort.Slice(ms, func(i, j int) bool { return ms[i].key < ms[j].key })
	case OrderReversed:
		for i, j := 0, len(ms)-1; i < j; i, j = i+1, j-1 {
			ms[i], ms[j] = ms[j], ms[i]
		}
	case OrderKLast:
		if ms[0].key == "k" {
			ms = append(ms[1:], ms[0])
		}
	default:
		return "", fmt.Errorf("refenc: unknown manifest order %q", o.ManifestOrder)
	}
	var sb strings.Builder
	sb.WriteByte('{')
	for i, m := range ms {
		if i > 0 {
			sb.WriteByte(',')
		}
		name, _ := jsonString(m.key, "minimal")
		if o.ManifestEscape == EscapeEverything {
			name, _ = jsonString(m.key, EscapeEverything)
		}
		sb.WriteString(name + ":" + m.val)
	}
	sb.WriteByte('}')
	return sb.String(), nil
}
