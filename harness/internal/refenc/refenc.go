// Package refenc is an independent implementation of the "dapr.io/enc/v1"
// encryption scheme, written from the published specification
// (schemes/enc/v1/README.md of dapr/kit) only. It shares no code and no
// structure with kit's implementation: it works on whole byte slices (no
// streaming, no look-ahead byte, no shared segment loop), builds and parses the
// manifest by hand, and derives keys with a hand-written RFC 5869 HKDF.
//
// It exists so that the C01/C02 monitors can cross-check kit against the
// *published format* rather than against kit itself.
//
// Points on which README.md is silent or ambiguous, and how they were resolved
// (every resolution is forced by the files in schemes/enc/v1/testdata, which
// this package decrypts in its own tests):
//
//  1. Length of the derived keys. The README writes
//     "mac-key = HKDF-SHA-256(ikm, salt, info)" and the same for the payload
//     key without an output length. 32 bytes for both (the natural HKDF-SHA-256
//     block, and a 256-bit AES / ChaCha20 key): the testdata MACs and segments
//     only verify with 32.
//  2. "salt = empty" for the header key is taken as the RFC 5869 default (a
//     string of HashLen zero bytes), which HMAC makes equivalent to an empty key.
//  3. Empty message. "Segments must never be empty, unless the entire file is
//     empty" could be read as "an empty file has one empty segment (a bare
//     tag)" or as "an empty file has no segment". testdata/empty-message.enc
//     ends right after the third header line, so Encrypt emits no segment.
//     Decrypt accepts an empty payload and, because the sentence above does not
//     forbid it, also a payload made of one single empty final segment.
//  4. Additional authenticated data of the AEAD: not mentioned, hence none.
//  5. The JSON byte strings ("wfk", "np") are standard padded base64 inside a
//     JSON string: that is what the README's Go struct ([]byte fields) and its
//     example show.
//  7. Header size: the README says nothing about a maximum length of the header or
//     of the key name, so this package accepts (and produces) headers of any length.
//  6. The tag of a segment: the README says each segment is
//     "encrypted_chunk || tag"; the Go standard library's AEAD Seal output is
//     exactly that layout for both ciphers.
package refenc

import (
	"bytes"
	"crypto/aes"
	"crypto/cipher"
	"crypto/hmac"
	"crypto/rand"
	"crypto/sha256"
	"encoding/base64"
	"encoding/binary"
	"encoding/json"
	"errors"
	"fmt"
	"io"
	"strconv"

	"golang.org/x/crypto/chacha20poly1305"
)

const (
	// SchemeLine is the first header line.
	SchemeLine = "dapr.io/enc/v1"
	// SegmentSize is the plaintext size of every segment but the last.
	SegmentSize = 65536
	// TagSize is the per-segment overhead.
	TagSize = 16
	// NoncePrefixSize is the length of the "np" manifest field.
	NoncePrefixSize = 7
	// FileKeySize is the length of the file key.
	FileKeySize = 32
)

// Key-wrapping algorithm ids of the manifest ("kw").
const (
	KWA256KW     = 1
	KWA128CBC    = 2
	KWA192CBC    = 3
	KWA256CBC    = 4
	KWRSAOAEP256 = 5
)

// Cipher ids of the manifest ("cph").
const (
	CipherAESGCM = 1
	CipherChaCha = 2
)

// KWName returns the published name of a key-wrapping algorithm id ("" if the
// id is not in the specification).
func KWName(id int) string {
	switch id {
	case KWA256KW:
		return "A256KW"
	case KWA128CBC:
		return "A128CBC-NOPAD"
	case KWA192CBC:
		return "A192CBC-NOPAD"
	case KWA256CBC:
		return "A256CBC-NOPAD"
	case KWRSAOAEP256:
		return "RSA-OAEP-256"
	}
	return ""
}

// CipherName returns a printable name of a cipher id.
func CipherName(id int) string {
	switch id {
	case CipherAESGCM:
		return "AES-GCM"
	case CipherChaCha:
		return "ChaCha20-Poly1305"
	}
	return "cipher#" + strconv.Itoa(id)
}

// Errors returned by Parse and Decrypt.
var (
	ErrFormat   = errors.New("refenc: malformed document")
	ErrManifest = errors.New("refenc: invalid manifest")
	ErrMAC      = errors.New("refenc: header MAC does not verify")
	ErrUnwrap   = errors.New("refenc: unwrap callback failed")
)

// SegmentError reports the segment whose authentication failed.
type SegmentError struct {
	Index, Of int
	Last      bool
}

func (e *SegmentError) Error() string {
	return fmt.Sprintf("refenc: segment %d of %d (last=%v) does not authenticate", e.Index, e.Of, e.Last)
}

// Field is one member of the manifest object, in document order.
type Field struct {
	Key string
	// Raw is the member's value exactly as written.
	Raw []byte
	// Start and End delimit Raw inside the whole document.
	Start, End int
}

// Manifest is the decoded second header line.
type Manifest struct {
	Fields []Field // in the order they appear
	HasKey bool    // "k" present
	Key    string
	KW     int
	WFK    []byte
	Cipher int
	NP     []byte
}

// Segment is one "encrypted_chunk || tag" unit of the payload.
type Segment struct {
	Offset int // offset of the encrypted chunk in the document
	Length int // length of the encrypted chunk (without the tag)
	Tag    []byte
}

// End returns the offset just after the segment's tag.
func (s Segment) End() int { return s.Offset + s.Length + TagSize }

// Document is a parsed dapr.io/enc/v1 document.
type Document struct {
	Raw []byte
	// Lines are the three header lines without their line feeds; LineStart[i]
	// is the offset of line i, so line i's line feed is at
	// LineStart[i]+len(Lines[i]).
	Lines     [3][]byte
	LineStart [3]int
	// HeaderLen is the offset of the first payload byte.
	HeaderLen int
	Manifest  Manifest
	// MAC is the decoded third line.
	MAC      []byte
	Segments []Segment
}

// Payload returns the binary payload.
func (d *Document) Payload() []byte { return d.Raw[d.HeaderLen:] }

// Parse splits a document into header lines, manifest fields, MAC and
// segments. It checks syntax only (no cryptography).
func Parse(doc []byte) (*Document, error) {
	d := &Document{Raw: doc}
	pos := 0
	for i := 0; i < 3; i++ {
		nl := bytes.IndexByte(doc[pos:], '\n')
		if nl < 0 {
			return nil, fmt.Errorf("%w: header line %d is not terminated by a line feed", ErrFormat, i+1)
		}
		d.Lines[i] = doc[pos : pos+nl]
		d.LineStart[i] = pos
		pos += nl + 1
	}
	d.HeaderLen = pos
	if string(d.Lines[0]) != SchemeLine {
		return nil, fmt.Errorf("%w: first line is %q", ErrFormat, d.Lines[0])
	}
	if err := parseManifest(d.Lines[1], d.LineStart[1], &d.Manifest); err != nil {
		return nil, err
	}
	mac, err := base64.StdEncoding.Strict().DecodeString(string(d.Lines[2]))
	if err != nil {
		return nil, fmt.Errorf("%w: MAC line is not padded standard base64: %v", ErrFormat, err)
	}
	if len(mac) != sha256.Size {
		return nil, fmt.Errorf("%w: MAC is %d bytes", ErrFormat, len(mac))
	}
	d.MAC = mac
	// payload: full segments of SegmentSize+TagSize bytes, the last one may be shorter
	rest := len(doc) - pos
	off := pos
	for rest > 0 {
		n := rest
		if n > SegmentSize+TagSize {
			n = SegmentSize + TagSize
		}
		if n < TagSize {
			return nil, fmt.Errorf("%w: trailing %d bytes are shorter than a tag", ErrFormat, n)
		}
		d.Segments = append(d.Segments, Segment{Offset: off, Length: n - TagSize, Tag: doc[off+n-TagSize : off+n]})
		off += n
		rest -= n
	}
	return d, nil
}

// parseManifest walks the JSON object by hand (token stream), so that member
// order, duplicates and raw spellings are visible.
func parseManifest(line []byte, base int, m *Manifest) error {
	dec := json.NewDecoder(bytes.NewReader(line))
	dec.UseNumber()
	tok, err := dec.Token()
	if err != nil || tok != json.Delim('{') {
		return fmt.Errorf("%w: not a JSON object", ErrManifest)
	}
	seen := map[string]bool{}
	for dec.More() {
		kt, err := dec.Token()
		if err != nil {
			return fmt.Errorf("%w: %v", ErrManifest, err)
		}
		key, ok := kt.(string)
		if !ok {
			return fmt.Errorf("%w: member name is not a string", ErrManifest)
		}
		if seen[key] {
			return fmt.Errorf("%w: duplicate member %q", ErrManifest, key)
		}
		seen[key] = true
		var raw json.RawMessage
		if err := dec.Decode(&raw); err != nil {
			return fmt.Errorf("%w: %v", ErrManifest, err)
		}
		end := int(dec.InputOffset())
		f := Field{Key: key, Raw: []byte(raw), Start: base + end - len(raw), End: base + end}
		m.Fields = append(m.Fields, f)
		switch key {
		case "k":
			var s string
			if json.Unmarshal(raw, &s) != nil {
				return fmt.Errorf("%w: k is not a string", ErrManifest)
			}
			m.HasKey, m.Key = true, s
		case "kw", "cph":
			v, err := strconv.Atoi(string(raw))
			if err != nil {
				return fmt.Errorf("%w: %s is not an integer", ErrManifest, key)
			}
			if key == "kw" {
				m.KW = v
			} else {
				m.Cipher = v
			}
		case "wfk", "np":
			var s string
			if json.Unmarshal(raw, &s) != nil {
				return fmt.Errorf("%w: %s is not a string", ErrManifest, key)
			}
			b, err := base64.StdEncoding.DecodeString(s)
			if err != nil {
				return fmt.Errorf("%w: %s is not padded standard base64", ErrManifest, key)
			}
			if key == "wfk" {
				m.WFK = b
			} else {
				m.NP = b
			}
		default:
			// unknown members are kept in Fields; the format defines none
		}
	}
	if tok, err = dec.Token(); err != nil || tok != json.Delim('}') {
		return fmt.Errorf("%w: object not closed", ErrManifest)
	}
	if _, err = dec.Token(); err != io.EOF {
		return fmt.Errorf("%w: data after the object", ErrManifest)
	}
	if !seen["kw"] || !seen["wfk"] || !seen["cph"] || !seen["np"] {
		return fmt.Errorf("%w: a required member is missing", ErrManifest)
	}
	if KWName(m.KW) == "" {
		return fmt.Errorf("%w: unknown key-wrapping algorithm %d", ErrManifest, m.KW)
	}
	if m.Cipher != CipherAESGCM && m.Cipher != CipherChaCha {
		return fmt.Errorf("%w: unknown cipher %d", ErrManifest, m.Cipher)
	}
	if len(m.NP) != NoncePrefixSize {
		return fmt.Errorf("%w: nonce prefix is %d bytes", ErrManifest, len(m.NP))
	}
	if len(m.WFK) == 0 {
		return fmt.Errorf("%w: empty wrapped file key", ErrManifest)
	}
	return nil
}

// hkdf32 is RFC 5869 HKDF-SHA-256 with a 32-byte output (one expand round).
func hkdf32(ikm, salt []byte, info string) []byte {
	if len(salt) == 0 {
		salt = make([]byte, sha256.Size)
	}
	ext := hmac.New(sha256.New, salt)
	ext.Write(ikm)
	prk := ext.Sum(nil)
	exp := hmac.New(sha256.New, prk)
	exp.Write([]byte(info))
	exp.Write([]byte{1})
	return exp.Sum(nil)
}

func headerMAC(fileKey, firstTwoLines []byte) []byte {
	h := hmac.New(sha256.New, hkdf32(fileKey, nil, "header"))
	h.Write(firstTwoLines)
	return h.Sum(nil)
}

func payloadAEAD(fileKey, np []byte, cipherID int) (cipher.AEAD, error) {
	pk := hkdf32(fileKey, np, "payload")
	switch cipherID {
	case CipherAESGCM:
		blk, err := aes.NewCipher(pk)
		if err != nil {
			return nil, err
		}
		return cipher.NewGCM(blk)
	case CipherChaCha:
		return chacha20poly1305.New(pk)
	}
	return nil, fmt.Errorf("refenc: unknown cipher %d", cipherID)
}

func segmentNonce(np []byte, i int, last bool) []byte {
	n := make([]byte, 0, 12)
	n = append(n, np...)
	n = binary.BigEndian.AppendUint32(n, uint32(i))
	if last {
		return append(n, 1)
	}
	return append(n, 0)
}

// EncryptOptions configures Encrypt.
type EncryptOptions struct {
	// KeyName goes into the manifest's "k" member; the member is omitted when
	// the name is empty.
	KeyName string
	// KW is the key-wrapping algorithm id (1..5), Cipher the cipher id (1..2).
	KW, Cipher int
	// Wrap turns the 32-byte file key into the wrapped file key.
	Wrap func(fileKey []byte) ([]byte, error)
	// ManifestOrder and ManifestEscape select among the spellings of the manifest line that the
	// format leaves to the writer (see manifest.go); the zero values give encoding/json's spelling.
	ManifestOrder, ManifestEscape string
	// FileKey and NoncePrefix, when set, are used instead of fresh random
	// values (to regenerate a given document; never for real use).
	FileKey, NoncePrefix []byte
}

// Encrypt produces a complete document for plaintext.
func Encrypt(plaintext []byte, o EncryptOptions) ([]byte, error) {
	if KWName(o.KW) == "" {
		return nil, fmt.Errorf("refenc: unknown key-wrapping algorithm %d", o.KW)
	}
	fk, np := o.FileKey, o.NoncePrefix
	if fk == nil {
		fk = make([]byte, FileKeySize)
		if _, err := io.ReadFull(rand.Reader, fk); err != nil {
			return nil, err
		}
	}
	if np == nil {
		np = make([]byte, NoncePrefixSize)
		if _, err := io.ReadFull(rand.Reader, np); err != nil {
			return nil, err
		}
	}
	if len(fk) != FileKeySize || len(np) != NoncePrefixSize {
		return nil, errors.New("refenc: bad file key or nonce prefix length")
	}
	aead, err := payloadAEAD(fk, np, o.Cipher)
	if err != nil {
		return nil, err
	}
	wfk, err := o.Wrap(append([]byte(nil), fk...))
	if err != nil {
		return nil, fmt.Errorf("refenc: wrap: %w", err)
	}
	var out bytes.Buffer
	out.WriteString(SchemeLine)
	out.WriteByte('\n')
	line, err := manifestLine(o, wfk, np)
	if err != nil {
		return nil, err
	}
	out.WriteString(line)
	out.WriteByte('\n')
	out.WriteString(base64.StdEncoding.EncodeToString(headerMAC(fk, out.Bytes())))
	out.WriteByte('\n')
	// payload
	nseg := (len(plaintext) + SegmentSize - 1) / SegmentSize
	for i := 0; i < nseg; i++ {
		lo, hi := i*SegmentSize, (i+1)*SegmentSize
		if hi > len(plaintext) {
			hi = len(plaintext)
		}
		out.Write(aead.Seal(nil, segmentNonce(np, i, i == nseg-1), plaintext[lo:hi], nil))
	}
	return out.Bytes(), nil
}

// UnwrapFunc returns the file key for a wrapped file key.
type UnwrapFunc func(wfk []byte, kw int, keyName string) ([]byte, error)

// Decrypt verifies and decrypts a whole document. keyName passed to unwrap is
// the manifest's "k" ("" if absent).
func Decrypt(doc []byte, unwrap UnwrapFunc) ([]byte, error) {
	d, err := Parse(doc)
	if err != nil {
		return nil, err
	}
	return d.Decrypt(unwrap)
}

// Decrypt verifies and decrypts a parsed document.
func (d *Document) Decrypt(unwrap UnwrapFunc) ([]byte, error) {
	m := d.Manifest
	fk, err := unwrap(m.WFK, m.KW, m.Key)
	if err != nil {
		return nil, fmt.Errorf("%w: %v", ErrUnwrap, err)
	}
	if len(fk) != FileKeySize {
		return nil, fmt.Errorf("%w: file key is %d bytes", ErrUnwrap, len(fk))
	}
	// the MAC covers the first two lines, line feeds included
	if !hmac.Equal(headerMAC(fk, d.Raw[:d.LineStart[2]]), d.MAC) {
		return nil, ErrMAC
	}
	aead, err := payloadAEAD(fk, m.NP, m.Cipher)
	if err != nil {
		return nil, err
	}
	out := make([]byte, 0, len(d.Raw)-d.HeaderLen)
	for i, s := range d.Segments {
		last := i == len(d.Segments)-1
		if !last && s.Length != SegmentSize {
			return nil, fmt.Errorf("%w: segment %d is short but not last", ErrFormat, i)
		}
		if s.Length == 0 && len(d.Segments) != 1 {
			return nil, fmt.Errorf("%w: empty segment %d in a non-empty message", ErrFormat, i)
		}
		pt, err := aead.Open(nil, segmentNonce(m.NP, i, last), d.Raw[s.Offset:s.End()], nil)
		if err != nil {
			return nil, &SegmentError{Index: i, Of: len(d.Segments), Last: last}
		}
		out = append(out, pt...)
	}
	return out, nil
}
