package refenc

import (
	"bytes"
	"crypto/sha256"
	"encoding/hex"
	"encoding/json"
	"io"
	"os"
	"path/filepath"
	"testing"

	"golang.org/x/crypto/hkdf"
)

func repoDir() string {
	if v := os.Getenv("VERIF_REPO_DIR"); v != "" {
		return v
	}
	return "/repo"
}

// RFC 5869 A.1: the first 32 bytes of the OKM are T(1).
func TestHKDFVector(t *testing.T) {
	ikm, _ := hex.DecodeString("0b0b0b0b0b0b0b0b0b0b0b0b0b0b0b0b0b0b0b0b0b0b")
	salt, _ := hex.DecodeString("000102030405060708090a0b0c")
	info, _ := hex.DecodeString("f0f1f2f3f4f5f6f7f8f9")
	want, _ := hex.DecodeString("3cb25f25faacd57a90434f64d0362f2a2d2d0a90cf1a5a4c5db02d56ecc4c5bf")
	if got := hkdf32(ikm, salt, string(info)); !bytes.Equal(got, want) {
		t.Fatalf("hkdf32 = %x", got)
	}
	// A.3: empty salt and info
	ikm, _ = hex.DecodeString("0b0b0b0b0b0b0b0b0b0b0b0b0b0b0b0b0b0b0b0b0b0b")
	want, _ = hex.DecodeString("8da4e775a563c18f715f802a063c5a31b8a11f5c5ee1879ec3454e5f3c738d2d")
	if got := hkdf32(ikm, nil, ""); !bytes.Equal(got, want) {
		t.Fatalf("hkdf32 (no salt) = %x", got)
	}
	for i := 0; i < 50; i++ {
		k := sha256.Sum256([]byte{byte(i)})
		s := k[:i%9]
		exp := make([]byte, 32)
		io.ReadFull(hkdf.New(sha256.New, k[:], s, []byte("payload")), exp)
		if !bytes.Equal(exp, hkdf32(k[:], s, "payload")) {
			t.Fatal("hkdf32 differs from x/crypto/hkdf")
		}
	}
}

// The test vectors shipped with kit use the identity as key wrapping.
func TestDecryptTestdata(t *testing.T) {
	want := map[string][]byte{
		"single-segment.enc":             []byte("hello world"),
		"single-segment-no-key-name.enc": []byte("hello world"),
		"multi-segment.enc":              bytes.Repeat([]byte{1, 2, 3, 4, 5, 6, 7, 8, 9, 0}, 12<<10),
		"one-full-segment.enc":           bytes.Repeat([]byte{1, 2, 3, 4, 5, 6, 7, 8}, 8<<10),
		"two-full-segments.enc":          bytes.Repeat([]byte{1, 2, 3, 4, 5, 6, 7, 8}, 16<<10),
		"large-file.enc":                 bytes.Repeat([]byte{1, 2, 3, 4, 5, 6, 7, 8, 9, 0}, 30<<10),
		"empty-message.enc":              {},
	}
	for name, pt := range want {
		doc, err := os.ReadFile(filepath.Join(repoDir(), "schemes/enc/v1/testdata", name))
		if err != nil {
			t.Fatal(err)
		}
		got, err := Decrypt(doc, func(wfk []byte, kw int, name string) ([]byte, error) { return wfk, nil })
		if err != nil {
			t.Fatalf("%s: %v", name, err)
		}
		if !bytes.Equal(got, pt) {
			t.Fatalf("%s: plaintext differs (%d vs %d bytes)", name, len(got), len(pt))
		}
		d, _ := Parse(doc)
		wantSeg := (len(pt) + SegmentSize - 1) / SegmentSize
		if len(d.Segments) != wantSeg {
			t.Fatalf("%s: %d segments, want %d", name, len(d.Segments), wantSeg)
		}
	}
}

func TestRoundTripAndRegenerate(t *testing.T) {
	for _, n := range []int{0, 1, 65535, 65536, 65537, 131072, 200000} {
		for _, c := range []int{CipherAESGCM, CipherChaCha} {
			pt := bytes.Repeat([]byte{byte(n), 7, 9}, n/3+1)[:n]
			var fk []byte
			doc, err := Encrypt(pt, EncryptOptions{KeyName: "k\n\"1", KW: KWA256KW, Cipher: c, Wrap: func(k []byte) ([]byte, error) { fk = k; return append([]byte("W"), k...), nil }})
			if err != nil {
				t.Fatal(err)
			}
			got, err := Decrypt(doc, func(wfk []byte, kw int, name string) ([]byte, error) {
				if name != "k\n\"1" || kw != KWA256KW {
					t.Fatalf("unwrap args %q %d", name, kw)
				}
				return wfk[1:], nil
			})
			if err != nil || !bytes.Equal(got, pt) {
				t.Fatalf("n=%d c=%d: %v", n, c, err)
			}
			d, _ := Parse(doc)
			again, _ := Encrypt(pt, EncryptOptions{KeyName: "k\n\"1", KW: KWA256KW, Cipher: c, FileKey: fk, NoncePrefix: d.Manifest.NP, Wrap: func(k []byte) ([]byte, error) { return d.Manifest.WFK, nil }})
			if !bytes.Equal(again, doc) {
				t.Fatal("regeneration with the same file key and nonce prefix differs")
			}
			// tamper
			if n > 0 {
				doc[len(doc)-1] ^= 1
				if _, err := Decrypt(doc, func(wfk []byte, kw int, name string) ([]byte, error) { return wfk[1:], nil }); err == nil {
					t.Fatal("tampered tag accepted")
				}
			}
		}
	}
}

type chunky struct {
	r io.Reader
	n int
}

func (c chunky) Read(p []byte) (int, error) {
	if len(p) > c.n {
		p = p[:c.n]
	}
	return c.r.Read(p)
}

func TestStreaming(t *testing.T) {
	id := func(wfk []byte, kw int, name string) ([]byte, error) { return wfk, nil }
	for _, n := range []int{0, 1, 65535, 65536, 65537, 131072, 200000} {
		for _, c := range []int{CipherAESGCM, CipherChaCha} {
			pt := bytes.Repeat([]byte{byte(n), 7, 9, byte(c)}, n/4+1)[:n]
			fk := bytes.Repeat([]byte{9}, 32)
			np := []byte{1, 2, 3, 4, 5, 6, 7}
			o := EncryptOptions{KeyName: "k", KW: KWA256KW, Cipher: c, FileKey: fk, NoncePrefix: np, Wrap: func(k []byte) ([]byte, error) { return k, nil }}
			whole, _ := Encrypt(pt, o)
			streamed, err := io.ReadAll(chunky{NewEncryptReader(chunky{bytes.NewReader(pt), 1000}, o), 777})
			if err != nil || !bytes.Equal(whole, streamed) {
				t.Fatalf("n=%d: streaming encryption differs from whole-document encryption (%v)", n, err)
			}
			dr, err := NewDecryptReader(chunky{bytes.NewReader(whole), 3333}, id)
			if err != nil {
				t.Fatal(err)
			}
			got, err := io.ReadAll(chunky{dr, 555})
			if err != nil || !bytes.Equal(got, pt) {
				t.Fatalf("n=%d: streaming decryption: %v", n, err)
			}
			if n > 0 {
				bad := append([]byte{}, whole...)
				bad[len(bad)-1] ^= 1
				dr, _ = NewDecryptReader(bytes.NewReader(bad), id)
				if _, err := io.ReadAll(dr); err == nil {
					t.Fatal("tampered document accepted by the streaming reader")
				}
				if n > 65536 { // truncation at a segment boundary
					dr, _ = NewDecryptReader(bytes.NewReader(whole[:dr.HeaderLen()+65552]), id)
					if _, err := io.ReadAll(dr); err == nil {
						t.Fatal("document truncated at a segment boundary accepted")
					}
				}
			}
		}
	}
	// the published test vectors through the streaming reader
	for _, name := range []string{"large-file.enc", "two-full-segments.enc", "empty-message.enc"} {
		f, err := os.Open(filepath.Join(repoDir(), "schemes/enc/v1/testdata", name))
		if err != nil {
			t.Fatal(err)
		}
		dr, err := NewDecryptReader(f, id)
		if err != nil {
			t.Fatal(err)
		}
		if _, err := io.Copy(io.Discard, dr); err != nil {
			t.Fatalf("%s: %v", name, err)
		}
		f.Close()
	}
	if n := segmentNonce64([]byte{1, 2, 3, 4, 5, 6, 7}, 0x01020304, true); !bytes.Equal(n, []byte{1, 2, 3, 4, 5, 6, 7, 1, 2, 3, 4, 1}) {
		t.Fatalf("nonce %x", n)
	}
}

func TestGen(t *testing.T) {
	g := NewGen(7)
	all, _ := io.ReadAll(chunky{g.Reader(3<<20 + 77), 100003})
	if len(all) != 3<<20+77 {
		t.Fatal(len(all))
	}
	p := make([]byte, 5000)
	for _, off := range []int64{0, 1, 4090, 4096, 1<<20 - 3, 2<<20 + 4095} {
		g.Fill(p, off)
		if !bytes.Equal(p, all[off:off+5000]) {
			t.Fatalf("Fill at %d differs from the reader", off)
		}
	}
	// every 64 KiB segment differs
	seen := map[[32]byte]bool{}
	for i := 0; i+65536 <= len(all); i += 65536 {
		seen[sha256.Sum256(all[i:i+65536])] = true
	}
	if len(seen) != len(all)/65536 {
		t.Fatal("segments repeat")
	}
	c := g.NewChecker()
	io.Copy(c, chunky{bytes.NewReader(all), 70001})
	if c.Mismatch != -1 || c.Total != int64(len(all)) {
		t.Fatal(c.Mismatch, c.Total)
	}
	all[2000000] ^= 8
	c = g.NewChecker()
	io.Copy(c, chunky{bytes.NewReader(all), 70001})
	if c.Mismatch != 2000000 {
		t.Fatal(c.Mismatch)
	}
}

func TestCheckHeader(t *testing.T) {
	id := func(wfk []byte, kw int, name string) ([]byte, error) { return wfk, nil }
	doc, _ := Encrypt([]byte("hello"), EncryptOptions{KeyName: "k", KW: KWA256KW, Cipher: CipherAESGCM, Wrap: func(k []byte) ([]byte, error) { return k, nil }})
	d, _ := Parse(doc)
	h := doc[:d.HeaderLen]
	if v, n, _ := CheckHeader(h, id); v != HeaderAuthentic || n != len(h) {
		t.Fatal(v, n)
	}
	if v, _, _ := CheckHeader(doc[:len(doc)-3], id); v != HeaderAuthentic {
		t.Fatal("payload must not matter", v)
	}
	cr := append(append(append([]byte{}, h[:len(h)-1]...), '\r'), '\n')
	if v, _, _ := CheckHeader(cr, id); v != HeaderMACSpelling {
		t.Fatal(v)
	}
	for _, edit := range [][2]string{{`"k":`, `"K":`}, {`{"k"`, `{ "k"`}, {`"cph":1`, `"cph":1,"x":0`}, {`"cph":1`, `"cph":2`}} {
		e := bytes.Replace(h, []byte(edit[0]), []byte(edit[1]), 1)
		if v, _, _ := CheckHeader(e, id); v != HeaderRejected {
			t.Fatalf("%q: %v", edit[1], v)
		}
	}
	if v, n, _ := CheckHeader(h[:len(h)-1], id); v != HeaderRejected || n != -1 {
		t.Fatal(v, n)
	}
}

func TestManifestStyles(t *testing.T) {
	id := func(wfk []byte, kw int, name string) ([]byte, error) { return wfk, nil }
	name := "dir/<key>&\"q\\ é ключ \u2028\u2029 😀 \b\f\t\n\x7f end"
	seen := map[string]bool{}
	for _, ord := range ManifestOrders {
		for _, esc := range ManifestEscapes {
			doc, err := Encrypt([]byte("hello"), EncryptOptions{KeyName: name, KW: KWA256KW, Cipher: CipherChaCha, ManifestOrder: ord, ManifestEscape: esc,
				FileKey: bytes.Repeat([]byte{0xFB, 0xFF}, 16), NoncePrefix: []byte{0xFF, 0xFE, 0xFF, 0xFF, 0xBF, 0xFF, 0xFF}, Wrap: func(k []byte) ([]byte, error) { return k, nil }})
			if err != nil {
				t.Fatal(err)
			}
			d, err := Parse(doc)
			if err != nil {
				t.Fatalf("%s/%s: %v\n%s", ord, esc, err, doc[:200])
			}
			if d.Manifest.Key != name {
				t.Fatalf("%s/%s: key name %q", ord, esc, d.Manifest.Key)
			}
			var cp bytes.Buffer
			if json.Compact(&cp, d.Lines[1]) != nil || !bytes.Equal(cp.Bytes(), d.Lines[1]) || bytes.ContainsAny(d.Lines[1], "\n\r") {
				t.Fatalf("%s/%s: manifest is not compact JSON on one line", ord, esc)
			}
			got, err := Decrypt(doc, id)
			if err != nil || string(got) != "hello" {
				t.Fatalf("%s/%s: %v", ord, esc, err)
			}
			seen[string(d.Lines[1])] = true
		}
	}
	if len(seen) != len(ManifestOrders)*len(ManifestEscapes) {
		t.Fatalf("only %d distinct manifest lines", len(seen))
	}
}
