package c02

// "forged-under-stand-in-key": documents an attacker builds WITHOUT any key of
// the recipient, under a file key the attacker can guess - the value a reader
// might fall back to when unwrapping fails (all zero, all 0xFF, ...). The
// reference implementation produces them (valid MAC, valid segments for that
// file key); the wrapped-file-key field is garbage or the wfk of somebody
// else's document. They are given to the real kit.Decrypt together with every
// failing / misbehaving unwrap callback. Whatever the callback does - short of
// honestly returning that very key without an error - the document must be
// refused and nothing of the forged plaintext may be released.

import (
	"bytes"
	"crypto/sha256"
	"errors"
	"fmt"
	"io"
	"strings"

	enc "github.com/dapr/kit/schemes/enc/v1"

	"verif/harness/internal/mon"
	"verif/harness/internal/refenc"
)

type forgedSpec struct {
	kind   string // which guessable file key
	cipher int
}

func (f forgedSpec) String() string {
	return fmt.Sprintf("forged standin-key=%s cipher=%s", f.kind, refenc.CipherName(f.cipher))
}

var standinKinds = []string{"all-zero", "all-0xff", "32x0x01", "wfk-bytes", "sha256-of-manifest", "sha256-of-wfk", "key-name-padded"}

func forgedPlan() []forgedSpec {
	var out []forgedSpec
	for _, k := range standinKinds {
		for _, c := range []int{refenc.CipherAESGCM, refenc.CipherChaCha} {
			out = append(out, forgedSpec{k, c})
		}
	}
	return out
}

func fit32(b []byte) []byte {
	out := make([]byte, 32)
	copy(out, b)
	return out
}

// forge builds a document of plaintext pt under the guessable key of the given kind.
func forge(kind string, cipher int, pt, wfk []byte) (doc, fk []byte, err error) {
	np := []byte{0x11, 0x22, 0x33, 0x44, 0x55, 0x66, 0x77}
	o := refenc.EncryptOptions{KeyName: keyName, KW: refenc.KWA256KW, Cipher: cipher, NoncePrefix: np, Wrap: func([]byte) ([]byte, error) { return wfk, nil }}
	switch kind {
	case "all-zero":
		fk = make([]byte, 32)
	case "all-0xff":
		fk = bytes.Repeat([]byte{0xFF}, 32)
	case "32x0x01":
		fk = bytes.Repeat([]byte{1}, 32)
	case "wfk-bytes":
		fk = fit32(wfk)
	case "sha256-of-wfk":
		h := sha256.Sum256(wfk)
		fk = h[:]
	case "key-name-padded":
		fk = fit32([]byte(keyName))
	case "sha256-of-manifest":
		// the manifest does not depend on the file key: build it once to hash it
		o.FileKey = make([]byte, 32)
		probe, err := refenc.Encrypt(nil, o)
		if err != nil {
			return nil, nil, err
		}
		d, err := refenc.Parse(probe)
		if err != nil {
			return nil, nil, err
		}
		h := sha256.Sum256(d.Lines[1])
		fk = h[:]
	default:
		return nil, nil, errors.New("unknown stand-in kind " + kind)
	}
	o.FileKey = fk
	doc, err = refenc.Encrypt(pt, o)
	return doc, fk, err
}

func runForged(idx int, f forgedSpec) {
	rng := mon.NewRNG("c02-forged", idx)
	n := int64(0)
	// the wfk field: garbage (unwrapping fails honestly), too short garbage, or somebody else's valid wfk
	var foreign *base
	if p, err := makeDoc("forged-foreign", 2000+idx, baseSpec{100, f.cipher, "refenc"}, 0); err == nil {
		foreign = p
	}
	wfks := map[string][]byte{"garbage-40-bytes": rng.Bytes(40), "garbage-7-bytes": rng.Bytes(7)}
	if foreign != nil {
		wfks["wfk-of-another-valid-document"] = foreign.d.Manifest.WFK
	}
	for _, L := range []int{0, 1, 1000, 65536, 65537} {
		pt := mon.NewRNG("c02-forged-pt", idx*10+L%7).Bytes(L)
		for _, wname := range []string{"garbage-40-bytes", "garbage-7-bytes", "wfk-of-another-valid-document"} {
			wfk, ok := wfks[wname]
			if !ok {
				continue
			}
			doc, fk, err := forge(f.kind, f.cipher, pt, wfk)
			if err != nil {
				rec.Inconclusive(idx, "cannot forge: "+err.Error(), f.String())
				return
			}
			other := sha256.Sum256(append([]byte("other"), fk...))
			behaviours := []struct {
				name string
				fn   enc.UnwrapKeyFn
			}{
				{"honest", unwrapA}, // garbage wfk: fails honestly; foreign wfk: returns a different valid key
				{"error", func(w []byte, a, n string, nonce, tag []byte) ([]byte, error) {
					return nil, errors.New("vault says no")
				}},
				{"nil-nil", func(w []byte, a, n string, nonce, tag []byte) ([]byte, error) { return nil, nil }},
				{"empty", func(w []byte, a, n string, nonce, tag []byte) ([]byte, error) { return []byte{}, nil }},
				{"3-bytes", func(w []byte, a, n string, nonce, tag []byte) ([]byte, error) { return []byte{1, 2, 3}, nil }},
				{"31-bytes", func(w []byte, a, n string, nonce, tag []byte) ([]byte, error) { return fk[:31], nil }},
				{"33-bytes", func(w []byte, a, n string, nonce, tag []byte) ([]byte, error) {
					return append(append([]byte{}, fk...), 0), nil
				}},
				{"64-bytes", func(w []byte, a, n string, nonce, tag []byte) ([]byte, error) {
					return append(append([]byte{}, fk...), fk...), nil
				}},
				{"that-key-with-error", func(w []byte, a, n string, nonce, tag []byte) ([]byte, error) {
					return append([]byte{}, fk...), errors.New("vault says no")
				}},
				{"other-32-bytes-with-error", func(w []byte, a, n string, nonce, tag []byte) ([]byte, error) {
					return other[:], errors.New("vault says no")
				}},
				{"other-32-bytes", func(w []byte, a, n string, nonce, tag []byte) ([]byte, error) { return other[:], nil }},
				{"3-bytes-with-error", func(w []byte, a, n string, nonce, tag []byte) ([]byte, error) {
					return []byte{1, 2, 3}, errors.New("vault says no")
				}},
			}
			for _, bh := range behaviours {
				n++
				m := &mutant{class: "forged", pos: "standin-key=" + f.kind + "/unwrap=" + bh.name, parts: [][]byte{doc}, unwrap: bh.fn,
					desc: fmt.Sprintf("document forged with refenc under the %s file key (%s, %d-byte plaintext, wfk field = %s); unwrap callback: %s", f.kind, refenc.CipherName(f.cipher), L, wname, bh.name)}
				o := run(m, rng)
				site := m.class + "@" + m.pos
				replay := map[string]any{"forged_document": "refenc.Encrypt(plaintext, {KeyName:\"c02-kek\", KW:1, Cipher, FileKey: stand-in key, NoncePrefix:11223344556677, Wrap: returns the wfk field})",
					"standin_key_kind": f.kind, "file_key_hex": fmt.Sprintf("%x", fk), "wfk_field": wname, "wfk_hex": fmt.Sprintf("%x", wfk), "cipher": refenc.CipherName(f.cipher),
					"plaintext": fmt.Sprintf("mon.NewRNG(\"c02-forged-pt\", %d).Bytes(%d)", idx*10+L%7, L), "unwrap_behaviour": bh.name, "header": string(doc[:bytes.LastIndexByte(doc[:min(len(doc), 400)], '\n')+1]),
					"decrypt_err": fmt.Sprint(o.decErr), "stream_err": fmt.Sprint(o.term), "released_len": len(o.got), "released": short(o.got), "source_style": o.style}
				switch {
				case o.decErr != nil && strings.HasPrefix(o.decErr.Error(), "PANIC"):
					rec.Violation(idx, site+"/panic", site+": "+o.decErr.Error()+" ["+m.desc+"]", replay)
				case o.decErr != nil:
					rec.Count("forged.refused_by_decrypt", 1)
				case len(o.got) > 0 && o.term == io.EOF && bytes.Equal(o.got, pt):
					rec.Violation(idx, site+"/decrypted-cleanly", fmt.Sprintf("%s: a forged document was accepted and its %d attacker-chosen bytes released with a clean EOF [%s]", site, len(o.got), m.desc), replay)
				case len(o.got) > 0:
					rec.Violation(idx, site+"/released-bytes", fmt.Sprintf("%s: %d bytes of a forged document were released (stream ended with %v) [%s]", site, len(o.got), o.term, m.desc), replay)
				case o.term == io.EOF && !o.stuck:
					// an accepted forged document without content: nothing unauthenticated reaches the reader and
					// "" is also what the honest empty message gives - looked at, not judged
					rec.Count("forged.empty_document_accepted", 1)
					rec.Observe("a forged document with an EMPTY plaintext (stand-in key " + f.kind + ", unwrap " + bh.name + ") was accepted: \"\" and a clean EOF; no data released, not judged")
				case o.stuck:
					rec.Violation(idx, site+"/stream-never-ends", site+": the stream keeps returning (0, nil) ["+m.desc+"]", replay)
				default:
					rec.Count("forged.refused_by_stream_error_before_any_byte", 1)
				}
				rec.Count("forged.unwrap."+bh.name, 1)
			}
		}
	}
	rec.Count("forged.documents_judged", int(n))
	rec.Count("family.forged", int(n))
	rec.Bulk(idx, n, true)
}
