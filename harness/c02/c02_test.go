// Package c02 monitors property C02 (enc/v1: tampered or truncated documents
// never decrypt silently).
//
// Valid documents (produced by kit and by the independent reference
// implementation internal/refenc) are mutated and given to the real
// kit.Decrypt. The oracle is the statement's, nothing more:
//
//	for a document d' != d: EITHER Decrypt fails OR the stream ends in a
//	non-EOF error OR (bytes == original plaintext AND EOF); in all cases the
//	bytes released are a prefix of the original plaintext.
//	for a (sticky) source-reader error at offset k: Decrypt fails or the
//	stream ends in a non-EOF error; and the prefix rule.
//
// A mutant that kit accepts and that yields exactly the original plaintext
// (non-canonical base64 bits of the MAC line, a CR inside the MAC line, ...)
// is legal by that rule and only counted.
package c02

import (
	"bufio"
	"bytes"
	"context"
	"crypto/sha256"
	"encoding/base64"
	"encoding/hex"
	"errors"
	"fmt"
	"io"
	"os"
	"sort"
	"strings"
	"testing"

	kitcrypto "github.com/dapr/kit/crypto"
	enc "github.com/dapr/kit/schemes/enc/v1"

	"verif/harness/internal/mon"
	"verif/harness/internal/refenc"
)

var rec *mon.Rec

var errBoom = errors.New("boom (injected source-reader error)")

// timeoutErr looks like what a network connection reports (net.Error).
type timeoutErr struct{}

func (timeoutErr) Error() string   { return "read tcp 10.0.0.1:443: i/o timeout (injected)" }
func (timeoutErr) Timeout() bool   { return true }
func (timeoutErr) Temporary() bool { return true }

// srcErrors is the family of errors a failing source reader reports: the
// private sentinel and the values real readers produce when their data is cut
// short or their context ends (http bodies, gzip, io.ReadFull-based readers,
// pipes, deadlines). None of them is io.EOF and none wraps io.EOF.
var srcErrors = []struct {
	name string
	err  error
}{
	{"", errBoom}, // class "srcerr"
	{"unexpected-eof", io.ErrUnexpectedEOF},
	{"wrapped-unexpected-eof", fmt.Errorf("http: reading body: %w", io.ErrUnexpectedEOF)},
	{"no-progress", io.ErrNoProgress},
	{"closed-pipe", io.ErrClosedPipe},
	{"context-canceled", context.Canceled},
	{"wrapped-deadline-exceeded", fmt.Errorf("read: %w", os.ErrDeadlineExceeded)},
	{"net-timeout", timeoutErr{}},
}

const keyName = "c02-kek"

// ------------------------------------------------------------------ key wrapping

// Two key-encryption keys; wrapping is RFC 3394 AES-KW done by kit's crypto package.
var kekRaw = [2][]byte{
	bytes.Repeat([]byte{0xA5, 0x17, 0x3C, 0xE0}, 8),
	bytes.Repeat([]byte{0x5B, 0xC4, 0x09, 0x7E}, 8),
}

func kekWrap(kek int, fk []byte) ([]byte, error) {
	k, err := kitcrypto.ParseKey([]byte(base64.StdEncoding.EncodeToString(kekRaw[kek])), "")
	if err != nil {
		return nil, err
	}
	ct, _, err := kitcrypto.EncryptSymmetric(fk, "A256KW", k, nil, nil)
	return ct, err
}

func kekUnwrap(kek int, wfk []byte) ([]byte, error) {
	k, err := kitcrypto.ParseKey([]byte(base64.StdEncoding.EncodeToString(kekRaw[kek])), "")
	if err != nil {
		return nil, err
	}
	return kitcrypto.DecryptSymmetric(wfk, "A256KW", k, nil, nil, nil)
}

// unwrapA is the honest unwrap callback of the recipient (who owns KEK 0).
func unwrapA(wfk []byte, alg, name string, nonce, tag []byte) ([]byte, error) {
	if alg != "A256KW" {
		return nil, errors.New("vault: this key only does A256KW")
	}
	// CALLBACK-OWNED MEMORY: for about half of the wrapped keys the recipient's key store caches the
	// unwrapped file key and answers every later request with the SAME slice (guard bytes around it).
	// That memory is the key store's: verifyKeyCache checks after every Decrypt that kit left it alone.
	if len(wfk) > 0 && wfk[0]%2 == 0 {
		if c, ok := keyCache[string(wfk)]; ok {
			return c.buf[16:48], nil
		}
		k, err := kekUnwrap(0, wfk)
		if err == nil && len(k) == 32 && len(keyCache) < 4096 {
			c := &cachedKey{buf: bytes.Repeat([]byte{0xA5}, 64)}
			copy(c.buf[16:], k)
			c.want = append([]byte(nil), c.buf...)
			keyCache[string(wfk)] = c
			return c.buf[16:48], nil
		}
		return k, err
	}
	return kekUnwrap(0, wfk)
}

type cachedKey struct{ buf, want []byte }

var decryptCount int

var busyKEK = bytes.Repeat([]byte{0x3D, 0x91}, 16)

// busyInnerRoundTrip is what a busy key callback does before it answers: Encrypt and Decrypt a record of its own.
// That round trip must itself be exact.
func busyInnerRoundTrip(site string) {
	pt := bytes.Repeat([]byte("key store record / "), 110) // ~2 KiB: overwrites the start of whatever buffer it is given
	fail := func(what string, err error) {
		rec.Violation(curIdx, "busy-unwrap/inner-round-trip/"+what, fmt.Sprintf("an independent enc/v1 round trip run inside the unwrap callback (outer document: %s) failed at %s: %v", site, what, err),
			map[string]any{"outer": site, "inner_plaintext": "bytes.Repeat(\"key store record / \", 110)"})
	}
	k, err := kitcrypto.ParseKey([]byte(base64.StdEncoding.EncodeToString(busyKEK)), "")
	if err != nil {
		fail("key", err)
		return
	}
	er, err := enc.Encrypt(bytes.NewReader(pt), enc.EncryptOptions{Algorithm: enc.KeyAlgorithmAES256KW, KeyName: "inner",
		WrapKeyFn: func(fk []byte, a, n string, nonce []byte) ([]byte, []byte, error) {
			w, _, err := kitcrypto.EncryptSymmetric(fk, "A256KW", k, nil, nil)
			return w, nil, err
		}})
	if err != nil {
		fail("encrypt", err)
		return
	}
	ct, err := io.ReadAll(er)
	if err != nil {
		fail("encrypt-stream", err)
		return
	}
	dr, err := enc.Decrypt(bytes.NewReader(ct), enc.DecryptOptions{UnwrapKeyFn: func(w []byte, a, n string, nonce, tag []byte) ([]byte, error) {
		return kitcrypto.DecryptSymmetric(w, "A256KW", k, nil, nil, nil)
	}})
	if err != nil {
		fail("decrypt", err)
		return
	}
	got, err := io.ReadAll(dr)
	if err != nil || !bytes.Equal(got, pt) {
		fail("decrypt-stream", fmt.Errorf("err=%v, %d of %d bytes, equal=%v", err, len(got), len(pt), bytes.Equal(got, pt)))
		return
	}
	rec.Count("busy_unwrap.inner_round_trips_exact", 1)
}

var (
	keyCache = map[string]*cachedKey{}
	curIdx   int
)

// verifyKeyCache: did kit write to a key slice (or around it) that the unwrap callback owns?
func verifyKeyCache(after string) {
	for _, c := range keyCache {
		if !bytes.Equal(c.buf, c.want) {
			at := firstDiff(c.buf, c.want)
			sig := "callback/unwrap/returned-key-modified"
			if at < 16 || at >= 48 {
				sig = "callback/unwrap/returned-key-neighbours-modified"
			}
			rec.Violation(curIdx, sig, fmt.Sprintf("after %s the cached file key the unwrap callback answers from has changed at offset %d of its 16+32+16 byte record: now %x, was %x", after, at, c.buf[16:48], c.want[16:48]),
				map[string]any{"after": after})
			copy(c.buf, c.want) // repaired, so that the mutants that follow are judged on their own
		}
	}
	rec.Count("callback.key_cache_verified", 1)
}

// refUnwrapA is the same honest recipient, for the reference implementation.
func refUnwrapA(wfk []byte, kw int, name string) ([]byte, error) {
	if kw != refenc.KWA256KW {
		return nil, errors.New("vault: this key only does A256KW")
	}
	return kekUnwrap(0, wfk)
}

// ------------------------------------------------------------------ base documents

type base struct {
	id       int
	producer string // kit | refenc
	cipher   int    // refenc cipher id
	kek      int
	pt       []byte
	doc      []byte
	d        *refenc.Document
	fk       []byte
	hdr      int
}

func (b *base) String() string {
	return fmt.Sprintf("base#%d producer=%s cipher=%s plaintext_len=%d doc_len=%d header_len=%d segments=%d",
		b.id, b.producer, refenc.CipherName(b.cipher), len(b.pt), len(b.doc), b.hdr, len(b.d.Segments))
}

func baseLens() []int {
	l := []int{0, 1, 100, 65535, 65536, 65537, 131072, 150000}
	if mon.Thorough() {
		l = append(l, 16, 17, 1000, 131071, 131073, 196608, 200000)
	}
	return l
}

type baseSpec struct {
	length, cipher int
	producer       string
}

func baseSpecs() []baseSpec {
	var out []baseSpec
	for _, l := range baseLens() {
		for _, c := range []int{refenc.CipherAESGCM, refenc.CipherChaCha} {
			for _, p := range []string{"kit", "refenc"} {
				out = append(out, baseSpec{l, c, p})
			}
		}
	}
	return out
}

func makeDoc(label string, id int, sp baseSpec, kek int) (*base, error) {
	b := &base{id: id, producer: sp.producer, cipher: sp.cipher, kek: kek}
	b.pt = mon.NewRNG("c02-pt/"+label, id).Bytes(sp.length)
	if sp.producer == "kit" {
		ci := enc.CipherAESGCM
		if sp.cipher == refenc.CipherChaCha {
			ci = enc.CipherChaCha20Poly1305
		}
		r, err := enc.Encrypt(bytes.NewReader(b.pt), enc.EncryptOptions{
			WrapKeyFn: func(fk []byte, alg, name string, nonce []byte) ([]byte, []byte, error) {
				b.fk = append([]byte(nil), fk...)
				w, err := kekWrap(kek, fk)
				return w, nil, err
			},
			Algorithm: enc.KeyAlgorithmAES256KW, KeyName: keyName, Cipher: &ci})
		if err != nil {
			return nil, fmt.Errorf("kit.Encrypt: %w", err)
		}
		if b.doc, err = io.ReadAll(r); err != nil {
			return nil, fmt.Errorf("kit.Encrypt stream: %w", err)
		}
	} else {
		var err error
		b.doc, err = refenc.Encrypt(b.pt, refenc.EncryptOptions{KeyName: keyName, KW: refenc.KWA256KW, Cipher: sp.cipher,
			Wrap: func(fk []byte) ([]byte, error) {
				b.fk = append([]byte(nil), fk...)
				return kekWrap(kek, fk)
			}})
		if err != nil {
			return nil, fmt.Errorf("refenc.Encrypt: %w", err)
		}
	}
	d, err := refenc.Parse(b.doc)
	if err != nil {
		return nil, fmt.Errorf("base document does not parse: %w", err)
	}
	b.d, b.hdr = d, d.HeaderLen
	wantSeg := (len(b.pt) + refenc.SegmentSize - 1) / refenc.SegmentSize
	if len(d.Segments) != wantSeg || len(b.doc) != b.hdr+len(b.pt)+refenc.TagSize*wantSeg {
		return nil, fmt.Errorf("base document has an unexpected layout (%d segments, %d bytes)", len(d.Segments), len(b.doc))
	}
	// the unmutated document must decrypt with kit, otherwise nothing can be judged
	o := run(&mutant{parts: [][]byte{b.doc}, noBusy: true, unwrap: func(w []byte, a, n string, nonce, tag []byte) ([]byte, error) { return kekUnwrap(kek, w) }}, nil)
	if o.decErr != nil || o.term != io.EOF || !bytes.Equal(o.got, b.pt) {
		return nil, fmt.Errorf("kit.Decrypt does not decrypt the unmutated document (decrypt err=%v, stream err=%v, %d bytes)", o.decErr, o.term, len(o.got))
	}
	return b, nil
}

var partners = map[string]*base{}

// partner returns another valid document with the same length and cipher but
// another file key, nonce prefix and plaintext, wrapped with KEK kek.
func partner(b *base, kek int) (*base, error) {
	key := fmt.Sprintf("%d/%d/%d", len(b.pt), b.cipher, kek)
	if p, ok := partners[key]; ok {
		return p, nil
	}
	p, err := makeDoc("partner", 1000+kek, baseSpec{len(b.pt), b.cipher, "refenc"}, kek)
	if err != nil {
		return nil, err
	}
	partners[key] = p
	return p, nil
}

// ------------------------------------------------------------------ mutants

type mutant struct {
	class, pos, desc string
	parts            [][]byte
	unwrap           enc.UnwrapKeyFn // nil: the honest one
	failAt           int             // source error injected at this offset (only if srcErr)
	failWithData     bool
	failErr          error // the error the source reports (nil: errBoom)
	srcErr           bool
	// intact: the document is NOT modified (overlap mode): the stream must give
	// exactly the plaintext and a clean EOF
	intact bool
	// forceBusy / noBusy: always / never use the busy unwrap callback for this Decrypt
	forceBusy, noBusy bool
	// forceHdrChunk: deliver the header as its own chunk(s), then zero-length reads (see partsReader)
	forceHdrChunk bool
	// forceCap: read from this kind of capable source (see capSource)
	forceCap string
}

func (m *mutant) length() int {
	n := 0
	for _, p := range m.parts {
		n += len(p)
	}
	return n
}

func (m *mutant) equals(doc []byte) bool {
	if m.length() != len(doc) {
		return false
	}
	off := 0
	for _, p := range m.parts {
		if !bytes.Equal(p, doc[off:off+len(p)]) {
			return false
		}
		off += len(p)
	}
	return true
}

// head returns the first (at most n) bytes of the mutant.
func (m *mutant) head(n int) []byte {
	out := make([]byte, 0, min(n, m.length()))
	for _, p := range m.parts {
		if len(out)+len(p) > n {
			return append(out, p[:n-len(out)]...)
		}
		out = append(out, p...)
	}
	return out
}

func (m *mutant) flatten() []byte {
	out := make([]byte, 0, m.length())
	for _, p := range m.parts {
		out = append(out, p...)
	}
	return out
}

// partsReader delivers the mutant. It obeys the io.Reader contract; its
// terminal event (EOF or the injected error) is sticky.
type partsReader struct {
	parts        [][]byte
	pi, off, pos int
	limit        int
	fail         bool
	failWithData bool
	failErr      error
	eofWithData  bool
	chunk        int
	rng          *mon.RNG
	term         error
	// "header as its own chunk": the first reads deliver exactly the bytes up to hdrEnd (the third line feed of
	// the document as it is), cut at hdrCuts; then zerosAfterHdr legal no-progress reads (0, nil) come before any
	// body byte; with sprinkle, further (0, nil) reads come between body chunks and once before the terminal
	// event (EOF or the injected error). Never two (0, nil) in a row except the counted ones after the header.
	hdrEnd        int
	hdrCuts       []int
	zerosAfterHdr int
	sprinkle      bool
	lastZero      bool
	zeroAtEnd     bool
	zeroReads     int
}

func (r *partsReader) Read(p []byte) (int, error) {
	if len(p) == 0 {
		return 0, nil
	}
	if r.term != nil {
		return 0, r.term
	}
	if r.hdrEnd > 0 && r.pos == r.hdrEnd && r.zerosAfterHdr > 0 {
		r.zerosAfterHdr--
		r.zeroReads++
		return 0, nil
	}
	if r.pos >= r.limit {
		if r.sprinkle && !r.zeroAtEnd && r.pos >= r.hdrEnd {
			r.zeroAtEnd = true
			r.zeroReads++
			return 0, nil
		}
		r.term = io.EOF
		if r.fail {
			r.term = r.failErr
		}
		return 0, r.term
	}
	if r.sprinkle && r.pos > r.hdrEnd && !r.lastZero && r.rng.Chance(1, 3) {
		r.lastZero = true
		r.zeroReads++
		return 0, nil
	}
	r.lastZero = false
	for r.off == len(r.parts[r.pi]) {
		r.pi++
		r.off = 0
	}
	n := min(len(r.parts[r.pi])-r.off, len(p), r.limit-r.pos)
	if r.chunk > 0 {
		n = min(n, 1+r.rng.Intn(r.chunk))
	}
	if r.pos < r.hdrEnd {
		// never past the next cut of the header, and never past the header end
		for _, c := range r.hdrCuts {
			if c > r.pos {
				n = min(n, c-r.pos)
				break
			}
		}
	}
	copy(p, r.parts[r.pi][r.off:r.off+n])
	r.off += n
	r.pos += n
	if r.pos == r.limit {
		if r.fail && r.failWithData {
			r.term = r.failErr
			return n, r.failErr
		}
		if !r.fail && r.eofWithData {
			r.term = io.EOF
			return n, io.EOF
		}
	}
	return n, nil
}

type outcome struct {
	decErr error
	got    []byte
	term   error
	stuck  bool
	style  string
	// abandoned: the consumer stopped reading before the stream ended (overlap
	// mode); only what was read so far can be judged
	abandoned bool
}

// session is one Decrypt stream that can be read piecewise, so that other
// operations can be run while it is half consumed.
type session struct {
	hdrReader *partsReader // set when the "header as its own chunk" source style is in use
	srcClose  func()       // releases an os.Pipe source
	o         outcome
	dr        io.Reader
	done      bool
	buf       []byte
}

// start gives the mutant to the real kit.Decrypt.
func start(m *mutant, rng *mon.RNG) *session {
	s := &session{}
	o := &s.o
	r := &partsReader{parts: m.parts, limit: m.length(), rng: rng}
	o.style = "all-at-once"
	if m.srcErr {
		r.fail, r.limit, r.failWithData, r.failErr = true, m.failAt, m.failWithData, m.failErr
		if r.failErr == nil {
			r.failErr = errBoom
		}
	}
	if rng != nil {
		if rng.Chance(3, 10) {
			r.chunk = rng.PickInt(7, 600, 70000)
			o.style = fmt.Sprintf("chunks<=%d", r.chunk)
		}
		if rng.Chance(1, 4) {
			r.eofWithData = true
			o.style += "+eof-with-data"
		}
	}
	if m.forceHdrChunk || (rng != nil && rng.Chance(1, 4)) {
		srng := rng
		if srng == nil {
			srng = mon.NewRNG("c02-hdr-chunk", curIdx)
		}
		// where the header of the document AS IT IS ends (third line feed)
		head := m.head(70000)
		end := 0
		for i, nl := 0, 0; i < len(head); i++ {
			if head[i] == '\n' {
				if nl++; nl == 3 {
					end = i + 1
					break
				}
			}
		}
		if end > 0 && end <= r.limit {
			r.rng = srng
			r.hdrEnd = end
			nc := srng.Range(1, 3)
			for c := 1; c < nc; c++ {
				r.hdrCuts = append(r.hdrCuts, srng.Range(1, end-1))
			}
			sort.Ints(r.hdrCuts)
			r.hdrCuts = append(r.hdrCuts, end)
			r.zerosAfterHdr = srng.PickInt(1, 2, 5)
			r.sprinkle = true
			o.style += fmt.Sprintf("+header-in-%d-own-chunk(s)+%d-zero-length-reads-before-the-body+sprinkled", nc, r.zerosAfterHdr)
			rec.Count("srcstyle.header_as_own_chunk", 1)
			s.hdrReader = r
		}
	}
	uw := m.unwrap
	if uw == nil {
		uw = unwrapA
	}
	// BUSY UNWRAP CALLBACK: in every fourth Decrypt (and in every control document) the key callback first runs a
	// complete enc/v1 round trip of its own - a key store that protects its records with the same package - so the
	// package-level buffer pool is used between kit's reading of the header and its first segment.
	decryptCount++
	if m.forceBusy || (!m.noBusy && decryptCount%4 == 0) {
		inner := uw
		site := m.class + "@" + m.pos
		uw = func(w []byte, a, n string, nonce, tag []byte) ([]byte, error) {
			busyInnerRoundTrip(site)
			return inner(w, a, n, nonce, tag)
		}
		o.style += "+busy-unwrap"
		rec.Count("busy_unwrap.decrypts", 1)
	}
	func() {
		defer func() {
			if p := recover(); p != nil {
				o.decErr = fmt.Errorf("PANIC in Decrypt: %v", p)
			}
		}()
		s.dr, o.decErr = enc.Decrypt(s.capSource(m, r, rng, o), enc.DecryptOptions{UnwrapKeyFn: uw})
	}()
	if len(keyCache) > 0 {
		verifyKeyCache("Decrypt of " + m.class + "@" + m.pos)
	}
	if o.decErr != nil {
		s.done = true
		s.closeSrc()
		return s
	}
	// From here on kit works on its own goroutine, where a panic cannot be
	// recovered: journal the input first so that the driver finds it.
	rec.Step(m.class + "@" + m.pos + " " + m.desc + " [" + o.style + "]")
	s.buf = make([]byte, 32<<10)
	return s
}

// read consumes up to limit more bytes of the stream (limit < 0: to its end).
func (s *session) read(limit int) {
	empty := 0
	for !s.done && limit != 0 {
		p := s.buf
		if limit > 0 && limit < len(p) {
			p = p[:limit]
		}
		n, err := s.dr.Read(p)
		s.o.got = append(s.o.got, p[:n]...)
		if limit > 0 {
			limit -= n
		}
		if err != nil {
			s.o.term = err
			s.done = true
			return
		}
		if n == 0 {
			if empty++; empty > 1000 {
				s.o.stuck = true
				s.done = true
				return
			}
		} else {
			empty = 0
		}
	}
}

// abandon gives up a half-read stream (closing it if it can be closed, so
// that kit's goroutine ends).
func (s *session) abandon() {
	if c, ok := s.dr.(io.Closer); ok && !s.done {
		c.Close()
	}
	s.done = true
	s.closeSrc()
}

func (s *session) closeSrc() {
	if s.srcClose != nil {
		s.srcClose()
		s.srcClose = nil
	}
}

// ---- sources that are more than an io.Reader (the kinds of C01's source-capabilities family)

type errSeeker struct{ r io.Reader }

func (e errSeeker) Read(p []byte) (int, error) { return e.r.Read(p) }
func (e errSeeker) Seek(int64, int) (int64, error) {
	rec.Count("srccap.seek_calls_observed", 1)
	return 0, errors.New("harness: this source cannot seek")
}

type fwdSeeker struct{ r *bytes.Reader }

func (f fwdSeeker) Read(p []byte) (int, error) { return f.r.Read(p) }
func (f fwdSeeker) Seek(o int64, w int) (int64, error) {
	rec.Count("srccap.seek_calls_observed", 1)
	return f.r.Seek(o, w)
}

// bufSeeker: Read is served by a bufio layer, Seek moves the reader underneath it.
type bufSeeker struct {
	*bufio.Reader
	under io.Seeker
}

func (b bufSeeker) Seek(o int64, w int) (int64, error) {
	rec.Count("srccap.seek_calls_observed", 1)
	return b.under.Seek(o, w)
}

var capCounter int

// capSource decides whether this Decrypt reads from a source with extra capabilities: a wrapper whose Seek
// always fails (any mutant, any chunking: it wraps the scripted reader), or - for documents without an injected
// source error - a Seek-forwarding wrapper over a bytes.Reader, a bufio layer with a Seek that moves the reader
// underneath, or the read end of an os.Pipe (an *os.File whose Seek fails with ESPIPE) fed by a goroutine.
func (s *session) capSource(m *mutant, r *partsReader, rng *mon.RNG, o *outcome) io.Reader {
	kind := m.forceCap
	if kind == "" {
		if rng == nil {
			return r
		}
		capCounter++
		switch {
		case capCounter%8 == 1:
			kind = "erroring-Seek"
		case capCounter%16 == 6 && !m.srcErr && m.length() <= 70000:
			kind = "Seek-forwarding"
		case capCounter%16 == 14 && !m.srcErr && m.length() <= 70000:
			kind = "bufio+inconsistent-Seek"
		case capCounter%64 == 35 && !m.srcErr && m.length() <= 8192:
			kind = "os.Pipe"
		default:
			return r
		}
	}
	o.style += "+source=" + kind
	rec.Count("srccap."+kind, 1)
	switch kind {
	case "erroring-Seek":
		return errSeeker{r}
	case "Seek-forwarding":
		return fwdSeeker{bytes.NewReader(m.flatten())}
	case "bufio+inconsistent-Seek":
		br := bytes.NewReader(m.flatten())
		return bufSeeker{bufio.NewReaderSize(br, 4096), br}
	default: // os.Pipe
		pr, pw, err := os.Pipe()
		if err != nil {
			rec.Count("srccap.os.Pipe_unavailable", 1)
			return r
		}
		data := m.flatten()
		go func() {
			pw.Write(data)
			pw.Close()
		}()
		s.srcClose = func() { pr.Close() }
		return pr
	}
}

// run gives the mutant to the real kit.Decrypt and reads the stream to its end.
func run(m *mutant, rng *mon.RNG) outcome {
	s := start(m, rng)
	s.read(-1)
	s.closeSrc()
	if s.hdrReader != nil {
		rec.Count("srcstyle.zero_length_reads", s.hdrReader.zeroReads)
	}
	return s.o
}

// ------------------------------------------------------------------ the oracle

type judgeCtx struct {
	idx int
	b   *base
	rng *mon.RNG
	n   int64 // mutants judged
}

func short(b []byte) string {
	if len(b) <= 48 {
		return hex.EncodeToString(b)
	}
	return hex.EncodeToString(b[:24]) + "…" + hex.EncodeToString(b[len(b)-24:])
}

func (j *judgeCtx) replay(m *mutant, o outcome) map[string]any {
	b := j.b
	rp := map[string]any{
		"base": b.String(), "mutation": m.class + "@" + m.pos, "mutation_detail": m.desc, "source_style": o.style,
		"header": string(b.doc[:b.hdr]), "file_key_hex": hex.EncodeToString(b.fk), "kek_hex": hex.EncodeToString(kekRaw[b.kek]),
		"plaintext":  fmt.Sprintf("mon.NewRNG(\"c02-pt/base\", %d).Bytes(%d) sha256=%x", b.id, len(b.pt), sha256.Sum256(b.pt)),
		"regenerate": "refenc.Encrypt(plaintext, {KeyName, KW:1, Cipher, FileKey, NoncePrefix from header, Wrap: wfk from header}) reproduces the base document byte for byte",
		"mutant_len": m.length(), "decrypt_err": fmt.Sprint(o.decErr), "stream_err": fmt.Sprint(o.term),
		"released_len": len(o.got), "released": short(o.got), "plaintext_head": short(b.pt),
	}
	if m.length() <= 6<<10 {
		rp["mutant_b64"] = base64.StdEncoding.EncodeToString(m.flatten())
	}
	if m.srcErr {
		rp["source_error_at"] = m.failAt
		rp["source_error_with_data"] = m.failWithData
		rp["source_error_value"] = fmt.Sprintf("%T: %v", m.failErr, m.failErr)
	}
	return rp
}

// judge runs one mutant and applies the statement's rule.
func (j *judgeCtx) judge(m *mutant) {
	b := j.b
	if !m.srcErr && m.unwrap == nil {
		if m.equals(b.doc) {
			rec.Count("skipped.mutant_equals_original", 1)
			return
		}
	}
	j.evaluate(m, run(m, j.rng))
}

// evaluate applies the statement's rule to what one Decrypt stream did.
func (j *judgeCtx) evaluate(m *mutant, o outcome) {
	b := j.b
	j.n++
	rec.Progress()
	site := m.class + "@" + m.pos
	prefix := bytes.HasPrefix(b.pt, o.got)
	if m.intact || o.abandoned {
		// overlap mode: an unmodified document must decrypt exactly; of a stream given
		// up half-way only the prefix rule (and, if intact, "no error so far") can be judged
		bad := ""
		switch {
		case o.decErr != nil && strings.HasPrefix(o.decErr.Error(), "PANIC"):
			bad = "panic"
		case !prefix:
			bad = "released-bytes-not-a-prefix-of-the-plaintext"
		case m.intact && o.decErr != nil:
			bad = "valid-document-rejected"
		case m.intact && o.term != nil && o.term != io.EOF:
			bad = "valid-document-stream-error"
		case m.intact && !o.abandoned && (o.stuck || len(o.got) != len(b.pt)):
			bad = "valid-document-short"
		}
		if bad != "" {
			rec.Violation(j.idx, site+"/"+bad, fmt.Sprintf("%s: decrypt err=%v, stream err=%v, %d bytes released, plaintext has %d, first difference at %d [%s; %s]",
				site, o.decErr, o.term, len(o.got), len(b.pt), firstDiff(o.got, b.pt), m.desc, b.String()), j.replay(m, o))
			return
		}
		if m.intact && !o.abandoned {
			rec.Count("overlap.intact_stream_exact", 1)
		}
		if o.abandoned {
			rec.Count("overlap.abandoned_stream_prefix_ok", 1)
		}
		if m.intact || o.term == nil {
			return
		}
		// an abandoned mutant stream that had already ended: judged like any other, below
	}
	viol := func(out, msg string) {
		rec.Violation(j.idx, site+"/"+out, fmt.Sprintf("%s: %s [%s; %s]", site, msg, m.desc, b.String()), j.replay(m, o))
	}
	switch {
	case o.decErr != nil:
		if strings.HasPrefix(o.decErr.Error(), "PANIC") {
			viol("panic", o.decErr.Error())
			return
		}
		rec.Count("outcome.decrypt_error", 1)
	case o.stuck:
		viol("stream-never-ends", fmt.Sprintf("the stream keeps returning (0, nil) after %d bytes", len(o.got)))
		return
	case o.term != io.EOF:
		if !prefix {
			viol("error-after-unauthenticated-bytes", fmt.Sprintf("the stream failed (%v) but had already released %d bytes that are not a prefix of the plaintext", o.term, len(o.got)))
			return
		}
		rec.Count("outcome.stream_error", 1)
		if len(o.got) > 0 {
			rec.Count("outcome.stream_error_after_authentic_prefix", 1)
		}
	default: // clean EOF
		switch {
		case m.srcErr:
			if !prefix {
				viol("clean-eof-wrong-bytes", fmt.Sprintf("source error swallowed and %d wrong bytes released", len(o.got)))
			} else if len(o.got) == len(b.pt) {
				viol("error-swallowed/complete", "the source reader failed but the stream ended in a clean EOF with the complete plaintext")
			} else {
				viol("error-swallowed/short", fmt.Sprintf("the source reader failed but the stream ended in a clean EOF after %d of %d bytes", len(o.got), len(b.pt)))
			}
			return
		case bytes.Equal(o.got, b.pt):
			// legal: accepted, and exactly the original plaintext
			rec.Count("outcome.accepted_identical_plaintext", 1)
			rec.Count("accepted_identical."+site, 1)
			if m.unwrap == nil {
				// Does the independent implementation consider this header authentic?
				// (Not judged: the letter of C02 allows an identical plaintext.)
				switch v, _, _ := refenc.CheckHeader(m.head(70000), refUnwrapA); v {
				case refenc.HeaderAuthentic:
					rec.Count("accepted_identical.header_authentic_per_reference", 1)
				case refenc.HeaderMACSpelling:
					rec.Count("accepted_identical.mac_line_spelling_only", 1)
				default:
					rec.Count("accepted_identical_but_header_fails_reference_mac", 1)
					rec.Observe("kit accepted a document edited at " + m.pos + " (" + m.class + ") whose header the reference implementation rejects; the plaintext was identical, so this is not judged")
				}
			}
		case prefix:
			if m.unwrap == nil && len(o.got) == 0 {
				// Nothing was released and the stream ended cleanly. If the mutant is "a header
				// and no payload at all", the independent implementation decides what it is:
				// an AUTHENTIC header (MAC over the raw first two lines verifies) followed by
				// nothing is the known format-level finding - a document cut exactly after its
				// third header line; a header the reference rejects is a different defect.
				mb := m.head(70000)
				if v, hl, why := refenc.CheckHeader(mb, refUnwrapA); hl == m.length() {
					switch v {
					case refenc.HeaderAuthentic:
						rec.Count("payloadless_accepted.header_authentic", 1)
						rec.Violation(j.idx, "truncate@header-end/nonempty",
							fmt.Sprintf("a document with a %d-byte plaintext reduced to its (authentic) header decrypts to \"\" with a clean EOF [produced as %s: %s; %s]", len(b.pt), site, m.desc, b.String()), j.replay(m, o))
						return
					case refenc.HeaderMACSpelling:
						// kit reads the MAC line leniently, the reference strictly: not judged
						rec.Count("payloadless_accepted.mac_line_spelling_only", 1)
						rec.Observe("kit and the reference implementation disagree on non-canonical spellings of the MAC line (stray CR, unused base64 bits: kit lenient, reference strict); with the payload removed kit returns \"\" and a clean EOF - same root as truncate@header-end/nonempty, not judged separately")
						rec.Count("rejected_or_identical."+m.class, 1)
						return
					default:
						viol("clean-eof-short", fmt.Sprintf("a header that the reference implementation rejects (%v) and no payload decrypts to \"\" with a clean EOF although the plaintext has %d bytes", why, len(b.pt)))
						return
					}
				}
			}
			viol("clean-eof-short", fmt.Sprintf("the stream ended in a clean EOF after %d of %d plaintext bytes", len(o.got), len(b.pt)))
			return
		default:
			viol("clean-eof-wrong-bytes", fmt.Sprintf("the stream ended in a clean EOF after releasing %d bytes that are not the plaintext", len(o.got)))
			return
		}
	}
	if m.srcErr {
		rec.Count("srcerr.surfaced", 1)
		// which error surfaced is looked at, not judged (the statement asks for "an error")
		seen := o.decErr
		if seen == nil {
			seen = o.term
		}
		if m.failErr != nil && errors.Is(seen, m.failErr) {
			rec.Count("srcerr.surfaced_as_the_injected_error", 1)
		} else {
			rec.Count("srcerr.surfaced_as_another_error", 1)
		}
	}
	rec.Count("rejected_or_identical."+m.class, 1)
}

func firstDiff(a, b []byte) int {
	for i := 0; i < len(a) && i < len(b); i++ {
		if a[i] != b[i] {
			return i
		}
	}
	if len(a) == len(b) {
		return -1
	}
	return min(len(a), len(b))
}

// ------------------------------------------------------------------ position classes

// posOf classifies a byte offset of the base document.
func (b *base) posOf(off int) string {
	d := b.d
	switch {
	case off < d.LineStart[1]-1:
		return "scheme-line"
	case off == d.LineStart[1]-1:
		return "scheme-lf"
	case off < d.LineStart[2]-1:
		for _, f := range d.Manifest.Fields {
			if off >= f.Start && off < f.End {
				return "manifest." + f.Key
			}
		}
		return "manifest.syntax"
	case off == d.LineStart[2]-1:
		return "manifest-lf"
	case off < b.hdr-1:
		return "mac"
	case off == b.hdr-1:
		return "mac-lf"
	}
	for _, s := range d.Segments {
		if off < s.Offset+s.Length {
			return "segment-body"
		}
		if off < s.End() {
			return "segment-tag"
		}
	}
	return "beyond-end"
}

// cutPos classifies a truncation point t (the mutant keeps doc[:t]).
func (b *base) cutPos(t int) string {
	d := b.d
	switch {
	case t < d.LineStart[1]:
		return "scheme-line"
	case t < d.LineStart[2]:
		return "manifest"
	case t < b.hdr:
		return "mac"
	case t == b.hdr:
		return "header-end"
	}
	for _, s := range d.Segments {
		if t <= s.Offset+s.Length {
			return "segment-body"
		}
		if t < s.End() {
			return "segment-tag"
		}
		if t == s.End() {
			return "segment-boundary"
		}
	}
	return "beyond-end"
}

func (b *base) seg(i int) []byte { s := b.d.Segments[i]; return b.doc[s.Offset:s.End()] }

func (b *base) header() []byte { return b.doc[:b.hdr] }

func (b *base) payload() []byte { return b.doc[b.hdr:] }

// patched returns the mutant "doc with bytes [off,off+del) replaced by ins".
func (b *base) patched(off, del int, ins []byte) [][]byte {
	if off < b.hdr && off+del <= b.hdr {
		h := make([]byte, 0, b.hdr+len(ins))
		h = append(h, b.doc[:off]...)
		h = append(h, ins...)
		h = append(h, b.doc[off+del:b.hdr]...)
		return [][]byte{h, b.payload()}
	}
	return [][]byte{b.doc[:off], ins, b.doc[off+del:]}
}

// interesting payload/header offsets: structural boundaries of the document
func (b *base) boundaries() []int {
	d := b.d
	out := []int{0, d.LineStart[1], d.LineStart[2], b.hdr}
	for _, s := range d.Segments {
		out = append(out, s.Offset+s.Length, s.End())
	}
	return out
}

// ------------------------------------------------------------------ families

type family struct {
	name string
	run  func(j *judgeCtx)
}

var families = []family{
	{"bitflip-header", famBitflipHeader},
	{"bitflip-payload", famBitflipPayload},
	{"truncate", famTruncate},
	{"extend", famExtend},
	{"segments", famSegments},
	{"splice", famSplice},
	{"unwrap", famUnwrap},
	{"insert-delete", famInsertDelete},
	{"field-edit", famFieldEdit},
	{"header-edit+drop-payload", famHeaderDropPayload},
	{"source-error", famSourceError},
	{"compound", famCompound},
	{"overlap", famOverlap},
}

func famBitflipHeader(j *judgeCtx) {
	b := j.b
	for off := 0; off < b.hdr; off++ {
		for bit := 0; bit < 8; bit++ {
			j.judge(&mutant{class: "bitflip", pos: b.posOf(off), desc: fmt.Sprintf("bit %d of byte %d (%q)", bit, off, b.doc[off]),
				parts: b.patched(off, 1, []byte{b.doc[off] ^ 1<<bit})})
		}
	}
}

func famBitflipPayload(j *judgeCtx) {
	b := j.b
	for si, s := range b.d.Segments {
		offs := []int{s.Offset, s.Offset + s.Length/2, s.Offset + s.Length - 1}
		for t := 0; t < refenc.TagSize; t++ {
			offs = append(offs, s.Offset+s.Length+t)
		}
		extra := mon.Pick(32, 400)
		for i := 0; i < extra; i++ {
			offs = append(offs, s.Offset+j.rng.Intn(s.Length+refenc.TagSize))
		}
		seen := map[int]bool{}
		for _, off := range offs {
			if seen[off] {
				continue
			}
			seen[off] = true
			bits := []int{j.rng.Intn(8)}
			if mon.Thorough() {
				bits = []int{0, 1, 2, 3, 4, 5, 6, 7}
			}
			for _, bit := range bits {
				j.judge(&mutant{class: "bitflip", pos: b.posOf(off), desc: fmt.Sprintf("bit %d of byte %d (segment %d of %d)", bit, off, si, len(b.d.Segments)),
					parts: b.patched(off, 1, []byte{b.doc[off] ^ 1<<bit})})
			}
		}
	}
}

func famTruncate(j *judgeCtx) {
	b := j.b
	var cuts []int
	if len(b.doc) <= 1024 {
		for t := 0; t < len(b.doc); t++ {
			cuts = append(cuts, t)
		}
	} else {
		seen := map[int]bool{}
		add := func(t int) {
			if t >= 0 && t < len(b.doc) && !seen[t] {
				seen[t] = true
				cuts = append(cuts, t)
			}
		}
		for t := 0; t < b.hdr; t++ { // every offset of the header
			add(t)
		}
		for _, x := range b.boundaries() {
			for dlt := -20; dlt <= 20; dlt++ {
				add(x + dlt)
			}
		}
		for i := 0; i < mon.Pick(1000, 20000); i++ {
			add(j.rng.Intn(len(b.doc)))
		}
		sort.Ints(cuts)
	}
	for _, t := range cuts {
		pos := b.cutPos(t)
		rec.Count("truncate.at."+pos, 1)
		j.judge(&mutant{class: "truncate", pos: pos, desc: fmt.Sprintf("document cut to its first %d of %d bytes", t, len(b.doc)), parts: [][]byte{b.doc[:t]}})
	}
}

func famExtend(j *judgeCtx) {
	b := j.b
	for _, n := range []int{1, 15, 16, 17, 65551, 65552, 65553} {
		fills := map[string][]byte{"zeros": make([]byte, n), "random": j.rng.Bytes(n)}
		if len(b.doc) >= n {
			fills["own-tail"] = b.doc[len(b.doc)-n:]
		}
		if len(b.payload()) >= n {
			fills["own-payload-head"] = b.payload()[:n]
		}
		names := make([]string, 0, len(fills))
		for k := range fills {
			names = append(names, k)
		}
		sort.Strings(names)
		for _, name := range names {
			j.judge(&mutant{class: "extend", pos: fmt.Sprintf("end+%d", n), desc: fmt.Sprintf("%d bytes (%s) appended", n, name), parts: [][]byte{b.doc, fills[name]}})
		}
	}
}

func famSegments(j *judgeCtx) {
	b := j.b
	ns := len(b.d.Segments)
	build := func(order []int) [][]byte {
		parts := [][]byte{b.header()}
		for _, i := range order {
			parts = append(parts, b.seg(i))
		}
		return parts
	}
	ident := make([]int, ns)
	for i := range ident {
		ident[i] = i
	}
	where := func(i int) string {
		switch {
		case ns == 1:
			return "only-segment"
		case i == 0:
			return "first-segment"
		case i == ns-1:
			return "last-segment"
		}
		return "middle-segment"
	}
	for i := 0; i < ns; i++ {
		del := append(append([]int{}, ident[:i]...), ident[i+1:]...)
		j.judge(&mutant{class: "seg-delete", pos: where(i), desc: fmt.Sprintf("segment %d of %d removed", i, ns), parts: build(del)})
		dup := append(append(append([]int{}, ident[:i+1]...), i), ident[i+1:]...)
		j.judge(&mutant{class: "seg-duplicate", pos: where(i), desc: fmt.Sprintf("segment %d of %d duplicated in place", i, ns), parts: build(dup)})
		app := append(append([]int{}, ident...), i)
		j.judge(&mutant{class: "seg-append", pos: where(i), desc: fmt.Sprintf("copy of segment %d of %d appended at the end", i, ns), parts: build(app)})
		for k := i + 1; k < ns; k++ {
			sw := append([]int{}, ident...)
			sw[i], sw[k] = sw[k], sw[i]
			j.judge(&mutant{class: "seg-swap", pos: where(i) + "+" + where(k), desc: fmt.Sprintf("segments %d and %d of %d swapped", i, k, ns), parts: build(sw)})
		}
		// keep only the first i+1 segments (truncation at a segment boundary, seen as a segment operation)
		if i < ns-1 {
			j.judge(&mutant{class: "seg-drop-tail", pos: fmt.Sprintf("after-%s", where(i)), desc: fmt.Sprintf("segments %d.. of %d dropped", i+1, ns), parts: build(ident[:i+1])})
		}
		// keep only segments i.. (drop the head)
		if i > 0 {
			j.judge(&mutant{class: "seg-drop-head", pos: fmt.Sprintf("before-%s", where(i)), desc: fmt.Sprintf("segments 0..%d of %d dropped", i-1, ns), parts: build(ident[i:])})
		}
	}
}

func famSplice(j *judgeCtx) {
	b := j.b
	for kek := 0; kek < 2; kek++ {
		p, err := partner(b, kek)
		if err != nil {
			rec.Inconclusive(j.idx, "cannot build the splice partner: "+err.Error(), b.String())
			return
		}
		class := "splice-samekek"
		if kek == 1 {
			class = "splice-otherkek"
		}
		j.judge(&mutant{class: class, pos: "payload", desc: "own header followed by the whole payload of another document", parts: [][]byte{b.header(), p.payload()}})
		j.judge(&mutant{class: class, pos: "header", desc: "header of another document followed by the own payload", parts: [][]byte{p.header(), b.payload()}})
		j.judge(&mutant{class: class, pos: "mac", desc: "own scheme line and manifest, MAC line of another document, own payload",
			parts: [][]byte{b.doc[:b.d.LineStart[2]], p.doc[p.d.LineStart[2]:p.hdr], b.payload()}})
		j.judge(&mutant{class: class, pos: "manifest", desc: "manifest of another document under the own MAC line, own payload",
			parts: [][]byte{b.doc[:b.d.LineStart[1]], p.doc[p.d.LineStart[1]:p.d.LineStart[2]], b.doc[b.d.LineStart[2]:b.hdr], b.payload()}})
		for i := range b.d.Segments {
			parts := [][]byte{b.header()}
			for k := range b.d.Segments {
				if k == i {
					parts = append(parts, p.seg(k))
				} else {
					parts = append(parts, b.seg(k))
				}
			}
			j.judge(&mutant{class: class, pos: "segment", desc: fmt.Sprintf("segment %d of %d replaced by the same segment of another document", i, len(b.d.Segments)), parts: parts})
			// only the tag / only the body from the other document
			s, ps := b.d.Segments[i], p.d.Segments[i]
			j.judge(&mutant{class: class, pos: "segment-tag", desc: fmt.Sprintf("tag of segment %d replaced by the other document's", i),
				parts: [][]byte{b.doc[:s.Offset+s.Length], ps.Tag, b.doc[s.End():]}})
			j.judge(&mutant{class: class, pos: "segment-body", desc: fmt.Sprintf("body of segment %d replaced by the other document's", i),
				parts: [][]byte{b.doc[:s.Offset], p.doc[ps.Offset : ps.Offset+ps.Length], b.doc[s.Offset+s.Length:]}})
		}
	}
}

func famUnwrap(j *judgeCtx) {
	b := j.b
	other := sha256.Sum256(b.fk)
	variants := []struct {
		name string
		fn   enc.UnwrapKeyFn
	}{
		{"error", func(w []byte, a, n string, nonce, tag []byte) ([]byte, error) {
			return nil, errors.New("vault says no")
		}},
		{"wrong-32-bytes", func(w []byte, a, n string, nonce, tag []byte) ([]byte, error) { return other[:], nil }},
		{"31-bytes", func(w []byte, a, n string, nonce, tag []byte) ([]byte, error) { return b.fk[:31], nil }},
		{"33-bytes", func(w []byte, a, n string, nonce, tag []byte) ([]byte, error) {
			return append(append([]byte{}, b.fk...), 0), nil
		}},
		{"nil", func(w []byte, a, n string, nonce, tag []byte) ([]byte, error) { return nil, nil }},
		{"all-zero-key", func(w []byte, a, n string, nonce, tag []byte) ([]byte, error) { return make([]byte, 32), nil }},
		{"one-bit-off", func(w []byte, a, n string, nonce, tag []byte) ([]byte, error) {
			k := append([]byte{}, b.fk...)
			k[17] ^= 4
			return k, nil
		}},
		{"wrong-key-and-error", func(w []byte, a, n string, nonce, tag []byte) ([]byte, error) {
			return other[:], errors.New("vault says no")
		}},
		{"other-kek", func(w []byte, a, n string, nonce, tag []byte) ([]byte, error) { return kekUnwrap(1, w) }},
		{"empty", func(w []byte, a, n string, nonce, tag []byte) ([]byte, error) { return []byte{}, nil }},
		{"3-bytes", func(w []byte, a, n string, nonce, tag []byte) ([]byte, error) { return []byte{1, 2, 3}, nil }},
		{"64-bytes", func(w []byte, a, n string, nonce, tag []byte) ([]byte, error) {
			return append(append([]byte{}, b.fk...), b.fk...), nil
		}},
		{"3-bytes-and-error", func(w []byte, a, n string, nonce, tag []byte) ([]byte, error) {
			return []byte{1, 2, 3}, errors.New("vault says no")
		}},
		{"correct-key-with-error", func(w []byte, a, n string, nonce, tag []byte) ([]byte, error) {
			return append([]byte{}, b.fk...), errors.New("vault says no")
		}},
	}
	for _, v := range variants {
		j.judge(&mutant{class: "unwrap", pos: v.name, desc: "unmodified document, unwrap callback returns " + v.name, parts: [][]byte{b.doc}, unwrap: v.fn})
	}
}

func famInsertDelete(j *judgeCtx) {
	b := j.b
	var offs []int
	for off := 0; off <= b.hdr; off++ {
		offs = append(offs, off)
	}
	for _, s := range b.d.Segments {
		offs = append(offs, s.Offset+1, s.Offset+s.Length/2, s.Offset+s.Length, s.Offset+s.Length+7, s.End())
	}
	for _, off := range offs {
		pos := "end"
		if off < len(b.doc) {
			pos = b.posOf(off)
		}
		for _, v := range []byte{'\n', '\r', ' ', '=', 'A', 0, byte(j.rng.Intn(256))} {
			j.judge(&mutant{class: "insert", pos: pos, desc: fmt.Sprintf("byte %#02x inserted before offset %d", v, off), parts: b.patched(min(off, len(b.doc)), 0, []byte{v})})
		}
		if off < len(b.doc) {
			j.judge(&mutant{class: "delete", pos: pos, desc: fmt.Sprintf("byte at offset %d (%#02x) removed", off, b.doc[off]), parts: b.patched(off, 1, nil)})
		}
	}
}

// hedit is an edited header (everything up to the payload).
type hedit struct {
	pos, desc string
	hdr       []byte
}

const b64alphabet = "ABCDEFGHIJKLMNOPQRSTUVWXYZabcdefghijklmnopqrstuvwxyz0123456789+/"

// headerEdits lists the semantic edits of the header: re-encodings of the
// manifest that a JSON parser reads to the same values (white space, member
// order, member-name case, escapes, duplicate and unknown members, unused
// base64 bits), changes of every field's value, spellings of the MAC line, of
// the scheme line and of the line structure.
func (b *base) headerEdits() []hedit {
	d := b.d
	line1, man, macl := string(d.Lines[0]), string(d.Lines[1]), string(d.Lines[2])
	var out []hedit
	emit := func(pos, desc, l1, l2, l3 string) {
		out = append(out, hedit{pos, desc, []byte(l1 + "\n" + l2 + "\n" + l3 + "\n")})
	}
	field := func(key string) (refenc.Field, bool) {
		for _, f := range d.Manifest.Fields {
			if f.Key == key {
				return f, true
			}
		}
		return refenc.Field{}, false
	}
	replaceField := func(key, val string) string {
		f, ok := field(key)
		if !ok {
			return man
		}
		s, e := f.Start-d.LineStart[1], f.End-d.LineStart[1]
		return man[:s] + val + man[e:]
	}
	// re-encodings of the manifest that decode to the same values
	emit("manifest.whitespace", "space after the opening brace", line1, "{ "+man[1:], macl)
	emit("manifest.whitespace", "space after every comma", line1, strings.ReplaceAll(man, `,"`, `, "`), macl)
	emit("manifest.whitespace", "space after every colon", line1, strings.ReplaceAll(man, `":`, `": `), macl)
	emit("manifest.whitespace", "space before every comma and before the closing brace", line1, strings.ReplaceAll(man[:len(man)-1], `,"`, ` ,"`)+" }", macl)
	emit("manifest.whitespace", "tab, CR and spaces inside the object", line1, "{\t"+strings.ReplaceAll(man[1:len(man)-1], `,"`, ",\r \"")+"\t}", macl)
	emit("manifest.whitespace", "trailing space", line1, man+" ", macl)
	emit("manifest.whitespace", "tab before the manifest", line1, "\t"+man, macl)
	// member-name case (encoding/json matches member names case-insensitively)
	for _, f := range d.Manifest.Fields {
		up := strings.ToUpper(f.Key)
		emit("manifest."+f.Key+"-case", fmt.Sprintf("member name %q written %q", f.Key, up), line1, strings.Replace(man, `"`+f.Key+`":`, `"`+up+`":`, 1), macl)
		if len(f.Key) > 1 {
			mixed := strings.ToUpper(f.Key[:1]) + f.Key[1:]
			emit("manifest."+f.Key+"-case", fmt.Sprintf("member name %q written %q", f.Key, mixed), line1, strings.Replace(man, `"`+f.Key+`":`, `"`+mixed+`":`, 1), macl)
		}
		// escapes: in the member name, and (strings only) in the value
		emit("manifest.escape", fmt.Sprintf("member name %q with its first letter as a \\u escape", f.Key), line1,
			strings.Replace(man, `"`+f.Key+`":`, fmt.Sprintf(`"\u%04x%s":`, f.Key[0], f.Key[1:]), 1), macl)
		if len(f.Raw) > 2 && f.Raw[0] == '"' {
			s, e := f.Start-d.LineStart[1], f.End-d.LineStart[1]
			emit("manifest.escape", fmt.Sprintf("first character of the value of %q as a \\u escape", f.Key), line1,
				man[:s+1]+fmt.Sprintf(`\u%04x`, man[s+1])+man[s+2:e]+man[e:], macl)
			if i := strings.IndexByte(man[s:e], '/'); i >= 0 {
				emit("manifest.escape", fmt.Sprintf("a solidus in the value of %q escaped", f.Key), line1, man[:s+i]+`\/`+man[s+i+1:], macl)
			}
		}
		// duplicates: the same member again (same value) at the end, and another value in front (the last one wins)
		emit("manifest.duplicate-member", fmt.Sprintf("member %q repeated at the end with the same value", f.Key), line1,
			man[:len(man)-1]+fmt.Sprintf(`,%q:%s}`, f.Key, f.Raw), macl)
		other := `"zz"`
		if f.Raw[0] != '"' {
			other = "2"
			if string(f.Raw) == "2" {
				other = "1"
			}
		}
		emit("manifest.duplicate-member", fmt.Sprintf("member %q with another value put in front (the original one comes last)", f.Key), line1,
			fmt.Sprintf(`{%q:%s,`, f.Key, other)+man[1:], macl)
		// unused trailing bits of the base64 values
		if f.Key == "np" || f.Key == "wfk" {
			s, e := f.Start-d.LineStart[1], f.End-d.LineStart[1]
			val := man[s+1 : e-1]
			if t := strings.TrimRight(val, "="); len(t) < len(val) {
				c := strings.IndexByte(b64alphabet, t[len(t)-1])
				emit("manifest."+f.Key+"-noncanonical-base64", "lowest unused bit of the last base64 character of "+f.Key+" set differently", line1,
					man[:s+1]+t[:len(t)-1]+string(b64alphabet[c^1])+val[len(t):]+man[e-1:], macl)
			}
		}
	}
	emit("manifest.unknown-member", "unknown member put in front", line1, `{"x":{"y":[1,2]},`+man[1:], macl)
	{
		var ms []string
		for i := len(d.Manifest.Fields) - 1; i >= 0; i-- {
			f := d.Manifest.Fields[i]
			ms = append(ms, fmt.Sprintf("%q:%s", f.Key, f.Raw))
		}
		emit("manifest.reorder", "members in reverse order", line1, "{"+strings.Join(ms, ",")+"}", macl)
	}
	emit("manifest.unknown-member", "unknown member appended", line1, man[:len(man)-1]+`,"x":1}`, macl)
	emit("manifest.duplicate-member", "cph member appended with the other cipher id", line1, man[:len(man)-1]+`,"cph":`+fmt.Sprint(3-d.Manifest.Cipher)+`}`, macl)
	emit("manifest.escape", "escaped spelling of the key name", line1, replaceField("k", `"c02\u002dkek"`), macl)
	emit("manifest.k", "key name changed", line1, replaceField("k", `"another-key"`), macl)
	if f, ok := field("k"); ok && d.Manifest.Fields[0].Key == "k" && len(d.Manifest.Fields) > 1 {
		emit("manifest.k", "key name removed", line1, "{"+man[f.End-d.LineStart[1]+1:], macl)
	}
	for kw := 0; kw <= 6; kw++ {
		if kw != d.Manifest.KW {
			emit("manifest.kw", fmt.Sprintf("kw changed to %d", kw), line1, replaceField("kw", fmt.Sprint(kw)), macl)
		}
	}
	for _, v := range []string{"1.0", "01", "1e0", `"1"`, "null", "-1"} {
		emit("manifest.kw", "kw spelled "+v, line1, replaceField("kw", v), macl)
	}
	for _, v := range []string{fmt.Sprint(3 - d.Manifest.Cipher), "0", "3", fmt.Sprint(d.Manifest.Cipher) + ".0", "null"} {
		emit("manifest.cph", "cph changed to "+v, line1, replaceField("cph", v), macl)
	}
	np2 := append([]byte{}, d.Manifest.NP...)
	np2[3] ^= 0x40
	emit("manifest.np", "another nonce prefix", line1, replaceField("np", `"`+base64.StdEncoding.EncodeToString(np2)+`"`), macl)
	emit("manifest.np", "6-byte nonce prefix", line1, replaceField("np", `"`+base64.StdEncoding.EncodeToString(np2[:6])+`"`), macl)
	emit("manifest.np", "8-byte nonce prefix", line1, replaceField("np", `"`+base64.StdEncoding.EncodeToString(append(np2, 0))+`"`), macl)
	emit("manifest.np", "unpadded base64 nonce prefix", line1, replaceField("np", `"`+base64.RawStdEncoding.EncodeToString(d.Manifest.NP)+`"`), macl)
	for kek := 0; kek < 2; kek++ {
		if p, err := partner(b, kek); err == nil {
			emit("manifest.wfk", fmt.Sprintf("wfk of another document (kek %d)", kek), line1, replaceField("wfk", `"`+base64.StdEncoding.EncodeToString(p.d.Manifest.WFK)+`"`), macl)
		}
	}
	emit("manifest.wfk", "wfk with 8 bytes appended", line1, replaceField("wfk", `"`+base64.StdEncoding.EncodeToString(append(append([]byte{}, d.Manifest.WFK...), make([]byte, 8)...))+`"`), macl)
	emit("manifest.wfk", "wfk with 3 bytes appended", line1, replaceField("wfk", `"`+base64.StdEncoding.EncodeToString(append(append([]byte{}, d.Manifest.WFK...), 1, 2, 3))+`"`), macl)
	emit("manifest.wfk", "the file key itself as wfk", line1, replaceField("wfk", `"`+base64.StdEncoding.EncodeToString(b.fk)+`"`), macl)
	emit("manifest.wfk", "empty wfk", line1, replaceField("wfk", `""`), macl)
	// MAC line
	emit("mac", "CR before the line feed", line1, man, macl+"\r")
	emit("mac", "CR in the middle", line1, man, macl[:20]+"\r"+macl[20:])
	emit("mac", "space appended", line1, man, macl+" ")
	emit("mac", "padding removed", line1, man, strings.TrimRight(macl, "="))
	emit("mac", "double padding", line1, man, macl+"=")
	emit("mac", "URL-safe alphabet", line1, man, strings.NewReplacer("+", "-", "/", "_").Replace(macl))
	emit("mac", "all-zero MAC", line1, man, base64.StdEncoding.EncodeToString(make([]byte, 32)))
	emit("mac", "MAC truncated to 16 bytes", line1, man, base64.StdEncoding.EncodeToString(d.MAC[:16]))
	emit("mac", "MAC with one byte appended", line1, man, base64.StdEncoding.EncodeToString(append(append([]byte{}, d.MAC...), 0)))
	emit("mac", "hex instead of base64", line1, man, hex.EncodeToString(d.MAC))
	for i := 1; i < 4; i++ { // the last character carries 2 unused bits: non-canonical spellings of the same MAC
		v := strings.IndexByte(b64alphabet, macl[42])
		emit("mac", fmt.Sprintf("non-canonical trailing bits (+%d)", i), line1, man, macl[:42]+string(b64alphabet[(v&^3)|((v+i)&3)])+"=")
	}
	// scheme line
	for _, v := range []string{"dapr.io/enc/v2", "dapr.io/enc/v1 ", "dapr.io/enc/v1\r", "DAPR.IO/ENC/V1", "dapr.io/enc/v", ""} {
		emit("scheme-line", fmt.Sprintf("scheme line %q", v), v, man, macl)
	}
	// line structure
	out = append(out,
		hedit{"line-structure", "CRLF line ends", []byte(line1 + "\r\n" + man + "\r\n" + macl + "\r\n")},
		hedit{"line-structure", "empty line after the scheme line", []byte(line1 + "\n\n" + man + "\n" + macl + "\n")},
		hedit{"line-structure", "empty line before the payload", []byte(line1 + "\n" + man + "\n" + macl + "\n\n")},
		hedit{"line-structure", "manifest and MAC swapped", []byte(line1 + "\n" + macl + "\n" + man + "\n")},
		hedit{"line-structure", "header repeated", append(append([]byte{}, b.header()...), b.header()...)},
		hedit{"line-structure", "manifest padded to push the header over 64 KiB", []byte(line1 + "\n" + man + strings.Repeat(" ", 70000) + "\n" + macl + "\n")})
	return out
}

func famFieldEdit(j *judgeCtx) {
	b := j.b
	for _, e := range b.headerEdits() {
		j.judge(&mutant{class: "field-edit", pos: e.pos, desc: e.desc, parts: [][]byte{e.hdr, b.payload()}})
	}
}

// famHeaderDropPayload: an edited header COMBINED with the removal of the
// payload (all of it, or all but its first k bytes), for non-empty plaintexts.
// An edited header that a reader accepts turns, together with "no segments",
// into a silently shortened message even when the same header in front of the
// intact payload would only reproduce the identical plaintext.
func famHeaderDropPayload(j *judgeCtx) {
	b := j.b
	if len(b.pt) == 0 {
		return
	}
	pl := b.payload()
	keeps := []int{0, 1, 15, 16, 17, 100, len(pl) - 1}
	if len(pl) > int(segLen) {
		keeps = append(keeps, int(segLen), int(segLen)+1)
	}
	for _, e := range b.headerEdits() {
		seen := map[int]bool{}
		for _, k := range keeps {
			if k < 0 || k >= len(pl) || seen[k] {
				continue
			}
			seen[k] = true
			class, desc := "header-edit+drop-payload", e.desc+"; all segments dropped"
			if k > 0 {
				class, desc = "header-edit+cut-payload", fmt.Sprintf("%s; payload cut to its first %d of %d bytes", e.desc, k, len(pl))
			}
			j.judge(&mutant{class: class, pos: e.pos, desc: desc, parts: [][]byte{e.hdr, pl[:k]}})
		}
	}
	// every single-bit flip, one-byte insertion and deletion in the header, with the payload dropped
	for off := 0; off < b.hdr; off++ {
		for bit := 0; bit < 8; bit++ {
			h := append([]byte(nil), b.header()...)
			h[off] ^= 1 << bit
			j.judge(&mutant{class: "bitflip+drop-payload", pos: b.posOf(off), desc: fmt.Sprintf("bit %d of header byte %d (%q) flipped; all segments dropped", bit, off, b.doc[off]), parts: [][]byte{h}})
			if bit == 0 || mon.Thorough() {
				j.judge(&mutant{class: "bitflip+cut-payload", pos: b.posOf(off), desc: fmt.Sprintf("bit %d of header byte %d flipped; payload cut to its first 17 bytes", bit, off), parts: [][]byte{h, pl[:min(17, len(pl)-1)]}})
			}
		}
		for _, v := range []byte{'\n', '\r', ' ', '=', 'A', 0} {
			h := append(append(append([]byte(nil), b.doc[:off]...), v), b.doc[off:b.hdr]...)
			j.judge(&mutant{class: "insert+drop-payload", pos: b.posOf(off), desc: fmt.Sprintf("byte %#02x inserted before header offset %d; all segments dropped", v, off), parts: [][]byte{h}})
		}
		h := append(append([]byte(nil), b.doc[:off]...), b.doc[off+1:b.hdr]...)
		j.judge(&mutant{class: "delete+drop-payload", pos: b.posOf(off), desc: fmt.Sprintf("header byte %d removed; all segments dropped", off), parts: [][]byte{h}})
	}
}

func famSourceError(j *judgeCtx) {
	b := j.b
	type at struct {
		k   int
		pos string
	}
	var ats []at
	seen := map[int]bool{}
	add := func(k int) {
		if k < 0 || k > len(b.doc) || seen[k] {
			return
		}
		seen[k] = true
		pos := "final-eof"
		if k < len(b.doc) {
			pos = b.cutPos(k)
		}
		ats = append(ats, at{k, pos})
	}
	for k := 0; k <= b.hdr; k++ {
		add(k)
	}
	for _, x := range b.boundaries() {
		for dlt := -2; dlt <= 2; dlt++ {
			add(x + dlt)
		}
	}
	for _, s := range b.d.Segments {
		add(s.Offset + s.Length/2)
		add(s.Offset + s.Length + 8)
	}
	add(len(b.doc))
	nEnum := len(ats)
	for i := 0; i < mon.Pick(200, 4000) && len(b.doc) > 0; i++ {
		add(j.rng.Intn(len(b.doc) + 1))
	}
	for ai, a := range ats {
		for _, withData := range []bool{false, true} {
			if withData && a.k == 0 {
				continue
			}
			pos := a.pos
			if withData {
				pos += "+data"
			}
			rec.Count("srcerr.at."+pos, 1)
			// every error of the family at the enumerated offsets (every header offset, around every
			// boundary, mid-segment, in place of the final EOF); one seeded member at the seeded offsets
			kinds := srcErrors
			if ai >= nEnum {
				k := j.rng.Intn(len(srcErrors))
				kinds = srcErrors[k : k+1]
			}
			for _, e := range kinds {
				class := "srcerr"
				if e.name != "" {
					class = "srcerr(" + e.name + ")"
				}
				j.judge(&mutant{class: class, pos: pos, desc: fmt.Sprintf("source reader fails with %q at offset %d of %d (together with the last data: %v)", e.err, a.k, len(b.doc), withData),
					parts: [][]byte{b.doc}, srcErr: true, failAt: a.k, failWithData: withData, failErr: e.err})
			}
		}
	}
}

// famCompound: two mutations at once (a compound that leaves a bare header is
// classified like every other payload-less mutant, see judge).
func famCompound(j *judgeCtx) {
	b := j.b
	ns := len(b.d.Segments)
	hp := func(off int) string {
		if off < b.hdr {
			return "header"
		}
		return "payload"
	}
	n := mon.Pick(600, 20000)
	if len(b.doc) > 4096 {
		n = mon.Pick(200, 4000)
	}
	for i := 0; i < n; i++ {
		doc := append([]byte(nil), b.doc...)
		var c1, p1, d1 string
		switch k := j.rng.Intn(4); {
		case k == 0 || ns < 2:
			off := j.rng.Intn(len(doc))
			if j.rng.Chance(1, 3) { // the tolerated bits of the MAC line, to combine the tolerance with something else
				off = b.hdr - 3
			}
			bit := j.rng.Intn(8)
			doc[off] ^= 1 << bit
			c1, p1, d1 = "bitflip", b.posOf(off), fmt.Sprintf("bit %d of byte %d", bit, off)
		case k == 1:
			x, y := j.rng.Intn(ns), j.rng.Intn(ns)
			if x == y {
				y = (x + 1) % ns
			}
			sx, sy := append([]byte(nil), b.seg(x)...), append([]byte(nil), b.seg(y)...)
			if x > y {
				x, y, sx, sy = y, x, sy, sx
			}
			nd := append([]byte(nil), b.doc[:b.d.Segments[x].Offset]...)
			nd = append(nd, sy...)
			nd = append(nd, b.doc[b.d.Segments[x].End():b.d.Segments[y].Offset]...)
			nd = append(nd, sx...)
			nd = append(nd, b.doc[b.d.Segments[y].End():]...)
			doc = nd
			c1, p1, d1 = "seg-swap", "payload", fmt.Sprintf("segments %d and %d swapped", x, y)
		case k == 2:
			x := j.rng.Intn(ns)
			s := b.d.Segments[x]
			doc = append(append([]byte(nil), b.doc[:s.Offset]...), b.doc[s.End():]...)
			c1, p1, d1 = "seg-delete", "payload", fmt.Sprintf("segment %d removed", x)
		default:
			x := j.rng.Intn(ns)
			s := b.d.Segments[x]
			doc = append(append(append([]byte(nil), b.doc[:s.End()]...), b.seg(x)...), b.doc[s.End():]...)
			c1, p1, d1 = "seg-duplicate", "payload", fmt.Sprintf("segment %d duplicated", x)
		}
		var c2, p2, d2 string
		switch j.rng.Intn(3) {
		case 0:
			off := j.rng.Intn(len(doc))
			bit := j.rng.Intn(8)
			doc[off] ^= 1 << bit
			c2, p2, d2 = "bitflip", hp(off), fmt.Sprintf("bit %d of byte %d", bit, off)
		case 1:
			t := j.rng.Intn(len(doc))
			if j.rng.Chance(1, 2) && ns > 0 { // cut at a segment-sized boundary
				t = b.hdr + (1+j.rng.Intn(ns))*(refenc.SegmentSize+refenc.TagSize)
				if t >= len(doc) {
					t = len(doc) - 1
				}
			}
			doc = doc[:t]
			c2, p2, d2 = "truncate", hp(t), fmt.Sprintf("cut to %d bytes", t)
		default:
			nn := j.rng.PickInt(1, 16, 17, 65552)
			doc = append(doc, j.rng.Bytes(nn)...)
			c2, p2, d2 = "extend", "end", fmt.Sprintf("%d random bytes appended", nn)
		}
		before := j.n
		j.judge(&mutant{class: "compound(" + c1 + "+" + c2 + ")", pos: p1 + "+" + p2, desc: d1 + "; then " + d2, parts: [][]byte{doc}})
		if j.n > before {
			rec.Case(j.idx, fmt.Sprintf("compound/%d/%s/%s", b.id, d1, d2), true)
		}
	}
}

// ------------------------------------------------------------------ main

type caseSpec struct {
	base   int
	family int
}

func TestCheck(t *testing.T) {
	rec = mon.Open("C02")
	defer rec.Close()
	specs := baseSpecs()
	rec.Note("rule", "Base documents: plaintext lengths "+fmt.Sprint(baseLens())+" x {AES-GCM, ChaCha20-Poly1305} x produced by {kit.Encrypt, internal/refenc}, file key wrapped with AES-KW by kit's crypto package. "+
		"A case index = (base document, mutation family); the families are: bit flip of every bit of every header byte; bit flips at first/middle/last body byte, every tag byte and seeded bytes of every segment; "+
		"truncation at every offset (documents <= 1 KiB) or every header offset, +-20 around every structural boundary and seeded offsets; extension by {1,15,16,17,65551,65552,65553} bytes (zeros, random, own bytes); "+
		"segment delete/duplicate/append/swap/drop-tail/drop-head for every segment; splices with a same-length document under the same and under another key-encryption key (payload, header, MAC line, manifest, single segment, tag, body); "+
		"nine misbehaving unwrap callbacks; one-byte insertions (7 values) and deletions at every header offset and at segment landmarks; ~110 semantic header edits (JSON re-encodings that parse to the same values: white space, member order, member-name case, \\u escapes, duplicate and unknown members, unused base64 bits of np/wfk; changes of every field; MAC-line spellings; scheme line; line structure); "+
		"for non-empty plaintexts every one of these header edits, every single-bit flip and every one-byte insertion/deletion of the header COMBINED with dropping all segments or keeping only the first k payload bytes; "+
		"sticky source-reader errors at every header offset, around every boundary, mid-segment, in place of the final EOF, each alone (0, err) and together with the last data (n>0, err), and each with every member of an error family (private sentinel, io.ErrUnexpectedEOF plain and wrapped, io.ErrNoProgress, io.ErrClosedPipe, context.Canceled, wrapped os.ErrDeadlineExceeded, a net.Error-like timeout), plus seeded offsets with a seeded member; seeded compound mutations; SOURCE CAPABILITIES: in a fraction of the Decrypts of every family and for unmodified control documents in every case the source is more than an io.Reader - a wrapper whose Seek always fails (1/8 of all Decrypts, around the scripted reader with all its chunking and error injection), a Seek-forwarding wrapper over a bytes.Reader and a bufio layer with a Seek that moves the reader underneath (1/16 each, documents up to 70000 bytes), the read end of an os.Pipe fed by a goroutine (1/64, documents up to 8 KiB; an *os.File whose Seek fails at run time); oracle unchanged. SOURCE STYLE header-as-its-own-chunk: in a quarter of the Decrypts of every family (and for one unmodified control document per case) the source delivers exactly the header of the document as it is (up to its third line feed) in 1-3 chunks of its own, then 1, 2 or 5 legal no-progress reads (0, nil) before any body byte, further (0, nil) reads between body chunks and one before the final EOF or injected error; the oracle is unchanged (never a clean EOF short of the authentic plaintext; the known finding still only matches a document reduced to its authentic header). BUSY UNWRAP CALLBACK: in every fourth Decrypt of every family (tampered, truncated, forged, overlapped ... documents, honest and hostile callbacks alike) and for one unmodified control document per (base document, family) case, the unwrap callback first runs a complete inner enc/v1 Encrypt->Decrypt round trip of a ~2 KiB record through the same package (which must itself be exact) and only then answers - the package-level pools are used between kit's header read and its first segment; the oracle of the outer document is unchanged (a control document must decrypt exactly). FORGED documents (after the huge cases): built by refenc under a file key an attacker can guess (all zero, all 0xFF, 32 x 0x01, the wfk bytes, SHA-256 of the manifest or of the wfk, the padded key name) x both ciphers x plaintext lengths {0,1,1000,65536,65537} x wfk field {garbage, short garbage, another valid document's wfk} x 12 unwrap behaviours (honest, error, nil, empty, 3/31/33/64 bytes, that key WITH an error, other keys with and without error): every one must be refused without releasing a byte (an accepted EMPTY forged document is observed, not judged); OVERLAP mode: for the unmodified document and a sample of mutants of every class, the Decrypt stream is read to k bytes (k in {1,10,65535,65546}), then complete other operations run (decrypt of an unrelated valid document, of a tampered one, of attacker-supplied garbage, an Encrypt), then the rest is read - or the stream is given up and closed after three such operations; the outer stream and every inner operation are judged by the same rule (an unmodified document must give exactly its plaintext). "+
		"Huge tamper cases (after the ordinary ones, each run by one child; quick: AES-GCM, thorough: both ciphers): kit.Encrypt of a generated 4 GiB + 128 KiB + 100 byte plaintext (65539 segments, every one different) is streamed to a scratch file, then (a) segment 65536 is replaced by a copy of segment 0 and (b) segments 1 and 65537 are swapped, the tampered document is streamed through kit.Decrypt and the released bytes are compared position by position with the generator - the only mutants in which segment numbers differ in the upper half of the nonce's 32-bit counter. "+
		"Every mutant is decrypted by the real kit.Decrypt through an all-at-once or seeded-chunk reader and read to the end. Rule: Decrypt error OR non-EOF stream error OR (bytes == plaintext AND EOF), and the released bytes are a prefix of the plaintext; "+
		"for a source error an error is mandatory. A payload-less mutant that kit turns into \"\" + clean EOF is classified by the independent implementation (refenc.CheckHeader: does the MAC over the raw first two lines verify?): authentic header = the known format-level finding truncate@header-end/nonempty; header rejected by the reference = a violation with the mutation's own signature; only the MAC-line spelling differs (kit lenient, reference strict) = observed, not judged. Accepted mutants with identical plaintext whose header the reference rejects are counted (accepted_identical_but_header_fails_reference_mac), not judged. Mutants equal to the original are skipped. Evaluations = mutants judged; enumerated families are distinct by construction, seeded compound mutants are keyed by their description; non-trivial = every mutant (it differs from the original or carries a fault).")
	rec.Note("require", []string{"outcome.decrypt_error", "outcome.stream_error", "outcome.stream_error_after_authentic_prefix", "outcome.accepted_identical_plaintext",
		"srcerr.surfaced", "truncate.at.segment-boundary", "truncate.at.header-end", "truncate.at.segment-tag", "truncate.at.segment-body", "srcerr.at.final-eof", "srcerr.at.final-eof+data",
		"rejected_or_identical.seg-swap", "rejected_or_identical.splice-samekek", "rejected_or_identical.splice-otherkek", "rejected_or_identical.unwrap", "rejected_or_identical.extend",
		"huge.tamper_rejected.seg-replace", "huge.tamper_rejected.seg-swap", "huge.rejected_exactly_at_segment_65536",
		"srccap.erroring-Seek", "srccap.Seek-forwarding", "srccap.bufio+inconsistent-Seek", "srccap.os.Pipe", "srccap.control_documents_exact", "srcstyle.header_as_own_chunk", "srcstyle.zero_length_reads", "srcstyle.control_documents_exact", "busy_unwrap.decrypts", "busy_unwrap.inner_round_trips_exact", "busy_unwrap.control_documents_exact", "callback.key_cache_verified", "forged.documents_judged", "forged.refused_by_decrypt", "forged.unwrap.honest", "forged.unwrap.error", "forged.unwrap.that-key-with-error", "forged.unwrap.64-bytes",
		"overlap.cases", "overlap.outer_stream_was_half_read", "overlap.intact_stream_exact", "overlap.abandoned_cases", "overlap.abandoned_stream_prefix_ok", "overlap.abandoned_stream_closed",
		"overlap.inner.decrypt-valid", "overlap.inner.decrypt-tampered", "overlap.inner.decrypt-garbage", "overlap.inner.encrypt_ok",
		"rejected_or_identical.srcerr", "rejected_or_identical.srcerr(unexpected-eof)", "rejected_or_identical.srcerr(wrapped-unexpected-eof)", "rejected_or_identical.srcerr(context-canceled)", "srcerr.surfaced_as_the_injected_error",
		"rejected_or_identical.header-edit+drop-payload", "rejected_or_identical.header-edit+cut-payload", "rejected_or_identical.bitflip+drop-payload", "payloadless_accepted.header_authentic"})
	rec.Count("accepted_identical_but_header_fails_reference_mac", 0)
	rec.Count("payloadless_accepted.mac_line_spelling_only", 0)
	var plan []caseSpec
	for bi := range specs {
		for fi := range families {
			plan = append(plan, caseSpec{bi, fi})
		}
	}
	// the huge tamper cases come after the ordinary ones; each is run by exactly one child
	for i, h := range hugePlan() {
		idx := len(plan) + i
		if !mon.Mine(idx) {
			continue
		}
		curIdx = idx
		rec.Begin(idx, h.String())
		runHuge(idx, h)
	}
	// forged documents (after the huge cases)
	for i, f := range forgedPlan() {
		idx := len(plan) + len(hugePlan()) + i
		if !mon.Mine(idx) {
			continue
		}
		curIdx = idx
		rec.Begin(idx, f.String())
		runForged(idx, f)
	}
	bases := map[int]*base{}
	for idx, c := range plan {
		if !mon.Mine(idx) {
			continue
		}
		sp := specs[c.base]
		curIdx = idx
		rec.Begin(idx, fmt.Sprintf("base#%d{len=%d cipher=%s producer=%s} family=%s", c.base, sp.length, refenc.CipherName(sp.cipher), sp.producer, families[c.family].name))
		b, ok := bases[c.base]
		if !ok {
			var err error
			b, err = makeDoc("base", c.base, sp, 0)
			if err != nil {
				b = nil
				rec.Observe("base document unusable: " + err.Error())
			}
			bases[c.base] = b
		}
		if b == nil {
			rec.Inconclusive(idx, "base document could not be produced or does not decrypt unmutated (C01's subject)", fmt.Sprintf("%+v", sp))
			continue
		}
		j := &judgeCtx{idx: idx, b: b, rng: mon.NewRNG("c02-case", idx)}
		// control: the unmodified document, decrypted with the busy unwrap callback, must come out exactly
		ctl := &mutant{class: "control", pos: "busy-unwrap", desc: "unmodified document, unwrap callback runs an inner enc/v1 round trip first", parts: [][]byte{b.doc}, intact: true, forceBusy: true}
		before := rec.Violations()
		j.evaluate(ctl, run(ctl, nil))
		if rec.Violations() == before {
			rec.Count("busy_unwrap.control_documents_exact", 1)
		}
		// control: the unmodified document from a source that delivers the header as its own chunk(s), then
		// legal no-progress reads (0, nil) before the body, between body chunks and before the EOF
		ctl2 := &mutant{class: "control", pos: "header-own-chunk+zero-length-reads", desc: "unmodified document, header delivered as its own chunk(s), zero-length reads before and inside the body", parts: [][]byte{b.doc}, intact: true, forceHdrChunk: true, forceBusy: idx%2 == 0}
		before = rec.Violations()
		j.evaluate(ctl2, run(ctl2, nil))
		if rec.Violations() == before {
			rec.Count("srcstyle.control_documents_exact", 1)
		}
		// controls: the unmodified document from sources that have a Seek method (failing, forwarding, inconsistent)
		// and from the read end of an os.Pipe
		for _, kind := range []string{"erroring-Seek", "Seek-forwarding", "bufio+inconsistent-Seek", "os.Pipe"} {
			if kind == "os.Pipe" && (len(b.doc) > 8192 || c.family%4 != 0) {
				continue
			}
			ctl3 := &mutant{class: "control", pos: "source=" + kind, desc: "unmodified document read from a " + kind + " source", parts: [][]byte{b.doc}, intact: true, forceCap: kind}
			before = rec.Violations()
			j.evaluate(ctl3, run(ctl3, nil))
			if rec.Violations() == before {
				rec.Count("srccap.control_documents_exact", 1)
			}
		}
		families[c.family].run(j)
		rec.Count("family."+families[c.family].name, int(j.n))
		if families[c.family].name == "compound" {
			// seeded, possibly repeating: counted one by one with their own keys in famCompound
		} else if j.n > 0 {
			rec.Bulk(idx, j.n, true)
		}
		if rec.WantSample() && c.family == 2 && c.base%9 == 4 {
			rec.Sample(map[string]any{"base": b.String(), "family": families[c.family].name, "mutants_judged": j.n, "header": string(b.header())})
		}
	}
}
