package c02

// Overlap mode. Every other family decrypts strictly one document after the
// other. Here a Decrypt stream A is read only partly (k bytes), then other
// complete enc/v1 operations run - the decryption of an unrelated valid
// document, of a tampered and of a plainly invalid one, an Encrypt - and only
// then the rest of A is read (or A is given up and closed). All of them share
// kit's package-level buffer pool; what A releases must still obey the rule
// (prefix of its plaintext; error unless identical; an unmodified A gives
// exactly its plaintext), and so must the inner operations. No goroutines
// beyond the ones Decrypt/Encrypt start themselves; the order of all reads is
// fixed.

import (
	"bytes"
	"fmt"
	"io"

	enc "github.com/dapr/kit/schemes/enc/v1"

	"verif/harness/internal/mon"
	"verif/harness/internal/refenc"
)

type innerOp string

const (
	opDecryptValid    innerOp = "decrypt-valid"
	opDecryptTampered innerOp = "decrypt-tampered"
	opDecryptGarbage  innerOp = "decrypt-garbage"
	opEncrypt         innerOp = "encrypt"
)

// overlapSample: the unmodified document and one or two mutants of every class.
func (b *base) overlapSample(j *judgeCtx) []*mutant {
	ms := []*mutant{{class: "intact", pos: "whole", desc: "unmodified document", parts: [][]byte{b.doc}, intact: true}}
	add := func(class, pos, desc string, parts [][]byte) {
		ms = append(ms, &mutant{class: class, pos: pos, desc: desc, parts: parts})
	}
	flip := func(off int) {
		add("bitflip", b.posOf(off), fmt.Sprintf("bit 2 of byte %d", off), b.patched(off, 1, []byte{b.doc[off] ^ 4}))
	}
	flip(b.d.LineStart[1] + 5) // manifest
	flip(b.hdr - 3)            // the MAC line's last character: may be a tolerated spelling
	ns := len(b.d.Segments)
	for i, s := range b.d.Segments {
		if i == 0 || i == ns-1 {
			flip(s.Offset + s.Length/2)
			flip(s.Offset + s.Length + 5)
		}
	}
	if ns > 0 {
		last := b.d.Segments[ns-1]
		add("truncate", b.cutPos(last.Offset+last.Length/2+1), "cut inside the last segment", [][]byte{b.doc[:last.Offset+last.Length/2+1]})
		add("truncate", "header-end", "cut right after the header", [][]byte{b.header()})
		add("extend", "end+1", "one byte appended", [][]byte{b.doc, {0x55}})
		add("seg-duplicate", "last-segment", "last segment duplicated", [][]byte{b.doc, b.seg(ns - 1)})
		if p, err := partner(b, 0); err == nil {
			add("splice-samekek", "payload", "own header, payload of another document", [][]byte{b.header(), p.payload()})
			parts := [][]byte{b.header()}
			for i := 0; i < ns; i++ {
				if i == ns-1 {
					parts = append(parts, p.seg(i))
				} else {
					parts = append(parts, b.seg(i))
				}
			}
			add("splice-samekek", "segment", "last segment replaced by another document's", parts)
		}
		mid := last.Offset + last.Length/2
		ms = append(ms,
			&mutant{class: "srcerr(unexpected-eof)", pos: b.cutPos(mid), desc: "source fails with unexpected EOF inside the last segment", parts: [][]byte{b.doc}, srcErr: true, failAt: mid, failErr: io.ErrUnexpectedEOF},
			&mutant{class: "srcerr", pos: "final-eof", desc: "source fails in place of the final EOF", parts: [][]byte{b.doc}, srcErr: true, failAt: len(b.doc), failErr: errBoom})
	}
	if ns > 1 {
		first := b.d.Segments[0]
		add("truncate", "segment-boundary", "cut at the end of the first segment", [][]byte{b.doc[:first.End()]})
		add("seg-swap", "first-segment+last-segment", "first and last segment swapped", append(append([][]byte{b.header(), b.seg(ns - 1)}, b.doc[first.End():b.d.Segments[ns-1].Offset]), b.seg(0)))
		add("seg-delete", "first-segment", "first segment removed", [][]byte{b.header(), b.doc[first.End():]})
	}
	d := b.d
	add("field-edit", "mac", "CR before the line feed of the MAC line", [][]byte{b.doc[:b.hdr-1], []byte("\r\n"), b.payload()})
	add("field-edit", "manifest.k-case", "member name k written K", [][]byte{bytes.Replace(b.header(), []byte(`{"k":`), []byte(`{"K":`), 1), b.payload()})
	_ = d
	return ms
}

// inner runs one complete other operation and judges it by its own rule.
func (j *judgeCtx) inner(op innerOp, pb *base) {
	rec.Count("overlap.inner."+string(op), 1)
	jb := &judgeCtx{idx: j.idx, b: pb, rng: j.rng}
	defer func() { j.n += jb.n }()
	switch op {
	case opDecryptValid:
		m := &mutant{class: "overlap-inner(intact)", pos: "whole", desc: "unrelated valid document decrypted while another stream is half read", parts: [][]byte{pb.doc}, intact: true}
		jb.evaluate(m, run(m, nil))
	case opDecryptTampered:
		s := pb.d.Segments
		if len(s) == 0 { // an empty message: append a byte instead
			m := &mutant{class: "overlap-inner(extend)", pos: "end+1", desc: "tampered document (one byte appended) decrypted while another stream is half read", parts: [][]byte{pb.doc, {1}}}
			jb.evaluate(m, run(m, nil))
			return
		}
		off := s[len(s)-1].Offset + s[len(s)-1].Length + 3
		m := &mutant{class: "overlap-inner(bitflip)", pos: "segment-tag", desc: "tampered document (tag bit of the last segment) decrypted while another stream is half read", parts: pb.patched(off, 1, []byte{pb.doc[off] ^ 1})}
		jb.evaluate(m, run(m, nil))
	case opDecryptGarbage:
		// attacker-supplied bytes that never pass header validation; they are read into a pooled buffer all the same
		m := &mutant{class: "overlap-inner(garbage)", pos: "header", desc: "invalid document (scheme line followed by 70000 bytes without a line feed)",
			parts: [][]byte{[]byte(refenc.SchemeLine + "\n"), bytes.Repeat([]byte{0xEE}, 70000)}}
		jb.evaluate(m, run(m, nil))
	case opEncrypt:
		jb.n++
		pt := bytes.Repeat([]byte{0xC3, 0x3C, 0x99}, 30000)
		ci := enc.CipherAESGCM
		r, err := enc.Encrypt(bytes.NewReader(pt), enc.EncryptOptions{
			WrapKeyFn: func(fk []byte, alg, name string, nonce []byte) ([]byte, []byte, error) {
				w, err := kekWrap(0, fk)
				return w, nil, err
			}, Algorithm: enc.KeyAlgorithmAES256KW, KeyName: keyName, Cipher: &ci})
		var ct []byte
		if err == nil {
			ct, err = io.ReadAll(r)
		}
		var back []byte
		if err == nil {
			back, err = refenc.Decrypt(ct, refUnwrapA)
		}
		if err != nil || !bytes.Equal(back, pt) {
			rec.Violation(j.idx, "overlap-inner(encrypt)@whole/ciphertext-does-not-decrypt",
				fmt.Sprintf("an Encrypt run while another Decrypt stream was half read produced a document the reference implementation does not decrypt to the plaintext: %v", err),
				map[string]any{"plaintext": "bytes.Repeat({0xC3,0x3C,0x99}, 30000)", "ciphertext_len": len(ct)})
			return
		}
		rec.Count("overlap.inner.encrypt_ok", 1)
	}
}

func famOverlap(j *judgeCtx) {
	b := j.b
	pb, err := partner(b, 0)
	if err != nil {
		rec.Inconclusive(j.idx, "cannot build the overlap partner: "+err.Error(), b.String())
		return
	}
	combos := [][]innerOp{{opDecryptValid}, {opDecryptGarbage}, {opEncrypt}, {opDecryptTampered, opDecryptValid}}
	if mon.Thorough() {
		combos = append(combos, []innerOp{opDecryptTampered}, []innerOp{opEncrypt, opDecryptGarbage}, []innerOp{opDecryptValid, opEncrypt})
	}
	abandonOps := []innerOp{opDecryptValid, opDecryptGarbage, opEncrypt}
	for _, m0 := range b.overlapSample(j) {
		for _, k := range []int{1, 10, 65535, 65536 + 10} {
			if k >= len(b.pt) {
				continue
			}
			// (1)-(3): A read to k, inner operations, the rest of A
			for _, ops := range combos {
				m := *m0
				m.class = "overlap:" + m0.class
				m.desc = fmt.Sprintf("%s; stream read to %d bytes, then %v run to their end, then the rest read", m0.desc, k, ops)
				s := start(&m, nil)
				s.read(k)
				pending := !s.done
				for _, op := range ops {
					j.inner(op, pb)
				}
				s.read(-1)
				rec.Count("overlap.cases", 1)
				if pending {
					rec.Count("overlap.outer_stream_was_half_read", 1)
				}
				j.evaluate(&m, s.o)
			}
			// reverse nesting: A given up half-read, three operations, then A closed
			m := *m0
			m.class = "overlap-abandoned:" + m0.class
			m.desc = fmt.Sprintf("%s; stream read to %d bytes and given up, then %v run, then the stream closed", m0.desc, k, abandonOps)
			s := start(&m, nil)
			s.read(k)
			stillOpen := !s.done
			for _, op := range abandonOps {
				j.inner(op, pb)
			}
			o := s.o
			o.abandoned = true
			if stillOpen {
				if _, ok := s.dr.(io.Closer); ok {
					rec.Count("overlap.abandoned_stream_closed", 1)
				} else {
					rec.Count("overlap.abandoned_stream_not_closable", 1)
				}
			}
			s.abandon()
			rec.Count("overlap.abandoned_cases", 1)
			j.evaluate(&m, o)
		}
	}
}
