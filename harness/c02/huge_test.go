package c02

// "Huge tamper" cases: a kit-produced document of more than 65537 segments
// (> 4 GiB) in which whole segments whose numbers differ by 65536 are
// substituted or swapped. They are the only mutants that reach the upper half
// of the nonce's 32-bit segment counter. The document is written once to a
// file under $VERIF_SCRATCH (removed afterwards); the tampered streams are
// assembled from io.SectionReader pieces; the released plaintext is compared
// position by position with the deterministic generator, never held in memory.

import (
	"bytes"
	"encoding/hex"
	"fmt"
	"io"
	"os"
	"path/filepath"
	"strings"
	"time"

	enc "github.com/dapr/kit/schemes/enc/v1"

	"verif/harness/internal/mon"
	"verif/harness/internal/refenc"
)

// 65538 full segments (numbers 0..65537) and a last one of 100 bytes.
const (
	hugeSize     = int64(65536)*65536 + 2*65536 + 100
	hugeSegments = 65539
	segLen       = int64(refenc.SegmentSize + refenc.TagSize)
)

type hugeSpec struct{ cipher int }

func (h hugeSpec) String() string {
	return fmt.Sprintf("huge-tamper producer=kit cipher=%s plaintext=%d bytes (%d segments)", refenc.CipherName(h.cipher), hugeSize, hugeSegments)
}

// quick: the cheaper cipher (AES-GCM: 3.7 s against 7.7 s for ChaCha20-Poly1305
// per 4 GiB pass on this machine); thorough: both.
func hugePlan() []hugeSpec {
	if mon.Thorough() {
		return []hugeSpec{{refenc.CipherAESGCM}, {refenc.CipherChaCha}}
	}
	return []hugeSpec{{refenc.CipherAESGCM}}
}

type piece struct{ off, n int64 }

func runHuge(idx int, h hugeSpec) {
	start := time.Now()
	dir := os.Getenv("VERIF_SCRATCH")
	if dir == "" {
		dir = filepath.Join(os.TempDir(), fmt.Sprintf("verif-c02-huge-%d", os.Getpid()))
	}
	if err := os.MkdirAll(dir, 0o755); err != nil {
		rec.Inconclusive(idx, "cannot create the scratch directory: "+err.Error(), dir)
		return
	}
	path := filepath.Join(dir, fmt.Sprintf("c02-huge-%d.enc", idx))
	defer os.Remove(dir) // runs last, after the file is gone; only succeeds if the directory is empty
	defer os.Remove(path)

	// ---- produce the document with the real kit.Encrypt, streamed to the file
	genSeed := mon.Seed()*1000 + uint64(idx)
	gen := refenc.NewGen(genSeed)
	ci := enc.CipherAESGCM
	if h.cipher == refenc.CipherChaCha {
		ci = enc.CipherChaCha20Poly1305
	}
	var fk []byte
	er, err := enc.Encrypt(gen.Reader(hugeSize), enc.EncryptOptions{
		WrapKeyFn: func(k []byte, alg, name string, nonce []byte) ([]byte, []byte, error) {
			fk = append([]byte(nil), k...)
			w, err := kekWrap(0, k)
			return w, nil, err
		},
		Algorithm: enc.KeyAlgorithmAES256KW, KeyName: keyName, Cipher: &ci})
	if err != nil {
		rec.Inconclusive(idx, "kit.Encrypt failed for the huge document: "+err.Error(), h.String())
		return
	}
	f, err := os.Create(path)
	if err != nil {
		rec.Inconclusive(idx, "cannot create the scratch file: "+err.Error(), path)
		return
	}
	defer f.Close()
	written, err := io.CopyBuffer(struct{ io.Writer }{f}, struct{ io.Reader }{&tickReader{r: er}}, make([]byte, 1<<20))
	if err != nil {
		rec.Inconclusive(idx, "writing the huge document failed: "+err.Error(), path)
		return
	}
	tEnc := time.Since(start)
	head := make([]byte, 4096)
	n, _ := f.ReadAt(head, 0)
	head = head[:n]
	hdr := 0
	for i, nl := 0, 0; i < len(head); i++ {
		if head[i] == '\n' {
			if nl++; nl == 3 {
				hdr = i + 1
				break
			}
		}
	}
	if hdr == 0 || written != int64(hdr)+hugeSize+refenc.TagSize*hugeSegments {
		rec.Inconclusive(idx, fmt.Sprintf("the huge document has an unexpected layout: %d bytes, header %d (C01's subject)", written, hdr), h.String())
		return
	}
	off := func(seg int64) int64 { return int64(hdr) + seg*segLen }

	type tamper struct {
		class, pos, desc string
		pieces           []piece
	}
	tampers := []tamper{
		{"seg-replace", "huge/segment-65536-by-0", "segment 65536 (ciphertext and tag) replaced by a copy of segment 0",
			[]piece{{0, off(65536)}, {off(0), segLen}, {off(65537), written - off(65537)}}},
		{"seg-swap", "huge/segments-1-and-65537", "segments 1 and 65537 swapped",
			[]piece{{0, off(1)}, {off(65537), segLen}, {off(2), off(65537) - off(2)}, {off(1), segLen}, {off(65538), written - off(65538)}}},
	}
	for _, tm := range tampers {
		t0 := time.Now()
		var rs []io.Reader
		var total int64
		for _, p := range tm.pieces {
			rs = append(rs, io.NewSectionReader(f, p.off, p.n))
			total += p.n
		}
		if total != written {
			rec.Fatalf("huge tamper %s: pieces cover %d of %d bytes", tm.pos, total, written)
		}
		site := tm.class + "@" + tm.pos
		rec.Step(site + " " + tm.desc)
		chk := gen.NewChecker()
		chk.Tick = rec.Progress
		var dr io.Reader
		var decErr error
		func() {
			defer func() {
				if p := recover(); p != nil {
					decErr = fmt.Errorf("PANIC in Decrypt: %v", p)
				}
			}()
			dr, decErr = enc.Decrypt(io.MultiReader(rs...), enc.DecryptOptions{UnwrapKeyFn: unwrapA})
		}()
		var term error = io.EOF
		if decErr == nil {
			if _, err := io.CopyBuffer(struct{ io.Writer }{chk}, struct{ io.Reader }{dr}, make([]byte, 256<<10)); err != nil {
				term = err
			}
		}
		prefix := chk.Mismatch < 0 && chk.Total <= hugeSize
		replay := map[string]any{
			"base": h.String(), "mutation": site, "mutation_detail": tm.desc, "header": string(head[:hdr]),
			"plaintext":  fmt.Sprintf("refenc.NewGen(%d).Reader(%d)", genSeed, hugeSize),
			"regenerate": "kit.Encrypt of the generator stream with this file key and nonce prefix; pieces are (offset,length) ranges of that document",
			"pieces":     fmt.Sprint(tm.pieces), "file_key_hex": hex.EncodeToString(fk), "kek_hex": hex.EncodeToString(kekRaw[0]),
			"decrypt_err": fmt.Sprint(decErr), "stream_err": fmt.Sprint(term), "released_len": chk.Total, "first_released_byte_that_differs": chk.Mismatch,
		}
		viol := func(out, msg string) {
			rec.Violation(idx, site+"/"+out, fmt.Sprintf("%s: %s [%s; %s]", site, msg, tm.desc, h.String()), replay)
		}
		switch {
		case decErr != nil:
			if strings.HasPrefix(decErr.Error(), "PANIC") {
				viol("panic", decErr.Error())
				continue
			}
			rec.Count("outcome.decrypt_error", 1)
		case term != io.EOF:
			if !prefix {
				viol("error-after-unauthenticated-bytes", fmt.Sprintf("the stream failed (%v) after releasing %d bytes, of which byte %d (segment %d) is not the plaintext's", term, chk.Total, chk.Mismatch, chk.Mismatch/65536))
				continue
			}
			rec.Count("outcome.stream_error", 1)
			if chk.Total > 0 {
				rec.Count("outcome.stream_error_after_authentic_prefix", 1)
			}
			if chk.Total == 65536*65536 {
				// all 65536 segments before the substituted one were authenticated and released, then the stream failed
				rec.Count("huge.rejected_exactly_at_segment_65536", 1)
			}
		case prefix && chk.Total == hugeSize:
			rec.Count("outcome.accepted_identical_plaintext", 1)
		case prefix:
			viol("clean-eof-short", fmt.Sprintf("the stream ended in a clean EOF after %d of %d plaintext bytes", chk.Total, hugeSize))
			continue
		default:
			viol("clean-eof-wrong-bytes", fmt.Sprintf("the stream ended in a clean EOF after %d bytes; from offset %d (segment %d) they are not the plaintext", chk.Total, chk.Mismatch, chk.Mismatch/65536))
			continue
		}
		rec.Count("huge.tamper_rejected."+tm.class, 1)
		rec.Count("rejected_or_identical."+tm.class, 1)
		rec.Count("huge.seconds.decrypt."+tm.class+"."+refenc.CipherName(h.cipher), int(time.Since(t0).Seconds()+0.5))
	}
	rec.Count("huge.seconds.encrypt_to_file."+refenc.CipherName(h.cipher), int(tEnc.Seconds()+0.5))
	rec.Count("family.huge-tamper", len(tampers))
	rec.Bulk(idx, int64(len(tampers)), true)
	if rec.WantSample() {
		rec.Sample(map[string]any{"base": h.String(), "family": "huge-tamper", "document_bytes": written, "seconds_total": time.Since(start).Seconds(),
			"seconds_encrypt_to_file": tEnc.Seconds(), "header": string(bytes.TrimRight(head[:hdr], "\n"))})
	}
}

// tickReader keeps the watchdog informed during the long streaming phases.
type tickReader struct {
	r io.Reader
	n int64
}

func (t *tickReader) Read(p []byte) (int, error) {
	n, err := t.r.Read(p)
	if (t.n >> 26) != ((t.n + int64(n)) >> 26) {
		rec.Progress()
	}
	t.n += int64(n)
	return n, err
}
