package c13

import (
	"context"
	"fmt"
	"sync"
	"testing/synctest"
	"time"

	"github.com/dapr/kit/concurrency/lock"
)

// outerBigTree: readers of an OuterCancel lock that have fanned their granted context out into a large
// tree of derived contexts (one per unit of work they started). "A writer is granted only after every
// earlier reader has released or had its context cancelled with the configured cause": at the very
// moment Lock returns, the writer looks at every earlier reader's context AND at every context derived
// from it - all must already be cancelled (cancelling a context cancels its derived contexts before
// cancel returns, so a reader that "has had its context cancelled" has no live derived context). The
// large tree makes the cancellation walk long (milliseconds), so that a grant which is handed out
// while the walk is still on its way is seen by the scan instead of hiding in a few nanoseconds.
func outerBigTree(w *world, rng interface {
	Intn(int) int
	Range(int, int) int
}) bool {
	grace := []time.Duration{50 * time.Millisecond, time.Second, 5 * time.Second}[rng.Intn(3)]
	nr := rng.Range(1, 3)
	perReader := 24000 / nr
	how := []string{"held-until-cancelled", "released-when-the-writer-arrives", "one-released-early"}[w.idx%3]
	w.step(fmt.Sprintf("bigtree readers=%d derived=%d grace=%v %s", nr, perReader, grace, how))
	o := lock.NewOuterCancel(errOuter, grace)
	runCtx, stop := context.WithCancel(context.Background())
	runDone := make(chan struct{})
	go func() { o.Run(runCtx); close(runDone) }()
	synctest.Wait()
	type reader struct {
		rctx     context.Context
		release  context.CancelFunc
		children []context.Context
		cancels  []context.CancelFunc
	}
	var readers []*reader
	for i := 0; i < nr; i++ {
		rctx, rel, err := o.RLock(context.Background())
		if err != nil {
			w.violation("OuterCancel/bigtree/rlock-error-on-free-lock", err.Error())
			stop()
			return false
		}
		r := &reader{rctx: rctx, release: rel}
		for j := 0; j < perReader; j++ {
			c, cn := context.WithCancel(rctx)
			_ = c.Done() // somebody selects on it: cancelling has a channel to close
			r.children = append(r.children, c)
			r.cancels = append(r.cancels, cn)
		}
		readers = append(readers, r)
	}
	if how == "one-released-early" {
		readers[0].release()
		synctest.Wait()
	}
	var wg sync.WaitGroup
	if how == "released-when-the-writer-arrives" {
		for _, r := range readers {
			wg.Add(1)
			go func() {
				defer wg.Done()
				time.Sleep(time.Millisecond)
				r.release()
			}()
		}
	}
	time.Sleep(time.Millisecond)
	unlock := o.Lock()
	// --- the writer holds the lock from here
	liveRoots, liveDerived, wrongCause := 0, 0, 0
	// Err() is a plain atomic load; context.Cause takes the context's lock, which a cancellation in progress
	// holds for the whole walk - it is therefore asked last, or it would wait the very state out that the scan
	// is looking for
	for _, r := range readers {
		if r.rctx.Err() == nil {
			liveRoots++
		}
		for _, c := range r.children {
			if c.Err() == nil {
				liveDerived++
			}
		}
	}
	for _, r := range readers {
		if r.rctx.Err() != nil && context.Cause(r.rctx) != errOuter {
			wrongCause++
		}
	}
	rec.Count("outer.bigtree.derived_contexts_checked_at_grant", nr*perReader)
	rec.Count("outer.bigtree.observed.live_at_grant", liveDerived)
	switch {
	case liveRoots > 0:
		w.violation("OuterCancel/bigtree/writer-granted-before-reader-context-cancelled", fmt.Sprintf("when Lock returned, %d of %d earlier readers' contexts were not cancelled", liveRoots, nr))
	case liveDerived > 0:
		w.violation("OuterCancel/bigtree/writer-granted-while-readers-derived-contexts-live", fmt.Sprintf("when Lock returned, %d of the %d contexts derived from the earlier readers' contexts had not been cancelled yet: the readers were counted as gone before they had been told to stop (%s)", liveDerived, nr*perReader, how))
	case wrongCause > 0:
		w.violation("OuterCancel/bigtree/wrong-cause", fmt.Sprintf("%d readers' contexts ended with a cause other than the configured one", wrongCause))
	default:
		rec.Count("outer.bigtree.writer_granted_with_every_derived_context_cancelled", 1)
	}
	unlock()
	wg.Wait()
	for _, r := range readers {
		r.release()
		for _, cn := range r.cancels {
			cn()
		}
	}
	stop()
	<-runDone
	synctest.Wait()
	return true
}
