// Package c13 monitors property C13 (lock primitives: mutual exclusion, FIFO
// grant, clean cancellation, no leaked per-key state, OuterCancel rules).
package c13

import (
	"context"
	"errors"
	"fmt"
	"runtime"
	"strings"
	"sync"
	"sync/atomic"
	"testing"
	"testing/synctest"
	"time"

	"github.com/dapr/kit/concurrency/cmap"
	"github.com/dapr/kit/concurrency/fifo"
	"github.com/dapr/kit/concurrency/lock"

	"verif/harness/internal/mon"
)

var rec *mon.Rec

// ---- occupancy monitor (shadows the clients' critical sections)

type occ struct {
	mu      sync.Mutex
	writers map[string][]int
	readers map[string][]int
	log     []string
	bad     string
}

func newOcc() *occ { return &occ{writers: map[string][]int{}, readers: map[string][]int{}} }

func (o *occ) enter(key string, g int, write bool) {
	o.mu.Lock()
	defer o.mu.Unlock()
	if write {
		o.log = append(o.log, fmt.Sprintf("g%d enters %s (write)", g, key))
		if (len(o.writers[key]) > 0 || len(o.readers[key]) > 0) && o.bad == "" {
			o.bad = fmt.Sprintf("g%d was granted the exclusive lock on %q while writers %v / readers %v are inside", g, key, o.writers[key], o.readers[key])
		}
		o.writers[key] = append(o.writers[key], g)
	} else {
		o.log = append(o.log, fmt.Sprintf("g%d enters %s (read)", g, key))
		if len(o.writers[key]) > 0 && o.bad == "" {
			o.bad = fmt.Sprintf("g%d was granted a read lock on %q while writer %v is inside", g, key, o.writers[key])
		}
		o.readers[key] = append(o.readers[key], g)
	}
}

func (o *occ) leave(key string, g int, write bool) {
	o.mu.Lock()
	defer o.mu.Unlock()
	o.log = append(o.log, fmt.Sprintf("g%d leaves %s", g, key))
	m := o.readers
	if write {
		m = o.writers
	}
	for i, x := range m[key] {
		if x == g {
			m[key] = append(m[key][:i:i], m[key][i+1:]...)
			return
		}
	}
}

func (o *occ) violation() string {
	o.mu.Lock()
	defer o.mu.Unlock()
	return o.bad
}

func (o *occ) inside(key string) int {
	o.mu.Lock()
	defer o.mu.Unlock()
	return len(o.writers[key]) + len(o.readers[key])
}

func (o *occ) trace() []string {
	o.mu.Lock()
	defer o.mu.Unlock()
	return append([]string{}, o.log...)
}

// ---- worker goroutines driven in lock-step by commands

type cmd struct {
	op  string
	key string
}

type worker struct {
	id      int
	cmds    chan cmd
	busy    atomic.Bool // a command is being executed (possibly blocked in an acquire)
	granted atomic.Int64
	errs    chan error
}

type world struct {
	idx   int
	mode  string
	steps []string
	viol  bool
	occ   *occ
}

func (w *world) step(s string) { w.steps = append(w.steps, s); rec.Progress() }
func (w *world) violation(sig, msg string) {
	if w.viol {
		return
	}
	w.viol = true
	rec.Violation(w.idx, sig, msg, map[string]any{"mode": w.mode, "steps": w.steps, "occupancy_trace": w.occ.trace()})
}

type plan struct{ mode string }

func plans() []plan {
	var ps []plan
	add := func(m string, q, t int) {
		for i := 0; i < mon.Pick(q, t); i++ {
			ps = append(ps, plan{m})
		}
	}
	add("cmap-delete-unlock-waiter", 6, 200)
	add("cmap-delete-runlock-reader", 6, 200)
	add("fifo-mutex", 500, 30000)
	add("fifo-map", 1200, 80000)
	add("cmap", 1500, 40000)
	add("context", 800, 50000)
	add("outercancel", 1000, 60000)
	add("stress", 160, 8000)
	add("outer-bigtree", 36, 400)
	add("outer-after-early-grant", 120, 4000)
	add("outer-ctx-ends-at-grant", 60, 2000)
	return ps
}

func TestCheck(t *testing.T) {
	rec = mon.Open("C13")
	defer rec.Close()
	rec.Note("rule", "a case is one history of 2-8 goroutines x 1-3 keys driven in lock-step against one lock primitive (fifo.Mutex, fifo.Map, cmap.Mutex, lock.Context, lock.OuterCancel), with seeded parking of a caller at the verif hook points between the map look-up and the mutex operation; cmap additionally runs the two directed delete-and-release histories. An occupancy monitor shadows every critical section; FIFO grants are compared with arrival order; fifo.Map's entry count is read at idle points; cancellation and OuterCancel rules are judged from the recorded grants, cancellations and causes in virtual time. (stress) real contention without lock-step, judged by the occupancy monitor and by bubble deadlock / goroutine leak detection. (outer-bigtree) OuterCancel with 24000 contexts derived from a reader's context, scanned with Err() while the cancellation walk is in progress: no derived context reports an end whose cause is not yet the documented one. (outer-after-early-grant) a writer whose wait ended early because the readers released of their own accord: a reader admitted afterwards is not cancelled when that writer's grace period would have run out, and a second writer gets a full grace period of its own. (outer-ctx-ends-at-grant) caller contexts whose Err() ends them at the moment the lock looks at them: an error means no hold is left behind, no error means a real hold. Non-trivial = at least one acquisition had to wait; distinct = distinct step list.")
	rec.Note("require", []string{"fifo.order_checked", "fifomap.idle_len_checked", "fifomap.park.map.lock.counted", "fifomap.park.map.unlock.counted", "park.held_across_operations", "park.operations_issued_while_a_caller_is_parked", "cmap.park.lock.lookedup", "cmap.park.rlock.lookedup", "cmap.delete_unlock_safe", "cmap.directed.waiter_confirmed", "context.cancelled_while_waiting", "context.error_holds_nothing", "outer.writer_cancelled_readers_at_grace", "outer.reader_released_before_grace", "outer.reader_blocked_by_writer", "outer.rlock_error_holds_nothing_checked", "outer.free_lock_granted_at_once", "outer.grace_kept_for_holder_whose_parent_ended", "keys.zero_value_key_used", "outer.release_after_shutdown_returned", "outer.writers_exclusive_after_shutdown", "waits", "stress.acquisitions", "outer.bigtree.writer_granted_with_every_derived_context_cancelled", "outer.reader_after_early_grant_kept_until_next_writers_grace"})
	ps := plans()
	rec.Planned(len(ps))
	for idx, pl := range ps {
		if !mon.Mine(idx) {
			continue
		}
		rng := mon.NewRNG("c13", idx)
		w := &world{idx: idx, mode: pl.mode, occ: newOcc()}
		rec.Begin(idx, pl.mode)
		t0 := time.Now()
		var res mon.BubbleResult
		nontrivial := false
		switch pl.mode {
		case "fifo-mutex":
			res = mon.Bubble(t, func() { nontrivial = fifoMutex(w, rng) })
		case "fifo-map":
			res = mon.Bubble(t, func() { nontrivial = fifoMap(w, rng) })
			fifo.VerifHook.Store(nil)
		case "cmap":
			res = mon.Bubble(t, func() { nontrivial = cmapRandom(w, rng) })
			cmap.VerifHook.Store(nil)
		case "cmap-delete-unlock-waiter":
			res = mon.Bubble(t, func() { nontrivial = cmapDirected(w, rng, true) })
		case "cmap-delete-runlock-reader":
			res = mon.Bubble(t, func() { nontrivial = cmapDirected(w, rng, false) })
		case "context":
			res = mon.Bubble(t, func() { nontrivial = lockContext(w, rng) })
		case "outercancel":
			res = mon.Bubble(t, func() { nontrivial = outerCancel(w, rng) })
		case "stress":
			res = mon.Bubble(t, func() { nontrivial = stress(w, rng) })
		case "outer-bigtree":
			res = mon.Bubble(t, func() { nontrivial = outerBigTree(w, rng) })
		case "outer-after-early-grant":
			res = mon.Bubble(t, func() { nontrivial = outerAfterEarlyGrant(w, rng) })
		case "outer-ctx-ends-at-grant":
			res = mon.Bubble(t, func() { nontrivial = outerCtxEndsAtGrant(w, rng) })
		}
		if w.viol {
			res.Deadlock = "" // goroutines left behind are the consequence of the reported violation
		}
		if res.Deadlock != "" {
			w.violation("bubble-deadlock-or-leak/"+pl.mode, res.Deadlock+"; goroutines left: "+strings.Join(res.Stacks, " || "))
		} else if res.Panic != "" {
			w.violation("panic/"+pl.mode, res.Panic)
		}
		if nontrivial {
			rec.Count("waits", 1)
		}
		rec.Count("wall_ms."+pl.mode, int(time.Since(t0).Milliseconds()))
		rec.Case(idx, pl.mode+" "+strings.Join(w.steps, " "), nontrivial)
		if rec.WantSample() && nontrivial && idx%9 == 0 {
			st := w.steps
			if len(st) > 40 {
				st = st[:40]
			}
			rec.Sample(map[string]any{"mode": w.mode, "steps": st})
		}
	}
}

// ---------------------------------------------------------------- generic lock-step driver

// prim abstracts one primitive for the random lock-step driver.
type prim struct {
	name    string
	rw      bool
	acquire func(g int, key string, write bool) // blocks until granted
	release func(g int, key string, write bool)
	idleLen func() int // -1 if not available
	quiesce func() mon.QuiesceInfo
	oneLock bool // the primitive is a single lock: use one key
}

type holder struct {
	g     int
	key   string
	write bool
}

// driveRandom issues acquire/release commands to goroutines one at a time.
// Returns whether any acquisition had to wait. fifoCheck: grants per key must
// follow arrival order (only for exclusive FIFO primitives).
func driveRandom(w *world, rng *mon.RNG, p prim, fifoCheck bool, park func(g int) bool) bool {
	ng := rng.Range(2, 8)
	nk := rng.Range(1, 3)
	if p.oneLock {
		nk = 1
	}
	keys := []string{"k0", "k1", "k2"}[:nk]
	if !p.oneLock && rng.Chance(1, 3) {
		// the zero-value key is a key like any other
		keys = append([]string{""}, keys...)[:nk]
		rec.Count("keys.zero_value_key_used", 1)
	}
	type gstate struct {
		holding *holder // granted
		waiting *holder // acquire issued, not yet granted
		arrive  int64
	}
	gs := make([]*gstate, ng)
	var mu sync.Mutex
	var arrival int64
	grantOrder := map[string][]int{} // per key: goroutine ids in grant order since last idle
	waitedAny := false
	for i := range gs {
		gs[i] = &gstate{}
	}
	granted := func(g int, h *holder) {
		mu.Lock()
		gs[g].holding, gs[g].waiting = h, nil
		grantOrder[h.key] = append(grantOrder[h.key], g)
		mu.Unlock()
	}
	var wg sync.WaitGroup
	nsteps := rng.Range(6, 40)
	waitQueue := map[string][]int{} // arrival order of waiters per key (harness view)
	// A caller parked at a hook point stays there for the next 0-3 operations of OTHER goroutines in a share of
	// the histories (keepFor > 0), so that a look-up, a count or a prune that is split from its mutex operation
	// meets newcomers in between. A goroutine whose release has not returned issues nothing (releasing), and the
	// rules that presuppose a settled lock (lost wake-up, entry count at idle) wait until nobody is parked.
	releasing := make([]atomic.Bool, ng)
	holdParks := park != nil && rng.Chance(1, 2)
	keepFor := 0
	anyParked := func() bool { return park != nil && park(-2) }
	for s := 0; s < nsteps && !w.viol; s++ {
		// choose a goroutine that is not waiting
		var free []int
		for i, g := range gs {
			mu.Lock()
			if g.waiting == nil && !releasing[i].Load() {
				free = append(free, i)
			}
			mu.Unlock()
		}
		if len(free) == 0 {
			if anyParked() {
				park(-1)
				p.quiesce()
				keepFor = 0
				continue
			}
			break
		}
		g := free[rng.Intn(len(free))]
		mu.Lock()
		h := gs[g].holding
		mu.Unlock()
		if h != nil {
			// release
			w.step(fmt.Sprintf("g%d release(%s)", g, h.key))
			w.occ.leave(h.key, g, h.write)
			mu.Lock()
			gs[g].holding = nil
			mu.Unlock()
			wg.Add(1)
			releasing[g].Store(true)
			go func() { defer wg.Done(); p.release(g, h.key, h.write); releasing[g].Store(false) }()
		} else {
			key := keys[rng.Intn(len(keys))]
			write := !p.rw || rng.Chance(1, 2)
			nh := &holder{g, key, write}
			mu.Lock()
			gs[g].waiting = nh
			arrival++
			gs[g].arrive = arrival
			mu.Unlock()
			mode := "lock"
			if !write {
				mode = "rlock"
			}
			w.step(fmt.Sprintf("g%d %s(%s)", g, mode, key))
			wasFree := w.occ.inside(key) == 0 && len(waitQueue[key]) == 0
			if !wasFree {
				waitQueue[key] = append(waitQueue[key], g)
			}
			wg.Add(1)
			go func() {
				defer wg.Done()
				p.acquire(g, key, write)
				w.occ.enter(key, g, write)
				granted(g, nh)
			}()
		}
		p.quiesce()
		if park != nil {
			if holdParks && keepFor == 0 && anyParked() {
				keepFor = rng.Range(1, 4)
				rec.Count("park.held_across_operations", 1)
			}
			if keepFor > 0 {
				keepFor--
			}
			if keepFor == 0 {
				park(-1) // resume anything parked at a hook, then settle again
				p.quiesce()
			}
		}
		if v := w.occ.violation(); v != "" {
			w.violation(p.name+"/two-holders", v)
			return true
		}
		stillParked := anyParked()
		if stillParked {
			rec.Count("park.operations_issued_while_a_caller_is_parked", 1)
		}
		// FIFO: whoever is granted now must be the head of the wait queue
		if fifoCheck && !stillParked {
			for _, k := range keys {
				mu.Lock()
				for len(waitQueue[k]) > 0 {
					head := waitQueue[k][0]
					if gs[head].holding != nil && gs[head].holding.key == k {
						waitQueue[k] = waitQueue[k][1:]
						rec.Count("fifo.order_checked", 1)
						waitedAny = true
						continue
					}
					// head still waiting: nobody behind it may have been granted
					for _, other := range waitQueue[k][1:] {
						if gs[other].holding != nil && gs[other].holding.key == k {
							mu.Unlock()
							w.violation(p.name+"/fifo-order", fmt.Sprintf("g%d was granted %q before g%d, which arrived earlier and is still waiting", other, k, head))
							return true
						}
					}
					break
				}
				mu.Unlock()
			}
		} else {
			for _, k := range keys {
				mu.Lock()
				var still []int
				for _, g := range waitQueue[k] {
					if gs[g].waiting != nil && gs[g].waiting.key == k {
						still = append(still, g)
					} else {
						waitedAny = true
					}
				}
				waitQueue[k] = still
				mu.Unlock()
			}
		}
		if stillParked {
			continue // the rules below presuppose a settled lock
		}
		// bounded progress: a free key with waiters must have granted somebody
		for _, k := range keys {
			if w.occ.inside(k) == 0 && len(waitQueue[k]) > 0 {
				w.violation(p.name+"/lost-wakeup", fmt.Sprintf("key %q is free, goroutines %v are waiting for it and every goroutine is parked", k, waitQueue[k]))
				return true
			}
		}
		if p.idleLen != nil {
			idle := true
			mu.Lock()
			for _, g := range gs {
				if g.holding != nil || g.waiting != nil {
					idle = false
				}
			}
			mu.Unlock()
			if idle {
				if n := p.idleLen(); n != 0 {
					w.violation(p.name+"/leaked-entries", fmt.Sprintf("no holder and no waiter exists but the map still has %d per-key entries", n))
					return true
				}
				rec.Count("fifomap.idle_len_checked", 1)
			}
		}
	}
	if anyParked() {
		park(-1)
		p.quiesce()
	}
	// drain: release everything until nobody holds or waits
	for iter := 0; iter < 200 && !w.viol; iter++ {
		released := false
		for g := range gs {
			mu.Lock()
			h := gs[g].holding
			mu.Unlock()
			if h != nil {
				w.occ.leave(h.key, g, h.write)
				mu.Lock()
				gs[g].holding = nil
				mu.Unlock()
				wg.Add(1)
				go func() { defer wg.Done(); p.release(g, h.key, h.write) }()
				released = true
				p.quiesce()
				if park != nil {
					park(-1)
					p.quiesce()
				}
				if v := w.occ.violation(); v != "" {
					w.violation(p.name+"/two-holders", v)
					return true
				}
			}
		}
		if !released {
			break
		}
	}
	if w.viol {
		return true
	}
	mu.Lock()
	var stuck []int
	for i, g := range gs {
		if g.waiting != nil {
			stuck = append(stuck, i)
		}
	}
	mu.Unlock()
	if len(stuck) > 0 {
		w.violation(p.name+"/lost-wakeup", fmt.Sprintf("everything was released but goroutines %v are still waiting", stuck))
		return true
	}
	wg.Wait()
	if p.idleLen != nil {
		if n := p.idleLen(); n != 0 {
			w.violation(p.name+"/leaked-entries", fmt.Sprintf("no holder and no waiter exists but the map still has %d per-key entries", n))
		} else {
			rec.Count("fifomap.idle_len_checked", 1)
		}
	}
	return waitedAny
}

func syncWait() mon.QuiesceInfo { synctest.Wait(); return mon.QuiesceInfo{OK: true} }

// ---------------------------------------------------------------- fifo.Mutex

func fifoMutex(w *world, rng *mon.RNG) bool {
	m := fifo.New()
	return driveRandom(w, rng, prim{
		name:    "fifo.Mutex",
		acquire: func(int, string, bool) { m.Lock() },
		release: func(int, string, bool) { m.Unlock() },
		quiesce: syncWait,
		oneLock: true,
	}, true, nil)
}

// ---------------------------------------------------------------- fifo.Map

// hookParker parks callers at hook points with seeded probability; resume(-1) resumes them.
type hookParker struct {
	mu     sync.Mutex
	rng    *mon.RNG
	parked []chan struct{}
	prefix string
	num    int
}

func (h *hookParker) hook(name string) {
	h.mu.Lock()
	park := h.rng.Chance(1, 3)
	var ch chan struct{}
	if park {
		ch = make(chan struct{})
		h.parked = append(h.parked, ch)
	}
	h.mu.Unlock()
	if park {
		rec.Count(h.prefix+".park."+name, 1)
		<-ch
	}
}

func (h *hookParker) resume(arg int) bool {
	h.mu.Lock()
	if arg == -2 { // query only: is anybody parked?
		n := len(h.parked)
		h.mu.Unlock()
		return n > 0
	}
	ps := h.parked
	h.parked = nil
	h.mu.Unlock()
	for _, c := range ps {
		close(c)
	}
	return len(ps) > 0
}

func fifoMap(w *world, rng *mon.RNG) bool {
	m := fifo.NewMap[string]()
	hp := &hookParker{rng: mon.NewRNG("c13-hook", w.idx), prefix: "fifomap"}
	h := hp.hook
	fifo.VerifHook.Store(&h)
	defer fifo.VerifHook.Store(nil)
	lenOf := m.(interface{ VerifLen() int })
	// FIFO order is only promised among callers that reached the per-key mutex; with parking between
	// the count and the mutex operation the arrival order at the mutex is the resume order, which the
	// harness does not control precisely, so the order check is on only in histories without parking.
	noPark := rng.Chance(1, 2)
	if noPark {
		fifo.VerifHook.Store(nil)
	}
	return driveRandom(w, rng, prim{
		name:    "fifo.Map",
		acquire: func(_ int, k string, _ bool) { m.Lock(k) },
		release: func(_ int, k string, _ bool) { m.Unlock(k) },
		idleLen: func() int { return lenOf.VerifLen() },
		quiesce: syncWait,
	}, noPark, hp.resume)
}

// ---------------------------------------------------------------- cmap.Mutex

func cmapRandom(w *world, rng *mon.RNG) bool {
	m := cmap.NewMutex[string]()
	hp := &hookParker{rng: mon.NewRNG("c13-hook", w.idx), prefix: "cmap"}
	h := hp.hook
	cmap.VerifHook.Store(&h)
	defer cmap.VerifHook.Store(nil)
	var hmu sync.Mutex
	delRng := mon.NewRNG("c13-del", w.idx) // guarded by hmu
	holders := map[string]int{}            // harness view: holders + waiters per key
	p := prim{
		name: "cmap.Mutex",
		rw:   true,
		acquire: func(_ int, k string, write bool) {
			hmu.Lock()
			holders[k]++
			hmu.Unlock()
			if write {
				m.Lock(k)
			} else {
				m.RLock(k)
			}
		},
		release: func(g int, k string, write bool) {
			hmu.Lock()
			holders[k]--
			alone := holders[k] == 0
			del := delRng.Chance(1, 2)
			hmu.Unlock()
			// delete-and-release only when the caller is the last holder and nobody waits (the safe use)
			if alone && del {
				rec.Count("cmap.delete_unlock_safe", 1)
				if write {
					m.DeleteUnlock(k)
				} else {
					m.DeleteRUnlock(k)
				}
				return
			}
			if write {
				m.Unlock(k)
			} else {
				m.RUnlock(k)
			}
		},
		quiesce: mon.Quiesce,
	}
	return driveRandom(w, rng, p, false, hp.resume)
}

// cmapDirected: the delete-and-release histories of DESIGN 5/C13.
func cmapDirected(w *world, rng *mon.RNG, write bool) bool {
	m := cmap.NewMutex[string]()
	k := "k"
	bIn := make(chan struct{})
	cIn := make(chan struct{})
	hold := make(chan struct{})
	if write {
		w.step("A lock")
		m.Lock(k)
		w.occ.enter(k, 0, true)
		w.step("B lock (waits)")
		go func() {
			m.Lock(k)
			w.occ.enter(k, 1, true)
			close(bIn)
			<-hold
		}()
		q := mon.Quiesce()
		if q.MutexBlocked < 1 {
			rec.Inconclusive(w.idx, "set-up: B is not waiting on the per-key mutex", q)
			close(hold)
			return false
		}
		rec.Count("cmap.directed.waiter_confirmed", 1)
		w.step("A DeleteUnlock")
		w.occ.leave(k, 0, true)
		m.DeleteUnlock(k)
		mon.Quiesce()
		select {
		case <-bIn:
		default:
			w.violation("cmap.DeleteUnlock/waiter-never-granted", "A released the key with DeleteUnlock but the waiter B was never granted")
			return true
		}
		w.step("C lock")
		go func() {
			m.Lock(k)
			w.occ.enter(k, 2, true)
			close(cIn)
			<-hold
		}()
		mon.Quiesce()
		if v := w.occ.violation(); v != "" {
			w.violation("cmap.DeleteUnlock/waiter+newcomer", "A holds, B waits, A DeleteUnlock, B is granted the orphaned mutex and stays inside, C asks and gets a fresh mutex: "+v)
			return true // abandon: a later Unlock would die with 'Unlock of unlocked RWMutex'
		}
		// correct behaviour: C waits until B leaves
		w.occ.leave(k, 1, true)
		close(hold)
		m.Unlock(k)
		mon.Quiesce()
		<-cIn
		w.occ.leave(k, 2, true)
		m.Unlock(k)
		return true
	}
	w.step("A rlock")
	m.RLock(k)
	w.occ.enter(k, 0, false)
	w.step("B rlock")
	m.RLock(k)
	w.occ.enter(k, 1, false)
	rec.Count("cmap.directed.waiter_confirmed", 1)
	w.step("A DeleteRUnlock")
	w.occ.leave(k, 0, false)
	m.DeleteRUnlock(k)
	w.step("C lock")
	go func() {
		m.Lock(k)
		w.occ.enter(k, 2, true)
		close(cIn)
		<-hold
	}()
	mon.Quiesce()
	if v := w.occ.violation(); v != "" {
		w.violation("cmap.DeleteRUnlock/other-reader+writer", "A and B hold read locks, A DeleteRUnlock, C asks for the write lock and gets a fresh mutex while B is still reading: "+v)
		return true
	}
	w.occ.leave(k, 1, false)
	m.RUnlock(k)
	mon.Quiesce()
	<-cIn
	close(hold)
	w.occ.leave(k, 2, true)
	m.Unlock(k)
	return true
}

// ---------------------------------------------------------------- lock.Context

func lockContext(w *world, rng *mon.RNG) bool {
	l := lock.NewContext()
	k := "ctx"
	ng := rng.Range(2, 6)
	waited := false
	type st struct {
		holding bool
		write   bool
		waiting bool
		cancel  context.CancelFunc
		done    chan error
	}
	gs := make([]*st, ng)
	for i := range gs {
		gs[i] = &st{}
	}
	holder := -1
	for s := 0; s < rng.Range(6, 30) && !w.viol; s++ {
		g := rng.Intn(ng)
		x := gs[g]
		switch {
		case x.holding:
			w.step(fmt.Sprintf("g%d release", g))
			w.occ.leave(k, g, true)
			x.holding = false
			holder = -1
			if x.write {
				l.Unlock()
			} else {
				l.RUnlock()
			}
		case x.waiting:
			// cancel the waiter's context: it must stop waiting with an error and hold nothing
			w.step(fmt.Sprintf("g%d cancel-while-waiting", g))
			x.cancel()
			synctest.Wait()
			select {
			case err := <-x.done:
				if err == nil {
					// it was granted at the same time: legal only if the lock was free
					w.violation("lock.Context/cancelled-waiter-granted", "a waiter whose context was cancelled while the lock was held was granted the lock")
				} else {
					rec.Count("context.cancelled_while_waiting", 1)
					waited = true
				}
				x.waiting = false
			default:
				w.violation("lock.Context/cancelled-waiter-still-waiting", "a waiter whose context ended did not stop waiting")
			}
		default:
			write := rng.Bool()
			ctx, cancel := context.WithCancel(context.Background())
			pre := rng.Chance(1, 6)
			if pre {
				cancel()
			}
			x.cancel, x.write, x.done = cancel, write, make(chan error, 1)
			w.step(fmt.Sprintf("g%d acquire write=%v precancelled=%v", g, write, pre))
			go func() {
				var err error
				if write {
					err = l.Lock(ctx)
				} else {
					err = l.RLock(ctx)
				}
				if err == nil {
					w.occ.enter(k, g, true) // both modes are exclusive per the statement's weakest reading: a reader excludes writers; readers are recorded as exclusive only if the primitive admits one at a time
				}
				x.done <- err
			}()
			synctest.Wait()
			select {
			case err := <-x.done:
				if err != nil {
					if !pre && holder < 0 {
						w.violation("lock.Context/error-without-cause", fmt.Sprintf("acquire on a free lock with a live context returned %v", err))
					}
					rec.Count("context.error_holds_nothing", 1)
				} else {
					if holder >= 0 {
						// two inside: the occupancy monitor has it
					}
					x.holding = true
					holder = g
				}
			default:
				if holder < 0 {
					w.violation("lock.Context/free-lock-not-granted", "the lock is free but the acquire did not return")
				}
				x.waiting = true
			}
		}
		synctest.Wait()
		// a waiter may have been granted by the release
		for i, y := range gs {
			if y.waiting {
				select {
				case err := <-y.done:
					y.waiting = false
					if err == nil {
						y.holding = true
						holder = i
						waited = true
					}
				default:
				}
			}
		}
		if v := w.occ.violation(); v != "" {
			w.violation("lock.Context/two-holders", v)
			return true
		}
		if holder < 0 {
			for i, y := range gs {
				if y.waiting {
					w.violation("lock.Context/lost-wakeup", fmt.Sprintf("the lock is free but g%d is still waiting", i))
					return true
				}
			}
		}
	}
	// an acquisition that reported an error holds nothing: N later pairs succeed
	for i, y := range gs {
		if y.waiting {
			y.cancel()
		}
		_ = i
	}
	synctest.Wait()
	for _, y := range gs {
		if y.waiting {
			select {
			case err := <-y.done:
				if err == nil {
					y.holding = true
				}
			default:
			}
		}
	}
	for g, y := range gs {
		if y.holding {
			w.occ.leave(k, g, true)
			if y.write {
				l.Unlock()
			} else {
				l.RUnlock()
			}
			y.holding = false
			synctest.Wait()
			for g2, z := range gs {
				if z.waiting && !z.holding {
					select {
					case err := <-z.done:
						z.waiting = false
						if err == nil {
							z.holding = true
							_ = g2
						}
					default:
					}
				}
			}
		}
	}
	for g, y := range gs {
		if y.holding {
			w.occ.leave(k, g, true)
			if y.write {
				l.Unlock()
			} else {
				l.RUnlock()
			}
		}
	}
	for i := 0; i < 3; i++ {
		done := make(chan error, 1)
		go func() { done <- l.Lock(context.Background()) }()
		synctest.Wait()
		select {
		case err := <-done:
			if err != nil {
				w.violation("lock.Context/later-acquire-fails", err.Error())
			}
			l.Unlock()
		default:
			w.violation("lock.Context/slot-leaked", "after every holder released and every failed waiter returned, a fresh Lock does not succeed: an acquisition that reported an error still holds something")
			return true
		}
	}
	return waited
}

// ---------------------------------------------------------------- lock.OuterCancel

var errOuter = errors.New("c13: outer lock wants in")

func outerCancel(w *world, rng *mon.RNG) bool {
	grace := []time.Duration{time.Second, 5 * time.Second, 30 * time.Second}[rng.Intn(3)]
	o := lock.NewOuterCancel(errOuter, grace)
	runCtx, stop := context.WithCancel(context.Background())
	runDone := make(chan struct{})
	go func() { o.Run(runCtx); close(runDone) }()
	synctest.Wait()
	k := "outer"
	type reader struct {
		id       int
		grantSeq int64
		granted  time.Time
		rctx     context.Context
		release  context.CancelFunc
		doneAt   time.Time // when rctx.Done was observed
		cause    error
		released bool // the harness called its release function
		left     bool // removed from the occupancy monitor
		parent   context.CancelFunc
		mode     string // prompt: releases when told; stubborn: releases only when its context ends
		doomed   bool   // its parent context was ended by the harness: any cause is attributable
	}
	type writer struct {
		id         int
		arrived    time.Time
		grantSeq   int64
		granted    time.Time
		unlock     context.CancelFunc
		in         bool
		unlockedAt time.Time
		expectNow  bool // nobody was inside or waiting when it arrived: it must be granted without delay
	}
	var mu sync.Mutex
	var seq int64
	var readers []*reader
	var writers []*writer
	waited := false
	nextID := 0
	// leaveLocked removes a reader from the occupancy monitor once (mu held)
	leaveLocked := func(r *reader) {
		if !r.left {
			r.left = true
			w.occ.leave(k, r.id, false)
		}
	}
	watch := func(r *reader) {
		go func() {
			<-r.rctx.Done()
			mu.Lock()
			r.doneAt = time.Now()
			r.cause = context.Cause(r.rctx)
			leaveLocked(r)
			rel := r.mode == "stubborn" && !r.released
			if rel {
				r.released = true
			}
			mu.Unlock()
			if rel {
				r.release()
			}
		}()
	}
	// holdLive (mu held): the reader's hold still counts inside the lock - it has not called its release
	// function and no writer has been granted since (a writer is granted only once every earlier hold is gone)
	holdLive := func(r *reader) bool {
		if r.released {
			return false
		}
		for _, wr := range writers {
			if wr.grantSeq > r.grantSeq {
				return false
			}
		}
		return true
	}
	// holdGone (mu held): an earlier writer was granted after r was admitted, so r's hold was already taken away
	holdGone := func(r *reader, me *writer) bool {
		for _, wr := range writers {
			if wr != me && wr.grantSeq > r.grantSeq {
				return true
			}
		}
		return false
	}
	early := ""
	pendingReaders := 0
	type doomedWait struct {
		id  int
		by  time.Time
		got chan error
	}
	var doomedPending []doomedWait
	checkDoomed := func() bool {
		var keep []doomedWait
		for _, d := range doomedPending {
			select {
			case err := <-d.got:
				if err == nil {
					// granted in the end: legal, but then it must be released - the harness cannot know the
					// reader record here, so this outcome is only counted (the grant path registered it)
					rec.Count("outer.cancelled_waiter_granted_late", 1)
				} else {
					rec.Count("outer.rlock_error_holds_nothing_checked", 1)
				}
			default:
				if !time.Now().Before(d.by) {
					w.violation("OuterCancel/cancelled-waiter-still-waiting", fmt.Sprintf("reader%d's context ended more than a grace period ago and every goroutine is parked, but its RLock call has still not returned", d.id))
					return false
				}
				keep = append(keep, d)
			}
		}
		doomedPending = keep
		return true
	}
	nsteps := rng.Range(4, 18)
	// one case in three starts with a scripted prefix that re-uses reader slots: readers release, a writer
	// comes and goes, new readers arrive, the old release functions are called again, the next writer waits
	type sop struct {
		op   int
		mode string
	}
	var script []sop
	if rng.Chance(1, 3) {
		n := rng.Range(1, 3)
		for i := 0; i < n; i++ {
			script = append(script, sop{0, "prompt"})
		}
		for i := 0; i < n; i++ {
			script = append(script, sop{2, ""})
		}
		if rng.Bool() {
			script = append(script, sop{7, ""})
		}
		script = append(script, sop{3, ""}, sop{4, ""})
		for i := 0; i < n; i++ {
			script = append(script, sop{0, rng.PickStr("stubborn", "stubborn", "prompt")})
		}
		for i := 0; i < n; i++ {
			script = append(script, sop{7, ""})
		}
		script = append(script, sop{3, ""}, sop{5, "long"})
		if nsteps < len(script)+2 {
			nsteps = len(script) + 2
		}
		rec.Count("outer.slot_reuse_scripts", 1)
	}
	for s := 0; s < nsteps && !w.viol; s++ {
		op, forced := rng.Intn(8), sop{}
		if s < len(script) {
			forced = script[s]
			op = forced.op
		}
		switch op {
		case 7: // a reader that has released calls its release function again (a CancelFunc is idempotent)
			mu.Lock()
			var cand []*reader
			for _, r := range readers {
				if r.released {
					cand = append(cand, r)
				}
			}
			var r *reader
			if len(cand) > 0 {
				r = cand[rng.Intn(len(cand))]
			}
			mu.Unlock()
			if r != nil {
				w.step(fmt.Sprintf("reader%d calls its release function again", r.id))
				rec.Count("outer.release_called_again", 1)
				r.release()
			}
		case 6: // the parent context of a reader that is inside ends; the reader keeps its hold until it releases
			mu.Lock()
			var cand []*reader
			for _, r := range readers {
				if !r.released && r.mode == "prompt" && r.rctx.Err() == nil {
					cand = append(cand, r)
				}
			}
			var r *reader
			if len(cand) > 0 {
				r = cand[rng.Intn(len(cand))]
				r.doomed = true
			}
			mu.Unlock()
			if r != nil {
				w.step(fmt.Sprintf("reader%d parent context ends while it holds the lock", r.id))
				rec.Count("outer.holder_parent_cancelled", 1)
				r.parent()
			}
		case 0, 1: // new reader
			nextID++
			pctx, pcancel := context.WithCancel(context.Background())
			r := &reader{id: nextID, parent: pcancel, mode: rng.PickStr("prompt", "stubborn")}
			// some callers come with a context that has already ended, or that ends while they are
			// queued behind a writer: RLock then reports an error (and holds nothing) or grants
			doomed := rng.Chance(1, 4)
			if forced.mode != "" {
				r.mode, doomed = forced.mode, false
			}
			r.doomed = doomed
			pre := doomed && rng.Bool()
			if pre {
				pcancel()
			}
			w.step(fmt.Sprintf("reader%d rlock (%s) doomed=%v precancelled=%v", r.id, r.mode, doomed, pre))
			got := make(chan error, 1)
			mu.Lock()
			pendingReaders++
			mu.Unlock()
			go func() {
				rctx, rel, err := o.RLock(pctx)
				mu.Lock()
				pendingReaders--
				if err == nil {
					seq++
					r.rctx, r.release, r.granted, r.grantSeq = rctx, rel, time.Now(), seq
					readers = append(readers, r)
					// a reader is admitted only while no writer is inside
					for _, wr := range writers {
						if wr.in {
							w.occ.enter(k, r.id, false) // records the violation
							r.left = true
							w.occ.leave(k, r.id, false)
						}
					}
					if !r.left {
						w.occ.enter(k, r.id, false)
					}
				}
				mu.Unlock()
				if err == nil {
					watch(r)
				}
				got <- err
			}()
			synctest.Wait()
			if doomed && !pre {
				// still pending (queued behind a writer)? then its context ends now
				select {
				case err := <-got:
					got <- err
				default:
					rec.Count("outer.reader_cancelled_while_pending", 1)
					pcancel()
					synctest.Wait()
				}
			}
			select {
			case err := <-got:
				if err != nil {
					if !doomed {
						w.violation("OuterCancel/rlock-error-while-running", fmt.Sprintf("RLock returned %v while the lock is running and the caller's context is live", err))
					} else {
						rec.Count("outer.rlock_error_holds_nothing_checked", 1)
					}
				} else if doomed {
					// granted although its context has ended: a legal outcome of the race; the reader
					// was told to stop at once (its rctx is done) and releases
					mu.Lock()
					r.released = true
					leaveLocked(r)
					mu.Unlock()
					r.release()
				}
			default:
				if doomed {
					// Its request is queued behind a writer that is waiting out the readers' grace period; the
					// run loop looks at it (and at its ended context) once that writer has been granted. The
					// statement sets no deadline for "stops waiting": bounded progress here = by the time a
					// full grace period has passed it has returned, whether or not the writer ever unlocks.
					rec.Count("outer.cancelled_waiter_deferred", 1)
					doomedPending = append(doomedPending, doomedWait{id: r.id, by: time.Now().Add(grace + 1), got: got})
					break
				}
				// blocked behind a writer (waiting for the grace period or inside): legal
				mu.Lock()
				blocked := false
				for _, wr := range writers {
					if wr.grantSeq == 0 || wr.in {
						blocked = true
					}
				}
				mu.Unlock()
				if !blocked {
					w.violation("OuterCancel/reader-not-admitted", "no writer is waiting or inside but RLock did not return")
				} else {
					rec.Count("outer.reader_blocked_by_writer", 1)
					waited = true
				}
			}
		case 2: // a reader releases promptly
			mu.Lock()
			var cand []*reader
			for _, r := range readers {
				if !r.released && r.mode == "prompt" {
					cand = append(cand, r)
				}
			}
			var r *reader
			if len(cand) > 0 {
				r = cand[rng.Intn(len(cand))]
				r.released = true
				if r.doneAt.IsZero() {
					rec.Count("outer.reader_released_before_grace", 1)
				}
				leaveLocked(r)
			}
			mu.Unlock()
			if r != nil {
				w.step(fmt.Sprintf("reader%d release", r.id))
				r.release()
			}
		case 3: // writer arrives
			nextID++
			wr := &writer{id: nextID, arrived: time.Now()}
			mu.Lock()
			writers = append(writers, wr)
			mu.Unlock()
			mu.Lock()
			free := true
			for _, x := range writers {
				if x != wr && (x.grantSeq == 0 || x.in) {
					free = false
				}
			}
			for _, r := range readers {
				if holdLive(r) {
					free = false
				}
			}
			free = free && pendingReaders == 0
			mu.Unlock()
			wr.expectNow = free
			w.step(fmt.Sprintf("writer%d lock", wr.id))
			go func() {
				u := o.Lock()
				mu.Lock()
				seq++
				wr.unlock, wr.granted, wr.grantSeq, wr.in = u, time.Now(), seq, true
				// "not before the grace period": a reader admitted earlier that has not called its release function
				// (whether or not its own parent context has ended meanwhile) keeps the writer out for a full grace period
				for _, r := range readers {
					if !r.released && !holdGone(r, wr) && time.Now().Before(wr.arrived.Add(grace)) {
						early = fmt.Sprintf("writer%d (arrived %s) was granted at %s, before the grace period %v had passed, while reader%d had not released (its context: %v)", wr.id, wr.arrived.Format("05.000"), time.Now().Format("05.000"), grace, r.id, context.Cause(r.rctx))
					}
				}
				for _, r := range readers {
					if !r.released && !holdGone(r, wr) && r.doomed && early == "" {
						rec.Count("outer.grace_kept_for_holder_whose_parent_ended", 1)
					}
				}
				// readers that have been told to stop no longer count
				for _, r := range readers {
					if r.rctx.Err() != nil {
						leaveLocked(r)
					}
				}
				w.occ.enter(k, wr.id, true)
				mu.Unlock()
			}()
		case 4: // a writer that is inside unlocks
			mu.Lock()
			var wr *writer
			for _, x := range writers {
				if x.in {
					wr = x
					break
				}
			}
			if wr != nil {
				wr.in = false
				wr.unlockedAt = time.Now()
				w.occ.leave(k, wr.id, true)
			}
			mu.Unlock()
			if wr != nil {
				w.step(fmt.Sprintf("writer%d unlock", wr.id))
				wr.unlock()
			}
		default:
			d := []time.Duration{time.Millisecond, grace / 2, grace - 1, grace, grace + 1, 2 * grace}[rng.Intn(6)]
			if forced.mode == "long" {
				d = 2 * grace
			}
			w.step("sleep " + d.String())
			time.Sleep(d)
		}
		synctest.Wait()
		if v := w.occ.violation(); v != "" {
			w.violation("OuterCancel/writer-with-uncancelled-reader", v)
			return true
		}
		if !checkDoomed() {
			return true
		}
		mu.Lock()
		if early != "" {
			msg := early
			mu.Unlock()
			w.violation("OuterCancel/writer-granted-before-grace", msg)
			return true
		}
		mu.Unlock()
		// judge reader cancellations
		mu.Lock()
		for _, r := range readers {
			if r.doneAt.IsZero() || r.cause == nil || r.doomed {
				continue
			}
			if errors.Is(r.cause, errOuter) {
				// told to stop by the lock: legal only for a writer that arrived a full grace period earlier,
				// or after the reader's own release (its cancel function uses the same cause)
				if r.released && r.mode == "prompt" {
					continue
				}
				ok, stale := false, false
				for _, wr := range writers {
					if !wr.arrived.After(r.doneAt.Add(-grace)) {
						// ... and that writer was still waiting for the lock when the reader was told to stop: a
						// writer that had been granted before is no reason (its wait was over)
						if wr.grantSeq == 0 || !wr.granted.Before(r.doneAt) {
							ok = true
						} else {
							stale = true
						}
					}
				}
				if !ok && stale {
					mu.Unlock()
					w.violation("OuterCancel/reader-cancelled-without-a-waiting-writer", fmt.Sprintf("reader%d (granted %s) was cancelled at %s with the lock's cause, but every writer that had arrived a grace period (%v) earlier had already been granted before that instant: nobody was waiting for the lock", r.id, r.granted.Format("05.000"), r.doneAt.Format("05.000"), grace))
					return true
				}
				if !ok {
					mu.Unlock()
					w.violation("OuterCancel/reader-cancelled-before-grace", fmt.Sprintf("reader%d (granted %s) was cancelled at %s, but no writer had arrived a full grace period (%v) earlier", r.id, r.granted.Format("05.000"), r.doneAt.Format("05.000"), grace))
					return true
				}
				rec.Count("outer.writer_cancelled_readers_at_grace", 1)
			} else if !(r.released && r.mode == "prompt") {
				mu.Unlock()
				w.violation("OuterCancel/wrong-cause", fmt.Sprintf("reader%d was cancelled with cause %v instead of the configured one (it had not released and its parent is live)", r.id, r.cause))
				return true
			}
		}
		// a writer that found the lock free (every earlier holder released or reported an error) is granted at once:
		// "an acquisition that reported an error holds nothing"
		for _, wr := range writers {
			if wr.expectNow && wr.arrived.Equal(time.Now()) && wr.grantSeq == 0 {
				mu.Unlock()
				w.violation("OuterCancel/free-lock-not-granted", fmt.Sprintf("writer%d arrived while no reader or writer held or awaited the lock, but it was not granted at once (an orphaned read hold left by a failed RLock?)", wr.id))
				return true
			}
			if wr.expectNow && wr.grantSeq != 0 {
				rec.Count("outer.free_lock_granted_at_once", 1)
				wr.expectNow = false
			}
		}
		// bounded progress: the earliest writer not yet granted, once every earlier writer has unlocked, has
		// been waiting only for readers - and every reader is told to stop one grace period after the writer's
		// turn came, which is all the lock waits for. So a full grace period after its turn it must be inside.
		for i, wr := range writers {
			if wr.grantSeq != 0 {
				continue
			}
			turn := wr.arrived
			ok := true
			for _, x := range writers[:i] {
				if x.grantSeq == 0 || x.in {
					ok = false
				} else if x.unlockedAt.After(turn) {
					turn = x.unlockedAt
				}
			}
			if ok && time.Now().After(turn.Add(grace)) {
				mu.Unlock()
				w.violation("OuterCancel/writer-not-granted-after-grace", fmt.Sprintf("writer%d's turn came at %s (arrival / last unlock of an earlier writer); at %s, more than the grace period %v later, it is still not granted: a reader was never told to stop", wr.id, turn.Format("05.000"), time.Now().Format("05.000"), grace))
				return true
			}
			if ok && !time.Now().Before(turn.Add(grace)) {
				rec.Count("outer.head_writer_progress_checked", 1)
			}
			break
		}
		// a writer that was granted: every reader granted before it has released or was told to stop
		for _, wr := range writers {
			if wr.grantSeq == 0 {
				continue
			}
			for _, r := range readers {
				if r.grantSeq > wr.grantSeq {
					continue
				}
				if !r.released && r.rctx.Err() == nil {
					mu.Unlock()
					w.violation("OuterCancel/writer-granted-with-live-reader", fmt.Sprintf("writer%d was granted while reader%d had neither released nor been cancelled", wr.id, r.id))
					return true
				}
			}
		}
		mu.Unlock()
	}
	// wind down: release everything so that every pending caller gets through
	for iter := 0; iter < 60; iter++ {
		mu.Lock()
		var rs []*reader
		var ws []*writer
		for _, r := range readers {
			if !r.released {
				r.released = true
				leaveLocked(r)
				rs = append(rs, r)
			}
		}
		for _, wr := range writers {
			if wr.in {
				wr.in = false
				w.occ.leave(k, wr.id, true)
				ws = append(ws, wr)
			}
		}
		pending := pendingReaders
		for _, wr := range writers {
			if wr.grantSeq == 0 {
				pending++
			}
		}
		mu.Unlock()
		for _, r := range rs {
			r.release()
		}
		for _, wr := range ws {
			wr.unlock()
		}
		if len(rs)+len(ws) == 0 {
			if pending == 0 {
				break
			}
			time.Sleep(2 * grace)
		}
		synctest.Wait()
		if v := w.occ.violation(); v != "" {
			w.violation("OuterCancel/writer-with-uncancelled-reader", v)
			return true
		}
	}
	if !checkDoomed() {
		return true
	}
	mu.Lock()
	for _, wr := range writers {
		if wr.grantSeq == 0 {
			mu.Unlock()
			w.violation("OuterCancel/writer-never-granted", fmt.Sprintf("writer%d was never granted although every reader released or was cancelled and grace periods passed", wr.id))
			return true
		}
	}
	if pendingReaders > 0 {
		mu.Unlock()
		w.violation("OuterCancel/reader-never-admitted", "a reader is still waiting although every writer has unlocked")
		return true
	}
	nw := len(writers)
	mu.Unlock()
	// ---- shutdown with one reader inside: the lock stops running; the reader's release function still
	// returns, a caller that asks for the read lock afterwards gets an error (and holds nothing), and
	// callers of Lock() - which never reports an error - still exclude one another
	type lastReader struct {
		ctx context.Context
		rel context.CancelFunc
		err error
	}
	lastCh := make(chan lastReader, 1)
	go func() {
		c, rel, err := o.RLock(context.Background())
		lastCh <- lastReader{c, rel, err}
	}()
	synctest.Wait()
	var last lastReader
	select {
	case last = <-lastCh:
		if last.err != nil {
			w.violation("OuterCancel/rlock-error-while-running", fmt.Sprintf("RLock on the idle running lock returned %v", last.err))
			return true
		}
	default:
		w.violation("OuterCancel/reader-not-admitted", "the lock is idle (every reader released, every writer unlocked) but RLock did not return")
		return true
	}
	w.step("shutdown with a reader inside")
	stop()
	if q := mon.Quiesce(); !q.OK {
		rec.Inconclusive(w.idx, "no quiescence after shutdown", q)
		return true
	}
	select {
	case <-runDone:
	default:
		w.violation("OuterCancel/run-did-not-return", "Run did not return after its context ended")
		return true
	}
	if last.ctx.Err() != nil {
		if c := context.Cause(last.ctx); !errors.Is(c, errOuter) {
			w.violation("OuterCancel/wrong-cause", fmt.Sprintf("the reader inside at shutdown was cancelled with cause %v instead of the configured one", c))
			return true
		}
		rec.Count("outer.reader_cancelled_at_shutdown", 1)
	} else {
		rec.Count("outer.reader_not_cancelled_at_shutdown", 1)
	}
	relDone := make(chan struct{})
	go func() { last.rel(); close(relDone) }()
	q := mon.Quiesce()
	select {
	case <-relDone:
		rec.Count("outer.release_after_shutdown_returned", 1)
	default:
		w.violation("OuterCancel/release-after-shutdown-blocked", fmt.Sprintf("the release function of the reader that was inside at shutdown did not return (mutex-blocked goroutines: %d %v)", q.MutexBlocked, q.MutexFrames))
		return true
	}
	if _, rel, err := o.RLock(context.Background()); err == nil {
		rec.Count("outer.rlock_granted_after_shutdown", 1)
		rel()
	} else {
		rec.Count("outer.rlock_error_after_shutdown", 1)
	}
	sk := "outer-after-shutdown"
	gate := make(chan struct{})
	fin := make(chan int, 3)
	for i := 0; i < 3; i++ {
		id := 9000 + i
		go func() {
			u := o.Lock()
			w.occ.enter(sk, id, true)
			<-gate
			w.occ.leave(sk, id, true)
			u()
			fin <- id
		}()
	}
	finished := 0
	for round := 0; round < 3; round++ {
		mon.Quiesce()
		if v := w.occ.violation(); v != "" {
			w.violation("OuterCancel/two-writers-after-shutdown", v)
			return true
		}
		if in := w.occ.inside(sk); in != 1 {
			w.violation("OuterCancel/writer-stuck-after-shutdown", fmt.Sprintf("after shutdown %d callers of Lock() finished and %d wait, but %d are inside (expected exactly one)", finished, 3-finished, in))
			return true
		}
		gate <- struct{}{}
		mon.Quiesce()
		select {
		case <-fin:
			finished++
		default:
			w.violation("OuterCancel/unlock-after-shutdown-blocked", "the unlock function of a writer granted after shutdown did not return")
			return true
		}
	}
	rec.Count("outer.writers_exclusive_after_shutdown", 1)
	for _, r := range readers {
		r.parent()
	}
	time.Sleep(time.Second)
	synctest.Wait()
	return waited || nw > 0
}

// ---------------------------------------------------------------- stress: truly concurrent callers

// stress lets 4-8 goroutines loop over acquire / critical section / release on
// 1-2 keys at the same time (no lock-step), under the race detector. Only the
// occupancy monitor, the final entry count and termination are judged.
func stress(w *world, rng *mon.RNG) bool {
	which := rng.PickStr("fifo.Mutex", "fifo.Map", "cmap.Mutex", "lock.Context")
	w.step("stress " + which)
	ng := rng.Range(4, 8)
	iters := rng.Range(20, 60)
	keys := []string{"k0", "k1"}[:rng.Range(1, 2)]
	fm := fifo.New()
	fmap := fifo.NewMap[string]()
	cm := cmap.NewMutex[string]()
	lc := lock.NewContext()
	var wg sync.WaitGroup
	var n atomic.Int64
	for g := 0; g < ng; g++ {
		wg.Add(1)
		grng := mon.NewRNG("c13-stress", w.idx*16+g)
		go func(g int) {
			defer wg.Done()
			for i := 0; i < iters; i++ {
				k := keys[grng.Intn(len(keys))]
				write := true
				switch which {
				case "fifo.Mutex":
					k = "k0"
					fm.Lock()
				case "fifo.Map":
					fmap.Lock(k)
				case "cmap.Mutex":
					write = grng.Bool()
					if write {
						cm.Lock(k)
					} else {
						cm.RLock(k)
					}
				case "lock.Context":
					k = "k0"
					write = grng.Bool()
					var err error
					if write {
						err = lc.Lock(context.Background())
					} else {
						err = lc.RLock(context.Background())
					}
					if err != nil {
						w.violation("lock.Context/error-without-cause", err.Error())
						return
					}
				}
				w.occ.enter(k, g, write)
				n.Add(1)
				for y := grng.Intn(3); y > 0; y-- {
					runtimeGosched()
				}
				w.occ.leave(k, g, write)
				switch which {
				case "fifo.Mutex":
					fm.Unlock()
				case "fifo.Map":
					fmap.Unlock(k)
				case "cmap.Mutex":
					if write {
						cm.Unlock(k)
					} else {
						cm.RUnlock(k)
					}
				case "lock.Context":
					if write {
						lc.Unlock()
					} else {
						lc.RUnlock()
					}
				}
			}
		}(g)
	}
	wg.Wait()
	rec.Count("stress.acquisitions", int(n.Load()))
	if v := w.occ.violation(); v != "" {
		w.violation(which+"/two-holders/stress", v)
		return true
	}
	if which == "fifo.Map" {
		if l := fmap.(interface{ VerifLen() int }).VerifLen(); l != 0 {
			w.violation("fifo.Map/leaked-entries/stress", fmt.Sprintf("all goroutines are done but the map still has %d per-key entries", l))
		}
	}
	return true
}

func runtimeGosched() { runtime.Gosched() }
