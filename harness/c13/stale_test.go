package c13

import (
	"context"
	"fmt"
	"testing/synctest"
	"time"

	"github.com/dapr/kit/concurrency/lock"
)

// outerAfterEarlyGrant: a writer whose wait ended EARLY (the readers it found released of their own accord
// before the grace period was up) leaves nothing behind: a reader admitted after that writer has unlocked is
// "never cancelled for any other reason than its own release, its parent context, a writer or shutdown" -
// in particular not when the first writer's grace period would have run out. Afterwards a second writer
// gets the full grace period of its own: its readers are told to stop exactly one grace period after ITS
// arrival, not earlier.
func outerAfterEarlyGrant(w *world, rng interface {
	Intn(int) int
	Range(int, int) int
}) bool {
	grace := []time.Duration{time.Second, 5 * time.Second, 30 * time.Second}[rng.Intn(3)]
	nr := rng.Range(1, 3)
	frac := []time.Duration{grace / 10, grace / 3, grace / 2, grace - time.Millisecond}[rng.Intn(4)]
	secondWriterAfter := []time.Duration{0, grace / 4, grace / 2}[rng.Intn(3)]
	w.step(fmt.Sprintf("after-early-grant grace=%v readers=%d release-after=%v second-writer-after=%v", grace, nr, frac, secondWriterAfter))
	o := lock.NewOuterCancel(errOuter, grace)
	runCtx, stop := context.WithCancel(context.Background())
	runDone := make(chan struct{})
	go func() { o.Run(runCtx); close(runDone) }()
	defer func() { stop(); <-runDone }()
	synctest.Wait()
	var rels []context.CancelFunc
	for i := 0; i < nr; i++ {
		_, rel, err := o.RLock(context.Background())
		if err != nil {
			w.violation("OuterCancel/early-grant/rlock-error-on-free-lock", err.Error())
			return false
		}
		rels = append(rels, rel)
	}
	w1Arrived := time.Now()
	granted := make(chan context.CancelFunc, 1)
	go func() { granted <- o.Lock() }()
	synctest.Wait()
	time.Sleep(frac)
	for _, rel := range rels {
		rel()
	}
	synctest.Wait()
	var unlock context.CancelFunc
	select {
	case unlock = <-granted:
	default:
		w.violation("OuterCancel/early-grant/writer-not-granted-after-readers-released", fmt.Sprintf("every reader released %v after the writer arrived (grace %v) and everything is parked, but the writer is not granted", frac, grace))
		return true
	}
	rec.Count("outer.writer_granted_early_because_readers_released", 1)
	unlock()
	synctest.Wait()
	// a new reader, admitted while the first writer's grace period would still be running
	r2ctx, r2rel, err := o.RLock(context.Background())
	if err != nil {
		w.violation("OuterCancel/early-grant/rlock-error-on-free-lock", err.Error())
		return true
	}
	defer r2rel()
	// ... and held past the instant that grace period would have ended
	time.Sleep(time.Until(w1Arrived.Add(grace)) + time.Millisecond)
	synctest.Wait()
	if r2ctx.Err() != nil {
		w.violation("OuterCancel/reader-cancelled-without-a-waiting-writer", fmt.Sprintf("a reader admitted after the only writer had been granted (early, %v after it arrived) and had unlocked was cancelled (%v) when that writer's grace period (%v) would have run out: nobody is waiting for the lock", frac, context.Cause(r2ctx), grace))
		return true
	}
	time.Sleep(secondWriterAfter)
	synctest.Wait()
	if r2ctx.Err() != nil {
		w.violation("OuterCancel/reader-cancelled-without-a-waiting-writer", fmt.Sprintf("a reader was cancelled (%v) although no writer is waiting", context.Cause(r2ctx)))
		return true
	}
	// a second writer: the reader is told to stop one full grace period after THIS writer arrived
	w2Arrived := time.Now()
	go func() { granted <- o.Lock() }()
	synctest.Wait()
	time.Sleep(grace - time.Millisecond)
	synctest.Wait()
	if r2ctx.Err() != nil {
		w.violation("OuterCancel/reader-cancelled-before-grace", fmt.Sprintf("the second writer arrived at +%v; its reader was cancelled before a full grace period (%v) had passed since", w2Arrived.Sub(w1Arrived), grace))
		return true
	}
	select {
	case <-granted:
		w.violation("OuterCancel/writer-granted-before-grace", "the second writer was granted before its reader released or a grace period had passed")
		return true
	default:
	}
	time.Sleep(2 * time.Millisecond)
	synctest.Wait()
	select {
	case u := <-granted:
		if r2ctx.Err() == nil || context.Cause(r2ctx) != errOuter {
			w.violation("OuterCancel/writer-with-uncancelled-reader", fmt.Sprintf("the second writer was granted while its reader's context reads %v (cause %v)", r2ctx.Err(), context.Cause(r2ctx)))
		}
		u()
	default:
		w.violation("OuterCancel/writer-not-granted-after-grace", "the second writer is not granted a grace period after it arrived")
		return true
	}
	rec.Count("outer.reader_after_early_grant_kept_until_next_writers_grace", 1)
	return true
}

// errHookCtx is a caller's context whose Err method does something before it answers - here: the context
// ends at the very moment somebody asks. Any use of ctx.Err() inside an acquisition therefore finds the
// context over "just now", which is how a context that ends between two statements looks.
type errHookCtx struct {
	context.Context
	hook func()
}

func (c *errHookCtx) Err() error {
	if c.hook != nil {
		c.hook()
	}
	return c.Context.Err()
}

// outerCtxEndsAtGrant: "an acquisition that reported an error holds nothing". A reader's context ends right
// when the lock looks at it - on a free lock, or when the reader's turn comes after a writer unlocked.
// Whatever RLock then answers is fine, but it must be consistent: an error means no hold is left behind (a
// writer that arrives next is granted without waiting for anybody), no error means a real hold.
func outerCtxEndsAtGrant(w *world, rng interface {
	Intn(int) int
	Range(int, int) int
}) bool {
	grace := []time.Duration{time.Second, 5 * time.Second, 30 * time.Second}[rng.Intn(3)]
	behindWriter := w.idx%2 == 1
	if w.idx%3 == 2 {
		return ctxLockCtxEndsWhenAsked(w, behindWriter, w.idx%2 == 0)
	}
	w.step(fmt.Sprintf("ctx-ends-when-asked grace=%v behindWriter=%v", grace, behindWriter))
	o := lock.NewOuterCancel(errOuter, grace)
	runCtx, stop := context.WithCancel(context.Background())
	runDone := make(chan struct{})
	go func() { o.Run(runCtx); close(runDone) }()
	defer func() { stop(); <-runDone }()
	synctest.Wait()
	var unlockW1 context.CancelFunc
	if behindWriter {
		unlockW1 = o.Lock()
	}
	inner, cancelInner := context.WithCancel(context.Background())
	defer cancelInner()
	asked := 0
	ctx := &errHookCtx{Context: inner, hook: func() { asked++; cancelInner() }}
	type res struct {
		rctx context.Context
		rel  context.CancelFunc
		err  error
	}
	got := make(chan res, 1)
	go func() {
		rctx, rel, err := o.RLock(ctx)
		got <- res{rctx, rel, err}
	}()
	synctest.Wait()
	if behindWriter {
		unlockW1()
		synctest.Wait()
	}
	var r res
	select {
	case r = <-got:
	default:
		w.violation("OuterCancel/ctx-ends-when-asked/rlock-did-not-return", "RLock on a lock nobody holds did not return")
		return true
	}
	if asked > 0 {
		rec.Count("outer.observed.lock_asked_the_callers_context_for_its_error", 1)
	}
	arrived := time.Now()
	granted := make(chan context.CancelFunc, 1)
	if r.err != nil {
		// reported an error: it holds nothing
		go func() { granted <- o.Lock() }()
		synctest.Wait()
		select {
		case u := <-granted:
			u()
		default:
			w.violation("OuterCancel/rlock-error-leaves-a-hold", fmt.Sprintf("RLock returned %v (its context ended when the lock asked it); a writer that arrived next, with nobody else around, is not granted at once: the failed acquisition left a read hold behind (the writer will have to sit out the grace period %v)", r.err, grace))
			return true
		}
		rec.Count("outer.rlock_error_when_ctx_ends_at_grant_holds_nothing", 1)
		return true
	}
	// no error: a real hold; the writer has to wait for the release
	go func() { granted <- o.Lock() }()
	synctest.Wait()
	select {
	case <-granted:
		w.violation("OuterCancel/two-holders", "RLock returned a hold without error, yet a writer was granted while it is held")
		return true
	default:
	}
	r.rel()
	synctest.Wait()
	select {
	case u := <-granted:
		if !time.Now().Equal(arrived) {
			w.violation("OuterCancel/writer-not-granted-after-release", "the writer was granted only after time passed although the reader released at once")
		}
		u()
	default:
		w.violation("OuterCancel/writer-not-granted-after-release", "the reader released, the writer is still not granted")
		return true
	}
	rec.Count("outer.rlock_granted_with_probing_context", 1)
	return true
}

// ctxLockCtxEndsWhenAsked: the same for lock.Context's Lock / RLock.
func ctxLockCtxEndsWhenAsked(w *world, behindWriter, write bool) bool {
	w.step(fmt.Sprintf("lock.Context ctx-ends-when-asked behindWriter=%v write=%v", behindWriter, write))
	l := lock.NewContext()
	if behindWriter {
		if err := l.Lock(context.Background()); err != nil {
			w.violation("lock.Context/error-without-cause", err.Error())
			return true
		}
	}
	inner, cancelInner := context.WithCancel(context.Background())
	defer cancelInner()
	ctx := &errHookCtx{Context: inner, hook: cancelInner}
	got := make(chan error, 1)
	go func() {
		if write {
			got <- l.Lock(ctx)
		} else {
			got <- l.RLock(ctx)
		}
	}()
	synctest.Wait()
	if behindWriter {
		l.Unlock()
		synctest.Wait()
	}
	var err error
	select {
	case err = <-got:
	default:
		w.violation("lock.Context/ctx-ends-when-asked/did-not-return", "an acquisition on a lock nobody holds did not return")
		return true
	}
	if err == nil {
		// a real hold: give it back
		if write {
			l.Unlock()
		} else {
			l.RUnlock()
		}
		rec.Count("context.granted_with_probing_context", 1)
	} else {
		rec.Count("context.error_with_probing_context", 1)
	}
	// either way the lock is free now: an exclusive acquisition goes through at once
	done := make(chan error, 1)
	go func() { done <- l.Lock(context.Background()) }()
	synctest.Wait()
	select {
	case e := <-done:
		if e != nil {
			w.violation("lock.Context/error-without-cause", e.Error())
			return true
		}
		l.Unlock()
	default:
		w.violation("lock.Context/error-leaves-a-hold", fmt.Sprintf("an acquisition whose context ended when the lock asked it returned %v; afterwards an exclusive Lock on the otherwise unused lock does not go through", err))
	}
	return true
}
