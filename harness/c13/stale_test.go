package c13

import (
	"context"
	"fmt"
	"testing/synctest"
	"time"

	"github.com/dapr/kit/concurrency/lock"
)

// outerAfterEarlyGrant: a writer whose wait ended EARLY (the readers it found released of their own accord
// before the grace period was up) leaves nothing behind: a reader admitted after that writer has unlocked is
// "never cancelled for any other reason than its own release, its parent context, a writer or shutdown" -
// in particular not when the first writer's grace period would have run out. Afterwards a second writer
// gets the full grace period of its own: its readers are told to stop exactly one grace period after ITS
// arrival, not earlier.
func outerAfterEarlyGrant(w *world, rng interface {
	Intn(int) int
	Range(int, int) int
}) bool {
	grace := []time.Duration{time.Second, 5 * time.Second, 30 * time.Second}[rng.Intn(3)]
	nr := rng.Range(1, 3)
	frac := []time.Duration{grace / 10, grace / 3, grace / 2, grace - time.Millisecond}[rng.Intn(4)]
	secondWriterAfter := []time.Duration{0, grace / 4, grace / 2}[rng.Intn(3)]
	w.step(fmt.Sprintf("after-early-grant grace=%v readers=%d release-after=%v second-writer-after=%v", grace, nr, frac, secondWriterAfter))
	o := lock.NewOuterCancel(errOuter, grace)
	runCtx, stop := context.WithCancel(context.Background())
	runDone := make(chan struct{})
	go func() { o.Run(runCtx); close(runDone) }()
	defer func() { stop(); <-runDone }()
	synctest.Wait()
	var rels []context.CancelFunc
	for i := 0; i < nr; i++ {
		_, rel, err := o.RLock(context.Background())
		if err != nil {
			w.violation("OuterCancel/early-grant/rlock-error-on-free-lock", err.Error())
			return false
		}
		rels = append(rels, rel)
	}
	w1Arrived := time.Now()
	granted := make(chan context.CancelFunc, 1)
	go func() { granted <- o.Lock() }()
	synctest.Wait()
	time.Sleep(frac)
	for _, rel := range rels {
		rel()
	}
	synctest.Wait()
	var unlock context.CancelFunc
	select {
	case unlock = <-granted:
	default:
		w.violation("OuterCancel/early-grant/writer-not-granted-after-readers-released", fmt.Sprintf("every reader released %v after the writer arrived (grace %v) and everything is parked, but the writer is not granted", frac, grace))
		return true
	}
	rec.Count("outer.writer_granted_early_because_readers_released", 1)
	unlock()
	synctest.Wait()
	// a new reader, admitted while the first writer's grace period would still be running
	r2ctx, r2rel, err := o.RLock(context.Background())
	if err != nil {
		w.violation("OuterCancel/early-grant/rlock-error-on-free-lock", err.Error())
		return true
	}
	defer r2rel()
	// ... and held past the instant that grace period would have ended
	time.Sleep(time.Until(w1Arrived.Add(grace)) + time.Millisecond)
	synctest.Wait()
	if r2ctx.Err() != nil {
		w.violation("OuterCancel/reader-cancelled-without-a-waiting-writer", fmt.Sprintf("a reader admitted after the only writer had been granted (early, %v after it arrived) and had unlocked was cancelled (%v) when that writer's grace period (%v) would have run out: nobody is waiting for the lock", frac, context.Cause(r2ctx), grace))
		return true
	}
	time.Sleep(secondWriterAfter)
	synctest.Wait()
	if r2ctx.Err() != nil {
		w.violation("OuterCancel/reader-cancelled-without-a-waiting-writer", fmt.Sprintf("a reader was cancelled (%v) although no writer is waiting", context.Cause(r2ctx)))
		return true
	}
	// a second writer: the reader is told to stop one full grace period after THIS writer arrived
	w2Arrived := time.Now()
	go func() { granted <- o.Lock() }()
	synctest.Wait()
	time.Sleep(grace - time.Millisecond)
	synctest.Wait()
	if r2ctx.Err() != nil {
		w.violation("OuterCancel/reader-cancelled-before-grace", fmt.Sprintf("the second writer arrived at +%v; its reader was cancelled before a full grace period (%v) had passed since", w2Arrived.Sub(w1Arrived), grace))
		return true
	}
	select {
	case <-granted:
		w.violation("OuterCancel/writer-granted-before-grace", "the second writer was granted before its reader released or a grace period had passed")
		return true
	default:
	}
	time.Sleep(2 * time.Millisecond)
	synctest.Wait()
	select {
	case u := <-granted:
		if r2ctx.Err() == nil || context.Cause(r2ctx) != errOuter {
			w.violation("OuterCancel/writer-with-uncancelled-reader", fmt.Sprintf("the second writer was granted while its reader's context reads %v (cause %v)", r2ctx.Err(), context.Cause(r2ctx)))
		}
		u()
	default:
		w.violation("OuterCancel/writer-not-granted-after-grace", "the second writer is not granted a grace period after it arrived")
		return true
	}
	rec.Count("outer.reader_after_early_grant_kept_until_next_writers_grace", 1)
	return true
}
