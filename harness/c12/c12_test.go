// Package c12 monitors property C12 (RunnerManager / RunnerCloserManager:
// cancel on first return, closers last, joined errors, grace period).
package c12

import (
	"context"
	"errors"
	"fmt"
	"io"
	"runtime"
	"strings"
	"sync"
	"sync/atomic"
	"testing"
	"testing/synctest"
	"time"

	"github.com/dapr/kit/concurrency"
	"github.com/dapr/kit/logger"

	"verif/harness/internal/mon"
)

var rec *mon.Rec

type event struct {
	seq  int64
	kind string // rstart rdone rret cstart cret fatal runret closeret parentcancel closecall addcloser
	id   int
	err  error
	t    time.Time
}

type world struct {
	idx   int
	mode  string
	desc  string
	mu    sync.Mutex
	clk   atomic.Int64
	evs   []event
	viol  atomic.Bool
	gates map[int]chan struct{}
	mgr   *concurrency.RunnerCloserManager
}

func (w *world) ev(kind string, id int, err error) int64 {
	w.mu.Lock()
	defer w.mu.Unlock()
	s := w.clk.Add(1)
	w.evs = append(w.evs, event{s, kind, id, err, time.Now()})
	return s
}

func (w *world) events() []event {
	w.mu.Lock()
	defer w.mu.Unlock()
	return append([]event{}, w.evs...)
}

func (w *world) dump() []string {
	var out []string
	for _, e := range w.events() {
		out = append(out, fmt.Sprintf("#%d %s id=%d err=%v t=%s", e.seq, e.kind, e.id, e.err, e.t.Format("05.000")))
	}
	return out
}

func (w *world) violation(sig, msg string) {
	if w.viol.Swap(true) {
		return
	}
	rec.Violation(w.idx, sig, msg, map[string]any{"mode": w.mode, "topology": w.desc, "events": w.dump()})
}

func (w *world) gate(id int) chan struct{} {
	w.mu.Lock()
	defer w.mu.Unlock()
	if w.gates == nil {
		w.gates = map[int]chan struct{}{}
	}
	if w.gates[id] == nil {
		w.gates[id] = make(chan struct{})
	}
	return w.gates[id]
}

// ---- runners

type rspec struct {
	Kind string // nil err canceled wrapped untilcancel-nil untilcancel-err untilcancel-ctxerr gate-nil gate-err
}

var rkinds = []string{"nil", "err", "canceled", "wrapped", "untilcancel-nil", "untilcancel-err", "untilcancel-ctxerr", "gate-nil", "gate-err"}

type sentinel struct{ s string }

func (s *sentinel) Error() string { return s.s }

func (w *world) runner(i int, sp rspec, sent error) concurrency.Runner {
	return func(ctx context.Context) (err error) {
		w.ev("rstart", i, nil)
		defer func() { w.ev("rret", i, err) }()
		switch sp.Kind {
		case "nil":
			return nil
		case "err":
			return sent
		case "canceled":
			return context.Canceled
		case "wrapped":
			return fmt.Errorf("runner %d: %w", i, context.Canceled)
		case "untilcancel-nil", "untilcancel-err", "untilcancel-ctxerr":
			<-ctx.Done()
			w.ev("rdone", i, nil)
			switch sp.Kind {
			case "untilcancel-err":
				return sent
			case "untilcancel-ctxerr":
				return ctx.Err()
			}
			return nil
		default: // gate-*
			select {
			case <-ctx.Done():
				w.ev("rdone", i, nil)
				return nil
			case <-w.gate(i):
				if sp.Kind == "gate-err" {
					return sent
				}
				return nil
			}
		}
	}
}

// expectErr: does runner kind return its sentinel (when it finishes by itself / by cancellation)?
func returnsSentinel(kind string, released bool) bool {
	switch kind {
	case "err", "untilcancel-err":
		return true
	case "gate-err":
		return released
	}
	return false
}

func leaves(err error) []error {
	if err == nil {
		return nil
	}
	if j, ok := err.(interface{ Unwrap() []error }); ok {
		var out []error
		for _, e := range j.Unwrap() {
			out = append(out, leaves(e)...)
		}
		return out
	}
	return []error{err}
}

// checkJoin: got must be the join of exactly the expected sentinels.
func (w *world) checkJoin(where string, got error, want []error) {
	for _, s := range want {
		if !errors.Is(got, s) {
			w.violation(where+"/error-missing", fmt.Sprintf("%s: returned error %v does not contain %v", where, got, s))
			return
		}
	}
	if n := len(leaves(got)); n != len(want) {
		w.violation(where+"/error-count", fmt.Sprintf("%s: returned error %q has %d leaf errors, expected exactly %d", where, fmt.Sprint(got), n, len(want)))
	}
}

// parentCtx builds the context handed to Run and the way the scenario ends it: an explicit cancel, a cancel
// with a custom cause (Err() is still context.Canceled), or a deadline that the virtual clock reaches
// (Err() is context.DeadlineExceeded - which no runner or closer returned, so it must not show up in
// the joined error unless a runner itself returned it).
func parentCtx(kind string) (ctx context.Context, end func(), cleanup func()) {
	switch kind {
	case "deadline":
		dl := time.Now().Add(100 * time.Hour)
		c, cancel := context.WithDeadline(context.Background(), dl)
		return c, func() { time.Sleep(time.Until(dl)) }, cancel
	case "already-ended":
		// Run is handed a context that has ended before it is called: everything still starts, is
		// cancelled at once and winds down in order
		c, cancel := context.WithCancel(context.Background())
		cancel()
		return c, func() {}, cancel
	case "cause":
		c, cancel := context.WithCancelCause(context.Background())
		return c, func() { cancel(errors.New("custom cause of the caller")) }, func() { cancel(nil) }
	}
	c, cancel := context.WithCancel(context.Background())
	return c, cancel, cancel
}

// deadlineLeaves: the DeadlineExceeded errors that runners themselves returned (they belong in the join).
func (w *world) deadlineLeaves() []error {
	var out []error
	for _, e := range w.events() {
		if e.kind == "rret" && e.err != nil && errors.Is(e.err, context.DeadlineExceeded) {
			out = append(out, context.DeadlineExceeded)
		}
	}
	return out
}

type plan struct {
	mode string
}

func plans() []plan {
	var ps []plan
	for i := 0; i < mon.Pick(1500, 100000); i++ {
		ps = append(ps, plan{"runner"})
	}
	for i := 0; i < mon.Pick(2500, 180000); i++ {
		ps = append(ps, plan{"closer"})
	}
	for i := 0; i < mon.Pick(300, 20000); i++ {
		ps = append(ps, plan{"addcloser-placed"})
	}
	for i := 0; i < mon.Pick(400, 30000); i++ {
		ps = append(ps, plan{"racing"})
	}
	// appended last so that earlier case indices do not move
	for i := 0; i < mon.Pick(60, 2000); i++ {
		ps = append(ps, plan{"shared-slice"})
	}
	return ps
}

func TestCheck(t *testing.T) {
	rec = mon.Open("C12")
	defer rec.Close()
	rec.Note("rule", "a case is one topology run against the real managers in a synctest bubble: 0-4 runners drawn from {nil, error, context.Canceled, wrapped Canceled, block-until-cancel (returning nil / an error / ctx.Err), gate-released (nil / error)} finishing in a seeded order, parent context cancelled or not; for the closer manager additionally 0-4 closers of the four accepted types with seeded durations and errors, grace period unset / generous / exceeded, Close before / during / after Run (repeated, concurrent), AddCloser during the run and AddCloser parked at its decision point while Run enters the closing phase, unsupported closer types. The sequence-stamped event log is judged offline. Grace periods include zero and negative values and closers that end in the last 100 ms of the grace period. (racing) Add / AddCloser / Close / Run from several goroutines at shared instants. (shared-slice) the slice given to the constructor or to Add is the caller's, with spare capacity, and is overwritten / appended to afterwards: the manager runs what it was given at the time of the call. Non-trivial = at least one runner or closer; distinct = distinct topology description.")
	rec.Note("require", []string{"runner.first_return_cancels_others", "runner.parent_cancel", "closer.fatal_fired", "closer.fatal_not_fired", "closer.close_during_run", "closer.close_before_run", "closer.concurrent_close", "closer.addcloser_during_run", "placed.addcloser_parked", "closer.unsupported_type_rejected", "closer.all_runners_registered_with_add", "closer.grace_period_zero_or_negative", "closer.finishes_in_the_last_fraction_of_the_grace_period", "shared_slice.slice_given_to_first_add", "join.errors_checked", "closer.addcloser_from_a_running_closer_refused", "closer.returns_context_canceled", "parent_end.cancel", "parent_end.deadline", "parent_end.cause", "parent_end.already-ended", "racing.addcloser_accepted", "racing.addcloser_rejected", "shared_slice.managers_start_their_own_runners"})
	ps := plans()
	rec.Planned(len(ps))
	for idx, pl := range ps {
		if !mon.Mine(idx) {
			continue
		}
		rng := mon.NewRNG("c12", idx)
		switch pl.mode {
		case "runner":
			runRunner(t, idx, rng)
		case "closer":
			runCloser(t, idx, rng, false)
		case "racing":
			runRacing(t, idx, rng)
		case "shared-slice":
			runSharedSlice(t, idx, rng)
		default:
			runCloser(t, idx, rng, true)
		}
	}
}

// runSharedSlice: the initial runners are handed over as a caller-owned slice with spare capacity, from
// which TWO managers are built; each then gets one more runner through Add. Every manager must start
// exactly the runners given to IT, and the caller's slice (spare capacity included) stays the caller's.
func runSharedSlice(t *testing.T, idx int, rng *mon.RNG) {
	n := rng.Range(0, 2)
	spare := rng.Range(1, 3)
	closerMgr := rng.Bool()
	edit := rng.Chance(1, 3)
	// how the caller's slice reaches the managers: through the constructor, or spread into the first Add of a
	// manager constructed empty
	viaAdd := idx%2 == 1
	if viaAdd && n == 0 {
		n = 1
	}
	w := &world{idx: idx, mode: "shared-slice", desc: fmt.Sprintf("initial=%d spare=%d closerManager=%v callerEditsSlice=%v sliceGivenToFirstAdd=%v", n, spare, closerMgr, edit, viaAdd)}
	rec.Begin(idx, w.mode+" "+w.desc)
	res := mon.Bubble(t, func() {
		mk := func(id int) concurrency.Runner {
			return func(ctx context.Context) error {
				w.ev("rstart", id, nil)
				<-ctx.Done()
				w.ev("rret", id, nil)
				return nil
			}
		}
		rs := make([]concurrency.Runner, n, n+spare)
		for i := range rs {
			rs[i] = mk(i)
		}
		type mgr interface {
			Add(...concurrency.Runner) error
			Run(context.Context) error
		}
		build := func() mgr {
			initial := rs
			if viaAdd {
				initial = nil
			}
			var m mgr
			if closerMgr {
				log := logger.NewLogger("c12")
				log.SetOutputLevel(logger.FatalLevel)
				m = concurrency.NewRunnerCloserManager(log, nil, initial...)
			} else {
				m = concurrency.NewRunnerManager(initial...)
			}
			if viaAdd {
				if err := m.Add(rs...); err != nil {
					w.violation("shared-slice/add-rejected", err.Error())
				}
				rec.Count("shared_slice.slice_given_to_first_add", 1)
			}
			return m
		}
		m1 := build()
		m2 := build()
		if err := m1.Add(mk(101)); err != nil {
			w.violation("shared-slice/add-rejected", err.Error())
			return
		}
		if err := m2.Add(mk(102)); err != nil {
			w.violation("shared-slice/add-rejected", err.Error())
			return
		}
		for _, r := range rs[:cap(rs)][n:] {
			if r != nil {
				// not judged by itself (the statement does not speak about the caller's memory); what matters
				// is whether each manager still runs its own runners, below
				rec.Count("shared_slice.observed.add_wrote_into_callers_spare_capacity", 1)
				break
			}
		}
		if edit {
			// the caller re-uses its slice for something else
			for i := range rs {
				rs[i] = mk(900 + i)
			}
		}
		ctx, cancel := context.WithCancel(context.Background())
		done := make(chan error, 2)
		go func() { done <- m1.Run(ctx) }()
		go func() { done <- m2.Run(ctx) }()
		synctest.Wait()
		starts := map[int]int{}
		for _, e := range w.events() {
			if e.kind == "rstart" {
				starts[e.id]++
			}
		}
		switch {
		case starts[101] != 1 || starts[102] != 1:
			w.violation("shared-slice/added-runner-not-started-by-its-manager", fmt.Sprintf("two managers built from one caller slice (cap > len), one runner added to each: runner added to manager 1 started %d times, runner added to manager 2 started %d times (each must start exactly once)", starts[101], starts[102]))
		default:
			for i := 0; i < n; i++ {
				if starts[i] != 2 {
					w.violation("shared-slice/initial-runner-start-count", fmt.Sprintf("initial runner %d was started %d times by the two managers (expected once by each); the caller edited its slice after construction: %v", i, starts[i], edit))
					break
				}
				if starts[900+i] != 0 {
					w.violation("shared-slice/runner-from-edited-caller-slice-started", fmt.Sprintf("a runner the caller put into its own slice after constructing the managers was started"))
					break
				}
			}
		}
		if !w.viol.Load() {
			rec.Count("shared_slice.managers_start_their_own_runners", 1)
		}
		cancel()
		synctest.Wait()
		for i := 0; i < 2; i++ {
			select {
			case <-done:
			default:
				w.violation("shared-slice/run-did-not-return", "Run did not return after the context was cancelled")
				return
			}
		}
	})
	finish(idx, w, res, true)
}

func finish(idx int, w *world, res mon.BubbleResult, nontrivial bool) {
	if res.Deadlock != "" && !w.viol.Load() {
		w.violation("bubble-deadlock-or-leak/"+w.mode, res.Deadlock+"; goroutines left: "+strings.Join(res.Stacks, " || "))
	} else if res.Panic != "" {
		w.violation("panic/"+w.mode, res.Panic)
	}
	rec.Case(idx, w.mode+" "+w.desc, nontrivial)
	if rec.WantSample() && nontrivial && idx%5 == 0 {
		rec.Sample(map[string]any{"mode": w.mode, "topology": w.desc, "events": w.dump()})
	}
}

// ---------------------------------------------------------------- RunnerManager

func runRunner(t *testing.T, idx int, rng *mon.RNG) {
	n := rng.Intn(5)
	specs := make([]rspec, n)
	sents := make([]error, n)
	var ds []string
	for i := range specs {
		specs[i] = rspec{rkinds[rng.Intn(len(rkinds))]}
		sents[i] = &sentinel{fmt.Sprintf("sentinel-%d", i)}
		ds = append(ds, specs[i].Kind)
	}
	parentCancel := rng.Chance(1, 4)
	lateAdd := rng.Chance(1, 3)
	order := rng.Intn(1 << 16)
	parentKind := rng.PickStr("cancel", "cancel", "deadline", "cause", "already-ended")
	w := &world{idx: idx, mode: "runner", desc: fmt.Sprintf("runners=%v parentCancel=%v(%s) order=%d", ds, parentCancel, parentKind, order)}
	rec.Begin(idx, w.mode+" "+w.desc)
	res := mon.Bubble(t, func() {
		var runners []concurrency.Runner
		for i, sp := range specs {
			runners = append(runners, w.runner(i, sp, sents[i]))
		}
		// half through the constructor, half through Add
		split := 0
		if n > 0 {
			split = rng.Intn(n + 1)
		}
		m := concurrency.NewRunnerManager(runners[:split]...)
		if err := m.Add(runners[split:]...); err != nil {
			w.violation("runner/add-before-run-rejected", "Add before Run returned "+err.Error())
			return
		}
		ctx, endParent, cancel := parentCtx(parentKind)
		defer cancel()
		if parentKind == "already-ended" {
			w.ev("parentcancel", 0, nil)
			rec.Count("parent_end.already-ended", 1)
		}
		runDone := make(chan struct{})
		var runErr error
		go func() {
			runErr = m.Run(ctx)
			w.ev("runret", 0, runErr)
			close(runDone)
		}()
		synctest.Wait()
		if lateAdd {
			if err := m.Add(func(context.Context) error { w.ev("rstart", 99, nil); return nil }); !errors.Is(err, concurrency.ErrManagerAlreadyStarted) {
				w.violation("runner/add-after-start-accepted", fmt.Sprintf("Add after Run started returned %v", err))
			}
		}
		if err := m.Run(ctx); !errors.Is(err, concurrency.ErrManagerAlreadyStarted) {
			w.violation("runner/second-run-accepted", fmt.Sprintf("second Run returned %v", err))
		}
		// all runners have started
		evs := w.events()
		started := map[int]bool{}
		for _, e := range evs {
			if e.kind == "rstart" {
				started[e.id] = true
			}
		}
		for i := range specs {
			if !started[i] {
				w.violation("runner/not-started", fmt.Sprintf("runner %d was not started", i))
			}
		}
		released := map[int]bool{}
		firstReturn := func() bool {
			for _, e := range w.events() {
				if e.kind == "rret" {
					return true
				}
			}
			return false
		}
		// nobody may have seen Done unless somebody returned
		checkDone := func(parentCancelled bool) {
			evs := w.events()
			var firstRet int64 = -1
			for _, e := range evs {
				if e.kind == "rret" && firstRet < 0 {
					firstRet = e.seq
				}
			}
			for _, e := range evs {
				if e.kind == "rdone" && !parentCancelled && (firstRet < 0 || e.seq < firstRet) {
					// the runner's own return event comes after its rdone, so compare with returns of OTHER runners
					other := false
					for _, e2 := range evs {
						if e2.kind == "rret" && e2.id != e.id && e2.seq < e.seq {
							other = true
						}
					}
					if !other {
						w.violation("runner/cancelled-before-any-return", fmt.Sprintf("runner %d saw its context cancelled before any runner had returned and without the parent being cancelled", e.id))
					}
				}
			}
		}
		checkDone(parentKind == "already-ended")
		parentCancelled := parentKind == "already-ended"
		if !firstReturn() {
			// everything still running is gate-* or untilcancel-*: release gates in seeded order, or cancel the parent
			var gated []int
			for i, sp := range specs {
				if strings.HasPrefix(sp.Kind, "gate-") {
					gated = append(gated, i)
				}
			}
			if parentCancel || len(gated) == 0 {
				if n > 0 {
					parentCancelled = true
					rec.Count("runner.parent_cancel", 1)
					w.ev("parentcancel", 0, nil)
					rec.Count("parent_end."+parentKind, 1)
					endParent()
				}
			} else {
				g := gated[order%len(gated)]
				released[g] = true
				close(w.gate(g))
			}
			synctest.Wait()
		}
		checkDone(parentCancelled)
		// once the first runner has returned everybody is done by the next quiescent point
		select {
		case <-runDone:
		default:
			w.violation("runner/run-did-not-return", "a runner has returned (or the parent was cancelled) and every goroutine is parked, but Run has not returned: some runner was not cancelled")
			cancel()
			for i := range specs {
				if !released[i] && strings.HasPrefix(specs[i].Kind, "gate-") {
					close(w.gate(i))
				}
			}
			return
		}
		evs = w.events()
		var runRet int64
		rets := map[int]int64{}
		dones := 0
		for _, e := range evs {
			switch e.kind {
			case "runret":
				runRet = e.seq
			case "rret":
				rets[e.id] = e.seq
			case "rdone":
				dones++
			}
		}
		for i := range specs {
			if rets[i] == 0 || rets[i] > runRet {
				w.violation("runner/run-returned-before-runner", fmt.Sprintf("Run returned before runner %d had returned", i))
			}
		}
		if dones > 0 && !parentCancelled {
			rec.Count("runner.first_return_cancels_others", 1)
		}
		var want []error
		for i, sp := range specs {
			if returnsSentinel(sp.Kind, released[i]) {
				want = append(want, sents[i])
			}
		}
		want = append(want, w.deadlineLeaves()...)
		w.checkJoin("runner/run", runErr, want)
		rec.Count("join.errors_checked", 1)
		if err := m.Run(context.Background()); !errors.Is(err, concurrency.ErrManagerAlreadyStarted) {
			w.violation("runner/run-twice", fmt.Sprintf("Run on a finished manager returned %v", err))
		}
	})
	finish(idx, w, res, n > 0)
}

// ---------------------------------------------------------------- RunnerCloserManager

type cspec struct {
	Type string // closer funcctx funcerr func
	Dur  time.Duration
	Err  bool
	Gate bool // gate-driven instead of time-driven
	// Reenter: while it runs, the closer asks its own manager to register one more closer (a component
	// that hands its sub-resources to the manager whenever it is told to close): the call must come back
	// - refused, the manager is closing - and shutdown must complete
	Reenter bool
}

type ioCloser struct{ f func() error }

func (c ioCloser) Close() error { return c.f() }

var _ io.Closer = ioCloser{}

func (w *world) closer(j int, sp cspec, sent error) any {
	body := func() error {
		w.ev("cstart", j, nil)
		if sp.Reenter && w.mgr != nil {
			err := w.mgr.AddCloser(func() { w.ev("late-registered-closer-ran", j, nil) })
			w.ev("reenter-ret", j, err)
			if !errors.Is(err, concurrency.ErrManagerAlreadyClosed) {
				w.violation("closer/addcloser-from-closer-not-refused", fmt.Sprintf("AddCloser called by closer %d during shutdown returned %v, expected ErrManagerAlreadyClosed", j, err))
			} else {
				rec.Count("closer.addcloser_from_a_running_closer_refused", 1)
			}
		}
		if sp.Gate {
			<-w.gate(100 + j)
		} else if sp.Dur > 0 {
			time.Sleep(sp.Dur)
		}
		var err error
		if sp.Err && sp.Type != "func" {
			err = sent
		}
		w.ev("cret", j, err)
		return err
	}
	switch sp.Type {
	case "closer":
		return ioCloser{body}
	case "funcctx":
		return func(context.Context) error { return body() }
	case "funcerr":
		return body
	default:
		return func() { _ = body() }
	}
}

var ctypes = []string{"closer", "funcctx", "funcerr", "func"}

func runCloser(t *testing.T, idx int, rng *mon.RNG, placed bool) {
	nr := rng.Intn(4)
	if placed && nr == 0 {
		nr = 1
	}
	nc := rng.Intn(5)
	specs := make([]rspec, nr)
	rsents := make([]error, nr)
	var ds []string
	for i := range specs {
		specs[i] = rspec{rkinds[rng.Intn(len(rkinds))]}
		rsents[i] = &sentinel{fmt.Sprintf("runner-sentinel-%d", i)}
		ds = append(ds, specs[i].Kind)
	}
	graceMode := rng.PickStr("nil", "generous", "exceeded")
	// the grace period is not always a whole number of seconds
	// ... and a grace period of zero, or a negative one, is a grace period too (no time at all), not "none"
	configured := []time.Duration{10 * time.Second, 4500 * time.Millisecond, 900 * time.Millisecond, 1500 * time.Millisecond, 2750 * time.Millisecond, 10 * time.Second, 0, -time.Second}[idx%8]
	grace := max(configured, 0) // what the closers effectively get
	cs := make([]cspec, nc)
	csents := make([]error, nc+2)
	var cd []string
	var maxDur time.Duration
	for j := range cs {
		cs[j] = cspec{Type: ctypes[rng.Intn(4)], Dur: time.Duration(rng.Intn(5)) * time.Second, Err: rng.Chance(1, 3), Gate: placed}
		cs[j].Reenter = !placed && rng.Chance(1, 4)
		cs[j].Dur += time.Duration(idx%4) * 250 * time.Millisecond
		if graceMode == "exceeded" && j == 0 {
			cs[j].Dur = grace + time.Duration(1+rng.Intn(5))*time.Second
		}
		if graceMode == "generous" && grace > 0 && (cs[j].Dur >= grace || (j == 0 && idx%2 == 0)) {
			// finishes inside the grace period, in its last 100 ms (after the last whole second of it)
			cs[j].Dur = grace - 100*time.Millisecond
			rec.Count("closer.finishes_in_the_last_fraction_of_the_grace_period", 1)
		}
		if cs[j].Dur > maxDur {
			maxDur = cs[j].Dur
		}
		csents[j] = &sentinel{fmt.Sprintf("closer-sentinel-%d", j)}
		// a closer's error is reported whatever it is - also when it is (or wraps) a context error, which is
		// only filtered out for RUNNERS
		switch rng.Intn(8) {
		case 0:
			csents[j] = context.Canceled
			rec.Count("closer.returns_context_canceled", 1)
		case 1:
			csents[j] = fmt.Errorf("closer %d: shutdown interrupted: %w", j, context.Canceled)
			rec.Count("closer.returns_context_canceled", 1)
		case 2:
			csents[j] = context.DeadlineExceeded
		}
		cd = append(cd, fmt.Sprintf("%s/%v/err=%v/reenter=%v", cs[j].Type, cs[j].Dur, cs[j].Err, cs[j].Reenter))
	}
	csents[nc] = &sentinel{"late-closer-sentinel"}
	csents[nc+1] = &sentinel{"placed-closer-sentinel"}
	closeWhen := rng.PickStr("none", "before", "during", "during", "after", "concurrent")
	if placed {
		closeWhen = rng.PickStr("none", "during")
		graceMode = rng.PickStr("nil", "generous")
	}
	parentCancel := rng.Chance(1, 4)
	parentKind := rng.PickStr("cancel", "cancel", "deadline", "cause", "already-ended")
	lateCloser := !placed && rng.Chance(1, 3)
	order := rng.Intn(1 << 16)
	ctorRunners := nr
	if idx%2 == 1 {
		ctorRunners = (idx / 2) % (nr + 1)
	}
	mode := "closer"
	if placed {
		mode = "addcloser-placed"
	}
	w := &world{idx: idx, mode: mode, desc: fmt.Sprintf("runners=%v closers=%v grace=%s close=%s parentCancel=%v(%s) lateCloser=%v order=%d ctorRunners=%d gracePeriod=%v", ds, cd, graceMode, closeWhen, parentCancel, parentKind, lateCloser, order, ctorRunners, configured)}
	rec.Begin(idx, w.mode+" "+w.desc)
	res := mon.Bubble(t, func() {
		var runners []concurrency.Runner
		for i, sp := range specs {
			runners = append(runners, w.runner(i, sp, rsents[i]))
		}
		var gp *time.Duration
		if graceMode != "nil" {
			gp = &configured
			if configured <= 0 {
				rec.Count("closer.grace_period_zero_or_negative", 1)
			}
		}
		log := logger.NewLogger("c12")
		log.SetOutputLevel(logger.FatalLevel)
		// some (possibly none) of the runners are given to the constructor, the others registered with Add
		m := concurrency.NewRunnerCloserManager(log, gp, runners[:ctorRunners]...)
		w.mgr = m
		if ctorRunners < len(runners) {
			if err := m.Add(runners[ctorRunners:]...); err != nil {
				w.violation("closer/add-before-run-rejected", "Add before Run returned "+err.Error())
				return
			}
			rec.Count("closer.runners_registered_with_add", 1)
			if ctorRunners == 0 {
				rec.Count("closer.all_runners_registered_with_add", 1)
			}
		}
		m.WithFatalShutdown(func() { w.ev("fatal", 0, nil) })
		accepted := map[int]bool{}
		for j, sp := range cs {
			if err := m.AddCloser(w.closer(j, sp, csents[j])); err != nil {
				w.violation("closer/addcloser-before-run-rejected", "AddCloser before Run returned "+err.Error())
				return
			}
			accepted[j] = true
		}
		if err := m.AddCloser(42); err == nil {
			w.violation("closer/unsupported-type-accepted", "AddCloser(42) returned nil")
		} else {
			rec.Count("closer.unsupported_type_rejected", 1)
		}
		ctx, endParent, cancel := parentCtx(parentKind)
		defer cancel()
		if parentKind == "already-ended" {
			w.ev("parentcancel", 0, nil)
			rec.Count("parent_end.already-ended", 1)
		}

		var closeMu sync.Mutex
		var closeErrs []error
		var closeWG sync.WaitGroup
		nclose := 0
		doClose := func() {
			nclose++
			k := nclose
			closeWG.Add(1)
			w.ev("closecall", k, nil)
			go func() {
				defer closeWG.Done()
				err := m.Close()
				w.ev("closeret", k, err)
				closeMu.Lock()
				closeErrs = append(closeErrs, err)
				closeMu.Unlock()
			}()
		}

		if closeWhen == "before" {
			rec.Count("closer.close_before_run", 1)
			doClose()
			synctest.Wait()
			closeMu.Lock()
			n := len(closeErrs)
			closeMu.Unlock()
			if n != 1 {
				w.violation("closer/close-before-run-blocks", "Close on a manager that never ran did not return at once")
				return
			}
			if closeErrs[0] != nil {
				w.violation("closer/close-before-run-error", fmt.Sprintf("Close on a manager that never ran returned %v", closeErrs[0]))
			}
			if err := m.Run(ctx); !errors.Is(err, concurrency.ErrManagerAlreadyStarted) {
				w.violation("closer/run-after-close-accepted", fmt.Sprintf("Run after Close returned %v", err))
			}
			for _, e := range w.events() {
				if e.kind == "rstart" || e.kind == "cstart" {
					w.violation("closer/run-after-close-started-something", "a runner or closer was started although Close had prevented the Run")
				}
			}
			return
		}

		runDone := make(chan struct{})
		var runErr error
		go func() {
			runErr = m.Run(ctx)
			w.ev("runret", 0, runErr)
			close(runDone)
		}()
		synctest.Wait()
		if err := m.Add(func(context.Context) error { return nil }); !errors.Is(err, concurrency.ErrManagerAlreadyStarted) {
			w.violation("closer/add-after-start-accepted", fmt.Sprintf("Add after Run started returned %v", err))
		}
		if err := m.Run(ctx); !errors.Is(err, concurrency.ErrManagerAlreadyStarted) {
			w.violation("closer/second-run-accepted", fmt.Sprintf("second Run returned %v", err))
		}
		runnersAllReturned := func() bool {
			n := 0
			for _, e := range w.events() {
				if e.kind == "rret" {
					n++
				}
			}
			return n == nr
		}
		// AddCloser during the run (while the runners are still going)
		if lateCloser && !runnersAllReturned() {
			j := nc
			err := m.AddCloser(w.closer(j, cspec{Type: "funcerr", Dur: time.Second, Err: true}, csents[j]))
			if err == nil {
				accepted[j] = true
				rec.Count("closer.addcloser_during_run", 1)
			}
		}
		// placed: park an AddCloser caller between its closing check and the lock
		var placedDone chan error
		var placedResume chan struct{}
		if placed {
			parked := make(chan struct{})
			resume := make(chan struct{})
			var once sync.Once
			h := func(name string) {
				if name == "addcloser.checked" {
					hit := false
					once.Do(func() { hit = true })
					if hit {
						close(parked)
						<-resume
					}
				}
			}
			concurrency.VerifHook.Store(&h)
			defer concurrency.VerifHook.Store(nil)
			placedDone = make(chan error, 1)
			go func() {
				placedDone <- m.AddCloser(w.closer(nc+1, cspec{Type: "funcerr", Err: true}, csents[nc+1]))
			}()
			select {
			case <-parked:
				rec.Count("placed.addcloser_parked", 1)
			case err := <-placedDone:
				// the manager was already closing: AddCloser refused before its decision point
				placedDone <- err
				rec.Count("placed.addcloser_refused_early", 1)
			}
			defer func() {
				select {
				case <-resume:
				default:
					close(resume)
				}
			}()
			// let the runners finish so that Run enters (and, closers being gated, stays in) the closing phase
			w.ev("note-placed", 0, nil)
			_ = resume
			defer func() {}()
			placedResume = resume
		}
		released := map[int]bool{}
		parentCancelled := parentKind == "already-ended"
		closedDuring := false
		if !runnersAllReturned() || nr == 0 {
			switch {
			case closeWhen == "during" || closeWhen == "concurrent":
				rec.Count("closer.close_during_run", 1)
				closedDuring = true
				doClose()
				if closeWhen == "concurrent" {
					rec.Count("closer.concurrent_close", 1)
					doClose()
					doClose()
				}
			case parentCancel:
				parentCancelled = true
				w.ev("parentcancel", 0, nil)
				rec.Count("parent_end."+parentKind, 1)
				endParent()
			default:
				var gated []int
				for i, sp := range specs {
					if strings.HasPrefix(sp.Kind, "gate-") {
						gated = append(gated, i)
					}
				}
				// if some runner already returned the others are being cancelled anyway
				firstRet := false
				for _, e := range w.events() {
					if e.kind == "rret" {
						firstRet = true
					}
				}
				if !firstRet && nr > 0 {
					if len(gated) > 0 {
						g := gated[order%len(gated)]
						released[g] = true
						close(w.gate(g))
					} else {
						parentCancelled = true
						w.ev("parentcancel", 0, nil)
						rec.Count("parent_end."+parentKind, 1)
						endParent()
					}
				}
			}
		}
		_ = parentCancelled
		_ = closedDuring
		if placed {
			// runners are done (or being cancelled); closers are gated so Run sits in its closing phase holding the lock
			mon.Quiesce()
			close(placedResume) // the AddCloser caller now goes for the lock
			mon.Quiesce()
			for j := range cs {
				close(w.gate(100 + j))
			}
			mon.Quiesce()
		} else {
			synctest.Wait()
			// let all closer durations and the grace period pass
			time.Sleep(maxDur + grace + 10*time.Second)
			synctest.Wait()
		}
		select {
		case <-runDone:
		default:
			w.violation("closer/run-did-not-return", "runners and closers are done and every goroutine is parked, but Run has not returned")
			cancel()
			return
		}
		if closeWhen == "after" {
			doClose()
			doClose()
			synctest.Wait()
		}
		closeWG.Wait()
		var placedErr error
		if placed {
			placedErr = <-placedDone
			if placedErr == nil {
				accepted[nc+1] = true
			}
		}

		// ---- offline judge
		evs := w.events()
		var lastRunnerRet, runRet, firstCStart, lastCRet int64
		cstarts := map[int]int{}
		crets := map[int]int64{}
		var fatal []event
		var firstCStartT, lastCRetT time.Time
		for _, e := range evs {
			switch e.kind {
			case "rret":
				if e.seq > lastRunnerRet {
					lastRunnerRet = e.seq
				}
			case "runret":
				runRet = e.seq
			case "cstart":
				cstarts[e.id]++
				if firstCStart == 0 {
					firstCStart, firstCStartT = e.seq, e.t
				}
			case "cret":
				crets[e.id] = e.seq
				if e.seq > lastCRet {
					lastCRet, lastCRetT = e.seq, e.t
				}
			case "fatal":
				fatal = append(fatal, e)
			}
		}
		nrStarted := 0
		for _, e := range evs {
			if e.kind == "rstart" {
				nrStarted++
			}
		}
		if nrStarted != nr {
			w.violation("closer/runners-not-all-started", fmt.Sprintf("%d of %d runners were started", nrStarted, nr))
		}
		for j := range accepted {
			if cstarts[j] != 1 {
				sig := "closer/closer-not-invoked"
				if cstarts[j] > 1 {
					sig = "closer/closer-invoked-twice"
				}
				if j == nc+1 {
					sig += "/addcloser-placed-during-closing"
				} else if j == nc {
					sig += "/addcloser-during-run"
				}
				w.violation(sig, fmt.Sprintf("closer %d was accepted (AddCloser returned nil) but invoked %d times", j, cstarts[j]))
			}
		}
		for j, n := range cstarts {
			if !accepted[j] && n > 0 {
				w.violation("closer/rejected-closer-invoked", fmt.Sprintf("closer %d was rejected by AddCloser but invoked", j))
			}
		}
		if firstCStart != 0 && firstCStart < lastRunnerRet {
			w.violation("closer/closer-before-last-runner", "a closer was started before the last runner had returned")
		}
		if lastCRet > runRet {
			w.violation("closer/run-returned-before-closers", "Run returned before the last closer had returned")
		}
		for _, e := range evs {
			if e.kind == "closeret" && (e.seq < lastCRet || e.seq < lastRunnerRet) {
				w.violation("closer/close-returned-before-closers", fmt.Sprintf("Close #%d returned before the last closer (or runner) had returned", e.id))
			}
		}
		var want []error
		for i, sp := range specs {
			if returnsSentinel(sp.Kind, released[i]) {
				want = append(want, rsents[i])
			}
		}
		for j := range accepted {
			var sp cspec
			switch {
			case j < nc:
				sp = cs[j]
			default:
				sp = cspec{Type: "funcerr", Err: true}
			}
			if sp.Err && sp.Type != "func" {
				want = append(want, csents[j])
			}
		}
		want = append(want, w.deadlineLeaves()...)
		w.checkJoin("closer/run", runErr, want)
		closeMu.Lock()
		for _, ce := range closeErrs {
			w.checkJoin("closer/close", ce, want)
		}
		closeMu.Unlock()
		rec.Count("join.errors_checked", 1)
		// fatal iff the closers outlast the grace period (virtual time, exact)
		if graceMode != "nil" && firstCStart != 0 {
			outlast := lastCRetT.Sub(firstCStartT)
			switch {
			case outlast > grace && len(fatal) == 0:
				w.violation("closer/fatal-not-fired", fmt.Sprintf("closers ran for %v, longer than the grace period %v, but the fatal-shutdown action did not fire", outlast, grace))
			case outlast < grace && len(fatal) > 0:
				w.violation("closer/fatal-fired-early", fmt.Sprintf("closers ran for %v, within the grace period %v, but the fatal-shutdown action fired", outlast, grace))
			case len(fatal) > 1:
				w.violation("closer/fatal-fired-twice", "the fatal-shutdown action fired more than once")
			}
			if len(fatal) > 0 {
				rec.Count("closer.fatal_fired", 1)
				if d := fatal[0].t.Sub(firstCStartT); d != grace {
					w.violation("closer/fatal-at-wrong-time", fmt.Sprintf("fatal-shutdown fired %v after the closers started, grace period is %v", d, grace))
				}
			} else {
				rec.Count("closer.fatal_not_fired", 1)
			}
		}
		if graceMode == "nil" && len(fatal) > 0 {
			w.violation("closer/fatal-without-grace", "fatal-shutdown fired although no grace period is configured")
		}
		if err := m.AddCloser(func() {}); !errors.Is(err, concurrency.ErrManagerAlreadyClosed) {
			w.violation("closer/addcloser-after-close-accepted", fmt.Sprintf("AddCloser on a finished manager returned %v", err))
		}
		if err := m.Close(); fmt.Sprint(err) != fmt.Sprint(runErr) {
			w.violation("closer/close-after-run-different-error", fmt.Sprintf("Close after Run returned %v, Run returned %v", err, runErr))
		}
	})
	concurrency.VerifHook.Store(nil)
	finish(idx, w, res, nr+nc > 0)
}

// runRacing: Run, Close and several AddCloser calls are issued at the same
// time from different goroutines (no lock-step), under the race detector.
// Judged: every closer whose AddCloser returned nil is invoked exactly once,
// none before the last runner returned, Run/Close return after the last
// closer, and both report the same joined error.
func runRacing(t *testing.T, idx int, rng *mon.RNG) {
	nr := rng.Range(1, 3)
	nadd := rng.Range(1, 4)
	withClose := rng.Chance(2, 3)
	yield := rng.Intn(4)
	w := &world{idx: idx, mode: "racing", desc: fmt.Sprintf("runners=%d addclosers=%d close=%v yield=%d", nr, nadd, withClose, yield)}
	rec.Begin(idx, w.mode+" "+w.desc)
	res := mon.Bubble(t, func() {
		var runners []concurrency.Runner
		for i := 0; i < nr; i++ {
			kind := "untilcancel-nil"
			if i == 0 && !withClose {
				kind = "nil" // somebody has to end the run
			}
			runners = append(runners, w.runner(i, rspec{kind}, nil))
		}
		log := logger.NewLogger("c12")
		log.SetOutputLevel(logger.FatalLevel)
		m := concurrency.NewRunnerCloserManager(log, nil, runners...)
		var wg sync.WaitGroup
		var mu sync.Mutex
		accepted := map[int]bool{}
		var runErr, closeErr error
		closed := false
		start := make(chan struct{})
		wg.Add(1)
		go func() {
			defer wg.Done()
			<-start
			runErr = m.Run(context.Background())
			w.ev("runret", 0, runErr)
		}()
		for j := 0; j < nadd; j++ {
			wg.Add(1)
			go func(j int) {
				defer wg.Done()
				<-start
				for y := 0; y < yield*j; y++ {
					runtimeGosched()
				}
				sent := &sentinel{fmt.Sprintf("racing-closer-%d", j)}
				err := m.AddCloser(w.closer(j, cspec{Type: ctypes[j%4], Err: j%2 == 0}, sent))
				mu.Lock()
				if err == nil {
					accepted[j] = true
					rec.Count("racing.addcloser_accepted", 1)
				} else {
					rec.Count("racing.addcloser_rejected", 1)
				}
				mu.Unlock()
			}(j)
		}
		if withClose {
			wg.Add(1)
			go func() {
				defer wg.Done()
				<-start
				for y := 0; y < yield*2; y++ {
					runtimeGosched()
				}
				w.ev("closecall", 1, nil)
				closeErr = m.Close()
				w.ev("closeret", 1, closeErr)
				mu.Lock()
				closed = true
				mu.Unlock()
			}()
		}
		close(start)
		wg.Wait()
		evs := w.events()
		var lastRunnerRet, runRet, firstCStart, lastCRet int64
		cstarts := map[int]int{}
		for _, e := range evs {
			switch e.kind {
			case "rret":
				if e.seq > lastRunnerRet {
					lastRunnerRet = e.seq
				}
			case "runret":
				runRet = e.seq
			case "cstart":
				cstarts[e.id]++
				if firstCStart == 0 {
					firstCStart = e.seq
				}
			case "cret":
				if e.seq > lastCRet {
					lastCRet = e.seq
				}
			}
		}
		ranAtAll := false
		for _, e := range evs {
			if e.kind == "rstart" {
				ranAtAll = true
			}
		}
		if !ranAtAll {
			return // Close won the race against Run: the manager never ran, closers are not owed
		}
		for j := range accepted {
			if cstarts[j] != 1 {
				w.violation("racing/closer-invocations", fmt.Sprintf("closer %d was accepted (AddCloser returned nil) but invoked %d times", j, cstarts[j]))
			}
		}
		for j, n := range cstarts {
			if !accepted[j] && n > 0 {
				w.violation("racing/rejected-closer-invoked", fmt.Sprintf("closer %d was rejected by AddCloser but invoked", j))
			}
		}
		if firstCStart != 0 && firstCStart < lastRunnerRet {
			w.violation("racing/closer-before-last-runner", "a closer was started before the last runner had returned")
		}
		if lastCRet > runRet {
			w.violation("racing/run-returned-before-closers", "Run returned before the last closer had returned")
		}
		if closed && fmt.Sprint(closeErr) != fmt.Sprint(runErr) {
			w.violation("racing/close-error-differs", fmt.Sprintf("Close returned %v, Run returned %v", closeErr, runErr))
		}
	})
	finish(idx, w, res, true)
}

func runtimeGosched() { runtime.Gosched() }
