// verifctl is the driver of the /verif runtime-monitoring harnesses: it
// rebuilds a property's monitor package against /repo's working tree, runs it
// as child processes (journal, watchdog, race logs), merges what the monitors
// observed, applies KNOWN_FINDINGS.txt, writes evidence/<id>.json and prints
// the verdict lines.
package main

import (
	"encoding/binary"
	"encoding/json"
	"fmt"
	"os"
	"os/exec"
	"path/filepath"
	"regexp"
	"sort"
	"strconv"
	"strings"
	"sync"
	"sync/atomic"
	"syscall"
	"time"

	"verif/harness/internal/mon"
)

// Config is c<NN>/verif.json.
type Config struct {
	Property    string   `json:"property"`
	Race        bool     `json:"race"`
	Level       string   `json:"level"`
	Children    [2]int   `json:"children"`  // quick, thorough
	TimeoutS    [2]int   `json:"timeout_s"` // per child, quick/thorough (last-resort kill; inconclusive)
	WatchdogS   [2]int   `json:"watchdog_s"`
	Rule        string   `json:"rule"`
	Assumptions []string `json:"assumptions"`
	// ExtraBuilds: additional builds of the same package whose children are
	// run too (e.g. C08: one with -race, one plain).
	ExtraBuilds []struct {
		Name string `json:"name"`
		Race bool   `json:"race"`
	} `json:"extra_builds"`
	MaxInconclusivePct float64 `json:"max_inconclusive_pct"`
}

var (
	verifDir   = "/verif"
	harnessDir = "/verif/harness"
	goBin      = "go1.26.8"
)

func main() {
	if v := os.Getenv("VERIF_DIR"); v != "" {
		verifDir = v
		harnessDir = filepath.Join(v, "harness")
	}
	if len(os.Args) < 2 {
		usage()
	}
	switch os.Args[1] {
	case "check":
		if len(os.Args) < 3 {
			usage()
		}
		tier := os.Getenv("VERIF_TIER")
		only := -1
		for i := 3; i < len(os.Args); i++ {
			switch os.Args[i] {
			case "--tier":
				i++
				tier = os.Args[i]
			case "--only":
				i++
				only, _ = strconv.Atoi(os.Args[i])
			case "quick", "thorough":
				tier = os.Args[i]
			}
		}
		if tier != "thorough" {
			tier = "quick"
		}
		os.Exit(check(strings.ToUpper(os.Args[2]), tier, only))
	case "replay":
		if len(os.Args) < 3 {
			usage()
		}
		os.Exit(replay(os.Args[2]))
	default:
		usage()
	}
}

func usage() {
	fmt.Fprintln(os.Stderr, "usage: verifctl check <ID> [--tier quick|thorough] [--only <case>] | verifctl replay <file>")
	os.Exit(2)
}

func goEnv() []string {
	env := os.Environ()
	env = append(env, "GOFLAGS=-mod=mod", "GOPROXY=off", "GOSUMDB=off", "GOTOOLCHAIN=local", "CGO_ENABLED=1")
	return env
}

func repoDir() string {
	if v := os.Getenv("VERIF_REPO"); v != "" {
		return v
	}
	return "/repo"
}

func pkgDir(id string) string { return "c" + strings.TrimPrefix(strings.ToLower(id), "c") }

type childRun struct {
	build   string
	idx, n  int
	results []mon.Result
	viol    []mon.Violation
	inconc  []mon.Inconc
	resumes int
	notes   []string
}

func check(id, tier string, only int) int {
	start := time.Now()
	ti := 0
	if tier == "thorough" {
		ti = 1
	}
	pdir := filepath.Join(harnessDir, pkgDir(id))
	var cfg Config
	b, err := os.ReadFile(filepath.Join(pdir, "verif.json"))
	if err != nil {
		fmt.Printf("BROKEN property=%s no harness package: %v\n", id, err)
		return 2
	}
	if err := json.Unmarshal(b, &cfg); err != nil {
		fmt.Printf("BROKEN property=%s bad verif.json: %v\n", id, err)
		return 2
	}
	if cfg.Level == "" {
		cfg.Level = "exploration"
	}
	if cfg.MaxInconclusivePct == 0 {
		cfg.MaxInconclusivePct = 5
	}
	seed := mon.Seed()
	bdir := filepath.Join(verifDir, ".build", id+"-"+tier)
	evidenceDir := filepath.Join(verifDir, "evidence")
	replayDir := filepath.Join(verifDir, "replays")
	// VERIF_REPO: run against another copy of dapr/kit (scratch worktree with a
	// mutation applied). Nothing registered in MANIFEST.json uses this; evidence
	// and replays of such a run stay under .build.
	altRepo := os.Getenv("VERIF_REPO")
	if altRepo != "" {
		bdir = filepath.Join(verifDir, ".build", fmt.Sprintf("%s-%s-alt-%s", id, tier, sanitize(altRepo)))
		evidenceDir = filepath.Join(bdir, "evidence")
		replayDir = filepath.Join(bdir, "replays")
	}
	os.RemoveAll(bdir)
	os.MkdirAll(bdir, 0o755)
	os.MkdirAll(evidenceDir, 0o755)
	modfileArg := ""
	if altRepo != "" {
		gm, err := os.ReadFile(filepath.Join(harnessDir, "go.mod"))
		if err != nil {
			fmt.Println("BROKEN cannot read go.mod")
			return 2
		}
		gm = []byte(strings.Replace(string(gm), "=> /repo", "=> "+altRepo, 1))
		os.WriteFile(filepath.Join(bdir, "go.mod"), gm, 0o644)
		gs, _ := os.ReadFile(filepath.Join(harnessDir, "go.sum"))
		os.WriteFile(filepath.Join(bdir, "go.sum"), gs, 0o644)
		modfileArg = "-modfile=" + filepath.Join(bdir, "go.mod")
	}
	if old, _ := filepath.Glob(filepath.Join(replayDir, id+"-"+tier+"-*.json")); only < 0 {
		for _, f := range old {
			os.Remove(f)
		}
	}

	type build struct {
		name string
		race bool
		bin  string
	}
	builds := []build{{"main", cfg.Race, filepath.Join(bdir, "main.test")}}
	for _, e := range cfg.ExtraBuilds {
		builds = append(builds, build{e.Name, e.Race, filepath.Join(bdir, e.Name+".test")})
	}
	for _, bl := range builds {
		args := []string{"test", "-c", "-vet=off", "-tags", "verif,unit", "-o", bl.bin}
		if modfileArg != "" {
			args = append(args, modfileArg)
		}
		if bl.race {
			args = append(args, "-race")
		}
		args = append(args, "./"+pkgDir(id))
		cmd := exec.Command(goBin, args...)
		cmd.Dir = harnessDir
		cmd.Env = goEnv()
		out, err := cmd.CombinedOutput()
		if err != nil {
			fmt.Printf("BROKEN property=%s build failed (not a verdict on the property):\n%s\n", id, out)
			return 2
		}
	}

	nchild := cfg.Children[ti]
	if nchild <= 0 {
		nchild = 4
	}
	if only >= 0 {
		nchild = 1
	}
	timeout := cfg.TimeoutS[ti]
	if timeout <= 0 {
		timeout = map[int]int{0: 600, 1: 5400}[ti]
	}
	wd := cfg.WatchdogS[ti]

	var runs []*childRun
	for _, bl := range builds {
		for i := 0; i < nchild; i++ {
			runs = append(runs, &childRun{build: bl.name, idx: i, n: nchild})
		}
	}
	sem := make(chan struct{}, 16)
	var wg sync.WaitGroup
	for _, r := range runs {
		wg.Add(1)
		go func(r *childRun) {
			defer wg.Done()
			sem <- struct{}{}
			defer func() { <-sem }()
			var bin string
			for _, bl := range builds {
				if bl.name == r.build {
					bin = bl.bin
				}
			}
			runChild(id, tier, seed, bdir, bin, r, timeout, wd, only)
		}(r)
	}
	wg.Wait()

	// ---- merge
	var (
		evals, inconcCount int64
		counters           = map[string]int64{}
		samples            []any
		viols              []mon.Violation
		violCounts         = map[string]int64{}
		inconcs            []mon.Inconc
		observations       []string
		obsSeen            = map[string]bool{}
		notes              = map[string]any{}
		distinct           = map[uint64]struct{}{}
		distinctExtra      int64
		capped             bool
		incomplete         []string
	)
	for _, r := range runs {
		for _, res := range r.results {
			evals += res.Evaluations
			distinctExtra += res.DistinctEnum
			inconcCount += res.InconcCount
			for k, v := range res.Counters {
				counters[k] += v
			}
			for _, s := range res.Samples {
				if len(samples) < 8 {
					samples = append(samples, s)
				}
			}
			viols = append(viols, res.Violations...)
			for k, v := range res.ViolCount {
				violCounts[k] += v
			}
			inconcs = append(inconcs, res.Inconclusive...)
			for _, o := range res.Observations {
				if !obsSeen[o] {
					obsSeen[o] = true
					observations = append(observations, o)
				}
			}
			for k, v := range res.Notes {
				notes[k] = v
			}
			if res.DistinctCap {
				capped = true
			}
			if res.DistinctFile != "" {
				if hb, err := os.ReadFile(res.DistinctFile); err == nil {
					for i := 0; i+8 <= len(hb); i += 8 {
						distinct[binary.LittleEndian.Uint64(hb[i:])] = struct{}{}
					}
					os.Remove(res.DistinctFile)
				}
			}
		}
		viols = append(viols, r.viol...)
		for _, v := range r.viol {
			violCounts[v.Sig]++
		}
		inconcs = append(inconcs, r.inconc...)
		inconcCount += int64(len(r.inconc))
		for _, n := range r.notes {
			incomplete = append(incomplete, n)
		}
	}

	// ---- race logs
	raceViols, raceBlocks := scanRaceLogs(bdir)
	for _, v := range raceViols {
		if v.Sig == "HARNESS-RACE" {
			incomplete = append(incomplete, "the monitor itself has a data race (not a verdict on the property): "+oneLine(fmt.Sprint(v.Replay)))
			continue
		}
		viols = append(viols, v)
		violCounts[v.Sig]++
	}
	counters["race_detector_reports"] = int64(raceBlocks)

	// ---- known findings
	known := loadKnown(id)
	sort.SliceStable(viols, func(i, j int) bool { return viols[i].Sig < viols[j].Sig })
	knownHit := map[string]bool{}
	var unlisted []mon.Violation
	for _, v := range viols {
		if what, ok := known[v.Sig]; ok {
			if !knownHit[v.Sig] {
				knownHit[v.Sig] = true
				fmt.Printf("KNOWN-FINDING: property=%s sig=%s %s (observed %d times this run)\n", id, v.Sig, what, violCounts[v.Sig])
			}
			continue
		}
		unlisted = append(unlisted, v)
	}
	var unlistedTotal int64
	for sig, c := range violCounts {
		if _, ok := known[sig]; !ok {
			unlistedTotal += c
		}
	}

	// ---- verdict
	exit := 0
	os.MkdirAll(replayDir, 0o755)
	seenSig := map[string]int{}
	for _, v := range unlisted {
		seenSig[v.Sig]++
		if seenSig[v.Sig] > 2 {
			continue
		}
		path := filepath.Join(replayDir, fmt.Sprintf("%s-%s-seed%d-%s-%d.json", id, tier, seed, sanitize(v.Sig), seenSig[v.Sig]))
		rb, _ := json.MarshalIndent(map[string]any{"property": id, "tier": tier, "seed": seed, "violation": v}, "", " ")
		os.WriteFile(path, rb, 0o644)
		fmt.Printf("VIOLATION property=%s replay=%s sig=%s %s\n", id, path, v.Sig, oneLine(v.Msg))
		exit = 1
	}

	var inconclusiveReasons []string
	if evals == 0 {
		inconclusiveReasons = append(inconclusiveReasons, "no case was evaluated")
	}
	if req, ok := notes["require"].([]any); ok {
		for _, k := range req {
			ks := fmt.Sprint(k)
			if counters[ks] <= 0 {
				inconclusiveReasons = append(inconclusiveReasons, "required observation never made: "+ks)
			}
		}
	}
	if evals > 0 && float64(inconcCount) > cfg.MaxInconclusivePct/100*float64(evals+inconcCount) {
		inconclusiveReasons = append(inconclusiveReasons, fmt.Sprintf("%d of %d cases inconclusive", inconcCount, evals+inconcCount))
	}
	if pc, ok := notes["planned_cases"].(float64); ok && only < 0 {
		begun := counters["cases_begun"]
		if nb := len(cfg.ExtraBuilds) + 1; nb > 1 {
			begun /= int64(nb)
		}
		if float64(begun) < 0.98*pc {
			inconclusiveReasons = append(inconclusiveReasons, fmt.Sprintf("only %d of %d planned cases were begun (a child stopped early?)", begun, int64(pc)))
		}
	}
	if int64(len(distinct))+distinctExtra < 2 && only < 0 {
		inconclusiveReasons = append(inconclusiveReasons, "fewer than 2 distinct non-trivial cases")
	}
	inconclusiveReasons = append(inconclusiveReasons, incomplete...)
	if only >= 0 {
		inconclusiveReasons = nil
	}
	if len(inconclusiveReasons) > 0 {
		for _, r := range inconclusiveReasons {
			fmt.Printf("INCONCLUSIVE property=%s %s\n", id, r)
		}
		exit = 1
	}

	// ---- evidence
	rule := cfg.Rule
	if s, ok := notes["rule"].(string); ok && s != "" {
		rule = s
	}
	delete(notes, "rule")
	delete(notes, "require")
	cov := map[string]any{
		"evaluations":         evals,
		"distinct_nontrivial": int64(len(distinct)) + distinctExtra,
		"rule":                rule,
		"samples":             samples,
		"observed":            counters,
		"children":            len(runs),
		"inconclusive_cases":  inconcCount,
		"inconclusive":        firstInconc(inconcs, 10),
		"known_findings_seen": keys(knownHit),
		"violation_counts":    violCounts,
		"observations":        observations,
	}
	if capped {
		cov["distinct_capped"] = true
	}
	if v, ok := notes["exhaustive"]; ok {
		// the schema wants a boolean; a description of the enumerated space goes elsewhere
		if _, isBool := v.(bool); !isBool {
			notes["exhaustive_space_note"] = v
			delete(notes, "exhaustive")
		}
	}
	for k, v := range notes {
		if _, dup := cov[k]; !dup {
			cov[k] = v
		}
	}
	if ex, ok := notes["exhaustive"].(bool); ok {
		cov["exhaustive"] = ex
	}
	ev := map[string]any{
		"property_id": id,
		"tier":        tier,
		"seed":        int64(seed),
		"level":       cfg.Level,
		"coverage":    cov,
		"assumptions": cfg.Assumptions,
		"wall_s":      time.Since(start).Seconds(),
		"violations":  unlistedTotal,
	}
	if only < 0 {
		eb, _ := json.MarshalIndent(ev, "", " ")
		os.WriteFile(filepath.Join(evidenceDir, id+".json"), append(eb, '\n'), 0o644)
	}
	verdict := "HELD"
	if exit != 0 {
		verdict = "FAILED"
	}
	fmt.Printf("%s property=%s tier=%s seed=%d evaluations=%d distinct_nontrivial=%d inconclusive=%d known=%d violations=%d wall=%.1fs\n",
		verdict, id, tier, seed, evals, int64(len(distinct))+distinctExtra, inconcCount, len(knownHit), unlistedTotal, time.Since(start).Seconds())
	if exit == 0 && altRepo == "" {
		os.RemoveAll(bdir)
	}
	return exit
}

func firstInconc(s []mon.Inconc, n int) []mon.Inconc {
	if len(s) > n {
		return s[:n]
	}
	if s == nil {
		return []mon.Inconc{}
	}
	return s
}

func keys(m map[string]bool) []string {
	out := []string{}
	for k := range m {
		out = append(out, k)
	}
	sort.Strings(out)
	return out
}

var nonWord = regexp.MustCompile(`[^A-Za-z0-9_.-]+`)

func sanitize(s string) string {
	s = nonWord.ReplaceAllString(s, "_")
	if len(s) > 80 {
		s = s[:80]
	}
	return s
}

func oneLine(s string) string {
	s = strings.ReplaceAll(s, "\n", " | ")
	if len(s) > 300 {
		s = s[:300] + "..."
	}
	return s
}

// runChild runs one batch, resuming after crashes and hangs.
func runChild(id, tier string, seed uint64, bdir, bin string, r *childRun, timeoutS, wd, only int) {
	resume := 0
	for attempt := 0; attempt < 12; attempt++ {
		tag := fmt.Sprintf("%s-%d-%d", r.build, r.idx, attempt)
		out := filepath.Join(bdir, tag+".result.json")
		journal := filepath.Join(bdir, tag+".journal")
		logf := filepath.Join(bdir, tag+".log")
		lf, _ := os.Create(logf)
		scratch := filepath.Join("/var/tmp", fmt.Sprintf("verif-%s-%s-%d", id, tag, os.Getpid()))
		defer os.RemoveAll(scratch)
		cmd := exec.Command("timeout", "-s", "QUIT", "-k", "20", strconv.Itoa(timeoutS), bin,
			"-test.run", "^TestCheck$", "-test.timeout=0", "-test.count=1")
		cmd.Dir = filepath.Join(harnessDir, pkgDir(id))
		env := append(os.Environ(),
			"VERIF_SEED="+strconv.FormatUint(seed, 10),
			"VERIF_TIER="+tier,
			fmt.Sprintf("VERIF_BATCH=%d/%d", r.idx, r.n),
			"VERIF_RESUME="+strconv.Itoa(resume),
			"VERIF_OUT="+out,
			"VERIF_JOURNAL="+journal,
			"VERIF_BUILD="+r.build,
			"VERIF_REPO_DIR="+repoDir(),
			"VERIF_SCRATCH="+scratch,
			"GORACE=halt_on_error=0 log_path="+filepath.Join(bdir, "race."+tag),
			"GOTRACEBACK=all",
		)
		if wd > 0 {
			env = append(env, "VERIF_WATCHDOG_S="+strconv.Itoa(wd))
		}
		if only >= 0 {
			env = append(env, "VERIF_ONLY="+strconv.Itoa(only))
		}
		cmd.Env = env
		cmd.Stdout = lf
		cmd.Stderr = lf
		var memKilled atomic.Bool
		err := cmd.Start()
		if err == nil {
			stopWatch := make(chan struct{})
			go memWatch(cmd.Process.Pid, stopWatch, &memKilled)
			err = cmd.Wait()
			close(stopWatch)
		}
		lf.Close()
		code := 0
		if err != nil {
			if ee, ok := err.(*exec.ExitError); ok {
				code = ee.ExitCode()
				if ws, ok := ee.Sys().(syscall.WaitStatus); ok && ws.Signaled() {
					code = 128 + int(ws.Signal())
				}
			} else {
				code = -1
			}
		}
		var res mon.Result
		have := false
		if rb, e := os.ReadFile(out); e == nil && json.Unmarshal(rb, &res) == nil {
			have = true
			r.results = append(r.results, res)
		}
		if code == 0 && have && res.Done {
			os.Remove(journal)
			return
		}
		// the test binary may exit 1 (t.Fail) with a complete result: still complete
		if have && res.Done && code == 1 {
			os.Remove(journal)
			return
		}
		lastCase := lastJournalCase(journal)
		logTxt := readTail(logf, 400_000)
		switch {
		case memKilled.Load():
			// not a verdict on the property: the case is left undecided and the batch goes on after it
			r.inconc = append(r.inconc, mon.Inconc{Reason: fmt.Sprintf("child stopped by the driver: resident memory above %d MiB (runaway allocation in this case?); case journal: %s", maxRSSMiB(), journalLine(journal, lastCase)), Case: lastCase})
			r.notes = append(r.notes, fmt.Sprintf("child %s exceeded the memory limit at case %d", tag, lastCase))
		case code == 3:
			var h mon.Hang
			if hb, e := os.ReadFile(out + ".hang"); e == nil {
				json.Unmarshal(hb, &h)
			}
			if h.Class == "deadlock" || h.Class == "spin" {
				r.viol = append(r.viol, mon.Violation{
					Sig:    "hang/" + h.Class + "@" + h.Frame,
					Msg:    fmt.Sprintf("no progress: %s witness in %s; case journal: %s", h.Class, h.Frame, journalLine(journal, lastCase)),
					Case:   lastCase,
					Replay: map[string]any{"journal": journalLine(journal, lastCase), "frames": h.Frames, "dump": trunc(h.Dump, 20000)},
				})
			} else {
				r.inconc = append(r.inconc, mon.Inconc{Reason: "watchdog fired without a deadlock or spin witness", Case: lastCase, Detail: h.Frames})
			}
		case code == 4:
			r.notes = append(r.notes, fmt.Sprintf("child %s reported a harness error (see %s)", tag, logf))
			return
		default:
			kind, frame, first := classifyCrash(logTxt)
			if kind != "" && frame != "" {
				r.viol = append(r.viol, mon.Violation{
					Sig:    "crash/" + kind + "@" + frame,
					Msg:    fmt.Sprintf("process died: %s; case journal: %s", first, journalLine(journal, lastCase)),
					Case:   lastCase,
					Replay: map[string]any{"journal": journalLine(journal, lastCase), "trace": trunc(crashTrace(logTxt), 20000)},
				})
			} else if strings.Contains(logTxt, "SIGQUIT") || code == 124 || code == 128+3 {
				r.inconc = append(r.inconc, mon.Inconc{Reason: "child exceeded the last-resort wall-clock limit", Case: lastCase})
				r.notes = append(r.notes, fmt.Sprintf("child %s killed by the wall-clock limit (%ds)", tag, timeoutS))
				return
			} else {
				r.inconc = append(r.inconc, mon.Inconc{Reason: fmt.Sprintf("child died (exit %d) without a Go panic/fatal trace through dapr/kit: %s", code, first), Case: lastCase})
				if lastCase < 0 {
					r.notes = append(r.notes, fmt.Sprintf("child %s died before its first case (exit %d, see %s)", tag, code, logf))
					return
				}
			}
		}
		if only >= 0 || lastCase < 0 {
			if lastCase < 0 {
				r.notes = append(r.notes, fmt.Sprintf("child %s died with no journalled case", tag))
			}
			return
		}
		resume = lastCase + 1
		r.resumes++
	}
	r.notes = append(r.notes, fmt.Sprintf("child %s/%d gave up after 12 restarts", r.build, r.idx))
}

// maxRSSMiB: resident-memory limit per child process (VERIF_MAX_RSS_MIB, default 12288).
func maxRSSMiB() int {
	if v, err := strconv.Atoi(os.Getenv("VERIF_MAX_RSS_MIB")); err == nil && v > 0 {
		return v
	}
	return 12288
}

// memWatch polls the resident set size of the test binary (the child of the `timeout` wrapper) and
// stops it with SIGQUIT (goroutine dump into the log) when it grows beyond the limit, so that a
// runaway case - e.g. io.ReadAll on a stream that never ends on a mutated tree - cannot exhaust the machine.
func memWatch(pid int, stop <-chan struct{}, killed *atomic.Bool) {
	limit := int64(maxRSSMiB()) << 20
	for {
		select {
		case <-stop:
			return
		case <-time.After(500 * time.Millisecond):
		}
		b, err := os.ReadFile(fmt.Sprintf("/proc/%d/task/%d/children", pid, pid))
		if err != nil {
			continue
		}
		for _, f := range strings.Fields(string(b)) {
			sm, err := os.ReadFile("/proc/" + f + "/statm")
			if err != nil {
				continue
			}
			fs := strings.Fields(string(sm))
			if len(fs) < 2 {
				continue
			}
			pages, _ := strconv.ParseInt(fs[1], 10, 64)
			if pages*4096 > limit {
				if cp, err := strconv.Atoi(f); err == nil {
					killed.Store(true)
					syscall.Kill(cp, syscall.SIGQUIT)
					time.Sleep(5 * time.Second)
					syscall.Kill(cp, syscall.SIGKILL)
				}
				return
			}
		}
	}
}

func trunc(s string, n int) string {
	if len(s) > n {
		return s[:n] + "\n...[truncated]"
	}
	return s
}

func readTail(path string, n int64) string {
	f, err := os.Open(path)
	if err != nil {
		return ""
	}
	defer f.Close()
	st, _ := f.Stat()
	// head and tail: the panic message is usually near the first trace
	if st.Size() <= 2*n {
		b, _ := os.ReadFile(path)
		return string(b)
	}
	head := make([]byte, n)
	f.Read(head)
	tail := make([]byte, n)
	f.ReadAt(tail, st.Size()-n)
	return string(head) + "\n...\n" + string(tail)
}

var caseLine = regexp.MustCompile(`^case=(\d+) `)

func lastJournalCase(path string) int {
	b, err := os.ReadFile(path)
	if err != nil {
		return -1
	}
	lines := strings.Split(string(b), "\n")
	for i := len(lines) - 1; i >= 0; i-- {
		if m := caseLine.FindStringSubmatch(lines[i]); m != nil {
			v, _ := strconv.Atoi(m[1])
			return v
		}
	}
	return -1
}

func journalLine(path string, idx int) string {
	b, err := os.ReadFile(path)
	if err != nil {
		return ""
	}
	lines := strings.Split(string(b), "\n")
	pre := "case=" + strconv.Itoa(idx) + " "
	for i := len(lines) - 1; i >= 0; i-- {
		if strings.HasPrefix(lines[i], pre) {
			out := lines[i]
			for j := i + 1; j < len(lines) && strings.HasPrefix(lines[j], "  "); j++ {
				out += " ;" + strings.TrimSpace(lines[j])
			}
			return trunc(out, 4000)
		}
	}
	return ""
}

var frameRe = regexp.MustCompile(`(?m)^(github\.com/dapr/kit/[^\n]*)\([^()\n]*\)\s*$`)

// classifyCrash finds a Go panic / fatal error whose trace goes through
// dapr/kit. Returns kind (panic|fatal), the innermost kit frame of the first
// trace and the first line of the message.
func classifyCrash(log string) (kind, frame, first string) {
	idx := -1
	for _, marker := range []string{"\npanic: ", "\nfatal error: ", "panic: ", "fatal error: "} {
		if i := strings.Index(log, marker); i >= 0 && (idx < 0 || i < idx) {
			idx = i
			if strings.Contains(marker, "panic") {
				kind = "panic"
			} else {
				kind = "fatal"
			}
		}
	}
	if idx < 0 {
		fl := strings.TrimSpace(log)
		if i := strings.IndexByte(fl, '\n'); i > 0 {
			fl = fl[:i]
		}
		return "", "", trunc(fl, 200)
	}
	rest := strings.TrimLeft(log[idx:], "\n")
	first = rest
	if i := strings.IndexByte(first, '\n'); i > 0 {
		first = first[:i]
	}
	first = trunc(first, 300)
	// first goroutine trace after the message
	trace := rest
	if i := strings.Index(trace, "\ngoroutine "); i >= 0 {
		trace = trace[i+1:]
		if j := strings.Index(trace, "\n\n"); j > 0 {
			trace = trace[:j]
		}
	}
	if m := frameRe.FindStringSubmatch(trace); m != nil {
		frame = strings.TrimPrefix(m[1], "github.com/dapr/kit/")
	} else if kind == "fatal" {
		// runtime fatal errors (concurrent map writes, unlock of unlocked mutex):
		// the faulting goroutine is printed first; fall back to any kit frame
		if m := frameRe.FindStringSubmatch(rest); m != nil {
			frame = strings.TrimPrefix(m[1], "github.com/dapr/kit/")
		}
	}
	return kind, frame, first
}

func crashTrace(log string) string {
	for _, marker := range []string{"panic: ", "fatal error: "} {
		if i := strings.Index(log, marker); i >= 0 {
			return log[i:]
		}
	}
	return log
}

// scanRaceLogs counts race-detector report blocks and turns every block with a
// dapr/kit frame into a violation, de-duplicated by the pair of innermost kit
// frames of the two accesses.
func scanRaceLogs(bdir string) ([]mon.Violation, int) {
	files, _ := filepath.Glob(filepath.Join(bdir, "race.*"))
	blocks := 0
	seen := map[string]bool{}
	var out []mon.Violation
	for _, f := range files {
		if strings.HasSuffix(f, ".test") {
			continue // the test binary of an extra build that happens to be called "race"
		}
		b, err := os.ReadFile(f)
		if err != nil {
			continue
		}
		for _, blk := range strings.Split(string(b), "==================") {
			if !strings.Contains(blk, "WARNING: DATA RACE") {
				continue
			}
			blocks++
			// an access belongs to kit if its innermost frame outside the Go runtime /
			// standard library is a dapr/kit function (a harness callback invoked by
			// kit has kit frames further down, but the racing access is the harness's)
			var frames []string
			created := raceCreationSections(blk)
			for _, sec := range splitRaceSections(blk) {
				owner := raceOwner(sec)
				if owner == "" {
					// the access stack shows only runtime / standard-library frames (e.g. the race
					// detector's own WaitGroup Add-vs-Wait check): the goroutine's creation stack
					// says whose goroutine it is
					if m := raceGoroutineOf.FindStringSubmatch(sec); m != nil {
						owner = raceOwner(created[m[1]])
					}
				}
				if strings.HasPrefix(owner, "github.com/dapr/kit/") {
					frames = append(frames, strings.TrimPrefix(owner, "github.com/dapr/kit/"))
				}
			}
			if len(frames) == 0 {
				// a race between harness goroutines only: the monitor itself is broken, not the property
				if !seen["harness"] {
					seen["harness"] = true
					out = append(out, mon.Violation{Sig: "HARNESS-RACE", Msg: "race detector report without dapr/kit frames (monitor bug)", Case: -1, Replay: map[string]any{"report": trunc(blk, 6000), "log": f}})
				}
				continue
			}
			if len(frames) > 2 {
				frames = frames[:2]
			}
			sort.Strings(frames)
			sig := "race/" + strings.Join(frames, "|")
			if seen[sig] {
				continue
			}
			seen[sig] = true
			out = append(out, mon.Violation{Sig: sig, Msg: "race detector report with dapr/kit frames", Case: -1, Replay: map[string]any{"report": trunc(blk, 8000), "log": f}})
		}
	}
	return out, blocks
}

var raceGoroutineOf = regexp.MustCompile(`^by goroutine (\d+)`)
var raceCreatedHdr = regexp.MustCompile(`^Goroutine (\d+) \([^)]*\) created at:`)

// raceOwner returns the innermost frame of a stack section that is dapr/kit or harness
// code ("" if there is none); runtime, standard library and third-party frames above it
// are skipped.
func raceOwner(sec string) string {
	for _, m := range anyRaceFrame.FindAllStringSubmatch(sec, -1) {
		fn := m[1]
		if strings.HasPrefix(fn, "github.com/dapr/kit/") || strings.HasPrefix(fn, "verif/") {
			return fn
		}
	}
	return ""
}

// raceCreationSections maps a goroutine number to its "Goroutine N (...) created at:" stack.
func raceCreationSections(blk string) map[string]string {
	out := map[string]string{}
	cur := ""
	for _, l := range strings.Split(blk, "\n") {
		t := strings.TrimSpace(l)
		if m := raceCreatedHdr.FindStringSubmatch(t); m != nil {
			cur = m[1]
			continue
		}
		if cur != "" {
			out[cur] += l + "\n"
		}
	}
	return out
}

var anyRaceFrame = regexp.MustCompile(`(?m)^  (\S[^\n]*)\([^()\n]*\)\s*$`)
var kitRaceFrame = regexp.MustCompile(`(?m)^\s+(github\.com/dapr/kit/[^\n]*)\([^()\n]*\)\s*$`)

func splitRaceSections(blk string) []string {
	// sections: "Write at ... by goroutine N:" / "Previous read at ... by goroutine M:"; stop at "Goroutine N (running) created at:"
	var secs []string
	lines := strings.Split(blk, "\n")
	cur := ""
	in := false
	for _, l := range lines {
		t := strings.TrimSpace(l)
		if strings.HasPrefix(t, "Goroutine ") {
			break
		}
		if (strings.Contains(t, " at 0x") && strings.Contains(t, " by ")) && !strings.HasPrefix(t, "WARNING") {
			if in {
				secs = append(secs, cur)
			}
			cur, in = "", true
			if i := strings.Index(t, " by "); i >= 0 {
				cur = strings.TrimSuffix(t[i+1:], ":") + "\n"
			}
			continue
		}
		if in {
			cur += l + "\n"
		}
	}
	if in {
		secs = append(secs, cur)
	}
	return secs
}

// loadKnown reads KNOWN_FINDINGS.txt: "finding: property=<id> sig=<sig> <what fails>".
// "fixed:" lines suppress nothing.
func loadKnown(id string) map[string]string {
	out := map[string]string{}
	b, _ := os.ReadFile(filepath.Join(verifDir, "KNOWN_FINDINGS.txt"))
	if extra, _ := filepath.Glob(filepath.Join(verifDir, "known.d", "*.txt")); len(extra) > 0 {
		for _, f := range extra {
			if eb, err := os.ReadFile(f); err == nil {
				b = append(append(b, '\n'), eb...)
			}
		}
	}
	for _, l := range strings.Split(string(b), "\n") {
		l = strings.TrimSpace(l)
		if !strings.HasPrefix(l, "finding:") {
			continue
		}
		f := strings.Fields(strings.TrimPrefix(l, "finding:"))
		if len(f) < 2 || f[0] != "property="+id || !strings.HasPrefix(f[1], "sig=") {
			continue
		}
		out[strings.TrimPrefix(f[1], "sig=")] = strings.Join(f[2:], " ")
	}
	return out
}

func replay(path string) int {
	b, err := os.ReadFile(path)
	if err != nil {
		fmt.Fprintln(os.Stderr, err)
		return 2
	}
	var r struct {
		Property  string        `json:"property"`
		Tier      string        `json:"tier"`
		Seed      uint64        `json:"seed"`
		Violation mon.Violation `json:"violation"`
	}
	if err := json.Unmarshal(b, &r); err != nil {
		fmt.Fprintln(os.Stderr, err)
		return 2
	}
	os.Setenv("VERIF_SEED", strconv.FormatUint(r.Seed, 10))
	return check(r.Property, r.Tier, r.Violation.Case)
}
