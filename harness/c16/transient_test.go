package c16

import (
	"bytes"
	"errors"
	"fmt"
	"io"

	"github.com/dapr/kit/streams"

	"verif/harness/internal/mon"
)

var errTransient = errors.New("c16: transient source error (try again)")

// flaky wraps a scripted source and reports ONE transient non-EOF error at its k-th Read - alone
// (nothing consumed) or together with that Read's data - and then carries on where it was: the
// "errors mid-stream" reader style for a source that recovers (a network body behind a retrying
// transport, a pipe whose writer reported a soft error).
type flaky struct {
	inner    io.Reader
	k        int
	withData bool
	reads    int
	fired    bool
}

func (f *flaky) Read(p []byte) (int, error) {
	f.reads++
	if !f.fired && f.reads >= f.k && len(p) > 0 {
		if !f.withData {
			f.fired = true
			return 0, errTransient
		}
		n, err := f.inner.Read(p)
		if err == nil && n > 0 {
			f.fired = true
			return n, errTransient
		}
		return n, err
	}
	return f.inner.Read(p)
}

type flakyCloser struct{ *flaky }

func (f flakyCloser) Close() error { return f.inner.(io.Closer).Close() }

// checkMultiTransient: sources that report a transient error and recover, under a consumer that keeps
// going after a non-EOF error (Read again / ReadAll again / io.Copy again - the WriteTo path is written
// to "permit resume / retry after error"). The bytes of all attempts together are the concatenation of
// the sources, the stream ends in EOF, and every closable source is closed exactly once.
func checkMultiTransient(idx int, mc multiCase, mode, buf int, rng *mon.RNG) {
	var readers []io.Reader
	var srcs []*src
	var want []byte
	steps := 0
	injected := 0
	for i, sp := range mc.specs {
		sp.errAt = -1
		s, e, _ := sp.build(byte(17 * (i + 3)))
		srcs = append(srcs, s)
		steps += len(s.steps) + 4
		want = append(want, s.data[:e]...)
		var r io.Reader = s
		if mc.closable[i] {
			r = closableSrc{s}
		}
		if sp.L > 0 && (i == idx%len(mc.specs) || rng.Chance(1, 3)) {
			f := &flaky{inner: r, k: rng.Range(1, 3), withData: rng.Bool()}
			injected++
			if mc.closable[i] {
				r = flakyCloser{f}
			} else {
				r = f
			}
		}
		readers = append(readers, r)
	}
	if injected == 0 {
		return
	}
	mr := streams.NewMultiReaderCloser(readers...)
	var got []byte
	nerr := 0
	var final error
	stuck := true
	maxIter := 4*(len(want)+steps) + 32
	switch mode {
	case modeRead:
		p := make([]byte, buf)
		for i := 0; i < maxIter; i++ {
			n, e := mr.Read(p)
			got = append(got, p[:n]...)
			if e == io.EOF {
				final, stuck = e, false
				break
			}
			if e != nil {
				nerr++
			}
		}
	case modeReadAll:
		for i := 0; i < injected+3; i++ {
			b, e := io.ReadAll(mr)
			got = append(got, b...)
			if e == nil {
				final, stuck = io.EOF, false
				break
			}
			nerr++
		}
	default:
		var bb bytes.Buffer
		for i := 0; i < injected+3; i++ {
			var e error
			var n int64
			before := bb.Len()
			if buf%2 == 0 {
				n, e = io.Copy(plainWriter{&bb}, mr)
			} else {
				n, e = io.Copy(&bb, mr)
			}
			if n != int64(bb.Len()-before) {
				rec.Violation(idx, "multi/transient/copy-count-differs", fmt.Sprintf("io.Copy reported %d bytes for an attempt in which the writer received %d (the attempt ended with: %v)", n, bb.Len()-before, e), map[string]any{"component": "MultiReaderCloser", "attempt": i + 1})
				return
			}
			if e == nil {
				final, stuck = io.EOF, false
				break
			}
			nerr++
		}
		got = bb.Bytes()
	}
	ctx := func() map[string]any {
		var ss []string
		var cl []int
		for _, sp := range mc.specs {
			ss = append(ss, sp.String())
		}
		for _, s := range srcs {
			cl = append(cl, s.closes)
		}
		return map[string]any{"component": "MultiReaderCloser", "sources": ss, "closable": mc.closable, "consumer": "resilient " + modeName(mode), "buf": buf,
			"got": fmt.Sprintf("%x", got), "want": fmt.Sprintf("%x", want), "transient_errors_injected": injected, "errors_seen": nerr, "closes": cl}
	}
	if stuck {
		rec.Violation(idx, "multi/transient/no-eof/"+modeName(mode), "the stream never ended in EOF although every source recovered and ended", ctx())
		return
	}
	_ = final
	if !bytes.Equal(got, want) {
		rec.Violation(idx, "multi/transient/bytes-differ/"+modeName(mode), "a consumer that kept reading after a source's transient error did not get the concatenation of the sources", ctx())
		return
	}
	mr.Close()
	mr.Close()
	for i, s := range srcs {
		if mc.closable[i] && s.closes != 1 {
			rec.Violation(idx, fmt.Sprintf("multi/transient/close-count/%s/closed=%d", modeName(mode), min(s.closes, 2)),
				fmt.Sprintf("closable source %d closed %d times after consumption and Close", i, s.closes), ctx())
			return
		}
	}
	rec.Count("multi.transient.ok."+modeName(mode), 1)
	rec.Count("multi.transient.errors_surfaced", nerr)
}

// checkLimitTransient / checkTeeTransient: the same recovering source under LimitReadCloser and
// TeeReadCloser with a Read loop that keeps going after a non-EOF error.
func checkLimitTransient(idx, N int, sp spec, buf, k int, withData bool) {
	sp.errAt = -1
	s, e, _ := sp.build(byte(N + 5))
	if sp.L == 0 {
		return
	}
	failingClose(s, idx+buf+k)
	lr := streams.LimitReadCloser(flakyCloser{&flaky{inner: closableSrc{s}, k: k, withData: withData}}, int64(N))
	want := s.data[:e]
	var wantErr error = io.EOF
	if e > N {
		want, wantErr = s.data[:N], streams.ErrStreamTooLarge
	}
	var got []byte
	var final error
	p := make([]byte, buf)
	nerr := 0
	for i := 0; i < 6*(sp.L+len(s.steps))+32; i++ {
		n, err := lr.Read(p)
		got = append(got, p[:n]...)
		if err == io.EOF || errors.Is(err, streams.ErrStreamTooLarge) {
			final = err
			break
		}
		if err != nil {
			nerr++
		}
	}
	ctx := map[string]any{"component": "LimitReadCloser", "N": N, "source": sp.String(), "buf": buf, "transient_error_at_read": k, "with_data": withData,
		"got": fmt.Sprintf("%x", got), "want": fmt.Sprintf("%x", want), "final": fmt.Sprint(final), "errors_seen": nerr}
	switch {
	case final == nil:
		rec.Violation(idx, "limit/transient/no-terminal-event", "the stream never ended although the source recovered and ended", ctx)
		return
	case !bytes.Equal(got, want):
		rec.Violation(idx, "limit/transient/bytes-differ", "a consumer that kept reading after the source's transient error did not get the source's bytes (up to N)", ctx)
		return
	case !errors.Is(final, wantErr):
		rec.Violation(idx, "limit/transient/wrong-terminal-error", fmt.Sprintf("expected %v got %v", wantErr, final), ctx)
		return
	}
	lr.Close()
	lr.Close()
	if s.closes != 1 {
		rec.Violation(idx, fmt.Sprintf("limit/transient/close-count/closed=%d", min(s.closes, 2)), fmt.Sprintf("source closed %d times", s.closes), ctx)
		return
	}
	rec.Count("limit.transient.ok", 1)
}

func checkTeeTransient(idx int, sp spec, buf, k int, withData bool) {
	sp.errAt = -1
	s, e, _ := sp.build(91)
	if sp.L == 0 {
		return
	}
	snk := &sink{failAt: -1}
	tr := streams.NewTeeReadCloser(flakyCloser{&flaky{inner: closableSrc{s}, k: k, withData: withData}}, closableSink{snk})
	want := s.data[:e]
	var got []byte
	var final error
	p := make([]byte, buf)
	for i := 0; i < 6*(sp.L+len(s.steps))+32; i++ {
		n, err := tr.Read(p)
		got = append(got, p[:n]...)
		if err == io.EOF {
			final = err
			break
		}
	}
	ctx := map[string]any{"component": "TeeReadCloser", "source": sp.String(), "buf": buf, "transient_error_at_read": k, "with_data": withData,
		"got": fmt.Sprintf("%x", got), "want": fmt.Sprintf("%x", want), "writer_got": fmt.Sprintf("%x", snk.Bytes())}
	switch {
	case final == nil:
		rec.Violation(idx, "tee/transient/no-eof", "the stream never ended in EOF although the source recovered and ended", ctx)
		return
	case !bytes.Equal(got, want):
		rec.Violation(idx, "tee/transient/bytes-differ", "a consumer that kept reading after the source's transient error did not get the source's bytes", ctx)
		return
	case !bytes.Equal(snk.Bytes(), got):
		rec.Violation(idx, "tee/transient/writer-bytes-differ", "the tee writer did not receive exactly the bytes the consumer got", ctx)
		return
	}
	tr.Close()
	if s.closes != 1 || snk.closes != 1 {
		rec.Violation(idx, "tee/transient/close-count", fmt.Sprintf("source closed %d times, writer closed %d times", s.closes, snk.closes), ctx)
		return
	}
	rec.Count("tee.transient.ok", 1)
}
