// Package c16 monitors property C16 (streams: bytes preserved for every
// chunking; oversize streams always fail; sources closed exactly once).
package c16

import (
	"bytes"
	"errors"
	"fmt"
	"io"
	"testing"

	"github.com/dapr/kit/streams"

	"verif/harness/internal/mon"
)

var errBoom = errors.New("boom (injected source error)")
var errWBoom = errors.New("wboom (injected writer error)")

type step struct {
	n   int
	err error
}

// src is a scripted source. It obeys the io.Reader contract: never more than
// len(p) bytes, and the terminal error is sticky.
type src struct {
	data     []byte
	steps    []step
	pos      int
	si, off  int
	term     error
	closes   int
	afterCls int   // reads after Close (observed, not judged)
	closeErr error // what Close reports (a body whose Close complains is still closed - and must not be closed again)
}

func (s *src) Read(p []byte) (int, error) {
	if s.closes > 0 {
		s.afterCls++
	}
	if len(p) == 0 {
		return 0, nil
	}
	if s.term != nil {
		return 0, s.term
	}
	if s.si >= len(s.steps) {
		s.term = io.EOF
		return 0, io.EOF
	}
	st := s.steps[s.si]
	k := st.n - s.off
	if k > len(p) {
		k = len(p)
	}
	copy(p, s.data[s.pos:s.pos+k])
	s.pos += k
	s.off += k
	if s.off == st.n {
		s.si++
		s.off = 0
		if st.err != nil {
			s.term = st.err
		}
		return k, st.err
	}
	return k, nil
}

type closableSrc struct{ *src }

func (c closableSrc) Close() error { c.src.closes++; return c.src.closeErr }

var errCloseBoom = errors.New("c16: close reports an error")

// failingClose makes every second source (by case) report an error from Close.
func failingClose(s *src, salt int) {
	if salt%2 == 1 {
		s.closeErr = errCloseBoom
		rec.Count("sources_whose_close_reports_an_error", 1)
	}
}

// spec describes how a source of length L is split.
type spec struct {
	L       int
	mask    uint32 // bit i set = chunk boundary after byte i+1 (i < L-1)
	eofWith bool   // EOF returned together with the last data
	zero    int    // 0 none, 1 before first chunk, 2 between chunks, 3 before the terminal event
	errAt   int    // -1 none, else chunk index at which errBoom is returned (== #chunks: in place of EOF)
	errData bool   // errBoom returned together with that chunk's data
}

func (sp spec) String() string {
	return fmt.Sprintf("L=%d mask=%b eofWith=%v zero=%d errAt=%d errData=%v", sp.L, sp.mask, sp.eofWith, sp.zero, sp.errAt, sp.errData)
}

func (sp spec) chunks() []int {
	if sp.L == 0 {
		return nil
	}
	var out []int
	cur := 0
	for i := 0; i < sp.L; i++ {
		cur++
		if i == sp.L-1 || sp.mask&(1<<uint(i)) != 0 {
			out = append(out, cur)
			cur = 0
		}
	}
	return out
}

// build returns the scripted source, the number of bytes it delivers before
// its terminal event, and the terminal event.
func (sp spec) build(base byte) (*src, int, error) {
	data := make([]byte, sp.L)
	for i := range data {
		data[i] = base + byte(i)*7 + 1
	}
	s := &src{data: data}
	ch := sp.chunks()
	delivered := 0
	for j, c := range ch {
		if (sp.zero == 1 && j == 0) || (sp.zero == 2 && j > 0) {
			s.steps = append(s.steps, step{0, nil})
		}
		if sp.errAt == j {
			if sp.errData {
				s.steps = append(s.steps, step{c, errBoom})
				delivered += c
			} else {
				s.steps = append(s.steps, step{0, errBoom})
			}
			return s, delivered, errBoom
		}
		if j == len(ch)-1 && sp.eofWith && sp.errAt < 0 {
			s.steps = append(s.steps, step{c, io.EOF})
			return s, delivered + c, io.EOF
		}
		s.steps = append(s.steps, step{c, nil})
		delivered += c
	}
	if sp.zero == 3 {
		s.steps = append(s.steps, step{0, nil})
	}
	if sp.errAt == len(ch) {
		s.steps = append(s.steps, step{0, errBoom})
		return s, delivered, errBoom
	}
	s.steps = append(s.steps, step{0, io.EOF})
	return s, delivered, io.EOF
}

const (
	modeRead = iota
	modeReadAll
	modeCopy
)

type hideWriterTo struct{ io.Writer }

// consume reads r to its end. The terminal error of ReadAll / Copy is
// normalised (nil means the stream ended in EOF).
func consume(r io.Reader, mode, buf, maxIter int) (got []byte, err error, stuck bool) {
	switch mode {
	case modeRead:
		p := make([]byte, buf)
		for i := 0; i < maxIter; i++ {
			n, e := r.Read(p)
			if n < 0 || n > len(p) {
				return got, fmt.Errorf("invalid count %d", n), false
			}
			got = append(got, p[:n]...)
			if e != nil {
				return got, e, false
			}
		}
		return got, nil, true
	case modeReadAll:
		b, e := io.ReadAll(r)
		if e == nil {
			e = io.EOF
		}
		return b, e, false
	default:
		var bb bytes.Buffer
		var e error
		var n int64
		if buf%2 == 0 {
			// a destination without ReadFrom: the copy goes through WriteTo's own buffer
			n, e = io.Copy(plainWriter{&bb}, r)
		} else {
			n, e = io.Copy(&bb, r)
		}
		if n != int64(bb.Len()) {
			// the count io.Copy / WriteTo reports is the number of bytes the writer received
			return bb.Bytes(), fmt.Errorf("io.Copy reported %d bytes, the writer received %d (copy ended with: %v)", n, bb.Len(), e), false
		}
		if e == nil {
			e = io.EOF
		}
		return bb.Bytes(), e, false
	}
}

var rec *mon.Rec

func modeName(m int) string { return [...]string{"Read", "ReadAll", "io.Copy"}[m] }

// ---------------------------------------------------------------- Limit

func checkLimit(idx int, N int, sp spec, mode, buf int) {
	s, e, term := sp.build(byte(N))
	failingClose(s, idx+buf+mode+int(sp.mask))
	lr := streams.LimitReadCloser(closableSrc{s}, int64(N))
	got, err, stuck := consume(lr, mode, buf, 4*(sp.L+len(s.steps))+16)
	ctx := func() map[string]any {
		return map[string]any{"component": "LimitReadCloser", "N": N, "source": sp.String(), "consumer": modeName(mode), "buf": buf,
			"got_len": len(got), "err": fmt.Sprint(err), "closes": s.closes}
	}
	if stuck {
		rec.Violation(idx, "limit/no-terminal-event", "LimitReadCloser never returned an error although the source ended", ctx())
		return
	}
	if !bytes.HasPrefix(s.data, got) {
		rec.Violation(idx, "limit/bytes-altered", "bytes delivered are not a prefix of the source", ctx())
		return
	}
	if e <= N {
		// the source ends (EOF or error) within the limit: unchanged, same terminal event
		if len(got) != e {
			rec.Violation(idx, "limit/within-limit/lost-or-extra-bytes", fmt.Sprintf("source delivered %d bytes <= N=%d but consumer got %d", e, N, len(got)), ctx())
			return
		}
		if !errors.Is(err, term) {
			rec.Violation(idx, "limit/within-limit/wrong-terminal-error", fmt.Sprintf("source ended with %v, consumer saw %v", term, err), ctx())
			return
		}
	} else {
		if len(got) > N {
			rec.Violation(idx, "limit/over-limit/too-many-bytes", fmt.Sprintf("delivered %d > N=%d bytes", len(got), N), ctx())
			return
		}
		if err == nil || errors.Is(err, io.EOF) {
			rec.Violation(idx, "limit/over-limit/clean-eof", fmt.Sprintf("source has %d > N=%d bytes but the stream ended in a clean EOF after %d bytes", e, N, len(got)), ctx())
			return
		}
		if !errors.Is(err, streams.ErrStreamTooLarge) {
			// only a source that itself fails may surface its own error instead
			if !(term == errBoom && errors.Is(err, errBoom)) {
				rec.Violation(idx, "limit/over-limit/wrong-error", fmt.Sprintf("expected ErrStreamTooLarge, got %v", err), ctx())
				return
			}
		} else if s.closes < 1 {
			rec.Violation(idx, "limit/over-limit/source-not-closed", "ErrStreamTooLarge reported but the source was not closed", ctx())
			return
		}
	}
	lr.Close()
	lr.Close()
	if s.closes != 1 {
		rec.Violation(idx, "limit/close-count", fmt.Sprintf("source closed %d times after full consumption and Close", s.closes), ctx())
		return
	}
	if e > N {
		rec.Count("limit.oversize_rejected", 1)
	} else {
		rec.Count("limit.within_limit", 1)
	}
}

// ---------------------------------------------------------------- Multi

type multiCase struct {
	specs    []spec
	closable []bool
}

func checkMulti(idx int, mc multiCase, mode, buf int) {
	var readers []io.Reader
	var srcs []*src
	var want []byte
	var wantErr error = io.EOF
	steps := 0
	ended := false
	for i, sp := range mc.specs {
		s, e, term := sp.build(byte(31 * (i + 1)))
		srcs = append(srcs, s)
		steps += len(s.steps) + 2
		switch {
		case i == 0 && (idx+buf)%3 == 0 && !mc.closable[i]:
			// a source that, while it is being read, copies ANOTHER MultiReaderCloser of its own to the end
			// (a reader layered on a second stream): the two streams must not share anything
			readers = append(readers, &nestingSrc{src: s, idx: idx})
			rec.Count("multi.source_that_copies_another_stream_while_read", 1)
		case mc.closable[i]:
			failingClose(s, idx+i+buf+mode)
			readers = append(readers, closableSrc{s})
		default:
			readers = append(readers, s)
		}
		if !ended {
			want = append(want, s.data[:e]...)
			if term != io.EOF {
				wantErr = term
				ended = true
			}
		}
	}
	// the sources are handed over as a caller-owned slice (spread); the caller keeps using its slice:
	// either it overwrites every element right away (the stream must not notice), or it looks at it
	// after the stream has been consumed and closed (it must be untouched)
	// sometimes the tail of the sources is itself a MultiReaderCloser built by the caller, who also closes
	// it (defer inner.Close()) after the outer stream has been consumed and closed
	var inner *streams.MultiReaderCloser
	if len(readers) >= 2 && (idx+mode)%4 == 1 {
		k := 1 + (idx+buf)%(len(readers)-1)
		inner = streams.NewMultiReaderCloser(append([]io.Reader(nil), readers[k:]...)...)
		readers = append(append([]io.Reader(nil), readers[:k]...), inner)
		rec.Count("multi.nested_stream_as_last_source", 1)
	}
	given := make([]io.Reader, len(readers), len(readers)+2)
	copy(given, readers)
	mr := streams.NewMultiReaderCloser(given...)
	scribble := (idx+mode+buf)%2 == 0
	if scribble {
		for i := range given {
			given[i] = poisonReader{}
		}
		_ = append(given, poisonReader{})
		rec.Count("multi.caller_slice_overwritten_after_construction", 1)
	}
	got, err, stuck := consume(mr, mode, buf, 4*(len(want)+steps)+16)
	defer func() {
		if scribble {
			return
		}
		for i := range given {
			if given[i] != readers[i] {
				rec.Violation(idx, "multi/caller-slice-modified/"+modeName(mode), fmt.Sprintf("element %d of the slice the caller passed to NewMultiReaderCloser was changed by the stream", i), nil)
				return
			}
		}
		rec.Count("multi.caller_slice_intact_checked", 1)
	}()
	ctx := func() map[string]any {
		var ss []string
		var cl []int
		for _, sp := range mc.specs {
			ss = append(ss, sp.String())
		}
		for _, s := range srcs {
			cl = append(cl, s.closes)
		}
		return map[string]any{"component": "MultiReaderCloser", "sources": ss, "closable": mc.closable, "consumer": modeName(mode), "buf": buf,
			"got_len": len(got), "want_len": len(want), "err": fmt.Sprint(err), "closes": cl}
	}
	if stuck {
		rec.Violation(idx, "multi/no-terminal-event", "MultiReaderCloser never returned an error although all sources ended", ctx())
		return
	}
	if !bytes.Equal(got, want) {
		rec.Violation(idx, "multi/bytes-differ/"+modeName(mode), "consumer bytes are not the concatenation of the sources", ctx())
		return
	}
	if !errors.Is(err, wantErr) {
		rec.Violation(idx, "multi/wrong-terminal-error/"+modeName(mode), fmt.Sprintf("expected %v got %v", wantErr, err), ctx())
		return
	}
	mr.Close()
	mr.Close()
	if inner != nil {
		inner.Close()
	}
	for i, s := range srcs {
		if mc.closable[i] && s.closes != 1 {
			rec.Violation(idx, fmt.Sprintf("multi/close-count/%s/closed=%d", modeName(mode), min(s.closes, 2)),
				fmt.Sprintf("closable source %d closed %d times after consumption (terminal %v) and Close", i, s.closes, err), ctx())
			return
		}
	}
	rec.Count("multi.ok."+modeName(mode), 1)
}

// nestingSrc delivers its own data, then - before returning from that Read - runs a complete io.Copy of an
// independent MultiReaderCloser into a plain writer, and checks that inner stream too.
type nestingSrc struct {
	*src
	idx  int
	done bool
}

type plainWriter struct{ b *bytes.Buffer } // no ReadFrom: io.Copy has to use WriteTo's buffer

func (p plainWriter) Write(b []byte) (int, error) { return p.b.Write(b) }

func (n *nestingSrc) Read(p []byte) (int, error) {
	k, err := n.src.Read(p)
	if !n.done {
		n.done = true
		want := bytes.Repeat([]byte("inner stream "), 40)
		a, b := &src{data: want[:200], steps: []step{{n: 200}, {n: 0, err: io.EOF}}}, &src{data: want[200:], steps: []step{{n: len(want) - 200}, {n: 0, err: io.EOF}}}
		var out bytes.Buffer
		_, cerr := io.Copy(plainWriter{&out}, streams.NewMultiReaderCloser(a, b))
		if cerr != nil || !bytes.Equal(out.Bytes(), want) {
			rec.Violation(n.idx, "multi/nested-stream-bytes-differ", fmt.Sprintf("an independent MultiReaderCloser copied from inside a source's Read returned %d bytes (err %v) that are not the concatenation of its sources", out.Len(), cerr), nil)
		}
	}
	return k, err
}

// poisonReader is what a caller puts into its own slice after handing the sources over; nobody may read it.
type poisonReader struct{}

func (poisonReader) Read(p []byte) (int, error) { return 0, errPoison }

var errPoison = errors.New("the stream read from an element the caller put into its own slice after construction")

// ---------------------------------------------------------------- Tee

type sink struct {
	bytes.Buffer
	failAt   int // -1 never; else Write fails once this many bytes were accepted
	closes   int
	closeErr error
}

func (k *sink) Write(p []byte) (int, error) {
	if k.failAt >= 0 && k.Len()+len(p) > k.failAt {
		n := k.failAt - k.Len()
		if n < 0 {
			n = 0
		}
		k.Buffer.Write(p[:n])
		return n, errWBoom
	}
	return k.Buffer.Write(p)
}

type closableSink struct{ *sink }

func (c closableSink) Close() error { c.sink.closes++; return c.sink.closeErr }

func checkTee(idx int, sp spec, srcClosable, sinkClosable bool, failAt int, mode, buf int) {
	s, e, term := sp.build(77)
	k := &sink{failAt: failAt}
	var r io.Reader = s
	if srcClosable {
		failingClose(s, idx+buf+mode+failAt+int(sp.mask))
		r = closableSrc{s}
	}
	var w io.Writer = k
	if sinkClosable {
		if (idx+buf+mode+failAt)%3 == 1 {
			k.closeErr = errCloseBoom
		}
		w = closableSink{k}
	}
	tr := streams.NewTeeReadCloser(r, w)
	got, err, stuck := consume(tr, mode, buf, 4*(sp.L+len(s.steps))+16)
	ctx := func() map[string]any {
		return map[string]any{"component": "TeeReadCloser", "source": sp.String(), "consumer": modeName(mode), "buf": buf, "writer_fail_at": failAt,
			"got_len": len(got), "writer_len": k.Len(), "err": fmt.Sprint(err), "src_closes": s.closes, "sink_closes": k.closes}
	}
	if stuck {
		rec.Violation(idx, "tee/no-terminal-event", "TeeReadCloser never returned an error although the source ended", ctx())
		return
	}
	if !bytes.HasPrefix(s.data, got) || !bytes.HasPrefix(s.data, k.Bytes()) {
		rec.Violation(idx, "tee/bytes-altered", "consumer or writer bytes are not a prefix of the source", ctx())
		return
	}
	writerFails := failAt >= 0 && failAt < e
	if !writerFails {
		if len(got) != e || k.Len() != e {
			rec.Violation(idx, "tee/bytes-lost", fmt.Sprintf("source delivered %d bytes, consumer got %d, writer got %d", e, len(got), k.Len()), ctx())
			return
		}
		if !errors.Is(err, term) {
			rec.Violation(idx, "tee/wrong-terminal-error", fmt.Sprintf("expected %v got %v", term, err), ctx())
			return
		}
	} else {
		if err == nil || errors.Is(err, io.EOF) {
			rec.Violation(idx, "tee/writer-error-swallowed", "the writer failed but the stream ended cleanly", ctx())
			return
		}
		if k.Len() != failAt {
			rec.Violation(idx, "tee/writer-bytes", "writer did not receive exactly the bytes up to its failure point", ctx())
			return
		}
		// the consumer was handed exactly the bytes the writer accepted (both are prefixes of the source)
		if len(got) != k.Len() {
			rec.Violation(idx, "tee/consumer-bytes-differ-from-writer-bytes", fmt.Sprintf("the writer failed after accepting %d bytes but the consumer was handed %d bytes", k.Len(), len(got)), ctx())
			return
		}
		rec.Count("tee.writer_failure_checked", 1)
	}
	tr.Close()
	tr.Close()
	if srcClosable && s.closes != 1 {
		rec.Violation(idx, "tee/src-close-count", fmt.Sprintf("source closed %d times", s.closes), ctx())
		return
	}
	if sinkClosable && k.closes != 1 {
		rec.Violation(idx, "tee/sink-close-count", fmt.Sprintf("writer closed %d times", k.closes), ctx())
		return
	}
	rec.Count("tee.ok", 1)
}

// ---------------------------------------------------------------- plan

type group struct {
	kind    string // limit | multi | tee
	N, L    int
	maskLo  uint32
	maskHi  uint32 // exclusive; exhaustive block of masks
	sampled int    // >0: that many seeded masks instead of a block
}

func plan() []group {
	var gs []group
	maxExh := mon.Pick(9, 15) // source lengths enumerated over every composition
	sampledMasks := mon.Pick(48, 4096)
	const block = 1 << 10
	for N := 0; N <= 16; N++ {
		for L := 0; L <= N+3; L++ {
			total := uint32(1)
			if L > 1 {
				total = 1 << uint(L-1)
			}
			if L <= maxExh {
				for lo := uint32(0); lo < total; lo += block {
					hi := lo + block
					if hi > total {
						hi = total
					}
					gs = append(gs, group{kind: "limit", N: N, L: L, maskLo: lo, maskHi: hi})
				}
			} else {
				gs = append(gs, group{kind: "limit", N: N, L: L, sampled: sampledMasks})
			}
		}
	}
	for i := 0; i < mon.Pick(400, 20000); i++ {
		gs = append(gs, group{kind: "multi", N: i})
	}
	for L := 0; L <= mon.Pick(7, 11); L++ {
		gs = append(gs, group{kind: "tee", L: L})
	}
	for i := 0; i < mon.Pick(200, 10000); i++ {
		gs = append(gs, group{kind: "big", N: i})
	}
	return gs
}

func TestCheck(t *testing.T) {
	rec = mon.Open("C16")
	defer rec.Close()
	rec.Note("rule", "LimitReadCloser: every limit N in 0..16 x source length 0..N+3 x every composition of the source into read chunks (all compositions for lengths up to the tier's bound, seeded compositions above; see exhaustive_lengths) x EOF-with-last-data/EOF-alone x zero-length reads (none/before first/between/before EOF) x injected source error at every chunk position (with and without data) x consumer = Read loop with every buffer size 1..N+2, io.ReadAll, io.Copy. MultiReaderCloser: 1-4 scripted sources (closable/plain, one possibly failing) x the same consumers (io.Copy takes WriteTo). TeeReadCloser: every composition x closable/plain source and writer x writer failing at every offset. A case is one (component, parameters, script, consumer) tuple; tuples are enumerated without repetition, so distinct = evaluated; non-trivial = the source has at least one byte or a terminal error other than a bare EOF. Transient source errors (a Read that fails once and succeeds when repeated) for all three components, Close errors of sources and writers (returned by Close, never swallowed, every closable closed once), and the count io.Copy reports compared with the bytes the sink received on every attempt. Larger seeded streams (up to 200 KiB) on top.")
	rec.Note("require", []string{"limit.oversize_rejected", "limit.within_limit", "multi.ok.Read", "sources_whose_close_reports_an_error", "limit.transient.ok", "tee.transient.ok", "multi.transient.ok.Read", "multi.transient.ok.ReadAll", "multi.transient.ok.io.Copy", "multi.ok.io.Copy", "multi.ok.ReadAll", "multi.caller_slice_overwritten_after_construction", "multi.caller_slice_intact_checked", "multi.source_that_copies_another_stream_while_read", "multi.nested_stream_as_last_source", "tee.ok", "tee.writer_failure_checked", "limit.eof_with_n_plus_1th_byte"})
	rec.Note("exhaustive_lengths", fmt.Sprintf("all compositions for source lengths 0..%d at every N (LimitReadCloser), 0..%d (TeeReadCloser)", mon.Pick(9, 15), mon.Pick(7, 11)))
	gs := plan()
	rec.Planned(len(gs))
	for idx, g := range gs {
		if !mon.Mine(idx) {
			continue
		}
		rec.Begin(idx, fmt.Sprintf("%+v", g))
		switch g.kind {
		case "limit":
			runLimitGroup(idx, g)
		case "multi":
			runMultiGroup(idx, g)
		case "tee":
			runTeeGroup(idx, g)
		case "big":
			runBig(idx, g)
		}
	}
}

func runLimitGroup(idx int, g group) {
	var masks []uint32
	if g.sampled > 0 {
		rng := mon.NewRNG("c16-limit", idx)
		seen := map[uint32]bool{}
		total := uint32(1) << uint(g.L-1)
		for len(masks) < g.sampled {
			m := uint32(rng.U64()) % total
			if !seen[m] {
				seen[m] = true
				masks = append(masks, m)
			}
		}
	} else {
		for m := g.maskLo; m < g.maskHi; m++ {
			masks = append(masks, m)
		}
	}
	n := 0
	one := func(sp spec) {
		for buf := 1; buf <= g.N+2; buf++ {
			checkLimit(idx, g.N, sp, modeRead, buf)
			n++
		}
		checkLimit(idx, g.N, sp, modeReadAll, 0)
		checkLimit(idx, g.N, sp, modeCopy, 0)
		n += 2
	}
	for _, m := range masks {
		base := spec{L: g.L, mask: m, errAt: -1}
		k := len(base.chunks())
		for _, eofWith := range []bool{false, true} {
			if eofWith && g.L == 0 {
				continue
			}
			for zero := 0; zero < 4; zero++ {
				sp := base
				sp.eofWith, sp.zero = eofWith, zero
				if eofWith && g.L == g.N+1 && zero == 0 {
					rec.Count("limit.eof_with_n_plus_1th_byte", 1)
				}
				one(sp)
				for k := 1; k <= 3; k++ {
					checkLimitTransient(idx, g.N, sp, 1+(int(m)+k)%(g.N+2), k, (int(m)+k+zero)%2 == 0)
					n++
				}
			}
			if eofWith {
				continue
			}
			for j := 0; j <= k; j++ {
				sp := base
				sp.errAt = j
				one(sp)
				if j < k {
					sp.errData = true
					one(sp)
				}
			}
		}
	}
	rec.Bulk(idx, int64(n), g.L > 0)
	if rec.WantSample() && g.L > 2 {
		rec.Sample(map[string]any{"component": "LimitReadCloser", "N": g.N, "source_len": g.L, "masks": len(masks), "cases": n,
			"example": spec{L: g.L, mask: masks[len(masks)/2], eofWith: true, errAt: -1}.String()})
	}
}

func runMultiGroup(idx int, g group) {
	rng := mon.NewRNG("c16-multi", idx)
	ns := rng.Range(1, 4)
	mc := multiCase{}
	failing := -1
	if rng.Chance(1, 4) {
		failing = rng.Intn(ns)
	}
	for i := 0; i < ns; i++ {
		L := rng.Intn(7)
		sp := spec{L: L, errAt: -1, zero: rng.Intn(4)}
		if L > 1 {
			sp.mask = uint32(rng.Intn(1 << uint(L-1)))
		}
		if L > 0 {
			sp.eofWith = rng.Bool()
		}
		if i == failing {
			sp.eofWith = false
			sp.errAt = rng.Intn(len(sp.chunks()) + 1)
			sp.errData = sp.errAt < len(sp.chunks()) && rng.Bool()
		}
		mc.specs = append(mc.specs, sp)
		mc.closable = append(mc.closable, rng.Chance(3, 4))
	}
	n := 0
	for buf := 1; buf <= 9; buf++ {
		checkMulti(idx, mc, modeRead, buf)
		n++
	}
	checkMulti(idx, mc, modeReadAll, 0)
	checkMulti(idx, mc, modeCopy, 0)
	n += 2
	// the same sources, none failing for good, some reporting a transient error once; resilient consumers
	for _, buf := range []int{1, 2, 3, 8} {
		checkMultiTransient(idx, mc, modeRead, buf, rng)
	}
	checkMultiTransient(idx, mc, modeReadAll, 0, rng)
	checkMultiTransient(idx, mc, modeCopy, 0, rng)
	checkMultiTransient(idx, mc, modeCopy, 1, rng)
	key := fmt.Sprintf("multi %v %v", mc.specs, mc.closable)
	rec.CaseN(idx, key, true, int64(n))
	if rec.WantSample() && idx%7 == 0 {
		rec.Sample(map[string]any{"component": "MultiReaderCloser", "sources": fmt.Sprint(mc.specs), "closable": mc.closable, "consumers": n})
	}
}

func runTeeGroup(idx int, g group) {
	total := uint32(1)
	if g.L > 1 {
		total = 1 << uint(g.L-1)
	}
	n := 0
	for m := uint32(0); m < total; m++ {
		for _, eofWith := range []bool{false, true} {
			if eofWith && g.L == 0 {
				continue
			}
			for zero := 0; zero < 4; zero++ {
				for errAt := -1; errAt <= len(spec{L: g.L, mask: m}.chunks()); errAt++ {
					if errAt >= 0 && (eofWith || zero != 0) {
						continue
					}
					sp := spec{L: g.L, mask: m, eofWith: eofWith, zero: zero, errAt: errAt}
					if errAt < 0 {
						for k := 1; k <= 3; k++ {
							checkTeeTransient(idx, sp, 1+(int(m)+k)%(g.L+2), k, (int(m)+k+zero)%2 == 0)
							n++
						}
					}
					for cl := 0; cl < 4; cl++ {
						for failAt := -1; failAt <= g.L; failAt++ {
							for buf := 1; buf <= g.L+2; buf += 2 {
								checkTee(idx, sp, cl&1 != 0, cl&2 != 0, failAt, modeRead, buf)
								n++
							}
							checkTee(idx, sp, cl&1 != 0, cl&2 != 0, failAt, modeReadAll, 0)
							checkTee(idx, sp, cl&1 != 0, cl&2 != 0, failAt, modeCopy, 0)
							n += 2
						}
					}
				}
			}
		}
	}
	rec.Bulk(idx, int64(n), g.L > 0)
}

// runBig: seeded larger streams through all three wrappers.
func runBig(idx int, g group) {
	rng := mon.NewRNG("c16-big", idx)
	L := rng.PickInt(1000, 4096, 32768, 32769, 65536, 100000, 200000)
	L += rng.Intn(3) - 1
	data := rng.Bytes(L)
	mk := func() *src {
		s := &src{data: data}
		left := L
		for left > 0 {
			c := 1 + rng.Intn(rng.PickInt(16, 4096, 70000))
			if c > left {
				c = left
			}
			left -= c
			if left == 0 && rng.Bool() {
				s.steps = append(s.steps, step{c, io.EOF})
				return s
			}
			s.steps = append(s.steps, step{c, nil})
			if rng.Chance(1, 10) {
				s.steps = append(s.steps, step{0, nil})
			}
		}
		s.steps = append(s.steps, step{0, io.EOF})
		return s
	}
	mode := rng.Intn(3)
	buf := rng.PickInt(1, 7, 512, 4096, 32*1024, 100000)
	if mode == modeRead && buf < 7 && L > 40000 {
		buf = 512
	}
	// limit around L
	N := L + rng.Intn(5) - 2
	s := mk()
	lr := streams.LimitReadCloser(closableSrc{s}, int64(N))
	got, err, _ := consume(lr, mode, buf, 1<<30)
	lr.Close()
	ctx := map[string]any{"component": "big", "L": L, "N": N, "consumer": modeName(mode), "buf": buf, "got_len": len(got), "err": fmt.Sprint(err), "closes": s.closes}
	switch {
	case !bytes.HasPrefix(data, got):
		rec.Violation(idx, "limit/bytes-altered", "big stream: bytes altered", ctx)
	case L <= N && (len(got) != L || !errors.Is(err, io.EOF)):
		rec.Violation(idx, "limit/within-limit/lost-or-extra-bytes", "big stream within the limit not delivered unchanged", ctx)
	case L > N && (len(got) > N || !errors.Is(err, streams.ErrStreamTooLarge)):
		rec.Violation(idx, "limit/over-limit/clean-eof", "big stream over the limit not rejected", ctx)
	case s.closes != 1:
		rec.Violation(idx, "limit/close-count", "big stream: source not closed exactly once", ctx)
	}
	// multi of three + tee
	a, b, c := mk(), mk(), mk()
	k := &sink{failAt: -1}
	tr := streams.NewTeeReadCloser(streams.NewMultiReaderCloser(closableSrc{a}, b, closableSrc{c}), closableSink{k})
	got, err, _ = consume(tr, mode, buf, 1<<30)
	tr.Close()
	want := append(append(append([]byte{}, data...), data...), data...)
	ctx = map[string]any{"component": "big tee(multi)", "L": L, "consumer": modeName(mode), "buf": buf, "got_len": len(got), "err": fmt.Sprint(err), "closes": []int{a.closes, c.closes, k.closes}}
	switch {
	case !bytes.Equal(got, want) || !bytes.Equal(k.Bytes(), want) || !errors.Is(err, io.EOF):
		rec.Violation(idx, "multi/bytes-differ/big", "big stream: tee(multi) bytes differ", ctx)
	case a.closes != 1 || c.closes != 1 || k.closes != 1:
		rec.Violation(idx, "multi/close-count/big", "big stream: sources/writer not closed exactly once", ctx)
	}
	rec.Case(idx, fmt.Sprintf("big %d %d %d %d", L, N, mode, buf), true)
}
