package c03

// Reference implementations that do NOT go through dapr/kit: standard-library
// block cipher / AEAD primitives, golang.org/x/crypto, and in-harness PKCS#7,
// RFC 3394 key wrap and the RFC 7518 section 5.2.2 AES-CBC-HMAC-SHA2
// composition. They are validated against the published vectors (vectors())
// before any kit verdict is derived from them.

import (
	"crypto/aes"
	"crypto/cipher"
	"crypto/hmac"
	"crypto/sha256"
	"crypto/sha512"
	"crypto/subtle"
	"encoding/binary"
	"encoding/hex"
	"hash"
	"strings"

	"golang.org/x/crypto/chacha20poly1305"
)

func clone(b []byte) []byte {
	if b == nil {
		return nil
	}
	c := make([]byte, len(b))
	copy(c, b)
	return c
}

func unhex(s string) []byte {
	b, err := hex.DecodeString(strings.ReplaceAll(s, " ", ""))
	if err != nil {
		panic("harness: bad hex constant: " + err.Error())
	}
	return b
}

// ---- PKCS#7 (RFC 5652 section 6.3), block size 16

func refPad(p []byte) []byte {
	n := 16 - len(p)%16
	out := make([]byte, len(p)+n)
	copy(out, p)
	for i := len(p); i < len(out); i++ {
		out[i] = byte(n)
	}
	return out
}

func refUnpad(p []byte) ([]byte, bool) { return refUnpadN(p, 16) }

// refUnpadN is RFC 5652 section 6.3 read backwards for block size k: the input
// is a positive whole number of blocks, its last byte v satisfies 1 <= v <= k
// and the last v bytes all equal v.
func refUnpadN(p []byte, k int) ([]byte, bool) {
	if len(p) == 0 || len(p)%k != 0 {
		return nil, false
	}
	n := int(p[len(p)-1])
	if n < 1 || n > k {
		return nil, false
	}
	for _, c := range p[len(p)-n:] {
		if int(c) != n {
			return nil, false
		}
	}
	return clone(p[:len(p)-n]), true
}

// ---- AES-CBC (standard library)

func refCBCEnc(key, iv, p []byte) []byte {
	b, err := aes.NewCipher(key)
	if err != nil {
		panic("harness: " + err.Error())
	}
	out := make([]byte, len(p))
	cipher.NewCBCEncrypter(b, iv).CryptBlocks(out, p)
	return out
}

func refCBCDec(key, iv, c []byte) []byte {
	b, err := aes.NewCipher(key)
	if err != nil {
		panic("harness: " + err.Error())
	}
	out := make([]byte, len(c))
	cipher.NewCBCDecrypter(b, iv).CryptBlocks(out, c)
	return out
}

// ---- AEADs from the standard library / x/crypto, detached tag

func refAEAD(fam string, key []byte) cipher.AEAD {
	var a cipher.AEAD
	var err error
	switch fam {
	case famGCM:
		var b cipher.Block
		b, err = aes.NewCipher(key)
		if err == nil {
			a, err = cipher.NewGCM(b)
		}
	case famC20P:
		a, err = chacha20poly1305.New(key)
	case famXC20P:
		a, err = chacha20poly1305.NewX(key)
	default:
		panic("harness: no reference AEAD for " + fam)
	}
	if err != nil {
		panic("harness: " + err.Error())
	}
	return a
}

func refAEADSeal(fam string, key, nonce, p, aad []byte) (ct, tag []byte) {
	out := refAEAD(fam, key).Seal(nil, nonce, p, aad)
	return out[:len(out)-16], out[len(out)-16:]
}

func refAEADOpen(fam string, key, nonce, ct, tag, aad []byte) ([]byte, bool) {
	in := append(clone(ct), tag...)
	p, err := refAEAD(fam, key).Open(nil, nonce, in, aad)
	return p, err == nil
}

// ---- RFC 3394 key wrap, written on 64-bit registers (independent of kit's
// byte-slice formulation)

const kwIV = uint64(0xA6A6A6A6A6A6A6A6)

func refWrap(kek, p []byte) []byte {
	if len(p)%8 != 0 || len(p) < 16 {
		panic("harness: refWrap needs n >= 2 64-bit blocks")
	}
	blk, err := aes.NewCipher(kek)
	if err != nil {
		panic("harness: " + err.Error())
	}
	n := len(p) / 8
	r := make([]uint64, n+1)
	for i := 1; i <= n; i++ {
		r[i] = binary.BigEndian.Uint64(p[(i-1)*8:])
	}
	a := kwIV
	var buf [16]byte
	for j := 0; j <= 5; j++ {
		for i := 1; i <= n; i++ {
			binary.BigEndian.PutUint64(buf[:8], a)
			binary.BigEndian.PutUint64(buf[8:], r[i])
			blk.Encrypt(buf[:], buf[:])
			a = binary.BigEndian.Uint64(buf[:8]) ^ uint64(n*j+i)
			r[i] = binary.BigEndian.Uint64(buf[8:])
		}
	}
	out := make([]byte, 8*(n+1))
	binary.BigEndian.PutUint64(out, a)
	for i := 1; i <= n; i++ {
		binary.BigEndian.PutUint64(out[8*i:], r[i])
	}
	return out
}

// refUnwrap implements RFC 3394 section 2.2.2 with the section 2.2.3.1 check;
// inputs that are not n+1 >= 3 semiblocks are invalid.
func refUnwrap(kek, c []byte) ([]byte, bool) {
	if len(c)%8 != 0 || len(c) < 24 {
		return nil, false
	}
	blk, err := aes.NewCipher(kek)
	if err != nil {
		panic("harness: " + err.Error())
	}
	n := len(c)/8 - 1
	r := make([]uint64, n+1)
	a := binary.BigEndian.Uint64(c)
	for i := 1; i <= n; i++ {
		r[i] = binary.BigEndian.Uint64(c[8*i:])
	}
	var buf [16]byte
	for j := 5; j >= 0; j-- {
		for i := n; i >= 1; i-- {
			binary.BigEndian.PutUint64(buf[:8], a^uint64(n*j+i))
			binary.BigEndian.PutUint64(buf[8:], r[i])
			blk.Decrypt(buf[:], buf[:])
			a = binary.BigEndian.Uint64(buf[:8])
			r[i] = binary.BigEndian.Uint64(buf[8:])
		}
	}
	if a != kwIV {
		return nil, false
	}
	out := make([]byte, 8*n)
	for i := 1; i <= n; i++ {
		binary.BigEndian.PutUint64(out[8*(i-1):], r[i])
	}
	return out, true
}

// ---- AES_CBC_HMAC_SHA2 (RFC 7518 section 5.2.2)

type hsParams struct {
	encLen, macLen, tagLen int
	h                      func() hash.Hash
}

var hsTable = map[string]hsParams{
	"A128CBC-HS256": {16, 16, 16, sha256.New},
	"A192CBC-HS384": {24, 24, 24, sha512.New384},
	"A256CBC-HS512": {32, 32, 32, sha512.New},
	// draft-mcgrew-aead-aes-cbc-hmac-sha2 AEAD_AES_256_CBC_HMAC_SHA_384 (only reachable through aescbcaead directly)
	"A256CBC-HS384": {32, 24, 24, sha512.New384},
}

func refHSTag(pr hsParams, key, iv, e, aad []byte) []byte {
	m := hmac.New(pr.h, key[:pr.macLen])
	m.Write(aad)
	m.Write(iv)
	m.Write(e)
	var al [8]byte
	binary.BigEndian.PutUint64(al[:], uint64(len(aad))*8)
	m.Write(al[:])
	return m.Sum(nil)[:pr.tagLen]
}

func refHSSeal(name string, key, iv, p, aad []byte) (ct, tag []byte) {
	pr := hsTable[name]
	if len(key) != pr.encLen+pr.macLen {
		panic("harness: refHSSeal key size")
	}
	e := refCBCEnc(key[pr.macLen:], iv, refPad(p))
	return e, refHSTag(pr, key, iv, e, aad)
}

func refHSOpen(name string, key, iv, e, tag, aad []byte) ([]byte, bool) {
	pr := hsTable[name]
	if len(key) != pr.encLen+pr.macLen || len(iv) != 16 || len(tag) != pr.tagLen {
		return nil, false
	}
	if subtle.ConstantTimeCompare(tag, refHSTag(pr, key, iv, e, aad)) != 1 {
		return nil, false
	}
	if len(e) == 0 || len(e)%16 != 0 {
		return nil, false
	}
	return refUnpad(refCBCDec(key[pr.macLen:], iv, e))
}

// ---- published vectors

type kwVector struct{ name, kek, data, out string }

// RFC 3394 section 4.
var kwVectors = []kwVector{
	{"RFC3394-4.1", "000102030405060708090A0B0C0D0E0F", "00112233445566778899AABBCCDDEEFF",
		"1FA68B0A8112B447AEF34BD8FB5A7B829D3E862371D2CFE5"},
	{"RFC3394-4.2", "000102030405060708090A0B0C0D0E0F1011121314151617", "00112233445566778899AABBCCDDEEFF",
		"96778B25AE6CA435F92B5B97C050AED2468AB8A17AD84E5D"},
	{"RFC3394-4.3", "000102030405060708090A0B0C0D0E0F101112131415161718191A1B1C1D1E1F", "00112233445566778899AABBCCDDEEFF",
		"64E8C3F9CE0F5BA263E9777905818A2A93C8191E7D6E8AE7"},
	{"RFC3394-4.4", "000102030405060708090A0B0C0D0E0F1011121314151617", "00112233445566778899AABBCCDDEEFF0001020304050607",
		"031D33264E15D33268F24EC260743EDCE1C6C7DDEE725A936BA814915C6762D2"},
	{"RFC3394-4.5", "000102030405060708090A0B0C0D0E0F101112131415161718191A1B1C1D1E1F", "00112233445566778899AABBCCDDEEFF0001020304050607",
		"A8F9BC1612C68B3FF6E6F4FBE30E71E4769C8B80A32CB8958CD5D17D6B254DA1"},
	{"RFC3394-4.6", "000102030405060708090A0B0C0D0E0F101112131415161718191A1B1C1D1E1F", "00112233445566778899AABBCCDDEEFF000102030405060708090A0B0C0D0E0F",
		"28C9F404C4B810F4CBCCB35CFB87F8263F5786E2D80ED326CBC7F0E71A99F43BFB988B9B7A02DD21"},
}

type hsVector struct{ name, alg, key, e, tag string }

// RFC 7518 Appendix B.1-B.3 (K, P, IV and A are shared by the three).
const (
	hsVecP  = "41206369706865722073797374656d206d757374206e6f7420626520726571756972656420746f206265207365637265742c20616e64206974206d7573742062652061626c6520746f2066616c6c20696e746f207468652068616e6473206f662074686520656e656d7920776974686f757420696e636f6e76656e69656e6365"
	hsVecIV = "1af38c2dc2b96ffdd86694092341bc04"
	hsVecA  = "546865207365636f6e64207072696e6369706c65206f662041756775737465204b6572636b686f666673"
)

var hsVectors = []hsVector{
	{"RFC7518-B.1", "A128CBC-HS256",
		"000102030405060708090a0b0c0d0e0f101112131415161718191a1b1c1d1e1f",
		"c80edfa32ddf39d5ef00c0b468834279a2e46a1b8049f792f76bfe54b903a9c9a94ac9b47ad2655c5f10f9aef71427e2fc6f9b3f399a221489f16362c703233609d45ac69864e3321cf82935ac4096c86e133314c54019e8ca7980dfa4b9cf1b384c486f3a54c51078158ee5d79de59fbd34d848b3d69550a67646344427ade54b8851ffb598f7f80074b9473c82e2db",
		"652c3fa36b0a7c5b3219fab3a30bc1c4"},
	{"RFC7518-B.2", "A192CBC-HS384",
		"000102030405060708090a0b0c0d0e0f101112131415161718191a1b1c1d1e1f202122232425262728292a2b2c2d2e2f",
		"ea65da6b59e61edb419be62d19712ae5d303eeb50052d0dfd6697f77224c8edb000d279bdc14c1072654bd30944230c657bed4ca0c9f4a8466f22b226d1746214bf8cfc2400add9f5126e479663fc90b3bed787a2f0ffcbf3904be2a641d5c2105bfe591bae23b1d7449e532eef60a9ac8bb6c6b01d35d49787bcd57ef484927f280adc91ac0c4e79c7b11efc60054e3",
		"8490ac0e58949bfe51875d733f93ac2075168039ccc733d7"},
	{"RFC7518-B.3", "A256CBC-HS512",
		"000102030405060708090a0b0c0d0e0f101112131415161718191a1b1c1d1e1f202122232425262728292a2b2c2d2e2f303132333435363738393a3b3c3d3e3f",
		"4affaaadb78c31c5da4b1b590d10ffbd3dd8d5d302423526912da037ecbcc7bd822c301dd67c373bccb584ad3e9279c2e6d12a1374b77f077553df829410446b36ebd97066296ae6427ea75c2e0846a11a09ccf5370dc80bfecbad28c73f09b3a3b75e662a2594410ae496b2e2e6609e31e6e02cc837f053d21f37ff4f51950bbe2638d09dd7a4930930806d0703b1f6",
		"4dd3b4c088a7f45c216839645b2012bf2e6269a8c56a816dbc1b267761955bc5"},
}
