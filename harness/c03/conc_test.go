package c03

// The algorithm matrix under concurrency. The statement quantifies over all
// inputs and configurations and does not exclude callers on several goroutines;
// every operation of crypto.* is specified as a pure function of its arguments,
// so what it gives when other goroutines run other operations must be what it
// gives alone. Real goroutines (this leg runs in the plain build and in a -race
// build), 2..8 per round, each with its OWN keys (own jwk.Key objects), messages
// and buffers; a round is a sequence of steps, each released by a barrier, and
// in a family step the goroutines run DIFFERENT algorithms of the same family at
// the same time (PS256 || PS384 || PS512, A128GCM || A256GCM, ...). The expected
// results are computed beforehand, alone, by the independent implementations;
// the wrappers of the sequential legs (which keep global state) are not used here.

import (
	"bytes"
	"crypto/aes"
	"crypto/ecdsa"
	"crypto/ed25519"
	"crypto/elliptic"
	"crypto/rand"
	"crypto/rsa"
	"fmt"
	"os"
	"sync"

	kc "github.com/dapr/kit/crypto"
	"github.com/dapr/kit/crypto/aeskw"
	"github.com/lestrrat-go/jwx/v2/jwk"

	"verif/harness/internal/mon"
)

var buildName = func() string {
	if b := os.Getenv("VERIF_BUILD"); b != "" {
		return b
	}
	return "main"
}()

// concTask is one (operation, algorithm) with everything it needs, owned by one goroutine.
type concTask struct {
	op, alg string
	iters   int
	run     func(it int) (fail, detail string) // fail: "" or the signature tail
}

type concWorker struct {
	id    int
	rng   *mon.RNG
	rsa   *rsa.PrivateKey
	jRSA  jwk.Key
	jRSAP jwk.Key
	ec    map[string]*ecdsa.PrivateKey
	jEC   map[string]jwk.Key
	jECP  map[string]jwk.Key
	ed    ed25519.PrivateKey
	jEd   jwk.Key
	jEdP  jwk.Key
}

func newConcWorker(id int, rng *mon.RNG) *concWorker {
	k := keys()
	w := &concWorker{id: id, rng: rng, ec: map[string]*ecdsa.PrivateKey{}, jEC: map[string]jwk.Key{}, jECP: map[string]jwk.Key{}}
	// the two process-wide RSA keys are only read; every goroutine has its own JWK objects over them
	w.rsa = k.rsaPriv
	if id%2 == 1 {
		w.rsa = k.rsaPriv2
	}
	w.jRSA = mustJWK(w.rsa)
	w.jRSAP = mustPub(w.jRSA)
	for name, c := range map[string]elliptic.Curve{"P-256": elliptic.P256(), "P-384": elliptic.P384(), "P-521": elliptic.P521()} {
		key, err := ecdsa.GenerateKey(c, rand.Reader)
		if err != nil {
			rec.Fatalf("ecdsa keygen: %v", err)
		}
		w.ec[name] = key
		w.jEC[name] = mustJWK(key)
		w.jECP[name] = mustPub(w.jEC[name])
	}
	w.ed = ed25519.NewKeyFromSeed(rng.Bytes(32))
	w.jEd = mustJWK(w.ed)
	w.jEdP = mustPub(w.jEd)
	return w
}

func guard(f func() (string, string)) (fail, detail string) {
	defer func() {
		if p := recover(); p != nil {
			fail, detail = "panic", panStr(p)
		}
	}()
	return f()
}

// symTask: EncryptSymmetric == the reference's (solo) output, DecryptSymmetric inverts it.
func (w *concWorker) symTask(a symAlg, iters int) concTask {
	type item struct{ key, nonce, pt, aad, ct, tag []byte }
	items := make([]item, iters)
	for i := range items {
		L := []int{0, 16, 32, 48, 64, 17, 100, 1000}[w.rng.Intn(8)]
		if a.fam == famNOPAD || a.fam == famKW {
			L = 16 * (1 + w.rng.Intn(4))
		}
		it := item{key: w.rng.Bytes(a.keyLen), nonce: nonceFor(w.rng, a), pt: w.rng.Bytes(L)}
		if a.tagLen > 0 {
			it.aad = w.rng.Bytes(w.rng.Intn(20))
		}
		it.ct, it.tag = refEnc(a, it.key, it.nonce, it.pt, it.aad)
		items[i] = it
	}
	return concTask{op: "EncryptSymmetric+DecryptSymmetric", alg: a.name, iters: iters, run: func(i int) (string, string) {
		return guard(func() (string, string) {
			x := items[i]
			jk := octKey(x.key)
			ct, tag, err := kc.EncryptSymmetric(clone(x.pt), a.name, jk, clone(x.nonce), clone(x.aad))
			if err != nil {
				return "valid-input-rejected", "EncryptSymmetric: " + err.Error()
			}
			if !bytes.Equal(ct, x.ct) || !bytes.Equal(tag, x.tag) {
				return "result-differs-from-solo", fmt.Sprintf("EncryptSymmetric gave %s/%s, alone (reference) %s/%s", hx(ct), hx(tag), hx(x.ct), hx(x.tag))
			}
			pt, err := kc.DecryptSymmetric(clone(x.ct), a.name, jk, clone(x.nonce), clone(x.tag), clone(x.aad))
			if err != nil {
				return "valid-input-rejected", "DecryptSymmetric: " + err.Error()
			}
			if !bytes.Equal(pt, x.pt) {
				return "result-differs-from-solo", fmt.Sprintf("DecryptSymmetric gave %s, plaintext %s", hx(pt), hx(x.pt))
			}
			return "", ""
		})
	}}
}

func (w *concWorker) kwTask(iters int) concTask {
	type item struct{ kek, cek, wrapped []byte }
	items := make([]item, iters)
	for i := range items {
		it := item{kek: w.rng.Bytes([]int{16, 24, 32}[w.rng.Intn(3)]), cek: w.rng.Bytes(8 * (2 + w.rng.Intn(4)))}
		it.wrapped = refWrap(it.kek, it.cek)
		items[i] = it
	}
	return concTask{op: "aeskw.Wrap+Unwrap", alg: "RFC3394", iters: iters, run: func(i int) (string, string) {
		return guard(func() (string, string) {
			x := items[i]
			blk, _ := aes.NewCipher(x.kek)
			wr, err := aeskw.Wrap(blk, clone(x.cek))
			if err != nil {
				return "valid-input-rejected", "Wrap: " + err.Error()
			}
			if !bytes.Equal(wr, x.wrapped) {
				return "result-differs-from-solo", "Wrap differs from the reference"
			}
			un, err := aeskw.Unwrap(blk, clone(x.wrapped))
			if err != nil {
				return "valid-input-rejected", "Unwrap: " + err.Error()
			}
			if !bytes.Equal(un, x.cek) {
				return "result-differs-from-solo", "Unwrap(Wrap(k)) != k"
			}
			return "", ""
		})
	}}
}

func (w *concWorker) rsaEncTask(a rsaAlg, iters int) concTask {
	type item struct{ pt, label []byte }
	items := make([]item, iters)
	for i := range items {
		items[i] = item{pt: w.rng.Bytes(w.rng.Intn(a.maxLen(w.rsa.Size()) + 1)), label: w.rng.Bytes(w.rng.Intn(8))}
	}
	return concTask{op: "EncryptPublicKey+DecryptPrivateKey", alg: a.name, iters: iters, run: func(i int) (string, string) {
		return guard(func() (string, string) {
			x := items[i]
			ct, err := kc.EncryptPublicKey(clone(x.pt), a.name, w.jRSAP, clone(x.label))
			if err != nil {
				return "valid-input-rejected", "EncryptPublicKey: " + err.Error()
			}
			if p, err := stdRSADec(a, w.rsa, ct, x.label); err != nil || !bytes.Equal(p, x.pt) {
				return "result-differs-from-solo", fmt.Sprintf("crypto/rsa does not decrypt the ciphertext to the plaintext (err=%v)", err)
			}
			pt, err := kc.DecryptPrivateKey(ct, a.name, w.jRSA, clone(x.label))
			if err != nil {
				return "valid-input-rejected", "DecryptPrivateKey: " + err.Error()
			}
			if !bytes.Equal(pt, x.pt) {
				return "result-differs-from-solo", "DecryptPrivateKey(EncryptPublicKey(p)) != p"
			}
			return "", ""
		})
	}}
}

func (w *concWorker) sigTask(a sigAlg, iters int) concTask {
	type item struct{ digest, solo []byte }
	items := make([]item, iters)
	var priv, pub jwk.Key
	switch a.kind {
	case "rsa15", "pss":
		priv, pub = w.jRSA, w.jRSAP
	case "ecdsa":
		priv, pub = w.jEC[a.curve], w.jECP[a.curve]
	default:
		priv, pub = w.jEd, w.jEdP
	}
	for i := range items {
		var it item
		switch a.kind {
		case "eddsa":
			it.digest = w.rng.Bytes(w.rng.Intn(100))
			it.solo = ed25519.Sign(w.ed, it.digest)
		default:
			it.digest = w.rng.Bytes(a.hash.Size())
			if a.kind == "rsa15" {
				it.solo, _ = rsa.SignPKCS1v15(nil, w.rsa, a.hash, it.digest)
			}
		}
		items[i] = it
	}
	stdVerify := func(digest, sig []byte) bool {
		switch a.kind {
		case "rsa15":
			return rsa.VerifyPKCS1v15(&w.rsa.PublicKey, a.hash, digest, sig) == nil
		case "pss":
			return rsa.VerifyPSS(&w.rsa.PublicKey, a.hash, digest, sig, &rsa.PSSOptions{SaltLength: rsa.PSSSaltLengthAuto, Hash: a.hash}) == nil
		case "ecdsa":
			return ecdsa.VerifyASN1(&w.ec[a.curve].PublicKey, digest, sig)
		}
		return ed25519.Verify(w.ed.Public().(ed25519.PublicKey), digest, sig)
	}
	return concTask{op: "SignPrivateKey+VerifyPublicKey", alg: a.name, iters: iters, run: func(i int) (string, string) {
		return guard(func() (string, string) {
			x := items[i]
			sig, err := kc.SignPrivateKey(clone(x.digest), a.name, priv)
			if err != nil {
				return "valid-input-rejected", "SignPrivateKey: " + err.Error()
			}
			if x.solo != nil && !bytes.Equal(sig, x.solo) {
				return "result-differs-from-solo", "deterministic signature differs from the standard library's"
			}
			if !stdVerify(x.digest, sig) {
				return "result-differs-from-solo", "the standard library does not verify the signature"
			}
			ok, err := kc.VerifyPublicKey(clone(x.digest), sig, a.name, pub)
			if err != nil {
				return "valid-input-rejected", "VerifyPublicKey: " + err.Error()
			}
			if !ok {
				return "result-differs-from-solo", "VerifyPublicKey returned false for the signature just made"
			}
			return "", ""
		})
	}}
}

// concFamilies: algorithms that share code inside kit; a family step makes the goroutines run different members at once.
func concFamilies() [][]string {
	return [][]string{
		{"PS256", "PS384", "PS512"}, {"PS512", "PS256", "PS384"},
		{"RS256", "RS384", "RS512"}, {"ES256", "ES384", "ES512"},
		{"EdDSA", "ES256", "PS256", "RS512"},
		{"A128GCM", "A192GCM", "A256GCM"}, {"A128CBC", "A192CBC", "A256CBC"},
		{"A128CBC-NOPAD", "A192CBC-NOPAD", "A256CBC-NOPAD"},
		{"A128CBC-HS256", "A192CBC-HS384", "A256CBC-HS512"},
		{"A128KW", "A192KW", "A256KW", "aeskw"},
		{"C20P", "XC20P", "C20PKW", "XC20PKW"},
		{"RSA-OAEP", "RSA-OAEP-256", "RSA-OAEP-384", "RSA-OAEP-512", "RSA1_5"},
		{"A128GCM", "A128CBC-HS256", "C20P", "A256GCM", "A256CBC-HS512", "XC20P"}, // the AEAD helpers
	}
}

func (w *concWorker) task(name string, supported map[string]bool) (concTask, bool) {
	if name == "aeskw" {
		return w.kwTask(16), true
	}
	if !supported[name] {
		return concTask{}, false
	}
	if a, ok := symTable[name]; ok {
		return w.symTask(a, 24), true
	}
	if a, ok := rsaTable[name]; ok {
		return w.rsaEncTask(a, 3), true
	}
	if a, ok := sigTable[name]; ok {
		n := 4
		if a.kind == "pss" {
			n = 10
		}
		return w.sigTask(a, n), true
	}
	return concTask{}, false
}

func runConcurrent(j *judge, g group) {
	rng := mon.NewRNG("c03-concurrent", j.idx)
	supported := map[string]bool{}
	var all []string
	for _, l := range [][]string{kc.SupportedSymmetricAlgorithms(), kc.SupportedAsymmetricAlgorithms(), kc.SupportedSignatureAlgorithms()} {
		for _, a := range l {
			supported[a] = true
			all = append(all, a)
		}
	}
	ng := 2 + g.rep%7 // 2..8 goroutines
	workers := make([]*concWorker, ng)
	for i := range workers {
		workers[i] = newConcWorker(i, mon.NewRNG(fmt.Sprintf("c03-concurrent-w%d", i), j.idx))
		rec.Progress()
	}
	// the plan: family steps (goroutine i takes member (i+shift) of the family) and mixed steps (a seeded slice of the whole matrix per goroutine)
	type step struct {
		name  string
		tasks []concTask // one per goroutine
	}
	var steps []step
	add := func(name string, pick func(i int) string) {
		st := step{name: name}
		for i, w := range workers {
			t, ok := w.task(pick(i), supported)
			if !ok {
				t, _ = w.task("A128GCM", supported)
			}
			st.tasks = append(st.tasks, t)
		}
		steps = append(steps, st)
	}
	for fi, fam := range concFamilies() {
		shift := rng.Intn(len(fam))
		add(fmt.Sprintf("family-%d", fi), func(i int) string { return fam[(i+shift)%len(fam)] })
	}
	for m := 0; m < mon.Pick(4, 12); m++ {
		picks := make([]string, ng)
		for i := range picks {
			picks[i] = all[rng.Intn(len(all))]
		}
		add(fmt.Sprintf("mixed-%d", m), func(i int) string { return picks[i] })
	}
	rec.Progress()

	// run: one barrier per step
	var (
		mu       sync.Mutex
		ops      = make([]int64, ng)
		overlaps int64
	)
	for _, st := range steps {
		start := make(chan struct{})
		var wg sync.WaitGroup
		distinctAlgs := map[string]bool{}
		for _, t := range st.tasks {
			distinctAlgs[t.alg] = true
		}
		for i := range workers {
			wg.Add(1)
			go func(i int, t concTask) {
				defer wg.Done()
				<-start
				for it := 0; it < t.iters; it++ {
					fail, detail := t.run(it)
					ops[i]++
					if fail != "" {
						var others []string
						for k, o := range st.tasks {
							if k != i {
								others = append(others, o.op+"("+o.alg+")")
							}
						}
						mu.Lock()
						rec.Violation(j.idx, sigOf("concurrent", t.op, t.alg, fail),
							fmt.Sprintf("%s(%s) on a goroutine of its own (own key, message and buffers) while %d other goroutines ran %v: %s - alone the same call gives the expected result", t.op, t.alg, len(others), others, detail),
							map[string]any{"step": st.name, "goroutine": i, "goroutines": len(workers), "iteration": it, "operation": t.op, "algorithm": t.alg, "detail": detail, "running_at_the_same_time": others, "build": buildName})
						mu.Unlock()
					}
				}
			}(i, st.tasks[i])
		}
		close(start)
		wg.Wait()
		rec.Progress()
		if len(distinctAlgs) > 1 {
			overlaps++
		}
	}
	var total int64
	for _, n := range ops {
		total += n
	}
	j.n += total
	rec.Count("concurrent.operations."+buildName, int(total))
	rec.Count("concurrent.operations", int(total))
	rec.Count("concurrent.steps_with_different_algorithms_at_once", int(overlaps))
	rec.Count(fmt.Sprintf("concurrent.rounds_with_%d_goroutines", ng), 1)
}
