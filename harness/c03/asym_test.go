package c03

import (
	"bytes"
	"crypto"
	"crypto/ecdsa"
	"crypto/ed25519"
	"crypto/rand"
	"crypto/rsa"
	_ "crypto/sha1"
	_ "crypto/sha256"
	_ "crypto/sha512"
	"errors"
	"fmt"
	"strings"

	kc "github.com/dapr/kit/crypto"
	"github.com/lestrrat-go/jwx/v2/jwk"

	"verif/harness/internal/mon"
)

// ------------------------------------------------------------ kit call wrappers

type pubEncRes struct {
	ct  []byte
	err error
	pan string
}

func kEncPub1(alg string, key jwk.Key, pt, label []byte) (r pubEncRes) {
	k2, kb := privKey(key)
	p, l := clone(pt), clone(label)
	call := func() (r pubEncRes) {
		defer func() {
			if x := recover(); x != nil {
				r = pubEncRes{pan: panStr(x)}
			}
		}()
		r.ct, r.err = kc.EncryptPublicKey(p, alg, k2, l)
		return r
	}
	rp := rpm("algorithm", alg, "plaintext", pt, "label", label)
	r = call()
	// randomised: both calls must succeed or fail alike; the judges decrypt the first or the last output, alternately
	last := repeatCheck("EncryptPublicKey", alg, rp, r, call, func(x, y pubEncRes) string {
		return diffRes(x.pan, y.pan, x.err, y.err, []string{"ciphertext length"}, [][]byte{{byte(len(x.ct) >> 8), byte(len(x.ct))}}, [][]byte{{byte(len(y.ct) >> 8), byte(len(y.ct))}})
	})
	if repeatFlip = !repeatFlip; repeatFlip {
		r = last
	}
	if r.pan != "" {
		return r
	}
	settle("EncryptPublicKey", alg, rp, [][]byte{p, l, kb}, []string{"ciphertext"}, &r.ct)
	return r
}

func kDecPriv1(alg string, key jwk.Key, ct, label []byte) (r decRes) {
	k2, kb := privKey(key)
	c, l := clone(ct), clone(label)
	call := func() (r decRes) {
		defer func() {
			if x := recover(); x != nil {
				r = decRes{pan: panStr(x)}
			}
		}()
		r.pt, r.err = kc.DecryptPrivateKey(c, alg, k2, l)
		return r
	}
	rp := rpm("algorithm", alg, "ciphertext", ct, "label", label)
	r = call()
	repeatCheck("DecryptPrivateKey", alg, rp, r, call, diffDec)
	if r.pan != "" {
		return r
	}
	settle("DecryptPrivateKey", alg, rp, [][]byte{c, l, kb}, []string{"plaintext"}, &r.pt)
	return r
}

type signRes struct {
	sig []byte
	err error
	pan string
}

func kSign1(alg string, key jwk.Key, digest []byte) (r signRes) {
	k2, kb := privKey(key)
	d := clone(digest)
	call := func() (r signRes) {
		defer func() {
			if x := recover(); x != nil {
				r = signRes{pan: panStr(x)}
			}
		}()
		r.sig, r.err = kc.SignPrivateKey(d, alg, k2)
		return r
	}
	rp := rpm("algorithm", alg, "digest", digest)
	deterministic := strings.HasPrefix(alg, "RS") || alg == "EdDSA"
	r = call()
	last := repeatCheck("SignPrivateKey", alg, rp, r, call, func(x, y signRes) string {
		if deterministic {
			return diffRes(x.pan, y.pan, x.err, y.err, []string{"signature"}, [][]byte{x.sig}, [][]byte{y.sig})
		}
		return diffRes(x.pan, y.pan, x.err, y.err, nil, nil, nil)
	})
	if repeatFlip = !repeatFlip; repeatFlip {
		r = last
	}
	if r.pan != "" {
		return r
	}
	settle("SignPrivateKey", alg, rp, [][]byte{d, kb}, []string{"signature"}, &r.sig)
	return r
}

type verifyRes struct {
	ok  bool
	err error
	pan string
}

func kVerify(alg string, key jwk.Key, digest, sig []byte) (r verifyRes) {
	k2, kb := privKey(key)
	d, s := clone(digest), clone(sig)
	call := func() (r verifyRes) {
		defer func() {
			if x := recover(); x != nil {
				r = verifyRes{pan: panStr(x)}
			}
		}()
		r.ok, r.err = kc.VerifyPublicKey(d, s, alg, k2)
		return r
	}
	r = call()
	repeatCheck("VerifyPublicKey", alg, rpm("algorithm", alg, "digest", digest, "signature", sig, "key", key), r, call, func(x, y verifyRes) string {
		if x.ok != y.ok {
			return fmt.Sprintf("first verdict %v, repeated verdict %v", x.ok, y.ok)
		}
		return diffRes(x.pan, y.pan, x.err, y.err, nil, nil, nil)
	})
	if r.pan != "" {
		return r
	}
	settle("VerifyPublicKey", alg, nil, [][]byte{d, s, kb}, nil)
	return r
}

func kEncPub(alg string, key jwk.Key, pt, label []byte) pubEncRes {
	r := kEncPub1(alg, key, pt, label)
	if hasOut(r.pan, r.ct) {
		inTwin = true
		r2 := kEncPub1(alg, key, pt, label)
		inTwin = false
		twinCheck("EncryptPublicKey", alg, rpm("algorithm", alg, "plaintext", pt, "label", label), []string{"ciphertext"}, [][]byte{r.ct}, [][]byte{r2.ct})
	}
	return r
}

func kDecPriv(alg string, key jwk.Key, ct, label []byte) decRes {
	r := kDecPriv1(alg, key, ct, label)
	if hasOut(r.pan, r.pt) {
		inTwin = true
		r2 := kDecPriv1(alg, key, ct, label)
		inTwin = false
		twinCheck("DecryptPrivateKey", alg, rpm("algorithm", alg, "ciphertext", ct, "label", label), []string{"plaintext"}, [][]byte{r.pt}, [][]byte{r2.pt})
	}
	return r
}

func kSign(alg string, key jwk.Key, digest []byte) signRes {
	r := kSign1(alg, key, digest)
	if hasOut(r.pan, r.sig) {
		inTwin = true
		r2 := kSign1(alg, key, digest)
		inTwin = false
		twinCheck("SignPrivateKey", alg, rpm("algorithm", alg, "digest", digest), []string{"signature"}, [][]byte{r.sig}, [][]byte{r2.sig})
	}
	return r
}

// ------------------------------------------------------------ RSA encryption

type rsaAlg struct {
	name string
	oaep bool
	hash crypto.Hash
}

var rsaTable = map[string]rsaAlg{
	"RSA1_5":       {"RSA1_5", false, 0},
	"RSA-OAEP":     {"RSA-OAEP", true, crypto.SHA1},
	"RSA-OAEP-256": {"RSA-OAEP-256", true, crypto.SHA256},
	"RSA-OAEP-384": {"RSA-OAEP-384", true, crypto.SHA384},
	"RSA-OAEP-512": {"RSA-OAEP-512", true, crypto.SHA512},
}

func rsaInfo(j *judge, name string) (rsaAlg, bool) {
	a, ok := rsaTable[name]
	if !ok {
		rec.Inconclusive(j.idx, "harness has no independent description of supported asymmetric algorithm "+name, nil)
	}
	return a, ok
}

func (a rsaAlg) maxLen(k int) int {
	if a.oaep {
		return k - 2*a.hash.Size() - 2
	}
	return k - 11
}

func stdRSAEnc(a rsaAlg, pub *rsa.PublicKey, pt, label []byte) ([]byte, error) {
	if a.oaep {
		return rsa.EncryptOAEP(a.hash.New(), rand.Reader, pub, pt, label)
	}
	return rsa.EncryptPKCS1v15(rand.Reader, pub, pt)
}

func stdRSADec(a rsaAlg, priv *rsa.PrivateKey, ct, label []byte) ([]byte, error) {
	if a.oaep {
		return rsa.DecryptOAEP(a.hash.New(), nil, priv, ct, label)
	}
	return rsa.DecryptPKCS1v15(nil, priv, ct)
}

func runRSARoundTrip(j *judge, g group) {
	a, ok := rsaInfo(j, g.alg)
	if !ok {
		return
	}
	k := keys()
	rng := mon.NewRNG("c03-rsa-roundtrip", j.idx)
	size := k.rsaPriv.Size()
	mx := a.maxLen(size)
	lens := []int{0, 1, 16, 32, mx - 1, mx}
	if mon.Thorough() {
		lens = []int{0, 1, 2, 15, 16, 17, 32, 48, 64, mx / 2, mx - 2, mx - 1, mx}
	}
	for li, L := range lens {
		rec.Progress()
		pt := rng.Bytes(L)
		var label []byte
		if li%2 == 1 {
			label = rng.Bytes(9)
		}
		rp := rpm("algorithm", a.name, "plaintext", pt, "label", label, "rsa_private_jwk", k.jRSAPriv)
		for _, ek := range []namedKey{{"public-jwk", k.jRSAPub}, {"private-jwk", k.jRSAPriv}} {
			e := kEncPub(a.name, ek.key, pt, label)
			if !j.accept("EncryptPublicKey", a.name, "encrypt-with-"+ek.name, e.err, e.pan, rp) {
				continue
			}
			d := kDecPriv(a.name, k.jRSAPriv, e.ct, label)
			if j.accept("DecryptPrivateKey", a.name, "own-output", d.err, d.pan, rp) {
				if !bytes.Equal(d.pt, pt) {
					j.viol(sigOf("DecryptPrivateKey", a.name, "roundtrip-plaintext-differs"), "Decrypt(Encrypt(p)) != p", rp)
				} else {
					rec.Count("rsa.roundtrip.ok", 1)
				}
			}
			j.n++
			if p, err := stdRSADec(a, k.rsaPriv, e.ct, label); err != nil || !bytes.Equal(p, pt) {
				j.viol(sigOf("EncryptPublicKey", a.name, "interop-crypto/rsa-cannot-decrypt-kit-output"), fmt.Sprintf("crypto/rsa does not decrypt kit's ciphertext to the plaintext (err=%v)", err), rpm("algorithm", a.name, "plaintext", pt, "label", label, "ciphertext", e.ct, "rsa_private_jwk", k.jRSAPriv))
			} else {
				rec.Count("rsa.interop.std_decrypts_kit", 1)
			}
		}
		sct, err := stdRSAEnc(a, &k.rsaPriv.PublicKey, pt, label)
		if err != nil {
			rec.Fatalf("crypto/rsa encrypt (%s, %d bytes): %v", a.name, L, err)
		}
		d := kDecPriv(a.name, k.jRSAPriv, sct, label)
		rps := rpm("algorithm", a.name, "plaintext", pt, "label", label, "std_ciphertext", sct, "rsa_private_jwk", k.jRSAPriv, "kit_plaintext", d.pt, "kit_err", d.err)
		if j.accept("DecryptPrivateKey", a.name, "crypto/rsa-output", d.err, d.pan, rps) {
			if !bytes.Equal(d.pt, pt) {
				j.viol(sigOf("DecryptPrivateKey", a.name, "interop-crypto/rsa-output-decrypts-differently"), "kit decrypts crypto/rsa's ciphertext to a different plaintext", rps)
			} else {
				rec.Count("rsa.interop.kit_decrypts_std", 1)
			}
		}
		// generic dispatcher
		ge := kEnc("Encrypt", a.name, k.jRSAPub, nil, pt, label)
		if j.accept("Encrypt", a.name, "encrypt", ge.err, ge.pan, rp) {
			if len(ge.tag) != 0 {
				j.viol(sigOf("Encrypt", a.name, "unexpected-tag"), "the dispatcher returned a tag for an RSA algorithm", rp)
			}
			gd := kDec("Decrypt", a.name, k.jRSAPriv, nil, ge.ct, nil, label)
			if j.accept("Decrypt", a.name, "own-output", gd.err, gd.pan, rp) {
				if !bytes.Equal(gd.pt, pt) {
					j.viol(sigOf("Decrypt", a.name, "roundtrip-plaintext-differs"), "crypto.Decrypt(crypto.Encrypt(p)) != p", rp)
				} else {
					rec.Count("rsa.roundtrip.dispatcher.ok", 1)
				}
			}
		}
		// OAEP: the label is bound to the ciphertext; PKCS#1 v1.5 has no label (ignored)
		if a.oaep {
			other := append(clone(label), 0x01)
			d := kDecPriv(a.name, k.jRSAPriv, sct, other)
			if j.reject("DecryptPrivateKey", a.name, "label-differs", [][]byte{d.pt}, d.err, d.pan, nil, rps) {
				rec.Count("rsa.tamper.rejected", 1)
			}
		}
	}
	// plaintext too long for the key: an error, no output (crypto/rsa's own error; consts.go has no sentinel for exactly this)
	for _, L := range []int{mx + 1, mx + 2, size - 1, size, size + 1, 2 * size} {
		pt := rng.Bytes(L)
		e := kEncPub(a.name, k.jRSAPub, pt, nil)
		if j.reject("EncryptPublicKey", a.name, "plaintext-too-long", [][]byte{e.ct}, e.err, e.pan, nil, rpm("algorithm", a.name, "plaintext_len", L, "max", mx)) {
			rec.Count("rsa.too_long_rejected", 1)
		}
	}
}

func runRSATamper(j *judge, g group) {
	a, ok := rsaInfo(j, g.alg)
	if !ok {
		return
	}
	k := keys()
	rng := mon.NewRNG("c03-rsa-tamper", j.idx)
	pt := rng.Bytes(24)
	label := rng.Bytes(6)
	e := kEncPub(a.name, k.jRSAPub, pt, label)
	if !j.accept("EncryptPublicKey", a.name, "encrypt", e.err, e.pan, rpm("algorithm", a.name, "plaintext", pt, "label", label)) {
		return
	}
	try := func(ct, lb []byte, shape, detail string) {
		rec.Progress()
		d := kDecPriv(a.name, k.jRSAPriv, ct, lb)
		rp := rpm("algorithm", a.name, "plaintext", pt, "valid_ciphertext", e.ct, "valid_label", label, "mutation", detail, "ciphertext", ct, "label", lb,
			"rsa_private_jwk", k.jRSAPriv, "kit_plaintext", d.pt, "kit_err", d.err)
		if a.oaep {
			if j.reject("DecryptPrivateKey", a.name, shape, [][]byte{d.pt}, d.err, d.pan, nil, rp) {
				rec.Count("rsa.tamper.rejected", 1)
			}
			return
		}
		// RSAES-PKCS1-v1_5 is not an authenticated/plaintext-aware encoding: a modified ciphertext unpads successfully with probability ~2^-16; only "no panic"
		if j.noPanic("DecryptPrivateKey", a.name, shape, d.pan, rp) {
			if d.err == nil {
				rec.Count("observed.rsa1_5.tamper.undetected", 1)
			} else {
				rec.Count("observed.rsa1_5.tamper.error", 1)
			}
		}
	}
	for i := range e.ct {
		for _, bit := range bitsFor(i, g.rep) {
			try(flip(e.ct, i, bit), label, "ciphertext-bit-flip", fmt.Sprintf("ciphertext byte %d bit %d", i, bit))
		}
	}
	for kk := 1; kk <= 8; kk++ {
		try(clone(e.ct[:len(e.ct)-kk]), label, "ciphertext-truncated", fmt.Sprintf("ciphertext shortened by %d", kk))
		try(append(clone(e.ct), rng.Bytes(kk)...), label, "ciphertext-extended", fmt.Sprintf("ciphertext extended by %d", kk))
	}
	if a.oaep {
		for i := range label {
			for _, bit := range bitsFor(i, g.rep) {
				try(e.ct, flip(label, i, bit), "label-bit-flip", fmt.Sprintf("label byte %d bit %d", i, bit))
			}
		}
		for kk := 1; kk <= 8; kk++ {
			if len(label) >= kk {
				try(e.ct, clone(label[:len(label)-kk]), "label-truncated", fmt.Sprintf("label shortened by %d", kk))
			}
			try(e.ct, append(clone(label), rng.Bytes(kk)...), "label-extended", fmt.Sprintf("label extended by %d", kk))
		}
	} else {
		d := kDecPriv(a.name, k.jRSAPriv, e.ct, append(clone(label), 1))
		if j.noPanic("DecryptPrivateKey", a.name, "label-differs", d.pan, nil) && d.err == nil && bytes.Equal(d.pt, pt) {
			rec.Count("observed.rsa1_5.label_ignored", 1)
		}
	}
	// a ciphertext for another key
	d := kDecPriv(a.name, k.jRSAPriv2, e.ct, label)
	rp := rpm("algorithm", a.name, "ciphertext", e.ct, "label", label, "note", "decrypted with a different RSA key", "rsa_private_jwk", k.jRSAPriv2)
	if a.oaep {
		if j.reject("DecryptPrivateKey", a.name, "other-key", [][]byte{d.pt}, d.err, d.pan, nil, rp) {
			rec.Count("rsa.tamper.rejected", 1)
		}
	} else {
		j.noPanic("DecryptPrivateKey", a.name, "other-key", d.pan, rp)
	}
}

func runRSAKeys(j *judge, g group) {
	a, ok := rsaInfo(j, g.alg)
	if !ok {
		return
	}
	k := keys()
	rng := mon.NewRNG("c03-rsa-keys", j.idx)
	pt := rng.Bytes(16)
	ct := rng.Bytes(k.rsaPriv.Size())
	ct[0] = 0 // below the modulus
	mismatch := []error{kc.ErrKeyTypeMismatch}
	wrong := []namedKey{
		{"ec-private", k.jEC["P-256"]}, {"ec-public", k.jECPub["P-256"]},
		{"okp-ed25519-private", k.jEdPriv}, {"okp-ed25519-public", k.jEdPub},
		{"okp-x25519-private", k.jXPriv}, {"okp-x25519-public", k.jXPub},
		{"oct-16", k.jOct16}, {"oct-32", k.jOct32},
	}
	for _, wk := range wrong {
		rp := rpm("algorithm", a.name, "key", wk.key, "plaintext", pt)
		e := kEncPub(a.name, wk.key, pt, nil)
		if j.reject("EncryptPublicKey", a.name, "key-kind-"+wk.name, [][]byte{e.ct}, e.err, e.pan, mismatch, rp) {
			rec.Count("keys.wrong_rejected", 1)
		}
		d := kDecPriv(a.name, wk.key, ct, nil)
		if j.reject("DecryptPrivateKey", a.name, "key-kind-"+wk.name, [][]byte{d.pt}, d.err, d.pan, mismatch, rp) {
			rec.Count("keys.wrong_rejected", 1)
		}
		ge := kEnc("Encrypt", a.name, wk.key, nil, pt, nil)
		if j.reject("Encrypt", a.name, "key-kind-"+wk.name, [][]byte{ge.ct, ge.tag}, ge.err, ge.pan, mismatch, rp) {
			rec.Count("keys.wrong_rejected", 1)
		}
		gd := kDec("Decrypt", a.name, wk.key, nil, ct, nil, nil)
		if j.reject("Decrypt", a.name, "key-kind-"+wk.name, [][]byte{gd.pt}, gd.err, gd.pan, mismatch, rp) {
			rec.Count("keys.wrong_rejected", 1)
		}
	}
	// a public key cannot decrypt
	d := kDecPriv(a.name, k.jRSAPub, ct, nil)
	if j.reject("DecryptPrivateKey", a.name, "key-kind-rsa-public", [][]byte{d.pt}, d.err, d.pan, mismatch, rpm("algorithm", a.name, "key", k.jRSAPub)) {
		rec.Count("keys.wrong_rejected", 1)
	}
}

// ------------------------------------------------------------ signatures

type sigAlg struct {
	name, kind string // kind: rsa15 | pss | ecdsa | eddsa
	hash       crypto.Hash
	curve      string
}

var sigTable = map[string]sigAlg{
	"RS256": {"RS256", "rsa15", crypto.SHA256, ""},
	"RS384": {"RS384", "rsa15", crypto.SHA384, ""},
	"RS512": {"RS512", "rsa15", crypto.SHA512, ""},
	"PS256": {"PS256", "pss", crypto.SHA256, ""},
	"PS384": {"PS384", "pss", crypto.SHA384, ""},
	"PS512": {"PS512", "pss", crypto.SHA512, ""},
	"ES256": {"ES256", "ecdsa", crypto.SHA256, "P-256"},
	"ES384": {"ES384", "ecdsa", crypto.SHA384, "P-384"},
	"ES512": {"ES512", "ecdsa", crypto.SHA512, "P-521"},
	"EdDSA": {"EdDSA", "eddsa", 0, ""},
}

func sigInfo(j *judge, name string) (sigAlg, bool) {
	a, ok := sigTable[name]
	if !ok {
		rec.Inconclusive(j.idx, "harness has no independent description of supported signature algorithm "+name, nil)
	}
	return a, ok
}

// sigKeys returns the matching private/public JWKs, and the public JWK of a
// second key of the same kind.
func (a sigAlg) sigKeys() (priv, pub, otherPub jwk.Key) {
	k := keys()
	switch a.kind {
	case "rsa15", "pss":
		return k.jRSAPriv, k.jRSAPub, k.jRSAPub2
	case "ecdsa":
		return k.jEC[a.curve], k.jECPub[a.curve], k.jEC2Pub[a.curve]
	}
	return k.jEdPriv, k.jEdPub, k.jEd2Pub
}

func (a sigAlg) stdSign(digest []byte, variant int) ([]byte, string) {
	k := keys()
	var s []byte
	var err error
	what := ""
	switch a.kind {
	case "rsa15":
		what = "crypto/rsa SignPKCS1v15"
		s, err = rsa.SignPKCS1v15(nil, k.rsaPriv, a.hash, digest)
	case "pss":
		if variant == 0 {
			what = "crypto/rsa SignPSS salt=hash length (RFC 7518 3.5)"
			s, err = rsa.SignPSS(rand.Reader, k.rsaPriv, a.hash, digest, &rsa.PSSOptions{SaltLength: rsa.PSSSaltLengthEqualsHash})
		} else {
			what = "crypto/rsa SignPSS salt=maximum"
			s, err = rsa.SignPSS(rand.Reader, k.rsaPriv, a.hash, digest, &rsa.PSSOptions{SaltLength: rsa.PSSSaltLengthAuto})
		}
	case "ecdsa":
		what = "crypto/ecdsa SignASN1"
		s, err = ecdsa.SignASN1(rand.Reader, k.ec[a.curve], digest)
	case "eddsa":
		what = "crypto/ed25519 Sign"
		s = ed25519.Sign(k.edPriv, digest)
	}
	if err != nil {
		rec.Fatalf("%s: %v", what, err)
	}
	return s, what
}

func (a sigAlg) stdVerify(digest, sig []byte) bool {
	k := keys()
	switch a.kind {
	case "rsa15":
		return rsa.VerifyPKCS1v15(&k.rsaPriv.PublicKey, a.hash, digest, sig) == nil
	case "pss":
		return rsa.VerifyPSS(&k.rsaPriv.PublicKey, a.hash, digest, sig, &rsa.PSSOptions{SaltLength: rsa.PSSSaltLengthAuto}) == nil
	case "ecdsa":
		return ecdsa.VerifyASN1(&k.ec[a.curve].PublicKey, digest, sig)
	}
	return ed25519.Verify(k.edPriv.Public().(ed25519.PublicKey), digest, sig)
}

func (a sigAlg) digestFor(rng *mon.RNG, i int) []byte {
	if a.kind == "eddsa" {
		// EdDSA signs the message itself
		return rng.Bytes([]int{0, 1, 31, 32, 33, 64, 100, 1000}[i%8])
	}
	return rng.Bytes(a.hash.Size())
}

// expectInvalid judges a verification that must not succeed: (false, nil) and (false, err) are both legal.
func (j *judge) expectInvalid(alg, shape string, v verifyRes, rp replayFn) bool {
	j.n++
	switch {
	case v.pan != "":
		j.viol(sigOf("VerifyPublicKey", alg, shape, "panic"), fmt.Sprintf("VerifyPublicKey(%s) panicked on %q: %s", alg, shape, v.pan), rp)
		return false
	case v.ok:
		j.viol(sigOf("VerifyPublicKey", alg, shape+"-accepted"), fmt.Sprintf("VerifyPublicKey(%s) returned true for %q", alg, shape), rp)
		return false
	}
	return true
}

func (j *judge) expectValid(alg, shape string, v verifyRes, rp replayFn) bool {
	j.n++
	switch {
	case v.pan != "":
		j.viol(sigOf("VerifyPublicKey", alg, shape, "panic"), fmt.Sprintf("VerifyPublicKey(%s) panicked on %q: %s", alg, shape, v.pan), rp)
		return false
	case !v.ok || v.err != nil:
		j.viol(sigOf("VerifyPublicKey", alg, shape, "valid-signature-rejected"), fmt.Sprintf("VerifyPublicKey(%s) returned (%v, %s) for a valid signature (%s)", alg, v.ok, errStr(v.err), shape), rp)
		return false
	}
	return true
}

func runSigRoundTrip(j *judge, g group) {
	a, ok := sigInfo(j, g.alg)
	if !ok {
		return
	}
	k := keys()
	rng := mon.NewRNG("c03-sig-roundtrip", j.idx)
	priv, pub, otherPub := a.sigKeys()
	for i := 0; i < mon.Pick(8, 32); i++ {
		rec.Progress()
		digest := a.digestFor(rng, i)
		s := kSign(a.name, priv, digest)
		rp := rpm("algorithm", a.name, "digest", digest, "signature", s.sig, "private_jwk", priv)
		if j.accept("SignPrivateKey", a.name, "sign", s.err, s.pan, rp) {
			if j.expectValid(a.name, "own-signature/public-jwk", kVerify(a.name, pub, digest, s.sig), rp) {
				rec.Count("sig.roundtrip.ok", 1)
			}
			j.expectValid(a.name, "own-signature/private-jwk", kVerify(a.name, priv, digest, s.sig), rp)
			j.n++
			if !a.stdVerify(digest, s.sig) {
				j.viol(sigOf("SignPrivateKey", a.name, "interop-standard-library-rejects-kit-signature"), "the standard library does not verify kit's signature", rp)
			} else {
				rec.Count("sig.interop.std_verifies_kit", 1)
			}
			// "exactly the signatures made by the matching private key"
			if j.expectInvalid(a.name, "signature-by-another-key", kVerify(a.name, otherPub, digest, s.sig), rp) {
				rec.Count("sig.other_key_rejected", 1)
			}
			// deterministic schemes: byte-identical to the standard library
			if a.kind == "rsa15" || a.kind == "eddsa" {
				ref, _ := a.stdSign(digest, 0)
				j.n++
				if !bytes.Equal(ref, s.sig) {
					j.viol(sigOf("SignPrivateKey", a.name, "interop-signature-differs-from-standard-library"), "a deterministic signature differs from the standard library's", rpm("algorithm", a.name, "digest", digest, "kit", s.sig, "std", ref, "private_jwk", priv))
				} else {
					rec.Count("sig.interop.deterministic_equal", 1)
				}
			}
			// the same hash under the sibling RSA scheme must not verify
			if a.kind == "rsa15" || a.kind == "pss" {
				sib := map[string]string{"RS": "PS", "PS": "RS"}[a.name[:2]] + a.name[2:]
				j.expectInvalid(sib, "signature-made-under-"+a.name[:2]+"-scheme", kVerify(sib, pub, digest, s.sig), rp)
			}
			if a.kind == "pss" {
				observePSSSalt(a, k, digest, s.sig)
			}
		}
		variants := 1
		if a.kind == "pss" {
			variants = 2
		}
		for v := 0; v < variants; v++ {
			ref, what := a.stdSign(digest, v)
			rps := rpm("algorithm", a.name, "digest", digest, "signature", ref, "made_by", what, "private_jwk", priv)
			if j.expectValid(a.name, "standard-library-signature", kVerify(a.name, pub, digest, ref), rps) {
				rec.Count("sig.interop.kit_verifies_std", 1)
			}
		}
	}
}

// observePSSSalt records which salt length kit's PSS signatures carry. PKCS#1
// leaves it a parameter; RFC 7518 3.5 fixes it to the hash length for PS256/384/512.
func observePSSSalt(a sigAlg, k *keyset, digest, sig []byte) {
	pub := &k.rsaPriv.PublicKey
	switch {
	case rsa.VerifyPSS(pub, a.hash, digest, sig, &rsa.PSSOptions{SaltLength: rsa.PSSSaltLengthEqualsHash}) == nil:
		rec.Count("observed.pss.salt.hash_length", 1)
	case rsa.VerifyPSS(pub, a.hash, digest, sig, &rsa.PSSOptions{SaltLength: pub.Size() - 2 - a.hash.Size()}) == nil:
		rec.Count("observed.pss.salt.maximum", 1)
		rec.Observe("RSASSA-PSS: SignPrivateKey(PS256/384/512) uses the maximum salt length (key size - hash size - 2; 222 bytes for RSA-2048/SHA-256), not the hash length that RFC 7518 3.5 prescribes for these names; verifiers that auto-detect the salt length (crypto/rsa, kit itself) accept it, a verifier pinned to salt=hash length would not. PKCS#1 leaves the salt length a parameter, so this is recorded, not judged")
	default:
		rec.Count("observed.pss.salt.other", 1)
	}
}

func runSigTamper(j *judge, g group) {
	a, ok := sigInfo(j, g.alg)
	if !ok {
		return
	}
	rng := mon.NewRNG("c03-sig-tamper", j.idx)
	priv, pub, _ := a.sigKeys()
	for m := 0; m < mon.Pick(2, 3); m++ {
		var digest []byte
		if a.kind == "eddsa" {
			digest = rng.Bytes([]int{33, 1, 64}[m])
		} else {
			digest = rng.Bytes(a.hash.Size())
		}
		var sig []byte
		if m == 0 {
			s := kSign(a.name, priv, digest)
			if !j.accept("SignPrivateKey", a.name, "sign", s.err, s.pan, rpm("algorithm", a.name, "digest", digest, "private_jwk", priv)) {
				continue
			}
			sig = s.sig
		} else {
			sig, _ = a.stdSign(digest, m%2)
		}
		if !j.expectValid(a.name, "untampered", kVerify(a.name, pub, digest, sig), rpm("algorithm", a.name, "digest", digest, "signature", sig, "private_jwk", priv)) {
			continue
		}
		try := func(d, s []byte, shape, detail string) bool {
			rec.Progress()
			v := kVerify(a.name, pub, d, s)
			rp := rpm("algorithm", a.name, "valid_digest", digest, "valid_signature", sig, "mutation", detail, "digest", d, "signature", s, "private_jwk", priv, "kit_err", v.err)
			if j.expectInvalid(a.name, shape, v, rp) {
				rec.Count("sig.tamper.rejected", 1)
				if shape == "digest-bit-flip" && m == 0 && strings.HasPrefix(detail, "digest byte 0 ") && rec.WantSample() {
					rec.Sample(map[string]any{"clause": "tamper", "algorithm": a.name, "valid_digest": hx(digest), "digest": hx(d), "signature": hx(s), "mutation": detail,
						"kit_valid": v.ok, "kit_error": errStr(v.err)})
				}
				return true
			}
			return false
		}
		for i := range digest {
			for _, bit := range bitsFor(i, g.rep+m) {
				try(flip(digest, i, bit), sig, "digest-bit-flip", fmt.Sprintf("digest byte %d bit %d", i, bit))
			}
		}
		for i := range sig {
			for _, bit := range bitsFor(i, g.rep+m) {
				try(digest, flip(sig, i, bit), "signature-bit-flip", fmt.Sprintf("signature byte %d bit %d", i, bit))
			}
		}
		for k := 1; k <= 8; k++ {
			try(digest, clone(sig[:len(sig)-k]), "signature-truncated", fmt.Sprintf("signature shortened by %d", k))
			try(digest, append(clone(sig), rng.Bytes(k)...), "signature-extended", fmt.Sprintf("signature extended by %d", k))
			if len(digest) >= k {
				try(clone(digest[:len(digest)-k]), sig, "digest-truncated", fmt.Sprintf("digest shortened by %d", k))
			}
			ext := append(clone(digest), rng.Bytes(k)...)
			if a.kind == "ecdsa" {
				// ECDSA (FIPS 186-4 6.4) uses only the leftmost bits of the hash up to the order's length, so bytes
				// appended to a full-length digest do not change the signed value: inherent to the scheme, not judged
				v := kVerify(a.name, pub, ext, sig)
				if j.noPanic("VerifyPublicKey", a.name, "digest-extended", v.pan, nil) {
					if v.ok {
						rec.Count("observed.ecdsa.digest_extended.accepted", 1)
						rec.Observe("ECDSA: VerifyPublicKey accepts a digest with extra bytes appended when the digest already fills the curve order (ES256/P-256 with 32+k bytes, ES384/P-384 with 48+k bytes): the scheme signs only the leftmost bits (FIPS 186-4 6.4); not judged")
					} else {
						rec.Count("observed.ecdsa.digest_extended.rejected", 1)
					}
				}
				continue
			}
			try(ext, sig, "digest-extended", fmt.Sprintf("digest extended by %d", k))
		}
		try(digest, nil, "signature-empty", "empty signature")
		try(nil, sig, "digest-empty", "empty digest")
	}
}

func runSigKeys(j *judge, g group) {
	a, ok := sigInfo(j, g.alg)
	if !ok {
		return
	}
	k := keys()
	rng := mon.NewRNG("c03-sig-keys", j.idx)
	var digest []byte
	if a.kind == "eddsa" {
		digest = rng.Bytes(32)
	} else {
		digest = rng.Bytes(a.hash.Size())
	}
	_, pub, _ := a.sigKeys()
	goodSig, _ := a.stdSign(digest, 0)
	mismatch := []error{kc.ErrKeyTypeMismatch}
	all := []struct {
		kind string
		nk   namedKey
	}{
		{"rsa", namedKey{"rsa-private", k.jRSAPriv}}, {"rsa", namedKey{"rsa-public", k.jRSAPub}},
		{"ec", namedKey{"ec-private", k.jEC["P-256"]}}, {"ec", namedKey{"ec-public", k.jECPub["P-256"]}},
		{"ed", namedKey{"okp-ed25519-private", k.jEdPriv}}, {"ed", namedKey{"okp-ed25519-public", k.jEdPub}},
		{"x", namedKey{"okp-x25519-private", k.jXPriv}}, {"x", namedKey{"okp-x25519-public", k.jXPub}},
		{"oct", namedKey{"oct-16", k.jOct16}}, {"oct", namedKey{"oct-32", k.jOct32}},
	}
	mine := map[string]string{"rsa15": "rsa", "pss": "rsa", "ecdsa": "ec", "eddsa": "ed"}[a.kind]
	verifyMismatch := func(shape string, key jwk.Key) {
		v := kVerify(a.name, key, digest, goodSig)
		rp := rpm("algorithm", a.name, "key", key, "digest", digest, "signature", goodSig)
		j.n++
		switch {
		case v.pan != "":
			j.viol(sigOf("VerifyPublicKey", a.name, shape, "panic"), "VerifyPublicKey panicked on a key of the wrong kind or size: "+v.pan, rp)
		case v.ok:
			j.viol(sigOf("VerifyPublicKey", a.name, shape+"-accepted"), "VerifyPublicKey returned true with a key of the wrong kind or size", rp)
		case v.err == nil:
			j.viol(sigOf("VerifyPublicKey", a.name, shape, "no-error"), "VerifyPublicKey returned (false, nil) for a key of the wrong kind or size; the statement asks for an error", rp)
		case !errors.Is(v.err, kc.ErrKeyTypeMismatch):
			j.viol(sigOf("VerifyPublicKey", a.name, shape, "wrong-sentinel"), fmt.Sprintf("VerifyPublicKey returned %q, expected ErrKeyTypeMismatch", v.err), rp)
		default:
			rec.Count("keys.wrong_rejected", 1)
			rec.Count("rejected.with_sentinel", 1)
		}
	}
	for _, wk := range all {
		if wk.kind == mine {
			continue
		}
		s := kSign(a.name, wk.nk.key, digest)
		if j.reject("SignPrivateKey", a.name, "key-kind-"+wk.nk.name, [][]byte{s.sig}, s.err, s.pan, mismatch, rpm("algorithm", a.name, "key", wk.nk.key, "digest", digest)) {
			rec.Count("keys.wrong_rejected", 1)
		}
		verifyMismatch("key-kind-"+wk.nk.name, wk.nk.key)
	}
	// a public key cannot sign
	s := kSign(a.name, pub, digest)
	if j.reject("SignPrivateKey", a.name, "key-kind-public-key", [][]byte{s.sig}, s.err, s.pan, mismatch, rpm("algorithm", a.name, "key", pub, "digest", digest)) {
		rec.Count("keys.wrong_rejected", 1)
	}

	switch a.kind {
	case "ecdsa":
		// T(ii): a key on another curve than the name implies - kit signs and verifies consistently; observed only
		for curve, ek := range k.jEC {
			if curve == a.curve {
				continue
			}
			s := kSign(a.name, ek, digest)
			if j.noPanic("SignPrivateKey", a.name, "key-on-other-curve", s.pan, nil) {
				if s.err == nil {
					rec.Count("observed.ecdsa.other_curve.signed", 1)
					rec.Observe("ECDSA: SignPrivateKey/VerifyPublicKey accept a key on a curve other than the one the algorithm name implies (e.g. ES256 with P-384) and sign/verify consistently; the statement asserts wrong size only for symmetric key lengths, RSA/EC/OKP kind mismatches and Ed25519 key lengths; not judged")
					v := kVerify(a.name, k.jECPub[curve], digest, s.sig)
					if j.noPanic("VerifyPublicKey", a.name, "key-on-other-curve", v.pan, nil) && v.ok {
						rec.Count("observed.ecdsa.other_curve.verified", 1)
					}
				} else {
					rec.Count("observed.ecdsa.other_curve.rejected", 1)
				}
			}
		}
	case "eddsa":
		// Ed25519 keys of the wrong length (only expressible as JSON JWKs)
		x := []byte(k.edPriv.Public().(ed25519.PublicKey))
		seed := k.edPriv.Seed()
		for _, n := range []int{0, 1, 16, 31, 33, 64} {
			bad := make([]byte, n)
			copy(bad, x)
			pk, err := jwk.ParseKey([]byte(`{"kty":"OKP","crv":"Ed25519","x":"` + b64(bad) + `"}`))
			if err != nil {
				rec.Count("observed.keys.ed25519_bad_x_not_constructible", 1)
			} else {
				verifyMismatch("ed25519-public-key-wrong-length", pk)
			}
			badD := make([]byte, n)
			copy(badD, seed)
			sk, err := jwk.ParseKey([]byte(`{"kty":"OKP","crv":"Ed25519","x":"` + b64(x) + `","d":"` + b64(badD) + `"}`))
			if err != nil {
				rec.Count("observed.keys.ed25519_bad_d_not_constructible", 1)
				continue
			}
			s := kSign(a.name, sk, digest)
			if j.reject("SignPrivateKey", a.name, "ed25519-private-key-wrong-length", [][]byte{s.sig}, s.err, s.pan, mismatch, rpm("algorithm", a.name, "key", sk, "digest", digest)) {
				rec.Count("keys.wrong_rejected", 1)
			}
		}
	}
}
