package c03

import (
	"bytes"
	"crypto/aes"
	"crypto/cipher"
	"errors"
	"fmt"
	"strings"

	kc "github.com/dapr/kit/crypto"
	"github.com/dapr/kit/crypto/aescbcaead"
	"github.com/dapr/kit/crypto/aeskw"
	"github.com/dapr/kit/crypto/padding"
	"github.com/lestrrat-go/jwx/v2/jwa"
	"github.com/lestrrat-go/jwx/v2/jwk"

	"verif/harness/internal/mon"
)

const (
	famCBC   = "cbc"
	famNOPAD = "cbc-nopad"
	famGCM   = "gcm"
	famHS    = "cbc-hmac"
	famKW    = "kw"
	famC20P  = "c20p"
	famXC20P = "xc20p"
)

// symAlg is the harness's own description of a symmetric algorithm name (from
// RFC 7518 / the comments in consts.go, not from kit's dispatch tables).
type symAlg struct {
	name, fam                string
	keyLen, nonceLen, tagLen int
	auth                     bool
}

var symTable = map[string]symAlg{
	"A128CBC":       {"A128CBC", famCBC, 16, 16, 0, false},
	"A192CBC":       {"A192CBC", famCBC, 24, 16, 0, false},
	"A256CBC":       {"A256CBC", famCBC, 32, 16, 0, false},
	"A128CBC-NOPAD": {"A128CBC-NOPAD", famNOPAD, 16, 16, 0, false},
	"A192CBC-NOPAD": {"A192CBC-NOPAD", famNOPAD, 24, 16, 0, false},
	"A256CBC-NOPAD": {"A256CBC-NOPAD", famNOPAD, 32, 16, 0, false},
	"A128GCM":       {"A128GCM", famGCM, 16, 12, 16, true},
	"A192GCM":       {"A192GCM", famGCM, 24, 12, 16, true},
	"A256GCM":       {"A256GCM", famGCM, 32, 12, 16, true},
	"A128CBC-HS256": {"A128CBC-HS256", famHS, 32, 16, 16, true},
	"A192CBC-HS384": {"A192CBC-HS384", famHS, 48, 16, 24, true},
	"A256CBC-HS512": {"A256CBC-HS512", famHS, 64, 16, 32, true},
	"A128KW":        {"A128KW", famKW, 16, 0, 0, true},
	"A192KW":        {"A192KW", famKW, 24, 0, 0, true},
	"A256KW":        {"A256KW", famKW, 32, 0, 0, true},
	"C20P":          {"C20P", famC20P, 32, 12, 16, true},
	"C20PKW":        {"C20PKW", famC20P, 32, 12, 16, true},
	"XC20P":         {"XC20P", famXC20P, 32, 24, 16, true},
	"XC20PKW":       {"XC20PKW", famXC20P, 32, 24, 16, true},
}

func symInfo(j *judge, name string) (symAlg, bool) {
	a, ok := symTable[name]
	if !ok {
		rec.Inconclusive(j.idx, "harness has no independent description of supported symmetric algorithm "+name, nil)
	}
	return a, ok
}

// ------------------------------------------------------------ kit call wrappers (panics recovered)

type encRes struct {
	ct, tag []byte
	err     error
	pan     string
}

type decRes struct {
	pt  []byte
	err error
	pan string
}

func panStr(p any) string { return "panic: " + fmt.Sprint(p) }

func kEnc1(via, alg string, key jwk.Key, nonce, pt, aad []byte) (r encRes) {
	k2, kb := privKey(key)
	p, n, a := lay(pt), lay(nonce), lay(aad)
	if via != "Encrypt" {
		via = "EncryptSymmetric"
	}
	call := func() (r encRes) {
		defer func() {
			if x := recover(); x != nil {
				r = encRes{pan: panStr(x)}
			}
		}()
		if via == "Encrypt" {
			r.ct, r.tag, r.err = kc.Encrypt(p, alg, k2, n, a)
		} else {
			r.ct, r.tag, r.err = kc.EncryptSymmetric(p, alg, k2, n, a)
		}
		return r
	}
	rp := rpm("algorithm", alg, "key", key, "nonce", nonce, "plaintext", pt, "aad", aad)
	r = call()
	// every symmetric algorithm here is deterministic given the nonce: identical outputs; the dispatcher also
	// reaches the randomised RSA encryptions, where only error/no error can be compared
	_, randomised := rsaTable[alg]
	last := repeatCheck(via, alg, rp, r, call, func(x, y encRes) string {
		if randomised {
			return diffRes(x.pan, y.pan, x.err, y.err, nil, nil, nil)
		}
		return diffRes(x.pan, y.pan, x.err, y.err, []string{"ciphertext", "tag"}, [][]byte{x.ct, x.tag}, [][]byte{y.ct, y.tag})
	})
	if randomised {
		if repeatFlip = !repeatFlip; repeatFlip {
			r = last
		}
	}
	if r.pan != "" {
		return r
	}
	settle(via, alg, rp, [][]byte{p, n, a, kb}, []string{"ciphertext", "tag"}, &r.ct, &r.tag)
	return r
}

func kDec1(via, alg string, key jwk.Key, nonce, ct, tag, aad []byte) (r decRes) {
	k2, kb := privKey(key)
	c, n, t, a := lay(ct), lay(nonce), lay(tag), lay(aad)
	if via != "Decrypt" {
		via = "DecryptSymmetric"
	}
	call := func() (r decRes) {
		defer func() {
			if x := recover(); x != nil {
				r = decRes{pan: panStr(x)}
			}
		}()
		if via == "Decrypt" {
			r.pt, r.err = kc.Decrypt(c, alg, k2, n, t, a)
		} else {
			r.pt, r.err = kc.DecryptSymmetric(c, alg, k2, n, t, a)
		}
		return r
	}
	rp := rpm("algorithm", alg, "key", key, "nonce", nonce, "ciphertext", ct, "tag", tag, "aad", aad)
	r = call()
	repeatCheck(via, alg, rp, r, call, diffDec)
	if r.pan != "" {
		return r
	}
	settle(via, alg, rp, [][]byte{c, n, t, a, kb}, []string{"plaintext"}, &r.pt)
	return r
}

func diffDec(x, y decRes) string {
	return diffRes(x.pan, y.pan, x.err, y.err, []string{"plaintext"}, [][]byte{x.pt}, [][]byte{y.pt})
}

type rawRes struct {
	out []byte
	err error
	pan string
}

func diffRaw(x, y rawRes) string {
	return diffRes(x.pan, y.pan, x.err, y.err, []string{"output"}, [][]byte{x.out}, [][]byte{y.out})
}

// rawCall runs one byte-slice-in / byte-slice-out kit function the way every
// wrapper does: first call, repeated calls on the same buffers, then wipe and settle.
func rawCall(fn string, rp replayFn, inputs [][]byte, outName string, f func() ([]byte, error)) (r rawRes) {
	call := func() (r rawRes) {
		defer func() {
			if p := recover(); p != nil {
				r = rawRes{pan: panStr(p)}
			}
		}()
		r.out, r.err = f()
		return r
	}
	r = call()
	repeatCheck(fn, "", rp, r, call, diffRaw)
	if r.pan != "" {
		return r
	}
	settle(fn, "", rp, inputs, []string{outName}, &r.out)
	return r
}

func kWrap1(b cipher.Block, cek []byte) rawRes {
	in := lay(cek)
	return rawCall("aeskw.Wrap", rpm("cek", cek), [][]byte{in}, "wrapped key", func() ([]byte, error) { return aeskw.Wrap(b, in) })
}

func kUnwrap1(b cipher.Block, c []byte) rawRes {
	in := lay(c)
	return rawCall("aeskw.Unwrap", rpm("input", c), [][]byte{in}, "unwrapped key", func() ([]byte, error) { return aeskw.Unwrap(b, in) })
}

func kSeal1(a cipher.AEAD, nonce, pt, aad []byte) rawRes {
	n, p, ad := lay(nonce), lay(pt), lay(aad)
	return rawCall("aescbcaead.Seal", rpm("nonce", nonce, "plaintext", pt, "aad", aad), [][]byte{n, p, ad}, "sealed message", func() ([]byte, error) { return a.Seal(nil, n, p, ad), nil })
}

func kOpen1(a cipher.AEAD, nonce, sealed, aad []byte) rawRes {
	n, s, ad := lay(nonce), lay(sealed), lay(aad)
	return rawCall("aescbcaead.Open", rpm("nonce", nonce, "sealed", sealed, "aad", aad), [][]byte{n, s, ad}, "plaintext", func() ([]byte, error) { return a.Open(nil, n, s, ad) })
}

// ------------------------------------------------------------ repeated operation on the same buffers

// A wrapped key, a ciphertext or a signature is typically kept and processed
// again (a cached wrapped key is unwrapped on every request), and a plaintext
// or key may be encrypted more than once. So every wrapper, before it
// overwrites anything, calls kit again on the VERY SAME argument slices -
// immediately, and once more after an unrelated kit call - and requires the
// same answer each time: same panic/no panic, same error/no error, same output
// bytes (for the randomised operations - RSA encryption, RSASSA-PSS, ECDSA -
// same error/no error; which of the outputs the judges then decrypt/verify
// alternates between the first and the last call). A call that scribbles on
// its input makes the repetition differ.
var (
	repeatCalls int64
	repeatFlip  bool
)

func diffRes(pan1, pan2 string, err1, err2 error, names []string, outs1, outs2 [][]byte) string {
	switch {
	case (pan1 == "") != (pan2 == ""):
		return fmt.Sprintf("first call: %q, repeated call: %q", pan1, pan2)
	case (err1 == nil) != (err2 == nil):
		return fmt.Sprintf("first call error: %s, repeated call error: %s", errStr(err1), errStr(err2))
	}
	for i := range outs1 {
		if !bytes.Equal(outs1[i], outs2[i]) {
			return fmt.Sprintf("%s of the first call: %s, of the repeated call: %s", names[i], hx(outs1[i]), hx(outs2[i]))
		}
	}
	return ""
}

func repeatCheck[T any](fn, alg string, rp replayFn, first T, call func() T, diff func(a, b T) string) (last T) {
	last = first
	if inTwin {
		return last
	}
	repeatCalls++
	report := func(sig, when, d string) {
		violNoLayout(sigOf(fn, alg, sig), fmt.Sprintf("%s(%s) called again on the very same argument buffers (%s, nothing overwritten in between) does not give the same result: %s", fn, alg, when, d),
			func() map[string]any {
				m := map[string]any{}
				if rp != nil {
					m = rp()
				}
				m["difference"] = d
				return m
			})
	}
	second := call()
	if d := diff(first, second); d != "" {
		report("second-call-on-same-buffers-differs", "immediately after the first call", d)
		return first
	}
	unrelatedCall()
	last = call()
	if d := diff(first, last); d != "" {
		report("later-call-on-same-buffers-differs", "after an unrelated kit call", d)
		return first
	}
	return last
}

var unrel struct {
	ready      bool
	k16, k32   jwk.Key
	blk        cipher.Block
	nonce, msg []byte
}

// unrelatedCall exercises the other code paths (AEAD, CBC-HMAC + padding, key wrap) on buffers of its own.
func unrelatedCall() {
	defer func() { _ = recover() }()
	if !unrel.ready {
		unrel.k16, _ = jwk.FromRaw(bytes.Repeat([]byte{0x5a}, 16))
		unrel.k32, _ = jwk.FromRaw(bytes.Repeat([]byte{0x3c}, 32))
		unrel.blk, _ = aes.NewCipher(bytes.Repeat([]byte{0x77}, 16))
		unrel.nonce = bytes.Repeat([]byte{9}, 16)
		unrel.msg = []byte("an unrelated message: 0123456789")
		unrel.ready = true
	}
	if ct, tag, err := kc.EncryptSymmetric(clone(unrel.msg), "A128GCM", unrel.k16, clone(unrel.nonce[:12]), nil); err == nil {
		_, _ = kc.DecryptSymmetric(ct, "A128GCM", unrel.k16, clone(unrel.nonce[:12]), tag, nil)
	}
	if ct, tag, err := kc.EncryptSymmetric(clone(unrel.msg), "A128CBC-HS256", unrel.k32, clone(unrel.nonce), nil); err == nil {
		_, _ = kc.DecryptSymmetric(ct, "A128CBC-HS256", unrel.k32, clone(unrel.nonce), tag, nil)
	}
	if w, err := aeskw.Wrap(unrel.blk, clone(unrel.msg[:16])); err == nil {
		_, _ = aeskw.Unwrap(unrel.blk, w)
	}
}

// ------------------------------------------------------------ "the caller re-uses its buffers" discipline

// Every kit call wrapper hands kit PRIVATE copies of its inputs (lay / privKey)
// and, as soon as the call has returned, overwrites every one of them - data,
// nonce, tag, AAD, the oct key's bytes, including any spare capacity - before
// anybody looks at the outputs (settle). A caller that wipes key material or
// re-uses a read buffer does exactly this. The outputs the judges then compare
// with the reference and feed to the inverse operation are the outputs as they
// are AFTER the wipe; the pristine inputs live in the harness's own slices. An
// output that changed under the wipe shares memory with an input; it is
// reported under its own signature (the comparisons that follow would only say
// "differs from the reference").
var (
	curJudge    *judge
	wipedCalls  int64 // calls whose inputs were overwritten after return (flushed into the "wipe.calls_checked" counter per group)
	wipedInputs int64
	aliasExact  = map[string]bool{}
)

// privKey returns a JWK private to one call: for an oct key a fresh JWK over a
// fresh copy of the key bytes (jwx keeps the slice it is given, so overwriting
// that copy afterwards is "the caller wipes its key"), any other key unchanged.
func privKey(key jwk.Key) (jwk.Key, []byte) {
	if key == nil || key.KeyType() != jwa.OctetSeq {
		return key, nil
	}
	var b []byte
	if key.Raw(&b) != nil || len(b) == 0 {
		return key, nil
	}
	c := clone(b)
	k2, err := jwk.FromRaw(c)
	if err != nil {
		return key, nil
	}
	return k2, c
}

func wipe(b []byte) {
	b = b[:cap(b)]
	for i := range b {
		b[i] = ^b[i] // every byte changes
	}
}

// settle overwrites the call's input buffers and checks that no output moved.
func settle(fn, alg string, rp replayFn, inputs [][]byte, names []string, outs ...*[]byte) {
	defer func() {
		recheckRetained(fn, alg)
		if !inTwin {
			retain(fn, alg, rp, names, outs)
		}
	}()
	snaps := make([][]byte, len(outs))
	for i, o := range outs {
		snaps[i] = clone(*o)
	}
	for _, in := range inputs {
		if in != nil {
			wipe(in)
			wipedInputs++
		}
	}
	wipedCalls++
	for i, o := range outs {
		if !bytes.Equal(*o, snaps[i]) && curJudge != nil {
			before, after, name := snaps[i], clone(*o), names[i]
			// the /spare-capacity suffix only if this entry point did not already share memory with exactly-sized inputs
			base, sp := sigOf(fn, alg, "output-aliases-input-buffer"), curJudge.spare
			if sp < 0 {
				aliasExact[base] = true
			} else if aliasExact[base] {
				curJudge.spare = -1
			}
			defer func() { curJudge.spare = sp }()
			curJudge.viol(sigOf(fn, alg, "output-aliases-input-buffer"),
				fmt.Sprintf("%s(%s): the returned %s changed when the caller overwrote its own input buffers after the call returned - the output shares memory with an input, so a caller that wipes or re-uses its buffer loses the result", fn, alg, name),
				func() map[string]any {
					m := rp()
					m["output"] = name
					m["output_at_return"] = hx(before)
					m["output_after_inputs_were_overwritten"] = hx(after)
					return m
				})
		}
	}
}

func flushWipeCounters() {
	if wipedCalls > 0 {
		rec.Count("wipe.calls_checked", int(wipedCalls))
		rec.Count("wipe.input_buffers_overwritten", int(wipedInputs))
	}
	if retainedChecks > 0 {
		rec.Count("retained.results_rechecked", int(retainedChecks))
	}
	if twinPairs > 0 {
		rec.Count("retained.back_to_back_pairs_checked", int(twinPairs))
	}
	if repeatCalls > 0 {
		rec.Count("repeat.calls_repeated_on_same_buffers", int(repeatCalls))
	}
	wipedCalls, wipedInputs, retainedChecks, twinPairs, repeatCalls = 0, 0, 0, 0, 0
}

// ------------------------------------------------------------ retained results

// A caller keeps what kit returned. The outputs of the last retainK calls of
// every entry point (the very slices kit returned, plus a pristine copy) stay
// in a ring that lives across groups, so across algorithms as well as within
// one, and are compared again after EVERY later kit call of any entry point: a
// result that changed was written to by a later call (a pooled or otherwise
// shared buffer). In addition every call that returned something is made a
// second time with the same inputs and the second result is overwritten
// completely: the first must not move (two results never share memory).
// UnpadPKCS7 is exempt: its result is a prefix of its input by design (see kUnpad).
const retainK = 3

type retained struct {
	fn, alg string
	names   []string
	live    [][]byte
	snap    [][]byte
	rp      replayFn
}

var (
	ring           = map[string][]*retained{}
	inTwin         bool
	retainedChecks int64
	twinPairs      int64
)

// violNoLayout reports under the plain signature: these findings are about calls made one after the other, not about the buffer layout of one call.
func violNoLayout(sig, msg string, rp replayFn) {
	if curJudge == nil {
		return
	}
	sp := curJudge.spare
	curJudge.spare = -1
	curJudge.viol(sig, msg, rp)
	curJudge.spare = sp
}

func retain(fn, alg string, rp replayFn, names []string, outs []*[]byte) {
	r := &retained{fn: fn, alg: alg, names: names, rp: rp}
	nonEmpty := false
	for _, o := range outs {
		r.live = append(r.live, *o)
		r.snap = append(r.snap, clone(*o))
		nonEmpty = nonEmpty || len(*o) > 0
	}
	if !nonEmpty {
		return
	}
	q := append(ring[fn], r)
	if len(q) > retainK {
		q = q[len(q)-retainK:]
	}
	ring[fn] = q
}

func recheckRetained(laterFn, laterAlg string) {
	for fn, q := range ring {
		keep := q[:0]
		for _, r := range q {
			retainedChecks++
			moved := -1
			for i := range r.live {
				if !bytes.Equal(r.live[i], r.snap[i]) {
					moved = i
					break
				}
			}
			if moved < 0 {
				keep = append(keep, r)
				continue
			}
			r, i := r, moved
			violNoLayout(sigOf(r.fn, r.alg, "earlier-result-changed-by-later-call"),
				fmt.Sprintf("the %s returned by an earlier %s(%s) call, which the caller still holds, changed while a later call (%s(%s)) ran: the result lives in memory kit re-uses", r.names[i], r.fn, r.alg, laterFn, laterAlg),
				func() map[string]any {
					m := map[string]any{}
					if r.rp != nil {
						m = r.rp()
					}
					m["earlier_call"] = r.fn + "(" + r.alg + ")"
					m["later_call"] = laterFn + "(" + laterAlg + ")"
					m["result"] = r.names[i]
					m["result_when_returned"] = hx(r.snap[i])
					m["result_now"] = hx(r.live[i])
					return m
				})
		}
		ring[fn] = keep
	}
}

func hasOut(pan string, outs ...[]byte) bool {
	if pan != "" || inTwin {
		return false
	}
	for _, o := range outs {
		if len(o) > 0 {
			return true
		}
	}
	return false
}

// twinCheck: first and second are the results of two back-to-back calls with the same inputs.
func twinCheck(fn, alg string, rp replayFn, names []string, first, second [][]byte) {
	twinPairs++
	snaps := make([][]byte, len(first))
	for i, o := range first {
		snaps[i] = clone(o)
	}
	for _, o := range second {
		if o != nil {
			wipe(o)
		}
	}
	for i, o := range first {
		if !bytes.Equal(o, snaps[i]) {
			i := i
			after := clone(o)
			copy(o, snaps[i]) // give the judges the value kit returned; the finding is already recorded
			violNoLayout(sigOf(fn, alg, "two-results-share-memory"),
				fmt.Sprintf("%s(%s) called twice in a row: overwriting the second call's %s changed the first call's - both results point into the same memory", fn, alg, names[i]),
				func() map[string]any {
					m := map[string]any{}
					if rp != nil {
						m = rp()
					}
					m["result"] = names[i]
					m["first_result_when_returned"] = hx(snaps[i])
					m["first_result_after_second_was_overwritten"] = hx(after)
					return m
				})
		}
	}
}

func kEnc(via, alg string, key jwk.Key, nonce, pt, aad []byte) encRes {
	r := kEnc1(via, alg, key, nonce, pt, aad)
	if hasOut(r.pan, r.ct, r.tag) {
		inTwin = true
		r2 := kEnc1(via, alg, key, nonce, pt, aad)
		inTwin = false
		fn := "EncryptSymmetric"
		if via == "Encrypt" {
			fn = via
		}
		twinCheck(fn, alg, rpm("algorithm", alg, "key", key, "nonce", nonce, "plaintext", pt, "aad", aad), []string{"ciphertext", "tag"}, [][]byte{r.ct, r.tag}, [][]byte{r2.ct, r2.tag})
	}
	return r
}

func kDec(via, alg string, key jwk.Key, nonce, ct, tag, aad []byte) decRes {
	r := kDec1(via, alg, key, nonce, ct, tag, aad)
	if hasOut(r.pan, r.pt) {
		inTwin = true
		r2 := kDec1(via, alg, key, nonce, ct, tag, aad)
		inTwin = false
		fn := "DecryptSymmetric"
		if via == "Decrypt" {
			fn = via
		}
		twinCheck(fn, alg, rpm("algorithm", alg, "key", key, "nonce", nonce, "ciphertext", ct, "tag", tag, "aad", aad), []string{"plaintext"}, [][]byte{r.pt}, [][]byte{r2.pt})
	}
	return r
}

func kWrap(b cipher.Block, cek []byte) rawRes {
	r := kWrap1(b, cek)
	if hasOut(r.pan, r.out) {
		inTwin = true
		r2 := kWrap1(b, cek)
		inTwin = false
		twinCheck("aeskw.Wrap", "", rpm("cek", cek), []string{"wrapped key"}, [][]byte{r.out}, [][]byte{r2.out})
	}
	return r
}

func kUnwrap(b cipher.Block, c []byte) rawRes {
	r := kUnwrap1(b, c)
	if hasOut(r.pan, r.out) {
		inTwin = true
		r2 := kUnwrap1(b, c)
		inTwin = false
		twinCheck("aeskw.Unwrap", "", rpm("input", c), []string{"unwrapped key"}, [][]byte{r.out}, [][]byte{r2.out})
	}
	return r
}

func kSeal(a cipher.AEAD, nonce, pt, aad []byte) rawRes {
	r := kSeal1(a, nonce, pt, aad)
	if hasOut(r.pan, r.out) {
		inTwin = true
		r2 := kSeal1(a, nonce, pt, aad)
		inTwin = false
		twinCheck("aescbcaead.Seal", "", rpm("nonce", nonce, "plaintext", pt, "aad", aad), []string{"sealed message"}, [][]byte{r.out}, [][]byte{r2.out})
	}
	return r
}

func kOpen(a cipher.AEAD, nonce, sealed, aad []byte) rawRes {
	r := kOpen1(a, nonce, sealed, aad)
	if hasOut(r.pan, r.out) {
		inTwin = true
		r2 := kOpen1(a, nonce, sealed, aad)
		inTwin = false
		twinCheck("aescbcaead.Open", "", rpm("nonce", nonce, "sealed", sealed, "aad", aad), []string{"plaintext"}, [][]byte{r.out}, [][]byte{r2.out})
	}
	return r
}

func kPad(buf []byte, size int) rawRes {
	r := kPad1(buf, size)
	if hasOut(r.pan, r.out) {
		inTwin = true
		r2 := kPad1(buf, size)
		inTwin = false
		twinCheck("padding.PadPKCS7", "", rpm("input", buf, "block_size", size), []string{"padded buffer"}, [][]byte{r.out}, [][]byte{r2.out})
	}
	return r
}

// rpm builds a lazily evaluated replay record from alternating key/value arguments.
func rpm(kv ...any) replayFn {
	return func() map[string]any {
		m := map[string]any{}
		for i := 0; i+1 < len(kv); i += 2 {
			k := kv[i].(string)
			switch v := kv[i+1].(type) {
			case []byte:
				m[k] = hx(v)
			case jwk.Key:
				m[k] = jwkJSON(v)
			case error:
				m[k] = errStr(v)
			default:
				m[k] = v
			}
		}
		return m
	}
}

// ------------------------------------------------------------ reference dispatch

func refEnc(a symAlg, key, nonce, pt, aad []byte) (ct, tag []byte) {
	switch a.fam {
	case famCBC:
		return refCBCEnc(key, nonce, refPad(pt)), nil
	case famNOPAD:
		return refCBCEnc(key, nonce, pt), nil
	case famGCM, famC20P, famXC20P:
		return refAEADSeal(a.fam, key, nonce, pt, aad)
	case famHS:
		return refHSSeal(a.name, key, nonce, pt, aad)
	case famKW:
		return refWrap(key, pt), nil
	}
	panic("harness: refEnc " + a.fam)
}

func refDec(a symAlg, key, nonce, ct, tag, aad []byte) ([]byte, bool) {
	switch a.fam {
	case famCBC:
		if len(ct) == 0 || len(ct)%16 != 0 {
			return nil, false
		}
		return refUnpad(refCBCDec(key, nonce, ct))
	case famNOPAD:
		if len(ct)%16 != 0 {
			return nil, false
		}
		return refCBCDec(key, nonce, ct), true
	case famGCM, famC20P, famXC20P:
		if len(tag) != 16 {
			return nil, false
		}
		return refAEADOpen(a.fam, key, nonce, ct, tag, aad)
	case famHS:
		return refHSOpen(a.name, key, nonce, ct, tag, aad)
	case famKW:
		return refUnwrap(key, ct)
	}
	panic("harness: refDec " + a.fam)
}

func validPlain(a symAlg, L int) bool {
	switch a.fam {
	case famNOPAD:
		return L%16 == 0
	case famKW:
		return L%8 == 0 && L >= 16
	}
	return true
}

func ptLengths() []int {
	var ls []int
	for l := 0; l <= mon.Pick(65, 80); l++ {
		ls = append(ls, l)
	}
	if mon.Thorough() {
		return append(ls, 127, 128, 129, 255, 256, 257, 1000, 1024, 4096, 65537)
	}
	return append(ls, 128, 1000)
}

func aadVariants(rng *mon.RNG, a symAlg) [][]byte {
	if a.tagLen == 0 {
		// no AAD support: it must simply be ignored
		return [][]byte{nil, rng.Bytes(13)}
	}
	if mon.Thorough() {
		return [][]byte{nil, {}, rng.Bytes(13), rng.Bytes(100)}
	}
	return [][]byte{nil, rng.Bytes(13)}
}

func nonceFor(rng *mon.RNG, a symAlg) []byte {
	if a.nonceLen == 0 {
		return nil
	}
	return rng.Bytes(a.nonceLen)
}

// ------------------------------------------------------------ (a)+(b) round trip and interop

func runSymRoundTrip(j *judge, g group) {
	a, ok := symInfo(j, g.alg)
	if !ok {
		return
	}
	rng := mon.NewRNG("c03-sym-roundtrip", j.idx)
	key := rng.Bytes(a.keyLen)
	jk := octKey(key)
	for _, L := range ptLengths() {
		rec.Progress()
		for _, aad := range aadVariants(rng, a) {
			pt := rng.Bytes(L)
			nonce := nonceFor(rng, a)
			rp := rpm("algorithm", a.name, "key", key, "nonce", nonce, "plaintext", pt, "aad", aad)
			if !validPlain(a, L) {
				e := kEnc("EncryptSymmetric", a.name, jk, nonce, pt, aad)
				outs := [][]byte{e.ct, e.tag}
				switch {
				case a.fam == famNOPAD:
					j.reject("EncryptSymmetric", a.name, "plaintext-len-not-block-multiple", outs, e.err, e.pan, []error{kc.ErrInvalidPlaintextLength}, rp)
				case L%8 != 0:
					j.reject("EncryptSymmetric", a.name, "plaintext-len-not-multiple-of-8", outs, e.err, e.pan, nil, rp)
				default:
					// AES-KW of 0 or 8 bytes: RFC 3394 defines the wrap for n >= 2 semiblocks only; the statement does not say which way kit must answer
					if j.noPanic("EncryptSymmetric", a.name, "plaintext-shorter-than-16", e.pan, rp) {
						if e.err == nil {
							rec.Count("observed.kw.short_plaintext.accepted", 1)
							rec.Observe(fmt.Sprintf("AES-KW: EncryptSymmetric/aeskw.Wrap accept a %d-byte plaintext (RFC 3394 defines n >= 2 semiblocks) and return %d bytes; not judged", L, len(e.ct)))
						} else {
							rec.Count("observed.kw.short_plaintext.rejected", 1)
						}
					}
				}
				break
			}
			rct, rtag := refEnc(a, key, nonce, pt, aad)

			// kit decrypts what the reference produced
			var d2 decRes
			j.eachLayout("valid", a.tagLen, func() bool {
				d2 = kDec("DecryptSymmetric", a.name, jk, nonce, rct, rtag, aad)
				if !j.accept("DecryptSymmetric", a.name, "reference-output", d2.err, d2.pan, rp) {
					return false
				}
				if !bytes.Equal(d2.pt, pt) {
					j.viol(sigOf("DecryptSymmetric", a.name, "interop-reference-output-decrypts-differently"),
						"kit decrypted the reference implementation's ciphertext to a different plaintext", rpm("algorithm", a.name, "key", key, "nonce", nonce, "plaintext", pt, "aad", aad, "ref_ciphertext", rct, "ref_tag", rtag, "kit_plaintext", d2.pt))
					return false
				}
				rec.Count("sym.interop.kit_decrypts_reference", 1)
				return true
			})

			// kit encrypts: byte-identical to the reference (all these algorithms are deterministic given the nonce)
			e := kEnc("EncryptSymmetric", a.name, jk, nonce, pt, aad)
			if !j.accept("EncryptSymmetric", a.name, "encrypt", e.err, e.pan, rp) {
				continue
			}
			rpe := rpm("algorithm", a.name, "key", key, "nonce", nonce, "plaintext", pt, "aad", aad, "kit_ciphertext", e.ct, "kit_tag", e.tag, "ref_ciphertext", rct, "ref_tag", rtag)
			j.n++
			switch {
			case !bytes.Equal(e.ct, rct):
				j.viol(sigOf("EncryptSymmetric", a.name, "interop-ciphertext-differs-from-reference"), "kit's ciphertext differs from the independent implementation's", rpe)
			case !bytes.Equal(e.tag, rtag):
				j.viol(sigOf("EncryptSymmetric", a.name, "interop-tag-differs-from-reference"), "kit's tag differs from the independent implementation's", rpe)
			default:
				rec.Count("sym.interop.kit_equals_reference", 1)
			}
			j.n++
			if p, ok := refDec(a, key, nonce, e.ct, e.tag, aad); !ok || !bytes.Equal(p, pt) {
				j.viol(sigOf("EncryptSymmetric", a.name, "interop-reference-cannot-decrypt-kit-output"), "the independent implementation does not decrypt kit's output to the plaintext", rpe)
			} else {
				rec.Count("sym.interop.reference_decrypts_kit", 1)
			}

			// round trip through kit
			d := kDec("DecryptSymmetric", a.name, jk, nonce, e.ct, e.tag, aad)
			if j.accept("DecryptSymmetric", a.name, "own-output", d.err, d.pan, rpe) {
				if !bytes.Equal(d.pt, pt) {
					j.viol(sigOf("DecryptSymmetric", a.name, "roundtrip-plaintext-differs"), "Decrypt(Encrypt(p)) != p", rpe)
				} else {
					rec.Count("sym.roundtrip.ok", 1)
					if L == 17 && aad != nil && rec.WantSample() {
						rec.Sample(map[string]any{"clause": "roundtrip+interop", "algorithm": a.name, "key": hx(key), "nonce": hx(nonce), "aad": hx(aad), "plaintext": hx(pt),
							"kit_ciphertext": hx(e.ct), "kit_tag": hx(e.tag), "equals_reference": bytes.Equal(e.ct, rct) && bytes.Equal(e.tag, rtag), "kit_decrypts_reference_output": bytes.Equal(d2.pt, pt)})
					}
				}
			}

			// the generic dispatcher
			ge := kEnc("Encrypt", a.name, jk, nonce, pt, aad)
			if a.fam == famNOPAD && errors.Is(ge.err, kc.ErrUnsupportedAlgorithm) {
				j.n++
				rec.Count("observed.dispatcher.nopad_refused", 1)
				rec.Observe("crypto.Encrypt/Decrypt answer ErrUnsupportedAlgorithm for the -NOPAD names that SupportedSymmetricAlgorithms() lists (a safe refusal; round trips for them go through EncryptSymmetric/DecryptSymmetric); not judged")
				gd := kDec("Decrypt", a.name, jk, nonce, e.ct, e.tag, aad)
				j.noPanic("Decrypt", a.name, "nopad", gd.pan, rpe)
				continue
			}
			if j.accept("Encrypt", a.name, "encrypt", ge.err, ge.pan, rp) {
				if !bytes.Equal(ge.ct, e.ct) || !bytes.Equal(ge.tag, e.tag) {
					j.viol(sigOf("Encrypt", a.name, "dispatcher-output-differs-from-EncryptSymmetric"), "crypto.Encrypt and crypto.EncryptSymmetric disagree on the same input", rpe)
				}
			}
			gd := kDec("Decrypt", a.name, jk, nonce, e.ct, e.tag, aad)
			if j.accept("Decrypt", a.name, "own-output", gd.err, gd.pan, rpe) {
				if !bytes.Equal(gd.pt, pt) {
					j.viol(sigOf("Decrypt", a.name, "roundtrip-plaintext-differs"), "crypto.Decrypt(crypto.Encrypt(p)) != p", rpe)
				} else {
					rec.Count("sym.roundtrip.dispatcher.ok", 1)
				}
			}
		}
	}
}

// ------------------------------------------------------------ (c) tamper

type comp struct {
	name string
	val  []byte
}

func tamperLens(a symAlg) []int {
	switch a.fam {
	case famKW:
		if mon.Thorough() {
			return []int{16, 24, 32, 40, 64}
		}
		return []int{16, 40}
	case famNOPAD:
		if mon.Thorough() {
			return []int{16, 32, 48, 64}
		}
		return []int{16, 48}
	}
	if mon.Thorough() {
		return []int{0, 1, 15, 16, 17, 32, 47, 64}
	}
	return []int{0, 17, 48}
}

func runSymTamper(j *judge, g group) {
	a, ok := symInfo(j, g.alg)
	if !ok {
		return
	}
	rng := mon.NewRNG("c03-sym-tamper", j.idx)
	for mi, L := range tamperLens(a) {
		rec.Progress()
		key := rng.Bytes(a.keyLen)
		jk := octKey(key)
		nonce := nonceFor(rng, a)
		pt := rng.Bytes(L)
		var aad []byte
		if a.tagLen > 0 && mi%2 == 0 {
			aad = rng.Bytes(13)
		}
		e := kEnc("EncryptSymmetric", a.name, jk, nonce, pt, aad)
		if !j.accept("EncryptSymmetric", a.name, "encrypt", e.err, e.pan, rpm("algorithm", a.name, "key", key, "nonce", nonce, "plaintext", pt, "aad", aad)) {
			continue
		}
		var comps []comp
		switch a.fam {
		case famKW:
			comps = []comp{{"wrapped-key", e.ct}}
		case famCBC, famNOPAD:
			comps = []comp{{"ciphertext", e.ct}, {"nonce", nonce}}
		default:
			comps = []comp{{"ciphertext", e.ct}, {"tag", e.tag}, {"nonce", nonce}, {"aad", aad}}
		}
		try1 := func(ci int, mutated []byte, shape, detail string) bool {
			in := [4][]byte{e.ct, e.tag, nonce, aad}
			switch comps[ci].name {
			case "wrapped-key", "ciphertext":
				in[0] = mutated
			case "tag":
				in[1] = mutated
			case "nonce":
				in[2] = mutated
			case "aad":
				in[3] = mutated
			}
			d := kDec("DecryptSymmetric", a.name, jk, in[2], in[0], in[1], in[3])
			rp := rpm("algorithm", a.name, "key", key, "plaintext", pt, "valid_ciphertext", e.ct, "valid_tag", e.tag, "valid_nonce", nonce, "valid_aad", aad,
				"mutation", detail, "ciphertext", in[0], "tag", in[1], "nonce", in[2], "aad", in[3], "kit_plaintext", d.pt, "kit_err", d.err)
			if a.auth {
				ok := j.reject("DecryptSymmetric", a.name, shape, [][]byte{d.pt}, d.err, d.pan, nil, rp)
				if ok {
					rec.Count("sym.tamper.rejected", 1)
					if shape == "tag-bit-flip" && mi == 1 && j.spare < 0 && strings.HasPrefix(detail, "tag byte 0 ") && rec.WantSample() {
						rec.Sample(map[string]any{"clause": "tamper", "algorithm": a.name, "key": hx(key), "nonce": hx(in[2]), "aad": hx(in[3]), "ciphertext": hx(in[0]), "tag": hx(in[1]),
							"valid_tag": hx(e.tag), "mutation": detail, "kit_error": errStr(d.err), "kit_output": hx(d.pt)})
					}
				}
				return ok
			}
			// plain CBC is not authenticated, a modified message is not "rejected"; but kit must still do what an
			// independent CBC(+PKCS#7) implementation does with these bytes
			if len(in[2]) == 16 && len(in[0]) > 0 && len(in[0])%16 == 0 {
				want, valid := refDec(a, key, in[2], in[0], nil, nil)
				if !valid {
					if !j.reject("DecryptSymmetric", a.name, "invalid-padding", [][]byte{d.pt}, d.err, d.pan, nil, rp) {
						return false
					}
					rec.Count("padding.cbc.invalid_rejected", 1)
					return true
				}
				if !j.accept("DecryptSymmetric", a.name, shape, d.err, d.pan, rp) {
					return false
				}
				if !bytes.Equal(d.pt, want) {
					j.viol(sigOf("DecryptSymmetric", a.name, "interop-reference-output-decrypts-differently"), "kit and the reference decrypt the same modified blocks to different plaintexts", rp)
					return false
				}
				rec.Count("observed.cbc.tamper.undetected", 1)
				return true
			}
			if !j.noPanic("DecryptSymmetric", a.name, shape, d.pan, rp) {
				return false
			}
			if d.err == nil {
				rec.Count("observed.cbc.tamper.undetected", 1)
			} else {
				rec.Count("observed.cbc.tamper.error", 1)
			}
			return true
		}
		try := func(ci int, mutated []byte, shape, detail string) {
			j.eachLayout("tamper", a.tagLen, func() bool { return try1(ci, mutated, shape, detail) })
		}
		for ci, c := range comps {
			for i := range c.val {
				for _, bit := range bitsFor(i, g.rep) {
					try(ci, flip(c.val, i, bit), c.name+"-bit-flip", fmt.Sprintf("%s byte %d bit %d flipped", c.name, i, bit))
				}
			}
			for k := 1; k <= 8; k++ {
				if len(c.val) >= k {
					try(ci, clone(c.val[:len(c.val)-k]), c.name+"-truncated", fmt.Sprintf("%s shortened by %d bytes", c.name, k))
				}
				ext := append(clone(c.val), rng.Bytes(k)...)
				shape := c.name + "-extended"
				if a.fam == famKW && k < 8 {
					shape = "trailing-bytes"
				}
				try(ci, ext, shape, fmt.Sprintf("%s extended by %d bytes", c.name, k))
			}
		}
	}
}

// ------------------------------------------------------------ (d) key sizes and kinds

var keySizes = []int{0, 8, 15, 16, 17, 24, 32, 33, 48, 64}

func wrongKindsForSym() []namedKey {
	k := keys()
	return []namedKey{
		{"rsa-private", k.jRSAPriv}, {"rsa-public", k.jRSAPub},
		{"ec-private", k.jEC["P-256"]}, {"ec-public", k.jECPub["P-256"]},
		{"okp-ed25519-private", k.jEdPriv}, {"okp-ed25519-public", k.jEdPub},
		{"okp-x25519-private", k.jXPriv}, {"okp-x25519-public", k.jXPub},
	}
}

func runSymKeys(j *judge, g group) {
	a, ok := symInfo(j, g.alg)
	if !ok {
		return
	}
	rng := mon.NewRNG("c03-sym-keys", j.idx)
	pt := rng.Bytes(32)
	nonce := nonceFor(rng, a)
	ct := rng.Bytes(32)
	if a.fam == famKW {
		ct = rng.Bytes(40)
	}
	var tag []byte
	if a.tagLen > 0 {
		tag = rng.Bytes(a.tagLen)
	}
	mismatch := []error{kc.ErrKeyTypeMismatch}
	oneKey := func(shape string, jk jwk.Key, keyDesc any, right bool) {
		for _, via := range [][2]string{{"EncryptSymmetric", "DecryptSymmetric"}, {"Encrypt", "Decrypt"}} {
			want := mismatch
			if a.fam == famNOPAD && via[0] == "Encrypt" {
				// the dispatcher refuses the -NOPAD names (observed, see roundtrip): either sentinel applies
				want = []error{kc.ErrKeyTypeMismatch, kc.ErrUnsupportedAlgorithm}
			}
			rp := rpm("algorithm", a.name, "key", keyDesc, "nonce", nonce, "plaintext", pt, "ciphertext", ct, "tag", tag)
			j.eachLayout("wrongsize", a.tagLen, func() bool {
				e := kEnc(via[0], a.name, jk, nonce, pt, nil)
				d := kDec(via[1], a.name, jk, nonce, ct, tag, nil)
				if right {
					ok := true
					if a.fam == famNOPAD && via[0] == "Encrypt" {
						ok = j.noPanic(via[0], a.name, shape, e.pan, rp)
					} else if ok = j.accept(via[0], a.name, shape, e.err, e.pan, rp); ok {
						rec.Count("keys.right_size_accepted", 1)
					}
					return j.noPanic(via[1], a.name, shape, d.pan, rp) && ok
				}
				ok1 := j.reject(via[0], a.name, shape, [][]byte{e.ct, e.tag}, e.err, e.pan, want, rp)
				ok2 := j.reject(via[1], a.name, shape, [][]byte{d.pt}, d.err, d.pan, want, rp)
				if ok1 && ok2 {
					rec.Count("keys.wrong_rejected", 2)
				}
				return ok1 && ok2
			})
		}
	}
	for _, size := range keySizes {
		kb := rng.Bytes(size)
		jk := octKey(kb)
		if jk == nil {
			rec.Count("observed.keys.size0_not_constructible", 1)
			continue
		}
		oneKey(fmt.Sprintf("key-size-%d", size), jk, kb, size == a.keyLen)
	}
	for _, wk := range wrongKindsForSym() {
		oneKey("key-kind-"+wk.name, wk.key, wk.key, false)
	}
}

// ------------------------------------------------------------ (d) nonce and tag lengths

func runSymNonceTag(j *judge, g group) {
	a, ok := symInfo(j, g.alg)
	if !ok {
		return
	}
	rng := mon.NewRNG("c03-sym-noncetag", j.idx)
	key := rng.Bytes(a.keyLen)
	jk := octKey(key)
	pt := rng.Bytes(32)
	aad := rng.Bytes(7)
	good := nonceFor(rng, a)
	e := kEnc("EncryptSymmetric", a.name, jk, good, pt, aad)
	if !j.accept("EncryptSymmetric", a.name, "encrypt", e.err, e.pan, rpm("algorithm", a.name, "key", key, "nonce", good, "plaintext", pt, "aad", aad)) {
		return
	}
	sized := func(base []byte, n int) []byte {
		if n <= len(base) {
			return clone(base[:n])
		}
		return append(clone(base), rng.Bytes(n-len(base))...)
	}
	for n := 0; n <= 32; n++ {
		variants := [][]byte{sized(good, n)}
		if n == 0 {
			variants = [][]byte{nil, {}}
		}
		for _, nonce := range variants {
			shape := fmt.Sprintf("nonce-len-%d", n)
			rp := rpm("algorithm", a.name, "key", key, "nonce", nonce, "plaintext", pt, "aad", aad, "ciphertext", e.ct, "tag", e.tag)
			j.eachLayout("wrongsize", a.tagLen, func() bool {
				ee := kEnc("EncryptSymmetric", a.name, jk, nonce, pt, aad)
				dd := kDec("DecryptSymmetric", a.name, jk, nonce, e.ct, e.tag, aad)
				switch {
				case a.nonceLen == 0:
					// AES-KW takes no nonce; whatever is passed is ignored (not judged)
					ok1 := j.noPanic("EncryptSymmetric", a.name, shape, ee.pan, rp)
					ok2 := j.noPanic("DecryptSymmetric", a.name, shape, dd.pan, rp)
					if ee.err == nil && dd.err == nil {
						rec.Count("observed.kw.nonce_ignored", 1)
					}
					return ok1 && ok2
				case n == a.nonceLen:
					ok1 := j.accept("EncryptSymmetric", a.name, shape, ee.err, ee.pan, rp)
					ok2 := j.accept("DecryptSymmetric", a.name, shape, dd.err, dd.pan, rp)
					if ok2 && !bytes.Equal(dd.pt, pt) {
						j.viol(sigOf("DecryptSymmetric", a.name, "roundtrip-plaintext-differs"), "Decrypt(Encrypt(p)) != p", rp)
						ok2 = false
					}
					return ok1 && ok2
				}
				ok1 := j.reject("EncryptSymmetric", a.name, shape, [][]byte{ee.ct, ee.tag}, ee.err, ee.pan, []error{kc.ErrInvalidNonce}, rp)
				ok2 := j.reject("DecryptSymmetric", a.name, shape, [][]byte{dd.pt}, dd.err, dd.pan, []error{kc.ErrInvalidNonce}, rp)
				if ok1 && ok2 {
					rec.Count("nonce.wrong_len_rejected", 2)
				}
				return ok1 && ok2
			})
		}
	}
	for n := 0; n <= 32; n++ {
		variants := [][]byte{sized(e.tag, n)}
		if n == 0 {
			variants = [][]byte{nil, {}}
		}
		for _, tag := range variants {
			shape := fmt.Sprintf("tag-len-%d", n)
			rp := rpm("algorithm", a.name, "key", key, "nonce", good, "plaintext", pt, "aad", aad, "ciphertext", e.ct, "valid_tag", e.tag, "tag", tag)
			j.eachLayout("wrongsize", a.tagLen, func() bool {
				dd := kDec("DecryptSymmetric", a.name, jk, good, e.ct, tag, aad)
				switch {
				case a.tagLen == 0:
					// no tag in this algorithm: whatever is passed is ignored (not judged)
					if !j.noPanic("DecryptSymmetric", a.name, shape, dd.pan, rp) {
						return false
					}
					if dd.err == nil && bytes.Equal(dd.pt, pt) {
						rec.Count("observed.untagged.tag_ignored", 1)
					}
					return true
				case n == a.tagLen:
					if !j.accept("DecryptSymmetric", a.name, shape, dd.err, dd.pan, rp) {
						return false
					}
					if !bytes.Equal(dd.pt, pt) {
						j.viol(sigOf("DecryptSymmetric", a.name, "roundtrip-plaintext-differs"), "Decrypt(Encrypt(p)) != p", rp)
						return false
					}
					return true
				}
				if !j.reject("DecryptSymmetric", a.name, shape, [][]byte{dd.pt}, dd.err, dd.pan, []error{kc.ErrInvalidTag}, rp) {
					return false
				}
				rec.Count("tag.wrong_len_rejected", 1)
				return true
			})
		}
	}
	// several things wrong at once: any applicable sentinel
	if a.nonceLen > 0 {
		badNonce := sized(good, a.nonceLen+1)
		badKey := octKey(rng.Bytes(a.keyLen + 1))
		rp := rpm("algorithm", a.name, "nonce", badNonce, "note", "key one byte too long and nonce one byte too long")
		j.eachLayout("wrongsize", a.tagLen, func() bool {
			ee := kEnc("EncryptSymmetric", a.name, badKey, badNonce, pt, aad)
			return j.reject("EncryptSymmetric", a.name, "key-size-and-nonce-len-wrong", [][]byte{ee.ct, ee.tag}, ee.err, ee.pan, []error{kc.ErrKeyTypeMismatch, kc.ErrInvalidNonce}, rp)
		})
		if a.tagLen > 0 {
			badTag := sized(e.tag, a.tagLen-1)
			j.eachLayout("wrongsize", a.tagLen, func() bool {
				dd := kDec("DecryptSymmetric", a.name, jk, badNonce, e.ct, badTag, aad)
				return j.reject("DecryptSymmetric", a.name, "nonce-and-tag-len-wrong", [][]byte{dd.pt}, dd.err, dd.pan, []error{kc.ErrInvalidNonce, kc.ErrInvalidTag},
					rpm("algorithm", a.name, "key", key, "nonce", badNonce, "ciphertext", e.ct, "tag", badTag, "aad", aad))
			})
		}
	}
}

// ------------------------------------------------------------ (d) ciphertext lengths

func ctLengths() []int {
	var ls []int
	for l := 0; l <= mon.Pick(65, 80); l++ {
		ls = append(ls, l)
	}
	return ls
}

var kwIVBytes = []byte{0xA6, 0xA6, 0xA6, 0xA6, 0xA6, 0xA6, 0xA6, 0xA6}

func runSymCtLen(j *judge, g group) {
	a, ok := symInfo(j, g.alg)
	if !ok {
		return
	}
	rng := mon.NewRNG("c03-sym-ctlen", j.idx)
	key := rng.Bytes(a.keyLen)
	jk := octKey(key)
	for _, L := range ctLengths() {
		rec.Progress()
		ct := rng.Bytes(L)
		nonce := nonceFor(rng, a)
		var tag, aad []byte
		if a.tagLen > 0 {
			tag = rng.Bytes(a.tagLen)
			if L%2 == 1 {
				aad = rng.Bytes(5)
			}
		}
		j.eachLayout("wrongsize", a.tagLen, func() bool { return ctLenCase(j, a, key, jk, L, ct, nonce, tag, aad) })
	}
	if a.fam == famKW {
		// short inputs that start with the RFC 3394 integrity value
		for k := 0; k <= 7; k++ {
			ct := append(clone(kwIVBytes), rng.Bytes(k)...)
			j.eachLayout("wrongsize", 0, func() bool {
				d := kDec("DecryptSymmetric", a.name, jk, nil, ct, nil, nil)
				if !j.reject("DecryptSymmetric", a.name, "input-shorter-than-16", [][]byte{d.pt}, d.err, d.pan, nil, rpm("algorithm", a.name, "key", key, "ciphertext", ct)) {
					return false
				}
				rec.Count("ctlen.kw.rejected", 1)
				return true
			})
		}
	}
}

// ctLenCase: one (algorithm, ciphertext length) case of the wrong-size clause in the current buffer layout.
func ctLenCase(j *judge, a symAlg, key []byte, jk jwk.Key, L int, ct, nonce, tag, aad []byte) bool {
	d := kDec("DecryptSymmetric", a.name, jk, nonce, ct, tag, aad)
	rp := rpm("algorithm", a.name, "key", key, "nonce", nonce, "ciphertext", ct, "tag", tag, "aad", aad, "kit_plaintext", d.pt, "kit_err", d.err)
	outs := [][]byte{d.pt}
	switch a.fam {
	case famCBC, famNOPAD:
		if L%16 != 0 {
			if !j.reject("DecryptSymmetric", a.name, "ciphertext-len-not-block-multiple", outs, d.err, d.pan, []error{kc.ErrInvalidCiphertextLength}, rp) {
				return false
			}
			rec.Count("ctlen.cbc.nonblock_rejected", 1)
			return true
		}
		want, valid := refDec(a, key, nonce, ct, nil, nil)
		if valid {
			// these blocks ARE a well-formed ciphertext of `want` under an independent implementation
			if !j.accept("DecryptSymmetric", a.name, "well-formed-random-blocks", d.err, d.pan, rp) {
				return false
			}
			if !bytes.Equal(d.pt, want) {
				j.viol(sigOf("DecryptSymmetric", a.name, "interop-reference-output-decrypts-differently"), "kit and the reference decrypt the same blocks to different plaintexts", rp)
				return false
			}
			rec.Count("ctlen.cbc.valid_blocks_agree", 1)
			return true
		}
		if L > 0 {
			// whole blocks that do not end in a PKCS#7 padding: an independent implementation rejects them
			if !j.reject("DecryptSymmetric", a.name, "invalid-padding", outs, d.err, d.pan, nil, rp) {
				return false
			}
			rec.Count("padding.cbc.invalid_rejected", 1)
			return true
		}
		// no block at all: kit's unpadder lets the empty buffer through (observed, see padding-direct)
		if !j.noPanic("DecryptSymmetric", a.name, "empty-ciphertext", d.pan, rp) {
			return false
		}
		if d.err == nil {
			rec.Count("observed.cbc.empty_ciphertext.accepted", 1)
			rec.Observe("AES-CBC (PKCS#7): DecryptSymmetric of an empty ciphertext returns an empty plaintext and no error (an independent unpadder rejects it: a padded ciphertext has at least one block); not judged")
		} else {
			rec.Count("observed.cbc.empty_ciphertext.error", 1)
		}
		return true
	case famGCM, famC20P, famXC20P:
		if !j.reject("DecryptSymmetric", a.name, "forged-ciphertext", outs, d.err, d.pan, nil, rp) {
			return false
		}
		rec.Count("ctlen.forged_rejected", 1)
		return true
	case famHS:
		if !j.reject("DecryptSymmetric", a.name, "forged-ciphertext", outs, d.err, d.pan, nil, rp) {
			return false
		}
		rec.Count("ctlen.forged_rejected", 1)
		// the same bytes with a CORRECT tag (made by the reference composition): wrong-size ciphertexts must still give an error
		vtag := refHSTag(hsTable[a.name], key, nonce, ct, aad)
		d2 := kDec("DecryptSymmetric", a.name, jk, nonce, ct, vtag, aad)
		rp2 := rpm("algorithm", a.name, "key", key, "nonce", nonce, "ciphertext", ct, "tag", vtag, "aad", aad, "kit_plaintext", d2.pt, "kit_err", d2.err, "note", "tag is the correct HMAC over this ciphertext")
		switch {
		case L%16 != 0:
			if !j.reject("DecryptSymmetric", a.name, "valid-mac-ciphertext-len-not-block-multiple", [][]byte{d2.pt}, d2.err, d2.pan, nil, rp2) {
				return false
			}
			rec.Count("ctlen.hs.validmac_nonblock_rejected", 1)
		case L == 0:
			if !j.noPanic("DecryptSymmetric", a.name, "valid-mac-empty-ciphertext", d2.pan, rp2) {
				return false
			}
			if d2.err == nil {
				rec.Count("observed.hs.validmac_empty_ciphertext.accepted", 1)
				rec.Observe("AES-CBC-HMAC: a correctly MACed EMPTY ciphertext decrypts to an empty plaintext without error (RFC 7518 5.2.2 ciphertexts always contain a padding block; an independent implementation rejects it); needs the key to produce, not judged")
			}
		default:
			want, valid := refHSOpen(a.name, key, nonce, ct, vtag, aad)
			if valid {
				if !j.accept("DecryptSymmetric", a.name, "valid-mac-well-formed-blocks", d2.err, d2.pan, rp2) {
					return false
				}
				if !bytes.Equal(d2.pt, want) {
					j.viol(sigOf("DecryptSymmetric", a.name, "interop-reference-output-decrypts-differently"), "kit and the reference decrypt the same authentic blocks to different plaintexts", rp2)
					return false
				}
				return true
			}
			if !j.reject("DecryptSymmetric", a.name, "valid-mac-invalid-padding", [][]byte{d2.pt}, d2.err, d2.pan, nil, rp2) {
				return false
			}
			rec.Count("padding.hs.invalid_rejected", 1)
		}
		return true
	case famKW:
		shape := "forged-wrapped-key"
		switch {
		case L < 16:
			shape = "input-shorter-than-16"
		case L%8 != 0:
			shape = "ciphertext-len-not-multiple-of-8"
		}
		if !j.reject("DecryptSymmetric", a.name, shape, outs, d.err, d.pan, nil, rp) {
			return false
		}
		rec.Count("ctlen.kw.rejected", 1)
		return true
	}
	return true
}

// ------------------------------------------------------------ aeskw directly

func runKWDirect(j *judge, g group) {
	ksz := map[string]int{"16": 16, "24": 24, "32": 32}[g.alg]
	rng := mon.NewRNG("c03-aeskw", j.idx)
	kek := rng.Bytes(ksz)
	blk, err := aes.NewCipher(kek)
	if err != nil {
		rec.Fatalf("aes.NewCipher: %v", err)
	}
	for _, L := range ptLengths() {
		cek := rng.Bytes(L)
		rp := rpm("kek", kek, "cek", cek)
		switch {
		case L%8 != 0:
			j.eachLayout("wrongsize", 0, func() bool {
				w := kWrap(blk, cek)
				return j.reject("aeskw.Wrap", "", "cek-len-not-multiple-of-8", [][]byte{w.out}, w.err, w.pan, nil, rp)
			})
			continue
		case L < 16:
			j.eachLayout("wrongsize", 0, func() bool {
				w := kWrap(blk, cek)
				if !j.noPanic("aeskw.Wrap", "", "cek-shorter-than-16", w.pan, rp) {
					return false
				}
				if w.err == nil {
					rec.Count("observed.kw.short_plaintext.accepted", 1)
				}
				return true
			})
			continue
		}
		w := kWrap(blk, cek)
		ref := refWrap(kek, cek)
		if j.accept("aeskw.Wrap", "", "wrap", w.err, w.pan, rp) {
			if !bytes.Equal(w.out, ref) {
				j.viol("aeskw.Wrap/interop-differs-from-reference", "aeskw.Wrap differs from the independent RFC 3394 implementation", rpm("kek", kek, "cek", cek, "kit", w.out, "ref", ref))
			} else {
				rec.Count("sym.interop.kit_equals_reference", 1)
			}
			if p, ok := refUnwrap(kek, w.out); !ok || !bytes.Equal(p, cek) {
				j.viol("aeskw.Wrap/interop-reference-cannot-unwrap-kit-output", "the independent RFC 3394 implementation does not unwrap kit's output", rpm("kek", kek, "cek", cek, "kit", w.out))
			}
			u := kUnwrap(blk, w.out)
			if j.accept("aeskw.Unwrap", "", "own-output", u.err, u.pan, rp) {
				if !bytes.Equal(u.out, cek) {
					j.viol("aeskw.Unwrap/roundtrip-differs", "Unwrap(Wrap(k)) != k", rp)
				} else {
					rec.Count("sym.roundtrip.ok", 1)
				}
			}
		}
		j.eachLayout("valid", 0, func() bool {
			u2 := kUnwrap(blk, ref)
			if !j.accept("aeskw.Unwrap", "", "reference-output", u2.err, u2.pan, rp) {
				return false
			}
			if !bytes.Equal(u2.out, cek) {
				j.viol("aeskw.Unwrap/interop-reference-output-unwraps-differently", "kit unwraps the reference's output to a different key", rp)
				return false
			}
			rec.Count("sym.interop.kit_decrypts_reference", 1)
			return true
		})
	}
	for _, L := range []int{16, 40} {
		cek := rng.Bytes(L)
		wrapped := refWrap(kek, cek)
		try := func(in []byte, shape, detail string) {
			j.eachLayout("tamper", 0, func() bool {
				u := kUnwrap(blk, in)
				if !j.reject("aeskw.Unwrap", "", shape, [][]byte{u.out}, u.err, u.pan, nil, rpm("kek", kek, "cek", cek, "valid_wrapped", wrapped, "mutation", detail, "input", in, "kit_output", u.out)) {
					return false
				}
				rec.Count("sym.tamper.rejected", 1)
				return true
			})
		}
		for i := range wrapped {
			for _, bit := range bitsFor(i, g.rep) {
				try(flip(wrapped, i, bit), "wrapped-key-bit-flip", fmt.Sprintf("byte %d bit %d flipped", i, bit))
			}
		}
		for k := 1; k <= 8; k++ {
			try(clone(wrapped[:len(wrapped)-k]), "wrapped-key-truncated", fmt.Sprintf("shortened by %d bytes", k))
			shape := "trailing-bytes"
			if k == 8 {
				shape = "wrapped-key-extended"
			}
			try(append(clone(wrapped), rng.Bytes(k)...), shape, fmt.Sprintf("%d bytes appended", k))
		}
	}
	for L := 0; L <= 72; L++ {
		in := rng.Bytes(L)
		shape := "forged-wrapped-key"
		switch {
		case L < 16:
			shape = "input-shorter-than-16"
		case L%8 != 0:
			shape = "input-len-not-multiple-of-8"
		}
		j.eachLayout("wrongsize", 0, func() bool {
			u := kUnwrap(blk, in)
			return j.reject("aeskw.Unwrap", "", shape, [][]byte{u.out}, u.err, u.pan, nil, rpm("kek", kek, "input", in))
		})
	}
	for k := 0; k <= 7; k++ {
		in := append(clone(kwIVBytes), rng.Bytes(k)...)
		j.eachLayout("wrongsize", 0, func() bool {
			u := kUnwrap(blk, in)
			return j.reject("aeskw.Unwrap", "", "input-shorter-than-16", [][]byte{u.out}, u.err, u.pan, nil, rpm("kek", kek, "input", in))
		})
	}
}

// ------------------------------------------------------------ aescbcaead directly

func runHSDirect(j *judge, g group) {
	ctors := map[string]func([]byte) (cipher.AEAD, error){
		"A128CBC-HS256": aescbcaead.NewAESCBC128SHA256,
		"A192CBC-HS384": aescbcaead.NewAESCBC192SHA384,
		"A256CBC-HS384": aescbcaead.NewAESCBC256SHA384,
		"A256CBC-HS512": aescbcaead.NewAESCBC256SHA512,
	}
	name := g.alg
	ctor := ctors[name]
	pr := hsTable[name]
	keyLen := pr.encLen + pr.macLen
	rng := mon.NewRNG("c03-aescbcaead", j.idx)
	for _, size := range append(append([]int{}, keySizes...), 47, 56, 63, 65) {
		if size == keyLen {
			continue
		}
		kb := rng.Bytes(size)
		var a cipher.AEAD
		var err error
		pan := ""
		func() {
			defer func() {
				if p := recover(); p != nil {
					pan = panStr(p)
				}
			}()
			a, err = ctor(kb)
		}()
		j.n++
		switch {
		case pan != "":
			j.viol(sigOf("aescbcaead.New", name, "key-size-wrong", "panic"), "constructor panicked on a key of the wrong size: "+pan, rpm("key", kb))
		case err == nil || a != nil:
			j.viol(sigOf("aescbcaead.New", name, fmt.Sprintf("key-size-%d-accepted", size)), fmt.Sprintf("constructor accepted a %d-byte key (needs %d)", size, keyLen), rpm("key", kb))
		default:
			rec.Count("rejected.any_error", 1)
		}
	}
	key := rng.Bytes(keyLen)
	aead, err := ctor(key)
	if err != nil {
		j.viol(sigOf("aescbcaead.New", name, "valid-input-rejected"), "constructor rejected a key of the right size: "+err.Error(), rpm("key", key))
		return
	}
	// does the constructed AEAD keep the caller's key slice? (a constructor, not a one-shot call: recorded, not judged)
	{
		kcopy := clone(key)
		if a2, err := ctor(kcopy); err == nil {
			wipe(kcopy)
			n0, p0 := rng.Bytes(16), rng.Bytes(20)
			rct, rtag := refHSSeal(name, key, n0, p0, nil)
			if s := kSeal(a2, n0, p0, nil); s.pan == "" && !bytes.Equal(s.out, append(clone(rct), rtag...)) {
				rec.Count("observed.aescbcaead.constructor_keeps_callers_key_slice", 1)
				rec.Observe("aescbcaead.NewAESCBC*(key) keeps sub-slices of the caller's key (macKey/encKey point into it) instead of copying: if the caller overwrites its key slice after constructing the AEAD, later Seal/Open use the overwritten key. The object legitimately needs the key for its lifetime and crypto.EncryptSymmetric/DecryptSymmetric build the AEAD per call from the JWK's bytes, so this is recorded, not judged")
			}
		}
	}
	if aead.NonceSize() != 16 || aead.Overhead() != pr.tagLen {
		j.viol(sigOf("aescbcaead", name, "sizes-differ-from-rfc"), fmt.Sprintf("NonceSize=%d Overhead=%d, RFC 7518: 16 / %d", aead.NonceSize(), aead.Overhead(), pr.tagLen), nil)
	}
	for _, L := range ptLengths() {
		rec.Progress()
		pt := rng.Bytes(L)
		nonce := rng.Bytes(16)
		var aad []byte
		if L%2 == 1 {
			aad = rng.Bytes(L % 23)
		}
		rct, rtag := refHSSeal(name, key, nonce, pt, aad)
		ref := append(clone(rct), rtag...)
		s := kSeal(aead, nonce, pt, aad)
		rp := rpm("construction", name, "key", key, "nonce", nonce, "plaintext", pt, "aad", aad, "kit_sealed", s.out, "ref_sealed", ref)
		if j.accept("aescbcaead.Seal", name, "seal", nil, s.pan, rp) {
			if !bytes.Equal(s.out, ref) {
				j.viol(sigOf("aescbcaead.Seal", name, "interop-differs-from-reference"), "Seal output differs from the independent RFC 7518 5.2.2 composition", rp)
			} else {
				rec.Count("sym.interop.kit_equals_reference", 1)
			}
		}
		j.eachLayout("valid", pr.tagLen, func() bool {
			o := kOpen(aead, nonce, ref, aad)
			if !j.accept("aescbcaead.Open", name, "reference-output", o.err, o.pan, rp) {
				return false
			}
			if !bytes.Equal(o.out, pt) {
				j.viol(sigOf("aescbcaead.Open", name, "interop-reference-output-decrypts-differently"), "Open(reference output) != plaintext", rp)
				return false
			}
			rec.Count("sym.interop.kit_decrypts_reference", 1)
			rec.Count("sym.roundtrip.ok", 1)
			return true
		})
	}
	for mi, L := range []int{0, 17} {
		pt := rng.Bytes(L)
		nonce := rng.Bytes(16)
		var aad []byte
		if mi == 1 {
			aad = rng.Bytes(11)
		}
		rct, rtag := refHSSeal(name, key, nonce, pt, aad)
		sealed := append(clone(rct), rtag...)
		try := func(n, s, a []byte, shape, detail string) {
			j.eachLayout("tamper", pr.tagLen, func() bool {
				o := kOpen(aead, n, s, a)
				if !j.reject("aescbcaead.Open", name, shape, [][]byte{o.out}, o.err, o.pan, nil,
					rpm("construction", name, "key", key, "valid_nonce", nonce, "valid_sealed", sealed, "valid_aad", aad, "mutation", detail, "nonce", n, "sealed", s, "aad", a, "kit_output", o.out)) {
					return false
				}
				rec.Count("sym.tamper.rejected", 1)
				return true
			})
		}
		for i := range sealed {
			shape := "ciphertext-bit-flip"
			if i >= len(sealed)-pr.tagLen {
				shape = "tag-bit-flip"
			}
			for _, bit := range bitsFor(i, g.rep) {
				try(nonce, flip(sealed, i, bit), aad, shape, fmt.Sprintf("sealed (ciphertext||tag) byte %d bit %d", i, bit))
			}
		}
		for i := range nonce {
			for _, bit := range bitsFor(i, g.rep) {
				try(flip(nonce, i, bit), sealed, aad, "nonce-bit-flip", fmt.Sprintf("nonce byte %d bit %d", i, bit))
			}
		}
		for i := range aad {
			for _, bit := range bitsFor(i, g.rep) {
				try(nonce, sealed, flip(aad, i, bit), "aad-bit-flip", fmt.Sprintf("aad byte %d bit %d", i, bit))
			}
		}
		for k := 1; k <= 8; k++ {
			try(nonce, clone(sealed[:len(sealed)-k]), aad, "sealed-truncated", fmt.Sprintf("sealed shortened by %d", k))
			try(nonce, append(clone(sealed), rng.Bytes(k)...), aad, "sealed-extended", fmt.Sprintf("sealed extended by %d", k))
			try(nonce, sealed, append(clone(aad), rng.Bytes(k)...), "aad-extended", fmt.Sprintf("aad extended by %d", k))
			if len(aad) >= k {
				try(nonce, sealed, clone(aad[:len(aad)-k]), "aad-truncated", fmt.Sprintf("aad shortened by %d", k))
			}
		}
	}
	if name == "A256CBC-HS384" {
		// correctly MACed block strings with every kind of final padding (the three named constructions get this in sym-padding)
		for _, pc := range paddingCases(rng, 16) {
			iv := rng.Bytes(16)
			want, valid := refUnpadN(pc.raw, 16)
			e := refCBCEnc(key[pr.macLen:], iv, pc.raw)
			sealed := append(clone(e), refHSTag(pr, key, iv, e, nil)...)
			rp := rpm("construction", name, "key", key, "nonce", iv, "sealed", sealed, "final_plaintext_blocks", pc.raw, "detail", pc.detail, "reference_accepts", valid, "note", "the tag is the correct HMAC over this ciphertext")
			j.eachLayout("padding", pr.tagLen, func() bool {
				o := kOpen(aead, iv, sealed, nil)
				if valid {
					if !j.accept("aescbcaead.Open", name, "valid-mac-valid-padding", o.err, o.pan, rp) {
						return false
					}
					if !bytes.Equal(o.out, want) {
						j.viol(sigOf("aescbcaead.Open", name, "interop-reference-output-decrypts-differently"), "kit and the reference open the same authentic blocks to different plaintexts", rp)
						return false
					}
					rec.Count("padding.hs.valid_accepted", 1)
					return true
				}
				if !j.reject("aescbcaead.Open", name, "valid-mac-invalid-padding", [][]byte{o.out}, o.err, o.pan, nil, rp) {
					return false
				}
				rec.Count("padding.hs.invalid_rejected", 1)
				return true
			})
		}
	}
	nonce := rng.Bytes(16)
	for L := 0; L < pr.tagLen; L++ {
		in := rng.Bytes(L)
		j.eachLayout("wrongsize", pr.tagLen, func() bool {
			o := kOpen(aead, nonce, in, nil)
			return j.reject("aescbcaead.Open", name, "sealed-shorter-than-tag", [][]byte{o.out}, o.err, o.pan, nil, rpm("construction", name, "key", key, "nonce", nonce, "sealed", in))
		})
	}
	// correctly MACed ciphertexts of a wrong size
	for L := 0; L <= 33; L++ {
		if L%16 == 0 && L > 0 {
			continue
		}
		e := rng.Bytes(L)
		sealed := append(clone(e), refHSTag(pr, key, nonce, e, nil)...)
		rp := rpm("construction", name, "key", key, "nonce", nonce, "sealed", sealed, "note", "the tag is the correct HMAC over this ciphertext")
		j.eachLayout("wrongsize", pr.tagLen, func() bool {
			o := kOpen(aead, nonce, sealed, nil)
			if L == 0 {
				if !j.noPanic("aescbcaead.Open", name, "valid-mac-empty-ciphertext", o.pan, rp) {
					return false
				}
				if o.err == nil {
					rec.Count("observed.hs.validmac_empty_ciphertext.accepted", 1)
				}
				return true
			}
			if !j.reject("aescbcaead.Open", name, "valid-mac-ciphertext-len-not-block-multiple", [][]byte{o.out}, o.err, o.pan, nil, rp) {
				return false
			}
			rec.Count("ctlen.hs.validmac_nonblock_rejected", 1)
			return true
		})
	}
}

// ------------------------------------------------------------ padding directly

func kPad1(buf []byte, size int) rawRes {
	in := lay(buf)
	return rawCall("padding.PadPKCS7", rpm("input", buf, "block_size", size), [][]byte{in}, "padded buffer", func() ([]byte, error) { return padding.PadPKCS7(in, size) })
}

// kUnpad: UnpadPKCS7 returns a prefix of the buffer it is given (like
// bytes.TrimRight); that is its documented shape in every version of the code,
// not a defect, so the result is copied out BEFORE the input is overwritten and
// the sharing is only counted.
func kUnpad(buf []byte, size int) (r rawRes) {
	in := lay(buf)
	var live []byte
	call := func() (r rawRes) {
		defer func() {
			if p := recover(); p != nil {
				r = rawRes{pan: panStr(p)}
			}
		}()
		out, err := padding.UnpadPKCS7(in, size)
		live = out
		r.out, r.err = clone(out), err
		return r
	}
	r = call()
	repeatCheck("padding.UnpadPKCS7", "", rpm("input", buf, "block_size", size), r, call, diffRaw)
	if r.pan != "" {
		return r
	}
	wipe(in)
	wipedCalls++
	wipedInputs++
	if len(live) > 0 && !bytes.Equal(live, r.out) {
		unpadShares++
	}
	recheckRetained("padding.UnpadPKCS7", "")
	return r
}

var unpadShares int64

// runPaddingDirect: kit's PKCS#7 against the in-harness one, every case in every buffer layout.
func runPaddingDirect(j *judge, g group) {
	rng := mon.NewRNG("c03-padding", j.idx)
	for _, L := range ptLengths() {
		if L > 4096 {
			continue
		}
		buf := rng.Bytes(L)
		want := refPad(buf)
		rp := rpm("input", buf, "reference_padded", want)
		j.eachLayout("padding", 0, func() bool {
			p := kPad(buf, 16)
			if !j.accept("padding.PadPKCS7", "", "pad", p.err, p.pan, rp) {
				return false
			}
			if !bytes.Equal(p.out, want) {
				j.viol("padding.PadPKCS7/interop-differs-from-reference", "PadPKCS7 differs from the independent PKCS#7 padder", rpm("input", buf, "kit", p.out, "reference", want))
				return false
			}
			u := kUnpad(want, 16)
			if !j.accept("padding.UnpadPKCS7", "", "reference-output", u.err, u.pan, rp) {
				return false
			}
			if !bytes.Equal(u.out, buf) {
				j.viol("padding.UnpadPKCS7/roundtrip-differs", "UnpadPKCS7(pad(x)) != x", rpm("input", buf, "padded", want, "kit", u.out))
				return false
			}
			rec.Count("padding.roundtrip.ok", 1)
			return true
		})
	}
	// wrong size: not a whole number of blocks
	for L := 1; L <= 65; L++ {
		if L%16 == 0 {
			continue
		}
		in := rng.Bytes(L)
		j.eachLayout("padding", 0, func() bool {
			u := kUnpad(in, 16)
			return j.reject("padding.UnpadPKCS7", "", "input-len-not-block-multiple", [][]byte{u.out}, u.err, u.pan, nil, rpm("input", in))
		})
	}
	// degenerate block sizes: the statement says nothing about them; no panic
	for _, size := range []int{-1, 0, 1, 255, 256, 1000} {
		in := rng.Bytes(32)
		j.eachLayout("padding", 0, func() bool {
			p := kPad(in, size)
			u := kUnpad(in, size)
			ok1 := j.noPanic("padding.PadPKCS7", "", fmt.Sprintf("block-size-%d", size), p.pan, rpm("input", in, "block_size", size))
			ok2 := j.noPanic("padding.UnpadPKCS7", "", fmt.Sprintf("block-size-%d", size), u.pan, rpm("input", in, "block_size", size))
			return ok1 && ok2
		})
	}
	// the unpadder judged differentially against the in-harness one (RFC 5652 6.3): block sizes 8 and 16, 1-4 blocks,
	// every value of the last byte, valid paddings, and valid paddings with one earlier padding byte damaged
	for _, size := range []int{8, 16} {
		for _, pc := range paddingCases(rng, size) {
			want, valid := refUnpadN(pc.raw, size)
			rp := rpm("block_size", size, "input", pc.raw, "shape", pc.shape, "detail", pc.detail, "reference_accepts", valid, "reference_output", want)
			j.eachLayout("padding", 0, func() bool {
				u := kUnpad(pc.raw, size)
				if valid {
					if !j.accept("padding.UnpadPKCS7", "", "valid-padding", u.err, u.pan, rp) {
						return false
					}
					if !bytes.Equal(u.out, want) {
						j.viol("padding.UnpadPKCS7/interop-differs-from-reference", "UnpadPKCS7 and the independent unpadder strip different paddings", rpm("block_size", size, "input", pc.raw, "kit", u.out, "reference", want))
						return false
					}
					rec.Count("padding.unpad.agree_accept", 1)
					return true
				}
				if !j.reject("padding.UnpadPKCS7", "", pc.shape, [][]byte{u.out}, u.err, u.pan, nil, rpm("block_size", size, "input", pc.raw, "detail", pc.detail, "kit_output", u.out)) {
					return false
				}
				rec.Count("padding.unpad.agree_reject", 1)
				return true
			})
		}
	}
	// the one place where kit and the reference differ on the unchanged tree: the empty buffer
	if u := kUnpad([]byte{}, 16); u.pan == "" && u.err == nil {
		rec.Count("observed.padding.empty_buffer.accepted", 1)
		rec.Observe("padding.UnpadPKCS7 returns (empty, nil) for an EMPTY buffer; RFC 5652 6.3 padding always adds 1..k bytes, so an empty buffer is not a padded message and an independent unpadder rejects it. The differential check covers 1-4 blocks; the empty case is recorded, not judged")
	}
}

type padCase struct {
	raw           []byte
	shape, detail string
}

// paddingCases: raw block strings (1-4 blocks of `size` bytes) whose tail is a
// PKCS#7 padding or a damaged one. shape names the class for signatures; the
// verdict always comes from the reference unpadder, not from the shape.
func paddingCases(rng *mon.RNG, size int) []padCase {
	var out []padCase
	for blocks := 1; blocks <= 4; blocks++ {
		base := rng.Bytes(size * blocks)
		last := len(base) - 1
		for v := 0; v <= 255; v++ {
			c := clone(base)
			c[last] = byte(v)
			shape := "pad-bytes-mismatch"
			switch {
			case v == 0:
				shape = "pad-byte-0x00"
			case v > size:
				shape = "pad-byte-greater-than-block-size"
			}
			out = append(out, padCase{c, shape, fmt.Sprintf("%d blocks, last byte 0x%02x, bytes before it random", blocks, v)})
			if v >= 1 && v <= size {
				good := clone(base)
				for i := len(good) - v; i < len(good); i++ {
					good[i] = byte(v)
				}
				out = append(out, padCase{good, "valid-padding", fmt.Sprintf("%d blocks, valid padding of %d", blocks, v)})
				if v >= 2 {
					// last byte valid, one earlier padding byte wrong
					seen := map[string]bool{}
					for _, pos := range []int{len(good) - v, len(good) - v + (v-1)/2, len(good) - 2} {
						for _, nv := range []byte{byte(v) ^ 1, 0, byte(v) - 1} {
							d := clone(good)
							d[pos] = nv
							if nv == byte(v) || seen[string(d)] {
								continue
							}
							seen[string(d)] = true
							out = append(out, padCase{d, "pad-bytes-mismatch", fmt.Sprintf("%d blocks, padding of %d with byte at offset %d set to 0x%02x", blocks, v, pos-len(good), nv)})
						}
					}
				}
			}
		}
	}
	return out
}

// runSymPadding: the same raw block strings one level up. AES-CBC (PKCS#7)
// ciphertexts are made with the reference's unpadded CBC, so the final
// plaintext bytes are chosen by the harness; AES-CBC-HMAC messages are made with
// the reference RFC 7518 composition around such a block string, so the MAC is
// CORRECT and only the padding decides. kit must accept exactly when the
// independent unpadder accepts (same plaintext), else return an error and no output.
func runSymPadding(j *judge, g group) {
	a, ok := symInfo(j, g.alg)
	if !ok {
		return
	}
	rng := mon.NewRNG("c03-sym-padding", j.idx)
	key := rng.Bytes(a.keyLen)
	jk := octKey(key)
	var aead cipher.AEAD
	if a.fam == famHS {
		aead = hsAEAD(j, a.name, key)
		if aead == nil {
			return
		}
	}
	for ci, pc := range paddingCases(rng, 16) {
		if ci%64 == 0 {
			rec.Progress()
		}
		iv := rng.Bytes(16)
		want, valid := refUnpadN(pc.raw, 16)
		switch a.fam {
		case famCBC:
			ct := refCBCEnc(key, iv, pc.raw)
			rp := rpm("algorithm", a.name, "key", key, "nonce", iv, "ciphertext", ct, "final_plaintext_blocks", pc.raw, "detail", pc.detail, "reference_accepts", valid)
			for _, via := range []string{"DecryptSymmetric", "Decrypt"} {
				j.eachLayout("padding", 0, func() bool {
					d := kDec(via, a.name, jk, iv, ct, nil, nil)
					if valid {
						if !j.accept(via, a.name, "valid-padding", d.err, d.pan, rp) {
							return false
						}
						if !bytes.Equal(d.pt, want) {
							j.viol(sigOf(via, a.name, "interop-reference-output-decrypts-differently"), "kit and the reference decrypt the same blocks to different plaintexts", rp)
							return false
						}
						rec.Count("padding.cbc.valid_accepted", 1)
						return true
					}
					if !j.reject(via, a.name, "invalid-padding", [][]byte{d.pt}, d.err, d.pan, nil, rp) {
						return false
					}
					rec.Count("padding.cbc.invalid_rejected", 1)
					return true
				})
			}
		case famHS:
			pr := hsTable[a.name]
			var aad []byte
			if ci%3 == 0 {
				aad = rng.Bytes(7)
			}
			e := refCBCEnc(key[pr.macLen:], iv, pc.raw)
			tag := refHSTag(pr, key, iv, e, aad)
			rp := rpm("algorithm", a.name, "key", key, "nonce", iv, "aad", aad, "ciphertext", e, "tag", tag, "final_plaintext_blocks", pc.raw, "detail", pc.detail,
				"reference_accepts", valid, "note", "the tag is the correct HMAC over this ciphertext")
			j.eachLayout("padding", a.tagLen, func() bool {
				d := kDec("DecryptSymmetric", a.name, jk, iv, e, tag, aad)
				o := kOpen(aead, iv, append(clone(e), tag...), aad)
				if valid {
					ok1 := j.accept("DecryptSymmetric", a.name, "valid-mac-valid-padding", d.err, d.pan, rp)
					ok2 := j.accept("aescbcaead.Open", a.name, "valid-mac-valid-padding", o.err, o.pan, rp)
					if ok1 && !bytes.Equal(d.pt, want) {
						j.viol(sigOf("DecryptSymmetric", a.name, "interop-reference-output-decrypts-differently"), "kit and the reference decrypt the same authentic blocks to different plaintexts", rp)
						ok1 = false
					}
					if ok2 && !bytes.Equal(o.out, want) {
						j.viol(sigOf("aescbcaead.Open", a.name, "interop-reference-output-decrypts-differently"), "kit and the reference open the same authentic blocks to different plaintexts", rp)
						ok2 = false
					}
					if ok1 && ok2 {
						rec.Count("padding.hs.valid_accepted", 2)
					}
					return ok1 && ok2
				}
				ok1 := j.reject("DecryptSymmetric", a.name, "valid-mac-invalid-padding", [][]byte{d.pt}, d.err, d.pan, nil, rp)
				ok2 := j.reject("aescbcaead.Open", a.name, "valid-mac-invalid-padding", [][]byte{o.out}, o.err, o.pan, nil, rp)
				if ok1 && ok2 {
					rec.Count("padding.hs.invalid_rejected", 2)
				}
				return ok1 && ok2
			})
		}
	}
}

var hsCtors = map[string]func([]byte) (cipher.AEAD, error){
	"A128CBC-HS256": aescbcaead.NewAESCBC128SHA256,
	"A192CBC-HS384": aescbcaead.NewAESCBC192SHA384,
	"A256CBC-HS384": aescbcaead.NewAESCBC256SHA384,
	"A256CBC-HS512": aescbcaead.NewAESCBC256SHA512,
}

func hsAEAD(j *judge, name string, key []byte) cipher.AEAD {
	aead, err := hsCtors[name](key)
	if err != nil {
		j.viol(sigOf("aescbcaead.New", name, "valid-input-rejected"), "constructor rejected a key of the right size: "+err.Error(), rpm("key", key))
		return nil
	}
	return aead
}

// ------------------------------------------------------------ vectors and reference self-check

// selfCheckRefs validates the in-harness reference implementations against the
// published vectors; a failure is a harness error, never a kit verdict.
func selfCheckRefs() {
	for _, v := range kwVectors {
		kek, data, out := unhex(v.kek), unhex(v.data), unhex(v.out)
		if got := refWrap(kek, data); !bytes.Equal(got, out) {
			rec.Fatalf("reference RFC 3394 wrap fails vector %s", v.name)
		}
		if got, ok := refUnwrap(kek, out); !ok || !bytes.Equal(got, data) {
			rec.Fatalf("reference RFC 3394 unwrap fails vector %s", v.name)
		}
	}
	p, iv, aad := unhex(hsVecP), unhex(hsVecIV), unhex(hsVecA)
	for _, v := range hsVectors {
		key, e, tag := unhex(v.key), unhex(v.e), unhex(v.tag)
		ge, gt := refHSSeal(v.alg, key, iv, p, aad)
		if !bytes.Equal(ge, e) || !bytes.Equal(gt, tag) {
			rec.Fatalf("reference AES-CBC-HMAC-SHA2 fails vector %s", v.name)
		}
		if got, ok := refHSOpen(v.alg, key, iv, e, tag, aad); !ok || !bytes.Equal(got, p) {
			rec.Fatalf("reference AES-CBC-HMAC-SHA2 open fails vector %s", v.name)
		}
	}
	if got, ok := refUnpad(refPad([]byte("abc"))); !ok || string(got) != "abc" {
		rec.Fatalf("reference PKCS#7 broken")
	}
}

func runVectors(j *judge) {
	for _, v := range kwVectors {
		kek, data, out := unhex(v.kek), unhex(v.data), unhex(v.out)
		alg := map[int]string{16: "A128KW", 24: "A192KW", 32: "A256KW"}[len(kek)]
		jk := octKey(kek)
		rp := rpm("vector", v.name, "kek", kek, "data", data, "expected", out)
		e := kEnc("EncryptSymmetric", alg, jk, nil, data, nil)
		if j.accept("EncryptSymmetric", alg, v.name, e.err, e.pan, rp) {
			if !bytes.Equal(e.ct, out) {
				j.viol(sigOf("EncryptSymmetric", alg, "rfc3394-vector-mismatch"), v.name+": wrong wrapped key", rpm("vector", v.name, "got", e.ct, "expected", out))
			} else {
				rec.Count("vectors.rfc3394.ok", 1)
			}
		}
		d := kDec("DecryptSymmetric", alg, jk, nil, out, nil, nil)
		if j.accept("DecryptSymmetric", alg, v.name, d.err, d.pan, rp) {
			if !bytes.Equal(d.pt, data) {
				j.viol(sigOf("DecryptSymmetric", alg, "rfc3394-vector-mismatch"), v.name+": wrong unwrapped key", rpm("vector", v.name, "got", d.pt, "expected", data))
			} else {
				rec.Count("vectors.rfc3394.ok", 1)
			}
		}
		blk, _ := aes.NewCipher(kek)
		w := kWrap(blk, data)
		if j.accept("aeskw.Wrap", "", v.name, w.err, w.pan, rp) {
			if !bytes.Equal(w.out, out) {
				j.viol("aeskw.Wrap/rfc3394-vector-mismatch", v.name+": wrong wrapped key", rpm("vector", v.name, "got", w.out, "expected", out))
			} else {
				rec.Count("vectors.rfc3394.ok", 1)
			}
		}
		u := kUnwrap(blk, out)
		if j.accept("aeskw.Unwrap", "", v.name, u.err, u.pan, rp) {
			if !bytes.Equal(u.out, data) {
				j.viol("aeskw.Unwrap/rfc3394-vector-mismatch", v.name+": wrong unwrapped key", rpm("vector", v.name, "got", u.out, "expected", data))
			} else {
				rec.Count("vectors.rfc3394.ok", 1)
			}
		}
	}
	p, iv, aad := unhex(hsVecP), unhex(hsVecIV), unhex(hsVecA)
	ctors := map[string]func([]byte) (cipher.AEAD, error){
		"A128CBC-HS256": aescbcaead.NewAESCBC128SHA256,
		"A192CBC-HS384": aescbcaead.NewAESCBC192SHA384,
		"A256CBC-HS512": aescbcaead.NewAESCBC256SHA512,
	}
	for _, v := range hsVectors {
		key, e, tag := unhex(v.key), unhex(v.e), unhex(v.tag)
		jk := octKey(key)
		rp := rpm("vector", v.name, "key", key, "iv", iv, "aad", aad, "plaintext", p, "expected_ciphertext", e, "expected_tag", tag)
		en := kEnc("EncryptSymmetric", v.alg, jk, iv, p, aad)
		if j.accept("EncryptSymmetric", v.alg, v.name, en.err, en.pan, rp) {
			if !bytes.Equal(en.ct, e) || !bytes.Equal(en.tag, tag) {
				j.viol(sigOf("EncryptSymmetric", v.alg, "rfc7518-vector-mismatch"), v.name+": wrong ciphertext or tag", rpm("vector", v.name, "got_ciphertext", en.ct, "got_tag", en.tag))
			} else {
				rec.Count("vectors.rfc7518.ok", 1)
			}
		}
		de := kDec("DecryptSymmetric", v.alg, jk, iv, e, tag, aad)
		if j.accept("DecryptSymmetric", v.alg, v.name, de.err, de.pan, rp) {
			if !bytes.Equal(de.pt, p) {
				j.viol(sigOf("DecryptSymmetric", v.alg, "rfc7518-vector-mismatch"), v.name+": wrong plaintext", rpm("vector", v.name, "got", de.pt))
			} else {
				rec.Count("vectors.rfc7518.ok", 1)
			}
		}
		aead, err := ctors[v.alg](key)
		if err != nil {
			j.viol(sigOf("aescbcaead.New", v.alg, "valid-input-rejected"), v.name+": constructor rejected the vector's key: "+err.Error(), rp)
			continue
		}
		s := kSeal(aead, iv, p, aad)
		if j.accept("aescbcaead.Seal", v.alg, v.name, nil, s.pan, rp) {
			if !bytes.Equal(s.out, append(clone(e), tag...)) {
				j.viol(sigOf("aescbcaead.Seal", v.alg, "rfc7518-vector-mismatch"), v.name+": wrong sealed output", rpm("vector", v.name, "got", s.out))
			} else {
				rec.Count("vectors.rfc7518.ok", 1)
			}
		}
		o := kOpen(aead, iv, append(clone(e), tag...), aad)
		if j.accept("aescbcaead.Open", v.alg, v.name, o.err, o.pan, rp) {
			if !bytes.Equal(o.out, p) {
				j.viol(sigOf("aescbcaead.Open", v.alg, "rfc7518-vector-mismatch"), v.name+": wrong plaintext", rpm("vector", v.name, "got", o.out))
			} else {
				rec.Count("vectors.rfc7518.ok", 1)
			}
		}
	}
}
