// Package c03 monitors property C03 (crypto: every algorithm round-trips,
// interoperates with independent implementations, rejects tampering and
// wrong-kind / wrong-size inputs with an error and no output).
package c03

import (
	"crypto/ecdsa"
	"crypto/ed25519"
	"crypto/elliptic"
	"crypto/rand"
	"crypto/rsa"
	"encoding/base64"
	"encoding/hex"
	"encoding/json"
	"errors"
	"fmt"
	"sort"
	"strings"
	"sync"
	"testing"

	kc "github.com/dapr/kit/crypto"
	"github.com/lestrrat-go/jwx/v2/jwk"
	"github.com/lestrrat-go/jwx/v2/x25519"

	"verif/harness/internal/mon"
)

var rec *mon.Rec

// ------------------------------------------------------------ small helpers

func hx(b []byte) string {
	if b == nil {
		return "nil"
	}
	return hex.EncodeToString(b)
}

func sigOf(parts ...string) string {
	var p []string
	for _, s := range parts {
		if s != "" {
			p = append(p, s)
		}
	}
	return strings.Join(p, "/")
}

func flip(b []byte, i int, bit uint) []byte {
	c := clone(b)
	c[i] ^= 1 << bit
	return c
}

// bitsFor returns the bit positions flipped in byte i: one (varying with the
// position and the repetition) in the quick tier, all eight in the thorough tier.
func bitsFor(i, rep int) []uint {
	if mon.Thorough() {
		return []uint{0, 1, 2, 3, 4, 5, 6, 7}
	}
	return []uint{uint((i*5 + 3 + rep) % 8)}
}

func errStr(err error) string {
	if err == nil {
		return "<nil>"
	}
	return err.Error()
}

func anyIs(err error, sentinels []error) bool {
	for _, s := range sentinels {
		if errors.Is(err, s) {
			return true
		}
	}
	return false
}

func sentinelNames(ss []error) string {
	var n []string
	for _, s := range ss {
		n = append(n, s.Error())
	}
	return strings.Join(n, " | ")
}

// judge is the verdict context of one group of evaluations.
type judge struct {
	idx   int
	n     int64 // evaluations (judged kit calls)
	spare int   // buffer layout of the call being judged: -1 exactly-sized slices, else bytes of spare capacity
}

type replayFn func() map[string]any

func (j *judge) viol(sig, msg string, rp replayFn) {
	var r map[string]any
	if rp != nil {
		r = rp()
	}
	if j.spare >= 0 {
		// the same case passed with exactly-sized slices (eachLayout stops at the first failing layout)
		sig += "/spare-capacity"
		msg += fmt.Sprintf(" [only when the caller's slices have spare capacity: %d bytes behind each]", j.spare)
		if r == nil {
			r = map[string]any{}
		}
		r["buffer_layout"] = fmt.Sprintf("every non-nil []byte argument is back[8:8+n:8+n+%d] of a larger array filled with seeded garbage (n = its length); with exactly-sized slices the same input is handled correctly", j.spare)
	}
	rec.Violation(j.idx, sig, msg, r)
}

// ------------------------------------------------------------ buffer layouts

// curSpare selects how the kit call wrappers hand []byte arguments to kit:
// -1 = freshly allocated, exactly-sized copies; k >= 0 = slices cut out of a
// larger backing array with k bytes of spare capacity (seeded garbage) behind
// the length. A caller may legitimately pass either (a read buffer, a pooled
// buffer, a sub-slice of a message), and kit code that appends to or writes
// behind an argument only misbehaves in the second layout.
var (
	curSpare = -1
	layRNG   = &mon.RNG{}
)

func lay(b []byte) []byte {
	if b == nil {
		return nil
	}
	if curSpare < 0 {
		return clone(b)
	}
	const front = 8
	back := layRNG.Bytes(front + len(b) + curSpare)
	copy(back[front:], b)
	return back[front : front+len(b) : front+len(b)+curSpare]
}

// spareLayouts: no room at all inside a larger array, one AES block, more than
// any hash output, and "room for two tags and a bit".
func spareLayouts(tagLen int) []int { return []int{0, 16, 64, 2*tagLen + 8} }

// eachLayout runs one case (f performs the kit call(s) and judges them,
// returning false if it recorded a violation) with exactly-sized slices and
// then with every spare-capacity layout. It stops at the first layout that
// fails, so one defect gives one signature per case. class names the counter
// "<class>.spare_capacity".
func (j *judge) eachLayout(class string, tagLen int, f func() bool) {
	defer func() { curSpare, j.spare = -1, -1 }()
	curSpare, j.spare = -1, -1
	if !f() {
		return
	}
	for _, sp := range spareLayouts(tagLen) {
		curSpare, j.spare = sp, sp
		ok := f()
		rec.Count(class+".spare_capacity", 1)
		if !ok {
			return
		}
	}
}

// reject judges a call that must fail: no panic, an error (one of sentinels
// when given) and no output. fn/alg/shape build the signature.
func (j *judge) reject(fn, alg, shape string, outs [][]byte, err error, pan string, sentinels []error, rp replayFn) bool {
	j.n++
	switch {
	case pan != "":
		j.viol(sigOf(fn, alg, shape, "panic"), fmt.Sprintf("%s(%s) panicked on input shape %q instead of returning an error: %s", fn, alg, shape, pan), rp)
		return false
	case err == nil:
		j.viol(sigOf(fn, alg, shape+"-accepted"), fmt.Sprintf("%s(%s) accepted input shape %q (nil error) although it must be rejected", fn, alg, shape), rp)
		return false
	}
	for _, o := range outs {
		if len(o) > 0 {
			j.viol(sigOf(fn, alg, shape, "output-with-error"), fmt.Sprintf("%s(%s) returned %d bytes of output together with error %q", fn, alg, len(o), err), rp)
			return false
		}
	}
	if len(sentinels) > 0 && !anyIs(err, sentinels) {
		j.viol(sigOf(fn, alg, shape, "wrong-sentinel"), fmt.Sprintf("%s(%s) on %q returned %q, expected the sentinel %s", fn, alg, shape, err, sentinelNames(sentinels)), rp)
		return false
	}
	if len(sentinels) > 0 {
		rec.Count("rejected.with_sentinel", 1)
	} else {
		rec.Count("rejected.any_error", 1)
	}
	return true
}

// accept judges a call that must succeed (valid input).
func (j *judge) accept(fn, alg, shape string, err error, pan string, rp replayFn) bool {
	j.n++
	switch {
	case pan != "":
		j.viol(sigOf(fn, alg, shape, "panic"), fmt.Sprintf("%s(%s) panicked on valid input (%s): %s", fn, alg, shape, pan), rp)
		return false
	case err != nil:
		j.viol(sigOf(fn, alg, shape, "valid-input-rejected"), fmt.Sprintf("%s(%s) rejected valid input (%s): %v", fn, alg, shape, err), rp)
		return false
	}
	return true
}

// noPanic judges a call whose result the statement does not settle.
func (j *judge) noPanic(fn, alg, shape string, pan string, rp replayFn) bool {
	j.n++
	if pan != "" {
		j.viol(sigOf(fn, alg, shape, "panic"), fmt.Sprintf("%s(%s) panicked on input shape %q: %s", fn, alg, shape, pan), rp)
		return false
	}
	return true
}

// ------------------------------------------------------------ keys

type keyset struct {
	rsaPriv, rsaPriv2        *rsa.PrivateKey
	ec                       map[string]*ecdsa.PrivateKey // curve name -> key
	ec2                      map[string]*ecdsa.PrivateKey
	edPriv, edPriv2          ed25519.PrivateKey
	jRSAPriv, jRSAPub        jwk.Key
	jRSAPriv2, jRSAPub2      jwk.Key
	jEC, jECPub, jEC2Pub     map[string]jwk.Key
	jEdPriv, jEdPub, jEd2Pub jwk.Key
	jXPriv, jXPub            jwk.Key
	jOct16, jOct32           jwk.Key
}

var (
	keysOnce sync.Once
	ks       *keyset
)

func mustJWK(raw any) jwk.Key {
	k, err := jwk.FromRaw(raw)
	if err != nil {
		rec.Fatalf("cannot build JWK from %T: %v", raw, err)
	}
	return k
}

func mustPub(k jwk.Key) jwk.Key {
	p, err := k.PublicKey()
	if err != nil {
		rec.Fatalf("cannot derive public JWK: %v", err)
	}
	return p
}

// keys generates the asymmetric keys once per process (RSA key generation is
// slow). They come from crypto/rand: their value is not part of a case's
// identity, and a violation's replay carries the key as a JWK.
func keys() *keyset {
	keysOnce.Do(func() {
		k := &keyset{ec: map[string]*ecdsa.PrivateKey{}, ec2: map[string]*ecdsa.PrivateKey{},
			jEC: map[string]jwk.Key{}, jECPub: map[string]jwk.Key{}, jEC2Pub: map[string]jwk.Key{}}
		var err error
		if k.rsaPriv, err = rsa.GenerateKey(rand.Reader, 2048); err != nil {
			rec.Fatalf("rsa keygen: %v", err)
		}
		rec.Progress()
		if k.rsaPriv2, err = rsa.GenerateKey(rand.Reader, 2048); err != nil {
			rec.Fatalf("rsa keygen: %v", err)
		}
		rec.Progress()
		k.jRSAPriv, k.jRSAPriv2 = mustJWK(k.rsaPriv), mustJWK(k.rsaPriv2)
		k.jRSAPub, k.jRSAPub2 = mustPub(k.jRSAPriv), mustPub(k.jRSAPriv2)
		for name, c := range map[string]elliptic.Curve{"P-256": elliptic.P256(), "P-384": elliptic.P384(), "P-521": elliptic.P521()} {
			if k.ec[name], err = ecdsa.GenerateKey(c, rand.Reader); err != nil {
				rec.Fatalf("ecdsa keygen: %v", err)
			}
			if k.ec2[name], err = ecdsa.GenerateKey(c, rand.Reader); err != nil {
				rec.Fatalf("ecdsa keygen: %v", err)
			}
			k.jEC[name] = mustJWK(k.ec[name])
			k.jECPub[name] = mustPub(k.jEC[name])
			k.jEC2Pub[name] = mustPub(mustJWK(k.ec2[name]))
		}
		_, k.edPriv, _ = ed25519.GenerateKey(rand.Reader)
		_, k.edPriv2, _ = ed25519.GenerateKey(rand.Reader)
		k.jEdPriv = mustJWK(k.edPriv)
		k.jEdPub = mustPub(k.jEdPriv)
		k.jEd2Pub = mustPub(mustJWK(k.edPriv2))
		_, xpriv, err := x25519.GenerateKey(rand.Reader)
		if err != nil {
			rec.Fatalf("x25519 keygen: %v", err)
		}
		k.jXPriv = mustJWK(xpriv)
		k.jXPub = mustPub(k.jXPriv)
		k.jOct16 = mustJWK(make([]byte, 16))
		k.jOct32 = mustJWK(make([]byte, 32))
		ks = k
	})
	return ks
}

type namedKey struct {
	name string
	key  jwk.Key
}

// octKey builds an "oct" JWK of any length (length 0 is only expressible as JSON).
func octKey(b []byte) jwk.Key {
	if len(b) == 0 {
		k, err := jwk.ParseKey([]byte(`{"kty":"oct","k":""}`))
		if err != nil {
			return nil
		}
		return k
	}
	return mustJWK(clone(b))
}

func jwkJSON(k jwk.Key) string {
	if k == nil {
		return "nil"
	}
	b, err := json.Marshal(k)
	if err != nil {
		return "unmarshalable: " + err.Error()
	}
	return string(b)
}

func b64(b []byte) string { return base64.RawURLEncoding.EncodeToString(b) }

// ------------------------------------------------------------ plan

type group struct {
	kind string
	alg  string
	rep  int
}

func (g group) String() string { return fmt.Sprintf("%s alg=%q rep=%d", g.kind, g.alg, g.rep) }

func plan() []group {
	var gs []group
	sym := kc.SupportedSymmetricAlgorithms()
	asym := kc.SupportedAsymmetricAlgorithms()
	sigs := kc.SupportedSignatureAlgorithms()
	gs = append(gs, group{kind: "vectors"}, group{kind: "names"})
	// the matrix under concurrency: rounds with 2..8 goroutines (rep%7+2); the only groups the -race build runs
	for r := 0; r < mon.Pick(7, 28); r++ {
		gs = append(gs, group{"concurrent", "", r})
	}
	symReps := mon.Pick(1, 8)
	rsaReps := mon.Pick(1, 2)
	sigReps := mon.Pick(1, 4)
	reps := max(symReps, rsaReps, sigReps)
	for r := 0; r < reps; r++ {
		// asymmetric groups first within a repetition: they are the slow ones and spread over the children by idx%n
		if r < rsaReps {
			for _, a := range asym {
				gs = append(gs, group{"rsa-roundtrip", a, r}, group{"rsa-tamper", a, r}, group{"rsa-keys", a, r})
			}
		}
		if r < sigReps {
			for _, a := range sigs {
				gs = append(gs, group{"sig-roundtrip", a, r}, group{"sig-tamper", a, r}, group{"sig-keys", a, r})
			}
		}
		if r < symReps {
			for _, a := range sym {
				gs = append(gs, group{"sym-roundtrip", a, r}, group{"sym-tamper", a, r}, group{"sym-keys", a, r},
					group{"sym-noncetag", a, r}, group{"sym-ctlen", a, r})
			}
			for _, ksz := range []string{"16", "24", "32"} {
				gs = append(gs, group{"aeskw-direct", ksz, r})
			}
			for _, a := range []string{"A128CBC-HS256", "A192CBC-HS384", "A256CBC-HS384", "A256CBC-HS512"} {
				gs = append(gs, group{"aescbcaead-direct", a, r}, group{"aead-append", a, r})
			}
			gs = append(gs, group{"padding-direct", "", r})
			for _, a := range sym {
				if t, ok := symTable[a]; ok && (t.fam == famCBC || t.fam == famHS) {
					gs = append(gs, group{"sym-padding", a, r})
				}
			}
		}
	}
	return gs
}

func TestCheck(t *testing.T) {
	rec = mon.Open("C03")
	defer rec.Close()
	rec.Note("rule", "Groups = (clause, algorithm, repetition); the algorithm lists are read from crypto.Supported{Symmetric,Asymmetric,Signature}Algorithms() at run time. "+
		"Inside a group every evaluation is one judged kit call on a tuple (entry point, algorithm, input shape, byte position / bit / length) enumerated without repetition; "+
		"keys, nonces, AAD, plaintexts and digests of a group are drawn from the seeded per-group stream (VERIF_SEED, group index), asymmetric keys once per process from crypto/rand. "+
		"Clauses: roundtrip+interop (plaintext lengths 0..65 quick / 0..80 thorough plus larger; kit output compared byte-for-byte with, and decrypted by, the reference; reference output decrypted by kit; "+
		"asymmetric: kit<->crypto/rsa, crypto/ecdsa, crypto/ed25519 both directions), tamper (one bit in every byte of every component, 8 bits in thorough; length -8..+8), "+
		"keys (sizes 0,8,15,16,17,24,32,33,48,64 and every other key kind), noncetag (nonce and tag lengths 0..32), ctlen (ciphertext lengths 0..65/0..80), names (near-miss algorithm names on every entry point), vectors (RFC 3394 section 4, RFC 7518 appendix B). "+
		"Buffer layouts: every tamper and wrong-size case of the symmetric entry points (crypto.EncryptSymmetric/DecryptSymmetric/Encrypt/Decrypt, aeskw.Wrap/Unwrap, aescbcaead Seal/Open, padding) is run with exactly-sized argument slices and again with the arguments cut out of a larger array with 0, 16, 64 and 2*tagSize+8 bytes of spare capacity (seeded garbage) behind their length; same oracle, signature suffix /spare-capacity, counters <class>.spare_capacity. "+
		"Buffer re-use: every kit call (crypto.*, aeskw, aescbcaead, padding, sign/verify) gets private copies of its []byte inputs and of an oct key's bytes; right after the call returns all of them are overwritten (every byte inverted, spare capacity included) and only then are the outputs compared with the reference and fed to the inverse operation, whose result is compared with the harness's pristine original; an output that moved under the overwrite is reported as <entry>/<alg>/output-aliases-input-buffer; counter wipe.calls_checked. "+
		"Concurrency: rounds of 2..8 real goroutines (plain build and a -race build that runs only these rounds), each goroutine with its own keys/JWK objects, messages and buffers; a round is a barrier-released sequence of 13 family steps (the goroutines run different members of one family at once: PS256||PS384||PS512, RS*, ES*, A*GCM, A*CBC, -NOPAD, -HS*, A*KW+aeskw, (X)C20P(KW), RSA-OAEP*/RSA1_5, the AEAD mix) and seeded mixed steps over the whole matrix, a fixed number of iterations per task; every operation must give what the independent implementation computed alone beforehand (symmetric outputs and RS*/EdDSA signatures byte-identical, randomised ones verified/decrypted by the standard library, kit's own inverse succeeds); signatures concurrent/<op>/<alg>/{valid-input-rejected,result-differs-from-solo,panic}; race-detector reports through kit frames are violations too. "+
		"cipher.AEAD append contract (the four aescbcaead constructions, the only AEAD values kit exposes): message lengths 0..100 (block boundaries; all in thorough) x AD lengths 0/5/33 x dst shapes nil, empty with cap 0/exact/ample, prefixes of 1/4/16/33 bytes with spare capacity 0, 1, n-1, n, n+1, p+n-1, p+n, p+n+64 (n = bytes the call appends): no panic, result = dst || the reference composition's sealed message (Seal) or dst || plaintext (Open), bytes below len(dst) untouched, tampered tag/ciphertext rejected with the prefix intact; plus the documented idioms Seal(nonce, nonce, msg, ad), Open(sealed[:0], ...), Seal(plaintext[:0], ...). "+
		"Repeated operation: before anything is overwritten every kit call is made again on the very same argument slices, immediately and once more after an unrelated kit call (AES-GCM, AES-CBC-HMAC and key-wrap round trips on other buffers), and must answer the same each time - same panic/error/no error and same output bytes; for RSA encryption, RSASSA-PSS and ECDSA same error/no error, with the judges decrypting/verifying the first or the last output alternately (signatures <entry>/<alg>/second-call-on-same-buffers-differs and /later-call-on-same-buffers-differs, counter repeat.calls_repeated_on_same_buffers). "+
		"Retained results: the slices returned by the last 3 calls of every entry point (encrypt, decrypt, wrap, unwrap, seal, open, pad, RSA encrypt/decrypt, sign; all algorithms, the ring lives across groups) are kept with a pristine copy and compared again after every later kit call (signature <entry>/<alg>/earlier-result-changed-by-later-call, counter retained.results_rechecked); every call that returned something is also repeated with the same inputs and the second result overwritten completely, which must leave the first untouched (<entry>/<alg>/two-results-share-memory, counter retained.back_to_back_pairs_checked); UnpadPKCS7 is exempt (prefix of its input by design). "+
		"PKCS#7 differential: padding.UnpadPKCS7 (block sizes 8 and 16), DecryptSymmetric/Decrypt with A*CBC on ciphertexts made with the reference's unpadded CBC, and aescbcaead.Open/DecryptSymmetric with correctly MACed A*CBC-HS* messages are fed 1-4 blocks whose last byte takes every value 0..255 (random and valid preceding bytes) plus valid paddings with one earlier padding byte damaged; kit must accept exactly when the in-harness RFC 5652 6.3 unpadder accepts (same bytes), else give an error and no output; the empty buffer is the only recorded exception. "+
		"Every evaluation is non-trivial (it reaches kit with an input the clause quantifies over); distinct = evaluated because tuples are not repeated within a group and groups differ in algorithm or seeded material.")
	rec.Note("require", []string{
		"sym.roundtrip.ok", "sym.interop.kit_equals_reference", "sym.interop.kit_decrypts_reference", "sym.tamper.rejected",
		"rejected.with_sentinel", "rejected.any_error", "vectors.rfc3394.ok", "vectors.rfc7518.ok",
		"rsa.roundtrip.ok", "rsa.interop.std_decrypts_kit", "rsa.interop.kit_decrypts_std", "rsa.tamper.rejected",
		"sig.roundtrip.ok", "sig.interop.std_verifies_kit", "sig.interop.kit_verifies_std", "sig.tamper.rejected",
		"names.rejected", "tamper.spare_capacity", "wrongsize.spare_capacity", "padding.spare_capacity", "wipe.calls_checked", "retained.results_rechecked", "retained.back_to_back_pairs_checked", "repeat.calls_repeated_on_same_buffers",
		"concurrent.operations", "concurrent.operations.main", "concurrent.operations.race", "concurrent.steps_with_different_algorithms_at_once",
		"aead_append.seal_ok", "aead_append.open_ok", "aead_append.tamper_rejected", "aead_append.idioms_ok",
		"padding.unpad.agree_accept", "padding.unpad.agree_reject", "padding.cbc.valid_accepted", "padding.cbc.invalid_rejected", "padding.hs.valid_accepted", "padding.hs.invalid_rejected"})
	selfCheckRefs()
	gs := plan()
	for idx, g := range gs {
		if !mon.Mine(idx) || (buildName != "main" && g.kind != "concurrent") {
			continue
		}
		rec.Begin(idx, g.String())
		j := &judge{idx: idx, spare: -1}
		curJudge = j
		clear(aliasExact)
		curSpare, layRNG = -1, mon.NewRNG("c03-layout", idx)
		switch g.kind {
		case "vectors":
			runVectors(j)
		case "names":
			runNames(j)
		case "sym-roundtrip":
			runSymRoundTrip(j, g)
		case "sym-tamper":
			runSymTamper(j, g)
		case "sym-keys":
			runSymKeys(j, g)
		case "sym-noncetag":
			runSymNonceTag(j, g)
		case "sym-ctlen":
			runSymCtLen(j, g)
		case "aeskw-direct":
			runKWDirect(j, g)
		case "aescbcaead-direct":
			runHSDirect(j, g)
		case "padding-direct":
			runPaddingDirect(j, g)
		case "sym-padding":
			runSymPadding(j, g)
		case "aead-append":
			runAEADAppend(j, g)
		case "concurrent":
			runConcurrent(j, g)
		case "rsa-roundtrip":
			runRSARoundTrip(j, g)
		case "rsa-tamper":
			runRSATamper(j, g)
		case "rsa-keys":
			runRSAKeys(j, g)
		case "sig-roundtrip":
			runSigRoundTrip(j, g)
		case "sig-tamper":
			runSigTamper(j, g)
		case "sig-keys":
			runSigKeys(j, g)
		default:
			rec.Fatalf("unknown group kind %q", g.kind)
		}
		rec.Count("groups."+g.kind, 1)
		flushWipeCounters()
		if unpadShares > 0 {
			rec.Count("observed.unpad.result_is_prefix_of_input_buffer", int(unpadShares))
			rec.Observe("padding.UnpadPKCS7 returns a prefix of the buffer it was given (no copy), so its result changes if the caller then overwrites that buffer; this is the function's shape (like bytes.TrimRight) and the callers inside kit always hand it a buffer they own - recorded, not judged; the harness copies the result out before overwriting the input")
			unpadShares = 0
		}
		rec.Bulk(idx, j.n, true)
	}
}

// ------------------------------------------------------------ names

func nearMisses(supported []string, extra []string) []string {
	sup := map[string]bool{}
	for _, s := range supported {
		sup[s] = true
	}
	set := map[string]bool{"": true, " ": true, "none": true, "A": true, "AES": true, "A128": true, "RSA": true, "ES": true, "\x00": true}
	for _, s := range append(append([]string{}, supported...), extra...) {
		set[strings.ToLower(s)] = true
		set[s+" "] = true
		set[" "+s] = true
		set[s+"X"] = true
		set[s+"\x00"] = true
		set[s[:len(s)-1]] = true
		set[s[1:]] = true
		set[strings.ReplaceAll(s, "-", "_")] = true
		set[strings.ReplaceAll(s, "_", "-")] = true
		set[strings.ReplaceAll(s, "128", "127")] = true
		set[strings.ReplaceAll(s, "128", "129")] = true
		set[strings.ReplaceAll(s, "256", "257")] = true
		set[strings.ReplaceAll(s, "256", "255")] = true
		set[strings.ReplaceAll(s, "256", "1024")] = true
		set[strings.ReplaceAll(s, "384", "385")] = true
		set[strings.ReplaceAll(s, "512", "511")] = true
		set[strings.ReplaceAll(s, "192", "193")] = true
		set[strings.Replace(s, "A", "AES", 1)] = true
	}
	for _, s := range extra {
		set[s] = true
	}
	var out []string
	for s := range set {
		if !sup[s] {
			out = append(out, s)
		}
	}
	sort.Strings(out)
	return out
}

// runNames: unknown / empty / near-miss algorithm names on every entry point,
// with a key of the kind the entry point works on, must give
// ErrUnsupportedAlgorithm and no output.
func runNames(j *judge) {
	k := keys()
	sym := kc.SupportedSymmetricAlgorithms()
	asym := kc.SupportedAsymmetricAlgorithms()
	sg := kc.SupportedSignatureAlgorithms()
	// names that consts.go defines but no Supported* list contains, and names of the other families
	defined := []string{"A128GCMKW", "A192GCMKW", "A256GCMKW", "ECDH-ES", "ECDH-ES+A128KW", "ECDH-ES+A192KW", "ECDH-ES+A256KW", "HS256", "HS384", "HS512"}
	unsup := []error{kc.ErrUnsupportedAlgorithm}
	pt := make([]byte, 32)
	nonce := make([]byte, 16)
	tag := make([]byte, 16)
	rp := func(fn, name string) replayFn {
		return func() map[string]any { return map[string]any{"entry": fn, "algorithm": name} }
	}
	for _, name := range nearMisses(sym, append(append(append([]string{}, defined...), asym...), sg...)) {
		e := kEnc("EncryptSymmetric", name, k.jOct32, nonce, pt, nil)
		if j.reject("EncryptSymmetric", "", "unknown-name", [][]byte{e.ct, e.tag}, e.err, e.pan, unsup, rp("EncryptSymmetric", name)) {
			rec.Count("names.rejected", 1)
		}
		d := kDec("DecryptSymmetric", name, k.jOct32, nonce, pt, tag, nil)
		if j.reject("DecryptSymmetric", "", "unknown-name", [][]byte{d.pt}, d.err, d.pan, unsup, rp("DecryptSymmetric", name)) {
			rec.Count("names.rejected", 1)
		}
	}
	for _, name := range nearMisses(asym, append(append(append([]string{}, defined...), sym...), sg...)) {
		e := kEncPub(name, k.jRSAPub, pt, nil)
		if j.reject("EncryptPublicKey", "", "unknown-name", [][]byte{e.ct}, e.err, e.pan, unsup, rp("EncryptPublicKey", name)) {
			rec.Count("names.rejected", 1)
		}
		d := kDecPriv(name, k.jRSAPriv, make([]byte, 256), nil)
		if j.reject("DecryptPrivateKey", "", "unknown-name", [][]byte{d.pt}, d.err, d.pan, unsup, rp("DecryptPrivateKey", name)) {
			rec.Count("names.rejected", 1)
		}
	}
	for _, name := range nearMisses(sg, append(append(append([]string{}, defined...), sym...), asym...)) {
		for _, kk := range []namedKey{{"rsa", k.jRSAPriv}, {"ec", k.jEC["P-256"]}, {"okp", k.jEdPriv}} {
			s := kSign(name, kk.key, pt)
			if j.reject("SignPrivateKey", "", "unknown-name", [][]byte{s.sig}, s.err, s.pan, unsup, rp("SignPrivateKey key="+kk.name, name)) {
				rec.Count("names.rejected", 1)
			}
			v := kVerify(name, kk.key, pt, make([]byte, 64))
			j.n++
			switch {
			case v.pan != "":
				j.viol("VerifyPublicKey/unknown-name/panic", "VerifyPublicKey panicked on an unknown algorithm name: "+v.pan, rp("VerifyPublicKey key="+kk.name, name))
			case v.ok:
				j.viol("VerifyPublicKey/unknown-name-accepted", "VerifyPublicKey returned true for an unknown algorithm name", rp("VerifyPublicKey key="+kk.name, name))
			case !errors.Is(v.err, kc.ErrUnsupportedAlgorithm):
				j.viol("VerifyPublicKey/unknown-name/wrong-sentinel", fmt.Sprintf("VerifyPublicKey(%q) returned (%v, %s), expected ErrUnsupportedAlgorithm", name, v.ok, errStr(v.err)), rp("VerifyPublicKey key="+kk.name, name))
			default:
				rec.Count("names.rejected", 1)
				rec.Count("rejected.with_sentinel", 1)
			}
		}
	}
	// the generic dispatcher: a name that no Supported* list contains
	dispSup := append(append([]string{}, sym...), asym...)
	for _, name := range nearMisses(dispSup, append(append([]string{}, defined...), sg...)) {
		for _, kk := range []namedKey{{"oct", k.jOct32}, {"rsa", k.jRSAPriv}} {
			// a name consts.go defines for the other key family makes the key the wrong kind as well: either sentinel applies
			want := unsup
			if kk.name == "rsa" || strings.HasPrefix(name, "ECDH") {
				want = []error{kc.ErrUnsupportedAlgorithm, kc.ErrKeyTypeMismatch}
			}
			e := kEnc("Encrypt", name, kk.key, nonce, pt, nil)
			if j.reject("Encrypt", "", "unknown-name", [][]byte{e.ct, e.tag}, e.err, e.pan, want, rp("Encrypt key="+kk.name, name)) {
				rec.Count("names.rejected", 1)
			}
			d := kDec("Decrypt", name, kk.key, nonce, pt, tag, nil)
			if j.reject("Decrypt", "", "unknown-name", [][]byte{d.pt}, d.err, d.pan, want, rp("Decrypt key="+kk.name, name)) {
				rec.Count("names.rejected", 1)
			}
		}
	}
}
