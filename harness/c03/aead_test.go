package c03

// The cipher.AEAD append contract of the AEADs that crypto/aescbcaead hands out
// (the only cipher.AEAD values kit exposes; the GCM and ChaCha20-Poly1305 AEADs
// are built and consumed inside crypto.EncryptSymmetric/DecryptSymmetric with
// dst = nil). From the crypto/cipher documentation: Seal "appends the result to
// dst, returning the updated slice"; Open likewise; "To reuse plaintext's
// storage for the encrypted output, use plaintext[:0] as dst"; "To reuse
// ciphertext's storage for the decrypted output, use ciphertext[:0] as dst";
// "Even if the function fails, the contents of dst, up to its capacity, may be
// overwritten" - so on failure only the bytes below len(dst) are checked.

import (
	"bytes"
	"crypto/cipher"
	"fmt"

	"verif/harness/internal/mon"
)

type dstShape struct {
	isNil bool
	p, s  int // prefix length, spare capacity behind it
}

func (d dstShape) String() string {
	if d.isNil {
		return "dst=nil"
	}
	return fmt.Sprintf("len(dst)=%d cap(dst)=%d", d.p, d.p+d.s)
}

// class names the shape for the signature: n is the number of bytes the call needs behind len(dst).
func (d dstShape) class(n int) string {
	switch {
	case d.isNil:
		return "dst-nil"
	case d.p == 0:
		return "dst-empty"
	case d.s >= n:
		return "dst-prefix-fits"
	case d.p+d.s >= n:
		return "dst-prefix-cap-between-n-and-len-plus-n"
	}
	return "dst-prefix-does-not-fit"
}

// dstShapes: nil; empty with cap 0 / exact / ample; prefixes of 1, 4, NonceSize
// and 33 bytes with spare capacity 0, 1, n-1, n, n+1, p+n-1, p+n, p+n+64.
func dstShapes(n int) []dstShape {
	out := []dstShape{{isNil: true}, {p: 0, s: 0}, {p: 0, s: n}, {p: 0, s: n + 64}}
	for _, p := range []int{1, 4, 16, 33} {
		seen := map[int]bool{}
		for _, s := range []int{0, 1, n - 1, n, n + 1, p + n - 1, p + n, p + n + 64} {
			if s < 0 || seen[s] {
				continue
			}
			seen[s] = true
			out = append(out, dstShape{p: p, s: s})
		}
	}
	return out
}

// build returns dst (a three-index slice of a larger garbage-filled array) and a pristine copy of its prefix.
func (d dstShape) build(rng *mon.RNG) (dst, prefix []byte) {
	if d.isNil {
		return nil, nil
	}
	back := rng.Bytes(8 + d.p + d.s)
	dst = back[8 : 8+d.p : 8+d.p+d.s]
	return dst, clone(dst)
}

type aeadRes struct {
	out []byte
	err error
	pan string
}

func rawSeal(a cipher.AEAD, dst, nonce, pt, aad []byte) (r aeadRes) {
	defer func() {
		if p := recover(); p != nil {
			r = aeadRes{pan: panStr(p)}
		}
	}()
	r.out = a.Seal(dst, nonce, pt, aad)
	return r
}

func rawOpen(a cipher.AEAD, dst, nonce, sealed, aad []byte) (r aeadRes) {
	defer func() {
		if p := recover(); p != nil {
			r = aeadRes{pan: panStr(p)}
		}
	}()
	r.out, r.err = a.Open(dst, nonce, sealed, aad)
	return r
}

func appendLens() []int {
	if mon.Thorough() {
		var ls []int
		for l := 0; l <= 100; l++ {
			ls = append(ls, l)
		}
		return ls
	}
	return []int{0, 1, 15, 16, 17, 31, 32, 33, 47, 48, 64, 100}
}

func runAEADAppend(j *judge, g group) {
	name := g.alg
	pr := hsTable[name]
	rng := mon.NewRNG("c03-aead-append", j.idx)
	key := rng.Bytes(pr.encLen + pr.macLen)
	aead := hsAEAD(j, name, key)
	if aead == nil {
		return
	}
	adLens := []int{0, 5, 33}
	for li, L := range appendLens() {
		rec.Progress()
		pt := rng.Bytes(L)
		nonce := rng.Bytes(16)
		nSeal := 16*(L/16+1) + pr.tagLen // what Seal appends
		for si, sh := range dstShapes(nSeal) {
			var aad []byte
			if k := adLens[(li+si)%3]; k > 0 {
				aad = rng.Bytes(k)
			}
			e, tag := refHSSeal(name, key, nonce, pt, aad)
			ref := append(clone(e), tag...)

			// ---- Seal
			dst, prefix := sh.build(rng)
			cls := sh.class(nSeal)
			rp := rpm("construction", name, "key", key, "nonce", nonce, "plaintext", pt, "aad", aad, "dst", sh.String(), "dst_prefix", prefix, "bytes_appended", nSeal, "reference_sealed", ref)
			s := rawSeal(aead, dst, clone(nonce), clone(pt), clone(aad))
			j.n++
			switch {
			case s.pan != "":
				j.viol(sigOf("aescbcaead.Seal", name, "append-contract", cls, "panic"), fmt.Sprintf("Seal(dst, ...) with %s panicked instead of appending %d bytes: %s", sh, nSeal, s.pan), rp)
			case !bytes.Equal(s.out, append(clone(prefix), ref...)):
				j.viol(sigOf("aescbcaead.Seal", name, "append-contract", cls, "result-is-not-dst-followed-by-sealed-message"), fmt.Sprintf("Seal(dst, ...) with %s did not return dst || ciphertext || tag as the independent RFC 7518 composition computes it", sh),
					rpm("construction", name, "key", key, "nonce", nonce, "plaintext", pt, "aad", aad, "dst", sh.String(), "dst_prefix", prefix, "kit_result", s.out, "reference_sealed", ref))
			case !bytes.Equal(dst[:len(prefix)], prefix):
				j.viol(sigOf("aescbcaead.Seal", name, "append-contract", cls, "dst-prefix-modified"), "Seal changed the bytes of dst below len(dst)", rp)
			default:
				rec.Count("aead_append.seal_ok", 1)
				if len(dst) > 0 || cap(dst) > 0 {
					if cap(dst) >= len(dst)+nSeal && len(s.out) > 0 && &s.out[0] == &dst[:1][0] {
						rec.Count("observed.aead_append.seal_reused_dst_array", 1)
					}
				}
			}

			// ---- Open of the reference's message into a dst of the same shape family (n = ciphertext length Open may use)
			nOpen := len(e)
			for _, variant := range []string{"valid", "tag-bit-flip", "ciphertext-bit-flip"} {
				osh := sh
				if !sh.isNil && si%2 == 1 {
					// the same spare-capacity classes relative to what Open needs
					osh.s = sh.s - nSeal + nOpen
					if osh.s < 0 {
						osh.s = 0
					}
				}
				dst, prefix := osh.build(rng)
				ocls := osh.class(nOpen)
				in := clone(ref)
				switch variant {
				case "tag-bit-flip":
					in[len(e)+int(rng.Intn(pr.tagLen))] ^= 1 << uint(rng.Intn(8))
				case "ciphertext-bit-flip":
					in[rng.Intn(len(e))] ^= 1 << uint(rng.Intn(8))
				}
				rpo := rpm("construction", name, "key", key, "nonce", nonce, "aad", aad, "sealed", in, "valid_sealed", ref, "plaintext", pt, "dst", osh.String(), "dst_prefix", prefix, "variant", variant)
				o := rawOpen(aead, dst, clone(nonce), in, clone(aad))
				j.n++
				prefixIntact := bytes.Equal(dst[:len(prefix)], prefix)
				switch {
				case o.pan != "":
					j.viol(sigOf("aescbcaead.Open", name, "append-contract", ocls, "panic"), fmt.Sprintf("Open(dst, ...) with %s (%s message) panicked: %s", osh, variant, o.pan), rpo)
				case variant != "valid" && o.err == nil:
					j.viol(sigOf("aescbcaead.Open", name, "append-contract", ocls, variant+"-accepted"), "Open accepted a tampered message", rpo)
				case variant != "valid" && len(o.out) > 0:
					j.viol(sigOf("aescbcaead.Open", name, "append-contract", ocls, "output-with-error"), "Open returned output together with an error", rpo)
				case variant == "valid" && o.err != nil:
					j.viol(sigOf("aescbcaead.Open", name, "append-contract", ocls, "valid-input-rejected"), "Open(dst, ...) rejected a valid message: "+o.err.Error(), rpo)
				case variant == "valid" && !bytes.Equal(o.out, append(clone(prefix), pt...)):
					j.viol(sigOf("aescbcaead.Open", name, "append-contract", ocls, "result-is-not-dst-followed-by-plaintext"), fmt.Sprintf("Open(dst, ...) with %s did not return dst || plaintext", osh),
						rpm("construction", name, "key", key, "nonce", nonce, "aad", aad, "sealed", in, "plaintext", pt, "dst", osh.String(), "dst_prefix", prefix, "kit_result", o.out))
				case !prefixIntact:
					j.viol(sigOf("aescbcaead.Open", name, "append-contract", ocls, "dst-prefix-modified"), "Open changed the bytes of dst below len(dst)", rpo)
				case variant == "valid":
					rec.Count("aead_append.open_ok", 1)
				default:
					rec.Count("aead_append.tamper_rejected", 1)
				}
			}
		}

		// ---- the documented storage-reuse idioms
		e, tag := refHSSeal(name, key, nonce, pt, nil)
		ref := append(clone(e), tag...)
		for _, room := range []int{nSeal, nSeal - 1, nSeal + 64} {
			// nonce-prefix idiom: nonce := make([]byte, NonceSize, NonceSize+len(msg)+overhead); Seal(nonce, nonce, msg, ad)
			nb := make([]byte, 16, 16+room)
			copy(nb, nonce)
			s := rawSeal(aead, nb, nb, clone(pt), nil)
			rp := rpm("construction", name, "key", key, "nonce", nonce, "plaintext", pt, "cap_of_nonce_slice", 16+room, "bytes_appended", nSeal, "idiom", "Seal(nonce, nonce, msg, nil)")
			j.n++
			switch {
			case s.pan != "":
				j.viol(sigOf("aescbcaead.Seal", name, "nonce-prefix-idiom", "panic"), "Seal(nonce, nonce, msg, ad) panicked: "+s.pan, rp)
			case !bytes.Equal(s.out, append(clone(nonce), ref...)):
				j.viol(sigOf("aescbcaead.Seal", name, "nonce-prefix-idiom", "result-is-not-nonce-followed-by-sealed-message"), "Seal(nonce, nonce, msg, ad) did not return nonce || ciphertext || tag", rp)
			default:
				rec.Count("aead_append.idioms_ok", 1)
				// and the receiving side: Open(nil, msg[:16], msg[16:], ad), then in place
				o := rawOpen(aead, nil, s.out[:16], s.out[16:], nil)
				j.n++
				if o.pan != "" || o.err != nil || !bytes.Equal(o.out, pt) {
					j.viol(sigOf("aescbcaead.Open", name, "nonce-prefix-idiom", "does-not-open"), fmt.Sprintf("Open(nil, msg[:16], msg[16:], nil) of the nonce-prefixed message: pan=%q err=%v", o.pan, o.err), rp)
				} else {
					rec.Count("aead_append.idioms_ok", 1)
				}
			}
		}
		{
			// Open(ciphertext[:0], ...): reuse the ciphertext's storage
			buf := clone(ref)
			o := rawOpen(aead, buf[:0], clone(nonce), buf, nil)
			rp := rpm("construction", name, "key", key, "nonce", nonce, "sealed", ref, "plaintext", pt, "idiom", "Open(sealed[:0], nonce, sealed, nil)")
			j.n++
			if o.pan != "" || o.err != nil || !bytes.Equal(o.out, pt) {
				j.viol(sigOf("aescbcaead.Open", name, "reuse-ciphertext-storage-idiom", "does-not-open"), fmt.Sprintf("Open(sealed[:0], nonce, sealed, nil): pan=%q err=%v", o.pan, o.err), rp)
			} else {
				rec.Count("aead_append.idioms_ok", 1)
			}
			// Seal(plaintext[:0], ...): reuse the plaintext's storage (with and without room for the result)
			for _, room := range []int{0, nSeal} {
				pb := make([]byte, L, L+room)
				copy(pb, pt)
				s := rawSeal(aead, pb[:0], clone(nonce), pb, nil)
				rp := rpm("construction", name, "key", key, "nonce", nonce, "plaintext", pt, "cap_of_plaintext_slice", L+room, "idiom", "Seal(plaintext[:0], nonce, plaintext, nil)")
				j.n++
				if s.pan != "" || !bytes.Equal(s.out, ref) {
					j.viol(sigOf("aescbcaead.Seal", name, "reuse-plaintext-storage-idiom", "wrong-result"), fmt.Sprintf("Seal(plaintext[:0], nonce, plaintext, nil) did not produce the sealed message (pan=%q)", s.pan), rp)
				} else {
					rec.Count("aead_append.idioms_ok", 1)
				}
			}
		}
	}
}
