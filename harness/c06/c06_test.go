// Package c06 monitors property C06 (queue.Processor: live items run exactly
// once, on time, in order; none stranded).
package c06

import (
	"fmt"
	"math"
	"sort"
	"strings"
	"sync"
	"sync/atomic"
	"testing"
	"testing/synctest"
	"time"

	"github.com/dapr/kit/events/queue"

	"verif/harness/internal/mon"
)

const early = 500 * time.Microsecond

type item struct {
	id  int
	key string
	due time.Time
	// follow-up work the callback of this item does on the SAME processor while it runs (a periodic job
	// re-arming itself, a job cancelling another one): 0 = none
	follow    time.Duration // enqueue a new item due follow after the callback's instant ...
	followKey string        // ... under this key (may be the item's own key)
	followDeq string        // dequeue this key
}

func (i *item) Key() string              { return i.key }
func (i *item) ScheduledTime() time.Time { return i.due }

// ---- history description (what is journalled and replayed)

type op struct {
	Kind string        `json:"k"` // enq | deq | sleep | close | arm | gate | release
	Key  string        `json:"key,omitempty"`
	Off  time.Duration `json:"off,omitempty"`  // enq: due = now + off ; sleep: duration
	Hook string        `json:"hook,omitempty"` // arm: park the loop at the N-th next hit of Hook
	N    int           `json:"n,omitempty"`
	G    int           `json:"g,omitempty"` // racing mode: goroutine
	// enq only: what the item's callback does on the same processor while it runs
	Follow time.Duration `json:"follow,omitempty"` // enqueue a follow-up item due Follow later ...
	FKey   string        `json:"fkey,omitempty"`   // ... under this key ("" = the item's own key)
	FDeq   string        `json:"fdeq,omitempty"`   // dequeue this key
}

// far-future scheduled times (legal: an item parked for "never"); they cannot be written as an offset
// (time.Duration ends at 292 years), so two sentinel offsets stand for them
const (
	farOff2300 = time.Duration(math.MaxInt64)
	farOff9999 = time.Duration(math.MaxInt64 - 1)
)

func dueFor(off time.Duration) time.Time {
	switch off {
	case farOff2300:
		return time.Date(2300, 1, 1, 0, 0, 0, 0, time.UTC)
	case farOff9999:
		return time.Date(9999, 12, 31, 23, 59, 59, 0, time.UTC)
	}
	return time.Now().Add(off)
}

func (o op) String() string {
	switch o.Kind {
	case "enq":
		if o.Off == farOff2300 || o.Off == farOff9999 {
			return fmt.Sprintf("enq(%s,@%d)", o.Key, dueFor(o.Off).Year())
		}
		if o.Follow != 0 || o.FDeq != "" {
			return fmt.Sprintf("enq(%s,+%v,cb:enq(%s,+%v)deq(%s))", o.Key, o.Off, o.FKey, o.Follow, o.FDeq)
		}
		return fmt.Sprintf("enq(%s,+%v)", o.Key, o.Off)
	case "deq":
		return "deq(" + o.Key + ")"
	case "sleep":
		return fmt.Sprintf("sleep(%v)", o.Off)
	case "arm":
		return fmt.Sprintf("arm(%s#%d)", o.Hook, o.N)
	}
	return o.Kind
}

func opsString(ops []op) string {
	var sb strings.Builder
	for i, o := range ops {
		if i > 0 {
			sb.WriteByte(' ')
		}
		sb.WriteString(o.String())
	}
	return sb.String()
}

// ---- recorded events

type opRec struct {
	kind      string
	key       string
	it        *item // enq
	call, ret int64
	t         time.Time
}

type cbRec struct {
	it         *item
	s1, s2     int64 // stamps of loop.peeked / exec.popped of the iteration that ran it
	start, end int64
	now        time.Time
}

type world struct {
	idx   int
	mode  string
	p     *queue.Processor[string, *item]
	clk   atomic.Int64
	mu    sync.Mutex
	ops   []*opRec
	cbs   []*cbRec
	nextI int
	done  int // cbs already judged

	// loop-side stamps (only the loop goroutine writes; read under mu)
	s1, s2 int64

	armHook  string
	armN     int
	parked   atomic.Bool
	parkedAt string
	resume   chan struct{}
	// a second park, armed only while the first one holds: TWO loop goroutines stopped at once (an exiting
	// loop that has already given the running token back, and the loop an Enqueue started after it)
	arm2Hook  string
	arm2N     int
	parked2   atomic.Bool
	parked2At string
	resume2   chan struct{}

	gateOn atomic.Bool
	gate   chan struct{}
	inCb   atomic.Int32

	closeCall, closeRet int64
	lastPark            string
	lastParkOps         []string
	viol                bool
	history             []op
}

func (w *world) stamp() int64 { return w.clk.Add(1) }

func (w *world) hook(name string) {
	rec.Count("hook."+name, 1)
	rec.Progress()
	w.mu.Lock()
	switch name {
	case "loop.peeked":
		w.s1 = w.stamp()
	case "exec.popped":
		w.s2 = w.stamp()
	}
	park := false
	if name == w.armHook {
		w.armN--
		if w.armN <= 0 {
			w.armHook = ""
			park = true
			w.parkedAt = name
		}
	}
	park2 := false
	if !park && w.arm2Hook != "" && name == w.arm2Hook && w.parked.Load() {
		w.arm2N--
		if w.arm2N <= 0 {
			w.arm2Hook = ""
			park2 = true
			w.parked2At = name
		}
	}
	w.mu.Unlock()
	if park {
		rec.Count("park."+name, 1)
		w.parked.Store(true)
		<-w.resume
	}
	if park2 {
		rec.Count("park2."+name, 1)
		w.parked2.Store(true)
		<-w.resume2
	}
}

func (w *world) callback(it *item) {
	w.inCb.Add(1)
	w.mu.Lock()
	c := &cbRec{it: it, s1: w.s1, s2: w.s2, start: w.stamp(), now: time.Now()}
	w.cbs = append(w.cbs, c)
	w.mu.Unlock()
	if it.follow != 0 {
		rec.Count("callback.reentrant_enqueue", 1)
		w.enqItem(it.followKey, it.follow, op{})
	}
	if it.followDeq != "" {
		rec.Count("callback.reentrant_dequeue", 1)
		w.deq(it.followDeq)
	}
	if w.gateOn.Load() {
		<-w.gate
	}
	w.mu.Lock()
	c.end = w.stamp()
	w.mu.Unlock()
	w.inCb.Add(-1)
}

func (w *world) enq(key string, off time.Duration) { w.enqItem(key, off, op{}) }

func (w *world) enqItem(key string, off time.Duration, o op) {
	w.mu.Lock()
	w.nextI++
	it := &item{id: w.nextI, key: key, due: dueFor(off), follow: o.Follow, followKey: o.FKey, followDeq: o.FDeq}
	if it.follow != 0 && it.followKey == "" {
		it.followKey = key
	}
	if off == farOff2300 || off == farOff9999 {
		rec.Count("enq.far_future_item", 1)
	}
	r := &opRec{kind: "enq", key: key, it: it, call: w.stamp(), t: time.Now()}
	w.ops = append(w.ops, r)
	w.mu.Unlock()
	w.p.Enqueue(it)
	w.mu.Lock()
	r.ret = w.stamp()
	w.mu.Unlock()
}

func (w *world) deq(key string) {
	w.mu.Lock()
	r := &opRec{kind: "deq", key: key, call: w.stamp(), t: time.Now()}
	w.ops = append(w.ops, r)
	w.mu.Unlock()
	w.p.Dequeue(key)
	w.mu.Lock()
	r.ret = w.stamp()
	w.mu.Unlock()
}

func (w *world) violation(sig, msg string) {
	w.viol = true
	rec.Violation(w.idx, sig, msg, map[string]any{"mode": w.mode, "history": opsString(w.history), "events": w.dump()})
}

func (w *world) dump() []string {
	var out []string
	for _, o := range w.ops {
		id := 0
		due := ""
		if o.it != nil {
			id = o.it.id
			due = o.it.due.Format("05.000000")
		}
		out = append(out, fmt.Sprintf("op %s key=%s item=%d due=%s call=%d ret=%d t=%s", o.kind, o.key, id, due, o.call, o.ret, o.t.Format("05.000000")))
	}
	for _, c := range w.cbs {
		out = append(out, fmt.Sprintf("cb item=%d key=%s due=%s s1=%d s2=%d start=%d end=%d now=%s", c.it.id, c.it.key, c.it.due.Format("05.000000"), c.s1, c.s2, c.start, c.end, c.now.Format("05.000000")))
	}
	if w.closeCall > 0 {
		out = append(out, fmt.Sprintf("close call=%d ret=%d", w.closeCall, w.closeRet))
	}
	return out
}

func (w *world) ctx() string {
	if w.lastPark == "" {
		return "noplacement"
	}
	return w.lastPark + "+" + strings.Join(w.lastParkOps, ",")
}

// judge is the offline checker over the recorded logs. It is called at
// quiescent points only (every client call has returned, except possibly a
// Close that is waiting for a gated callback). final: all due times are in the
// past, so every definitely-live item must have run.
func (w *world) judge(final bool) {
	w.mu.Lock()
	defer w.mu.Unlock()
	now := time.Now()
	enqOf := map[*item]*opRec{}
	byKey := map[string][]*opRec{}
	for _, o := range w.ops {
		if o.it != nil {
			enqOf[o.it] = o
		}
		byKey[o.key] = append(byKey[o.key], o)
	}
	cbOf := map[*item]*cbRec{}
	for _, c := range w.cbs {
		if prev, dup := cbOf[c.it]; dup {
			w.violationLocked("executed-twice/"+w.ctx(), fmt.Sprintf("item %d (key %s) was handed to the callback twice (starts %d and %d)", c.it.id, c.it.key, prev.start, c.start))
			return
		}
		cbOf[c.it] = c
	}
	// per-callback rules for the records not judged yet
	for _, c := range w.cbs[w.done:] {
		e := enqOf[c.it]
		if d := c.it.due.Sub(c.now); d >= early {
			w.violationLocked("early/"+w.ctx(), fmt.Sprintf("item %d executed %v before its scheduled time (limit 0.5ms)", c.it.id, d))
			return
		}
		// removed before it could run?
		for _, r := range byKey[c.it.key] {
			if r == e || r.call < e.ret || r.ret == 0 {
				continue
			}
			if w.closeCall > 0 && r.ret > w.closeCall {
				// the operation had not returned when Close was called: a processor that is closing ignores
				// Enqueue and Dequeue, so it may not have removed anything
				continue
			}
			// r started after the item's Enqueue returned: once r returned the item is gone
			if r.ret < c.s1 {
				w.violationLocked("executed-after-removal/"+w.ctx(), fmt.Sprintf("item %d executed although %s(%s) had returned (stamp %d) before the loop's peek (stamp %d)", c.it.id, r.kind, r.key, r.ret, c.s1))
				return
			}
			if r.ret < c.start && c.it.due.Sub(r.t) >= early {
				w.violationLocked("executed-after-removal-before-due/"+w.ctx(), fmt.Sprintf("item %d executed although %s(%s) removed it %v before it was due", c.it.id, r.kind, r.key, c.it.due.Sub(r.t)))
				return
			}
		}
		// order: an earlier-due item that was definitely in the queue when this one was popped
		for it2, e2 := range enqOf {
			if it2 == c.it || e2.ret == 0 || e2.ret >= c.s1 || !it2.due.Before(c.it.due) {
				continue
			}
			if c2, ran := cbOf[it2]; ran && c2.s2 < c.s2 {
				continue // ran before
			}
			removed := false
			for _, r := range byKey[it2.key] {
				if r != e2 && r.ret != 0 && r.ret > e2.call && r.call < c.s2 {
					removed = true // possibly removed before the pop
				}
			}
			if removed {
				continue
			}
			w.violationLocked("out-of-order/"+w.ctx(), fmt.Sprintf("item %d (due %s) executed while item %d (due %s), enqueued before the loop's peek, was still queued", c.it.id, c.it.due.Format("05.000000"), it2.id, it2.due.Format("05.000000")))
			return
		}
		// order, second form: the callback that ended last before this one started marks a point at which
		// this item's callback had not begun; an earlier-due item whose Enqueue had returned even before
		// THAT callback ended was sitting in the queue all along and goes first
		var prev *cbRec
		for _, p := range w.cbs {
			if p != c && p.end != 0 && p.end < c.start && (prev == nil || p.end > prev.end) {
				prev = p
			}
		}
		if prev != nil {
			for it2, e2 := range enqOf {
				if it2 == c.it || e2.ret == 0 || e2.ret >= prev.end || !it2.due.Before(c.it.due) {
					continue
				}
				if c2, ran := cbOf[it2]; ran && c2.start < c.start {
					continue
				}
				removed := false
				for _, r := range byKey[it2.key] {
					if r != e2 && r.ret != 0 && r.ret > e2.call && r.call < c.start {
						removed = true
					}
				}
				if removed || (w.closeCall > 0 && w.closeCall < c.start) {
					continue
				}
				w.violationLocked("out-of-order/after-callback/"+w.ctx(), fmt.Sprintf("item %d (due %s) executed while item %d (due %s) was still queued: its Enqueue had returned (stamp %d) before the previous callback (item %d) ended (stamp %d)", c.it.id, c.it.due.Format("05.000000"), it2.id, it2.due.Format("05.000000"), e2.ret, prev.it.id, prev.end))
				return
			}
			rec.Count("order.checked_against_items_queued_before_previous_callback_ended", 1)
		}
		// after Close returned nothing runs
		if w.closeRet > 0 && c.start > w.closeRet {
			w.violationLocked("callback-after-close/"+w.ctx(), fmt.Sprintf("item %d executed after Close returned", c.it.id))
			return
		}
		rec.Count("callbacks", 1)
	}
	w.done = len(w.cbs)
	if w.closeRet > 0 {
		for _, c := range w.cbs {
			if c.end == 0 || c.end > w.closeRet {
				w.violationLocked("callback-running-after-close/"+w.ctx(), fmt.Sprintf("Close returned while the callback of item %d was still running", c.it.id))
				return
			}
		}
	}
	if w.closeCall > 0 {
		return // after Close is called, pending items are legitimately dropped
	}
	// on time / stranding: every definitely-live item whose time has come has run
	for it, e := range enqOf {
		if e.ret == 0 || it.due.After(now) {
			continue
		}
		if _, ran := cbOf[it]; ran {
			continue
		}
		live := true
		for _, r := range byKey[it.key] {
			if r != e && r.ret > e.call {
				live = false
			}
		}
		if !live {
			continue
		}
		kind := "late"
		if final {
			kind = "stranded"
		}
		w.violationLocked(kind+"/"+w.ctx(), fmt.Sprintf("item %d (key %s, due %s) is live, its time has come (now %s) and every goroutine is parked, but it was never handed to the callback", it.id, it.key, it.due.Format("05.000000"), now.Format("05.000000")))
		return
	}
}

func (w *world) violationLocked(sig, msg string) {
	w.mu.Unlock()
	w.violation(sig, msg)
	w.mu.Lock()
}

var rec *mon.Rec

var hooks = []string{"loop.start", "loop.empty", "loop.peeked", "loop.armed", "loop.fired", "exec.popped"}

var offs = []time.Duration{-time.Second, 0, 100 * time.Microsecond, 499 * time.Microsecond, 500 * time.Microsecond, 501 * time.Microsecond,
	time.Millisecond, 2 * time.Millisecond, 10 * time.Millisecond, time.Second, time.Hour}
var sleeps = []time.Duration{1, 100 * time.Microsecond, 400 * time.Microsecond, 500 * time.Microsecond, time.Millisecond, 1500 * time.Microsecond,
						2 * time.Millisecond, 9500 * time.Microsecond, 10 * time.Millisecond, time.Second}
var keys = []string{"a", "b", "c", "d", ""} // the zero-value key is a key like any other

// placedOps: what is issued while the loop is parked at a hook.
var placedKinds = []string{"enq-new-early", "enq-new-late", "enq-same-early", "enq-same-late", "deq-head", "deq-other", "deq-absent", "close", "enq-new-now"}

// scenario for reaching a hook: returns the setup ops (the arm comes first).
func setupFor(hook string, n int) []op {
	if n == 2 {
		// second life of the loop: a warm-up item makes the loop run through every hook point once and exit
		return append([]op{{Kind: "enq", Key: "w", Off: time.Millisecond}, {Kind: "sleep", Off: time.Millisecond}}, setupFor(hook, 1)...)
	}
	switch hook {
	case "loop.start", "loop.peeked", "loop.armed":
		return []op{{Kind: "arm", Hook: hook, N: n}, {Kind: "enq", Key: "a", Off: 10 * time.Millisecond}}
	case "loop.empty", "exec.popped":
		return []op{{Kind: "arm", Hook: hook, N: n}, {Kind: "enq", Key: "a", Off: 0}}
	case "loop.fired":
		return []op{{Kind: "arm", Hook: hook, N: n}, {Kind: "enq", Key: "a", Off: 10 * time.Millisecond}, {Kind: "enq", Key: "b", Off: 20 * time.Millisecond}, {Kind: "sleep", Off: 10 * time.Millisecond}}
	}
	return nil
}

func placed(kind string) op {
	switch kind {
	case "enq-new-early":
		return op{Kind: "enq", Key: "c", Off: time.Millisecond}
	case "enq-new-now":
		return op{Kind: "enq", Key: "c", Off: 0}
	case "enq-new-late":
		return op{Kind: "enq", Key: "d", Off: 50 * time.Millisecond}
	case "enq-same-early":
		return op{Kind: "enq", Key: "a", Off: 600 * time.Microsecond}
	case "enq-same-late":
		return op{Kind: "enq", Key: "a", Off: 30 * time.Millisecond}
	case "deq-head":
		return op{Kind: "deq", Key: "a"}
	case "deq-other":
		return op{Kind: "deq", Key: "b"}
	case "deq-absent":
		return op{Kind: "deq", Key: "zz"}
	case "close":
		return op{Kind: "close"}
	}
	return op{}
}

type plan struct {
	mode string
	ops  []op
	gate bool
	desc string
}

func plans() []plan {
	var ps []plan
	// directed: every hook x every placed op kind (x pairs in thorough), hook hit 1 and 2
	for _, h := range hooks {
		for _, n := range []int{1, 2} {
			for _, k1 := range placedKinds {
				ops := append([]op{}, setupFor(h, n)...)
				ops = append(ops, op{Kind: "placed"}, placed(k1), op{Kind: "resume"})
				ps = append(ps, plan{mode: "directed", ops: ops, desc: fmt.Sprintf("%s#%d+%s", h, n, k1)})
				for _, k2 := range placedKinds {
					if k1 == "close" {
						continue
					}
					if !mon.Thorough() && n == 2 {
						continue
					}
					ops := append([]op{}, setupFor(h, n)...)
					ops = append(ops, op{Kind: "placed"}, placed(k1), placed(k2), op{Kind: "resume"})
					ps = append(ps, plan{mode: "directed", ops: ops, desc: fmt.Sprintf("%s#%d+%s+%s", h, n, k1, k2)})
				}
			}
		}
	}
	// two loops: an exiting loop stopped at loop.empty (it has given the token back) AND the loop started by a
	// later Enqueue stopped at one of its own hook points; operations are issued, then the two are let go in
	// either order
	for _, h2 := range []string{"loop.start", "loop.peeked", "loop.armed"} {
		for _, n := range []int{1, 2} {
			for _, k1 := range placedKinds {
				for _, order := range [][2]string{{"resume-a", "resume-b"}, {"resume-b", "resume-a"}} {
					var k2s []string
					if mon.Thorough() && k1 != "close" {
						k2s = placedKinds
					} else {
						k2s = []string{""}
					}
					for _, k2 := range k2s {
						ops := append([]op{}, setupFor("loop.empty", n)...)
						ops = append(ops, op{Kind: "arm2", Hook: h2}, op{Kind: "placed"}, op{Kind: "enq", Key: "a", Off: 10 * time.Millisecond}, op{Kind: "placed2"}, placed(k1))
						if k2 != "" {
							ops = append(ops, placed(k2))
						}
						ops = append(ops, op{Kind: order[0]}, op{Kind: order[1]}, op{Kind: "resume"})
						ps = append(ps, plan{mode: "directed", ops: ops, desc: fmt.Sprintf("twoloops loop.empty#%d|%s+%s+%s/%s-first", n, h2, k1, k2, order[0])})
					}
				}
			}
		}
	}
	// backlog: the loop is stopped between peek and pop while the clock passes SEVERAL items, the first callback
	// blocks, and an overdue item that belongs between the ones already due is enqueued meanwhile
	for _, h := range []string{"loop.peeked", "loop.armed", "loop.fired"} {
		for _, nDue := range []int{2, 3} {
			for _, xoff := range []time.Duration{-3500 * time.Microsecond, -2500 * time.Microsecond, -10 * time.Millisecond} {
				ops := []op{{Kind: "gate-on"}, {Kind: "arm", Hook: h, N: 1}, {Kind: "enq", Key: "a", Off: time.Millisecond}}
				if h == "loop.fired" {
					// the timer has to fire for the loop to get there
					ops = append(ops, op{Kind: "sleep", Off: time.Millisecond})
				}
				ops = append(ops, op{Kind: "placed"}, op{Kind: "enq", Key: "b", Off: 2 * time.Millisecond})
				if nDue == 3 {
					ops = append(ops, op{Kind: "enq", Key: "c", Off: 3 * time.Millisecond})
				}
				ops = append(ops, op{Kind: "sleep", Off: 5 * time.Millisecond}, op{Kind: "resume"},
					op{Kind: "enq", Key: "x", Off: xoff}, op{Kind: "gate-release"})
				ps = append(ps, plan{mode: "directed", ops: ops, desc: fmt.Sprintf("backlog %s due=%d x@%v", h, nDue, xoff)})
			}
		}
	}
	// gated: a callback blocks inside executeFn while operations are issued; Close must wait for it
	for _, k1 := range placedKinds {
		for _, k2 := range placedKinds {
			ops := []op{{Kind: "gate-on"}, {Kind: "enq", Key: "a", Off: 0}, {Kind: "enq", Key: "b", Off: 5 * time.Millisecond}, placed(k1)}
			if k1 != "close" {
				ops = append(ops, placed(k2))
			}
			if k1 != "close" && k2 != "close" {
				ops = append(ops, op{Kind: "close"})
			}
			// a second Close overlapping the first one: it, too, must wait for the running callback
			ops = append(ops, op{Kind: "close2"})
			ops = append(ops, op{Kind: "gate-check-close-blocked"}, op{Kind: "gate-release"})
			ps = append(ps, plan{mode: "gated", ops: ops, desc: "gated+" + k1 + "+" + k2})
		}
	}
	nrand := mon.Pick(3000, 120000)
	for i := 0; i < nrand; i++ {
		ps = append(ps, plan{mode: "random"})
	}
	for i := 0; i < mon.Pick(120, 4000); i++ {
		ps = append(ps, plan{mode: "rearm"})
	}
	nrace := mon.Pick(600, 30000)
	for i := 0; i < nrace; i++ {
		ps = append(ps, plan{mode: "racing"})
	}
	return ps
}

// manyKeys: for the histories that build a queue of a dozen and more items (a heap deep enough for its
// sift-up / sift-down paths to matter when an item in the middle or at a leaf is taken out)
var manyKeys = []string{"a", "b", "c", "d", "", "e", "f", "g", "h", "i", "j", "k", "l", "m", "n", "o"}

func genRandom(rng *mon.RNG) ([]op, bool) {
	n := rng.Range(4, 24)
	var ops []op
	if rng.Chance(1, 3) {
		// a big queue first: 7-16 items with distinct keys and well-separated times in a seeded order, then
		// removals of seeded keys, then the clock is walked past all of them
		ks := append([]string{}, manyKeys[:rng.Range(7, len(manyKeys))]...)
		perm := make([]int, len(ks))
		for i := range perm {
			perm[i] = i
		}
		for i := len(perm) - 1; i > 0; i-- {
			j := rng.Intn(i + 1)
			perm[i], perm[j] = perm[j], perm[i]
		}
		for i, pi := range perm {
			ops = append(ops, op{Kind: "enq", Key: ks[pi], Off: time.Duration(1+((i*7)%len(ks)))*time.Second + time.Duration(pi)*time.Millisecond})
		}
		for k := rng.Range(3, 9); k > 0; k-- {
			ops = append(ops, op{Kind: "deq", Key: ks[rng.Intn(len(ks))]})
			if rng.Bool() {
				ops = append(ops, op{Kind: "enq", Key: ks[rng.Intn(len(ks))], Off: time.Duration(rng.Range(1, 20)) * 700 * time.Millisecond})
			}
		}
		for i := 0; i < len(ks)+2; i++ {
			ops = append(ops, op{Kind: "sleep", Off: time.Second})
		}
		ops = append(ops, op{Kind: "big-queue-marker"})
		n = rng.Range(0, 6)
	}
	for i := 0; i < n; i++ {
		switch r := rng.Intn(100); {
		case r < 5:
			// an item scheduled centuries ahead: it never runs and must not get in the way of the others
			ops = append(ops, op{Kind: "enq", Key: rng.PickStr(keys...), Off: []time.Duration{farOff2300, farOff9999}[rng.Intn(2)]})
		case r < 12:
			// an item whose callback works on the processor itself: re-arms its own key, arms another key,
			// or cancels another key
			o := op{Kind: "enq", Key: rng.PickStr(keys...), Off: offs[rng.Intn(len(offs))]}
			switch rng.Intn(3) {
			case 0:
				o.Follow = []time.Duration{100 * time.Microsecond, time.Millisecond, 10 * time.Millisecond, time.Second}[rng.Intn(4)]
			case 1:
				o.Follow = []time.Duration{time.Millisecond, 10 * time.Millisecond}[rng.Intn(2)]
				o.FKey = rng.PickStr(keys...)
			default:
				o.FDeq = rng.PickStr(keys...)
			}
			ops = append(ops, o)
		case r < 40:
			ops = append(ops, op{Kind: "enq", Key: rng.PickStr(keys...), Off: offs[rng.Intn(len(offs))]})
		case r < 55:
			ops = append(ops, op{Kind: "deq", Key: rng.PickStr(keys...)})
		case r < 85:
			ops = append(ops, op{Kind: "sleep", Off: sleeps[rng.Intn(len(sleeps))]})
		case r < 97:
			ops = append(ops, op{Kind: "arm", Hook: hooks[rng.Intn(len(hooks))], N: rng.Range(1, 2)})
		default:
			if i > n/2 {
				ops = append(ops, op{Kind: "close"})
				// a few operations after Close must be ignored
				ops = append(ops, op{Kind: "enq", Key: "a", Off: 0}, op{Kind: "sleep", Off: time.Millisecond})
				return ops, false
			}
		}
	}
	return ops, false
}

func TestCheck(t *testing.T) {
	rec = mon.Open("C06")
	defer rec.Close()
	rec.Note("rule", "a case is one history run against the real Processor in a synctest bubble: (directed) the loop parked at each hook point x hit 1-2 x each placed operation kind (pairs of kinds as well); (random) 4-24 seeded Enqueue/Dequeue/Sleep/Close operations in lock-step with seeded hook parking; (racing) 2-4 goroutines issuing operations at the same virtual instants. (gated) a callback held open while Dequeue / Enqueue / Close and a second, overlapping Close are issued; (two parks) the loop parked at a first hook point, released to a second one, operations placed at both; (backlog) callbacks gated while several items fall due and more are added, order judged after release: an item due earlier whose Enqueue returned before the previous callback ended runs first; (big queue) queues of 7-16 items with 3-8 seeded removals, so that the heap is deep enough for its sift paths; (rearm) items whose due time is mutable: the callback re-enqueues its own item, the owner takes an item out, moves it later or earlier and puts it back, or replaces it in place; each run is compared with the list of due times the item has had. Non-trivial = at least one callback was observed or an item was removed before running; distinct = distinct operation list.")
	rec.Note("require", []string{"park.loop.start", "park.loop.empty", "park.loop.peeked", "park.loop.armed", "park.loop.fired", "park.exec.popped", "callbacks", "callback.reentrant_enqueue", "callback.reentrant_dequeue", "enq.far_future_item", "placed.close", "placed.enq", "placed.deq", "racing.same_instant_ops", "gated.close_waited_for_callback", "placed.second_close", "twoloops.both_parked", "random.big_queue_histories", "rearm.same_object_enqueued_again_from_its_callback", "rearm.same_object_put_back_with_a_new_time", "rearm.scenarios_ok.callback-rearms-itself", "rearm.scenarios_ok.owner-takes-out-moves-later-puts-back", "rearm.scenarios_ok.owner-takes-out-moves-earlier-puts-back", "rearm.scenarios_ok.owner-replaces-in-place-later"})
	ps := plans()
	rec.Planned(len(ps))
	for idx, pl := range ps {
		if !mon.Mine(idx) {
			continue
		}
		rng := mon.NewRNG("c06", idx)
		switch pl.mode {
		case "random":
			pl.ops, pl.gate = genRandom(rng)
		case "racing":
			runRacing(t, idx, rng)
			continue
		case "rearm":
			runRearm(t, idx, rng)
			continue
		}
		runSeq(t, idx, pl)
	}
}

func runSeq(t *testing.T, idx int, pl plan) {
	rec.Begin(idx, pl.mode+" "+pl.desc+" gate="+fmt.Sprint(pl.gate)+" "+opsString(pl.ops))
	w := &world{idx: idx, mode: pl.mode, history: pl.ops}
	res := mon.Bubble(t, func() {
		w.resume = make(chan struct{})
		w.resume2 = make(chan struct{})
		w.gate = make(chan struct{})
		h := w.hook
		queue.VerifHook.Store(&h)
		defer queue.VerifHook.Store(nil)
		w.p = queue.NewProcessor[string, *item](w.callback)
		var closeDones []chan struct{}
		closing := false
		// doClose may be called several times (overlapping Close calls): closeCall is the first
		// call, closeRet the EARLIEST return - "once Close returns" holds for every caller.
		doClose := func() {
			closing = true
			w.mu.Lock()
			if w.closeCall == 0 {
				w.closeCall = w.stamp()
			}
			w.mu.Unlock()
			d := make(chan struct{})
			closeDones = append(closeDones, d)
			go func() {
				w.p.Close()
				w.mu.Lock()
				if w.closeRet == 0 {
					w.closeRet = w.stamp()
				}
				w.mu.Unlock()
				close(d)
			}()
		}
		waitCloses := func() {
			for _, d := range closeDones {
				<-d
			}
		}
		// settle: quiesce; if the loop parked, issue the placed operations and resume
		placedMode := false
		quiesce := func() {
			synctest.Wait()
			if w.parked.Load() && !placedMode {
				// not a directed plan: resume immediately after the wait (the park itself was the perturbation)
			}
		}
		resumeLoop := func() {
			if w.parked.Load() {
				w.parked.Store(false)
				w.resume <- struct{}{}
			}
		}
		resumeLoop2 := func() {
			if w.parked2.Load() {
				w.parked2.Store(false)
				w.resume2 <- struct{}{}
			}
		}
		var parkOps []string
		for i := 0; i < len(pl.ops) && !w.viol; i++ {
			o := pl.ops[i]
			rec.Progress()
			switch o.Kind {
			case "arm":
				w.mu.Lock()
				w.armHook, w.armN = o.Hook, o.N
				w.mu.Unlock()
				continue
			case "placed":
				// the following ops (up to "resume") are issued while the loop is parked
				quiesce()
				if !w.parked.Load() {
					rec.Inconclusive(idx, "directed plan did not reach its hook", pl.desc)
					return
				}
				placedMode = true
				w.lastPark, parkOps = w.parkedAt, nil
				continue
			case "arm2":
				w.mu.Lock()
				w.arm2Hook, w.arm2N = o.Hook, 1
				w.mu.Unlock()
				continue
			case "placed2":
				// the loop started by the previous Enqueue must now be stopped at the second hook
				synctest.Wait()
				if !w.parked2.Load() {
					rec.Inconclusive(idx, "two-loops plan did not reach its second hook", pl.desc)
					return
				}
				w.lastPark = w.parkedAt + "|" + w.parked2At
				rec.Count("twoloops.both_parked", 1)
				continue
			case "resume-a":
				resumeLoop()
				synctest.Wait()
				continue
			case "resume-b":
				resumeLoop2()
				synctest.Wait()
				continue
			case "resume":
				w.lastParkOps = parkOps
				placedMode = false
				resumeLoop()
				quiesce()
				if !w.gateOn.Load() {
					w.judge(false)
				}
				continue
			case "enq":
				if placedMode {
					rec.Count("placed.enq", 1)
					parkOps = append(parkOps, "enq")
				}
				w.enqItem(o.Key, o.Off, o)
			case "deq":
				if placedMode {
					rec.Count("placed.deq", 1)
					parkOps = append(parkOps, "deq")
				}
				w.deq(o.Key)
			case "close2":
				// a second, overlapping Close call
				rec.Count("placed.second_close", 1)
				doClose()
			case "close":
				if closing {
					continue
				}
				if placedMode {
					rec.Count("placed.close", 1)
					parkOps = append(parkOps, "close")
				}
				doClose()
			case "sleep":
				time.Sleep(o.Off)
			case "big-queue-marker":
				rec.Count("random.big_queue_histories", 1)
				continue
			case "gate-on":
				w.gateOn.Store(true)
				continue
			case "gate-check-close-blocked":
				// a callback is blocked on the gate and Close was called: Close must not have returned
				synctest.Wait()
				w.mu.Lock()
				ret, inCb := w.closeRet, w.inCb.Load()
				w.mu.Unlock()
				if inCb > 0 && ret > 0 {
					w.violation("close-returned-while-callback-running/gated", "Close returned while a callback was still blocked inside executeFn")
				}
				if inCb > 0 {
					rec.Count("gated.close_waited_for_callback", 1)
				}
				continue
			case "gate-release":
				w.gateOn.Store(false)
				close(w.gate)
				w.gate = make(chan struct{})
				synctest.Wait()
				w.judge(false)
				continue
			}
			if placedMode {
				synctest.Wait()
				continue
			}
			quiesce()
			if w.parked.Load() && pl.mode == "random" {
				// random mode: the loop reached an armed hook. Issue the next one or two non-sleep ops while it is parked.
				w.lastPark, parkOps = w.parkedAt, nil
				for k := 0; k < 2 && i+1 < len(pl.ops); k++ {
					nx := pl.ops[i+1]
					if nx.Kind != "enq" && nx.Kind != "deq" && nx.Kind != "close" {
						break
					}
					i++
					parkOps = append(parkOps, nx.Kind)
					rec.Count("placed."+nx.Kind, 1)
					switch nx.Kind {
					case "enq":
						w.enq(nx.Key, nx.Off)
					case "deq":
						w.deq(nx.Key)
					case "close":
						if !closing {
							doClose()
						}
					}
					synctest.Wait()
				}
				w.lastParkOps = parkOps
				resumeLoop()
				quiesce()
			}
			if !w.gateOn.Load() && !w.parked.Load() {
				w.judge(false)
			}
		}
		if w.viol {
			// leave the bubble cleanly
			w.gateOn.Store(false)
			close(w.gate)
			w.mu.Lock()
			w.armHook, w.arm2Hook = "", ""
			w.mu.Unlock()
			resumeLoop()
			resumeLoop2()
			if !closing {
				doClose()
			}
			waitCloses()
			return
		}
		// tail: let every due time pass (1h offsets included), then nothing may be left
		w.gateOn.Store(false)
		close(w.gate)
		w.mu.Lock()
		w.armHook, w.arm2Hook = "", ""
		w.mu.Unlock()
		resumeLoop()
		resumeLoop2()
		time.Sleep(2 * time.Hour)
		synctest.Wait()
		w.judge(true)
		if !closing {
			doClose()
		}
		waitCloses()
		synctest.Wait()
		w.judge(true)
		// Enqueue after Close is ignored
		w.enq("late", 0)
		time.Sleep(time.Second)
		synctest.Wait()
		w.judge(true)
	})
	finishCase(idx, w, res, opsString(pl.ops)+fmt.Sprint(pl.gate))
}

func finishCase(idx int, w *world, res mon.BubbleResult, key string) {
	if res.Deadlock != "" {
		w.violation("bubble-"+strings.ReplaceAll(strings.SplitN(res.Deadlock, ":", 2)[1][1:], " ", "-")+"/"+w.ctx(), res.Deadlock+"; goroutines left: "+strings.Join(res.Stacks, " || "))
	} else if res.Panic != "" {
		w.violation("panic/"+w.ctx(), res.Panic)
	}
	nontrivial := len(w.cbs) > 0
	rec.Case(idx, key, nontrivial)
	if rec.WantSample() && nontrivial && idx%5 == 0 {
		rec.Sample(map[string]any{"mode": w.mode, "history": opsString(w.history), "events": w.dump()})
	}
}

// runRacing: several goroutines issue operations at the same virtual instants,
// many of them at the instants the loop's timer fires.
func runRacing(t *testing.T, idx int, rng *mon.RNG) {
	ng := rng.Range(2, 4)
	nsteps := rng.Range(3, 8)
	type gop struct {
		at time.Duration
		o  op
	}
	var all []op
	sched := make([][]gop, ng)
	grid := []time.Duration{0, time.Millisecond, 2 * time.Millisecond, 3 * time.Millisecond, 5 * time.Millisecond}
	for g := 0; g < ng; g++ {
		for s := 0; s < nsteps; s++ {
			at := grid[rng.Intn(len(grid))]
			var o op
			// keys: mostly own key, sometimes shared
			key := fmt.Sprintf("g%d", g)
			if rng.Chance(1, 3) {
				key = "shared"
			}
			if rng.Chance(3, 4) {
				// due times on the same grid so that timers fire at operation instants
				o = op{Kind: "enq", Key: key, Off: grid[rng.Intn(len(grid))], G: g}
				if rng.Chance(1, 12) {
					o.Off = []time.Duration{farOff2300, farOff9999}[rng.Intn(2)]
				}
			} else {
				o = op{Kind: "deq", Key: key, G: g}
			}
			sched[g] = append(sched[g], gop{at, o})
			all = append(all, o)
		}
		sort.SliceStable(sched[g], func(i, j int) bool { return sched[g][i].at < sched[g][j].at })
	}
	withClose := rng.Chance(1, 3)
	desc := fmt.Sprintf("racing g=%d close=%v %v", ng, withClose, sched)
	rec.Begin(idx, desc)
	w := &world{idx: idx, mode: "racing", history: all}
	res := mon.Bubble(t, func() {
		w.resume = make(chan struct{})
		w.gate = make(chan struct{})
		yield := rng.Intn(3)
		h := func(name string) {
			w.hook(name)
			for i := 0; i < yield; i++ {
				// seeded perturbation
				time.Sleep(0)
			}
		}
		queue.VerifHook.Store(&h)
		defer queue.VerifHook.Store(nil)
		w.p = queue.NewProcessor[string, *item](w.callback)
		var wg sync.WaitGroup
		start := time.Now()
		for g := 0; g < ng; g++ {
			wg.Add(1)
			go func(g int) {
				defer wg.Done()
				for _, s := range sched[g] {
					if d := s.at - time.Since(start); d > 0 {
						time.Sleep(d)
					}
					rec.Count("racing.same_instant_ops", 1)
					if s.o.Kind == "enq" {
						w.enq(s.o.Key, s.o.Off)
					} else {
						w.deq(s.o.Key)
					}
				}
			}(g)
		}
		if withClose {
			time.Sleep(grid[rng.Intn(len(grid))])
			w.mu.Lock()
			w.closeCall = w.stamp()
			w.mu.Unlock()
			w.p.Close()
			w.mu.Lock()
			w.closeRet = w.stamp()
			w.mu.Unlock()
		}
		wg.Wait()
		time.Sleep(time.Second)
		synctest.Wait()
		w.judge(true)
		if !withClose {
			w.mu.Lock()
			w.closeCall = w.stamp()
			w.mu.Unlock()
			w.p.Close()
			w.mu.Lock()
			w.closeRet = w.stamp()
			w.mu.Unlock()
			w.judge(true)
		}
	})
	finishCase(idx, w, res, desc)
}
