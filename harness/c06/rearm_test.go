package c06

import (
	"fmt"
	"sync"
	"testing"
	"testing/synctest"
	"time"

	"github.com/dapr/kit/events/queue"

	"verif/harness/internal/mon"
)

// robj is an item whose scheduled time its owner moves: a periodic job that re-arms ITSELF (the same
// object, enqueued again with a later time - legal: once an item has been popped, or removed with
// Dequeue, the processor no longer holds it), or an owner that takes the item out, changes its time and
// puts the same object back.
type robj struct {
	key string
	mu  sync.Mutex
	due time.Time
}

func (r *robj) Key() string { return r.key }
func (r *robj) ScheduledTime() time.Time {
	r.mu.Lock()
	defer r.mu.Unlock()
	return r.due
}
func (r *robj) setDue(t time.Time) {
	r.mu.Lock()
	r.due = t
	r.mu.Unlock()
}

// runRearm: every run of a re-armed object happens at the time that is in force for THAT run - never
// earlier than 0.5 ms before it, and it has happened once the clock has reached it and everything is parked.
func runRearm(t *testing.T, idx int, rng *mon.RNG) {
	how := []string{"callback-rearms-itself", "owner-takes-out-moves-later-puts-back", "owner-takes-out-moves-earlier-puts-back", "owner-replaces-in-place-later"}[idx%4]
	periods := []time.Duration{time.Millisecond, 10 * time.Millisecond, time.Second, 10 * time.Second, time.Hour}
	per := periods[rng.Intn(len(periods))]
	runs := rng.Range(2, 5)
	withOther := rng.Bool() // another, far item keeps the queue (and so the loop goroutine) alive throughout
	desc := fmt.Sprintf("rearm %s period=%v runs=%d otherItemQueued=%v", how, per, runs, withOther)
	rec.Begin(idx, desc)
	viol := false
	violation := func(sig, msg string, extra map[string]any) {
		if !viol {
			viol = true
			if extra == nil {
				extra = map[string]any{}
			}
			extra["scenario"] = desc
			rec.Violation(idx, sig, msg, extra)
		}
	}
	res := mon.Bubble(t, func() {
		type run struct{ at, due time.Time }
		var mu sync.Mutex
		var log []run
		var p *queue.Processor[string, *robj]
		x := &robj{key: "x"}
		selfRearm := 0
		p = queue.NewProcessor[string, *robj](func(r *robj) {
			mu.Lock()
			log = append(log, run{time.Now(), r.ScheduledTime()})
			again := r == x && selfRearm > 0
			if again {
				selfRearm--
			}
			mu.Unlock()
			if again {
				// the periodic job re-arms itself: the SAME object, one period later
				r.setDue(time.Now().Add(per))
				rec.Count("rearm.same_object_enqueued_again_from_its_callback", 1)
				p.Enqueue(r)
			}
		})
		defer p.Close()
		start := time.Now()
		if withOther {
			p.Enqueue(&robj{key: "far", due: start.Add(1000 * time.Hour)})
		}
		var dues []time.Time // dues[i] = the time in force for run i+1
		check := func(k int, want time.Time) bool {
			mu.Lock()
			defer mu.Unlock()
			var xs []run
			for _, r := range log {
				xs = append(xs, r)
			}
			if len(xs) > k {
				violation("early/rearm/"+how, fmt.Sprintf("the object had %d runs when only %d of its times had come (run %d at +%v, the time in force for it is +%v)", len(xs), k, len(xs), xs[len(xs)-1].at.Sub(start), want.Sub(start)), nil)
				return false
			}
			if len(xs) < k {
				violation("late/rearm/"+how, fmt.Sprintf("the clock has reached +%v, the time in force for run %d, everything is parked, and the object has had only %d runs", want.Sub(start), k, len(xs)), nil)
				return false
			}
			for i := 0; i < k && i < len(dues); i++ {
				if d := dues[i].Sub(xs[i].at); d >= 500*time.Microsecond {
					violation("early/rearm/"+how, fmt.Sprintf("run %d happened at +%v, %v before the time in force for it (+%v)", i+1, xs[i].at.Sub(start), d, dues[i].Sub(start)), nil)
					return false
				}
			}
			return true
		}
		due := start.Add(per)
		x.setDue(due)
		switch how {
		case "callback-rearms-itself":
			mu.Lock()
			selfRearm = runs - 1
			mu.Unlock()
			p.Enqueue(x)
			for k := 1; k <= runs; k++ {
				// just before the time: not yet
				if per > time.Millisecond {
					time.Sleep(time.Until(due) - time.Millisecond)
					synctest.Wait()
					if !check(k-1, due) {
						return
					}
				}
				time.Sleep(time.Until(due))
				synctest.Wait()
				dues = append(dues, due)
				if !check(k, due) {
					return
				}
				due = due.Add(per) // the callback ran at exactly `due` and re-armed for one period later
			}
		default:
			p.Enqueue(x)
			synctest.Wait() // the loop is parked on x's timer
			for k := 1; k <= runs; k++ {
				// while the loop waits for x, the owner moves x
				var nd time.Time
				switch how {
				case "owner-takes-out-moves-later-puts-back":
					nd = due.Add(per)
					p.Dequeue("x")
					x.setDue(nd)
					p.Enqueue(x)
				case "owner-takes-out-moves-earlier-puts-back":
					nd = time.Now().Add(time.Until(due) / 2)
					p.Dequeue("x")
					x.setDue(nd)
					p.Enqueue(x)
				default:
					// put the same object again without taking it out first (Enqueue replaces by key)
					nd = due.Add(per)
					x.setDue(nd)
					p.Enqueue(x)
				}
				rec.Count("rearm.same_object_put_back_with_a_new_time", 1)
				old := due
				due = nd
				synctest.Wait()
				if !check(k-1, due) {
					return
				}
				if old.Before(due) {
					// the old time passes: nothing may run
					time.Sleep(time.Until(old))
					synctest.Wait()
					if !check(k-1, due) {
						return
					}
				}
				time.Sleep(time.Until(due))
				synctest.Wait()
				dues = append(dues, due)
				if !check(k, due) {
					return
				}
				// next round: the object is enqueued afresh for one period later
				due = time.Now().Add(per)
				x.setDue(due)
				p.Enqueue(x)
				synctest.Wait()
			}
		}
		rec.Count("rearm.scenarios_ok."+how, 1)
	})
	if !viol {
		if res.Deadlock != "" {
			violation("bubble-deadlock-or-leak/rearm", res.Deadlock, nil)
		} else if res.Panic != "" {
			violation("panic/rearm", res.Panic, nil)
		}
	}
	rec.Case(idx, desc, true)
}
