package c14

import (
	cring "container/ring"
	"fmt"
	"reflect"
	"unsafe"

	kring "github.com/dapr/kit/ring"

	"verif/harness/internal/mon"
)

// Second ring differential: ring.Ring[any] against container/ring with
// arbitrary element values - nil, zero values, equal values, a typed nil
// pointer, one pointer stored in several elements - which the library must
// hand through untouched. Elements are identified by address here (the int
// world of ring_test.go identifies them by Value).

type vElem = kring.Ring[any]

//go:nocheckptr
func vLinks(r *vElem) (n, p *vElem) {
	l := (*rawLinks)(unsafe.Pointer(r))
	return (*vElem)(l.next), (*vElem)(l.prev)
}

func checkVRingLayout() string {
	t := reflect.TypeOf(vElem{})
	if t.NumField() < 3 || t.Field(0).Name != "next" || t.Field(0).Offset != 0 || t.Field(1).Name != "prev" || t.Field(1).Offset != unsafe.Sizeof(uintptr(0)) {
		return "unexpected element layout of " + t.String()
	}
	return ""
}

var (
	vShared    = new(int)
	vOther     = new(int)
	vAlphabet  = []any{nil, 0, "", false, 7, 7, int64(7), (*int)(nil), vShared, vShared, vOther, "x", struct{}{}}
	vAlphaName = []string{"nil", "0", `""`, "false", "7", "7", "int64(7)", "(*int)(nil)", "p", "p", "q", `"x"`, "struct{}{}"}
)

type vWorld struct {
	k     []*vElem
	s     []*cring.Ring
	ki    map[*vElem]int
	si    map[*cring.Ring]int
	hk    []*vElem
	hs    []*cring.Ring
	trace []string
	rng   *mon.RNG
	// counters
	nilSeenInDo, selfLink, len1, zeroArg, negArg, multArg, setValue int
}

func (w *vWorld) kidx(r *vElem) int {
	if r == nil {
		return -1
	}
	if i, ok := w.ki[r]; ok {
		return i
	}
	return -2
}

func (w *vWorld) sidx(r *cring.Ring) int {
	if r == nil {
		return -1
	}
	if i, ok := w.si[r]; ok {
		return i
	}
	return -2
}

func (w *vWorld) register(k *vElem, s *cring.Ring) {
	id := len(w.k)
	w.k, w.s = append(w.k, k), append(w.s, s)
	w.ki[k], w.si[s] = id, id
	// New leaves Value at its zero value (nil); half of the elements keep it
	if w.rng.Bool() {
		v := w.rng.Intn(len(vAlphabet))
		k.Value, s.Value = vAlphabet[v], vAlphabet[v]
	}
}

func (w *vWorld) iso(after string) *ringFail {
	for i := range w.k {
		kn, kp := vLinks(w.k[i])
		sn, sp := sLinks(w.s[i])
		if a, b := w.kidx(kn), w.sidx(sn); a != b {
			return &ringFail{"ring-values/" + after + "/next-differs", fmt.Sprintf("after %s: element %d has next=%s, container/ring has next=%s", after, i, elemName(a), elemName(b))}
		}
		if a, b := w.kidx(kp), w.sidx(sp); a != b {
			return &ringFail{"ring-values/" + after + "/prev-differs", fmt.Sprintf("after %s: element %d has prev=%s, container/ring has prev=%s", after, i, elemName(a), elemName(b))}
		}
		if w.k[i].Value != w.s[i].Value {
			return &ringFail{"ring-values/" + after + "/value-changed", fmt.Sprintf("after %s: element %d has Value %#v, container/ring has %#v", after, i, w.k[i].Value, w.s[i].Value)}
		}
	}
	return nil
}

func (w *vWorld) same(op string, k *vElem, s *cring.Ring) *ringFail {
	if a, b := w.kidx(k), w.sidx(s); a != b {
		return &ringFail{"ring-values/" + op + "/result-differs", fmt.Sprintf("%s returned %s, container/ring returned %s", op, elemName(a), elemName(b))}
	}
	return nil
}

func (w *vWorld) put(k *vElem, s *cring.Ring) int {
	if len(w.hk) < maxHandles {
		w.hk, w.hs = append(w.hk, k), append(w.hs, s)
		return len(w.hk) - 1
	}
	d := w.rng.Intn(len(w.hk))
	w.hk[d], w.hs[d] = k, s
	return d
}

// step performs one seeded operation on both structures.
func (w *vWorld) step() (fail *ringFail) {
	rng := w.rng
	op := "?"
	defer func() {
		if e := recover(); e != nil {
			fail = &ringFail{"ring-values/" + op + "/panic", fmt.Sprintf("%s panicked: %v", op, e)}
		}
	}()
	nn := -1 // a non-nil handle
	for t := 0; t < 8 && len(w.hk) > 0; t++ {
		if h := rng.Intn(len(w.hk)); w.hk[h] != nil {
			nn = h
			break
		}
	}
	kind := pickW(rng, []int{3, 1, 2, 2, 4, 7, 5, 2, 3, 3})
	if nn < 0 || len(w.k) > 40 && kind <= 1 {
		if nn < 0 {
			kind = 0
		} else {
			kind = 5
		}
	}
	// argument for Move / Unlink: small, or an edge value relative to the length
	arg := func(h int) int {
		l := rawLen(w.hs[h])
		switch rng.Intn(6) {
		case 0:
			w.zeroArg++
			return 0
		case 1:
			w.negArg++
			return -rng.Range(1, 2*l+1)
		case 2:
			w.multArg++
			return l * rng.Range(1, 3)
		}
		return rng.Range(1, 4)
	}
	switch kind {
	case 0:
		op = "New"
		n := rng.Range(-1, 5)
		if rng.Chance(1, 3) {
			n = 1
		}
		k, s := kring.New[any](n), cring.New(n)
		if (k == nil) != (s == nil) {
			return &ringFail{"ring-values/New/nil-differs", fmt.Sprintf("New(%d): nil=%v, container/ring nil=%v", n, k == nil, s == nil)}
		}
		kp, sp := k, s
		for i := 0; i < n; i++ {
			if kp == nil || w.kidx(kp) >= 0 {
				return &ringFail{"ring-values/New/broken-cycle", fmt.Sprintf("New(%d): the next links do not form a cycle of %d fresh elements", n, n)}
			}
			w.register(kp, sp)
			kp, _ = vLinks(kp)
			sp, _ = sLinks(sp)
		}
		h := w.put(k, s)
		w.trace = append(w.trace, fmt.Sprintf("h%d = New(%d)", h, n))
	case 1:
		op = "Zero"
		k, s := new(vElem), new(cring.Ring)
		w.register(k, s)
		h := w.put(k, s)
		w.trace = append(w.trace, fmt.Sprintf("h%d = &Ring{} (Value %#v)", h, k.Value))
	case 2, 3:
		op = "Next"
		if kind == 3 {
			op = "Prev"
		}
		w.trace = append(w.trace, fmt.Sprintf("h%d.%s()", nn, op))
		var k *vElem
		var s *cring.Ring
		if kind == 2 {
			k, s = w.hk[nn].Next(), w.hs[nn].Next()
		} else {
			k, s = w.hk[nn].Prev(), w.hs[nn].Prev()
		}
		if f := w.same(op, k, s); f != nil {
			return f
		}
		w.put(k, s)
	case 4:
		op = "Move"
		n := arg(nn)
		w.trace = append(w.trace, fmt.Sprintf("h%d.Move(%d)", nn, n))
		k, s := w.hk[nn].Move(n), w.hs[nn].Move(n)
		if f := w.same(op, k, s); f != nil {
			return f
		}
		w.put(k, s)
	case 5:
		op = "Link"
		b := rng.Intn(len(w.hk))
		if rng.Chance(1, 5) {
			b = nn
		}
		if w.hk[b] == w.hk[nn] {
			w.selfLink++
		}
		if n, _ := vLinks(w.hk[nn]); n == w.hk[nn] {
			w.len1++
		}
		w.trace = append(w.trace, fmt.Sprintf("h%d.Link(h%d)", nn, b))
		k, s := w.hk[nn].Link(w.hk[b]), w.hs[nn].Link(w.hs[b])
		if f := w.same(op, k, s); f != nil {
			return f
		}
		w.put(k, s)
	case 6:
		op = "Unlink"
		n := arg(nn)
		if n, _ := vLinks(w.hk[nn]); n == w.hk[nn] {
			w.len1++
		}
		w.trace = append(w.trace, fmt.Sprintf("h%d.Unlink(%d)", nn, n))
		k, s := w.hk[nn].Unlink(n), w.hs[nn].Unlink(n)
		if f := w.same(op, k, s); f != nil {
			return f
		}
		w.put(k, s)
	case 7:
		op = "Len"
		h := rng.Intn(len(w.hk))
		w.trace = append(w.trace, fmt.Sprintf("h%d.Len()", h))
		if k, s := w.hk[h].Len(), w.hs[h].Len(); k != s {
			return &ringFail{"ring-values/Len/differs", fmt.Sprintf("Len() = %d, container/ring %d", k, s)}
		}
	case 8:
		op = "Do"
		h := rng.Intn(len(w.hk))
		w.trace = append(w.trace, fmt.Sprintf("h%d.Do()", h))
		var kv, sv []any
		limit := 4*len(w.k) + 4
		w.hk[h].Do(func(v any) {
			if len(kv) > limit {
				panic("Do does not terminate")
			}
			kv = append(kv, v)
		})
		w.hs[h].Do(func(v any) { sv = append(sv, v) })
		if len(kv) != len(sv) {
			return &ringFail{"ring-values/Do/differs", fmt.Sprintf("Do visited %d values %#v, container/ring %d values %#v", len(kv), kv, len(sv), sv)}
		}
		for i := range kv {
			if kv[i] != sv[i] {
				return &ringFail{"ring-values/Do/differs", fmt.Sprintf("Do visited %#v, container/ring %#v", kv, sv)}
			}
			if kv[i] == nil {
				w.nilSeenInDo++
			}
		}
	default:
		op = "SetValue"
		v := rng.Intn(len(vAlphabet))
		w.trace = append(w.trace, fmt.Sprintf("h%d.Value = %s", nn, vAlphaName[v]))
		w.hk[nn].Value, w.hs[nn].Value = vAlphabet[v], vAlphabet[v]
		w.setValue++
	}
	return w.iso(op)
}

func runRingValues(idx int, g group) {
	var tot vWorld
	steps := 0
	for sub := 0; sub < g.n; sub++ {
		w := &vWorld{ki: map[*vElem]int{}, si: map[*cring.Ring]int{}, rng: mon.NewRNG("c14-ring-values", idx*4096+sub)}
		length := w.rng.Range(1, 60)
		var fail *ringFail
		for i := 0; i < length && fail == nil; i++ {
			fail = w.step()
			steps++
		}
		if fail != nil {
			rec.Violation(idx, fail.sig, fail.msg, map[string]any{"structure": "ring.Ring[any] vs container/ring, arbitrary values", "seed": mon.Seed(), "group": idx, "sub": sub, "steps": w.trace})
		}
		rec.Case(idx, fmt.Sprint(w.trace), true)
		tot.nilSeenInDo += w.nilSeenInDo
		tot.selfLink += w.selfLink
		tot.len1 += w.len1
		tot.zeroArg += w.zeroArg
		tot.negArg += w.negArg
		tot.multArg += w.multArg
		tot.setValue += w.setValue
	}
	rec.Count("ring.values.sequences", g.n)
	rec.Count("ring.values.steps", steps)
	rec.Count("ring.values.nil_values_seen_by_do", tot.nilSeenInDo)
	rec.Count("ring.values.link_with_itself", tot.selfLink)
	rec.Count("ring.values.link_or_unlink_on_length_1", tot.len1)
	rec.Count("ring.values.arg_zero", tot.zeroArg)
	rec.Count("ring.values.arg_negative", tot.negArg)
	rec.Count("ring.values.arg_multiple_of_len", tot.multArg)
	rec.Count("ring.values.value_assignments", tot.setValue)
}
