package c14

import (
	"fmt"

	"github.com/dapr/kit/concurrency/cmap"
	kslice "github.com/dapr/kit/concurrency/slice"

	"verif/harness/internal/mon"
)

// Sequential differentials with zero-value keys and values over several
// instantiations: "absent" and "present under the zero key / with the zero
// value" must never be confused (a stored zero value is loaded with ok=true,
// counted by Len, listed by Keys, visited by Range, returned by
// LoadAndDelete). The model is the builtin map / slice.

type zeroStats struct {
	checks, zeroKeyHits, zeroValHits int
}

func eq[T any](a, b T) bool { return any(a) == any(b) }

// zeroMapRun drives one cmap.Map[K,T] next to a builtin map.
func zeroMapRun[K comparable, T any](name string, keys []K, vals []T, rng *mon.RNG, steps int, st *zeroStats) (sig, msg string, trace []string) {
	var zk K
	var zv T
	m := cmap.NewMap[K, T]()
	model := map[K]T{}
	defer func() {
		if e := recover(); e != nil {
			sig, msg = "zero-values/map/panic", fmt.Sprintf("cmap.Map[%s] panicked: %v", name, e)
		}
	}()
	fail := func(op, format string, a ...any) (string, string, []string) {
		return "zero-values/map/" + op, fmt.Sprintf("cmap.Map[%s]: ", name) + fmt.Sprintf(format, a...), trace
	}
	// all observers against the model
	observe := func(after string) (string, string, []string) {
		st.checks++
		if n := m.Len(); n != len(model) {
			return fail("Len", "Len() = %d after %s, a builtin map holds %d", n, after, len(model))
		}
		ks := m.Keys()
		if len(ks) != len(model) {
			return fail("Keys", "Keys() = %#v after %s, a builtin map holds %d keys", ks, after, len(model))
		}
		seen := map[K]bool{}
		for _, k := range ks {
			if _, ok := model[k]; !ok || seen[k] {
				return fail("Keys", "Keys() = %#v after %s: key %#v is foreign or listed twice", ks, after, k)
			}
			seen[k] = true
		}
		seen = map[K]bool{}
		bad := ""
		m.Range(func(k K, v T) bool {
			want, ok := model[k]
			if !ok || seen[k] || !eq(v, want) {
				bad = fmt.Sprintf("Range visited (%#v, %#v) after %s; a builtin map has present=%v value=%#v (visited before=%v)", k, v, after, ok, want, seen[k])
			}
			seen[k] = true
			return true
		})
		if bad != "" {
			return fail("Range", "%s", bad)
		}
		if len(seen) != len(model) {
			return fail("Range", "Range visited %d entries after %s, a builtin map holds %d", len(seen), after, len(model))
		}
		for _, k := range keys {
			want, ok := model[k]
			got, gok := m.Load(k)
			if gok != ok || !eq(got, want) {
				return fail("Load", "Load(%#v) = (%#v, %v) after %s, a builtin map gives (%#v, %v)", k, got, gok, after, want, ok)
			}
			if ok && k == zk {
				st.zeroKeyHits++
			}
			if ok && eq(want, zv) {
				st.zeroValHits++
			}
		}
		return "", "", nil
	}
	for i := 0; i < steps; i++ {
		k := keys[rng.Intn(len(keys))]
		v := vals[rng.Intn(len(vals))]
		op := ""
		switch pickW(rng, []int{6, 2, 4, 1}) {
		case 0:
			op = fmt.Sprintf("Store(%#v, %#v)", k, v)
			trace = append(trace, op)
			m.Store(k, v)
			model[k] = v
		case 1:
			op = fmt.Sprintf("Delete(%#v)", k)
			trace = append(trace, op)
			m.Delete(k)
			delete(model, k)
		case 2:
			op = fmt.Sprintf("LoadAndDelete(%#v)", k)
			trace = append(trace, op)
			want, ok := model[k]
			got, gok := m.LoadAndDelete(k)
			delete(model, k)
			if gok != ok || !eq(got, want) {
				return fail("LoadAndDelete", "%s = (%#v, %v), a builtin map gives (%#v, %v)", op, got, gok, want, ok)
			}
		default:
			op = "Clear()"
			trace = append(trace, op)
			m.Clear()
			clear(model)
		}
		if s, ms, tr := observe(op); s != "" {
			return s, ms, tr
		}
	}
	return "", "", nil
}

// zeroAtomicRun drives one cmap.Atomic[K,int64] next to a builtin map of
// (object, value).
func zeroAtomicRun[K comparable](name string, keys []K, rng *mon.RNG, steps int, st *zeroStats) (sig, msg string, trace []string) {
	type ent struct {
		obj *cmap.AtomicValue[int64]
		val *int64
	}
	var zk K
	a := cmap.NewAtomic[K, int64]()
	model := map[K]ent{}
	everSeen := map[*cmap.AtomicValue[int64]]bool{}
	defer func() {
		if e := recover(); e != nil {
			sig, msg = "zero-values/atomic/panic", fmt.Sprintf("cmap.Atomic[%s] panicked: %v", name, e)
		}
	}()
	fail := func(op, format string, a ...any) (string, string, []string) {
		return "zero-values/atomic/" + op, fmt.Sprintf("cmap.Atomic[%s]: ", name) + fmt.Sprintf(format, a...), trace
	}
	inits := []int64{0, 0, 5, -3}
	for i := 0; i < steps; i++ {
		k := keys[rng.Intn(len(keys))]
		switch pickW(rng, []int{6, 3, 4, 2, 1}) {
		case 0:
			init := inits[rng.Intn(len(inits))]
			trace = append(trace, fmt.Sprintf("GetOrCreate(%#v, %d)", k, init))
			got := a.GetOrCreate(k, init)
			if e, ok := model[k]; ok {
				if got != e.obj {
					return fail("GetOrCreate", "GetOrCreate(%#v) returned another object although the key is present", k)
				}
			} else {
				if got == nil || everSeen[got] {
					return fail("GetOrCreate", "GetOrCreate(%#v) on an absent key did not return a fresh object", k)
				}
				everSeen[got] = true
				v := init
				model[k] = ent{got, &v}
			}
			if v := got.Load(); v != *model[k].val {
				return fail("GetOrCreate", "object of key %#v holds %d, expected %d", k, v, *model[k].val)
			}
		case 1:
			trace = append(trace, fmt.Sprintf("Get(%#v)", k))
			got, ok := a.Get(k)
			e, present := model[k]
			if ok != present || got != e.obj {
				return fail("Get", "Get(%#v) = (%p, %v), expected present=%v", k, got, ok, present)
			}
			if present && k == zk {
				st.zeroKeyHits++
			}
			if present && *e.val == 0 {
				st.zeroValHits++
			}
		case 2:
			e, present := model[k]
			if !present {
				continue
			}
			d := []int64{0, 1, -1, 7}[rng.Intn(4)]
			if rng.Bool() {
				trace = append(trace, fmt.Sprintf("obj(%#v).Add(%d)", k, d))
				*e.val += d
				if got := e.obj.Add(d); got != *e.val {
					return fail("Add", "Add(%d) on the object of %#v returned %d, expected %d", d, k, got, *e.val)
				}
			} else {
				trace = append(trace, fmt.Sprintf("obj(%#v).Store(%d)", k, d))
				*e.val = d
				e.obj.Store(d)
			}
			if got := e.obj.Load(); got != *e.val {
				return fail("Load", "Load() on the object of %#v = %d, expected %d", k, got, *e.val)
			}
		case 3:
			trace = append(trace, fmt.Sprintf("Delete(%#v)", k))
			a.Delete(k)
			delete(model, k)
		default:
			trace = append(trace, "Clear()")
			a.Clear()
			clear(model)
		}
		st.checks++
		seen := map[K]bool{}
		bad := ""
		a.ForEach(func(k K, v *cmap.AtomicValue[int64]) {
			if e, ok := model[k]; !ok || seen[k] || v != e.obj {
				bad = fmt.Sprintf("ForEach visited key %#v (present in a builtin map=%v, visited before=%v, right object=%v)", k, ok, seen[k], ok && v == e.obj)
			}
			seen[k] = true
		})
		if bad != "" {
			return fail("ForEach", "%s", bad)
		}
		if len(seen) != len(model) {
			return fail("ForEach", "ForEach visited %d keys, a builtin map holds %d", len(seen), len(model))
		}
	}
	return "", "", nil
}

// zeroSliceRun drives one Slice[T] next to a builtin slice.
func zeroSliceRun[T any](name string, vals []T, rng *mon.RNG, steps int, st *zeroStats) (sig, msg string, trace []string) {
	var zv T
	s := kslice.New[T]()
	var model []T
	defer func() {
		if e := recover(); e != nil {
			sig, msg = "zero-values/slice/panic", fmt.Sprintf("Slice[%s] panicked: %v", name, e)
		}
	}()
	for i := 0; i < steps; i++ {
		var items []T // nil: Append() with no arguments / Append(nil...)
		for j, n := 0, rng.Intn(4); j < n; j++ {
			items = append(items, vals[rng.Intn(len(vals))])
		}
		trace = append(trace, fmt.Sprintf("Append(%#v...)", items))
		got := s.Append(items...)
		model = append(model, items...)
		st.checks++
		if got != len(model) || s.Len() != len(model) {
			return "zero-values/slice/len", fmt.Sprintf("Slice[%s]: Append returned %d, Len() = %d, a builtin slice holds %d", name, got, s.Len(), len(model)), trace
		}
		snap := s.Slice()
		if len(snap) != len(model) {
			return "zero-values/slice/content", fmt.Sprintf("Slice[%s]: Slice() has %d elements, a builtin slice holds %d", name, len(snap), len(model)), trace
		}
		for j := range snap {
			if !eq(snap[j], model[j]) {
				return "zero-values/slice/content", fmt.Sprintf("Slice[%s]: Slice()[%d] = %#v, a builtin slice holds %#v", name, j, snap[j], model[j]), trace
			}
			if eq(snap[j], zv) {
				st.zeroValHits++
			}
		}
	}
	return "", "", nil
}

func runZeroValues(idx int, g group) {
	var st zeroStats
	p, q := new(int), new(int)
	n := 0
	report := func(structure, sig, msg string, trace []string, sub int) {
		n++
		if sig != "" {
			rec.Violation(idx, sig, msg, map[string]any{"structure": structure, "seed": mon.Seed(), "group": idx, "sub": sub, "steps": trace})
		}
	}
	for sub := 0; sub < g.n; sub++ {
		rng := mon.NewRNG("c14-zero", idx*4096+sub)
		steps := rng.Range(2, 25)
		var sig, msg string
		var tr []string
		switch sub % 9 {
		case 0:
			sig, msg, tr = zeroMapRun("string,int", []string{"", "a", "b"}, []int{0, 0, 1, 2}, rng, steps, &st)
		case 1:
			sig, msg, tr = zeroMapRun("int,string", []int{0, 1, -1}, []string{"", "", "x"}, rng, steps, &st)
		case 2:
			sig, msg, tr = zeroMapRun("string,*int", []string{"", "k"}, []*int{nil, nil, p, q}, rng, steps, &st)
		case 3:
			sig, msg, tr = zeroMapRun("any,any", []any{nil, 0, "", false, (*int)(nil), "k"}, []any{nil, nil, 0, "", (*int)(nil), p, 3}, rng, steps, &st)
		case 4:
			sig, msg, tr = zeroMapRun("bool,struct{}", []bool{false, true}, []struct{}{{}}, rng, steps, &st)
		case 5:
			sig, msg, tr = zeroAtomicRun("string,int64", []string{"", "a"}, rng, steps, &st)
		case 6:
			sig, msg, tr = zeroAtomicRun("int,int64", []int{0, 1, 2}, rng, steps, &st)
		case 7:
			sig, msg, tr = zeroSliceRun("*int", []*int{nil, nil, p, q, p}, rng, steps, &st)
		default:
			sig, msg, tr = zeroSliceRun("any", []any{nil, 0, "", (*int)(nil), p, 0}, rng, steps, &st)
		}
		report("zero-value keys and values", sig, msg, tr, sub)
		if sig == "" && sub == 3 && rec.WantSample() {
			rec.Sample(map[string]any{"structure": "cmap.Map[any,any] with zero-value keys and values", "steps": tr, "verdict": "agrees with a builtin map after every step"})
		}
	}
	rec.CaseN(idx, fmt.Sprintf("zero-values group %d", idx), true, int64(n))
	rec.Count("zero.sequences", n)
	rec.Count("zero.observer_checks", st.checks)
	rec.Count("zero.present_zero_key_observed", st.zeroKeyHits)
	rec.Count("zero.present_zero_value_observed", st.zeroValHits)
}
