// Package c14 monitors property C14 (containers refine their models):
// linearizability of cmap.Map, cmap.Atomic and concurrency/slice against
// sequential models (porcupine), ring.Ring against container/ring, and
// ring.Buffered against a plain slice queue.
package c14

import (
	"fmt"
	"os"
	"runtime"
	"testing"
	"time"

	"verif/harness/internal/mon"
)

var rec *mon.Rec

// group is one case of the plan: a batch of seeded histories / sequences or
// one block of an exhaustive enumeration.
type group struct {
	kind    string // map | atomic | slice | slice-args | slice-seeded | map-keys-alias | zero-values | ring-values | ring-seeded | ring-exh | buf-exh | buf-exh3 | buf-reentrant | buf-seeded
	a, b, c int
	n       int
}

func (g group) String() string {
	switch g.kind {
	case "map", "atomic", "slice":
		return fmt.Sprintf("lin %s: %d seeded histories (stream c14-lin-%s, idx*4096+h)", g.kind, g.n, g.kind)
	case "slice-args":
		return fmt.Sprintf("slice caller-owned arguments: all scenarios (16 flag sets x n 0..3 x spare 0..8 x 2 offsets) after %d prior appends", g.a)
	case "slice-seeded":
		return fmt.Sprintf("slice caller-owned arguments seeded: %d sequences over two instances sharing one caller buffer (stream c14-slice-alias, idx*4096+sub)", g.n)
	case "map-keys-alias":
		return "cmap.Map: the caller overwrites / appends to the slice returned by Keys(), sizes 0..3"
	case "zero-values":
		return fmt.Sprintf("zero-value keys and values: %d seeded sequential sequences over 9 instantiations (stream c14-zero, idx*4096+sub)", g.n)
	case "ring-values":
		return fmt.Sprintf("ring.Ring[any] with arbitrary values: %d seeded sequences (stream c14-ring-values, idx*4096+sub)", g.n)
	case "buf-reentrant":
		return fmt.Sprintf("buffered re-entrant Range callbacks: initial=%d buffer=%d, fill 0..12 x rotation 0..3 x 5 callback kinds x 4 acting-visit counts", g.a, g.b)
	case "buf-exh3":
		return fmt.Sprintf("buffered exhaustive with values {fresh,nil,shared}: initial=%d buffer=%d, all valid sequences of length %d starting with symbol %d", g.a, g.b, g.n, g.c)
	case "ring-seeded":
		return fmt.Sprintf("ring seeded: %d sequences (stream c14-ring, idx*4096+sub)", g.n)
	case "ring-exh":
		return fmt.Sprintf("ring exhaustive: initial New(%d),New(%d), all sequences of length %d starting with symbols %d,%d", g.a, g.b, g.n, g.c/len(ringAlphabet), g.c%len(ringAlphabet))
	case "buf-exh":
		return fmt.Sprintf("buffered exhaustive: initial=%d buffer=%d, all valid AppendBack/RemoveFront sequences of length %d", g.a, g.b, g.n)
	}
	return fmt.Sprintf("buffered seeded: %d sequences (stream c14-buf, idx*4096+sub)", g.n)
}

var (
	ringExhLen  = 0
	ringExhInit = 0
	bufExhLen   = 0
	bufExh3Len  = 0
)

func plan() []group {
	var gs []group
	add := func(kind string, groups, n int) {
		for i := 0; i < groups; i++ {
			gs = append(gs, group{kind: kind, n: n})
		}
	}
	// linearizability: quick 40 000 histories, thorough 1 000 000
	per := mon.Pick(50, 200)
	add("map", mon.Pick(320, 2000), per)
	add("atomic", mon.Pick(320, 2000), per)
	add("slice", mon.Pick(160, 1000), per)
	// caller-owned arguments and results (sequential, deterministic + seeded)
	for prior := 0; prior <= 2; prior++ {
		gs = append(gs, group{kind: "slice-args", a: prior})
	}
	add("slice-seeded", mon.Pick(40, 1000), 100)
	add("map-keys-alias", 1, 0)
	// zero-value keys and values (sequential differentials over several instantiations)
	add("zero-values", mon.Pick(20, 400), 90)
	// ring vs container/ring
	add("ring-seeded", mon.Pick(400, 10000), mon.Pick(50, 100))
	add("ring-values", mon.Pick(100, 2500), mon.Pick(50, 100))
	ringExhLen = mon.Pick(5, 6)
	A := len(ringAlphabet)
	ringExhInit = 3
	for a := 0; a <= ringExhInit; a++ {
		for b := 0; b <= ringExhInit; b++ {
			for c := 0; c < A*A; c++ {
				gs = append(gs, group{kind: "ring-exh", a: a, b: b, c: c, n: ringExhLen})
			}
		}
	}
	// buffered vs queue
	bufExhLen = mon.Pick(12, 18)
	for a := 0; a <= 5; a++ {
		for b := 0; b <= 5; b++ {
			gs = append(gs, group{kind: "buf-exh", a: a, b: b, n: bufExhLen})
		}
	}
	// value alphabet {fresh pointer, nil, the same pointer again}: sizes 0..3, first symbol fixed per group
	bufExh3Len = mon.Pick(8, 10)
	for a := 0; a <= 3; a++ {
		for b := 0; b <= 3; b++ {
			for c := 0; c < 3; c++ {
				gs = append(gs, group{kind: "buf-exh3", a: a, b: b, c: c, n: bufExh3Len})
			}
		}
	}
	for a := 0; a <= 5; a++ {
		for b := 0; b <= 5; b++ {
			gs = append(gs, group{kind: "buf-reentrant", a: a, b: b})
		}
	}
	add("buf-seeded", mon.Pick(360, 18000), mon.Pick(50, 100))
	// A fixed shuffle spreads the kinds over the plan, so that the children do
	// not all run their multi-goroutine linearizability batches at the same
	// moment (the plan is the same in every child and for every seed; the
	// per-case streams depend on the seed and the case index).
	rng := mon.RNG{}
	for i := len(gs) - 1; i > 0; i-- {
		j := rng.Intn(i + 1)
		gs[i], gs[j] = gs[j], gs[i]
	}
	return gs
}

func TestCheck(t *testing.T) {
	rec = mon.Open("C14")
	defer rec.Close()
	if msg := checkRingLayout(); msg != "" {
		rec.Fatalf("%s", msg)
	}
	if msg := checkVRingLayout(); msg != "" {
		rec.Fatalf("%s", msg)
	}
	if msg := checkBufferedLayout(); msg != "" {
		rec.Fatalf("%s", msg)
	}
	if msg := selfTestModels(); msg != "" {
		rec.Fatalf("model self-test: %s", msg)
	}
	rec.Count("selftest.models_ok", 1)
	gs := plan()
	rec.Note("rule", "Linearizability (cmap.Map, cmap.Atomic, slice): a case is one seeded concurrent program (0-3 op sequential prefix, then 2-4 goroutines x 1-5 ops over 1-3 keys, unique written values, start barrier, optional per-round barriers, seeded Gosched perturbation) run against the real structure; the recorded call/return history is checked by porcupine against an un-partitioned sequential model (Map: Go map incl. Len/Keys/Range/Clear; Atomic: key->object identity + per-object integer, GetOrCreate must return the current object or a fresh one; slice: append-only sequence with copy semantics - every Append argument is a caller-owned window of a re-used buffer with 0-8 elements of spare capacity that the caller overwrites / appends to / hands to a second instance right after the call). Every fifth map / atomic history is a single-writer program: the prefix gives every key its first version, goroutine 0 performs 3-5 writes in a fixed key order with fresh versions (Store / Delete / Clear; Delete+GetOrCreate = new identity), the other goroutines only observe and open with a slow walk - a Range / ForEach whose callback yields and waits (bounded, on the history clock) after every entry so that the writer attempts its writes while the walk is inside the callback; besides the porcupine check every observer reply must be correct for one of the states S_0..S_n the structure passes through (a walk is one snapshot). Every history ends with sequential observers (Range+Len, ForEach, Slice+Len). Non-trivial = at least two operations of different goroutines really overlapped in the recorded history; distinct = distinct program text. "+
		"Aliasing (sequential): every scenario of {0-2 prior appends} x {argument window n 0..3, spare capacity 0..8, offset 0/2} x {shared with a second Slice instance, overwritten by the caller, appended to by the caller, buffer re-used for the next call}, Len and Slice of both instances compared with plain slices after every step; seeded sequences of the same actions over two instances; the caller appending to the result of Slice(); the caller overwriting / appending to the result of Map.Keys(). A caller overwriting an element of the result of Slice() is observed, not judged. "+
		"Zero values: in the concurrent map/atomic histories the first key is the empty string and a sixth of the stored / initial values are 0; sequential differentials against a builtin map / slice over cmap.Map[string,int], [int,string], [string,*int], [any,any], [bool,struct{}], cmap.Atomic[string,int64], [int,int64], Slice[*int], Slice[any] with zero keys ('', 0, nil, false) and zero values (0, '', nil pointer, nil interface, typed nil pointer), all observers after every step. "+
		"ring.Ring[any] vs container/ring with element values nil / zero / equal / typed-nil / shared pointers (values also reassigned mid-sequence), Move and Unlink with 0, negative and multiples of the length, rings of length 1, a ring linked with itself. "+
		"ring.Buffered additionally with the value alphabet {fresh pointer, nil, the same pointer again}: every valid sequence of the stated length over {3 appends, RemoveFront} for sizes 0..3 x 0..3, and in the seeded sequences. "+
		"ring.Buffered re-entrant Range callbacks: the callback consumes the element it was handed (RemoveFront), re-queues (AppendBack, bounded to the first k visits), does both, reads Front/Len, or runs a nested Range; reference = slice queue iterated over the elements queued at call time while the callback works on the live queue; every walk has a visit budget (more visits than elements queued at call = violation, not a hang); all sizes 0..5 x 0..5, fill 0..12, rotation 0..3, and inside the seeded sequences. "+
		"ring.Do with a callback that Moves / Unlinks the successor / Links a fresh element on the ring being walked (documented as undefined, so container/ring running the same callback is the only reference; walks that do not terminate in the reference are skipped): visits, termination and resulting structure compared, at the end of every seeded ring sequence. "+
		"ring.Ring: seeded sequences of 1-60 steps (New 0..5, zero element, Next, Prev, Move(+-n), Link, Unlink, Len, Do) applied to ring.Ring and container/ring side by side, after every step the link structure (raw next/prev of every element ever created), values and returned element must correspond; plus every sequence of the stated length over a 13-symbol two-handle alphabet from each initial (New(a),New(b)), a,b in 0..3, with Len and Do on both handles after every step. Non-trivial = at least one Link/Unlink executed. "+
		"ring.Buffered: every valid AppendBack/RemoveFront sequence of the stated length for each (initial, buffer) in 0..5 x 0..5 with Len, Front, Range and early-stopping Range compared with a slice queue after every step; plus seeded sequences of 1-60 steps with grow/drain phases and a final drain. RemoveFront is only issued on a non-empty queue. Non-trivial = at least one RemoveFront.")
	rec.Note("require", []string{
		"lin.map.overlapping_histories", "lin.atomic.overlapping_histories", "lin.slice.overlapping_histories",
		"lin.map.op.LoadAndDelete", "lin.map.op.Range", "lin.map.op.Keys", "lin.map.op.Clear", "lin.atomic.op.GetOrCreate", "lin.atomic.op.obj.Add", "lin.atomic.op.ForEach", "lin.slice.op.Slice",
		"ring.seeded.link_same_ring", "ring.seeded.link_other_ring", "ring.seeded.unlink_calls", "ring.seeded.lazy_init_receivers",
		"ring.exhaustive.link_same_ring", "ring.exhaustive.link_other_ring", "ring.exhaustive.unlink_calls",
		"buffered.exhaustive.grow_events", "buffered.exhaustive.shrink_events", "buffered.seeded.grow_events", "buffered.seeded.shrink_events", "buffered.seeded.range_stopped_early",
		"lin.slice.op.Append.arg_overwritten_after_call", "lin.slice.op.Append.arg_appended_to_by_caller", "lin.slice.op.Append.arg_shared_with_second_instance",
		"buffered.exhaustive_values.append_with_nil_at_front_of_full_ring", "buffered.seeded.append_with_nil_at_front_of_full_ring", "buffered.seeded.appended_same_pointer_again",
		"ring.values.nil_values_seen_by_do", "ring.values.link_with_itself", "ring.values.link_or_unlink_on_length_1", "ring.values.arg_zero", "ring.values.arg_negative", "ring.values.arg_multiple_of_len",
		"ring.seeded.arg_multiple_of_len", "ring.seeded.link_with_itself", "ring.seeded.length_1_receivers",
		"zero.present_zero_key_observed", "zero.present_zero_value_observed",
		"lin.map.snapshot.single_writer_histories", "lin.map.snapshot.writes_attempted_during_a_slow_walk", "lin.atomic.snapshot.single_writer_histories", "lin.atomic.snapshot.writes_attempted_during_a_slow_walk",
		"buffered.reentrant.walks_completed", "buffered.reentrant.mutations_inside_callbacks", "buffered.reentrant.grow_events", "buffered.reentrant.shrink_events", "buffered.seeded.reentrant_walks",
		"ring.seeded.do_with_mutating_callback_compared",
		"alias.slice.scenarios", "alias.slice.seeded_sequences", "alias.map.keys_checks",
		"selftest.models_ok"})
	rec.Note("exhaustive", fmt.Sprintf("ring: all %d^%d sequences over the reduced alphabet from each of the %d initial states (New(a),New(b)), a,b in 0..%d; buffered: all valid AppendBack/RemoveFront sequences of length %d for the 36 size pairs, and all valid sequences of length %d over {AppendBack(fresh), AppendBack(nil), AppendBack(shared), RemoveFront} for the 16 size pairs 0..3. The linearizability part is sampled, not exhaustive.", len(ringAlphabet), ringExhLen, (ringExhInit+1)*(ringExhInit+1), ringExhInit, bufExhLen, bufExh3Len))
	rec.Note("gomaxprocs", runtime.GOMAXPROCS(0))
	rec.Planned(len(gs))
	timing := map[string]time.Duration{}
	defer func() {
		if os.Getenv("C14_TIMING") != "" {
			fmt.Fprintln(os.Stderr, "C14_TIMING", timing)
		}
	}()
	for idx, g := range gs {
		if !mon.Mine(idx) {
			continue
		}
		t0 := time.Now() // debugging aid only (C14_TIMING); never reaches an oracle
		rec.Begin(idx, g.String())
		switch g.kind {
		case "map", "atomic", "slice":
			runLinGroup(idx, g)
		case "slice-args":
			runSliceArgs(idx, g)
		case "slice-seeded":
			runSliceSeeded(idx, g)
		case "map-keys-alias":
			runMapKeysAlias(idx, g)
		case "zero-values":
			runZeroValues(idx, g)
		case "ring-values":
			runRingValues(idx, g)
		case "buf-exh3":
			runBufExhaustiveValues(idx, g)
		case "buf-reentrant":
			runBufReentrant(idx, g)
		case "ring-seeded":
			runRingSeeded(idx, g)
		case "ring-exh":
			runRingExhaustive(idx, g)
		case "buf-exh":
			runBufExhaustive(idx, g)
		case "buf-seeded":
			runBufSeeded(idx, g)
		}
		timing[g.kind] += time.Since(t0)
	}
}
