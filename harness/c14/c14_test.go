// Package c14 monitors property C14 (containers refine their models):
// linearizability of cmap.Map, cmap.Atomic and concurrency/slice against
// sequential models (porcupine), ring.Ring against container/ring, and
// ring.Buffered against a plain slice queue.
package c14

import (
	"fmt"
	"os"
	"runtime"
	"testing"
	"time"

	"verif/harness/internal/mon"
)

var rec *mon.Rec

// group is one case of the plan: a batch of seeded histories / sequences or
// one block of an exhaustive enumeration.
type group struct {
	kind    string // map | atomic | slice | ring-seeded | ring-exh | buf-exh | buf-seeded
	a, b, c int
	n       int
}

func (g group) String() string {
	switch g.kind {
	case "map", "atomic", "slice":
		return fmt.Sprintf("lin %s: %d seeded histories (stream c14-lin-%s, idx*4096+h)", g.kind, g.n, g.kind)
	case "ring-seeded":
		return fmt.Sprintf("ring seeded: %d sequences (stream c14-ring, idx*4096+sub)", g.n)
	case "ring-exh":
		return fmt.Sprintf("ring exhaustive: initial New(%d),New(%d), all sequences of length %d starting with symbols %d,%d", g.a, g.b, g.n, g.c/len(ringAlphabet), g.c%len(ringAlphabet))
	case "buf-exh":
		return fmt.Sprintf("buffered exhaustive: initial=%d buffer=%d, all valid AppendBack/RemoveFront sequences of length %d", g.a, g.b, g.n)
	}
	return fmt.Sprintf("buffered seeded: %d sequences (stream c14-buf, idx*4096+sub)", g.n)
}

var (
	ringExhLen  = 0
	ringExhInit = 0
	bufExhLen   = 0
)

func plan() []group {
	var gs []group
	add := func(kind string, groups, n int) {
		for i := 0; i < groups; i++ {
			gs = append(gs, group{kind: kind, n: n})
		}
	}
	// linearizability: quick 40 000 histories, thorough 1 000 000
	per := mon.Pick(50, 200)
	add("map", mon.Pick(320, 2000), per)
	add("atomic", mon.Pick(320, 2000), per)
	add("slice", mon.Pick(160, 1000), per)
	// ring vs container/ring
	add("ring-seeded", mon.Pick(400, 10000), mon.Pick(50, 100))
	ringExhLen = mon.Pick(5, 6)
	A := len(ringAlphabet)
	ringExhInit = 3
	for a := 0; a <= ringExhInit; a++ {
		for b := 0; b <= ringExhInit; b++ {
			for c := 0; c < A*A; c++ {
				gs = append(gs, group{kind: "ring-exh", a: a, b: b, c: c, n: ringExhLen})
			}
		}
	}
	// buffered vs queue
	bufExhLen = mon.Pick(14, 18)
	for a := 0; a <= 5; a++ {
		for b := 0; b <= 5; b++ {
			gs = append(gs, group{kind: "buf-exh", a: a, b: b, n: bufExhLen})
		}
	}
	add("buf-seeded", mon.Pick(360, 18000), mon.Pick(50, 100))
	// A fixed shuffle spreads the kinds over the plan, so that the children do
	// not all run their multi-goroutine linearizability batches at the same
	// moment (the plan is the same in every child and for every seed; the
	// per-case streams depend on the seed and the case index).
	rng := mon.RNG{}
	for i := len(gs) - 1; i > 0; i-- {
		j := rng.Intn(i + 1)
		gs[i], gs[j] = gs[j], gs[i]
	}
	return gs
}

func TestCheck(t *testing.T) {
	rec = mon.Open("C14")
	defer rec.Close()
	if msg := checkRingLayout(); msg != "" {
		rec.Fatalf("%s", msg)
	}
	if msg := checkBufferedLayout(); msg != "" {
		rec.Fatalf("%s", msg)
	}
	if msg := selfTestModels(); msg != "" {
		rec.Fatalf("model self-test: %s", msg)
	}
	rec.Count("selftest.models_ok", 1)
	gs := plan()
	rec.Note("rule", "Linearizability (cmap.Map, cmap.Atomic, slice): a case is one seeded concurrent program (0-3 op sequential prefix, then 2-4 goroutines x 1-5 ops over 1-3 keys, unique written values, start barrier, optional per-round barriers, seeded Gosched perturbation) run against the real structure; the recorded call/return history is checked by porcupine against an un-partitioned sequential model (Map: Go map incl. Len/Keys/Range/Clear; Atomic: key->object identity + per-object integer, GetOrCreate must return the current object or a fresh one; slice: append-only sequence). Non-trivial = at least two operations of different goroutines really overlapped in the recorded history; distinct = distinct program text. "+
		"ring.Ring: seeded sequences of 1-60 steps (New 0..5, zero element, Next, Prev, Move(+-n), Link, Unlink, Len, Do) applied to ring.Ring and container/ring side by side, after every step the link structure (raw next/prev of every element ever created), values and returned element must correspond; plus every sequence of the stated length over a 13-symbol two-handle alphabet from each initial (New(a),New(b)), a,b in 0..3, with Len and Do on both handles after every step. Non-trivial = at least one Link/Unlink executed. "+
		"ring.Buffered: every valid AppendBack/RemoveFront sequence of the stated length for each (initial, buffer) in 0..5 x 0..5 with Len, Front, Range and early-stopping Range compared with a slice queue after every step; plus seeded sequences of 1-60 steps with grow/drain phases and a final drain. RemoveFront is only issued on a non-empty queue. Non-trivial = at least one RemoveFront.")
	rec.Note("require", []string{
		"lin.map.overlapping_histories", "lin.atomic.overlapping_histories", "lin.slice.overlapping_histories",
		"lin.map.op.LoadAndDelete", "lin.map.op.Range", "lin.map.op.Keys", "lin.map.op.Clear", "lin.atomic.op.GetOrCreate", "lin.atomic.op.obj.Add", "lin.atomic.op.ForEach", "lin.slice.op.Slice",
		"ring.seeded.link_same_ring", "ring.seeded.link_other_ring", "ring.seeded.unlink_calls", "ring.seeded.lazy_init_receivers",
		"ring.exhaustive.link_same_ring", "ring.exhaustive.link_other_ring", "ring.exhaustive.unlink_calls",
		"buffered.exhaustive.grow_events", "buffered.exhaustive.shrink_events", "buffered.seeded.grow_events", "buffered.seeded.shrink_events", "buffered.seeded.range_stopped_early",
		"selftest.models_ok"})
	rec.Note("exhaustive", fmt.Sprintf("ring: all %d^%d sequences over the reduced alphabet from each of the %d initial states (New(a),New(b)), a,b in 0..%d; buffered: all valid AppendBack/RemoveFront sequences of length %d for the 36 size pairs. The linearizability part is sampled, not exhaustive.", len(ringAlphabet), ringExhLen, (ringExhInit+1)*(ringExhInit+1), ringExhInit, bufExhLen))
	rec.Note("gomaxprocs", runtime.GOMAXPROCS(0))
	rec.Planned(len(gs))
	timing := map[string]time.Duration{}
	defer func() {
		if os.Getenv("C14_TIMING") != "" {
			fmt.Fprintln(os.Stderr, "C14_TIMING", timing)
		}
	}()
	for idx, g := range gs {
		if !mon.Mine(idx) {
			continue
		}
		t0 := time.Now() // debugging aid only (C14_TIMING); never reaches an oracle
		rec.Begin(idx, g.String())
		switch g.kind {
		case "map", "atomic", "slice":
			runLinGroup(idx, g)
		case "ring-seeded":
			runRingSeeded(idx, g)
		case "ring-exh":
			runRingExhaustive(idx, g)
		case "buf-exh":
			runBufExhaustive(idx, g)
		case "buf-seeded":
			runBufSeeded(idx, g)
		}
		timing[g.kind] += time.Since(t0)
	}
}
