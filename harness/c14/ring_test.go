package c14

import (
	cring "container/ring"
	"fmt"
	"reflect"
	"slices"
	"strings"
	"unsafe"

	kring "github.com/dapr/kit/ring"

	"verif/harness/internal/mon"
)

// Both element structs start with {next, prev}. The links are read through
// unsafe so that looking at a structure never triggers its lazy
// initialisation (Next/Prev/Len on a zero element call init()).
type rawLinks struct{ next, prev unsafe.Pointer }

func checkRingLayout() string {
	for _, t := range []reflect.Type{reflect.TypeOf(kring.Ring[int]{}), reflect.TypeOf(cring.Ring{})} {
		if t.NumField() < 3 || t.Field(0).Name != "next" || t.Field(0).Offset != 0 || t.Field(0).Type.Kind() != reflect.Pointer ||
			t.Field(1).Name != "prev" || t.Field(1).Offset != unsafe.Sizeof(uintptr(0)) || t.Field(1).Type.Kind() != reflect.Pointer {
			return "unexpected element layout of " + t.String()
		}
	}
	return ""
}

type kElem = kring.Ring[int]

// (checkptr instrumentation of these two accessors was a quarter of the ring run time under -race)
//
//go:nocheckptr
func kLinks(r *kElem) (n, p *kElem) {
	l := (*rawLinks)(unsafe.Pointer(r))
	return (*kElem)(l.next), (*kElem)(l.prev)
}

//go:nocheckptr
func sLinks(r *cring.Ring) (n, p *cring.Ring) {
	l := (*rawLinks)(unsafe.Pointer(r))
	return (*cring.Ring)(l.next), (*cring.Ring)(l.prev)
}

// ringWorld holds the kit structure and the container/ring reference side by
// side. Element i of one corresponds to element i of the other.
type ringWorld struct {
	k      []*kElem
	s      []*cring.Ring
	hk     []*kElem // handles (nil allowed), parallel to hs
	hs     []*cring.Ring
	kv, sv []int // scratch for Do
	// trace of the executed steps, for the replay (formatted on demand)
	trace []tent
	// counters
	links, unlinks, removed, joined, lazy           int
	edgeZero, edgeNeg, edgeMultiple, selfLink, len1 int
	doReent, doSkipped                              int
}

func newRingWorld() *ringWorld {
	return &ringWorld{}
}

type ringFail struct{ sig, msg string }

// tent is one trace entry.
type tent struct {
	st   rstep
	dst  int
	note string // non-empty: literal text instead of st
}

func (t tent) String() string {
	if t.note != "" {
		return t.note
	}
	st := t.st
	switch st.op {
	case rNew:
		return fmt.Sprintf("h%d = New(%d)", t.dst, st.n)
	case rZero:
		return fmt.Sprintf("h%d = &Ring{}", t.dst)
	case rNext:
		return fmt.Sprintf("h%d = h%d.Next()", t.dst, st.a)
	case rPrev:
		return fmt.Sprintf("h%d = h%d.Prev()", t.dst, st.a)
	case rMove:
		return fmt.Sprintf("h%d = h%d.Move(%d)", t.dst, st.a, st.n)
	case rLink:
		return fmt.Sprintf("h%d = h%d.Link(h%d)", t.dst, st.a, st.b)
	case rUnlink:
		return fmt.Sprintf("h%d = h%d.Unlink(%d)", t.dst, st.a, st.n)
	case rLen:
		return fmt.Sprintf("h%d.Len()", st.a)
	}
	return fmt.Sprintf("h%d.Do()", st.a)
}

func (w *ringWorld) traceLines() []string {
	out := make([]string, len(w.trace))
	for i, t := range w.trace {
		out[i] = t.String()
	}
	return out
}

// kidx / sidx map an element to its index through its Value (the index it
// was registered under), verified against the registry; -1 nil, -2 foreign.
func (w *ringWorld) kidx(r *kElem) int {
	if r == nil {
		return -1
	}
	if i := r.Value; i >= 0 && i < len(w.k) && w.k[i] == r {
		return i
	}
	for i, e := range w.k { // Value was altered: fall back to a scan
		if e == r {
			return i
		}
	}
	return -2
}

func (w *ringWorld) sidx(r *cring.Ring) int {
	if r == nil {
		return -1
	}
	if i, ok := r.Value.(int); ok && i >= 0 && i < len(w.s) && w.s[i] == r {
		return i
	}
	return -2
}

func (w *ringWorld) registered(k *kElem) bool {
	for _, e := range w.k {
		if e == k {
			return true
		}
	}
	return false
}

func (w *ringWorld) register(k *kElem, s *cring.Ring) {
	id := len(w.k)
	k.Value = id
	s.Value = id
	w.k = append(w.k, k)
	w.s = append(w.s, s)
}

// iso checks that the two structures are isomorphic: every element has the
// corresponding successor, predecessor and value.
func (w *ringWorld) iso(after string) *ringFail {
	for i := range w.k {
		kn, kp := kLinks(w.k[i])
		sn, sp := sLinks(w.s[i])
		if a, b := w.kidx(kn), w.sidx(sn); a != b {
			return &ringFail{"ring/" + after + "/next-differs", fmt.Sprintf("after %s: element %d has next=%s, container/ring has next=%s", after, i, elemName(a), elemName(b))}
		}
		if a, b := w.kidx(kp), w.sidx(sp); a != b {
			return &ringFail{"ring/" + after + "/prev-differs", fmt.Sprintf("after %s: element %d has prev=%s, container/ring has prev=%s", after, i, elemName(a), elemName(b))}
		}
		if sv, _ := w.s[i].Value.(int); w.k[i].Value != sv {
			return &ringFail{"ring/" + after + "/value-changed", fmt.Sprintf("after %s: element %d has Value %d, container/ring has %v", after, i, w.k[i].Value, w.s[i].Value)}
		}
	}
	return nil
}

func elemName(i int) string {
	switch i {
	case -1:
		return "nil"
	case -2:
		return "<foreign element>"
	}
	return fmt.Sprintf("e%d", i)
}

// same checks that an operation returned corresponding elements.
func (w *ringWorld) same(op string, k *kElem, s *cring.Ring) *ringFail {
	if a, b := w.kidx(k), w.sidx(s); a != b {
		return &ringFail{"ring/" + op + "/result-differs", fmt.Sprintf("%s returned %s, container/ring returned %s", op, elemName(a), elemName(b))}
	}
	return nil
}

// ring operations of the step language
const (
	rNew = iota
	rZero
	rNext
	rPrev
	rMove
	rLink
	rUnlink
	rLen
	rDo
)

var ringOpNames = [...]string{"New", "Zero", "Next", "Prev", "Move", "Link", "Unlink", "Len", "Do"}

// rstep: op applied to handle a (and b for Link), integer argument n; the
// resulting element is stored in handle slot dst (-1: appended).
type rstep struct {
	op, a, b, n, dst int
}

func (w *ringWorld) put(dst int, k *kElem, s *cring.Ring) {
	if dst < 0 || dst >= len(w.hk) {
		w.hk = append(w.hk, k)
		w.hs = append(w.hs, s)
		return
	}
	w.hk[dst], w.hs[dst] = k, s
}

// apply performs one step on both structures and compares. Steps whose
// receiver is nil for an operation documented "r must not be empty" are
// skipped (returns skipped=true).
func (w *ringWorld) apply(st rstep) (fail *ringFail, skipped bool) {
	name := ringOpNames[st.op]
	defer func() {
		if e := recover(); e != nil {
			fail = &ringFail{"ring/" + name + "/panic", fmt.Sprintf("%s panicked: %v", name, e)}
		}
	}()
	var ka *kElem
	var sa *cring.Ring
	if st.a >= 0 && st.a < len(w.hk) {
		ka, sa = w.hk[st.a], w.hs[st.a]
	}
	needRecv := st.op == rNext || st.op == rPrev || st.op == rMove || st.op == rLink || st.op == rUnlink
	if needRecv && ka == nil {
		return nil, true
	}
	if needRecv {
		if n, _ := kLinks(ka); n == nil {
			w.lazy++
		} else if n == ka {
			w.len1++
		}
	}
	w.trace = append(w.trace, tent{st: st, dst: w.dstName(st.dst)})
	switch st.op {
	case rNew:
		k, s := kring.New[int](st.n), cring.New(st.n)
		if (k == nil) != (s == nil) {
			return &ringFail{"ring/New/nil-differs", fmt.Sprintf("New(%d): nil=%v, container/ring nil=%v", st.n, k == nil, s == nil)}, false
		}
		if k != nil {
			// register n elements following the raw next links
			kp, sp := k, s
			for i := 0; i < st.n; i++ {
				if kp == nil {
					return &ringFail{"ring/New/broken-cycle", fmt.Sprintf("New(%d): next link %d is nil", st.n, i)}, false
				}
				if w.registered(kp) {
					return &ringFail{"ring/New/broken-cycle", fmt.Sprintf("New(%d): cycle closes after %d elements", st.n, i)}, false
				}
				w.register(kp, sp)
				kp, _ = kLinks(kp)
				sp, _ = sLinks(sp)
			}
		}
		w.put(st.dst, k, s)
	case rZero:
		k, s := new(kElem), new(cring.Ring)
		w.register(k, s)
		w.put(st.dst, k, s)
	case rNext:
		k, s := ka.Next(), sa.Next()
		if f := w.same(name, k, s); f != nil {
			return f, false
		}
		w.put(st.dst, k, s)
	case rPrev:
		k, s := ka.Prev(), sa.Prev()
		if f := w.same(name, k, s); f != nil {
			return f, false
		}
		w.put(st.dst, k, s)
	case rMove:
		k, s := ka.Move(st.n), sa.Move(st.n)
		if f := w.same(name, k, s); f != nil {
			return f, false
		}
		w.put(st.dst, k, s)
	case rLink:
		var kb *kElem
		var sb *cring.Ring
		if st.b >= 0 && st.b < len(w.hk) {
			kb, sb = w.hk[st.b], w.hs[st.b]
		}
		if kb != nil {
			if w.sameRing(sa, sb) {
				w.removed++
			} else {
				w.joined++
			}
		}
		w.links++
		k, s := ka.Link(kb), sa.Link(sb)
		if f := w.same(name, k, s); f != nil {
			return f, false
		}
		w.put(st.dst, k, s)
	case rUnlink:
		w.unlinks++
		k, s := ka.Unlink(st.n), sa.Unlink(st.n)
		if f := w.same(name, k, s); f != nil {
			return f, false
		}
		w.put(st.dst, k, s)
	case rLen:
		if k, s := ka.Len(), sa.Len(); k != s {
			return &ringFail{"ring/Len/differs", fmt.Sprintf("Len() = %d, container/ring %d", k, s)}, false
		}
	case rDo:
		var kv, sv []int
		limit := 4*len(w.k) + 4
		ka.Do(func(v int) {
			if len(kv) > limit {
				panic("Do does not terminate")
			}
			kv = append(kv, v)
		})
		sa.Do(func(v any) { sv = append(sv, v.(int)) })
		if !slices.Equal(kv, sv) {
			return &ringFail{"ring/Do/differs", fmt.Sprintf("Do visited %v, container/ring %v", kv, sv)}, false
		}
	}
	return w.iso(name), false
}

func (w *ringWorld) dstName(dst int) int {
	if dst < 0 || dst >= len(w.hk) {
		return len(w.hk)
	}
	return dst
}

// rawLen is the length of the reference ring s, read over the raw links
// (never initialises a zero element; such an element is a ring of one).
func rawLen(s *cring.Ring) int {
	n := 1
	for p, _ := sLinks(s); p != nil && p != s; p, _ = sLinks(p) {
		n++
	}
	return n
}

// sameRing reports whether a and b are elements of one ring in the reference
// (read-only walk over raw links; a zero element is its own ring).
func (w *ringWorld) sameRing(a, b *cring.Ring) bool {
	if a == b {
		return true
	}
	for p, _ := sLinks(a); p != nil && p != a; p, _ = sLinks(p) {
		if p == b {
			return true
		}
	}
	return false
}

// observe runs Len and Do on every handle (only called while the structures
// are isomorphic, so the loops terminate). With all=false handles on a zero
// element that has not been initialised yet are left alone, so that the lazy
// initialisation is performed by the next operation of the sequence and not
// always by Len.
func (w *ringWorld) observe(all bool) (fail *ringFail) {
	cur := rstep{op: rLen}
	defer func() {
		if e := recover(); e != nil {
			fail = &ringFail{"ring/" + ringOpNames[cur.op] + "/panic", fmt.Sprintf("%s panicked: %v", ringOpNames[cur.op], e)}
		}
		if fail != nil {
			w.trace = append(w.trace, tent{st: cur})
		}
	}()
	touched := false
	for h := range w.hk {
		ka, sa := w.hk[h], w.hs[h]
		if ka != nil {
			if n, _ := kLinks(ka); n == nil {
				if !all {
					continue // leave a never-initialised element to the next operation
				}
				touched = true
			}
		}
		cur = rstep{op: rLen, a: h}
		if k, s := ka.Len(), sa.Len(); k != s {
			return &ringFail{"ring/Len/differs", fmt.Sprintf("Len() = %d, container/ring %d", k, s)}
		}
		cur = rstep{op: rDo, a: h}
		w.kv, w.sv = w.kv[:0], w.sv[:0]
		limit := 4*len(w.k) + 4
		ka.Do(func(v int) {
			if len(w.kv) > limit {
				panic("Do does not terminate")
			}
			w.kv = append(w.kv, v)
		})
		sa.Do(func(v any) { w.sv = append(w.sv, v.(int)) })
		if !slices.Equal(w.kv, w.sv) {
			return &ringFail{"ring/Do/differs", fmt.Sprintf("Do visited %v, container/ring %v", w.kv, w.sv)}
		}
	}
	if touched {
		cur = rstep{op: rLen, a: -1}
		return w.iso("Len")
	}
	return nil
}

func (w *ringWorld) replay(extra map[string]any) map[string]any {
	m := map[string]any{"structure": "ring.Ring vs container/ring", "steps": w.traceLines(), "elements": len(w.k)}
	for k, v := range extra {
		m[k] = v
	}
	return m
}

func (w *ringWorld) flushCounts(pre string) {
	rec.Count(pre+"link_calls", w.links)
	rec.Count(pre+"link_same_ring", w.removed)
	rec.Count(pre+"link_other_ring", w.joined)
	rec.Count(pre+"unlink_calls", w.unlinks)
	rec.Count(pre+"lazy_init_receivers", w.lazy)
	rec.Count(pre+"length_1_receivers", w.len1)
	rec.Count(pre+"arg_zero", w.edgeZero)
	rec.Count(pre+"arg_negative", w.edgeNeg)
	rec.Count(pre+"arg_multiple_of_len", w.edgeMultiple)
	rec.Count(pre+"link_with_itself", w.selfLink)
}

// ---------------------------------------------------------------- seeded

const maxHandles = 8

func runRingSeeded(idx int, g group) {
	tot := newRingWorld()
	steps := 0
	for sub := 0; sub < g.n; sub++ {
		rng := mon.NewRNG("c14-ring", idx*4096+sub)
		w := newRingWorld()
		length := rng.Range(1, 60)
		if rng.Chance(1, 4) {
			length = 60
		}
		var fail *ringFail
		mutations := 0
		for i := 0; i < length && fail == nil; i++ {
			st := genRingStep(rng, w)
			var skipped bool
			fail, skipped = w.apply(st)
			if !skipped {
				steps++
				if st.op == rLink || st.op == rUnlink {
					mutations++
				}
			}
		}
		if fail == nil {
			fail = w.observe(true)
		}
		if fail == nil {
			if fail = w.doReentrant(rng); fail == nil && w.doReent > 0 {
				fail = w.observe(true)
			}
		}
		if fail != nil {
			rec.Violation(idx, fail.sig, fail.msg, w.replay(map[string]any{"seed": mon.Seed(), "group": idx, "sub": sub}))
		}
		rec.Case(idx, strings.Join(w.traceLines(), ";"), mutations > 0)
		if sub == 1 && idx%11 == 0 && rec.WantSample() && len(w.trace) < 25 {
			rec.Sample(w.replay(map[string]any{"verdict": "isomorphic after every step"}))
		}
		tot.links += w.links
		tot.removed += w.removed
		tot.joined += w.joined
		tot.unlinks += w.unlinks
		tot.lazy += w.lazy
		tot.doReent += w.doReent
		tot.doSkipped += w.doSkipped
		tot.len1 += w.len1
		tot.edgeZero += w.edgeZero
		tot.edgeNeg += w.edgeNeg
		tot.edgeMultiple += w.edgeMultiple
		tot.selfLink += w.selfLink
	}
	tot.flushCounts("ring.seeded.")
	rec.Count("ring.seeded.steps", steps)
	rec.Count("ring.seeded.do_with_mutating_callback_compared", tot.doReent)
	rec.Count("ring.seeded.do_with_mutating_callback_not_terminating_in_reference", tot.doSkipped)
	rec.Count("ring.seeded.sequences", g.n)
}

func genRingStep(rng *mon.RNG, w *ringWorld) rstep {
	nh := len(w.hk)
	dst := -1
	if nh >= maxHandles {
		dst = rng.Intn(nh)
	}
	pick := func() int { return rng.Intn(nh) }
	// a non-nil handle if there is one
	pickNN := func() int {
		for t := 0; t < 8; t++ {
			if h := pick(); w.hk[h] != nil {
				return h
			}
		}
		return -1
	}
	if nh == 0 || len(w.k) == 0 {
		return rstep{op: rNew, n: rng.Range(0, 5), dst: dst}
	}
	op := pickW(rng, []int{3, 1, 3, 3, 4, 7, 5, 2, 2})
	if (op == rNew || op == rZero) && len(w.k) > 40 {
		op = rLink
	}
	switch op {
	case rNew:
		n := rng.Range(0, 5)
		if rng.Chance(1, 20) {
			n = -1
		}
		return rstep{op: rNew, n: n, dst: dst}
	case rZero:
		return rstep{op: rZero, dst: dst}
	case rLen, rDo:
		return rstep{op: op, a: pick()}
	}
	a := pickNN()
	if a < 0 {
		return rstep{op: rNew, n: rng.Range(1, 5), dst: dst}
	}
	// edge arguments: 0, negative, exact multiples of the receiver's length
	// (length read from the reference structure, which is isomorphic here)
	edge := func(n int) int {
		if !rng.Chance(1, 4) {
			return n
		}
		l := rawLen(w.hs[a])
		switch rng.Intn(4) {
		case 0:
			w.edgeZero++
			return 0
		case 1:
			w.edgeNeg++
			return -rng.Range(1, 2*l+1)
		default:
			w.edgeMultiple++
			return l * rng.Range(1, 3)
		}
	}
	switch op {
	case rMove:
		n := rng.Range(-3, 3)
		if rng.Chance(1, 4) {
			n = rng.Range(-12, 12)
		}
		return rstep{op: rMove, a: a, n: edge(n), dst: dst}
	case rLink:
		b := pick()
		if rng.Chance(1, 6) {
			b = a // a ring linked with itself
		}
		if w.hk[b] == w.hk[a] {
			w.selfLink++
		}
		return rstep{op: rLink, a: a, b: b, dst: dst}
	case rUnlink:
		n := rng.Range(0, 3)
		if rng.Chance(1, 4) {
			n = rng.Range(-1, 9)
		}
		return rstep{op: rUnlink, a: a, n: edge(n), dst: dst}
	}
	return rstep{op: op, a: a, dst: dst}
}

// ---------------------------------------------------------------- exhaustive

// The reduced alphabet works on two handles h0, h1 (initially New(a), New(b)).
var ringAlphabet = []struct {
	name string
	st   rstep
	swap bool
}{
	{"h0=h0.Next()", rstep{op: rNext, a: 0, dst: 0}, false},
	{"h0=h0.Prev()", rstep{op: rPrev, a: 0, dst: 0}, false},
	{"h1=h1.Next()", rstep{op: rNext, a: 1, dst: 1}, false},
	{"h0=h0.Move(2)", rstep{op: rMove, a: 0, n: 2, dst: 0}, false},
	{"h0=h0.Move(-2)", rstep{op: rMove, a: 0, n: -2, dst: 0}, false},
	{"h1=h0.Link(h1)", rstep{op: rLink, a: 0, b: 1, dst: 1}, false},
	{"h0=h0.Link(h1)", rstep{op: rLink, a: 0, b: 1, dst: 0}, false},
	{"h1=h0.Unlink(1)", rstep{op: rUnlink, a: 0, n: 1, dst: 1}, false},
	{"h1=h0.Unlink(2)", rstep{op: rUnlink, a: 0, n: 2, dst: 1}, false},
	{"h1=New(1)", rstep{op: rNew, n: 1, dst: 1}, false},
	{"h1=New(2)", rstep{op: rNew, n: 2, dst: 1}, false},
	{"h1=&Ring{}", rstep{op: rZero, dst: 1}, false},
	{"swap(h0,h1)", rstep{}, true},
}

func runRingExhaustive(idx int, g group) {
	// g.a, g.b: initial sizes; g.c: first two symbols; g.n: total length
	A := len(ringAlphabet)
	rest := g.n - 2
	total := 1
	for i := 0; i < rest; i++ {
		total *= A
	}
	seq := make([]int, g.n)
	seq[0], seq[1] = g.c/A, g.c%A
	tot := newRingWorld()
	var nontrivial, trivial int64
	steps := 0
	for code := 0; code < total; code++ {
		c := code
		for i := g.n - 1; i >= 2; i-- {
			seq[i] = c % A
			c /= A
		}
		w := newRingWorld()
		var fail *ringFail
		fail, _ = w.apply(rstep{op: rNew, n: g.a, dst: -1})
		if fail == nil {
			fail, _ = w.apply(rstep{op: rNew, n: g.b, dst: -1})
		}
		if fail == nil {
			fail = w.observe(false)
		}
		mutations := 0
		for _, sym := range seq {
			if fail != nil {
				break
			}
			a := ringAlphabet[sym]
			if a.swap {
				w.trace = append(w.trace, tent{note: a.name})
				w.hk[0], w.hk[1] = w.hk[1], w.hk[0]
				w.hs[0], w.hs[1] = w.hs[1], w.hs[0]
				continue
			}
			var skipped bool
			fail, skipped = w.apply(a.st)
			if skipped {
				w.trace = append(w.trace, tent{note: "(skipped: nil receiver) " + a.name})
				continue
			}
			steps++
			if a.st.op == rLink || a.st.op == rUnlink {
				mutations++
			}
			if fail == nil {
				fail = w.observe(false)
			}
		}
		if fail == nil {
			fail = w.observe(true)
		}
		if fail != nil {
			rec.Violation(idx, fail.sig, fail.msg, w.replay(map[string]any{"mode": "exhaustive", "initial": []int{g.a, g.b}}))
		}
		if mutations > 0 {
			nontrivial++
		} else {
			trivial++
		}
		tot.links += w.links
		tot.removed += w.removed
		tot.joined += w.joined
		tot.unlinks += w.unlinks
		tot.lazy += w.lazy
		tot.len1 += w.len1
		tot.edgeZero += w.edgeZero
		tot.edgeNeg += w.edgeNeg
		tot.edgeMultiple += w.edgeMultiple
		tot.selfLink += w.selfLink
		if code&1023 == 0 {
			rec.Progress()
		}
	}
	rec.Bulk(idx, nontrivial, true)
	rec.Bulk(idx, trivial, false)
	tot.flushCounts("ring.exhaustive.")
	rec.Count("ring.exhaustive.steps", steps)
	rec.Count("ring.exhaustive.sequences", total)
}
