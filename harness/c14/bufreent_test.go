package c14

import (
	"fmt"
	"strconv"
)

// Re-entrant Range callbacks on ring.Buffered. Reference: a plain slice queue
// iterated over the elements queued when Range was called
// (for _, v := range items), while the callback works on the live queue.
// On the pinned tree Range reads the element count once and walks the ring
// nodes from the front node of that moment; consuming the element just handed
// over, re-queuing at the back, reading Front/Len and a nested Range never
// disturb that walk.

const (
	cbConsume = iota // RemoveFront of the element just handed over (first k visits)
	cbRequeue        // AppendBack of a fresh element (first k visits only: bounded)
	cbBoth           // RemoveFront, then AppendBack of the same element (first k visits)
	cbReads          // Front and Len
	cbNested         // a nested full Range
	cbKinds
)

var cbNames = [...]string{"consume", "requeue", "consume+requeue", "reads", "nested-range"}

// rangeReentrant runs one Range whose callback acts on the buffer itself.
func (w *bufWorld) rangeReentrant(kind, k int) (fail *bufFail) {
	defer w.guard("Range(re-entrant "+cbNames[kind]+")", &fail)
	w.trace = append(strconv.AppendInt(append(append(w.trace, 'r'), cbNames[kind][0], cbNames[kind][len(cbNames[kind])-1]), int64(k), 10), '.')
	snapshot := append([]*int(nil), w.q...)
	visits := 0
	var cb *bufFail
	sigp := "buffered/range-reentrant/" + cbNames[kind] + "/"
	w.b.Range(func(p *int) bool {
		if visits >= len(snapshot) {
			cb = &bufFail{"buffered/range/visits-exceed-elements-queued-at-call", fmt.Sprintf("Range with a %s callback made visit %d although only %d elements were queued when it was called", cbNames[kind], visits+1, len(snapshot))}
			return false
		}
		i := visits
		visits++
		if p != snapshot[i] {
			cb = &bufFail{sigp + "wrong-element", fmt.Sprintf("visit %d handed over %s, the queue at call time had %s there", i, w.name(p), w.name(snapshot[i]))}
			return false
		}
		switch kind {
		case cbConsume, cbBoth:
			if i < k && len(w.q) > 0 && w.q[0] == p {
				if cb = w.removeFront(); cb != nil {
					return false
				}
				if kind == cbBoth {
					w.b.AppendBack(p)
					w.q = append(w.q, p)
					w.appends++
					w.noteCap()
				}
				w.reentrantMut++
			}
		case cbRequeue:
			if i < k {
				if cb = w.appendBack(vNew); cb != nil {
					return false
				}
				w.reentrantMut++
			}
		case cbReads:
			if cb = w.front(); cb != nil {
				return false
			}
		case cbNested:
			if cb = w.rangeStop(0); cb != nil {
				return false
			}
		}
		if cb = w.checkLen("re-entrant callback"); cb != nil {
			return false
		}
		return true
	})
	if cb != nil {
		return cb
	}
	if visits != len(snapshot) {
		return &bufFail{sigp + "wrong-count", fmt.Sprintf("Range with a %s callback (first %d visits) visited %d elements, %d were queued when it was called", cbNames[kind], k, visits, len(snapshot))}
	}
	w.reentrant++
	return w.checkLen("Range(re-entrant)")
}

// runBufReentrant: for sizes (g.a, g.b): queues of 0..12 elements (after 0..3
// rotations so that the front is anywhere in the ring) x callback kind x how
// many visits act, observers after the walk, then a full drain.
func runBufReentrant(idx int, g group) {
	var tot bufWorld
	n := 0
	for fill := 0; fill <= 12; fill++ {
		for rot := 0; rot <= 3; rot++ {
			for kind := 0; kind < cbKinds; kind++ {
				for _, k := range []int{1, 2, fill / 2, 1000} {
					w := newBufWorld(g.a, g.b)
					var fail *bufFail
					for i := 0; i < rot && fail == nil; i++ {
						if fail = w.appendBack(vNew); fail == nil {
							fail = w.removeFront()
						}
					}
					for i := 0; i < fill && fail == nil; i++ {
						kindV := vNew
						if i%5 == 3 {
							kindV = vNil
						}
						fail = w.appendBack(kindV)
					}
					if fail == nil {
						fail = w.rangeReentrant(kind, k)
					}
					if fail == nil {
						fail = w.observers()
					}
					if fail == nil && fill > 2 { // a second walk on the changed buffer
						fail = w.rangeReentrant((kind+1)%cbKinds, k)
					}
					for fail == nil && len(w.q) > 0 {
						if fail = w.front(); fail == nil {
							fail = w.removeFront()
						}
					}
					if fail != nil {
						rec.Violation(idx, fail.sig, fail.msg, w.replay(map[string]any{"mode": "re-entrant Range callbacks", "fill": fill, "rotations": rot, "callback": cbNames[kind], "acting_visits": k}))
					}
					n++
					tot.add(w)
				}
			}
		}
	}
	rec.Bulk(idx, int64(n), true)
	rec.Count("buffered.reentrant.scenarios", n)
	rec.Count("buffered.reentrant.walks_completed", tot.reentrant)
	rec.Count("buffered.reentrant.mutations_inside_callbacks", tot.reentrantMut)
	rec.Count("buffered.reentrant.grow_events", tot.grows)
	rec.Count("buffered.reentrant.shrink_events", tot.shrinks)
}
