package c14

import (
	"fmt"
	"reflect"
	"strconv"
	"strings"

	kring "github.com/dapr/kit/ring"

	"verif/harness/internal/mon"
)

// bufWorld drives a ring.Buffered[int] next to a plain slice queue of the
// same pointers.
type bufWorld struct {
	b       *kring.Buffered[int]
	q       []*int
	initial int
	bsize   int
	next    int
	trace   []byte // A append (fresh pointer), N append nil, S append the shared pointer again, R remove-front, F front, G range, g<k>. range stopping after k callbacks, L len
	cap     int    // observed ring capacity (not judged)
	// counters
	grows, shrinks, removes, appends, emptied, frontEmpty, stops int
	same                                                         *int
	nils, sames, nilFrontFull                                    int
	reentrant, reentrantMut                                      int
}

func checkBufferedLayout() string {
	t := reflect.TypeOf(kring.Buffered[int]{})
	if t.NumField() < 1 || t.Field(0).Name != "ring" || t.Field(0).Type != reflect.TypeOf((*kring.Ring[*int])(nil)) {
		return "unexpected layout of ring.Buffered (capacity observation)"
	}
	return ""
}

func newBufWorld(initial, bsize int) *bufWorld {
	w := &bufWorld{b: kring.NewBuffered[int](initial, bsize), initial: initial, bsize: bsize}
	w.cap = w.capacity()
	return w
}

// capacity reads the length of the underlying ring (observation only).
func (w *bufWorld) capacity() int {
	r := (*kring.Ring[*int])(reflect.ValueOf(w.b).Elem().Field(0).UnsafePointer())
	return r.Len()
}

func (w *bufWorld) noteCap() {
	c := w.capacity()
	if c > w.cap {
		w.grows++
	} else if c < w.cap {
		w.shrinks++
	}
	w.cap = c
}

type bufFail struct{ sig, msg string }

func (w *bufWorld) name(p *int) string {
	if p == nil {
		return "nil"
	}
	return fmt.Sprintf("v%d", *p)
}

func (w *bufWorld) guard(op string, fail **bufFail) {
	if e := recover(); e != nil {
		*fail = &bufFail{"buffered/" + op + "/panic", fmt.Sprintf("%s panicked: %v", op, e)}
	}
}

func (w *bufWorld) checkLen(after string) *bufFail {
	if n := w.b.Len(); n != len(w.q) {
		return &bufFail{"buffered/len/after-" + after, fmt.Sprintf("Len() = %d after %s, queue holds %d", n, after, len(w.q))}
	}
	return nil
}

// values appended: a fresh pointer, a nil pointer (a queue of *T may hold
// nil), or one shared pointer that is appended again and again.
const (
	vNew = iota
	vNil
	vSame
)

func (w *bufWorld) appendBack(kind int) (fail *bufFail) {
	defer w.guard("AppendBack", &fail)
	var v *int
	switch kind {
	case vNil:
		w.trace = append(w.trace, 'N')
		w.nils++
	case vSame:
		w.trace = append(w.trace, 'S')
		if w.same == nil {
			w.same = new(int)
			*w.same = 1000
		}
		v = w.same
		w.sames++
	default:
		w.trace = append(w.trace, 'A')
		w.next++
		v = new(int)
		*v = w.next
	}
	if len(w.q) > 0 && w.q[0] == nil && len(w.q) == w.cap {
		w.nilFrontFull++ // nil at the front of an exactly full ring
	}
	w.b.AppendBack(v)
	w.q = append(w.q, v)
	w.appends++
	w.noteCap()
	return w.checkLen("AppendBack")
}

// removeFront must only be called while the model queue is non-empty.
func (w *bufWorld) removeFront() (fail *bufFail) {
	defer w.guard("RemoveFront", &fail)
	w.trace = append(w.trace, 'R')
	got := w.b.RemoveFront()
	w.q = w.q[1:]
	w.removes++
	w.noteCap()
	if len(w.q) > 0 {
		if got != w.q[0] {
			return &bufFail{"buffered/removefront/wrong-next", fmt.Sprintf("RemoveFront returned %s, the queue's new front is %s", w.name(got), w.name(w.q[0]))}
		}
	} else {
		w.emptied++
		if got != nil {
			rec.Observe("ring.Buffered.RemoveFront returned a non-nil value when the queue became empty (not judged)")
		}
	}
	return w.checkLen("RemoveFront")
}

func (w *bufWorld) front() (fail *bufFail) {
	defer w.guard("Front", &fail)
	w.trace = append(w.trace, 'F')
	got := w.b.Front()
	if len(w.q) > 0 {
		if got != w.q[0] {
			return &bufFail{"buffered/front/wrong-value", fmt.Sprintf("Front() = %s, the queue's front is %s", w.name(got), w.name(w.q[0]))}
		}
	} else {
		w.frontEmpty++
		if got != nil {
			rec.Observe("ring.Buffered.Front returned a non-nil value on an empty queue (not judged)")
		}
	}
	return w.checkLen("Front")
}

// rangeStop ranges over the buffer, returning false from the stop-th callback
// (stop <= 0: never).
func (w *bufWorld) rangeStop(stop int) (fail *bufFail) {
	defer w.guard("Range", &fail)
	if stop <= 0 {
		w.trace = append(w.trace, 'G')
	} else {
		w.trace = append(strconv.AppendInt(append(w.trace, 'g'), int64(stop), 10), '.')
	}
	var seen []*int
	over := false
	w.b.Range(func(p *int) bool {
		if stop > 0 && len(seen) >= stop {
			over = true
			return false
		}
		seen = append(seen, p)
		return !(stop > 0 && len(seen) == stop)
	})
	want := w.q
	if stop > 0 && stop < len(want) {
		want = want[:stop]
		w.stops++
	}
	if over {
		return &bufFail{"buffered/range/continued-after-stop", fmt.Sprintf("Range called back again after the callback returned false at element %d", stop)}
	}
	if len(seen) != len(want) {
		return &bufFail{"buffered/range/wrong-count", fmt.Sprintf("Range(stop=%d) visited %d elements, the queue prefix has %d (queue %d)", stop, len(seen), len(want), len(w.q))}
	}
	for i := range seen {
		if seen[i] != want[i] {
			return &bufFail{"buffered/range/wrong-order", fmt.Sprintf("Range element %d is %s, the queue has %s", i, w.name(seen[i]), w.name(want[i]))}
		}
	}
	return w.checkLen("Range")
}

// observers: Len, Front, full Range, Range stopping early.
func (w *bufWorld) observers() *bufFail {
	n := len(w.trace)
	if f := w.checkLen("step"); f != nil {
		return f
	}
	if f := w.front(); f != nil {
		return f
	}
	if f := w.rangeStop(0); f != nil {
		return f
	}
	if f := w.rangeStop(1); f != nil {
		return f
	}
	if len(w.q) > 2 {
		if f := w.rangeStop(len(w.q) - 1); f != nil {
			return f
		}
	}
	w.trace = w.trace[:n] // the observer pack after every step is implied; a failing observer stays in the trace
	return nil
}

func (w *bufWorld) replay(extra map[string]any) map[string]any {
	m := map[string]any{"structure": "ring.Buffered vs slice queue", "initial": w.initial, "buffer": w.bsize,
		"ops": string(w.trace), "legend": "r<kind><k>. Range with a re-entrant callback (ce consume, re requeue, ee consume+requeue, rs reads, ne nested range; acting on the first k visits), A AppendBack(fresh pointer), N AppendBack(nil), S AppendBack(the one shared pointer v1000), R RemoveFront, F Front, G Range, g<k>. Range stopped at callback k, L Len; Len checked after every step",
		"queue_len": len(w.q)}
	for k, v := range extra {
		m[k] = v
	}
	return m
}

func (w *bufWorld) flush(pre string) {
	rec.Count(pre+"appends", w.appends)
	rec.Count(pre+"removes", w.removes)
	rec.Count(pre+"grow_events", w.grows)
	rec.Count(pre+"shrink_events", w.shrinks)
	rec.Count(pre+"became_empty", w.emptied)
	rec.Count(pre+"front_on_empty_observed", w.frontEmpty)
	rec.Count(pre+"range_stopped_early", w.stops)
	rec.Count(pre+"appended_nil", w.nils)
	rec.Count(pre+"appended_same_pointer_again", w.sames)
	rec.Count(pre+"append_with_nil_at_front_of_full_ring", w.nilFrontFull)
}

func (w *bufWorld) add(o *bufWorld) {
	w.appends += o.appends
	w.removes += o.removes
	w.grows += o.grows
	w.shrinks += o.shrinks
	w.emptied += o.emptied
	w.frontEmpty += o.frontEmpty
	w.stops += o.stops
	w.nils += o.nils
	w.sames += o.sames
	w.nilFrontFull += o.nilFrontFull
	w.reentrant += o.reentrant
	w.reentrantMut += o.reentrantMut
}

// ---------------------------------------------------------------- exhaustive

// runBufExhaustive enumerates every valid sequence of exactly g.n mutators
// (AppendBack / RemoveFront, RemoveFront never on an empty queue) for sizes
// (g.a, g.b); all observers run after every step.
func runBufExhaustive(idx int, g group) {
	var tot bufWorld
	var nontrivial, trivial int64
	L := g.n
	for mask := uint32(0); mask < 1<<uint(L); mask++ {
		// bit i set = AppendBack at step i; valid iff no prefix removes from empty
		depth, valid := 0, true
		for i := 0; i < L; i++ {
			if mask&(1<<uint(i)) != 0 {
				depth++
			} else if depth == 0 {
				valid = false
				break
			} else {
				depth--
			}
		}
		if !valid {
			continue
		}
		w := newBufWorld(g.a, g.b)
		fail := w.observers()
		for i := 0; i < L && fail == nil; i++ {
			if mask&(1<<uint(i)) != 0 {
				fail = w.appendBack(vNew)
			} else {
				fail = w.removeFront()
			}
			if fail == nil {
				fail = w.observers()
			}
		}
		if fail != nil {
			rec.Violation(idx, fail.sig, fail.msg, w.replay(map[string]any{"mode": "exhaustive"}))
		}
		if w.removes > 0 {
			nontrivial++
		} else {
			trivial++
		}
		tot.add(w)
		if mask&1023 == 0 {
			rec.Progress()
		}
	}
	rec.Bulk(idx, nontrivial, true)
	rec.Bulk(idx, trivial, false)
	tot.flush("buffered.exhaustive.")
	rec.Count("buffered.exhaustive.sequences", int(nontrivial+trivial))
}

// runBufExhaustiveValues enumerates every valid sequence of exactly g.n
// mutators over the alphabet {AppendBack(fresh), AppendBack(nil),
// AppendBack(shared pointer), RemoveFront} that starts with symbol g.c, for
// sizes (g.a, g.b); all observers run after every step.
func runBufExhaustiveValues(idx int, g group) {
	var tot bufWorld
	var nontrivial, trivial int64
	L := g.n
	total := 1
	for i := 1; i < L; i++ {
		total *= 4
	}
	seq := make([]int, L)
	seq[0] = g.c
	for code := 0; code < total; code++ {
		c := code
		for i := L - 1; i >= 1; i-- {
			seq[i] = c & 3
			c >>= 2
		}
		depth, valid := 0, true
		for _, sym := range seq {
			if sym != 3 {
				depth++
			} else if depth == 0 {
				valid = false
				break
			} else {
				depth--
			}
		}
		if !valid {
			continue
		}
		w := newBufWorld(g.a, g.b)
		fail := w.observers()
		for i := 0; i < L && fail == nil; i++ {
			if seq[i] == 3 {
				fail = w.removeFront()
			} else {
				fail = w.appendBack(seq[i])
			}
			if fail == nil {
				fail = w.observers()
			}
		}
		if fail != nil {
			rec.Violation(idx, fail.sig, fail.msg, w.replay(map[string]any{"mode": "exhaustive, value alphabet {fresh, nil, shared}"}))
		}
		if w.removes > 0 {
			nontrivial++
		} else {
			trivial++
		}
		tot.add(w)
		if code&1023 == 0 {
			rec.Progress()
		}
	}
	rec.Bulk(idx, nontrivial, true)
	rec.Bulk(idx, trivial, false)
	tot.flush("buffered.exhaustive_values.")
	rec.Count("buffered.exhaustive_values.sequences", int(nontrivial+trivial))
}

// ---------------------------------------------------------------- seeded

func runBufSeeded(idx int, g group) {
	var tot bufWorld
	for sub := 0; sub < g.n; sub++ {
		rng := mon.NewRNG("c14-buf", idx*4096+sub)
		// every (initial, buffer) pair in 0..5 comes round; sub spreads them
		pair := (idx*g.n + sub) % 36
		w := newBufWorld(pair/6, pair%6)
		length := rng.Range(1, 60)
		if rng.Chance(1, 3) {
			length = 60
		}
		growing := true
		pA := rng.Range(55, 90)
		var fail *bufFail
		for i := 0; i < length && fail == nil; i++ {
			if rng.Chance(1, 8) {
				growing = !growing
			}
			p := pA
			if !growing {
				p = 100 - pA
			}
			switch r := rng.Intn(100); {
			case r < 70:
				if rng.Intn(100) < p || len(w.q) == 0 {
					fail = w.appendBack(pickW(rng, []int{12, 5, 3}))
				} else {
					fail = w.removeFront()
				}
			case r < 78:
				fail = w.front()
			case r < 84:
				w.trace = append(w.trace, 'L')
				fail = w.checkLen("Len")
			case r < 92:
				fail = w.rangeStop(0)
			case r < 96:
				fail = w.rangeStop(rng.Range(1, 6))
			default:
				fail = w.rangeReentrant(rng.Intn(cbKinds), rng.PickInt(1, 2, 3, 1000))
			}
		}
		if fail == nil {
			fail = w.observers()
		}
		// drain completely: everything comes out in order
		for fail == nil && len(w.q) > 0 {
			if fail = w.front(); fail == nil {
				fail = w.removeFront()
			}
		}
		if fail != nil {
			rec.Violation(idx, fail.sig, fail.msg, w.replay(map[string]any{"mode": "seeded", "seed": mon.Seed(), "group": idx, "sub": sub}))
		}
		key := fmt.Sprintf("%d/%d %s", w.initial, w.bsize, w.trace)
		rec.Case(idx, key, w.removes > 0)
		if sub == 2 && idx%13 == 0 && rec.WantSample() {
			rec.Sample(w.replay(map[string]any{"verdict": "agrees with the queue after every step", "grow_events": w.grows, "shrink_events": w.shrinks,
				"ops": strings.ToValidUTF8(string(w.trace), "?")}))
		}
		tot.add(w)
	}
	tot.flush("buffered.seeded.")
	rec.Count("buffered.seeded.sequences", g.n)
	rec.Count("buffered.seeded.reentrant_walks", tot.reentrant)
	rec.Count("buffered.seeded.mutations_inside_callbacks", tot.reentrantMut)
}
