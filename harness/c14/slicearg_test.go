package c14

import (
	"fmt"
	"slices"

	"github.com/dapr/kit/concurrency/cmap"
	kslice "github.com/dapr/kit/concurrency/slice"

	"verif/harness/internal/mon"
)

// Sequential aliasing checks: the model is a plain slice with copy semantics
// (Append copies its arguments in, what the caller does with its own memory
// afterwards never shows up in the container). Deterministic and cheap.

// sliceWorld is one Slice instance next to its model.
type sliceWorld struct {
	s     kslice.Slice[int64]
	m     []int64
	name  string
	trace *[]string
}

type aliasFail struct{ sig, msg string }

func (w *sliceWorld) check(after string) *aliasFail {
	if n := w.s.Len(); n != len(w.m) {
		return &aliasFail{"slice/aliasing/" + after + "/len", fmt.Sprintf("%s.Len() = %d after %s, a plain slice holds %d", w.name, n, after, len(w.m))}
	}
	if got := w.s.Slice(); !slices.Equal(got, w.m) {
		return &aliasFail{"slice/aliasing/" + after + "/content", fmt.Sprintf("%s.Slice() = %v after %s, a plain slice holds %v", w.name, got, after, w.m)}
	}
	return nil
}

func (w *sliceWorld) appendArg(arg []int64, how string) *aliasFail {
	*w.trace = append(*w.trace, fmt.Sprintf("%s.Append(%s = %v len %d cap %d)", w.name, how, arg, len(arg), cap(arg)))
	n := w.s.Append(arg...)
	w.m = append(w.m, slices.Clone(arg)...)
	if n != len(w.m) {
		return &aliasFail{"slice/append/returned-length", fmt.Sprintf("%s.Append returned %d, a plain slice has %d elements", w.name, n, len(w.m))}
	}
	return w.check("append")
}

// sliceArgCase: one scripted scenario.
type sliceArgCase struct {
	prior, n, spare, off               int
	shared, scribble, callerApp, reuse bool
}

func (c sliceArgCase) String() string {
	return fmt.Sprintf("prior=%d n=%d spare=%d off=%d shared=%v scribble=%v callerAppend=%v reuse=%v", c.prior, c.n, c.spare, c.off, c.shared, c.scribble, c.callerApp, c.reuse)
}

func runSliceArgCase(c sliceArgCase, stats map[string]int) (fail *aliasFail, trace []string) {
	defer func() {
		if e := recover(); e != nil {
			fail = &aliasFail{"slice/aliasing/panic", fmt.Sprint(e)}
		}
	}()
	next := int64(0)
	uniq := func() int64 { next++; return next }
	a := &sliceWorld{s: kslice.New[int64](), name: "A", trace: &trace}
	b := &sliceWorld{s: kslice.New[int64](), name: "B", trace: &trace}
	both := func(after string) *aliasFail {
		if f := a.check(after); f != nil {
			return f
		}
		return b.check(after)
	}
	for i := 0; i < c.prior; i++ {
		if f := a.appendArg([]int64{uniq()}, "literal"); f != nil {
			return f, trace
		}
	}
	// the caller's buffer: garbage everywhere, the argument is a window of it
	big := make([]int64, c.off+c.n+c.spare+2)
	for i := range big {
		big[i] = garbage - int64(i)
	}
	arg := big[c.off : c.off+c.n : c.off+c.n+c.spare]
	for i := range arg {
		arg[i] = uniq()
	}
	if f := a.appendArg(arg, "window of the caller's buffer"); f != nil {
		return f, trace
	}
	if c.shared {
		if f := b.appendArg(arg, "the same window"); f != nil {
			return f, trace
		}
		if f := both("second-instance-append"); f != nil {
			return f, trace
		}
	}
	if c.scribble {
		trace = append(trace, "caller overwrites its argument slice")
		for i := range arg {
			arg[i] = garbage - 100 - int64(i)
		}
		if f := both("caller-overwrite"); f != nil {
			return f, trace
		}
	}
	if c.callerApp {
		trace = append(trace, "caller appends to its argument slice")
		x := append(arg, garbage-200)
		_ = append(x, garbage-201)
		if f := both("caller-append"); f != nil {
			return f, trace
		}
	}
	// the containers grow: with a kept argument these writes land in the
	// caller's spare capacity (and in each other's)
	if f := a.appendArg([]int64{uniq()}, "literal"); f != nil {
		return f, trace
	}
	if c.shared {
		if f := b.appendArg([]int64{uniq(), uniq()}, "literal"); f != nil {
			return f, trace
		}
		if f := both("growth-of-the-other-instance"); f != nil {
			return f, trace
		}
	}
	if c.reuse {
		trace = append(trace, "caller re-uses its buffer for the next call")
		for i := range big {
			big[i] = garbage - 300 - int64(i)
		}
		for i := range arg {
			arg[i] = uniq()
		}
		if f := both("buffer-reuse"); f != nil {
			return f, trace
		}
		if f := a.appendArg(arg, "re-used window"); f != nil {
			return f, trace
		}
		for i := range big {
			big[i] = garbage - 400 - int64(i)
		}
		if f := both("buffer-reuse"); f != nil {
			return f, trace
		}
	}
	// grow past any capacity seen so far
	for i := 0; i < 3; i++ {
		if f := a.appendArg([]int64{uniq(), uniq(), uniq()}, "literal"); f != nil {
			return f, trace
		}
	}
	if f := both("growth"); f != nil {
		return f, trace
	}
	// the caller appends to the slice it got back from Slice(): the container
	// must keep reporting its own elements
	trace = append(trace, "caller appends to the result of A.Slice()")
	r := a.s.Slice()
	_ = append(r, garbage-500)
	if f := a.check("caller-append-to-result"); f != nil {
		return f, trace
	}
	if f := a.appendArg([]int64{uniq()}, "literal"); f != nil {
		return f, trace
	}
	// Observed, not judged: the caller overwrites an element of the slice it
	// got back. (Last step of the scenario, A is not used afterwards.)
	r = a.s.Slice()
	if len(r) > 0 {
		r[0] = garbage - 600
		if again := a.s.Slice(); len(again) > 0 && again[0] == garbage-600 {
			stats["slice.result_element_write_visible_in_container"]++
		} else {
			stats["slice.result_element_write_isolated"]++
		}
	}
	return nil, trace
}

func runSliceArgs(idx int, g group) {
	stats := map[string]int{}
	n := 0
	for flags := 0; flags < 16; flags++ {
		for nn := 0; nn <= 3; nn++ {
			for spare := 0; spare <= 8; spare++ {
				for _, off := range []int{0, 2} {
					c := sliceArgCase{prior: g.a, n: nn, spare: spare, off: off,
						shared: flags&1 != 0, scribble: flags&2 != 0, callerApp: flags&4 != 0, reuse: flags&8 != 0}
					fail, trace := runSliceArgCase(c, stats)
					if fail != nil {
						rec.Violation(idx, fail.sig, fail.msg, map[string]any{"structure": "concurrency/slice, caller-owned arguments", "scenario": c.String(), "steps": trace})
					}
					n++
					if rec.WantSample() && flags == 15 && nn == 2 && spare == 3 && off == 2 && g.a == 0 {
						rec.Sample(map[string]any{"structure": "concurrency/slice, caller-owned arguments", "scenario": c.String(), "steps": trace, "verdict": "agrees with a plain slice (copy semantics) after every step"})
					}
				}
			}
		}
	}
	rec.Bulk(idx, int64(n), true)
	rec.Count("alias.slice.scenarios", n)
	for k, v := range stats {
		rec.Count("alias."+k, v)
	}
	if stats["slice.result_element_write_visible_in_container"] > 0 {
		rec.Observe("concurrency/slice: Slice() returns the internal backing array without copying - a caller that overwrites an element of the result changes what the container reports afterwards (observed, not judged)")
	}
}

// runSliceSeeded: seeded sequences over two instances that are fed windows of
// one shared, re-used caller buffer.
func runSliceSeeded(idx int, g group) {
	for sub := 0; sub < g.n; sub++ {
		rng := mon.NewRNG("c14-slice-alias", idx*4096+sub)
		var trace []string
		w := [2]*sliceWorld{
			{s: kslice.New[int64](), name: "A", trace: &trace},
			{s: kslice.New[int64](), name: "B", trace: &trace},
		}
		big := make([]int64, 24)
		next := int64(0)
		var fail *aliasFail
		var last []int64
		steps := rng.Range(3, 30)
		func() {
			defer func() {
				if e := recover(); e != nil {
					fail = &aliasFail{"slice/aliasing/panic", fmt.Sprint(e)}
				}
			}()
			for i := 0; i < steps && fail == nil; i++ {
				t := w[rng.Intn(2)]
				switch r := rng.Intn(10); {
				case r < 5: // append a window of the shared buffer
					nn, off := rng.Intn(4), rng.Intn(8)
					spare := rng.Intn(9)
					for j := range big {
						big[j] = garbage - int64(j)
					}
					last = big[off : off+nn : off+nn+spare]
					for j := range last {
						next++
						last[j] = next
					}
					fail = t.appendArg(last, "window of the shared buffer")
				case r < 6 && last != nil: // the same window again, to either instance
					fail = t.appendArg(last, "the previous window again")
				case r < 7 && last != nil:
					trace = append(trace, "caller overwrites the previous window")
					for j := range last {
						last[j] = garbage - 100 - int64(j)
					}
				case r < 8 && last != nil:
					trace = append(trace, "caller appends to the previous window")
					last = append(last, garbage-200)
				case r < 9:
					trace = append(trace, "caller appends to the result of "+t.name+".Slice()")
					_ = append(t.s.Slice(), garbage-500)
				default:
					next++
					fail = t.appendArg([]int64{next}, "literal")
				}
				if fail == nil {
					if fail = w[0].check("step"); fail == nil {
						fail = w[1].check("step")
					}
				}
			}
		}()
		if fail != nil {
			rec.Violation(idx, fail.sig, fail.msg, map[string]any{"structure": "concurrency/slice, caller-owned arguments (seeded)", "seed": mon.Seed(), "group": idx, "sub": sub, "steps": trace})
		}
		rec.Case(idx, fmt.Sprint(trace), true)
	}
	rec.Count("alias.slice.seeded_sequences", g.n)
}

// runMapKeysAlias: the slice returned by Map.Keys() belongs to the caller;
// writing to it or appending to it must not change the map.
func runMapKeysAlias(idx int, g group) {
	n := 0
	for size := 0; size <= 3; size++ {
		m := cmap.NewMap[string, int64]()
		want := map[string]int64{}
		for i := 0; i < size; i++ {
			m.Store(keyNames[i], int64(i+1))
			want[keyNames[i]] = int64(i + 1)
		}
		check := func(after string) bool {
			ks := m.Keys()
			slices.Sort(ks)
			var wk []string
			for k := range want {
				wk = append(wk, k)
			}
			slices.Sort(wk)
			ok := slices.Equal(ks, wk) && m.Len() == len(want)
			for k, v := range want {
				if got, present := m.Load(k); !present || got != v {
					ok = false
				}
			}
			if !ok {
				rec.Violation(idx, "map/keys-aliasing/"+after, fmt.Sprintf("after the caller %s the slice returned by Keys(), the map reports keys %v (len %d), an ordinary map holds %v", after, ks, m.Len(), wk),
					map[string]any{"structure": "cmap.Map", "size": size})
			}
			return ok
		}
		ks := m.Keys()
		for i := range ks {
			ks[i] = "zz"
		}
		check("overwrote")
		ks = m.Keys()
		_ = append(ks, "yy")
		_ = append(ks[:0], "xx")
		check("appended to")
		m.Store("a", 77)
		want["a"] = 77
		check("appended to")
		n += 3
	}
	rec.Bulk(idx, int64(n), true)
	rec.Count("alias.map.keys_checks", n)
}
