package c14

import (
	"fmt"
	"runtime"
	"sort"
	"strings"
	"sync"
	"sync/atomic"
	"time"

	"github.com/anishathalye/porcupine"

	"github.com/dapr/kit/concurrency/cmap"
	kslice "github.com/dapr/kit/concurrency/slice"

	"verif/harness/internal/mon"
)

// ---------------------------------------------------------------- programs

// pop is one operation of a seeded program.
type pop struct {
	kind int
	key  int
	val  int64
	n    int // slice Append: number of items (values val, val+1, ...)
	pre  int // runtime.Gosched() calls before the operation (seeded perturbation)
	// slice Append: shape of the caller-owned argument slice. The items are cut
	// out of the goroutine's re-used buffer at offset off with spare extra
	// capacity; after the call the caller may overwrite the argument (scribble),
	// append to it (callerApp: writes into the spare capacity) and hand the same
	// slice to a second Slice instance (shared).
	off, spare                  int
	scribble, callerApp, shared bool
	// map Range / atomic ForEach: the callback dwells after every entry (yields
	// and waits, bounded, for other clients to get work done), so that writers
	// attempt their writes while the walk is inside the callback.
	slow bool
}

// prog is one seeded concurrent program: a sequential prefix run by the
// harness goroutine, then nG goroutines released together.
type prog struct {
	kind   string // map | atomic | slice
	nKeys  int
	prefix []pop
	gor    [][]pop
	post   []pop // observers run by the harness goroutine after all clients are done
	rounds bool
	// snapshot programs: goroutine 0 is the only writer (a totally ordered
	// sequence of versioned writes), the others only observe, mostly with slow
	// walks; every observation must be a state after some prefix of the
	// writer's sequence.
	snapshot bool // lock-step rounds: operation i of every goroutine starts behind a common barrier
}

const maxKeys = 3

// The first key is the zero value of the key type: "absent" versus "present
// under the zero key / with the zero value" must not be confused.
var keyNames = [maxKeys]string{"", "b", "c"}

// keyShow: how the keys are written in programs and histories.
var keyShow = [maxKeys]string{"''", "b", "c"}

func keyIdx(k string) int {
	for i, n := range keyNames {
		if k == n {
			return i
		}
	}
	return -1
}

// map operations
const (
	mStore = iota
	mLoad
	mDelete
	mLoadAndDelete
	mLen
	mKeys
	mRange
	mRangeFirst
	mClear
	mKinds
)

var mapOpNames = [...]string{"Store", "Load", "Delete", "LoadAndDelete", "Len", "Keys", "Range", "RangeFirst", "Clear"}

// atomic-map operations
const (
	aGetOrCreate = iota
	aGet
	aObjAdd
	aObjLoad
	aObjStore
	aDelete
	aForEach
	aClear
	aKinds
)

var atomOpNames = [...]string{"GetOrCreate", "Get", "obj.Add", "obj.Load", "obj.Store", "Delete", "ForEach", "Clear"}

// slice operations
const (
	sAppend = iota
	sLen
	sSlice
	sKinds
)

var sliceOpNames = [...]string{"Append", "Len", "Slice"}

func opName(kind string, k int) string {
	switch kind {
	case "map":
		return mapOpNames[k]
	case "atomic":
		return atomOpNames[k]
	}
	return sliceOpNames[k]
}

func (p *prog) String() string {
	var sb strings.Builder
	fmt.Fprintf(&sb, "%s keys=%d rounds=%v", p.kind, p.nKeys, p.rounds)
	if p.snapshot {
		sb.WriteString(" single-writer(g0)")
	}
	w := func(name string, ops []pop) {
		fmt.Fprintf(&sb, " | %s:", name)
		for _, o := range ops {
			sb.WriteByte(' ')
			sb.WriteString(opName(p.kind, o.kind))
			switch {
			case p.kind == "slice":
				if o.kind == sAppend {
					fmt.Fprintf(&sb, "(%d@%d buf[%d:+%d:+%d]", o.n, o.val, o.off, o.n, o.spare)
					if o.scribble {
						sb.WriteString(" scribble")
					}
					if o.callerApp {
						sb.WriteString(" caller-append")
					}
					if o.shared {
						sb.WriteString(" shared")
					}
					sb.WriteByte(')')
				}
			case p.kind == "map" && o.kind == mStore:
				fmt.Fprintf(&sb, "(%s,%d)", keyShow[o.key], o.val)
			case p.kind == "map" && o.kind <= mLoadAndDelete:
				fmt.Fprintf(&sb, "(%s)", keyShow[o.key])
			case p.kind == "atomic" && (o.kind == aForEach || o.kind == aClear):
			case p.kind == "atomic" && (o.kind == aGetOrCreate || o.kind == aObjAdd || o.kind == aObjStore):
				fmt.Fprintf(&sb, "(%s,%s)", keyShow[o.key], fmtVal(o.val))
			case p.kind == "atomic":
				fmt.Fprintf(&sb, "(%s)", keyShow[o.key])
			}
			if o.slow {
				sb.WriteString("[slow callback]")
			}
			if o.pre > 0 {
				fmt.Fprintf(&sb, "~%d", o.pre)
			}
		}
	}
	w("pre", p.prefix)
	for g, ops := range p.gor {
		w(fmt.Sprintf("g%d", g), ops)
	}
	w("post", p.post)
	return sb.String()
}

// weighted pick
func pickW(rng *mon.RNG, w []int) int {
	t := 0
	for _, x := range w {
		t += x
	}
	r := rng.Intn(t)
	for i, x := range w {
		if r < x {
			return i
		}
		r -= x
	}
	return len(w) - 1
}

var (
	mapWeights   = []int{6, 4, 2, 4, 2, 2, 2, 1, 1}
	atomWeights  = []int{6, 2, 5, 3, 2, 2, 2, 1}
	sliceWeights = []int{5, 2, 3}
)

// genProg builds the seeded program of one history: 2-4 goroutines x 1-5
// operations over 1-3 keys, unique written values, a 0-3 operation sequential
// prefix. In "hot" programs every goroutine opens with the same kind of
// operation on the same key (maximal contention right behind the barrier).
func genProg(kind string, rng *mon.RNG) *prog {
	p := &prog{kind: kind, nKeys: rng.Range(1, maxKeys), rounds: rng.Chance(1, 2)}
	nG := rng.Range(2, 4)
	next := int64(0)
	uniq := func(n int) int64 { v := next + 1; next += int64(n); return v }
	hot := rng.Chance(1, 3)
	hotKey := rng.Intn(p.nKeys)
	var weights []int
	switch kind {
	case "map":
		weights = mapWeights
	case "atomic":
		weights = atomWeights
	default:
		weights = sliceWeights
	}
	hotKind := pickW(rng, weights)
	if kind == "atomic" && hot && rng.Chance(1, 2) {
		hotKind = aGetOrCreate
	}
	if kind == "map" && hot && rng.Chance(1, 3) {
		hotKind = mLoadAndDelete
	}
	// has[k]: this goroutine statically holds an object for key k (atomic only)
	mk := func(has *[maxKeys]bool, forceKind, forceKey int) pop {
		o := pop{kind: pickW(rng, weights), key: rng.Intn(p.nKeys)}
		if forceKind >= 0 {
			o.kind, o.key = forceKind, forceKey
		}
		if rng.Chance(1, 4) {
			o.pre = rng.Range(1, 3)
		}
		switch kind {
		case "map":
			if o.kind == mStore {
				o.val = uniq(1)
				if rng.Chance(1, 6) {
					o.val = 0 // the zero value is a value like any other
				}
			}
		case "atomic":
			if (o.kind == aObjAdd || o.kind == aObjLoad || o.kind == aObjStore) && !has[o.key] {
				o.kind = aGetOrCreate
			}
			switch o.kind {
			case aGetOrCreate:
				o.val = uniq(1) << 32
				if rng.Chance(1, 6) {
					o.val = 0
				}
				has[o.key] = true
			case aObjStore:
				o.val = uniq(1) << 32
				if rng.Chance(1, 6) {
					o.val = 0
				}
			case aObjAdd:
				o.val = 1 << uint(uniq(1)%31)
			}
		default:
			if o.kind == sAppend {
				o.n = pickW(rng, []int{1, 6, 3, 1})
				o.val = uniq(o.n)
				o.off = rng.Intn(4)
				o.spare = rng.Intn(9)
				o.scribble = rng.Chance(3, 4)
				o.callerApp = rng.Chance(1, 2)
				o.shared = rng.Chance(1, 4)
			}
		}
		return o
	}
	var preHas [maxKeys]bool
	for i, n := 0, pickW(rng, []int{3, 3, 2, 1}); i < n; i++ {
		fk, fkey := -1, 0
		if hot && i == 0 {
			// make the hot key worth fighting over
			switch {
			case kind == "map" && (hotKind == mLoadAndDelete || hotKind == mDelete || hotKind == mLoad):
				fk, fkey = mStore, hotKey
			case kind == "atomic" && (hotKind == aObjAdd || hotKind == aObjLoad || hotKind == aObjStore):
				fk, fkey = aGetOrCreate, hotKey
			}
		}
		o := mk(&preHas, fk, fkey)
		o.pre = 0
		p.prefix = append(p.prefix, o)
	}
	for g := 0; g < nG; g++ {
		has := preHas
		var ops []pop
		for i, n := 0, rng.Range(1, 5); i < n; i++ {
			if hot && i == 0 {
				o := mk(&has, hotKind, hotKey)
				o.pre = 0
				ops = append(ops, o)
				continue
			}
			ops = append(ops, mk(&has, -1, 0))
		}
		p.gor = append(p.gor, ops)
	}
	// final observers: what the container reports once everything is quiet
	switch kind {
	case "map":
		p.post = []pop{{kind: mRange}, {kind: mLen}}
	case "atomic":
		p.post = []pop{{kind: aForEach}}
	default:
		p.post = []pop{{kind: sSlice}, {kind: sLen}}
	}
	return p
}

// genSnapshotProg builds a single-writer program for the "a walk is one
// snapshot" check. Prefix: every key gets its first version. Goroutine 0
// writes 3-5 times in a fixed key order with fresh versions (map: Store, now
// and then Delete or Clear; atomic: Delete+GetOrCreate pairs, i.e. a new
// object identity, or Clear). The other goroutines only observe: each opens
// with a slow walk (Range / ForEach whose callback dwells), the rest are
// observers of any kind.
func genSnapshotProg(kind string, rng *mon.RNG) *prog {
	p := &prog{kind: kind, nKeys: rng.Range(2, maxKeys), rounds: rng.Chance(1, 3), snapshot: true}
	next := int64(0)
	uniq := func() int64 { next++; return next }
	var writer []pop
	nW := rng.Range(3, 5)
	switch kind {
	case "map":
		for k := 0; k < p.nKeys; k++ {
			p.prefix = append(p.prefix, pop{kind: mStore, key: k, val: uniq()})
		}
		k := rng.Intn(p.nKeys)
		for i := 0; i < nW; i++ {
			o := pop{kind: mStore, key: k, val: uniq()}
			switch rng.Intn(8) {
			case 0:
				o = pop{kind: mDelete, key: k}
			case 1:
				o = pop{kind: mClear}
			case 2:
				o = pop{kind: mLoadAndDelete, key: k}
			}
			writer = append(writer, o)
			k = (k + 1) % p.nKeys
		}
		p.post = []pop{{kind: mRange}, {kind: mLen}}
	default:
		for k := 0; k < p.nKeys; k++ {
			p.prefix = append(p.prefix, pop{kind: aGetOrCreate, key: k, val: uniq() << 32})
		}
		k := rng.Intn(p.nKeys)
		for i := 0; i < nW; i++ {
			switch {
			case rng.Chance(1, 8):
				writer = append(writer, pop{kind: aClear})
			case i%2 == 0:
				writer = append(writer, pop{kind: aDelete, key: k})
			default:
				writer = append(writer, pop{kind: aGetOrCreate, key: k, val: uniq() << 32})
				k = (k + 1) % p.nKeys
			}
		}
		p.post = []pop{{kind: aForEach}}
	}
	p.gor = append(p.gor, writer)
	for g, nR := 0, rng.Range(1, 3); g < nR; g++ {
		var ops []pop
		for i, n := 0, rng.Range(1, 3); i < n; i++ {
			var o pop
			if kind == "map" {
				o = pop{kind: mRange, slow: i == 0 || rng.Chance(1, 2)}
				if i > 0 && rng.Chance(1, 2) {
					o = pop{kind: []int{mLoad, mLen, mKeys, mRangeFirst}[rng.Intn(4)], key: rng.Intn(p.nKeys)}
				}
			} else {
				o = pop{kind: aForEach, slow: i == 0 || rng.Chance(1, 2)}
				if i > 0 && rng.Chance(1, 3) {
					o = pop{kind: aGet, key: rng.Intn(p.nKeys)}
				}
			}
			ops = append(ops, o)
		}
		p.gor = append(p.gor, ops)
	}
	return p
}

// dwell is what a slow callback does after every entry: yield and wait until
// the history's clock has advanced by a few ticks (other clients called or
// returned) or the budget is used up. It never waits for a writer to FINISH:
// on the pinned library writers block behind the walk's read lock, their call
// stamp is all the clock gets.
func dwell(clk *atomic.Int64) {
	if clk == nil {
		return
	}
	start := clk.Load()
	for i := 0; i < dwellBudget && clk.Load() < start+6; i++ {
		runtime.Gosched()
	}
}

const dwellBudget = 150

// singleWriterOracle: in a snapshot program goroutine 0 (after the prefix) is
// the only client that changes the structure, so the structure only ever
// passes through the states S_0 (after the prefix), S_1, ..., S_n (after each
// of the writer's operations). Every reply to an observer must be correct
// for at least one of these states. (Real-time order is left to porcupine.)
func singleWriterOracle(p *prog, s sut, nG int, h []rawOp) (sig, msg string) {
	m := s.model()
	st := m.Init()
	nPre := len(p.prefix)
	seenPre := 0
	var states []any
	var writes []rawOp
	for _, r := range h {
		switch {
		case r.g == nG && seenPre < nPre:
			seenPre++
			_, st = m.Step(st, r.in, r.out)
		case r.g == 0:
			writes = append(writes, r)
		}
	}
	states = append(states, st)
	for _, r := range writes { // h is sorted by call stamp = program order within one goroutine
		_, st = m.Step(st, r.in, r.out)
		states = append(states, st)
	}
	seenPre = 0
	for _, r := range h {
		if r.g == 0 {
			continue
		}
		if r.g == nG && seenPre < nPre {
			seenPre++
			continue
		}
		ok := false
		for _, cand := range states {
			if legal, _ := m.Step(cand, r.in, r.out); legal {
				ok = true
				break
			}
		}
		if !ok {
			d := s.describe(r.in, r.out)
			name := d
			if i := strings.IndexAny(d, "( "); i > 0 {
				name = d[:i]
			}
			return "snapshot/" + p.kind + "/" + name + "/not-a-state-the-structure-ever-had",
				fmt.Sprintf("%s [%d,%d]: with g0 as the only writer the %s passes through %d states; the reply matches none of them", d, r.call, r.ret, p.kind, len(states))
		}
	}
	return "", ""
}

// ---------------------------------------------------------------- running

type rawOp struct {
	g         int
	call, ret int64
	in, out   any
	panicMsg  string
}

// sut is the real structure under test plus its sequential model.
type sut interface {
	exec(g int, op pop) (in, out any) // perform op on the real object for goroutine slot g
	fork(nG int)                      // the prefix is over: goroutine slots 0..nG-1 inherit the prefix's local state
	finish(h []rawOp) string          // post-process outputs (identity labelling); non-empty = harness limit hit
	attach(clk *atomic.Int64)         // the history's clock (slow callbacks watch it)
	model() porcupine.Model
	describe(in, out any) string
}

// job is one history in flight.
type job struct {
	p       *prog
	s       sut
	nG      int
	need    [5]int32
	ready   atomic.Int32
	arrived [5]atomic.Int32
	clk     atomic.Int64
	recs    [poolSize + 1][]rawOp // per goroutine slot; slot nG is the prefix
}

func newJob(p *prog, s sut) *job {
	j := &job{p: p, s: s, nG: len(p.gor)}
	s.attach(&j.clk)
	for _, ops := range p.gor {
		for i := range ops {
			j.need[i]++
		}
	}
	return j
}

func (j *job) do(g int, op pop) {
	for i := 0; i < op.pre; i++ {
		runtime.Gosched()
	}
	r := rawOp{g: g}
	func() {
		defer func() {
			if e := recover(); e != nil {
				r.panicMsg = fmt.Sprint(e)
				r.ret = j.clk.Add(1)
			}
		}()
		r.call = j.clk.Add(1)
		r.in, r.out = j.s.exec(g, op)
		r.ret = j.clk.Add(1)
	}()
	j.recs[g] = append(j.recs[g], r)
}

// history returns the recorded operations sorted by call stamp.
func (j *job) history() []rawOp {
	var h []rawOp
	for _, r := range j.recs {
		h = append(h, r...)
	}
	sort.Slice(h, func(a, b int) bool { return h[a].call < h[b].call })
	return h
}

const poolSize = 4

// pool is the set of client goroutines. They live as long as the process and
// stream through a whole batch of histories per hand-over: goroutines started
// (or woken) per history all begin on the starter's P and are only gradually
// picked up by other Ps, so most short histories would be over before two
// clients ever ran simultaneously. Within a batch the clients stay hot on
// their own Ps and meet at a start barrier per history (and per round in
// lock-step programs). Every barrier wait is a *bounded* spin: the barrier
// only serves to produce overlap, a history is valid whether or not the
// clients met, and an unbounded spin would stall for whole OS time slices
// whenever the machine is oversubscribed. Idle clients and the coordinator
// block on channels.
type pool struct {
	in   [poolSize]chan []*job
	done chan struct{}
}

var (
	thePool  *pool
	poolOnce sync.Once
)

func getPool() *pool {
	poolOnce.Do(func() {
		pl := &pool{done: make(chan struct{}, poolSize)}
		for w := 0; w < poolSize; w++ {
			pl.in[w] = make(chan []*job, 1)
			go pl.worker(w)
		}
		thePool = pl
	})
	return thePool
}

func (pl *pool) worker(w int) {
	for batch := range pl.in[w] {
		for _, j := range batch {
			if w >= j.nG {
				continue
			}
			j.ready.Add(1)
			spinBounded(&j.ready, int32(j.nG))
			for i, op := range j.p.gor[w] {
				if j.p.rounds {
					j.arrived[i].Add(1)
					spinBounded(&j.arrived[i], j.need[i])
				}
				j.do(w, op)
			}
		}
		pl.done <- struct{}{}
	}
}

// run executes the batch: prefixes first (sequentially, by the caller's
// goroutine), then all client goroutines stream through the jobs.
func (pl *pool) run(batch []*job) {
	for _, j := range batch {
		for _, op := range j.p.prefix {
			j.do(j.nG, op)
		}
		j.s.fork(j.nG)
	}
	for w := 0; w < poolSize; w++ {
		pl.in[w] <- batch
	}
	for w := 0; w < poolSize; w++ {
		<-pl.done
	}
	for _, j := range batch {
		for _, op := range j.p.post {
			j.do(j.nG, op)
		}
	}
}

// spinBounded waits until a >= need or the spin budget is used up, without
// yielding (a wait that yields is passed by goroutines taking turns on one P,
// i.e. without any parallelism).
func spinBounded(a *atomic.Int32, need int32) {
	for i := 0; i < spinBudget && a.Load() < need; i++ {
	}
}

const spinBudget = 2000

// overlaps returns the number of pairs of operations of different goroutines
// whose [call, return] intervals intersect.
func overlaps(h []rawOp) int {
	n := 0
	for i := range h {
		for j := i + 1; j < len(h); j++ {
			if h[i].g != h[j].g && h[i].call < h[j].ret && h[j].call < h[i].ret {
				n++
			}
		}
	}
	return n
}

// historyLines renders a history: client (pre = the sequential prefix),
// [call stamp, return stamp], operation and reply.
func historyLines(s sut, nG int, h []rawOp) []string {
	out := make([]string, 0, len(h))
	for _, r := range h {
		d := "<panic> " + r.panicMsg
		if r.panicMsg == "" {
			d = s.describe(r.in, r.out)
		}
		who := fmt.Sprintf("g%d", r.g)
		if r.g == nG {
			who = "pre"
		}
		out = append(out, fmt.Sprintf("%s [%d,%d] %s", who, r.call, r.ret, d))
	}
	return out
}

func toPorcupine(h []rawOp) []porcupine.Operation {
	ops := make([]porcupine.Operation, len(h))
	for i, r := range h {
		ops[i] = porcupine.Operation{ClientId: r.g, Input: r.in, Call: r.call, Output: r.out, Return: r.ret}
	}
	return ops
}

const linTimeout = 60 * time.Second

// linStats accumulates per-group counters (flushed once per group).
type linStats struct {
	kind                                   string
	hist, overlapping, pairs, ops, rounded int
	snapshot, slowWalks, writesDuringWalk  int
	opKinds                                map[string]int
}

func (ls *linStats) flush() {
	pre := "lin." + ls.kind + "."
	rec.Count(pre+"histories", ls.hist)
	rec.Count(pre+"overlapping_histories", ls.overlapping)
	rec.Count(pre+"concurrent_pairs", ls.pairs)
	rec.Count(pre+"ops", ls.ops)
	if ls.kind != "slice" {
		rec.Count(pre+"snapshot.single_writer_histories", ls.snapshot)
		rec.Count(pre+"snapshot.slow_walks", ls.slowWalks)
		rec.Count(pre+"snapshot.writes_attempted_during_a_slow_walk", ls.writesDuringWalk)
	}
	for k, v := range ls.opKinds {
		rec.Count(pre+"op."+k, v)
	}
}

func newSUT(kind string) sut {
	switch kind {
	case "map":
		return &mapSUT{m: cmap.NewMap[string, int64]()}
	case "atomic":
		return &atomSUT{a: cmap.NewAtomic[string, int64]()}
	}
	return &sliceSUT{s: kslice.New[int64](), s2: kslice.New[int64]()}
}

func runLinGroup(idx int, g group) {
	ls := &linStats{kind: g.kind, opKinds: map[string]int{}}
	defer ls.flush()
	batch := make([]*job, g.n)
	for sub := range batch {
		rng := mon.NewRNG("c14-lin-"+g.kind, idx*4096+sub)
		p := genProg(g.kind, rng)
		if g.kind != "slice" && sub%5 == 4 {
			// every fifth history is a single-writer program with slow walks
			p = genSnapshotProg(g.kind, mon.NewRNG("c14-snapshot-"+g.kind, idx*4096+sub))
		}
		batch[sub] = newJob(p, newSUT(g.kind))
	}
	getPool().run(batch)
	rec.Progress()
	for sub, j := range batch {
		p, s := j.p, j.s
		h := j.history()
		text := p.String()
		replay := func() map[string]any {
			return map[string]any{"structure": g.kind, "seed": mon.Seed(), "group": idx, "sub": sub, "program": text, "history": historyLines(s, j.nG, h)}
		}
		panicked := false
		for _, r := range h {
			if r.panicMsg != "" {
				panicked = true
				s.finish(h)
				rec.Violation(idx, "lin/"+g.kind+"/panic", "an operation panicked: "+r.panicMsg, replay())
				break
			}
		}
		if panicked {
			continue
		}
		if lim := s.finish(h); lim != "" {
			rec.Inconclusive(idx, "harness limit: "+lim, text)
			continue
		}
		ov := overlaps(h)
		if p.snapshot {
			if sig, msg := singleWriterOracle(p, s, j.nG, h); sig != "" {
				rec.Violation(idx, sig, msg, replay())
				continue
			}
			ls.snapshot++
			// how often a write was attempted (call stamp) while a slow walk was in progress
			for _, r := range h {
				if slowWalk(r) {
					ls.slowWalks++
					for _, w := range h {
						if w.g == 0 && w.call > r.call && w.call < r.ret {
							ls.writesDuringWalk++
						}
					}
				}
			}
		}
		res := porcupine.CheckOperationsTimeout(s.model(), toPorcupine(h), linTimeout)
		switch res {
		case porcupine.Unknown:
			rec.Inconclusive(idx, "porcupine: Unknown (checker timeout)", replay())
			continue
		case porcupine.Illegal:
			rp := replay()
			_, info := porcupine.CheckOperationsVerbose(s.model(), toPorcupine(h), linTimeout)
			if pl := info.PartialLinearizations(); len(pl) > 0 && len(pl[0]) > 0 {
				best := pl[0][0]
				for _, l := range pl[0] {
					if len(l) > len(best) {
						best = l
					}
				}
				rp["longest_partial_linearization_(history_line_numbers_from_0)"] = best
			}
			sig, what := "lin/"+g.kind+"/not-linearizable", ""
			if bad := malformed(h); bad != "" {
				sig, what = "lin/"+g.kind+"/malformed-reply", "; a reply is impossible for any state: "+bad
				if g.kind == "slice" {
					sig = "lin/slice/value-never-appended"
				}
			}
			rec.Violation(idx, sig,
				fmt.Sprintf("no sequential %s history respecting real-time order explains the recorded returns (%d ops, %d overlapping pairs)%s", g.kind, len(h), ov, what), rp)
			continue
		}
		ls.hist++
		ls.ops += len(h)
		ls.pairs += ov
		if ov > 0 {
			ls.overlapping++
		}
		for _, ops := range append([][]pop{p.prefix, p.post}, p.gor...) {
			for _, o := range ops {
				ls.opKinds[opName(g.kind, o.kind)]++
				if g.kind == "slice" && o.kind == sAppend {
					if o.scribble {
						ls.opKinds["Append.arg_overwritten_after_call"]++
					}
					if o.callerApp && o.spare > 0 {
						ls.opKinds["Append.arg_appended_to_by_caller"]++
					}
					if o.shared {
						ls.opKinds["Append.arg_shared_with_second_instance"]++
					}
					if o.spare > 0 {
						ls.opKinds["Append.arg_with_spare_capacity"]++
					}
				}
			}
		}
		rec.Case(idx, text, ov > 0)
		if ov > 2 && sub == 3 && rec.WantSample() {
			rec.Sample(map[string]any{"structure": g.kind, "program": text, "history": historyLines(s, j.nG, h), "overlapping_pairs": ov, "verdict": "linearizable"})
		}
	}
}

// slowWalk reports whether r is a Range / ForEach with a dwelling callback.
func slowWalk(r rawOp) bool {
	switch in := r.in.(type) {
	case mapIn:
		return in.slow
	case atomIn:
		return in.slow
	}
	return false
}

// malformed returns the first reply of h that no state of the model could
// produce (foreign or duplicate key, a value that was never written).
func malformed(h []rawOp) string {
	for _, r := range h {
		switch o := r.out.(type) {
		case mapOut:
			if o.bad != "" {
				return o.bad
			}
		case atomOut:
			if o.bad != "" {
				return o.bad
			}
		case sliceOut:
			if o.bad != "" {
				return o.bad
			}
		}
	}
	return ""
}

// ---------------------------------------------------------------- cmap.Map

type mapIn struct {
	op, key int
	val     int64
	slow    bool
}

type mapOut struct {
	val  int64
	ok   bool
	n    int
	key  int
	mask uint8
	snap [maxKeys]int64
	bad  string // malformed reply (duplicate / foreign key, callback after stop)
}

type mapState struct {
	mask uint8
	v    [maxKeys]int64
}

func popcount(m uint8) int {
	n := 0
	for ; m != 0; m &= m - 1 {
		n++
	}
	return n
}

type mapSUT struct {
	m   cmap.Map[string, int64]
	clk *atomic.Int64
}

func (s *mapSUT) fork(int) {}

func (s *mapSUT) attach(clk *atomic.Int64) { s.clk = clk }

func (s *mapSUT) finish([]rawOp) string { return "" }

func (s *mapSUT) exec(_ int, op pop) (any, any) {
	in := mapIn{op: op.kind, key: op.key, val: op.val, slow: op.slow}
	var o mapOut
	k := keyNames[op.key]
	switch op.kind {
	case mStore:
		s.m.Store(k, op.val)
	case mLoad:
		o.val, o.ok = s.m.Load(k)
	case mDelete:
		s.m.Delete(k)
	case mLoadAndDelete:
		o.val, o.ok = s.m.LoadAndDelete(k)
	case mLen:
		o.n = s.m.Len()
	case mKeys:
		for _, kk := range s.m.Keys() {
			i := keyIdx(kk)
			switch {
			case i < 0:
				o.bad = "foreign key " + kk
			case o.mask&(1<<uint(i)) != 0:
				o.bad = "duplicate key " + kk
			default:
				o.mask |= 1 << uint(i)
			}
		}
	case mRange:
		s.m.Range(func(kk string, v int64) bool {
			i := keyIdx(kk)
			switch {
			case i < 0:
				o.bad = "foreign key " + kk
			case o.mask&(1<<uint(i)) != 0:
				o.bad = "duplicate key " + kk
			default:
				o.mask |= 1 << uint(i)
				o.snap[i] = v
			}
			if op.slow {
				dwell(s.clk)
			}
			return true
		})
	case mRangeFirst:
		s.m.Range(func(kk string, v int64) bool {
			o.n++
			if o.n > 1 {
				o.bad = "callback invoked again after it returned false"
				return false
			}
			o.key, o.val = keyIdx(kk), v
			if o.key < 0 {
				o.bad = "foreign key " + kk
			}
			return false
		})
	case mClear:
		s.m.Clear()
	}
	return in, o
}

func (s *mapSUT) model() porcupine.Model {
	return porcupine.Model{
		Init: func() any { return mapState{} },
		Step: func(state, input, output any) (bool, any) {
			st, in, out := state.(mapState), input.(mapIn), output.(mapOut)
			if out.bad != "" {
				return false, st
			}
			bit := uint8(1) << uint(in.key)
			switch in.op {
			case mStore:
				st.mask |= bit
				st.v[in.key] = in.val
				return true, st
			case mLoad:
				return out.ok == (st.mask&bit != 0) && out.val == st.v[in.key], st
			case mDelete:
				st.mask &^= bit
				st.v[in.key] = 0
				return true, st
			case mLoadAndDelete:
				ok := out.ok == (st.mask&bit != 0) && out.val == st.v[in.key]
				st.mask &^= bit
				st.v[in.key] = 0
				return ok, st
			case mLen:
				return out.n == popcount(st.mask), st
			case mKeys:
				return out.mask == st.mask, st
			case mRange:
				return out.mask == st.mask && out.snap == st.v, st
			case mRangeFirst:
				if st.mask == 0 {
					return out.n == 0, st
				}
				return out.n == 1 && st.mask&(1<<uint(out.key)) != 0 && st.v[out.key] == out.val, st
			case mClear:
				return true, mapState{}
			}
			return false, st
		},
	}
}

func (s *mapSUT) describe(input, output any) string {
	in, out := input.(mapIn), output.(mapOut)
	k := keyShow[in.key]
	bad := ""
	if out.bad != "" {
		bad = " MALFORMED: " + out.bad
	}
	switch in.op {
	case mStore:
		return fmt.Sprintf("Store(%s,%d)", k, in.val)
	case mLoad:
		return fmt.Sprintf("Load(%s) = %d,%v", k, out.val, out.ok)
	case mDelete:
		return fmt.Sprintf("Delete(%s)", k)
	case mLoadAndDelete:
		return fmt.Sprintf("LoadAndDelete(%s) = %d,%v", k, out.val, out.ok)
	case mLen:
		return fmt.Sprintf("Len() = %d", out.n)
	case mKeys:
		return fmt.Sprintf("Keys() = %s%s", maskStr(out.mask), bad)
	case mRange:
		var parts []string
		for i := 0; i < maxKeys; i++ {
			if out.mask&(1<<uint(i)) != 0 {
				parts = append(parts, fmt.Sprintf("%s=%d", keyShow[i], out.snap[i]))
			}
		}
		if in.slow {
			return fmt.Sprintf("Range(slow callback) = {%s}%s", strings.Join(parts, " "), bad)
		}
		return fmt.Sprintf("Range() = {%s}%s", strings.Join(parts, " "), bad)
	case mRangeFirst:
		if out.n == 0 {
			return "Range(stop at first) = nothing" + bad
		}
		kk := "?"
		if out.key >= 0 {
			kk = keyShow[out.key]
		}
		return fmt.Sprintf("Range(stop at first) = %s=%d%s", kk, out.val, bad)
	}
	return "Clear()"
}

func maskStr(m uint8) string {
	var parts []string
	for i := 0; i < maxKeys; i++ {
		if m&(1<<uint(i)) != 0 {
			parts = append(parts, keyShow[i])
		}
	}
	return "{" + strings.Join(parts, " ") + "}"
}

// ---------------------------------------------------------------- cmap.Atomic

type av = cmap.AtomicValue[int64]

const maxObjs = 24

type atomIn struct {
	op, key int
	val     int64
	ptr     *av // object the obj.* operation was applied to
	obj     int // its identity label (filled by finish)
	slow    bool
}

type atomOut struct {
	ptr  *av
	obj  int // identity label of ptr, -1 = nil (filled by finish)
	ok   bool
	val  int64
	mask uint8
	ptrs [maxKeys]*av
	objs [maxKeys]int8 // label+1 per key, 0 = absent (filled by finish)
	bad  string
}

type atomState struct {
	keys    [maxKeys]int8 // object label+1, 0 = absent
	created uint32
	vals    [maxObjs]int64
}

type atomSUT struct {
	a     cmap.Atomic[string, int64]
	local [5][maxKeys]*av // per goroutine slot: the object last obtained for each key
	clk   *atomic.Int64
}

func (s *atomSUT) attach(clk *atomic.Int64) { s.clk = clk }

func (s *atomSUT) fork(nG int) {
	for g := 0; g < nG; g++ {
		s.local[g] = s.local[nG]
	}
}

func (s *atomSUT) exec(g int, op pop) (any, any) {
	in := atomIn{op: op.kind, key: op.key, val: op.val, obj: -1, slow: op.slow}
	o := atomOut{obj: -1}
	k := keyNames[op.key]
	switch op.kind {
	case aGetOrCreate:
		o.ptr = s.a.GetOrCreate(k, op.val)
		s.local[g][op.key] = o.ptr
	case aGet:
		o.ptr, o.ok = s.a.Get(k)
		if o.ok && o.ptr != nil {
			s.local[g][op.key] = o.ptr
		}
	case aObjAdd:
		in.ptr = s.local[g][op.key]
		o.val = in.ptr.Add(op.val)
	case aObjLoad:
		in.ptr = s.local[g][op.key]
		o.val = in.ptr.Load()
	case aObjStore:
		in.ptr = s.local[g][op.key]
		in.ptr.Store(op.val)
	case aDelete:
		s.a.Delete(k)
	case aForEach:
		s.a.ForEach(func(kk string, v *av) {
			i := keyIdx(kk)
			switch {
			case i < 0:
				o.bad = "foreign key " + kk
			case o.mask&(1<<uint(i)) != 0:
				o.bad = "duplicate key " + kk
			case v == nil:
				o.bad = "nil value for key " + kk
			default:
				o.mask |= 1 << uint(i)
				o.ptrs[i] = v
			}
			if op.slow {
				dwell(s.clk)
			}
		})
	case aClear:
		s.a.Clear()
	}
	return in, o
}

// finish labels object identities 0,1,2,... in order of first appearance in
// the history (sorted by call stamp).
func (s *atomSUT) finish(h []rawOp) string {
	ids := map[*av]int{}
	label := func(p *av) int {
		if p == nil {
			return -1
		}
		id, ok := ids[p]
		if !ok {
			id = len(ids)
			ids[p] = id
		}
		return id
	}
	for i := range h {
		if h[i].panicMsg != "" {
			continue
		}
		in, out := h[i].in.(atomIn), h[i].out.(atomOut)
		in.obj = label(in.ptr)
		out.obj = label(out.ptr)
		for k := 0; k < maxKeys; k++ {
			out.objs[k] = int8(label(out.ptrs[k]) + 1)
		}
		h[i].in, h[i].out = in, out
	}
	if len(ids) > maxObjs {
		return fmt.Sprintf("%d distinct objects in one history (model holds %d)", len(ids), maxObjs)
	}
	return ""
}

func (s *atomSUT) model() porcupine.Model {
	return porcupine.Model{
		Init: func() any { return atomState{} },
		Step: func(state, input, output any) (bool, any) {
			st, in, out := state.(atomState), input.(atomIn), output.(atomOut)
			if out.bad != "" {
				return false, st
			}
			has := func(obj int) bool { return obj >= 0 && st.created&(1<<uint(obj)) != 0 }
			switch in.op {
			case aGetOrCreate:
				if out.obj < 0 {
					return false, st
				}
				if cur := st.keys[in.key]; cur != 0 {
					return int(cur)-1 == out.obj, st
				}
				if has(out.obj) { // must be a fresh identity
					return false, st
				}
				st.keys[in.key] = int8(out.obj + 1)
				st.created |= 1 << uint(out.obj)
				st.vals[out.obj] = in.val
				return true, st
			case aGet:
				if cur := st.keys[in.key]; cur != 0 {
					return out.ok && int(cur)-1 == out.obj, st
				}
				return !out.ok && out.obj < 0, st
			case aObjAdd:
				if !has(in.obj) {
					return false, st
				}
				st.vals[in.obj] += in.val
				return out.val == st.vals[in.obj], st
			case aObjLoad:
				return has(in.obj) && out.val == st.vals[in.obj], st
			case aObjStore:
				if !has(in.obj) {
					return false, st
				}
				st.vals[in.obj] = in.val
				return true, st
			case aDelete:
				st.keys[in.key] = 0
				return true, st
			case aForEach:
				return out.objs == st.keys, st
			case aClear:
				st.keys = [maxKeys]int8{}
				return true, st
			}
			return false, st
		},
	}
}

func fmtVal(v int64) string {
	if v>>32 != 0 {
		if v&0xffffffff == 0 {
			return fmt.Sprintf("%d*2^32", v>>32)
		}
		return fmt.Sprintf("%d*2^32+%#x", v>>32, v&0xffffffff)
	}
	return fmt.Sprintf("%#x", v)
}

func (s *atomSUT) describe(input, output any) string {
	in, out := input.(atomIn), output.(atomOut)
	k := keyShow[in.key]
	switch in.op {
	case aGetOrCreate:
		return fmt.Sprintf("GetOrCreate(%s,%s) = obj%d", k, fmtVal(in.val), out.obj)
	case aGet:
		return fmt.Sprintf("Get(%s) = obj%d,%v", k, out.obj, out.ok)
	case aObjAdd:
		return fmt.Sprintf("obj%d.Add(%s) = %s", in.obj, fmtVal(in.val), fmtVal(out.val))
	case aObjLoad:
		return fmt.Sprintf("obj%d.Load() = %s", in.obj, fmtVal(out.val))
	case aObjStore:
		return fmt.Sprintf("obj%d.Store(%s)", in.obj, fmtVal(in.val))
	case aDelete:
		return fmt.Sprintf("Delete(%s)", k)
	case aForEach:
		var parts []string
		for i := 0; i < maxKeys; i++ {
			if out.objs[i] != 0 {
				parts = append(parts, fmt.Sprintf("%s=obj%d", keyShow[i], out.objs[i]-1))
			}
		}
		bad := ""
		if out.bad != "" {
			bad = " MALFORMED: " + out.bad
		}
		if in.slow {
			return fmt.Sprintf("ForEach(slow callback) = {%s}%s", strings.Join(parts, " "), bad)
		}
		return fmt.Sprintf("ForEach() = {%s}%s", strings.Join(parts, " "), bad)
	}
	return "Clear()"
}

// ---------------------------------------------------------------- slice

type sliceIn struct {
	op    int
	items string // one byte per appended value
}

type sliceOut struct {
	n    int
	snap string
	bad  string
}

// sliceSUT: s is the instance under test; s2 is a second instance that is fed
// some of the same argument slices (not judged itself: it exists so that a
// container that keeps its argument would share memory with another one).
type sliceSUT struct {
	s, s2 kslice.Slice[int64]
	bufs  [poolSize + 1][]int64 // per goroutine slot: the caller's re-used buffer
}

const sliceBufLen = 3 + 3 + 8 + 1 // max offset + max items + max spare + one guard element

func (s *sliceSUT) fork(int) {}

func (s *sliceSUT) attach(*atomic.Int64) {}

func (s *sliceSUT) finish([]rawOp) string { return "" }

// garbage values are negative, so they can never be mistaken for an appended
// value (those are 1..255).
const garbage = -1000

func (s *sliceSUT) exec(g int, op pop) (any, any) {
	in := sliceIn{op: op.kind}
	var o sliceOut
	switch op.kind {
	case sAppend:
		// caller-owned argument: a window of the goroutine's re-used buffer with
		// op.spare elements of extra capacity, everything around it garbage
		buf := s.bufs[g]
		if buf == nil {
			buf = make([]int64, sliceBufLen)
			s.bufs[g] = buf
		}
		for i := range buf {
			buf[i] = garbage - int64(i)
		}
		items := buf[op.off : op.off+op.n : op.off+op.n+op.spare]
		b := make([]byte, op.n)
		for i := range items {
			items[i] = op.val + int64(i)
			b[i] = byte(items[i])
		}
		in.items = string(b)
		o.n = s.s.Append(items...)
		// the arguments were the caller's: what it does with them afterwards is
		// none of the container's business
		if op.shared {
			s.s2.Append(items...)
		}
		if op.scribble {
			for i := range items {
				items[i] = garbage - 100 - int64(i)
			}
		}
		if op.callerApp {
			x := append(items, garbage-200) // in place while there is spare capacity
			_ = append(x, garbage-201)
		}
	case sLen:
		o.n = s.s.Len()
	case sSlice:
		got := s.s.Slice()
		b := make([]byte, len(got))
		for i, v := range got {
			if v <= 0 || v > 255 {
				o.bad = fmt.Sprintf("Slice()[%d] = %d was never appended", i, v)
			}
			b[i] = byte(v)
		}
		o.snap = string(b)
	}
	return in, o
}

func (s *sliceSUT) model() porcupine.Model {
	return porcupine.Model{
		Init: func() any { return "" },
		Step: func(state, input, output any) (bool, any) {
			st, in, out := state.(string), input.(sliceIn), output.(sliceOut)
			if out.bad != "" {
				return false, st
			}
			switch in.op {
			case sAppend:
				st += in.items
				return out.n == len(st), st
			case sLen:
				return out.n == len(st), st
			case sSlice:
				return out.snap == st, st
			}
			return false, st
		},
	}
}

func (s *sliceSUT) describe(input, output any) string {
	in, out := input.(sliceIn), output.(sliceOut)
	switch in.op {
	case sAppend:
		return fmt.Sprintf("Append(%v) = %d", []byte(in.items), out.n)
	case sLen:
		return fmt.Sprintf("Len() = %d", out.n)
	}
	bad := ""
	if out.bad != "" {
		bad = " MALFORMED: " + out.bad
	}
	return fmt.Sprintf("Slice() = %v%s", []byte(out.snap), bad)
}

// ---------------------------------------------------------------- model self-test

// selfTestModels feeds each model one hand-written legal and one illegal
// history; a model that cannot tell them apart is a broken monitor.
func selfTestModels() string {
	op := func(g int, in, out any, call, ret int64) porcupine.Operation {
		return porcupine.Operation{ClientId: g, Input: in, Output: out, Call: call, Return: ret}
	}
	chk := func(m porcupine.Model, h []porcupine.Operation) porcupine.CheckResult {
		return porcupine.CheckOperationsTimeout(m, h, linTimeout)
	}
	ms := (&mapSUT{}).model()
	// Store(a,1) overlapping LoadAndDelete(a)->1,true; a later Load(a) must miss
	legal := []porcupine.Operation{
		op(0, mapIn{op: mStore, key: 0, val: 1}, mapOut{}, 1, 4),
		op(1, mapIn{op: mLoadAndDelete, key: 0, val: 0}, mapOut{val: 1, ok: true}, 2, 3),
		op(0, mapIn{op: mLoad, key: 0, val: 0}, mapOut{}, 5, 6),
		op(1, mapIn{op: mLen, key: 0, val: 0}, mapOut{n: 0}, 7, 8),
	}
	if chk(ms, legal) != porcupine.Ok {
		return "map model rejects a legal history"
	}
	// two LoadAndDelete both obtain the stored value
	illegal := []porcupine.Operation{
		op(0, mapIn{op: mStore, key: 0, val: 1}, mapOut{}, 1, 2),
		op(0, mapIn{op: mLoadAndDelete, key: 0, val: 0}, mapOut{val: 1, ok: true}, 3, 6),
		op(1, mapIn{op: mLoadAndDelete, key: 0, val: 0}, mapOut{val: 1, ok: true}, 4, 5),
	}
	if chk(ms, illegal) != porcupine.Illegal {
		return "map model accepts a double LoadAndDelete"
	}
	// stale read after a completed Store
	illegal = []porcupine.Operation{
		op(0, mapIn{op: mStore, key: 0, val: 1}, mapOut{}, 1, 2),
		op(1, mapIn{op: mRange, key: 0, val: 0}, mapOut{}, 3, 4),
	}
	if chk(ms, illegal) != porcupine.Illegal {
		return "map model accepts a stale Range"
	}
	as := (&atomSUT{}).model()
	legal = []porcupine.Operation{
		op(0, atomIn{op: aGetOrCreate, key: 0, val: 5 << 32}, atomOut{obj: 0}, 1, 4),
		op(1, atomIn{op: aGetOrCreate, key: 0, val: 6 << 32}, atomOut{obj: 0}, 2, 3),
		op(0, atomIn{op: aObjAdd, val: 1, obj: 0}, atomOut{obj: -1, val: 5<<32 + 1}, 5, 8),
		op(1, atomIn{op: aObjAdd, val: 2, obj: 0}, atomOut{obj: -1, val: 5<<32 + 3}, 6, 7),
	}
	if chk(as, legal) != porcupine.Ok {
		return "atomic model rejects a legal history"
	}
	// two concurrent GetOrCreate of one key obtain different objects
	illegal = []porcupine.Operation{
		op(0, atomIn{op: aGetOrCreate, key: 0, val: 5 << 32}, atomOut{obj: 0}, 1, 4),
		op(1, atomIn{op: aGetOrCreate, key: 0, val: 6 << 32}, atomOut{obj: 1}, 2, 3),
	}
	if chk(as, illegal) != porcupine.Illegal {
		return "atomic model accepts two objects for one key"
	}
	// lost update
	illegal = []porcupine.Operation{
		op(0, atomIn{op: aGetOrCreate, key: 0, val: 5 << 32}, atomOut{obj: 0}, 1, 2),
		op(0, atomIn{op: aObjAdd, val: 1, obj: 0}, atomOut{obj: -1, val: 5<<32 + 1}, 3, 6),
		op(1, atomIn{op: aObjAdd, val: 2, obj: 0}, atomOut{obj: -1, val: 5<<32 + 2}, 4, 5),
	}
	if chk(as, illegal) != porcupine.Illegal {
		return "atomic model accepts a lost update"
	}
	ss := (&sliceSUT{}).model()
	legal = []porcupine.Operation{
		op(0, sliceIn{sAppend, "\x01"}, sliceOut{n: 2}, 1, 4),
		op(1, sliceIn{sAppend, "\x02"}, sliceOut{n: 1}, 2, 3),
		op(1, sliceIn{sSlice, ""}, sliceOut{snap: "\x02\x01"}, 5, 6),
	}
	if chk(ss, legal) != porcupine.Ok {
		return "slice model rejects a legal history"
	}
	illegal = []porcupine.Operation{
		op(0, sliceIn{sAppend, "\x01"}, sliceOut{n: 1}, 1, 4),
		op(1, sliceIn{sAppend, "\x02"}, sliceOut{n: 1}, 2, 3),
	}
	if chk(ss, illegal) != porcupine.Illegal {
		return "slice model accepts two appends returning the same length"
	}
	return ""
}
