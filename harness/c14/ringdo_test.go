package c14

import (
	cring "container/ring"
	"fmt"
	"slices"

	kring "github.com/dapr/kit/ring"

	"verif/harness/internal/mon"
)

// Do with a callback that works on the ring it is walking (Move, Unlink of
// the successor, Link of a fresh element behind the visited one). The
// documentation leaves this undefined, so the only reference is container/ring
// running the very same callback: visits, termination and the resulting
// structure must correspond. A walk that does not terminate in the reference
// either (visit budget) is skipped.

type doAbort struct{}

func (w *ringWorld) doReentrant(rng *mon.RNG) *ringFail {
	h := -1
	for t := 0; t < 8 && len(w.hk) > 0; t++ {
		if c := rng.Intn(len(w.hk)); w.hk[c] != nil {
			h = c
			break
		}
	}
	if h < 0 {
		return nil
	}
	mode, k := rng.Intn(3), rng.Range(1, 3)
	modeName := [...]string{"Move(2)", "Unlink(1)", "Link(New(1))"}[mode]
	w.trace = append(w.trace, tent{note: fmt.Sprintf("h%d.Do(callback: %s on the visited element, first %d visits)", h, modeName, k)})
	base := len(w.k)
	limit := 3*base + 8
	var visK, visS []int
	var newK []*kElem
	var newS []*cring.Ring
	run := func(f func()) (aborted bool, pan any) {
		defer func() {
			if e := recover(); e != nil {
				if _, ok := e.(doAbort); ok {
					aborted = true
				} else {
					pan = e
				}
			}
		}()
		f()
		return
	}
	abK, panK := run(func() {
		w.hk[h].Do(func(v int) {
			if len(visK) >= limit {
				panic(doAbort{})
			}
			visK = append(visK, v)
			if len(visK) > k || v < 0 || v >= base+len(newK) {
				return
			}
			var e *kElem
			if v < base {
				e = w.k[v]
			} else {
				e = newK[v-base]
			}
			switch mode {
			case 0:
				_ = e.Move(2)
			case 1:
				e.Unlink(1)
			default:
				n := kring.New[int](1)
				n.Value = base + len(newK)
				newK = append(newK, n)
				e.Link(n)
			}
		})
	})
	abS, panS := run(func() {
		w.hs[h].Do(func(x any) {
			if len(visS) >= limit {
				panic(doAbort{})
			}
			v, _ := x.(int)
			visS = append(visS, v)
			if len(visS) > k || v < 0 || v >= base+len(newS) {
				return
			}
			var e *cring.Ring
			if v < base {
				e = w.s[v]
			} else {
				e = newS[v-base]
			}
			switch mode {
			case 0:
				_ = e.Move(2)
			case 1:
				e.Unlink(1)
			default:
				n := cring.New(1)
				n.Value = base + len(newS)
				newS = append(newS, n)
				e.Link(n)
			}
		})
	})
	for i := 0; i < len(newK) && i < len(newS); i++ {
		w.register(newK[i], newS[i])
	}
	switch {
	case panK != nil && panS == nil:
		return &ringFail{"ring/Do-reentrant/panic", fmt.Sprintf("Do with a %s callback panicked: %v (container/ring did not)", modeName, panK)}
	case panK != nil || panS != nil:
		w.doSkipped++
		return nil
	case abK && abS:
		w.doSkipped++ // does not terminate in the reference either
		return nil
	case abK != abS:
		return &ringFail{"ring/Do-reentrant/termination-differs", fmt.Sprintf("Do with a %s callback: exceeded %d visits=%v, container/ring exceeded=%v", modeName, limit, abK, abS)}
	case !slices.Equal(visK, visS):
		return &ringFail{"ring/Do-reentrant/visits-differ", fmt.Sprintf("Do with a %s callback visited %v, container/ring %v", modeName, visK, visS)}
	case len(newK) != len(newS):
		return &ringFail{"ring/Do-reentrant/visits-differ", "different number of callback actions"}
	}
	w.doReent++
	return w.iso("Do-reentrant")
}
