package c05

import (
	"fmt"
	"strings"
	"testing"
	"time"

	"github.com/dapr/kit/cron"

	"verif/harness/internal/mon"
	"verif/harness/internal/vclock"
)

// ---- the reference scheduler (built on the REAL Schedule.Next of each entry)

type rEnt struct {
	e          *ent
	next, prev time.Time
}

type skey struct {
	h  int
	at int64
}

type refModel struct {
	running bool
	ents    []*rEnt
	gone    map[int]bool
	diff    map[skey]int // predicted minus observed job starts
	pred    map[skey]int // predicted job starts
	seen    int          // observed starts consumed
	npred   int
}

func newRef() *refModel {
	return &refModel{gone: map[int]bool{}, diff: map[skey]int{}, pred: map[skey]int{}}
}

func (m *refModel) bump(k skey, d int) {
	m.diff[k] += d
	if m.diff[k] == 0 {
		delete(m.diff, k)
	}
}

// add: while running Next is computed at the add instant, while stopped it stays zero until Start.
func (m *refModel) add(e *ent, now time.Time) {
	r := &rEnt{e: e}
	if m.running {
		r.next = e.sched.Next(now)
	}
	m.ents = append(m.ents, r)
}

func (m *refModel) find(id cron.EntryID) *rEnt {
	for _, r := range m.ents {
		if r.e.id == id {
			return r
		}
	}
	return nil
}

func (m *refModel) remove(id cron.EntryID) {
	for i, r := range m.ents {
		if r.e.id == id {
			m.gone[r.e.h] = true
			m.ents = append(m.ents[:i:i], m.ents[i+1:]...)
			return
		}
	}
}

// start: everything is recomputed from the (re)start instant; Prev is kept.
func (m *refModel) start(now time.Time) (recomputed int) {
	if m.running {
		return 0
	}
	m.running = true
	for _, r := range m.ents {
		n := r.e.sched.Next(now)
		if !r.next.IsZero() && !n.Equal(r.next) {
			recomputed++
		}
		r.next = n
	}
	return recomputed
}

func (m *refModel) stop() { m.running = false }

func (m *refModel) minNext() time.Time {
	var min time.Time
	if !m.running {
		return min
	}
	for _, r := range m.ents {
		if !r.next.IsZero() && (min.IsZero() || r.next.Before(min)) {
			min = r.next
		}
	}
	return min
}

// wake at now: every entry with next <= now starts once, prev = next, next = S.Next(now).
func (m *refModel) wake(now time.Time) (started, skipped int) {
	for _, r := range m.ents {
		if r.next.IsZero() || r.next.After(now) {
			continue
		}
		if !r.e.sched.Next(r.next).After(now) {
			skipped++ // the clock jumped over more than one activation of this entry
		}
		m.bump(skey{r.e.h, now.UnixNano()}, 1)
		m.pred[skey{r.e.h, now.UnixNano()}]++
		m.npred++
		started++
		r.prev = r.next
		r.next = r.e.sched.Next(now)
	}
	return
}

// advance on continuous time: one wake at every earliest Next up to t.
func (m *refModel) advance(t time.Time) {
	for {
		n := m.minNext()
		if n.IsZero() || n.After(t) {
			return
		}
		m.wake(n)
	}
}

// jump: the clock is set to t in one step: one wake (at t) if anything is due.
func (m *refModel) jump(t time.Time) (started, skipped int) {
	n := m.minNext()
	if n.IsZero() || n.After(t) {
		return 0, 0
	}
	return m.wake(t)
}

// ---- abstract operations of a lock-step history

type lop struct {
	Kind string // add rm entries entry start stop restart release sleep
	Spec schedSpec
	K    int           // rm/entry: index into the entries added so far (mod n); -1: unknown id
	How  string        // sleep: exact between past dur
	D    time.Duration // sleep: dur / offset past
	// jump mode: park the scheduler at "arm" right after the wake-up of this
	// step and issue this operation meanwhile (entries | stop | rm-last | add)
	Place string
	// hold the scheduler goroutine in the logger on this message, which this
	// operation provokes ("stop": for the next Hold operations; other messages:
	// while the next operation is issued, within the same instant)
	ParkLog string
	Hold    int
}

func (o lop) String() string {
	switch o.Kind {
	case "add":
		return "add(" + o.Spec.String() + ")" + parkStr(o)
	case "rm":
		return fmt.Sprintf("rm(%d)%s", o.K, parkStr(o))
	case "entry":
		return fmt.Sprintf("%s(%d)", o.Kind, o.K)
	case "start":
		if o.How == "run" {
			return "go-run" + parkStr(o)
		}
		return "start" + parkStr(o)
	case "stop":
		return "stop" + parkStr(o)
	case "restart":
		if o.How == "run" {
			return "restart(go-run)"
		}
		return "restart"
	case "sleep":
		if o.ParkLog != "" {
			return fmt.Sprintf("sleep(%s,%v)%s", o.How, o.D, parkStr(o))
		}
		if o.Place != "" {
			return fmt.Sprintf("sleep(%s,%v)+%s@arm", o.How, o.D, o.Place)
		}
		return fmt.Sprintf("sleep(%s,%v)", o.How, o.D)
	}
	return o.Kind
}

func parkStr(o lop) string {
	if o.ParkLog == "" {
		return ""
	}
	if o.ParkLog == "stop" {
		return fmt.Sprintf("{hold-on-stop:%d}", o.Hold)
	}
	return "{hold-on-" + o.ParkLog + "}"
}

func genLockstep(rng *mon.RNG, jump bool, z *zone) (ops []lop) {
	genLong = z.set()
	defer func() { genLong = false }()
	n := rng.Range(10, 60)
	// prologue: a few entries and a Start, in either order
	pre := rng.Range(0, 3)
	for i := 0; i < pre; i++ {
		ops = append(ops, lop{Kind: "add", Spec: genSpec(rng)})
	}
	if rng.Chance(5, 6) {
		ops = append(ops, lop{Kind: "start"})
	}
	if (jump || !z.set()) && rng.Chance(1, 3) {
		ops = append(ops, genBetween(rng)...)
	}
	runBias := rng.PickInt(0, 1, 2) // Start() only / mixed / mostly go Run()
	if rng.Chance(1, 4) {
		ops = append(ops, genLifecycle(rng, z.set())...)
	}
	defer func() {
		for i := range ops {
			o := &ops[i]
			switch {
			case o.Kind == "start" || o.Kind == "restart":
				if o.How == "" && rng.Intn(2) < runBias {
					o.How = "run"
				}
				if o.Kind == "start" && o.ParkLog == "" && rng.Chance(1, 8) {
					o.ParkLog = "start"
				}
			case o.Kind == "stop" && o.ParkLog == "" && rng.Chance(1, 4):
				o.ParkLog, o.Hold = "stop", rng.Range(1, 3)
			case o.Kind == "add" && rng.Chance(1, 10):
				o.ParkLog = "added"
			case o.Kind == "rm" && rng.Chance(1, 10):
				o.ParkLog = "removed"
			case o.Kind == "sleep" && o.Place == "" && (o.How == "exact" || jump) && rng.Chance(1, 8):
				o.ParkLog = rng.PickStr("wake", "run")
			}
		}
	}()
	for len(ops) < n {
		if rng.Chance(1, 60) {
			ops = append(ops, genLifecycle(rng, z.set())...)
			continue
		}
		if (jump || !z.set()) && rng.Chance(1, 25) {
			ops = append(ops, genBetween(rng)...)
			continue
		}
		switch r := rng.Intn(100); {
		case r < 16:
			ops = append(ops, lop{Kind: "add", Spec: genSpec(rng)})
		case r < 26:
			k := rng.Intn(8)
			if rng.Chance(1, 10) {
				k = -1
			}
			ops = append(ops, lop{Kind: "rm", K: k})
		case r < 38:
			ops = append(ops, lop{Kind: "entries"})
		case r < 43:
			k := rng.Intn(8)
			if rng.Chance(1, 10) {
				k = -1
			}
			ops = append(ops, lop{Kind: "entry", K: k})
		case r < 48:
			ops = append(ops, lop{Kind: "start"})
		case r < 52:
			ops = append(ops, lop{Kind: "stop"})
		case r < 56:
			ops = append(ops, lop{Kind: "restart"})
		case r < 60:
			ops = append(ops, lop{Kind: "release"})
		default:
			var sl lop
			if z.set() {
				sl = genSleepLoc(rng, jump)
			} else {
				sl = genSleep(rng, jump)
			}
			if jump && rng.Chance(1, 8) {
				sl.Place = rng.PickStr("entries", "stop", "rm-last", "add")
			}
			ops = append(ops, sl)
		}
	}
	return ops
}

// genBetween: the "added between" family. A running Cron holds a near entry
// (1-3 s) and a far one (30 min / 1 h / daily); one or two entries are added
// whose first activation lies strictly between the head's and the far one's,
// followed DIRECTLY by a clock advance past both the head's and the new entry's
// next activation (in jump mode: one step, one wake-up): just past it, exactly
// onto it, or past several of its activations. Nothing in between re-sorts the
// scheduler's entry list.
func genBetween(rng *mon.RNG) []lop {
	via := func() string { return rng.PickStr("schedule", "addfunc") }
	nearP := rng.PickInt(1, 1, 2, 3)
	near := schedSpec{Every: time.Duration(nearP) * time.Second, Via: via()}
	if nearP == 1 && rng.Chance(1, 3) {
		near = schedSpec{Spec: "* * * * * *", Via: via()}
	}
	far := schedSpec{Via: via()}
	switch rng.Intn(5) {
	case 0:
		far.Every = 30 * time.Minute
	case 1:
		far.Every = time.Hour
	case 2:
		far.Spec, far.Zs = "0 0 0 * * *", true
	case 3:
		far.Spec, far.Zs = "0 0 * * * *", true
	default:
		far.Spec, far.Zs = "0 30 * * * *", true
	}
	ops := []lop{{Kind: "start"}, {Kind: "add", Spec: near}, {Kind: "add", Spec: far}}
	if rng.Bool() {
		ops[1], ops[2] = ops[2], ops[1]
	}
	if rng.Bool() {
		ops = append(ops, lop{Kind: "sleep", How: "dur", D: time.Duration(rng.Range(1, 400)) * time.Millisecond})
	}
	var midP int
	for k := rng.PickInt(1, 1, 2); k > 0; k-- {
		midP = nearP + rng.PickInt(1, 2, 4, 9, 44)
		ops = append(ops, lop{Kind: "add", Spec: schedSpec{Every: time.Duration(midP) * time.Second, Via: via(), Block: rng.Chance(1, 8)}})
		if rng.Chance(1, 4) {
			ops = append(ops, lop{Kind: "entries"}) // a snapshot does not re-sort either
		}
	}
	switch rng.Intn(4) {
	case 0: // exactly onto the new entry's activation (past the head's)
		ops = append(ops, lop{Kind: "sleep", How: "exact-last"})
	case 1: // just past it
		ops = append(ops, lop{Kind: "sleep", How: "past-last", D: time.Duration(rng.Range(1, 900)) * time.Millisecond})
	case 2: // past several activations of the new entry
		ops = append(ops, lop{Kind: "sleep", How: "dur", D: time.Duration(midP*rng.Range(2, 4))*time.Second + time.Duration(rng.Range(0, 999))*time.Millisecond})
	default:
		ops = append(ops, lop{Kind: "sleep", How: "dur", D: time.Duration(midP)*time.Second + time.Duration(rng.Range(0, 999))*time.Millisecond})
	}
	if rng.Chance(3, 5) {
		// jump mode only: an operation lands right after that wake-up, before the scheduler re-arms
		ops[len(ops)-1].Place = rng.PickStr("entries", "entries", "stop", "stop", "rm-last", "add")
	}
	// the step after it
	ops = append(ops, lop{Kind: "sleep", How: "dur", D: time.Duration(rng.Range(100, 900)) * time.Millisecond}, lop{Kind: "entries"})
	return ops
}

func genSleep(rng *mon.RNG, jump bool) lop {
	ms := time.Duration(rng.Range(1, 999)) * time.Millisecond
	r := rng.Intn(100)
	if jump {
		switch {
		case r < 18:
			return lop{Kind: "sleep", How: "exact"}
		case r < 30:
			return lop{Kind: "sleep", How: "between"}
		case r < 38:
			return lop{Kind: "sleep", How: "past", D: ms}
		case r < 80:
			d := time.Duration(rng.Range(2, 15)) * time.Second
			if rng.Chance(1, 3) {
				d += ms
			}
			return lop{Kind: "sleep", How: "dur", D: d}
		case r < 90:
			return lop{Kind: "sleep", How: "dur", D: time.Duration(rng.Range(30, 130))*time.Second + ms}
		default:
			return lop{Kind: "sleep", How: "dur", D: time.Duration(rng.Range(1, 1000000))}
		}
	}
	switch {
	case r < 38:
		return lop{Kind: "sleep", How: "exact"}
	case r < 55:
		return lop{Kind: "sleep", How: "between"}
	case r < 65:
		return lop{Kind: "sleep", How: "past", D: ms}
	case r < 85:
		d := time.Duration(rng.Range(1, 5)) * time.Second
		if rng.Chance(1, 4) {
			d += ms
		}
		return lop{Kind: "sleep", How: "dur", D: d}
	case r < 90:
		return lop{Kind: "sleep", How: "dur", D: time.Duration(rng.Range(10, 70))*time.Second + ms}
	default:
		return lop{Kind: "sleep", How: "dur", D: time.Duration(rng.Range(1, 1000000))}
	}
}

func runLockstep(t *testing.T, idx int, mode string, rng *mon.RNG) {
	jump := mode == "jump"
	z := pickZone(rng)
	chain := pickChain(rng, jump)
	ops := genLockstep(rng, jump, z)
	for i := range ops {
		if ops[i].Kind == "add" {
			genBad(rng, chain, &ops[i].Spec)
		}
	}
	if chain != "none" {
		// jobs that block across their own and other entries' activations, and more releases
		for i := range ops {
			if ops[i].Kind == "add" && rng.Bool() {
				ops[i].Spec.Block = true
			}
			if (ops[i].Kind == "entries" || ops[i].Kind == "entry") && rng.Chance(1, 3) {
				ops[i] = lop{Kind: "release"}
			}
		}
	}
	phase := genPhase(rng, z)
	yield := rng.Intn(3)
	var hs []string
	for _, o := range ops {
		hs = append(hs, o.String())
	}
	desc := fmt.Sprintf("%s loc=%s chain=%s phase=%v yield=%d %s", mode, z.name, chain, phase, yield, strings.Join(hs, " "))
	rec.Begin(idx, desc)
	w := &world{idx: idx, mode: mode, zone: z, chain: chain, history: hs, yield: yield, yieldRng: mon.NewRNG("c05-yield", idx)}
	res := bubble(t, w, func() {
		if jump {
			w.vc = vclock.New(time.Date(2000, 1, 1, 0, 0, 0, 0, time.UTC).Add(phase))
		} else {
			time.Sleep(phase)
		}
		w.newCron()
		ls := &lockstep{w: w, m: newRef(), jump: jump}
		held := 0 // operations still to run before the outgoing scheduler, held on "stop", is released
		for i := 0; i < len(ops); i++ {
			o := ops[i]
			rec.Progress()
			ls.last = o.Kind
			if o.Kind == "sleep" {
				ls.last = "sleep-" + o.How
			}
			if o.ParkLog != "" && o.ParkLog != "stop" && o.Place == "" && !w.logParked.Load() {
				w.mu.Lock()
				w.parkLog = o.ParkLog
				w.mu.Unlock()
			}
			ls.do(o)
			w.barrier()
			w.mu.Lock()
			w.parkLog = "" // not provoked: disarm
			w.mu.Unlock()
			switch {
			case w.logParked.Load() && w.logParkedAtIs("stop"):
				if held == 0 {
					held = o.Hold + 1
					rec.Count("lifecycle.outgoing_scheduler_held_on_stop", 1)
				}
				if held--; held == 0 {
					w.releaseLog()
					w.barrier()
				}
			case w.logParked.Load():
				// the live scheduler is held on a message of this instant: the next
				// operation (if it is not a clock advance) is issued meanwhile
				at := w.logParkedAtGet()
				rec.Count("lifecycle.held_on_"+at, 1)
				if i+1 < len(ops) && ops[i+1].Kind != "sleep" && ops[i+1].ParkLog == "" {
					i++
					nx := ops[i]
					ls.last = at + "+" + nx.Kind
					rec.Count("lifecycle.held_on_"+at+".then_"+nx.Kind, 1)
					done := make(chan struct{})
					go func() {
						defer close(done)
						ls.do(nx)
					}()
					mon.Quiesce()
					w.releaseLog()
					<-done
				} else {
					w.releaseLog()
				}
				w.barrier()
			}
			if !w.logParked.Load() {
				w.checkRuns(ls.liveRun, mode)
			}
			ls.compareStarts()
			if i%5 == 4 && !w.viol.Load() {
				ls.compareEntries(w.entries(0))
			}
			w.checkCtx(true, mode)
			if jump && w.vc.Pending() > 1 {
				// looked at, not judged: the statement does not speak about timers
				rec.Count("jump.observed_more_than_one_armed_timer", 1)
			}
			if w.viol.Load() {
				break
			}
		}
		// epilogue: let every blocked job go, stop, everything must settle
		w.releaseLog()
		w.stop(0)
		ls.m.stop()
		ls.liveRun = 0
		w.checkCtx(false, mode)
		w.releaseForever(0)
		w.barrier()
		if !w.viol.Load() {
			ls.last = "final-stop"
			ls.compareStarts()
			ls.compareEntries(w.entries(0))
			w.checkCtx(true, mode)
			w.checkRuns(0, mode)
		}
		if !w.viol.Load() {
			// nothing may start after Stop returned, however far the clock goes
			if jump {
				w.vc.Step(3 * time.Minute)
			} else {
				time.Sleep(3 * time.Minute)
			}
			w.barrier()
			ls.last = "after-final-stop"
			ls.compareStarts()
		}
		if !w.viol.Load() {
			w.checkChain(mode)
		}
		if w.viol.Load() && chainBase(w.chain) == "delay" {
			// goroutines may be parked on a wrapper mutex for good: not a durable wait,
			// the bubble could never be wound up
			if !w.dead.Swap(true) {
				close(w.abandon)
			}
		}
		rec.Count("starts.compared", ls.m.npred)
	})
	finishCase(idx, w, res, desc)
}

type lockstep struct {
	w    *world
	m    *refModel
	jump bool
	last string
	// entries added while running strictly between the head's and a farther
	// entry's next activation, with nothing since that re-sorts the scheduler's list
	between []*rEnt
	lastAdd *rEnt
	liveRun int // 1 while the live scheduler was started through Run()
}

func (ls *lockstep) pick(k int) (*ent, cron.EntryID) {
	w := ls.w
	w.mu.Lock()
	defer w.mu.Unlock()
	if k < 0 || len(w.ents) == 0 {
		return nil, 9999
	}
	e := w.ents[k%len(w.ents)]
	return e, e.id
}

func (ls *lockstep) do(o lop) {
	w, m := ls.w, ls.m
	switch o.Kind {
	case "rm", "start", "stop", "restart":
		ls.between = nil
	}
	switch o.Kind {
	case "add":
		head := m.minNext()
		r := w.add(0, o.Spec)
		m.add(r.e, r.at)
		re := m.ents[len(m.ents)-1]
		ls.lastAdd = re
		farther := false
		for _, x := range m.ents {
			if x != re && !x.next.IsZero() && x.next.After(re.next) {
				farther = true
			}
		}
		switch {
		case m.running && !head.IsZero() && re.next.After(head) && farther:
			ls.between = append(ls.between, re)
		case m.running && !head.IsZero() && re.next.After(head):
			// appended behind everything: sorted by accident, still pending
		default:
			ls.between = nil // the scheduler re-sorts
		}
	case "rm":
		e, id := ls.pick(o.K)
		w.remove(0, e, id)
		m.remove(id)
	case "entries":
		ls.compareEntries(w.entries(0))
	case "entry":
		e, id := ls.pick(o.K)
		r := w.entry(0, e, id)
		ls.compareEntry(r)
	case "start":
		ls.startLife(o.How == "run")
	case "stop":
		if m.running && o.ParkLog == "stop" && !w.logParked.Load() {
			w.mu.Lock()
			w.parkLog = "stop"
			w.mu.Unlock()
		}
		w.stop(0)
		m.stop()
		if ls.liveRun > 0 {
			rec.Count("lifecycle.stop_of_scheduler_started_via_run", 1)
		}
		ls.liveRun = 0
	case "restart":
		w.stop(0)
		m.stop()
		if ls.liveRun > 0 {
			rec.Count("lifecycle.restart_of_scheduler_started_via_run", 1)
		}
		ls.liveRun = 0
		ls.startLife(o.How == "run")
	case "release":
		w.release(0)
	case "sleep":
		now := w.now()
		d := o.D
		n := m.minNext()
		switch o.How {
		case "exact":
			d = time.Second
			if !n.IsZero() {
				d = n.Sub(now)
				rec.Count(ls.w.mode+".sleep_to_exact_activation", 1)
			}
		case "between":
			d = 500 * time.Millisecond
			if !n.IsZero() && n.Sub(now) > 1 {
				d = n.Sub(now) / 2
			}
		case "past":
			if !n.IsZero() {
				d += n.Sub(now)
			}
		case "exact-last", "past-last":
			if ls.lastAdd != nil && m.running && ls.lastAdd.next.After(now) {
				d += ls.lastAdd.next.Sub(now)
			} else if d <= 0 {
				d = time.Second
			}
		}
		if d <= 0 {
			d = 1
		}
		w.mu.Lock()
		w.history = append(w.history, fmt.Sprintf("[%s+%v]", ft(now), d))
		w.mu.Unlock()
		if T, head := now.Add(d), m.minNext(); !head.IsZero() && !head.After(T) {
			// a wake-up follows; which "added between" entries does it have to reach?
			for _, re := range ls.between {
				if m.find(re.e.id) != re || re.next.After(T) {
					continue
				}
				kind := "past"
				if re.next.Equal(T) {
					kind = "exactly_onto"
				} else if !re.e.sched.Next(re.next).After(T) {
					kind = "past_several_of"
				}
				if ls.jump {
					rec.Count("between.jump_over_head_and_new_entry", 1)
					rec.Count("between.jump_"+kind+"_new_entry", 1)
				} else {
					rec.Count("between.lockstep_advance_over_new_entry", 1)
				}
			}
			ls.between = nil
		}
		if ls.jump {
			if o.Place != "" {
				w.mu.Lock()
				w.parkHook, w.parkAt = "arm", now.Add(d)
				w.mu.Unlock()
			}
			w.vc.Step(d)
			started, skipped := m.jump(now.Add(d))
			if skipped > 0 {
				rec.Count("jump.multi_activation_jumps", 1)
				rec.Count("jump.starts_once_per_wake", started)
			}
			if o.Place != "" {
				ls.placeAfterWake(o.Place, started)
			}
		} else {
			time.Sleep(d)
			m.advance(now.Add(d))
		}
	}
}

// placeAfterWake (jump mode): the clock was stepped with the scheduler set to
// park at "arm" at the new instant, i.e. right after the wake-up of this step
// has started its jobs and before the next timer is created. While it is
// parked one client operation is issued; the reference has already performed
// the complete wake-up (every due entry started, Prev/Next advanced), because
// the wake-up began before the operation was even called.
func (ls *lockstep) placeAfterWake(place string, started int) {
	w, m := ls.w, ls.m
	w.barrier()
	if !w.parked.Load() {
		w.mu.Lock()
		w.parkHook = ""
		w.mu.Unlock()
		return // nothing was due: no wake-up, no re-arm
	}
	rec.Count("jump.placed_after_wake."+place, 1)
	if started > 1 {
		rec.Count("jump.placed_after_wake_with_several_due", 1)
	}
	ls.last = "jump+" + place + "@arm"
	done := make(chan *opRec, 1)
	var e *ent
	var id cron.EntryID = 9999
	if ls.lastAdd != nil {
		e, id = ls.lastAdd.e, ls.lastAdd.e.id
	}
	go func() {
		switch place {
		case "entries":
			done <- w.entries(0)
		case "stop":
			done <- w.stop(0)
		case "rm-last":
			done <- w.remove(0, e, id)
		case "add":
			done <- w.add(0, schedSpec{Every: 2 * time.Second, Via: "schedule"})
		}
	}()
	mon.Quiesce()
	w.parked.Store(false)
	w.resume <- struct{}{}
	r := <-done
	switch place {
	case "entries":
		ls.compareEntries(r)
	case "stop":
		m.stop()
		ls.between = nil
		ls.liveRun = 0
	case "rm-last":
		m.remove(id)
		ls.between = nil
	case "add":
		m.add(r.e, r.at)
		ls.lastAdd = m.ents[len(m.ents)-1]
	}
}

func (ls *lockstep) startLife(viaRun bool) {
	w, m := ls.w, ls.m
	was := m.running
	r := w.startVia(0, viaRun)
	if m.start(r.at) > 0 {
		rec.Count("restart.recomputed", 1)
	}
	if !was && viaRun {
		ls.liveRun = 1
	}
	if !was && w.logParked.Load() && w.logParkedAtIs("stop") {
		rec.Count("lifecycle.restart_while_outgoing_scheduler_held_on_stop", 1)
	}
}

func (ls *lockstep) sig(class string) string {
	return fmt.Sprintf("%s/%s/after-%s", ls.w.mode, class, ls.last)
}

func (ls *lockstep) compareStarts() {
	w, m := ls.w, ls.m
	w.mu.Lock()
	news := w.starts[m.seen:]
	m.seen = len(w.starts)
	w.mu.Unlock()
	for _, s := range news {
		m.bump(skey{s.e.h, s.at.UnixNano()}, -1)
	}
	if len(m.diff) == 0 {
		return
	}
	// classify the first discrepancy (unpredicted starts first)
	var sig, msg string
	for k, d := range m.diff {
		at := time.Unix(0, k.at).UTC()
		if d >= 0 {
			continue
		}
		class := "unpredicted-start"
		r := (*rEnt)(nil)
		for _, x := range m.ents {
			if x.e.h == k.h {
				r = x
			}
		}
		switch {
		case m.pred[k] > 0:
			class = "second-start-for-one-activation"
		case !m.running:
			class = "start-while-stopped"
		case m.gone[k.h]:
			class = "start-after-remove"
		case r != nil && r.prev.Equal(at):
			class = "second-start-for-one-activation"
		case r != nil && r.next.After(at):
			class = "early-start"
		}
		sig = ls.sig(class)
		msg = fmt.Sprintf("entry %d started at %s (%d more time(s) than the reference predicts); reference: %s", k.h, ft(at), -d, m.describe())
		break
	}
	if sig == "" {
		for k, d := range m.diff {
			sig = ls.sig("missed-start")
			msg = fmt.Sprintf("entry %d should have started at %s (%d start(s) missing) and the system is quiescent at %s; reference: %s", k.h, ft(time.Unix(0, k.at)), d, ft(w.now()), m.describe())
			break
		}
	}
	w.violation(sig, msg)
}

func (m *refModel) describe() string {
	var sb strings.Builder
	fmt.Fprintf(&sb, "running=%v", m.running)
	for _, r := range m.ents {
		fmt.Fprintf(&sb, " {h=%d id=%d next=%s prev=%s}", r.e.h, r.e.id, ft(r.next), ft(r.prev))
	}
	return sb.String()
}

func (ls *lockstep) compareEntries(r *opRec) {
	w, m := ls.w, ls.m
	if w.viol.Load() {
		return
	}
	rec.Count("lockstep.entries_compared", 1)
	seen := map[cron.EntryID]bool{}
	for _, x := range r.snap {
		if seen[x.ID] {
			w.violation(ls.sig("entries-duplicate-id"), fmt.Sprintf("Entries() lists id %d twice", x.ID))
			return
		}
		seen[x.ID] = true
		re := m.find(x.ID)
		if re == nil {
			w.violation(ls.sig("entries-extra-entry"), fmt.Sprintf("Entries() lists id %d which is not live; reference: %s", x.ID, m.describe()))
			return
		}
		if !x.Next.Equal(re.next) {
			w.violation(ls.sig("entries-next"), fmt.Sprintf("Entries() at %s reports Next=%s for id %d, the activation actually due is %s; reference: %s", ft(r.at), ft(x.Next), x.ID, ft(re.next), m.describe()))
			return
		}
		if !x.Prev.Equal(re.prev) {
			w.violation(ls.sig("entries-prev"), fmt.Sprintf("Entries() at %s reports Prev=%s for id %d, the last activation used is %s; reference: %s", ft(r.at), ft(x.Prev), x.ID, ft(re.prev), m.describe()))
			return
		}
		if re.next.IsZero() && m.running {
			rec.Count("lockstep.unsatisfiable_entry_zero_next", 1)
		}
	}
	for _, re := range m.ents {
		if !seen[re.e.id] {
			w.violation(ls.sig("entries-missing-entry"), fmt.Sprintf("Entries() does not list live id %d; reference: %s", re.e.id, m.describe()))
			return
		}
	}
}

func (ls *lockstep) compareEntry(r *opRec) {
	w, m := ls.w, ls.m
	re := m.find(r.id)
	switch {
	case re == nil && len(r.snap) > 0:
		w.violation(ls.sig("entry-valid-for-dead-id"), fmt.Sprintf("Entry(%d) is valid but the id is not live", r.id))
	case re != nil && len(r.snap) == 0:
		w.violation(ls.sig("entry-invalid-for-live-id"), fmt.Sprintf("Entry(%d) is the zero entry but the id is live", r.id))
	case re != nil:
		x := r.snap[0]
		if !x.Next.Equal(re.next) || !x.Prev.Equal(re.prev) {
			w.violation(ls.sig("entry-next-prev"), fmt.Sprintf("Entry(%d) reports Next=%s Prev=%s, reference Next=%s Prev=%s", r.id, ft(x.Next), ft(x.Prev), ft(re.next), ft(re.prev)))
		}
		rec.Count("lockstep.entry_compared", 1)
	}
}
