package c05

import (
	"fmt"
	"sort"
	"strings"
	"time"

	"github.com/dapr/kit/cron"
)

// The offline judge of a racing history. Every client call occupied exactly
// one virtual instant, so the log is swept instant by instant: the set of
// operations, wake hook hits and job starts of one instant is judged against
// the reference state before it, which is then advanced. Only same-instant
// coincidences are ambiguous; they are resolved by the logical stamps where
// these decide, accepted either way otherwise, and counted.

type pair struct{ next, prev time.Time }

func (p pair) String() string { return "(n=" + ft(p.next) + ",p=" + ft(p.prev) + ")" }

func addPair(s []pair, p pair) []pair {
	for _, x := range s {
		if x.next.Equal(p.next) && x.prev.Equal(p.prev) {
			return s
		}
	}
	return append(s, p)
}

func hasPair(s []pair, next, prev time.Time) bool {
	for _, x := range s {
		if x.next.Equal(next) && x.prev.Equal(prev) {
			return true
		}
	}
	return false
}

type mEnt struct {
	e    *ent
	alts []pair // possible (Next, Prev); one element unless an add raced a Stop
}

type judge struct {
	w       *world
	running bool
	live    map[int]*mEnt
	gone    map[int]bool
	ops     []*opRec
	starts  map[int64][]*startRec
	wakes   map[int64][]wakeRec
	sTimes  []int64
	oi, si  int
	ncmp    int
}

func newJudge(w *world) *judge {
	w.mu.Lock()
	defer w.mu.Unlock()
	j := &judge{w: w, live: map[int]*mEnt{}, gone: map[int]bool{}, starts: map[int64][]*startRec{}, wakes: map[int64][]wakeRec{}}
	j.ops = append(j.ops, w.ops...)
	sort.SliceStable(j.ops, func(a, b int) bool {
		if !j.ops[a].at.Equal(j.ops[b].at) {
			return j.ops[a].at.Before(j.ops[b].at)
		}
		return j.ops[a].call < j.ops[b].call
	})
	for _, s := range w.starts {
		k := s.at.UnixNano()
		if len(j.starts[k]) == 0 {
			j.sTimes = append(j.sTimes, k)
		}
		j.starts[k] = append(j.starts[k], s)
	}
	sort.Slice(j.sTimes, func(a, b int) bool { return j.sTimes[a] < j.sTimes[b] })
	for _, k := range w.wakes {
		j.wakes[k.at.UnixNano()] = append(j.wakes[k.at.UnixNano()], k)
	}
	return j
}

func (j *judge) minNext() time.Time {
	var min time.Time
	if !j.running {
		return min
	}
	for _, m := range j.live {
		n := m.alts[0].next
		if !n.IsZero() && (min.IsZero() || n.Before(min)) {
			min = n
		}
	}
	return min
}

func (j *judge) viol(class, msg string) {
	j.w.mu.Unlock() // run() holds it
	j.w.violation("racing/"+class, msg)
	j.w.mu.Lock()
}

func (j *judge) run() {
	w := j.w
	w.mu.Lock()
	defer w.mu.Unlock()
	for _, o := range j.ops {
		if o.ret == 0 || !o.at.Equal(o.atRet) {
			w.mu.Unlock()
			rec.Inconclusive(w.idx, "a client call did not complete within one virtual instant", fmt.Sprintf("%s g=%d at=%s ret=%d atRet=%s", o.kind, o.g, ft(o.at), o.ret, ft(o.atRet)))
			w.mu.Lock()
			return
		}
	}
	for !w.viol.Load() {
		// next instant: earliest of next op, next observed start, next reference wake
		var T time.Time
		pick := func(t time.Time) {
			if !t.IsZero() && (T.IsZero() || t.Before(T)) {
				T = t
			}
		}
		if j.oi < len(j.ops) {
			pick(j.ops[j.oi].at)
		}
		if j.si < len(j.sTimes) {
			pick(time.Unix(0, j.sTimes[j.si]).UTC())
		}
		pick(j.minNext())
		if T.IsZero() {
			break
		}
		var G []*opRec
		for j.oi < len(j.ops) && j.ops[j.oi].at.Equal(T) {
			G = append(G, j.ops[j.oi])
			j.oi++
		}
		if j.si < len(j.sTimes) && j.sTimes[j.si] == T.UnixNano() {
			j.si++
		}
		j.instant(T, G)
	}
	rec.Count("starts.compared", j.ncmp)
}

func (j *judge) describe() string {
	var hs []int
	for h := range j.live {
		hs = append(hs, h)
	}
	sort.Ints(hs)
	var sb strings.Builder
	fmt.Fprintf(&sb, "running=%v", j.running)
	for _, h := range hs {
		fmt.Fprintf(&sb, " {h=%d id=%d %v}", h, j.live[h].e.id, j.live[h].alts)
	}
	return sb.String()
}

func (j *judge) instant(T time.Time, G []*opRec) {
	T = T.In(j.w.tz()) // Schedule.Next is evaluated in the Cron's location
	tk := T.UnixNano()
	wk := j.wakes[tk]
	before := j.describe()
	runBefore := j.running

	// controller operations (sequential by construction): running state through the instant
	var ctl []*opRec
	for _, o := range G {
		if o.kind == "start" || o.kind == "stop" {
			ctl = append(ctl, o)
		}
	}
	states := []bool{runBefore}
	var effStops []*opRec
	effStart := false
	for _, c := range ctl {
		st := states[len(states)-1]
		if c.kind == "start" && !st {
			st, effStart = true, true
		} else if c.kind == "stop" && st {
			st = false
			effStops = append(effStops, c)
		}
		states = append(states, st)
	}
	runAfter := states[len(states)-1]

	obs := map[int]int{}
	for _, s := range j.starts[tk] {
		obs[s.e.h]++
	}

	// ---- job starts of this instant
	anyDue := false
	started := map[int]bool{}
	for h, m := range j.live {
		n := m.alts[0].next
		due := runBefore && !n.IsZero() && !n.After(T)
		if !due {
			continue
		}
		anyDue = true
		required, forbidden, why := true, "", ""
		for _, s := range effStops {
			if len(wk) == 0 {
				required, why = false, "stop"
			} else if s.ret < wk[0].stamp {
				forbidden = "start-after-stop-returned"
			} else {
				rec.Count("racing.same_instant.stop_vs_wake.wake_first_all_due_required", 1)
			}
		}
		var rms []*opRec
		for _, o := range G {
			if o.kind == "remove" && o.id == m.e.id {
				rms = append(rms, o)
			}
		}
		for _, r := range rms {
			wakeFirst, allAfter := false, len(wk) > 0
			for _, k := range wk {
				if k.stamp < r.call {
					wakeFirst = true
				}
				if k.stamp < r.ret {
					allAfter = false
				}
			}
			switch {
			case wakeFirst:
				rec.Count("racing.remove_at_activation.wake_first_by_stamp", 1)
			case allAfter:
				forbidden = "start-after-remove-returned"
			default:
				required = false
				if why == "" {
					why = "remove"
				}
			}
		}
		c := obs[h]
		delete(obs, h)
		j.ncmp++
		switch {
		case c >= 2:
			j.viol("second-start-for-one-activation", fmt.Sprintf("entry %d was started %d times at %s; before: %s", h, c, ft(T), before))
			return
		case c == 1 && forbidden != "":
			j.viol(forbidden, fmt.Sprintf("entry %d was started at %s by a wake-up (stamp %d) that came after the call had returned; before: %s", h, ft(T), wk[0].stamp, before))
			return
		case c == 0 && required && forbidden == "":
			j.viol("missed-start", fmt.Sprintf("entry %d was due at %s, nothing excuses it (wake hooks at this instant: %d), but its job was not started; before: %s", h, ft(T), len(wk), before))
			return
		}
		if !required || forbidden != "" {
			if why == "" {
				why = "decided"
			}
			if c == 1 {
				rec.Count("racing.same_instant."+why+"_vs_wake.started", 1)
			} else {
				rec.Count("racing.same_instant."+why+"_vs_wake.not_started", 1)
			}
		}
		if c == 1 {
			started[h] = true
		}
	}
	for h, c := range obs {
		class := "unpredicted-start"
		m := j.live[h]
		switch {
		case j.gone[h]:
			class = "start-after-remove-returned"
		case !runBefore:
			class = "start-while-stopped"
		case m != nil && m.alts[0].next.After(T):
			class = "early-start"
		case m == nil:
			class = "start-of-entry-added-at-this-instant"
		}
		j.viol(class, fmt.Sprintf("entry %d was started %d time(s) at %s where the reference has no activation for it; before: %s", h, c, ft(T), before))
		return
	}
	if len(G) > 0 && anyDue {
		rec.Count("racing.ops_at_activation_instant", len(G))
	}
	if len(G) > 1 || (len(G) > 0 && anyDue) {
		rec.Count("racing.same_instant.total", 1)
	}

	// ---- what a snapshot taken during this instant may show, and the state after it
	allowed := map[int][]pair{}
	after := map[int][]pair{}
	for h, m := range j.live {
		al := append([]pair(nil), m.alts...)
		af := append([]pair(nil), m.alts...)
		if started[h] {
			var na []pair
			for _, p := range af {
				q := pair{m.e.sched.Next(T), p.next}
				al = addPair(al, q)
				na = addPair(na, q)
			}
			af = na
		}
		if effStart {
			var na []pair
			for _, p := range al {
				al = addPair(al, pair{m.e.sched.Next(T), p.prev})
			}
			for _, p := range af {
				q := pair{m.e.sched.Next(T), p.prev}
				if !p.next.IsZero() && !q.next.Equal(p.next) {
					rec.Count("restart.recomputed", 1)
				}
				na = addPair(na, q)
			}
			// effective starts may be followed by an effective stop: the recomputed values stay
			af = na
		}
		allowed[h], after[h] = al, af
	}
	// entries added at this instant
	addOf := map[int]*opRec{}
	for _, o := range G {
		if o.kind != "add" {
			continue
		}
		addOf[o.e.h] = o
		var al, af []pair
		nx := o.e.sched.Next(T)
		for k := 0; k <= len(ctl); k++ {
			if (k > 0 && ctl[k-1].call > o.ret) || (k < len(ctl) && o.call > ctl[k].ret) {
				continue // the add cannot have taken effect between ctl[k-1] and ctl[k]
			}
			p := pair{}
			if states[k] {
				p.next = nx
			}
			al = addPair(al, p)
			for i := k; i < len(ctl); i++ {
				if states[i+1] && !states[i] {
					p.next = nx
					al = addPair(al, p)
				}
			}
			af = addPair(af, p)
		}
		if len(af) > 1 {
			rec.Count("racing.same_instant.add_vs_startstop.ambiguous", 1)
		}
		allowed[o.e.h], after[o.e.h] = al, af
	}
	rmOf := map[int][]*opRec{}
	for _, o := range G {
		if o.kind == "remove" && o.e != nil {
			rmOf[o.e.h] = append(rmOf[o.e.h], o)
		}
	}

	// ---- Entries / Entry snapshots of this instant
	for _, o := range G {
		if o.kind != "entries" && o.kind != "entry" {
			continue
		}
		seen := map[cron.EntryID]bool{}
		for _, x := range o.snap {
			if seen[x.ID] {
				j.viol("entries-duplicate-id", fmt.Sprintf("Entries() at %s lists id %d twice", ft(T), x.ID))
				return
			}
			seen[x.ID] = true
			h := -1
			for hh := range allowed {
				var e *ent
				if m := j.live[hh]; m != nil {
					e = m.e
				} else {
					e = addOf[hh].e
				}
				if e.id == x.ID {
					h = hh
				}
			}
			if h < 0 {
				j.viol("entries-extra-entry", fmt.Sprintf("%s at %s lists id %d which is not live; before: %s", o.kind, ft(T), x.ID, before))
				return
			}
			if a := addOf[h]; a != nil && o.ret < a.call {
				j.viol("entries-entry-before-added", fmt.Sprintf("%s at %s returned (stamp %d) id %d before its Schedule was called (stamp %d)", o.kind, ft(T), o.ret, x.ID, a.call))
				return
			}
			for _, r := range rmOf[h] {
				if r.ret < o.call {
					j.viol("entries-entry-after-remove-returned", fmt.Sprintf("%s at %s (call stamp %d) lists id %d after Remove returned (stamp %d)", o.kind, ft(T), o.call, x.ID, r.ret))
					return
				}
			}
			if !hasPair(allowed[h], x.Next, x.Prev) {
				j.viol("entries-next-prev", fmt.Sprintf("%s at %s reports Next=%s Prev=%s for id %d; possible at this instant: %v; before: %s", o.kind, ft(T), ft(x.Next), ft(x.Prev), x.ID, allowed[h], before))
				return
			}
			rec.Count("racing.entries_values_compared", 1)
			if len(allowed[h]) > 1 {
				if hasPair(j.liveAlts(h), x.Next, x.Prev) {
					rec.Count("racing.same_instant.entries_vs_transition.saw_pre", 1)
				} else {
					rec.Count("racing.same_instant.entries_vs_transition.saw_post", 1)
				}
			}
		}
		if o.kind == "entry" {
			continue // presence of one id: judged below only for Entries
		}
		for h, m := range j.live {
			if seen[m.e.id] {
				continue
			}
			excused := false
			for _, r := range rmOf[h] {
				if r.call < o.ret {
					excused = true
				}
			}
			if !excused {
				j.viol("entries-missing-entry", fmt.Sprintf("Entries() at %s does not list live id %d; before: %s", ft(T), m.e.id, before))
				return
			}
		}
		for h, a := range addOf {
			if seen[a.e.id] || a.ret > o.call {
				continue
			}
			excused := false
			for _, r := range rmOf[h] {
				if r.call < o.ret {
					excused = true
				}
			}
			if !excused {
				j.viol("entries-missing-entry", fmt.Sprintf("Entries() at %s (call stamp %d) does not list id %d whose Schedule had returned (stamp %d)", ft(T), o.call, a.e.id, a.ret))
				return
			}
		}
	}
	// Entry(id) of a live, un-removed id must be valid
	for _, o := range G {
		if o.kind != "entry" || len(o.snap) > 0 || o.e == nil {
			continue
		}
		if m := j.live[o.e.h]; m != nil && len(rmOf[o.e.h]) == 0 {
			j.viol("entry-invalid-for-live-id", fmt.Sprintf("Entry(%d) at %s is the zero entry but the id is live; before: %s", o.id, ft(T), before))
			return
		}
	}

	// ---- advance the reference
	for h, a := range addOf {
		j.live[h] = &mEnt{e: a.e}
	}
	for h := range j.live {
		j.live[h].alts = after[h]
	}
	for h := range rmOf {
		if j.live[h] != nil {
			delete(j.live, h)
			j.gone[h] = true
		}
	}
	j.running = runAfter
	if j.running {
		for h, m := range j.live {
			for _, p := range m.alts[1:] {
				if !p.next.Equal(m.alts[0].next) {
					panic(fmt.Sprintf("harness: reference ambiguous about Next of running entry %d: %v", h, m.alts))
				}
			}
		}
	}
}

func (j *judge) liveAlts(h int) []pair {
	if m := j.live[h]; m != nil {
		return m.alts
	}
	return nil
}
