// Package c05 monitors property C05 (cron: each job starts once per
// activation, never early; Stop/Remove are clean).
//
// Three runners share one recorded world:
//   - lock-step on the bubble's virtual time (production clock.RealClock),
//   - lock-step on internal/vclock, where the clock JUMPS over activations,
//   - racing: 2-6 goroutines at chosen virtual instants (+ hook parking),
//     judged offline from the stamped log.
package c05

import (
	"context"
	"fmt"
	"runtime"
	"strings"
	"sync"
	"sync/atomic"
	"testing"
	"time"

	"github.com/dapr/kit/cron"

	"verif/harness/internal/mon"
	"verif/harness/internal/vclock"
)

var rec *mon.Rec

var secondParser = cron.NewParser(cron.Second | cron.Minute | cron.Hour | cron.Dom | cron.Month | cron.Dow | cron.Descriptor)

// ---- schedules of the workload

type schedSpec struct {
	Every time.Duration // > 0: cron.Every / "@every"
	Spec  string        // otherwise a seconds-resolution spec
	Via   string        // "schedule" (c.Schedule) | "addfunc" (c.AddFunc)
	Block bool          // the job blocks on the harness gate
	Zs    bool          // zone sensitive by its minute/hour/day fields
	// Bad: the job function ends abnormally on its BadOn-th run (BadRep: on every
	// BadOn-th run): "panic" (only under a Recover wrapper) or "goexit" (runtime.Goexit)
	Bad    string
	BadOn  int
	BadRep bool
}

func (s schedSpec) String() string {
	b := ""
	if s.Block {
		b = "!"
	}
	if s.Bad != "" {
		b += fmt.Sprintf("%s#%d", s.Bad, s.BadOn)
		if s.BadRep {
			b += "*"
		}
		b += ":"
	}
	if s.Every > 0 {
		return fmt.Sprintf("%s@every %v/%s", b, s.Every, s.Via[:1])
	}
	return fmt.Sprintf("%s[%s]/%s", b, s.Spec, s.Via[:1])
}

func (s schedSpec) text() string {
	if s.Every > 0 {
		return "@every " + s.Every.String()
	}
	return s.Spec
}

func (s schedSpec) parse() cron.Schedule {
	if s.Every > 0 {
		return cron.Every(s.Every)
	}
	sc, err := secondParser.Parse(s.Spec)
	if err != nil {
		panic("harness: bad spec " + s.Spec + ": " + err.Error())
	}
	return sc
}

// genLong is set while the plan of a long history with a location is generated
// (plans are generated sequentially, before the bubble).
var genLong bool

var everies = []time.Duration{time.Second, 2 * time.Second, 3 * time.Second, 5 * time.Second, 7 * time.Second, 2500 * time.Millisecond}

// equal ("*/2" twice, "@every 2s"), nested (1|2|4|10|30, 3|6|30), co-prime
// (2,3,5,7) periods, phase-shifted ones, an irregular one at the minute
// boundary (*/7), a minute-resolution one and an unsatisfiable one (zero Next).
var specs = []string{
	"* * * * * *", "*/2 * * * * *", "*/2 * * * * *", "1-59/2 * * * * *", "*/3 * * * * *", "*/4 * * * * *", "*/5 * * * * *",
	"*/6 * * * * *", "*/7 * * * * *", "*/10 * * * * *", "0,30 * * * * *", "2-59/3 * * * * *", "0 * * * * *", "15 */2 * * * *",
	"0 0 0 30 2 *",
}

func genSpec(rng *mon.RNG) schedSpec {
	if genLong {
		return genSpecLoc(rng)
	}
	s := schedSpec{Via: "schedule"}
	if rng.Bool() {
		s.Via = "addfunc"
	}
	if rng.Chance(2, 5) {
		s.Every = everies[rng.Intn(len(everies))]
	} else {
		s.Spec = specs[rng.Intn(len(specs))]
		if s.Spec == "0 0 0 30 2 *" && !rng.Chance(1, 4) {
			s.Spec = "*/2 * * * * *"
		}
	}
	s.Block = rng.Chance(1, 6)
	return s
}

// ---- recorded world

type ent struct {
	h     int // harness index
	spec  schedSpec
	sched cron.Schedule // the harness's own parsed copy (reference side)
	id    cron.EntryID
	nInv  int // runs of the job function so far (under world.mu)
}

type startRec struct {
	e     *ent
	at    time.Time
	stamp int64
	ret   int64
	by    int64 // cached startedBy
}

type wakeRec struct {
	at    time.Time
	stamp int64
}

type opRec struct {
	g         int
	kind      string // add remove entries entry start stop release
	e         *ent
	id        cron.EntryID
	at, atRet time.Time
	call, ret int64
	snap      []cron.Entry
	ctx       context.Context
	placed    string // issued while the scheduler was parked at this hook
}

type world struct {
	idx  int
	mode string
	c    *cron.Cron
	vc   *vclock.Clock
	zone *zone // cron.WithLocation (nil / default: none)
	hold bool  // racing: RealClock with timer delivery through the "timer" hook

	clk atomic.Int64
	mu  sync.Mutex // guards everything below

	ents      []*ent
	starts    []*startRec
	wakes     []wakeRec
	arms      int
	timerHits int
	ops       []*opRec
	gate      chan struct{}

	// hook control
	yield    int
	yieldRng *mon.RNG
	parkHook string
	parkAt   time.Time
	parked   atomic.Bool
	resume   chan struct{}

	// chain dimension
	chain  string
	adding map[string]*ent      // goroutine id -> entry being added (for the probe wrapper)
	curOut map[string]*startRec // goroutine id -> scheduler start running on it
	invs   []*invRec

	// life cycle: Run() calls and the logger callback
	runs        []*runRec
	startEv     chan struct{}
	startGID    string
	logCounts   map[string]int
	parkLog     string
	logParkedAt string
	logParked   atomic.Bool
	logResume   chan struct{}

	spinAt  time.Time
	spinN   int
	dead    atomic.Bool   // the scheduler goroutine was taken out (spin guard): no further client calls
	abandon chan struct{} // created OUTSIDE the bubble; closed when the bubble cannot be finished

	viol    atomic.Bool
	history []string
}

func (w *world) stamp() int64 { return w.clk.Add(1) }

// tz is the location the reference computes in: the Cron's.
func (w *world) tz() *time.Location {
	if w.zone.set() {
		return w.zone.loc
	}
	return time.Local
}

func (w *world) now() time.Time {
	if w.vc != nil {
		return w.vc.Now().In(w.tz())
	}
	return time.Now().In(w.tz())
}

func (w *world) newCron() {
	if w.chain == "" {
		w.chain = "none"
	}
	w.adding = map[string]*ent{}
	w.curOut = map[string]*startRec{}
	opts := []cron.Option{cron.WithSeconds(), w.chainOption(), cron.WithLogger(hookLogger{w})}
	w.logResume = make(chan struct{})
	if w.zone.set() {
		opts = append(opts, cron.WithLocation(w.zone.loc))
	}
	if w.vc != nil {
		opts = append(opts, cron.WithClock(w.vc))
	} else if w.hold {
		opts = append(opts, cron.WithClock(holdClock{w: w}))
	}
	w.c = cron.New(opts...)
	w.gate = make(chan struct{})
	w.resume = make(chan struct{})
	h := w.hook
	cron.VerifHook.Store(&h)
}

// hook runs on the scheduler goroutine at "arm" and "wake", and on a
// holdClock timer's proxy goroutine at "timer".
func (w *world) hook(name string) {
	rec.Progress()
	w.mu.Lock()
	now := w.now()
	// spin guard: a scheduler loop that keeps re-arming and waking without the
	// clock moving would never let the bubble go idle
	if now.Equal(w.spinAt) {
		w.spinN++
	} else {
		w.spinAt, w.spinN = now, 0
	}
	if w.spinN > 3000 {
		w.mu.Unlock()
		w.violation("scheduler-spins-at-one-instant/"+w.mode, fmt.Sprintf("the scheduler loop passed its arm/wake points more than 3000 times at the single instant %s (it re-arms a timer that fires at once and starts nothing)", ft(now)))
		// take the goroutine out. Client calls in flight stay blocked (one on the
		// scheduler's channel, holding runningMu, the others on that mutex, which
		// synctest does not see as a deadlock), so the case is abandoned from outside.
		if !w.dead.Swap(true) {
			close(w.abandon)
		}
		select {}
	}
	switch name {
	case "wake":
		w.wakes = append(w.wakes, wakeRec{at: now, stamp: w.stamp()})
	case "arm":
		w.arms++
	case "timer":
		w.timerHits++
	}
	n := 0
	if w.yield > 0 && w.yieldRng != nil {
		n = w.yieldRng.Intn(w.yield + 1)
		if name == "timer" {
			n = w.yieldRng.Intn(w.yield*10 + 1) // lets client calls of the same instant reach the select first
		}
	}
	park := w.parkHook == name && now.Equal(w.parkAt)
	if park {
		w.parkHook = ""
	}
	w.mu.Unlock()
	for i := 0; i < n; i++ {
		runtime.Gosched()
	}
	if park {
		w.parked.Store(true)
		<-w.resume
	}
}

func (w *world) begin(g int, kind string, e *ent, id cron.EntryID) *opRec {
	w.mu.Lock()
	defer w.mu.Unlock()
	r := &opRec{g: g, kind: kind, e: e, id: id, at: w.now(), call: w.stamp()}
	w.ops = append(w.ops, r)
	return r
}

func (w *world) end(r *opRec) {
	w.mu.Lock()
	defer w.mu.Unlock()
	r.atRet = w.now()
	r.ret = w.stamp()
}

func (w *world) add(g int, s schedSpec) *opRec {
	if w.dead.Load() {
		return &opRec{kind: "dead", e: &ent{spec: s}}
	}
	w.mu.Lock()
	e := &ent{h: len(w.ents), spec: s, sched: s.parse()}
	w.ents = append(w.ents, e)
	w.mu.Unlock()
	r := w.begin(g, "add", e, 0)
	gid := curGID()
	w.mu.Lock()
	w.adding[gid] = e
	w.mu.Unlock()
	defer func() {
		w.mu.Lock()
		delete(w.adding, gid)
		w.mu.Unlock()
	}()
	var id cron.EntryID
	if s.Via == "addfunc" {
		var err error
		id, err = w.c.AddFunc(s.text(), func() { w.job(e) })
		if err != nil {
			panic("harness: AddFunc(" + s.text() + "): " + err.Error())
		}
	} else {
		id = w.c.Schedule(s.parse(), cron.FuncJob(func() { w.job(e) }))
	}
	w.mu.Lock()
	e.id, r.id = id, id
	w.mu.Unlock()
	w.end(r)
	return r
}

func (w *world) remove(g int, e *ent, id cron.EntryID) *opRec {
	if w.dead.Load() {
		return &opRec{kind: "dead"}
	}
	r := w.begin(g, "remove", e, id)
	w.c.Remove(id)
	w.end(r)
	return r
}

func (w *world) entries(g int) *opRec {
	if w.dead.Load() {
		return &opRec{kind: "dead"}
	}
	r := w.begin(g, "entries", nil, 0)
	snap := w.c.Entries()
	w.mu.Lock()
	r.snap = snap
	w.mu.Unlock()
	w.end(r)
	return r
}

func (w *world) entry(g int, e *ent, id cron.EntryID) *opRec {
	if w.dead.Load() {
		return &opRec{kind: "dead"}
	}
	r := w.begin(g, "entry", e, id)
	x := w.c.Entry(id)
	w.mu.Lock()
	if x.Valid() {
		r.snap = []cron.Entry{x}
	}
	w.mu.Unlock()
	w.end(r)
	return r
}

func (w *world) start(g int) *opRec {
	if w.dead.Load() {
		return &opRec{kind: "dead"}
	}
	r := w.begin(g, "start", nil, 0)
	w.c.Start()
	w.end(r)
	return r
}

func (w *world) stop(g int) *opRec {
	if w.dead.Load() {
		return &opRec{kind: "dead"}
	}
	r := w.begin(g, "stop", nil, 0)
	ctx := w.c.Stop()
	w.mu.Lock()
	r.ctx = ctx
	w.mu.Unlock()
	w.end(r)
	return r
}

// release lets every blocked job return (and later blocking jobs use a new gate).
func (w *world) release(g int) *opRec {
	r := w.begin(g, "release", nil, 0)
	w.mu.Lock()
	close(w.gate)
	w.gate = make(chan struct{})
	w.mu.Unlock()
	w.end(r)
	return r
}

// releaseForever: the final release; jobs that begin running later (their
// goroutine was created before Stop returned) find a closed gate.
func (w *world) releaseForever(g int) *opRec {
	r := w.begin(g, "release", nil, 0)
	w.mu.Lock()
	close(w.gate)
	w.gate = make(chan struct{})
	close(w.gate)
	w.mu.Unlock()
	w.end(r)
	return r
}

func isDone(ctx context.Context) bool {
	select {
	case <-ctx.Done():
		return true
	default:
		return false
	}
}

// startedBy is the logical stamp at which the scheduler decided to start job s:
// the stamp of the wake hook of that instant that precedes the job body (the
// body itself may begin later), or the body's own stamp if no hook is known.
func (w *world) startedBy(s *startRec) int64 {
	if s.by != 0 {
		return s.by
	}
	s.by = s.stamp
	for i := len(w.wakes) - 1; i >= 0; i-- {
		if k := w.wakes[i]; k.stamp < s.stamp && k.at.Equal(s.at) {
			s.by = k.stamp
			break
		}
	}
	return s.by
}

// checkCtx judges the contexts returned by Stop. It is exact at any moment for
// "not done while a job started before Stop returned is still running": the
// scheduler goroutine starts the jobs of a wake-up before it can receive the
// stop request, so a wake hook stamped before Stop's return means its jobs were
// started before Stop returned; w.mu is held, so such a job cannot return
// meanwhile. At a quiescent point only it also judges "done once every started
// job has returned". Returns how many (context, running job) pairs it checked.
func (w *world) checkCtx(quiescent bool, where string) (heldPairs int) {
	w.mu.Lock()
	var sig, msg string
	outstanding := 0
	for _, s := range w.starts {
		if s.ret == 0 {
			outstanding++
		}
	}
	for _, o := range w.ops {
		if o.kind != "stop" || o.ctx == nil {
			continue
		}
		done := isDone(o.ctx)
		held := false
		for _, s := range w.starts {
			if s.ret != 0 {
				continue
			}
			by := w.startedBy(s)
			switch {
			case s.stamp < o.call:
				held = true
				heldPairs++
				if done {
					sig = "stop-ctx/done-while-job-running/" + where
					msg = fmt.Sprintf("the context returned by Stop (call stamp %d) is Done although the job of entry %d started at %s (stamp %d) has not returned", o.call, s.e.h, ft(s.at), s.stamp)
				}
			case o.ret != 0 && by < o.ret:
				held = true
				heldPairs++
				rec.Count("stopctx.job_started_between_stop_call_and_return", 1)
				if done {
					sig = "stop-ctx/done-while-started-job-running/" + where
					msg = fmt.Sprintf("the context returned by Stop (call stamp %d, return stamp %d) is Done although the job of entry %d, started at %s by the wake-up stamped %d (job body stamp %d) - i.e. before Stop returned - has not returned", o.call, o.ret, s.e.h, ft(s.at), by, s.stamp)
				}
			}
		}
		if held && !done {
			rec.Count("stopctx.seen_not_done_while_job_blocked", 1)
		}
		if quiescent && outstanding == 0 && !done {
			sig = "stop-ctx/not-done-after-all-jobs-returned/" + where
			msg = fmt.Sprintf("every started job has returned and the system is quiescent, but the context returned by Stop (call stamp %d) is not Done", o.call)
		}
		if quiescent && outstanding == 0 && done {
			rec.Count("stopctx.done_after_jobs_returned", 1)
		}
	}
	w.mu.Unlock()
	if sig != "" {
		w.violation(sig, msg)
	}
	return heldPairs
}

func ft(t time.Time) string {
	if t.IsZero() {
		return "zero"
	}
	return t.UTC().Format("15:04:05.000")
}

func (w *world) violation(sig, msg string) {
	if w.viol.Load() {
		return
	}
	w.viol.Store(true)
	rec.Violation(w.idx, sig, msg, map[string]any{"mode": w.mode, "history": w.hist(), "events": w.dump()})
}

func (w *world) hist() []string {
	w.mu.Lock()
	defer w.mu.Unlock()
	return append([]string(nil), w.history...)
}

func (w *world) dump() []string {
	w.mu.Lock()
	defer w.mu.Unlock()
	var out []string
	for _, e := range w.ents {
		out = append(out, fmt.Sprintf("entry h=%d id=%d %s", e.h, e.id, e.spec))
	}
	for _, o := range w.ops {
		l := fmt.Sprintf("op g=%d %s at=%s call=%d ret=%d", o.g, o.kind, ft(o.at), o.call, o.ret)
		if o.e != nil {
			l += fmt.Sprintf(" h=%d", o.e.h)
		}
		if o.id != 0 {
			l += fmt.Sprintf(" id=%d", o.id)
		}
		if o.placed != "" {
			l += " placed@" + o.placed
		}
		if o.kind == "entries" || o.kind == "entry" {
			var ss []string
			for _, x := range o.snap {
				ss = append(ss, fmt.Sprintf("%d:n=%s,p=%s", x.ID, ft(x.Next), ft(x.Prev)))
			}
			l += " [" + strings.Join(ss, " ") + "]"
		}
		out = append(out, l)
	}
	for i, k := range w.wakes {
		if len(w.wakes) > 300 && i >= 150 && i < len(w.wakes)-150 {
			continue
		}
		out = append(out, fmt.Sprintf("wake at=%s stamp=%d", ft(k.at), k.stamp))
	}
	n := len(w.starts)
	for i, s := range w.starts {
		if n > 400 && i >= 200 && i < n-200 {
			continue
		}
		out = append(out, fmt.Sprintf("start h=%d at=%s stamp=%d ret=%d", s.e.h, ft(s.at), s.stamp, s.ret))
	}
	return out
}

type plan struct {
	mode string // lockstep | jump | racing
}

func TestCheck(t *testing.T) {
	rec = mon.Open("C05")
	defer rec.Close()
	rec.Note("rule", "a case is one history of 10-60 Schedule/AddFunc/Remove/Entries/Entry/Start/Stop/release operations and clock advances run against the real Cron inside a synctest bubble, over 1-8 entries drawn from @every 1/2/3/5/7/2.5s and seconds-resolution specs (equal, nested, co-prime, phase-shifted, unsatisfiable), jobs returning at once or blocking on a gate. (lockstep) default RealClock on virtual time, synctest.Wait after every operation, the multiset of job starts and every Entries/Entry snapshot must EQUAL a reference scheduler built on the real Schedule.Next; sleeps go to exact activation instants, between them and far past them. (jump) the same on internal/vclock, the clock jumps over several activations in one step: one start per due entry per wake-up. (racing) 2-6 goroutines issue operations at chosen virtual instants (mostly whole seconds = activation instants), the scheduler is perturbed at the arm/wake hooks and in 1/3 of the cases parked there while operations are placed; in half of the cases the RealClock's timers deliver through a proxy (hook timer) that can hold a fired timer within its instant, so that a client call of the same instant reaches the select first; an offline judge sweeps the stamped log: exact activation instants, starts optional only where a Remove of that entry or a Stop shares the instant and stamps do not decide. (directed) entries with blocking jobs due at T, the scheduler parked at the wake hook (timer received, nothing started yet) or the arm hook at T, Stop - once or twice - and optionally Remove/Schedule/Entries issued meanwhile, scheduler resumed: no context returned by Stop may be Done while a job started before that Stop returned (wake hook stamp < Stop return stamp) is blocked on the gate, all Done after the release; judged by the racing judge as well. (added-between family, a third of the lockstep/jump cases and sprinkled into the rest) a running Cron with a near (1-3 s) and a far (30 min / 1 h / daily) entry gets one or two entries whose first activation lies strictly between the head's and the far one's, directly followed by one clock advance past the head's and the new entry's activation (just past, exactly onto it, past several of its activations); in jump mode that is ONE wake-up which must start the new entry once and leave Entries with its Prev/Next advanced; in 3/5 of these (and 1/8 of all other jump steps) the scheduler is parked at the arm hook right after that wake-up and Entries / Stop / Remove(new entry) / Schedule is issued before it re-arms: the wake-up began before the call, so the reference has every due entry started and advanced. (life cycle) every start is either Start() or `go Run()` (per-case bias none/mixed/mostly), restarts are Stop->Start or Stop->go Run(), any number of times, with entries added and removed before, between and after; at every quiescent point exactly the Run() call carrying the live scheduler is unreturned (Run returns after Stop). A cron.Logger (WithLogger) is the environment callback on the scheduler goroutine: on stop it can hold the OUTGOING scheduler (Stop has returned, run()/Run() not yet) for the next 1-4 operations - typically the restart, adds/removes and clock advances - and on start, wake, run, added, removed it holds the live scheduler within the instant while the next operation (Stop, Schedule, Remove, Entries, Start ...) is issued from a goroutine; a directed life-cycle family (add, start, [stop held-on-stop, ops, restart, ops] x1-3, stop, long advance, entries, add, start) is in a quarter of the lockstep/jump cases. The sequential reference stays valid because held operations take effect in issue order. (chain) the Cron is built WithChain(probe, W...) with W in {none, Recover, DelayIfStillRunning, SkipIfStillRunning, Recover+Delay, Recover+Skip} (half of the cases none; Delay only in jump mode, because a delayed invocation waits on a sync.Mutex, which freezes a bubble's clock); the harness probe is the outermost wrapper and records what the scheduler does (one start per activation - all oracles above, and Stop's context waits for it), the user job function inside records what the wrapper does and is judged per entry at the end of the case: none/Recover - begins at the activation; Delay - runs of one entry never overlap and the job function of an activation begins at max(activation, return of the entry's previous run); Skip - skipped iff the entry's previous run is still going (either way if it returned at that very instant); jobs of other entries, blocked or not, never matter (counted: on_time_while_other_entry_blocked). A third of the entries under a chain with Recover (an eighth elsewhere) have a job function that ends abnormally on a seeded run (1st-3rd, or every n-th): by panic only where Recover is in the chain, by runtime.Goexit anywhere; a run that ended this way HAS ended (Delay: the next run of the entry follows; Stop's context completes). In chain cases half of the entries block on the gate and releases are more frequent. (location) in 45% of the lockstep/jump/racing cases the Cron has WithLocation(L), L in {+05:30, -03:30, -09:30, +05:30:07, America/New_York, Europe/Berlin (half of these start 0-3 h before a DST transition of the year 2000)}, while the clock hands out times in time.Local/UTC; the long modes then use zone-sensitive specs (hourly, two-hourly, 20-minute, daily ...) with advances of minutes to hours (jump: up to 30 h in one step), the short racing histories see the location through the sub-minute offset +05:30:07 which makes every seconds-resolution spec zone sensitive; the reference evaluates the real Schedule.Next on times converted to L and instants are compared with Equal. Non-trivial = at least one job start was observed and compared; distinct = distinct operation list.")
	rec.Observe("jump: number of armed vclock timers after an operation (more than one would mean an abandoned timer); counted as jump.observed_more_than_one_armed_timer, not judged - the statement does not speak about timers")
	rec.Observe("order of the Entries() slice (sorted by Next as of the last loop iteration, unstable among equals): snapshots are compared as sets keyed by ID")
	rec.Observe("SkipIfStillRunning on the pinned tree hands its token back with a plain statement after j.Run(): after a run of an entry ended by panic (recovered by an outer Recover) or runtime.Goexit every later activation of that entry is skipped (counters chain.skip.observed_skipped_after_{panic,goexit}_of_earlier_run; chain.skip.observed_invoked_after_* stays 0). The scheduler still starts the wrapped job once per activation, which is all the statement speaks about, so this is counted, not judged")
	rec.Note("require", []string{"starts.compared", "lockstep.entries_compared", "jump.multi_activation_jumps", "jump.starts_once_per_wake", "racing.same_instant.total", "racing.ops_at_activation_instant", "loc.zone_sensitive_repeat_starts.lockstep", "loc.zone_sensitive_repeat_starts.jump", "loc.zone_sensitive_repeat_starts.racing", "loc.cases.+05:30", "loc.cases.-03:30", "loc.cases.-09:30", "loc.cases.+05:30:07", "chain.delay.later_run_after_panic", "chain.delay.later_run_after_goexit", "chain.none.later_run_after_panic", "chain.none.later_run_after_goexit", "chain.cases.recover", "chain.cases.delay", "chain.cases.skip", "chain.cases.recover+delay", "chain.cases.recover+skip", "chain.delay.on_time_while_other_entry_blocked", "chain.skip.on_time_while_other_entry_blocked", "chain.none.on_time_while_other_entry_blocked", "chain.delay.delayed_until_previous_run_returned", "chain.skip.skipped_while_previous_run_going", "lifecycle.started_via_run", "lifecycle.stop_of_scheduler_started_via_run", "lifecycle.restart_of_scheduler_started_via_run", "lifecycle.outgoing_scheduler_held_on_stop", "lifecycle.restart_while_outgoing_scheduler_held_on_stop", "lifecycle.run_return_checked", "lifecycle.held_on_start", "lifecycle.held_on_wake", "lifecycle.held_on_run", "lifecycle.held_on_added", "lifecycle.held_on_removed", "lifecycle.held_on_wake.then_stop", "lifecycle.held_on_run.then_stop", "logger.stop", "jump.placed_after_wake.entries", "jump.placed_after_wake.stop", "jump.placed_after_wake.rm-last", "jump.placed_after_wake.add", "jump.placed_after_wake_with_several_due", "between.jump_over_head_and_new_entry", "between.jump_exactly_onto_new_entry", "between.jump_past_several_of_new_entry", "between.lockstep_advance_over_new_entry", "directed.stop_during_wake", "directed.stop_during_wake.no_job_running_yet", "directed.stop_during_arm", "directed.stop_ctx_checked_while_job_blocked", "directed.stop_ctx_checked_after_release", "stopctx.job_started_between_stop_call_and_return", "racing.parked.wake", "racing.parked.arm", "racing.parked.timer", "racing.same_instant.remove_vs_wake.started", "racing.same_instant.remove_vs_wake.not_started", "racing.same_instant.stop_vs_wake.not_started", "racing.same_instant.stop_vs_wake.wake_first_all_due_required", "racing.same_instant.entries_vs_transition.saw_pre", "racing.same_instant.entries_vs_transition.saw_post", "stopctx.seen_not_done_while_job_blocked", "stopctx.done_after_jobs_returned", "restart.recomputed", "hook.wake", "hook.arm"})
	nLock := mon.Pick(900, 40000)
	nJump := mon.Pick(500, 25000)
	nRace := mon.Pick(1000, 35000)
	var ps []plan
	for i := 0; i < nLock; i++ {
		ps = append(ps, plan{"lockstep"})
	}
	for i := 0; i < nJump; i++ {
		ps = append(ps, plan{"jump"})
	}
	for i := 0; i < nRace; i++ {
		ps = append(ps, plan{"racing"})
	}
	for i := mon.Pick(300, 6000); i > 0; i-- {
		ps = append(ps, plan{"directed"})
	}
	rec.Planned(len(ps))
	for idx, pl := range ps {
		if !mon.Mine(idx) {
			continue
		}
		rng := mon.NewRNG("c05", idx)
		switch pl.mode {
		case "lockstep", "jump":
			runLockstep(t, idx, pl.mode, rng)
		case "racing":
			runRacing(t, idx, rng)
		case "directed":
			runDirected(t, idx, rng)
		}
	}
}

// bubble runs fn in a synctest bubble on a goroutine of its own: when the race
// detector reports inside a bubble the testing package ends the calling
// goroutine (runtime.Goexit), which must not end TestCheck - the report is in
// the race log and is judged by the driver. A bubble whose scheduler goroutine
// was taken out by the spin guard is abandoned (it is inert: its goroutines are
// blocked for good and every further harness call on that world is a no-op).
func bubble(t *testing.T, w *world, fn func()) mon.BubbleResult {
	w.abandon = make(chan struct{})
	done := make(chan mon.BubbleResult, 1)
	go func() {
		var res mon.BubbleResult
		defer func() { done <- res }()
		res = mon.Bubble(t, fn)
	}()
	select {
	case res := <-done:
		return res
	case <-w.abandon:
		select {
		case res := <-done:
			return res
		case <-time.After(100 * time.Millisecond): // plumbing only, no oracle depends on it
			rec.Count("abandoned_bubbles_after_spin_guard", 1)
			return mon.BubbleResult{}
		}
	}
}

func finishCase(idx int, w *world, res mon.BubbleResult, key string) {
	cron.VerifHook.Store(nil)
	if res.Deadlock != "" {
		w.violation("bubble-"+strings.ReplaceAll(strings.TrimSpace(strings.SplitN(res.Deadlock, ":", 2)[1]), " ", "-")+"/"+w.mode, res.Deadlock+"; goroutines left: "+strings.Join(res.Stacks, " || "))
	} else if res.Panic != "" {
		w.violation("panic/"+w.mode, res.Panic)
	}
	w.mu.Lock()
	nontrivial := len(w.starts) > 0
	rec.Count("hook.wake", len(w.wakes))
	rec.Count("hook.arm", w.arms)
	rec.Count("hook.timer", w.timerHits)
	for m, n := range w.logCounts {
		rec.Count("logger."+m, n)
	}
	rec.Count("job_starts."+w.mode, len(w.starts))
	if w.zone.set() {
		rec.Count("loc.cases."+w.zone.name, 1)
		first := map[int]bool{}
		rep := 0
		for _, s := range w.starts {
			if s.e.spec.sensitive(w.zone) {
				if first[s.e.h] {
					rep++
				}
				first[s.e.h] = true
			}
		}
		rec.Count("loc.zone_sensitive_repeat_starts."+w.mode, rep)
	}
	w.mu.Unlock()
	rec.Case(idx, key, nontrivial)
	if rec.WantSample() && nontrivial && idx%7 == 0 {
		d := w.dump()
		if len(d) > 60 {
			d = d[:60]
		}
		rec.Sample(map[string]any{"mode": w.mode, "history": w.hist(), "events": d})
	}
}
