package c05

import (
	"fmt"
	"runtime"
	"strings"
	"time"

	"verif/harness/internal/mon"
)

// Life-cycle dimension: the scheduler is started with Start() or with the
// blocking Run() in a goroutine of the harness, and restarted (Stop -> Start /
// Stop -> go Run()) any number of times. A cron.Logger supplied through
// WithLogger is an environment callback running on the scheduler goroutine; it
// is used as a further perturbation point and can hold that goroutine on one
// message ("stop": the outgoing scheduler, after Stop has returned and before
// run()/Run() return; "start", "wake", "run", "added", "removed": the live one,
// always released within the same virtual instant).

type runRec struct {
	call, ret int64
}

type hookLogger struct{ w *world }

func (l hookLogger) Info(msg string, _ ...interface{}) { l.w.logHook(msg) }
func (l hookLogger) Error(err error, msg string, _ ...interface{}) {
	l.w.violation("logger-error/"+l.w.mode, fmt.Sprintf("cron logged an error: %s: %v", msg, err))
}

func (w *world) logHook(msg string) {
	rec.Progress()
	w.mu.Lock()
	if w.logCounts == nil {
		w.logCounts = map[string]int{}
	}
	w.logCounts[msg]++
	if msg == "start" && w.startEv != nil && curGID() == w.startGID {
		// logged by run() on the goroutine of the pending `go Run()` call itself
		select {
		case w.startEv <- struct{}{}:
		default:
		}
	}
	park := w.parkLog != "" && w.parkLog == msg
	if park {
		w.parkLog = ""
		w.logParkedAt = msg
	}
	n := 0
	if w.yield > 0 && w.yieldRng != nil && (msg == "stop" || msg == "start") {
		n = w.yieldRng.Intn(w.yield*4 + 1) // widens the window between Stop returning and run()/Run() returning
	}
	w.mu.Unlock()
	for i := 0; i < n; i++ {
		runtime.Gosched()
	}
	if park {
		w.logParked.Store(true)
		<-w.logResume
	}
}

// releaseLog lets a scheduler goroutine held in the logger go on.
func (w *world) releaseLog() {
	w.mu.Lock()
	w.parkLog = ""
	w.mu.Unlock()
	if w.logParked.Load() {
		w.logParked.Store(false)
		w.logResume <- struct{}{}
	}
}

// startVia starts the scheduler with Start() or with `go Run()`. With Run the
// call is complete once run() has logged "start" (running is set by then) or
// Run has returned at once (the Cron was running already).
func (w *world) startVia(g int, viaRun bool) *opRec {
	if !viaRun {
		return w.start(g)
	}
	if w.dead.Load() {
		return &opRec{kind: "dead"}
	}
	r := w.begin(g, "start", nil, 0)
	ev := make(chan struct{})     // go-ahead for the Run goroutine
	ev2 := make(chan struct{}, 2) // "running now" (run() logged start on that goroutine) or "Run returned"
	rr := &runRec{call: r.call}
	w.mu.Lock()
	w.startEv = ev2
	w.runs = append(w.runs, rr)
	w.mu.Unlock()
	gid := make(chan string, 1)
	go func() {
		gid <- curGID()
		<-ev // startGID is published
		w.c.Run()
		w.mu.Lock()
		rr.ret = w.stamp()
		w.mu.Unlock()
		ev2 <- struct{}{}
	}()
	g0 := <-gid
	w.mu.Lock()
	w.startGID = g0
	w.mu.Unlock()
	ev <- struct{}{}
	<-ev2
	w.mu.Lock()
	w.startEv, w.startGID = nil, ""
	w.mu.Unlock()
	rec.Count("lifecycle.started_via_run", 1)
	w.end(r)
	return r
}

// checkRuns: at a quiescent point, with nobody held in the logger, exactly the
// Run() call that carries the live scheduler (if any) has not returned.
func (w *world) checkRuns(wantLive int, where string) {
	w.mu.Lock()
	live := 0
	var first *runRec
	for _, r := range w.runs {
		if r.ret == 0 {
			live++
			if first == nil {
				first = r
			}
		}
	}
	n := len(w.runs)
	w.mu.Unlock()
	if n > 0 {
		rec.Count("lifecycle.run_return_checked", 1)
	}
	switch {
	case live > wantLive:
		w.violation("run-not-returned-after-stop/"+where, fmt.Sprintf("%d call(s) of Run() have not returned (first one called at stamp %d) although only %d scheduler started through Run is live and the system is quiescent", live, first.call, wantLive))
	case live < wantLive:
		w.violation("run-returned-while-running/"+where, fmt.Sprintf("the scheduler started through Run() is live but that Run() call has returned (%d unreturned, want %d)", live, wantLive))
	}
}

// ---- the directed life-cycle family of the lock-step / jump histories

func genLifecycle(rng *mon.RNG, long bool) []lop {
	via := func() string { return rng.PickStr("", "run", "run") }
	spec := func() schedSpec {
		if long {
			return genSpecLoc(rng)
		}
		return schedSpec{Every: time.Duration(rng.PickInt(1, 1, 2, 3)) * time.Second, Via: rng.PickStr("schedule", "addfunc"), Block: rng.Chance(1, 8)}
	}
	ops := []lop{{Kind: "add", Spec: spec()}, {Kind: "start", How: via()}}
	if rng.Bool() {
		ops = append(ops, lop{Kind: "sleep", How: "exact"})
	}
	for cycles := rng.Range(1, 3); cycles > 0; cycles-- {
		// Stop; the outgoing scheduler is held on its "stop" message for the next 1-4 operations
		between := lifecycleBetween(rng, spec)
		after := lifecycleBetween(rng, spec)
		stop := lop{Kind: "stop", ParkLog: "stop", Hold: len(between) + 1 + rng.Intn(len(after)+1)}
		if rng.Chance(1, 4) {
			stop.ParkLog, stop.Hold = "", 0 // plain restart, natural scheduling only
		}
		ops = append(ops, stop)
		ops = append(ops, between...)
		ops = append(ops, lop{Kind: "start", How: via()})
		ops = append(ops, after...)
		ops = append(ops, lop{Kind: "sleep", How: "exact"}, lop{Kind: "add", Spec: spec()}, lop{Kind: "rm", K: rng.Intn(4)}, lop{Kind: "sleep", How: "exact"})
	}
	// the end of the family: Stop must really stop the restarted scheduler
	d := 3500 * time.Millisecond
	if long {
		d = 2 * time.Hour
	}
	ops = append(ops, lop{Kind: "stop"}, lop{Kind: "sleep", How: "dur", D: d}, lop{Kind: "entries"}, lop{Kind: "add", Spec: spec()}, lop{Kind: "start", How: via()}, lop{Kind: "sleep", How: "exact"})
	return ops
}

// operations between Stop and the restart / right after it: entries added and removed, snapshots, time passing
func lifecycleBetween(rng *mon.RNG, spec func() schedSpec) []lop {
	var ops []lop
	for n := rng.Intn(3); n > 0; n-- {
		switch rng.Intn(4) {
		case 0:
			ops = append(ops, lop{Kind: "add", Spec: spec()})
		case 1:
			ops = append(ops, lop{Kind: "rm", K: rng.Intn(4)})
		case 2:
			ops = append(ops, lop{Kind: "entries"})
		default:
			ops = append(ops, lop{Kind: "sleep", How: "dur", D: time.Duration(rng.Range(200, 2600)) * time.Millisecond})
		}
	}
	return ops
}

func (w *world) logParkedAtIs(msg string) bool { return w.logParkedAtGet() == msg }

func (w *world) logParkedAtGet() string {
	w.mu.Lock()
	defer w.mu.Unlock()
	return w.logParkedAt
}

// curGID is the id of the calling goroutine (from its stack header).
func curGID() string {
	var buf [64]byte
	n := runtime.Stack(buf[:], false)
	f := strings.Fields(string(buf[:n]))
	if len(f) > 1 {
		return f[1]
	}
	return ""
}
