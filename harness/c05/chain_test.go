package c05

import (
	"fmt"
	"runtime"
	"sort"
	"testing/synctest"
	"time"

	"github.com/dapr/kit/cron"

	"verif/harness/internal/mon"
)

// The 'chain' dimension. The Cron is built WithChain(probe, wrappers...): the
// harness's probe is the OUTERMOST wrapper, so it runs first in the goroutine
// the scheduler created for an activation. Its records are "what the scheduler
// does" (one start per activation; they feed every existing oracle, and Stop's
// context waits for the probe to return, i.e. also for an invocation that
// DelayIfStillRunning keeps waiting). The user job function inside records
// "what the wrapper does"; it is judged per ENTRY against the pinned wrapper
// semantics (cron applies the chain per job: one mutex / one token per entry):
//
//	none, recover:  the user job begins at the activation, once
//	delay:          runs of one entry are serialised; the user job of an activation
//	                begins at max(activation, return of the entry's previous run)
//	skip:           an activation is skipped iff the entry's previous run is still going
//
// Other entries never matter.

var chainKinds = []string{"none", "recover", "delay", "skip", "recover+delay", "recover+skip"}

// pickChain: DelayIfStillRunning parks a delayed invocation on a sync.Mutex,
// which is not a durable wait for synctest: the bubble's clock stands still and
// synctest.Wait does not return while one is waiting. Delay chains therefore
// run in jump mode only (own clock, mon.Quiesce as the barrier).
func pickChain(rng *mon.RNG, allowDelay bool) string {
	if rng.Chance(1, 2) {
		return "none"
	}
	if allowDelay && rng.Bool() {
		return rng.PickStr("delay", "delay", "recover+delay")
	}
	for {
		k := chainKinds[1+rng.Intn(len(chainKinds)-1)]
		if allowDelay || chainBase(k) != "delay" {
			return k
		}
	}
}

// barrier is the quiescence barrier of the lock-step runners.
func (w *world) barrier() {
	if chainBase(w.chain) == "delay" {
		mon.Quiesce()
		return
	}
	synctest.Wait()
}

func chainBase(kind string) string {
	switch kind {
	case "delay", "recover+delay":
		return "delay"
	case "skip", "recover+skip":
		return "skip"
	}
	return "none"
}

func (w *world) chainOption() cron.Option {
	ws := []cron.JobWrapper{w.probe}
	switch w.chain {
	case "recover":
		ws = append(ws, cron.Recover(cron.DiscardLogger))
	case "delay":
		ws = append(ws, cron.DelayIfStillRunning(cron.DiscardLogger))
	case "skip":
		ws = append(ws, cron.SkipIfStillRunning(cron.DiscardLogger))
	case "recover+delay":
		ws = append(ws, cron.Recover(cron.DiscardLogger), cron.DelayIfStillRunning(cron.DiscardLogger))
	case "recover+skip":
		ws = append(ws, cron.Recover(cron.DiscardLogger), cron.SkipIfStillRunning(cron.DiscardLogger))
	}
	return cron.WithChain(ws...)
}

// invRec is one invocation of the user job function.
type invRec struct {
	e     *ent
	out   *startRec // the scheduler start (probe record) it belongs to
	at    time.Time
	stamp int64
	ret   int64
	retAt time.Time
	how   string // "" returned | "panic" | "goexit"
}

// probe is the outermost JobWrapper. Schedule calls Chain.Then on the caller's
// goroutine, so the entry being added is the one this goroutine announced.
func (w *world) probe(j cron.Job) cron.Job {
	w.mu.Lock()
	e := w.adding[curGID()]
	w.mu.Unlock()
	if e == nil {
		panic("harness: a job was wrapped outside world.add")
	}
	return cron.FuncJob(func() {
		gid := curGID()
		w.mu.Lock()
		s := &startRec{e: e, at: w.now(), stamp: w.stamp()}
		w.starts = append(w.starts, s)
		w.curOut[gid] = s
		w.mu.Unlock()
		defer func() { // also when the job ends by runtime.Goexit
			w.mu.Lock()
			delete(w.curOut, gid)
			s.ret = w.stamp()
			w.mu.Unlock()
		}()
		j.Run()
	})
}

// genBad gives some entries of a plan a job function that ends abnormally on a
// seeded run: a panic only where a Recover wrapper is in the chain (otherwise
// it would kill the process, by design), runtime.Goexit anywhere (startJob's
// deferred Done and every wrapper's deferred clean-up run).
func genBad(rng *mon.RNG, chain string, s *schedSpec) {
	hasRecover := chain == "recover" || chain == "recover+delay" || chain == "recover+skip"
	switch {
	case hasRecover && rng.Chance(1, 3):
		s.Bad = rng.PickStr("panic", "panic", "goexit")
	case !hasRecover && rng.Chance(1, 8):
		s.Bad = "goexit"
	default:
		return
	}
	s.BadOn = rng.PickInt(1, 1, 2, 3)
	s.BadRep = rng.Chance(1, 3)
}

// job is the user job function of entry e.
func (w *world) job(e *ent) {
	w.mu.Lock()
	e.nInv++
	k := e.nInv
	iv := &invRec{e: e, out: w.curOut[curGID()], at: w.now(), stamp: w.stamp()}
	w.invs = append(w.invs, iv)
	gate := w.gate
	w.mu.Unlock()
	sp := e.spec
	if sp.Bad != "" && (k == sp.BadOn || (sp.BadRep && k%sp.BadOn == 0)) {
		iv.how = sp.Bad
	}
	defer func() {
		w.mu.Lock()
		iv.ret = w.stamp()
		iv.retAt = w.now()
		w.mu.Unlock()
	}()
	if sp.Block {
		<-gate
	}
	switch iv.how {
	case "panic":
		panic(fmt.Sprintf("harness: seeded panic of entry %d, run %d", e.h, k))
	case "goexit":
		runtime.Goexit()
	}
}

// checkChain judges the user-job invocations against the wrapper semantics.
// Call it at a quiescent point with every gate released for good (the end of a
// case): every started job has returned by then.
func (w *world) checkChain(where string) {
	w.mu.Lock()
	base := chainBase(w.chain)
	type per struct {
		outs []*startRec
		invs []*invRec
	}
	by := map[int]*per{}
	get := func(h int) *per {
		if by[h] == nil {
			by[h] = &per{}
		}
		return by[h]
	}
	ofOut := map[*startRec][]*invRec{}
	for _, s := range w.starts {
		get(s.e.h).outs = append(get(s.e.h).outs, s)
	}
	for _, iv := range w.invs {
		get(iv.e.h).invs = append(get(iv.e.h).invs, iv)
		ofOut[iv.out] = append(ofOut[iv.out], iv)
	}
	all := append([]*invRec(nil), w.invs...)
	var sig, msg string
	fail := func(s, m string) {
		if sig == "" {
			sig, msg = "chain/"+w.chain+"/"+s+"/"+where, m
		}
	}
	// was a run of ANOTHER entry in progress when iv began?
	otherBlocked := func(iv *invRec) bool {
		for _, a := range all {
			if a.e != iv.e && a.stamp < iv.stamp && (a.ret == 0 || a.ret > iv.stamp) && a.e.spec.Block {
				return true
			}
		}
		return false
	}
	var hs []int
	for h := range by {
		hs = append(hs, h)
	}
	sort.Ints(hs)
	for _, h := range hs {
		p := by[h]
		sort.Slice(p.invs, func(a, b int) bool { return p.invs[a].stamp < p.invs[b].stamp })
		for _, iv := range p.invs {
			if iv.out == nil || iv.out.e != iv.e {
				fail("invocation-without-scheduler-start", fmt.Sprintf("the job function of entry %d ran (stamp %d) outside a start by the scheduler", h, iv.stamp))
			}
			if iv.ret == 0 {
				fail("job-not-returned-at-the-end", fmt.Sprintf("the job function of entry %d (stamp %d) has not returned although every gate is open", h, iv.stamp))
			}
		}
		for _, o := range p.outs {
			if len(ofOut[o]) > 1 {
				fail("job-invoked-twice-for-one-start", fmt.Sprintf("entry %d: the start at %s ran the job function %d times", h, ft(o.at), len(ofOut[o])))
			}
			if o.ret == 0 {
				fail("wrapped-job-not-returned-at-the-end", fmt.Sprintf("entry %d: the job started at %s has not returned although every gate is open", h, ft(o.at)))
			}
		}
		for i, iv := range p.invs {
			if iv.how != "" {
				rec.Count("chain."+base+".run_ended_by_"+iv.how, 1)
				if i+1 < len(p.invs) && base != "skip" {
					rec.Count("chain."+base+".later_run_after_"+iv.how, 1)
				}
			}
		}
		switch base {
		case "none":
			for _, o := range p.outs {
				ivs := ofOut[o]
				switch {
				case len(ivs) == 0:
					fail("job-not-invoked", fmt.Sprintf("entry %d was started at %s but its job function never ran", h, ft(o.at)))
				case !ivs[0].at.Equal(o.at):
					fail("job-invoked-late", fmt.Sprintf("entry %d was started at %s but its job function began at %s", h, ft(o.at), ft(ivs[0].at)))
				default:
					rec.Count("chain.none.invoked_at_activation", 1)
					if otherBlocked(ivs[0]) {
						rec.Count("chain.none.on_time_while_other_entry_blocked", 1)
					}
				}
			}
		case "delay":
			// runs of one entry are serialised, in some order of the waiting starts
			for i, iv := range p.invs {
				var prev *invRec
				if i > 0 {
					prev = p.invs[i-1]
					if prev.ret == 0 || prev.ret > iv.stamp {
						fail("overlapping-runs-of-one-entry", fmt.Sprintf("entry %d: the job function began (stamp %d) while its previous run (stamp %d) had not returned", h, iv.stamp, prev.stamp))
						continue
					}
				}
				if iv.out == nil {
					continue
				}
				want := iv.out.at
				if prev != nil && prev.retAt.After(want) {
					want = prev.retAt
				}
				if !iv.at.Equal(want) {
					pr := "no earlier run"
					if prev != nil {
						pr = "previous run of this entry returned at " + ft(prev.retAt)
					}
					fail("job-invoked-late", fmt.Sprintf("entry %d: activation started at %s, %s, so its job function is due at %s, but it began at %s", h, ft(iv.out.at), pr, ft(want), ft(iv.at)))
					continue
				}
				if iv.at.Equal(iv.out.at) {
					rec.Count("chain.delay.invoked_at_activation", 1)
					if otherBlocked(iv) {
						rec.Count("chain.delay.on_time_while_other_entry_blocked", 1)
					}
				} else {
					rec.Count("chain.delay.delayed_until_previous_run_returned", 1)
				}
			}
			for _, o := range p.outs {
				if len(ofOut[o]) == 0 {
					fail("job-not-invoked", fmt.Sprintf("entry %d was started at %s but its job function never ran although every run of the entry has returned", h, ft(o.at)))
				}
			}
		case "skip":
			// pinned SkipIfStillRunning gives its token back with a plain statement after
			// j.Run(), not a deferred one: a run that ends by panic (under Recover) or
			// Goexit keeps it, and every later activation of that entry is skipped. The
			// statement speaks about the scheduler's starts only, so this is looked at,
			// not judged: from the first abnormal end on the entry is only counted.
			var abnormal *invRec
			for _, iv := range p.invs {
				if iv.how != "" && abnormal == nil {
					abnormal = iv
				}
			}
			for _, o := range p.outs {
				if abnormal != nil && o.stamp > abnormal.stamp {
					if len(ofOut[o]) == 0 {
						rec.Count("chain.skip.observed_skipped_after_"+abnormal.how+"_of_earlier_run", 1)
					} else {
						rec.Count("chain.skip.observed_invoked_after_"+abnormal.how+"_of_earlier_run", 1)
					}
					continue
				}
				// the entry's last run that began before this start
				var last *invRec
				for _, iv := range p.invs {
					if iv.stamp < o.stamp {
						last = iv
					}
				}
				ivs := ofOut[o]
				switch {
				case last == nil || (last.ret != 0 && last.retAt.Before(o.at)):
					if len(ivs) == 0 {
						fail("job-not-invoked-although-entry-idle", fmt.Sprintf("entry %d was started at %s, no run of this entry was in progress, but its job function was skipped", h, ft(o.at)))
					} else {
						rec.Count("chain.skip.invoked_at_activation", 1)
						if otherBlocked(ivs[0]) {
							rec.Count("chain.skip.on_time_while_other_entry_blocked", 1)
						}
					}
				case last.ret == 0 || last.retAt.After(o.at):
					if len(ivs) > 0 {
						fail("job-invoked-while-previous-run-going", fmt.Sprintf("entry %d was started at %s while its previous run (began %s) was still going, but the job function ran again", h, ft(o.at), ft(last.at)))
					} else {
						rec.Count("chain.skip.skipped_while_previous_run_going", 1)
					}
				default: // the previous run returned at this very instant
					rec.Count("chain.skip.same_instant_either_way", 1)
				}
				if len(ivs) > 0 && !ivs[0].at.Equal(o.at) {
					fail("job-invoked-late", fmt.Sprintf("entry %d was started at %s but its job function began at %s", h, ft(o.at), ft(ivs[0].at)))
				}
			}
		}
	}
	w.mu.Unlock()
	if sig != "" {
		w.violation(sig, msg)
	}
	rec.Count("chain.cases."+w.chain, 1)
}

var _ = time.Second
