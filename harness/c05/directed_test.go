package c05

import (
	"fmt"
	"strings"
	"sync"
	"testing"
	"testing/synctest"
	"time"

	"verif/harness/internal/mon"
)

// Directed mode: Stop placed inside a wake-up. Entries with BLOCKING jobs are
// due at instant T; the scheduler goroutine is parked at the "wake" hook at T
// (timer received, jobs not started yet) or at "arm" at T (jobs just started);
// Stop - once or twice - and optionally Remove/Schedule/Entries are issued from
// helper goroutines (Stop blocks on the stop channel while the scheduler is
// parked); the scheduler is resumed. The jobs of that wake-up were started
// before Stop returned and block on the gate: no context returned by Stop may
// be Done. After the gate is released every one must be Done. The whole log is
// judged by the racing judge as well (nothing starts after Stop returned, every
// due entry starts exactly once, snapshots).

type dplan struct {
	Hook    string // wake | arm
	Period  int    // seconds
	Specs   []schedSpec
	Earlier bool     // a job of an earlier activation is still running at T
	Placed  []string // stop stop2 rm add entries, in launch order
	Restart bool     // Start again afterwards and run one more activation
}

func (d dplan) String() string {
	var ss []string
	for _, s := range d.Specs {
		ss = append(ss, s.String())
	}
	return fmt.Sprintf("hook=%s period=%ds earlier=%v restart=%v entries=[%s] placed=[%s]", d.Hook, d.Period, d.Earlier, d.Restart, strings.Join(ss, " "), strings.Join(d.Placed, " "))
}

func genDirected(rng *mon.RNG) dplan {
	d := dplan{Hook: rng.PickStr("wake", "wake", "wake", "arm"), Period: rng.PickInt(1, 1, 2, 3), Earlier: rng.Chance(1, 3), Restart: rng.Chance(1, 3)}
	n := rng.PickInt(1, 1, 2, 3)
	for i := 0; i < n; i++ {
		s := schedSpec{Every: time.Duration(d.Period) * time.Second, Via: rng.PickStr("schedule", "addfunc"), Block: true}
		if d.Period == 1 && rng.Chance(1, 3) {
			s = schedSpec{Spec: "* * * * * *", Via: "addfunc", Block: true}
		}
		if i > 0 && rng.Chance(1, 4) {
			s.Block = false
		}
		d.Specs = append(d.Specs, s)
	}
	// placed operations: one or two Stops, up to two others, in any order
	d.Placed = []string{"stop"}
	if rng.Chance(1, 3) {
		d.Placed = append(d.Placed, "stop")
	}
	for k := rng.PickInt(0, 0, 1, 2); k > 0; k-- {
		d.Placed = append(d.Placed, rng.PickStr("rm", "add", "entries"))
	}
	for i := len(d.Placed) - 1; i > 0; i-- {
		j := rng.Intn(i + 1)
		d.Placed[i], d.Placed[j] = d.Placed[j], d.Placed[i]
	}
	return d
}

func runDirected(t *testing.T, idx int, rng *mon.RNG) {
	d := genDirected(rng)
	phase := time.Duration(rng.Intn(7200)) * time.Second
	yield := rng.Intn(3)
	desc := fmt.Sprintf("directed phase=%v yield=%d %s", phase, yield, d)
	rec.Begin(idx, desc)
	where := "stop-during-" + d.Hook
	w := &world{idx: idx, mode: "directed", history: []string{d.String()}, yield: yield, yieldRng: mon.NewRNG("c05-yield", idx)}
	res := bubble(t, w, func() {
		time.Sleep(phase)
		base := time.Now().In(time.UTC)
		w.newCron()
		for _, s := range d.Specs {
			w.add(0, s)
		}
		w.start(0)
		T := base.Add(time.Duration(d.Period) * time.Second)
		if d.Earlier {
			T = T.Add(time.Duration(d.Period) * time.Second) // the jobs of the first activation stay blocked
		}
		w.mu.Lock()
		w.parkHook, w.parkAt = d.Hook, T
		w.mu.Unlock()
		time.Sleep(T.Sub(time.Now()))
		mon.Quiesce()
		if !w.parked.Load() {
			rec.Inconclusive(idx, "directed plan did not reach its hook", desc)
			w.mu.Lock()
			w.parkHook = ""
			w.mu.Unlock()
			w.stop(0)
			w.releaseForever(0)
			return
		}
		w.mu.Lock()
		running := 0
		for _, s := range w.starts {
			if s.ret == 0 {
				running++
			}
		}
		w.mu.Unlock()
		var wg sync.WaitGroup
		for _, p := range d.Placed {
			wg.Add(1)
			n0 := len(w.opsSnapshot())
			go func(p string) {
				defer wg.Done()
				switch p {
				case "stop":
					w.stop(0)
				case "rm":
					w.doStep(0, rstep{Kind: "rmany", K: 0}, nil)
				case "add":
					w.add(0, schedSpec{Every: time.Second, Via: "schedule", Block: true})
				case "entries":
					w.entries(0)
				}
			}(p)
			mon.Quiesce()
			for _, r := range w.opsSnapshot()[n0:] {
				w.mu.Lock()
				r.placed = d.Hook
				blocked := r.ret == 0
				w.mu.Unlock()
				if r.kind == "stop" && blocked {
					rec.Count("directed.stop_during_"+d.Hook, 1)
					if running == 0 {
						rec.Count("directed.stop_during_"+d.Hook+".no_job_running_yet", 1)
					}
				}
			}
		}
		w.parked.Store(false)
		w.resume <- struct{}{}
		wg.Wait()
		mon.Quiesce()
		// the jobs of this wake-up are blocked on the gate, every Stop has returned
		if n := w.checkCtx(false, where); n > 0 {
			rec.Count("directed.stop_ctx_checked_while_job_blocked", n)
		}
		w.release(0)
		mon.Quiesce()
		w.checkCtx(true, where)
		rec.Count("directed.stop_ctx_checked_after_release", 1)
		if d.Restart && !w.viol.Load() {
			// restart: one more activation, recomputed from here, then the ordinary end
			w.start(0)
			time.Sleep(time.Duration(d.Period)*time.Second + 300*time.Millisecond)
			synctest.Wait()
		}
		w.stop(0)
		w.checkCtx(false, where)
		w.releaseForever(0)
		synctest.Wait()
		w.checkCtx(true, where)
		time.Sleep(time.Minute)
		synctest.Wait()
	})
	if res.OK() && !w.viol.Load() {
		newJudge(w).run()
	}
	if res.OK() && !w.viol.Load() {
		w.checkChain("directed")
	}
	finishCase(idx, w, res, desc)
}
