package c05

import (
	"sync"
	"time"

	"k8s.io/utils/clock"
)

// holdClock is the production clock.RealClock (virtual time inside the bubble)
// whose timers deliver their firing through a proxy goroutine that passes the
// harness hook "timer" first. Holding the delivery there, within the same
// virtual instant, produces the execution in which the timer's channel
// becomes ready a moment AFTER a client call reached the scheduler's select -
// the select then takes the client call first, finds the timer fired
// (Stop()==false), drains it and re-arms with d <= 0. On its own the runtime
// always resolves that race the other way (a goroutine blocked in select is
// handed the timer case the moment the timer fires).
type holdClock struct {
	clock.RealClock
	w *world
}

func (h holdClock) NewTimer(d time.Duration) clock.Timer {
	t := &holdTimer{rt: time.NewTimer(d), out: make(chan time.Time, 1), quit: make(chan struct{}), w: h.w}
	go t.proxy()
	return t
}

type holdTimer struct {
	mu             sync.Mutex
	fired, stopped bool
	rt             *time.Timer
	out            chan time.Time
	quit           chan struct{}
	w              *world
}

func (t *holdTimer) proxy() {
	select {
	case v := <-t.rt.C:
		t.mu.Lock()
		if t.stopped {
			t.mu.Unlock()
			return
		}
		t.fired = true
		t.mu.Unlock()
		t.w.hook("timer")
		t.out <- v
	case <-t.quit:
	}
}

func (t *holdTimer) C() <-chan time.Time { return t.out }

// Stop keeps time.Timer's contract: true iff the call stopped a pending timer.
func (t *holdTimer) Stop() bool {
	t.mu.Lock()
	defer t.mu.Unlock()
	if t.fired || t.stopped {
		return false
	}
	t.stopped = true
	t.rt.Stop()
	close(t.quit)
	return true
}

func (t *holdTimer) Reset(time.Duration) bool { panic("holdTimer.Reset: not used by cron") }
