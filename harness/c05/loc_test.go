package c05

import (
	"time"

	"verif/harness/internal/mon"
)

// The 'location' dimension: cron.WithLocation(L) while the clock (RealClock in
// the bubble, vclock) hands out times in time.Local / UTC. A spec without a
// TZ= prefix is interpreted in the zone of the time Schedule.Next is given, so
// the reference evaluates the real Schedule.Next on times converted to L;
// instants are compared with Equal / UnixNano, never by zone.

type zone struct {
	name string
	loc  *time.Location // nil: cron's default (time.Local)
	// subMinute: the offset is not a whole number of minutes, so even
	// seconds-resolution specs are zone sensitive (used by the short racing histories)
	subMinute bool
	// DST transitions (UTC instants) in the bubble's year 2000
	transitions []time.Time
}

var zones = func() []*zone {
	zs := []*zone{
		{name: "default"},
		{name: "+05:30", loc: time.FixedZone("+0530", 5*3600+30*60)},
		{name: "-03:30", loc: time.FixedZone("-0330", -(3*3600 + 30*60))},
		{name: "-09:30", loc: time.FixedZone("-0930", -(9*3600 + 30*60))},
		{name: "+05:30:07", loc: time.FixedZone("+053007", 5*3600+30*60+7), subMinute: true},
	}
	if l, err := time.LoadLocation("America/New_York"); err == nil {
		zs = append(zs, &zone{name: "America/New_York", loc: l, transitions: []time.Time{
			time.Date(2000, 4, 2, 7, 0, 0, 0, time.UTC), time.Date(2000, 10, 29, 6, 0, 0, 0, time.UTC)}})
	}
	if l, err := time.LoadLocation("Europe/Berlin"); err == nil {
		zs = append(zs, &zone{name: "Europe/Berlin", loc: l, transitions: []time.Time{
			time.Date(2000, 3, 26, 1, 0, 0, 0, time.UTC), time.Date(2000, 10, 29, 1, 0, 0, 0, time.UTC)}})
	}
	return zs
}()

// pickZone: 55 % of the cases keep the default location.
func pickZone(rng *mon.RNG) *zone {
	if rng.Chance(11, 20) {
		return zones[0]
	}
	return zones[1+rng.Intn(len(zones)-1)]
}

func (z *zone) set() bool { return z != nil && z.loc != nil }

// zone-sensitive specs (minute / hour / day fields) and a few sparse
// zone-independent companions, so that hours of virtual time stay cheap.
var zoneSpecs = []string{
	"0 0 * * * *", "0 30 * * * *", "0 0 */2 * * *", "0 */20 * * * *", "30 59 * * * *", "0 0 0 * * *", "0 30 9 * * *",
	"0 15 2 * * *", "0 0 12 * * 1-5", "0 45 */3 * * *",
}
var sparseSpecs = []string{"0 * * * * *", "0,30 * * * * *", "15 */2 * * * *", "0 */7 * * * *"}
var sparseEveries = []time.Duration{45 * time.Second, 10 * time.Minute, 90 * time.Second, time.Hour}

// genSpecLoc: the entry mix of a long (lock-step / jump) history with a location.
func genSpecLoc(rng *mon.RNG) schedSpec {
	s := schedSpec{Via: rng.PickStr("schedule", "addfunc")}
	switch r := rng.Intn(100); {
	case r < 65:
		s.Spec, s.Zs = zoneSpecs[rng.Intn(len(zoneSpecs))], true
	case r < 85:
		s.Spec = sparseSpecs[rng.Intn(len(sparseSpecs))]
	default:
		s.Every = sparseEveries[rng.Intn(len(sparseEveries))]
	}
	s.Block = rng.Chance(1, 8)
	return s
}

// genPhase: where in the year 2000 the history starts (offset from 2000-01-01 00:00 UTC).
func genPhase(rng *mon.RNG, z *zone) time.Duration {
	if !z.set() {
		p := time.Duration(rng.Intn(7200)) * time.Second
		if rng.Chance(1, 3) {
			p += time.Duration(rng.Range(1, 999)) * time.Millisecond
		}
		return p
	}
	epoch := time.Date(2000, 1, 1, 0, 0, 0, 0, time.UTC)
	p := time.Duration(rng.Intn(48*3600)) * time.Second
	if len(z.transitions) > 0 && rng.Bool() {
		// shortly before a DST transition of L
		p = z.transitions[rng.Intn(len(z.transitions))].Sub(epoch) - time.Duration(rng.Range(1, 3*3600))*time.Second
	}
	if rng.Chance(1, 4) {
		p += time.Duration(rng.Range(1, 999)) * time.Millisecond
	}
	return p
}

// genSleepLoc: clock advances of a long history with a location.
func genSleepLoc(rng *mon.RNG, jump bool) lop {
	ms := time.Duration(rng.Range(1, 999)) * time.Millisecond
	switch r := rng.Intn(100); {
	case r < 45:
		return lop{Kind: "sleep", How: "exact"}
	case r < 55:
		return lop{Kind: "sleep", How: "between"}
	case r < 65:
		return lop{Kind: "sleep", How: "past", D: ms}
	case r < 90:
		d := time.Duration(rng.Range(1, 90)) * time.Minute
		if rng.Chance(1, 3) {
			d += time.Duration(rng.Range(1, 59))*time.Second + ms
		}
		return lop{Kind: "sleep", How: "dur", D: d}
	default:
		h := rng.Range(2, 4)
		if jump {
			h = rng.Range(2, 30) // across several activations of hourly / daily entries in one step
		}
		return lop{Kind: "sleep", How: "dur", D: time.Duration(h)*time.Hour + ms}
	}
}

// sensitive: does the zone change this entry's activation instants?
func (s schedSpec) sensitive(z *zone) bool {
	return z.set() && s.Every == 0 && (s.Zs || z.subMinute)
}
