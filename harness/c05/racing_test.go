package c05

import (
	"fmt"
	"sort"
	"strings"
	"sync"
	"testing"
	"testing/synctest"
	"time"

	"verif/harness/internal/mon"
)

// ---- racing histories: per-goroutine scripts of (virtual instant, operation)

type rstep struct {
	Off  time.Duration // instant, relative to the (whole-second) base
	Kind string        // add rmown rmany entries entry | controller: start stop restart release place
	Spec schedSpec
	K    int
	How  string  // start / restart: "run" = go c.Run() instead of c.Start()
	Hook string  // place: park the scheduler at this hook at this instant
	Ops  []rstep // place: operations issued while it is parked
}

func (s rstep) String() string {
	at := fmt.Sprintf("@%v:", s.Off)
	switch s.Kind {
	case "add":
		return at + "add(" + s.Spec.String() + ")"
	case "rmown", "rmany", "entry":
		return fmt.Sprintf("%s%s(%d)", at, s.Kind, s.K)
	case "start", "restart":
		if s.How == "run" {
			return at + s.Kind + "(go-run)"
		}
	case "place":
		var ss []string
		for _, o := range s.Ops {
			ss = append(ss, strings.TrimPrefix(o.String(), "@0s:"))
		}
		return at + "place(" + s.Hook + ":" + strings.Join(ss, ",") + ")"
	}
	return at + s.Kind
}

func genInstant(rng *mon.RNG, horizon int) time.Duration {
	d := time.Duration(rng.Intn(horizon+1)) * time.Second
	switch r := rng.Intn(100); {
	case r < 84:
	case r < 94:
		d += 500 * time.Millisecond
	default:
		d += time.Duration(rng.Range(1, 999)) * time.Millisecond
	}
	return d
}

func genRacing(rng *mon.RNG) (ctl []rstep, workers [][]rstep, hold bool) {
	hold = rng.Bool()
	var parkCase bool
	ng := rng.Range(2, 6)
	horizon := rng.Range(5, 20)
	parkCase = rng.Chance(1, 3)
	// controller prologue: a dense entry first (so that most whole seconds are activation instants), Start
	first := schedSpec{Spec: "* * * * * *", Via: "addfunc"}
	if rng.Bool() {
		first = schedSpec{Every: time.Second, Via: "schedule"}
	}
	ctl = append(ctl, rstep{Kind: "add", Spec: first})
	for i := rng.Intn(3); i > 0; i-- {
		ctl = append(ctl, rstep{Kind: "add", Spec: genSpec(rng)})
	}
	if rng.Chance(1, 5) {
		ctl = append([]rstep{{Kind: "start"}}, ctl...)
	} else {
		ctl = append(ctl, rstep{Kind: "start"})
	}
	nctl := rng.Range(2, 9)
	var evs []rstep
	for i := 0; i < nctl; i++ {
		s := rstep{Off: genInstant(rng, horizon)}
		if s.Off == 0 {
			s.Off = time.Second
		}
		switch r := rng.Intn(100); {
		case r < 14:
			s.Kind = "stop"
		case r < 26:
			s.Kind = "start"
		case r < 42:
			s.Kind = "restart"
		case r < 56:
			s.Kind = "release"
		case r < 72 || !parkCase:
			s.Kind = "entries"
		default:
			s.Kind = "place"
		}
		evs = append(evs, s)
	}
	if parkCase {
		evs = append(evs, rstep{Off: time.Duration(rng.Range(1, horizon)) * time.Second, Kind: "place"})
	}
	sort.SliceStable(evs, func(i, j int) bool { return evs[i].Off < evs[j].Off })
	for i := range evs {
		if evs[i].Kind != "place" {
			continue
		}
		evs[i].Off = evs[i].Off.Truncate(time.Second)
		evs[i].Hook = rng.PickStr("wake", "wake", "arm")
		if hold {
			evs[i].Hook = rng.PickStr("timer", "timer", "timer", "wake", "arm")
		}
		for n := rng.Range(1, 2); n > 0; n-- {
			o := rstep{}
			switch r := rng.Intn(100); {
			case r < 40:
				o.Kind, o.K = "rmany", rng.Intn(8)
			case r < 60:
				o.Kind, o.Spec = "add", genSpec(rng)
			case r < 75:
				o.Kind = "entries"
			case r < 90:
				o.Kind = "stop"
			default:
				o.Kind = "restart"
			}
			// Start/Stop stay sequential: at most one of them among the placed operations
			if len(evs[i].Ops) > 0 && (o.Kind == "stop" || o.Kind == "restart") {
				if k := evs[i].Ops[0].Kind; k == "stop" || k == "restart" {
					o.Kind = "entries"
				}
			}
			evs[i].Ops = append(evs[i].Ops, o)
		}
	}
	sort.SliceStable(evs, func(i, j int) bool { return evs[i].Off < evs[j].Off })
	ctl = append(ctl, evs...)
	steps := rng.Range(2, 8)
	for g := 0; g < ng; g++ {
		var ws []rstep
		for i := 0; i < steps; i++ {
			s := rstep{Off: genInstant(rng, horizon)}
			switch r := rng.Intn(100); {
			case r < 34:
				s.Kind, s.Spec = "add", genSpec(rng)
			case r < 54:
				s.Kind, s.K = "rmown", rng.Intn(4)
			case r < 66:
				s.Kind, s.K = "rmany", rng.Intn(8)
			case r < 90:
				s.Kind = "entries"
			default:
				s.Kind, s.K = "entry", rng.Intn(8)
			}
			ws = append(ws, s)
		}
		sort.SliceStable(ws, func(i, j int) bool { return ws[i].Off < ws[j].Off })
		workers = append(workers, ws)
	}
	// life cycle: Start() only / mixed / mostly go Run()
	runBias := rng.PickInt(0, 1, 2)
	setVia := func(ss []rstep) {
		for i := range ss {
			if (ss[i].Kind == "start" || ss[i].Kind == "restart") && rng.Intn(2) < runBias {
				ss[i].How = "run"
			}
			setViaOps(ss[i].Ops, rng, runBias)
		}
	}
	setVia(ctl)
	return ctl, workers, hold
}

func setViaOps(ss []rstep, rng *mon.RNG, runBias int) {
	for i := range ss {
		if (ss[i].Kind == "start" || ss[i].Kind == "restart") && rng.Intn(2) < runBias {
			ss[i].How = "run"
		}
	}
}

func runRacing(t *testing.T, idx int, rng *mon.RNG) {
	ctl, workers, hold := genRacing(rng)
	chain := pickChain(rng, false)
	for _, ss := range append([][]rstep{ctl}, workers...) {
		for i := range ss {
			if ss[i].Kind == "add" {
				genBad(rng, chain, &ss[i].Spec)
			}
			for k := range ss[i].Ops {
				if ss[i].Ops[k].Kind == "add" {
					genBad(rng, chain, &ss[i].Ops[k].Spec)
				}
			}
		}
	}
	if chain != "none" {
		blocky := func(ss []rstep) {
			for i := range ss {
				if ss[i].Kind == "add" && rng.Bool() {
					ss[i].Spec.Block = true
				}
				if ss[i].Kind == "entries" && rng.Chance(1, 4) && len(ss[i].Ops) == 0 {
					ss[i].Kind = "release"
				}
				for k := range ss[i].Ops {
					if ss[i].Ops[k].Kind == "add" && rng.Bool() {
						ss[i].Ops[k].Spec.Block = true
					}
				}
			}
		}
		blocky(ctl)
		for _, ws := range workers {
			blocky(ws)
		}
	}
	z := pickZone(rng)
	if z.set() && rng.Bool() {
		for _, c := range zones {
			if c.subMinute {
				z = c // the short racing histories see a location only through a sub-minute offset
			}
		}
	}
	phase := genPhase(rng, z).Truncate(time.Second)
	yield := rng.Intn(4)
	var hs []string
	line := func(g int, ss []rstep) {
		var p []string
		for _, s := range ss {
			p = append(p, s.String())
		}
		hs = append(hs, fmt.Sprintf("g%d: %s", g, strings.Join(p, " ")))
	}
	line(0, ctl)
	for g, ws := range workers {
		line(g+1, ws)
	}
	desc := fmt.Sprintf("racing loc=%s chain=%s phase=%v yield=%d hold=%v %s", z.name, chain, phase, yield, hold, strings.Join(hs, " | "))
	rec.Begin(idx, desc)
	w := &world{idx: idx, mode: "racing", zone: z, chain: chain, hold: hold, history: hs, yield: yield, yieldRng: mon.NewRNG("c05-yield", idx)}
	res := bubble(t, w, func() {
		time.Sleep(phase)
		base := time.Now()
		w.newCron()
		until := func(off time.Duration) {
			if d := base.Add(off).Sub(time.Now()); d > 0 {
				time.Sleep(d)
			}
		}
		var wg sync.WaitGroup
		for g, ws := range workers {
			wg.Add(1)
			go func(g int, ws []rstep) {
				defer wg.Done()
				var own []*ent
				for _, s := range ws {
					until(s.Off)
					if e := w.doStep(g, s, own); e != nil {
						own = append(own, e)
					}
				}
			}(g+1, ws)
		}
		for _, s := range ctl {
			rec.Progress()
			if s.Kind == "place" {
				w.mu.Lock()
				w.parkHook, w.parkAt = s.Hook, base.Add(s.Off).In(time.UTC)
				w.mu.Unlock()
			}
			until(s.Off)
			switch s.Kind {
			case "place":
				w.place(s)
			case "restart":
				w.stop(0)
				w.checkCtx(false, "racing")
				w.startVia(0, s.How == "run")
			case "stop":
				w.stop(0)
				w.checkCtx(false, "racing")
			default:
				w.doStep(0, s, nil)
			}
		}
		wg.Wait()
		w.stop(0)
		w.checkCtx(false, "racing")
		w.releaseForever(0) // after Stop returned nothing starts any more, so no job is left behind on a fresh gate
		synctest.Wait()
		w.checkCtx(true, "racing")
		w.checkRuns(0, "racing")
		time.Sleep(2 * time.Minute)
		synctest.Wait()
	})
	if res.OK() && !w.viol.Load() {
		newJudge(w).run()
	}
	if res.OK() && !w.viol.Load() {
		w.checkChain("racing")
	}
	finishCase(idx, w, res, desc)
}

// doStep performs one scripted operation; returns the entry if it added one.
func (w *world) doStep(g int, s rstep, own []*ent) *ent {
	switch s.Kind {
	case "add":
		return w.add(g, s.Spec).e
	case "rmown":
		if len(own) == 0 {
			w.remove(g, nil, 9999)
			return nil
		}
		e := own[s.K%len(own)]
		w.remove(g, e, e.id)
	case "rmany", "entry":
		w.mu.Lock()
		var known []*ent
		for _, e := range w.ents {
			if e.id != 0 {
				known = append(known, e)
			}
		}
		w.mu.Unlock()
		if len(known) == 0 {
			return nil
		}
		e := known[s.K%len(known)]
		if s.Kind == "entry" {
			w.entry(g, e, e.id)
		} else {
			w.remove(g, e, e.id)
		}
	case "entries":
		w.entries(g)
	case "start":
		w.startVia(g, s.How == "run")
	case "stop":
		w.stop(g)
	case "restart":
		w.stop(g)
		w.startVia(g, s.How == "run")
	case "release":
		w.release(g)
	}
	return nil
}

// place: the scheduler goroutine is (if the hook was reached at this instant)
// parked at s.Hook; issue the placed operations from helper goroutines, wait
// until they have returned or are blocked on the scheduler / on runningMu,
// then resume it - all within one virtual instant.
func (w *world) place(s rstep) {
	mon.Quiesce()
	if !w.parked.Load() {
		w.mu.Lock()
		w.parkHook = ""
		w.mu.Unlock()
		rec.Count("racing.park_not_reached."+s.Hook, 1)
		// the operations are issued anyway (unplaced)
		for _, o := range s.Ops {
			w.doStep(0, o, nil)
		}
		return
	}
	rec.Count("racing.parked."+s.Hook, 1)
	var wg sync.WaitGroup
	for _, o := range s.Ops {
		wg.Add(1)
		n0 := len(w.opsSnapshot())
		go func(o rstep) {
			defer wg.Done()
			w.doStep(0, o, nil)
		}(o)
		q := mon.Quiesce()
		if q.MutexBlocked > 0 {
			rec.Count("racing.placed_op_waiting_on_runningMu", 1)
		}
		for _, r := range w.opsSnapshot()[n0:] {
			if r.g == 0 {
				w.mu.Lock()
				r.placed = s.Hook
				w.mu.Unlock()
				rec.Count("racing.placed."+s.Hook+"."+r.kind, 1)
			}
		}
	}
	w.parked.Store(false)
	w.resume <- struct{}{}
	wg.Wait()
	w.checkCtx(false, "racing")
}

func (w *world) opsSnapshot() []*opRec {
	w.mu.Lock()
	defer w.mu.Unlock()
	return append([]*opRec(nil), w.ops...)
}
