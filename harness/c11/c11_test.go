// Package c11 monitors property C11 (Broadcaster: every value once to every
// subscriber, one common order, no deadlock on departure or Close, nothing
// delivered after Close returns).
//
// Every history runs against the real events/broadcaster inside a synctest
// bubble. The package has no timers, so nothing here is time-driven: readers
// are gated by tokens, stalls are ended by handing out tokens or by
// cancelling, and quiescence is mon.Quiesce() (a stack snapshot that tolerates
// goroutines parked on the broadcaster's mutex), never synctest.Wait().
package c11

import (
	"context"
	"fmt"
	"reflect"
	"runtime"
	"runtime/debug"
	"sort"
	"strings"
	"sync"
	"sync/atomic"
	"testing"
	"unsafe"

	"github.com/dapr/kit/events/broadcaster"

	"verif/harness/internal/mon"
)

var rec *mon.Rec

// outstandingCap is the number of values a subscriber that does not read can
// have outstanding before Broadcast blocks: the 10-slot buffer plus the one in
// the forwarder's hand. Only the lock-step reference model uses it.
const outstandingCap = 11

// ---------------------------------------------------------------- recording

type recv struct {
	v     int
	pre   int64 // stamp taken before the receive operation was started
	stamp int64 // stamp taken after the receive
}

// group is one Subscribe call: one context, any number of channel arguments
// (none at all, one, the same one twice, a nil one, forty).
type group struct {
	subs   []*sub
	ctx    context.Context
	cancel context.CancelFunc
	// guarded by world.mu
	call, ret int64
}

// sub is one subscription (one channel argument of one Subscribe call). A
// subscription normally brings its own fresh channel and reader; it may
// instead re-use the channel of an earlier subscription (owner != nil: a
// second live subscription on the same channel, a duplicate in one variadic
// call, or a re-subscription after the previous one was cancelled) - then
// everything it delivers is read by the owner's reader and lands in the
// owner's got - or bring a nil channel (nilch: nothing can ever be read).
type sub struct {
	id    int
	kind  string // prompt | slow | stalled | leaver | alias | resub | nil
	gated bool   // reads only when handed tokens (until unleashed)
	grp   *group
	ch    chan int
	owner *sub // the subscription whose channel (and reader) this one shares
	nilch bool
	// a self-leaving reader re-subscribes its own channel right after cancelling
	resubNow *group
	// reader behaviour (fixed before the reader starts)
	leaveAfter  int  // >0: the reader cancels its own context after this many receives
	keepReading bool // whether it goes on reading after that
	tokens      chan struct{}
	stop        chan struct{}
	started     bool
	// root goroutine only
	unleashed bool
	given     int
	// guarded by world.mu
	subCall, subRet int64
	cancelAt        int64
	cancelBy        string
	got             []recv
}

type bc struct {
	v, g      int
	call, ret int64
}

type closeRec struct {
	call, ret int64
	// forwarder goroutines found parked inside the broadcaster right after this
	// Close call returned (guarded by world.mu)
	parked []string
}

// nclose is the number of overlapping Close calls issued wherever the
// workload closes the broadcaster.
const nclose = 2

type world struct {
	idx    int
	mode   string
	plan   any
	b      *broadcaster.Broadcaster[int]
	bubble string
	clk    atomic.Int64

	mu     sync.Mutex
	subs   []*sub
	groups []*group
	bcs    []*bc
	closes []*closeRec
	steps  []string

	vmu    sync.Mutex
	viol   bool
	inconc string

	// per-history observations (root goroutine only)
	sawBlockedOnStalled bool
	sawMutexParked      bool
	departWhileBlocked  bool
	departReleased      bool
	closeWhileBlocked   bool
	closeParked         bool
	subscribeParked     bool
	resumeReleased      bool
	demanded            int
	demandedShared      int
}

func (w *world) stamp() int64 { return w.clk.Add(1) }

func (w *world) step(format string, a ...any) {
	w.mu.Lock()
	w.steps = append(w.steps, fmt.Sprintf(format, a...))
	w.mu.Unlock()
	rec.Progress()
}

// guard runs a kit call and turns a panic on the calling goroutine into a
// violation (the call then stays open).
func (w *world) guard(op string, f func()) (ok bool) {
	defer func() {
		if r := recover(); r != nil {
			w.violation("panic/"+op, fmt.Sprintf("%s panicked: %v\n%s", op, r, debug.Stack()))
		}
	}()
	f()
	return true
}

func perturb(r *mon.RNG) {
	if r.Chance(1, 3) {
		for k := r.Intn(4); k >= 0; k-- {
			runtime.Gosched()
		}
	}
}

// rd returns the subscription that owns the channel and the reader.
func (s *sub) rd() *sub {
	if s.owner != nil {
		return s.owner
	}
	return s
}

func (w *world) emptyGroup() *group {
	ctx, cancel := context.WithCancel(context.Background())
	g := &group{ctx: ctx, cancel: cancel}
	w.mu.Lock()
	w.groups = append(w.groups, g)
	w.mu.Unlock()
	return g
}

// addSub adds one subscription to g: on a fresh channel (owner == nil), on the
// channel of owner, or on a nil channel.
func (w *world) addSub(g *group, kind string, owner *sub, nilch bool) *sub {
	w.mu.Lock()
	s := &sub{id: len(w.subs), kind: kind, grp: g}
	switch {
	case nilch:
		s.nilch = true
	case owner != nil:
		s.owner = owner.rd()
		s.ch = s.owner.ch
	default:
		s.ch = make(chan int)
		s.tokens = make(chan struct{}, 4096)
		s.stop = make(chan struct{})
	}
	w.subs = append(w.subs, s)
	g.subs = append(g.subs, s)
	w.mu.Unlock()
	return s
}

func (w *world) newGroup(n int, kind string) *group {
	g := w.emptyGroup()
	for i := 0; i < n; i++ {
		w.addSub(g, kind, nil, false)
	}
	return g
}

// startReader starts the reading goroutine of s (before Subscribe is called;
// it simply blocks until something is sent).
func (w *world) startReader(s *sub) {
	if s.started || s.owner != nil || s.nilch {
		return
	}
	s.started = true
	r := mon.NewRNG(fmt.Sprintf("c11-reader-%d", s.id), w.idx)
	go func() {
		n := 0
		for {
			if s.gated {
				select {
				case <-s.tokens: // closed when unleashed
				case <-s.stop:
					return
				}
			}
			perturb(r)
			pre := w.stamp()
			select {
			case v := <-s.ch:
				w.mu.Lock()
				s.got = append(s.got, recv{v + 1, pre, w.stamp()}) // value -> id
				w.mu.Unlock()
				n++
				if n == s.leaveAfter {
					perturb(r)
					w.cancelSub(s, "self")
					if s.resubNow != nil {
						// re-subscribe the same channel at once, without waiting for the old
						// forwarder (from a goroutine of its own: this reader must go on reading)
						go w.subscribeGroup(s.resubNow)
					}
					if !s.keepReading {
						<-s.stop
						return
					}
				}
			case <-s.stop:
				return
			}
		}
	}()
}

// subscribeGroup performs one Subscribe call for all channels of the group.
func (w *world) subscribeGroup(g *group) {
	chs := make([]chan<- int, len(g.subs))
	w.mu.Lock()
	st := w.stamp()
	g.call = st
	for i, s := range g.subs {
		s.subCall = st
		if !s.nilch {
			chs[i] = s.ch
		}
	}
	w.mu.Unlock()
	if !w.guard("Subscribe", func() { w.b.Subscribe(g.ctx, chs...) }) {
		return
	}
	w.mu.Lock()
	st = w.stamp()
	g.ret = st
	for _, s := range g.subs {
		s.subRet = st
	}
	w.mu.Unlock()
}

func (w *world) broadcast(g int) {
	w.mu.Lock()
	b := &bc{v: len(w.bcs) + 1, g: g, call: w.stamp()}
	w.bcs = append(w.bcs, b)
	w.mu.Unlock()
	// the value passed is id-1, so that the zero value of T is broadcast too
	if !w.guard("Broadcast", func() { w.b.Broadcast(b.v - 1) }) {
		return
	}
	w.mu.Lock()
	b.ret = w.stamp()
	w.mu.Unlock()
}

func (w *world) cancelSub(s *sub, by string) {
	w.mu.Lock()
	for _, m := range s.grp.subs {
		if m.cancelAt == 0 {
			m.cancelAt = w.stamp()
			m.cancelBy = by
		}
	}
	w.mu.Unlock()
	s.grp.cancel()
}

func (w *world) cancelled(s *sub) bool {
	w.mu.Lock()
	defer w.mu.Unlock()
	return s.cancelAt != 0
}

func (w *world) give(s *sub, k int) {
	if !s.gated || s.unleashed || s.tokens == nil {
		return
	}
	for i := 0; i < k; i++ {
		s.tokens <- struct{}{}
	}
	s.given += k
}

func (w *world) unleash(s *sub) {
	if s.gated && !s.unleashed && s.tokens != nil {
		s.unleashed = true
		close(s.tokens)
	}
}

// closeAsync issues nclose overlapping Close calls from separate goroutines.
// Each one, as its very next action after Close returned, looks for forwarder
// goroutines of this bubble that are still PARKED inside the broadcaster: a
// forwarder on its way out after wg.Done() is running or runnable, never
// parked, so a parked one proves that this Close returned before the
// forwarders had finished. Client calls in progress (the other Close, a
// Broadcast or Subscribe waiting for the lock) are not forwarders.
func (w *world) closeAsync() []*closeRec {
	var cs []*closeRec
	w.mu.Lock()
	for i := 0; i < nclose; i++ {
		c := &closeRec{call: w.stamp()}
		w.closes = append(w.closes, c)
		cs = append(cs, c)
	}
	w.mu.Unlock()
	for i, c := range cs {
		c := c
		// the later calls start a few scheduling steps after the first, so that they
		// meet a broadcaster that is already marked closed but still has forwarders
		yield := 0
		if i > 0 {
			yield = int(c.call+int64(w.idx)) % 6
		}
		go func() {
			var left []string
			if !w.guard("Close", func() {
				for k := 0; k < yield; k++ {
					runtime.Gosched()
				}
				w.b.Close()
				for _, g := range mon.BlockedIn("events/broadcaster.(*Broadcaster") {
					kf := g.KitFrame()
					if strings.HasSuffix(kf, ".Close") || strings.HasSuffix(kf, ".Broadcast") || strings.HasSuffix(kf, ".Subscribe") {
						continue
					}
					left = append(left, "["+g.State+"] "+kf)
				}
			}) {
				return
			}
			w.mu.Lock()
			c.ret = w.stamp()
			c.parked = left
			w.mu.Unlock()
			rec.Count("close.overlapping_calls_checked", 1)
		}()
	}
	return cs
}

func (w *world) closeCalled() bool {
	w.mu.Lock()
	defer w.mu.Unlock()
	return len(w.closes) > 0
}

// open returns the number of Broadcast, Subscribe and Close calls that have
// been made and have not returned.
func (w *world) open() (nb, ns, nc int) {
	w.mu.Lock()
	defer w.mu.Unlock()
	for _, b := range w.bcs {
		if b.ret == 0 {
			nb++
		}
	}
	for _, g := range w.groups {
		if g.call != 0 && g.ret == 0 {
			ns++
		}
	}
	for _, c := range w.closes {
		if c.ret == 0 {
			nc++
		}
	}
	return
}

func (w *world) returnedBroadcasts() int {
	w.mu.Lock()
	defer w.mu.Unlock()
	n := 0
	for _, b := range w.bcs {
		if b.ret != 0 {
			n++
		}
	}
	return n
}

func (w *world) delivered() int {
	w.mu.Lock()
	defer w.mu.Unlock()
	n := 0
	for _, s := range w.subs {
		n += len(s.got)
	}
	return n
}

// stalledReaderExists: some subscribed reader is still gated and has not left.
func (w *world) stalledReaderExists() bool {
	w.mu.Lock()
	defer w.mu.Unlock()
	for _, s := range w.subs {
		if s.cancelAt != 0 || s.subCall == 0 {
			continue
		}
		if r := s.rd(); s.nilch || (r.gated && !r.unleashed) {
			return true
		}
	}
	return false
}

func (w *world) quiesce() mon.QuiesceInfo {
	q := mon.Quiesce()
	if !q.OK {
		w.vmu.Lock()
		if w.inconc == "" {
			w.inconc = "mon.Quiesce did not reach quiescence within its spin budget"
		}
		w.vmu.Unlock()
	}
	rec.Progress()
	return q
}

// observe records, at a quiescent point at which the environment may still be
// stalled, what is parked where (evidence only; nothing is judged here).
func (w *world) observe(q mon.QuiesceInfo) (openBroadcasts int) {
	nb, ns, nc := w.open()
	if nb == 0 && (ns+nc > 0 || q.MutexBlocked > 0) && q.OK {
		// a reader that does not read (or a nil channel) can only hold up a Broadcast; Subscribe
		// and Close wait for nothing but the lock, which only a Broadcast holds for long
		d, shape := w.stuck(q)
		w.violation("pending-while-no-broadcast-is-open/"+w.mode+"/open:"+shape, "the bubble is quiescent and no Broadcast call is in progress, but "+d+" (stalled or nil-channel subscribers may still be present: they can hold up a Broadcast, not a Subscribe or a Close); kit goroutines of this bubble: "+strings.Join(w.kitStacks(), " || "))
	}
	if nb > 0 && w.stalledReaderExists() {
		w.sawBlockedOnStalled = true
	}
	if q.MutexBlocked > 0 {
		w.sawMutexParked = true
	}
	if nc > 0 && nb > 0 {
		w.closeParked = true
	}
	if ns > 0 && nb > 0 {
		w.subscribeParked = true
	}
	return nb
}

func (w *world) violation(sig, msg string) {
	w.vmu.Lock()
	if w.viol || w.inconc != "" {
		w.vmu.Unlock()
		return
	}
	w.viol = true
	w.vmu.Unlock()
	w.mu.Lock()
	steps := append([]string{}, w.steps...)
	w.mu.Unlock()
	rec.Violation(w.idx, sig, msg, map[string]any{"mode": w.mode, "plan": w.plan, "steps": steps, "events": w.dump()})
}

func (w *world) violated() bool {
	w.vmu.Lock()
	defer w.vmu.Unlock()
	return w.viol || w.inconc != ""
}

// name renders value id v as g<goroutine>-<value passed to Broadcast>.
func (w *world) name(v int) string {
	if v >= 1 && v <= len(w.bcs) {
		return fmt.Sprintf("g%d-%d", w.bcs[v-1].g, v-1)
	}
	return fmt.Sprintf("?-%d", v-1)
}

func (w *world) dump() []string {
	w.mu.Lock()
	defer w.mu.Unlock()
	var out []string
	for _, b := range w.bcs {
		out = append(out, fmt.Sprintf("broadcast %s call=%d ret=%d", w.name(b.v), b.call, b.ret))
	}
	for _, s := range w.subs {
		var vs []string
		for _, g := range s.got {
			vs = append(vs, fmt.Sprintf("%s#%d", w.name(g.v), g.stamp))
		}
		chn := fmt.Sprintf("own channel, gated=%v unleashed=%v tokens=%d", s.gated, s.unleashed, s.given)
		if s.owner != nil {
			chn = fmt.Sprintf("on the channel of sub %d", s.owner.id)
		} else if s.nilch {
			chn = "nil channel"
		}
		out = append(out, fmt.Sprintf("sub %d %s (%s) subCall=%d subRet=%d cancelAt=%d(%s) got=[%s]",
			s.id, s.kind, chn, s.subCall, s.subRet, s.cancelAt, s.cancelBy, strings.Join(vs, " ")))
	}
	for _, g := range w.groups {
		if g.call == 0 || len(g.subs) == 1 {
			continue
		}
		var args []string
		for _, s := range g.subs {
			switch {
			case s.nilch:
				args = append(args, "nil")
			default:
				args = append(args, fmt.Sprintf("ch%d", s.rd().id))
			}
		}
		out = append(out, fmt.Sprintf("Subscribe(ctx, %s) call=%d ret=%d (subs %v)", strings.Join(args, ", "), g.call, g.ret, subIDs(g.subs)))
	}
	for _, c := range w.closes {
		out = append(out, fmt.Sprintf("close call=%d ret=%d parked-at-return=%v", c.call, c.ret, c.parked))
	}
	return out
}

// ------------------------------------------------------------------- oracle

type subSnap struct {
	id              int
	kind            string
	subCall, subRet int64
	cancelAt        int64
}

// chanSnap is one subscriber channel: its reader's log and every
// subscription that was ever made on it.
type chanSnap struct {
	id   int    // id of the subscription that brought the channel
	kind string // kind of that subscription (reader behaviour)
	open bool   // the reader reads freely (prompt, or gated and unleashed, and it has not stopped reading)
	got  []recv
	subs []subSnap
	k    int // subscriptions whose Subscribe has been called
}

// judge checks the recorded logs against the statement. It is called at
// quiescent points only. Clause (1) (exactly-once) is demanded per
// subscription and only for Broadcast calls that have returned: a returned
// Broadcast has pushed its value towards every subscriber, and a freely
// reading subscriber that is quiescent without it will never get it.
//
// A channel may carry several subscriptions (subscribed again with another
// context, twice in one variadic call, re-subscribed after a cancel). Each
// subscription is entitled to its own copy, and a receive cannot be attributed
// to one of them, so the channel is judged with multiset counts: a value
// arrives at least once per entitled subscription and at most once per
// subscription ever made on the channel.
func (w *world) judge(where string) {
	if w.violated() {
		return
	}
	w.mu.Lock()
	bcs := make([]bc, len(w.bcs))
	for i, b := range w.bcs {
		bcs[i] = *b
	}
	var chans []*chanSnap
	byOwner := map[*sub]*chanSnap{}
	for _, s := range w.subs {
		if s.nilch {
			continue // nothing can be received on a nil channel; only progress is judged
		}
		r := s.rd()
		c := byOwner[r]
		if c == nil {
			// a self-leaving reader that does not keep reading stops once it has left
			stopped := r.leaveAfter > 0 && !r.keepReading && r.cancelAt != 0
			c = &chanSnap{id: r.id, kind: r.kind, open: (!r.gated || r.unleashed) && !stopped, got: append([]recv{}, r.got...)}
			byOwner[r] = c
			chans = append(chans, c)
		}
		c.subs = append(c.subs, subSnap{id: s.id, kind: s.kind, subCall: s.subCall, subRet: s.subRet, cancelAt: s.cancelAt})
		if s.subCall != 0 {
			c.k++
		}
	}
	var closeCall, closeRet int64 // first Close call, earliest Close return
	parkedAtReturn := ""
	for _, c := range w.closes {
		if len(c.parked) > 0 && parkedAtReturn == "" {
			parkedAtReturn = fmt.Sprintf("the Close call made at stamp %d returned (stamp %d) while %d forwarder goroutines of the broadcaster were still parked inside it: %v", c.call, c.ret, len(c.parked), c.parked)
		}
		if closeCall == 0 || c.call < closeCall {
			closeCall = c.call
		}
		if c.ret != 0 && (closeRet == 0 || c.ret < closeRet) {
			closeRet = c.ret
		}
	}
	w.mu.Unlock()

	if parkedAtReturn != "" {
		w.violation("close-returned-with-forwarder-parked/"+w.mode, where+": "+parkedAtReturn)
		return
	}
	for _, c := range chans {
		shared := ""
		if len(c.subs) > 1 {
			shared = "shared-channel/"
		}
		// at most once per subscription, only known values, nothing broadcast after Close returned
		count := map[int]int{}
		for _, g := range c.got {
			if g.v < 1 || g.v > len(bcs) {
				w.violation("unknown-value", fmt.Sprintf("%s: the channel of subscriber %d received %d, which was never passed to Broadcast", where, c.id, g.v-1))
				return
			}
			count[g.v]++
			if count[g.v] > c.k {
				if c.k <= 1 {
					w.violation("delivered-twice", fmt.Sprintf("%s: subscriber %d (%s) received value %s twice", where, c.id, c.kind, w.name(g.v)))
				} else {
					w.violation("delivered-more-often-than-subscribed", fmt.Sprintf("%s: the channel of subscriber %d, on which %d subscriptions were made (%s), received value %s %d times", where, c.id, c.k, subsDesc(c.subs), w.name(g.v), count[g.v]))
				}
				return
			}
			if closeRet != 0 && bcs[g.v-1].call > closeRet {
				w.violation("delivered-after-close-returned", fmt.Sprintf("%s: subscriber %d received value %s whose Broadcast was called (stamp %d) after Close had returned (stamp %d)", where, c.id, w.name(g.v), bcs[g.v-1].call, closeRet))
				return
			}
		}
		// exactly once per entitled subscription
		if closeCall == 0 && c.open {
			for _, b := range bcs {
				if b.ret == 0 {
					continue
				}
				ent := 0
				for _, s := range c.subs {
					if s.subRet != 0 && s.cancelAt == 0 && b.call > s.subRet {
						ent++
					}
				}
				w.demanded += ent
				if ent > 1 {
					w.demandedShared += ent
				}
				if count[b.v] < ent {
					if len(c.subs) == 1 {
						s := c.subs[0]
						w.violation("value-lost/"+w.mode, fmt.Sprintf("%s: subscriber %d (%s, Subscribe returned at stamp %d, never cancelled, reading freely, broadcaster never closed) has not received value %s (Broadcast call=%d ret=%d) although everything is quiescent", where, s.id, c.kind, s.subRet, w.name(b.v), b.call, b.ret))
					} else {
						w.violation("value-lost/"+shared+w.mode, fmt.Sprintf("%s: the channel of subscriber %d carries %d subscriptions (%s); %d of them had returned from Subscribe before Broadcast(%s) was called (call=%d ret=%d) and never cancelled, the reader reads freely and the broadcaster was never closed, so %d copies are due, but the channel received the value %d times although everything is quiescent", where, c.id, len(c.subs), subsDesc(c.subs), ent, w.name(b.v), b.call, b.ret, ent, count[b.v]))
					}
					return
				}
			}
		}
	}
	if cyc := orderCycle(bcs, chans, w.name); cyc != "" {
		w.violation("no-common-order", where+": the precedence graph over values has a cycle: "+cyc)
		return
	}
	rec.Count("judged", 1)
}

func subIDs(subs []*sub) []int {
	var out []int
	for _, s := range subs {
		out = append(out, s.id)
	}
	return out
}

func subsDesc(subs []subSnap) string {
	var out []string
	for _, s := range subs {
		out = append(out, fmt.Sprintf("sub %d %s subCall=%d subRet=%d cancelAt=%d", s.id, s.kind, s.subCall, s.subRet, s.cancelAt))
	}
	return strings.Join(out, "; ")
}

// orderCycle builds the precedence graph and returns a description of a
// shortest cycle, or "". Edges x -> y:
//   - a channel with one subscription received x immediately before y;
//   - a channel with K > 1 subscriptions received every copy of x before the
//     first copy of y, and count(x)+count(y) > K: each subscription delivers a
//     value at most once and in the common order, and by the pigeonhole
//     principle one of them delivered both, x first;
//   - Broadcast(x) returned before Broadcast(y) was called.
func orderCycle(bcs []bc, chans []*chanSnap, name func(int) string) string {
	n := len(bcs)
	// why[x][y]: 0 no edge, -1 real-time order, k+1 channel index k
	why := make([][]int32, n+1)
	for i := range why {
		why[i] = make([]int32, n+1)
	}
	adj := make([][]int, n+1)
	add := func(x, y int, w int32) {
		if why[x][y] == 0 {
			why[x][y] = w
			adj[x] = append(adj[x], y)
		}
	}
	for k, c := range chans {
		if c.k <= 1 {
			for i := 1; i < len(c.got); i++ {
				add(c.got[i-1].v, c.got[i].v, int32(k+1))
			}
			continue
		}
		first, last, cnt := map[int]int{}, map[int]int{}, map[int]int{}
		var vals []int
		for i, g := range c.got {
			if cnt[g.v] == 0 {
				first[g.v] = i
				vals = append(vals, g.v)
			}
			last[g.v] = i
			cnt[g.v]++
		}
		for _, x := range vals {
			for _, y := range vals {
				if x != y && cnt[x]+cnt[y] > c.k && last[x] < first[y] {
					add(x, y, int32(k+1))
				}
			}
		}
	}
	for _, x := range bcs {
		if x.ret == 0 {
			continue
		}
		for _, y := range bcs {
			if x.v != y.v && x.ret < y.call {
				add(x.v, y.v, -1)
			}
		}
	}
	describe := func(x, y int) string {
		if k := why[x][y]; k > 0 {
			if c := chans[k-1]; c.k > 1 {
				return fmt.Sprintf("the channel of subscriber %d (%d subscriptions) received every copy of %s before the first copy of %s, and more copies of the two than it has subscriptions", c.id, c.k, name(x), name(y))
			}
			return fmt.Sprintf("subscriber %d received %s before %s", chans[k-1].id, name(x), name(y))
		}
		return fmt.Sprintf("Broadcast(%s) returned (stamp %d) before Broadcast(%s) was called (stamp %d)", name(x), bcs[x-1].ret, name(y), bcs[y-1].call)
	}
	// Kahn
	indeg := make([]int, n+1)
	for x := 1; x <= n; x++ {
		for _, y := range adj[x] {
			indeg[y]++
		}
	}
	var queue []int
	for x := 1; x <= n; x++ {
		if indeg[x] == 0 {
			queue = append(queue, x)
		}
	}
	done := 0
	removed := make([]bool, n+1)
	for len(queue) > 0 {
		x := queue[0]
		queue = queue[1:]
		removed[x] = true
		done++
		for _, y := range adj[x] {
			indeg[y]--
			if indeg[y] == 0 {
				queue = append(queue, y)
			}
		}
	}
	if done == n {
		return ""
	}
	// shortest cycle among the remaining nodes (BFS from each)
	var best []int
	for s := 1; s <= n; s++ {
		if removed[s] {
			continue
		}
		prev := map[int]int{}
		q := []int{s}
		found := false
		for len(q) > 0 && !found {
			x := q[0]
			q = q[1:]
			for _, y := range adj[x] {
				if removed[y] {
					continue
				}
				if y == s {
					path := []int{x}
					for z := x; z != s; z = prev[z] {
						path = append([]int{prev[z]}, path...)
					}
					if best == nil || len(path) < len(best) {
						best = path
					}
					found = true
					break
				}
				if _, ok := prev[y]; !ok && y != s {
					prev[y] = x
					q = append(q, y)
				}
			}
		}
	}
	var out []string
	for i, x := range best {
		out = append(out, describe(x, best[(i+1)%len(best)]))
	}
	return strings.Join(out, "; ")
}

// stuck describes what is still pending at a quiescent point ("" if nothing).
func (w *world) stuck(q mon.QuiesceInfo) (desc, shape string) {
	nb, ns, nc := w.open()
	if nb+ns+nc == 0 && q.MutexBlocked == 0 {
		return "", ""
	}
	var kinds []string
	if nb > 0 {
		kinds = append(kinds, "Broadcast")
	}
	if ns > 0 {
		kinds = append(kinds, "Subscribe")
	}
	if nc > 0 {
		kinds = append(kinds, "Close")
	}
	if len(kinds) == 0 {
		kinds = append(kinds, "forwarder")
	}
	return fmt.Sprintf("%d Broadcast, %d Subscribe and %d Close calls have not returned; %d goroutines wait on a mutex %v", nb, ns, nc, q.MutexBlocked, q.MutexFrames), strings.Join(kinds, "+")
}

// kitStacks returns the kit stacks of this bubble's goroutines only (the
// process may still hold goroutines leaked by earlier wedged cases).
func (w *world) kitStacks() []string {
	var out []string
	for _, g := range mon.ParseStacks(mon.Stacks()) {
		if g.Bubble != w.bubble || g.KitFrame() == "" {
			continue
		}
		f := g.Frames
		if len(f) > 6 {
			f = f[:6]
		}
		out = append(out, "["+g.State+"] "+strings.Join(f, " <- "))
	}
	sort.Strings(out)
	return out
}

func ownBubble() string {
	buf := make([]byte, 512)
	n := runtime.Stack(buf, false)
	gs := mon.ParseStacks(string(buf[:n]))
	if len(gs) == 0 {
		return ""
	}
	return gs[0].Bubble
}

// wedge reports a bounded-progress violation: the environment is resolved
// (every stalled reader has resumed or left), everything is quiescent, and
// kit calls are still pending.
func (w *world) wedge(resolvedBy, desc, shape string) {
	w.violation("wedge/"+w.mode+"/"+resolvedBy+"/open:"+shape,
		fmt.Sprintf("every stalled reader has resumed or left (%s) and the bubble is quiescent, but %s; kit goroutines of this bubble: %s", resolvedBy, desc, strings.Join(w.kitStacks(), " || ")))
}

// emergencyRelease is used only after a violation has been recorded, to be
// able to leave the bubble: it marks the broadcaster closed and closes its
// close channel behind its back, which releases a Broadcast stuck in its
// select and lets the forwarders exit.
func emergencyRelease(b *broadcaster.Broadcaster[int]) (ok bool) {
	defer func() {
		if recover() != nil {
			ok = false
		}
	}()
	v := reflect.ValueOf(b).Elem()
	closed, closeCh := v.FieldByName("closed"), v.FieldByName("closeCh")
	if !closed.IsValid() || !closeCh.IsValid() || closed.Type() != reflect.TypeOf(atomic.Bool{}) || closeCh.Type() != reflect.TypeOf(make(chan struct{})) {
		return false
	}
	cb := (*atomic.Bool)(unsafe.Pointer(closed.UnsafeAddr()))
	cc := (*chan struct{})(unsafe.Pointer(closeCh.UnsafeAddr()))
	if cb.CompareAndSwap(false, true) {
		close(*cc)
	}
	return true
}

// cleanup leaves the bubble in a state from which the root may return.
func (w *world) cleanup() {
	w.mu.Lock()
	subs := append([]*sub{}, w.subs...)
	w.mu.Unlock()
	if w.violated() {
		for _, s := range subs {
			w.unleash(s)
			s.grp.cancel()
		}
		if !w.closeCalled() {
			w.closeAsync()
		}
		q := mon.Quiesce()
		if d, _ := w.stuck(q); d != "" {
			if emergencyRelease(w.b) {
				rec.Count("emergency_release_used", 1)
			}
			mon.Quiesce()
		}
	}
	for _, s := range subs {
		if s.stop != nil {
			close(s.stop)
		}
	}
}

// ------------------------------------------------------------- racing mode

type subPlan struct {
	Kind        string `json:"kind"`
	Late        bool   `json:"late,omitempty"`
	Delay       int    `json:"delay,omitempty"`
	Pair        bool   `json:"pair,omitempty"` // shares context and Subscribe call with the previous subscriber
	Initial     int    `json:"initial,omitempty"`
	Rounds      []int  `json:"rounds,omitempty"`
	Final       string `json:"final,omitempty"` // unleash | cancel (gated subscribers)
	Leave       string `json:"leave,omitempty"` // self | racing | at-blocked (leavers)
	LeaveAfter  int    `json:"leave_after,omitempty"`
	KeepReading bool   `json:"keep_reading,omitempty"`
	// channel shape: "" fresh channel | same: the channel of subscriber Owner, subscribed again with
	// another context | dup: the channel of the previous argument of the same (variadic) Subscribe
	// call | nil: a nil channel (nothing can be read; it can only leave)
	Shape string `json:"shape,omitempty"`
	Owner int    `json:"owner,omitempty"`
	// Resub: after this subscription was cancelled its channel is subscribed again with a new
	// context: now = at once, without waiting for the old forwarder | quiescent = after quiescence
	Resub string `json:"resub,omitempty"`
}

type racePlan struct {
	NB        int       `json:"broadcasters"`
	Per       []int     `json:"per_broadcaster"`
	Subs      []subPlan `json:"subs"`
	Close     string    `json:"close"` // end | blocked | racing | mid-resolve
	CloseAt   int       `json:"close_delay,omitempty"`
	AtBlocked []string  `json:"at_blocked,omitempty"`
	Order     []int     `json:"resolve_order,omitempty"`
	// Args: one more Subscribe call (own context) with a particular argument list:
	// nil-first | nil-middle | nil-last (two fresh prompt channels and a nil one), empty (no
	// channel at all), long (40 fresh prompt channels); ArgsLate: made while the broadcasters run
	Args     string `json:"args,omitempty"`
	ArgsLate bool   `json:"args_late,omitempty"`
}

func (p *racePlan) String() string {
	var ss []string
	for _, s := range p.Subs {
		d := s.Kind
		if s.Late {
			d += fmt.Sprintf("+late%d", s.Delay)
		}
		if s.Pair {
			d += "+pair"
		}
		if s.Kind == "slow" || s.Kind == "stalled" {
			d += fmt.Sprintf("(%d;%v;%s)", s.Initial, s.Rounds, s.Final)
		}
		if s.Kind == "leaver" {
			d += fmt.Sprintf("(%s;%d;%v)", s.Leave, s.LeaveAfter, s.KeepReading)
		}
		if s.Shape != "" {
			d += fmt.Sprintf("+%s:%d", s.Shape, s.Owner)
		}
		if s.Resub != "" {
			d += "+resub-" + s.Resub
		}
		ss = append(ss, d)
	}
	return fmt.Sprintf("b=%v subs=[%s] close=%s/%d at-blocked=%v order=%v args=%s/%v", p.Per, strings.Join(ss, " "), p.Close, p.CloseAt, p.AtBlocked, p.Order, p.Args, p.ArgsLate)
}

func genRace(rng *mon.RNG) *racePlan {
	p := &racePlan{NB: rng.Range(1, 4)}
	ns := rng.Range(1, 5)
	gated := false
	for i := 0; i < ns; i++ {
		sp := subPlan{}
		switch r := rng.Intn(100); {
		case r < 30:
			sp.Kind = "prompt"
		case r < 50:
			sp.Kind = "slow"
			sp.Initial = rng.Range(1, 6)
			for k := rng.Range(1, 3); k > 0; k-- {
				sp.Rounds = append(sp.Rounds, rng.Range(1, 4))
			}
			sp.Final = "unleash"
			if rng.Chance(1, 4) {
				sp.Final = "cancel"
			}
			gated = true
		case r < 80:
			sp.Kind = "stalled"
			for k := rng.Range(0, 2); k > 0; k-- {
				sp.Rounds = append(sp.Rounds, rng.PickInt(1, 1, 2, 3, 5, 11, 12, 13))
			}
			sp.Final = rng.PickStr("cancel", "unleash")
			gated = true
		default:
			sp.Kind = "leaver"
			sp.Leave = rng.PickStr("self", "self", "racing", "at-blocked")
			sp.LeaveAfter = rng.Range(1, 14)
			sp.KeepReading = rng.Bool()
		}
		sp.Late = rng.Chance(1, 4)
		sp.Delay = rng.Intn(40)
		if i > 0 && rng.Chance(1, 8) {
			sp.Pair = true
			sp.Late, sp.Delay = p.Subs[i-1].Late, p.Subs[i-1].Delay
		}
		// channel shapes other than a fresh channel
		switch r := rng.Intn(100); {
		case r < 14 && i > 0:
			var fresh []int
			for j, q := range p.Subs {
				if q.Shape == "" {
					fresh = append(fresh, j)
				}
			}
			if len(fresh) > 0 {
				sp = subPlan{Kind: "prompt", Shape: "same", Owner: fresh[rng.Intn(len(fresh))], Late: sp.Late, Delay: sp.Delay, Pair: sp.Pair}
			}
		case r < 20 && i > 0 && p.Subs[i-1].Shape != "nil":
			o := i - 1
			if p.Subs[o].Shape != "" {
				o = p.Subs[o].Owner
			}
			sp = subPlan{Kind: "prompt", Shape: "dup", Owner: o, Pair: true, Late: p.Subs[i-1].Late, Delay: p.Subs[i-1].Delay}
		case r < 24:
			sp = subPlan{Kind: "nil", Shape: "nil", Final: "cancel", Late: sp.Late, Delay: sp.Delay, Pair: sp.Pair}
			gated = true
		}
		if sp.Shape == "" && (sp.Kind == "leaver" || sp.Final == "cancel") && rng.Chance(2, 5) {
			sp.Resub = rng.PickStr("now", "quiescent")
		}
		p.Subs = append(p.Subs, sp)
	}
	total := rng.Range(1, 24)
	if gated {
		total = rng.Range(13, 36)
	}
	p.Per = make([]int, p.NB)
	for i := 0; i < total; i++ {
		p.Per[rng.Intn(p.NB)]++
	}
	switch r := rng.Intn(100); {
	case r < 45:
		p.Close = "end"
	case r < 70:
		p.Close = "blocked"
	case r < 85:
		p.Close = "racing"
		p.CloseAt = rng.Intn(200)
	default:
		p.Close = "mid-resolve"
	}
	for _, a := range []string{"subscribe", "cancel-prompt", "extra-broadcast"} {
		if rng.Chance(1, 4) {
			p.AtBlocked = append(p.AtBlocked, a)
		}
	}
	switch r := rng.Intn(100); {
	case r < 15:
		p.Args = rng.PickStr("nil-first", "nil-middle", "nil-last")
	case r < 19:
		p.Args = "empty"
	case r < 22:
		p.Args = "long"
	}
	p.ArgsLate = rng.Chance(1, 3)
	// order in which gated subscribers are finally resolved
	for i, sp := range p.Subs {
		if sp.Final != "" {
			p.Order = append(p.Order, i)
		}
	}
	for i := len(p.Order) - 1; i > 0; i-- {
		j := rng.Intn(i + 1)
		p.Order[i], p.Order[j] = p.Order[j], p.Order[i]
	}
	return p
}

func race(w *world, p *racePlan) {
	// subscriptions: records and readers first, Subscribe calls now or late
	nplan := len(p.Subs)
	var groups, late []*group
	var lateDelay []int
	for i := 0; i < nplan; {
		n := 1
		for i+n < nplan && p.Subs[i+n].Pair {
			n++
		}
		g := w.emptyGroup()
		for k := 0; k < n; k++ {
			pl := p.Subs[i+k]
			var owner *sub
			if pl.Shape == "same" || pl.Shape == "dup" {
				owner = w.subs[pl.Owner]
			}
			s := w.addSub(g, pl.Kind, owner, pl.Shape == "nil")
			if pl.Shape == "" {
				s.gated = pl.Kind == "slow" || pl.Kind == "stalled"
				if pl.Kind == "leaver" && pl.Leave == "self" {
					s.leaveAfter, s.keepReading = pl.LeaveAfter, pl.KeepReading
				}
			}
		}
		groups = append(groups, g)
		if p.Subs[i].Late {
			late = append(late, g)
			lateDelay = append(lateDelay, p.Subs[i].Delay)
		}
		i += n
	}
	subs := append([]*sub{}, w.subs[:nplan]...)
	// re-subscriptions of a channel after its subscription was cancelled; a reader whose channel
	// carries further subscriptions goes on reading after it left
	resub := make([]*group, nplan)
	resubDone := make([]bool, nplan)
	for i, pl := range p.Subs {
		if pl.Shape == "same" || pl.Shape == "dup" {
			subs[pl.Owner].keepReading = true
		}
		if pl.Resub != "" {
			g2 := w.emptyGroup()
			w.addSub(g2, "resub-"+pl.Resub, subs[i], false)
			resub[i] = g2
			subs[i].keepReading = true
			if pl.Kind == "leaver" && pl.Leave == "self" && pl.Resub == "now" {
				subs[i].resubNow = g2
				resubDone[i] = true
			}
		}
	}
	// doResub subscribes channel i again if that is due (when = now | quiescent)
	doResub := func(i int, when string) bool {
		if resub[i] == nil || resubDone[i] || p.Subs[i].Resub != when || !w.cancelled(subs[i]) {
			return false
		}
		resubDone[i] = true
		w.step("subscribe the channel of sub %d again (%s)", i, when)
		go w.subscribeGroup(resub[i])
		return true
	}
	resubQuiescent := func() {
		any := false
		for i := range p.Subs {
			if doResub(i, "quiescent") {
				any = true
			}
		}
		if any {
			w.observe(w.quiesce())
		}
	}
	for i, s := range subs {
		w.startReader(s)
		if p.Subs[i].Initial > 0 {
			w.give(s, p.Subs[i].Initial)
		}
	}
	// the Subscribe call with a particular argument list
	var argGroup *group
	if p.Args != "" {
		argGroup = w.emptyGroup()
		switch p.Args {
		case "empty":
		case "long":
			for k := 0; k < 40; k++ {
				w.startReader(w.addSub(argGroup, "prompt", nil, false))
			}
		default:
			pos := map[string]int{"nil-first": 0, "nil-middle": 1, "nil-last": 2}[p.Args]
			for k := 0; k < 3; k++ {
				if k == pos {
					w.addSub(argGroup, "nil", nil, true)
				} else {
					w.startReader(w.addSub(argGroup, "prompt", nil, false))
				}
			}
		}
		groups = append(groups, argGroup)
		if p.ArgsLate {
			late = append(late, argGroup)
			lateDelay = append(lateDelay, 7)
		}
	}
	isLate := map[*group]bool{}
	for _, g := range late {
		isLate[g] = true
	}
	for _, g := range groups {
		if !isLate[g] {
			w.subscribeGroup(g)
		}
	}

	start := make(chan struct{})
	for g := 0; g < p.NB; g++ {
		g, n := g, p.Per[g]
		r := mon.NewRNG(fmt.Sprintf("c11-b%d", g), w.idx)
		go func() {
			<-start
			for i := 0; i < n; i++ {
				perturb(r)
				w.broadcast(g)
			}
		}()
	}
	for i, g := range late {
		g, d := g, lateDelay[i]
		go func() {
			<-start
			for k := 0; k < d; k++ {
				runtime.Gosched()
			}
			w.subscribeGroup(g)
		}()
	}
	for i, sp := range p.Subs {
		if sp.Kind == "leaver" && sp.Leave == "racing" {
			s, d := subs[i], sp.Delay+sp.LeaveAfter*3
			var again *group
			if sp.Resub == "now" {
				again = resub[i]
				resubDone[i] = true
			}
			go func() {
				<-start
				for k := 0; k < d; k++ {
					runtime.Gosched()
				}
				w.cancelSub(s, "racing")
				if again != nil {
					w.subscribeGroup(again) // at once, without waiting for the old forwarder
				}
			}()
		}
	}
	if p.Close == "racing" {
		d := p.CloseAt
		go func() {
			<-start
			for k := 0; k < d; k++ {
				runtime.Gosched()
			}
			w.closeAsync()
		}()
	}
	w.step("start %d broadcasters, %d late subscribe calls", p.NB, len(late))
	close(start)

	q := w.quiesce()
	nbOpen := w.observe(q)
	w.step("quiescent: %d Broadcast open, %d mutex-parked, delivered %d", nbOpen, q.MutexBlocked, w.delivered())
	// exactly-once is due at every quiescent point, stalled readers or not: a Broadcast that has
	// returned has handed its value to every subscription, and a freely reading subscriber
	// that is quiescent without it will never get it
	w.judge("first quiescent point (stalled readers may still be present)")
	resubQuiescent()

	// operations placed at the (possibly blocked) quiescent point
	if p.Close == "blocked" {
		if nbOpen > 0 {
			w.closeWhileBlocked = true
		}
		w.step("close (async) with %d Broadcast open", nbOpen)
		w.closeAsync()
		w.observe(w.quiesce())
	}
	for _, a := range p.AtBlocked {
		switch a {
		case "subscribe":
			g := w.newGroup(1, "prompt")
			w.startReader(g.subs[0])
			w.step("subscribe prompt (async)")
			go w.subscribeGroup(g)
		case "cancel-prompt":
			for i, sp := range p.Subs {
				if sp.Kind == "prompt" {
					w.step("cancel prompt subscriber %d", i)
					w.cancelSub(subs[i], "root")
					break
				}
			}
		case "extra-broadcast":
			w.step("one more broadcaster (2 values)")
			g := p.NB
			go func() {
				w.broadcast(g)
				w.broadcast(g)
			}()
		}
		w.observe(w.quiesce())
	}
	for i, sp := range p.Subs {
		if sp.Kind == "leaver" && sp.Leave == "at-blocked" {
			w.step("cancel leaver %d", i)
			w.cancelSub(subs[i], "root")
			doResub(i, "now")
		}
	}
	for i := range p.Subs {
		if resub[i] != nil && !resubDone[i] && p.Subs[i].Resub == "quiescent" && w.cancelled(subs[i]) {
			w.observe(w.quiesce()) // the re-subscription comes after the departure has settled
			resubQuiescent()
			break
		}
	}

	// slow and stalled readers get tokens in small batches
	for r := 0; r < 3; r++ {
		any := false
		for i, sp := range p.Subs {
			if len(sp.Rounds) > r && !w.cancelled(subs[i]) {
				w.give(subs[i], sp.Rounds[r])
				w.step("tokens sub %d +%d", i, sp.Rounds[r])
				any = true
			}
		}
		if any {
			w.observe(w.quiesce())
			w.judge("after tokens (stalled readers may still be present)")
		}
	}

	// every gated reader finally resumes (unleash) or leaves (cancel)
	resolvedBy := map[string]bool{}
	for n, i := range p.Order {
		s, sp := subs[i], p.Subs[i]
		nbBefore, _, _ := w.open()
		retBefore := w.returnedBroadcasts()
		if sp.Final == "cancel" {
			if nbBefore > 0 && !w.cancelled(s) {
				w.departWhileBlocked = true
			}
			w.step("cancel gated sub %d (%d Broadcast open)", i, nbBefore)
			w.cancelSub(s, "root")
			doResub(i, "now")
			resolvedBy["left"] = true
		} else {
			w.step("unleash gated sub %d (%d Broadcast open)", i, nbBefore)
			w.unleash(s)
			resolvedBy["resumed"] = true
		}
		q = w.quiesce()
		w.observe(q)
		if nbBefore > 0 && w.returnedBroadcasts() > retBefore {
			if sp.Final == "cancel" {
				w.departReleased = true
			} else {
				w.resumeReleased = true
			}
		}
		resubQuiescent()
		if n == 0 && p.Close == "mid-resolve" {
			nb, _, _ := w.open()
			if nb > 0 {
				w.closeWhileBlocked = true
			}
			w.step("close (async) with %d Broadcast open", nb)
			w.closeAsync()
			w.observe(w.quiesce())
		}
	}
	if argGroup != nil && strings.HasPrefix(p.Args, "nil") {
		// the Subscribe call that included a nil channel leaves (one context for all its channels)
		nb, _, _ := w.open()
		if nb > 0 {
			w.departWhileBlocked = true
		}
		w.step("cancel the Subscribe(%s) call's context (%d Broadcast open)", p.Args, nb)
		w.cancelSub(argGroup.subs[0], "root")
		resolvedBy["left"] = true
		w.observe(w.quiesce())
	}
	resubQuiescent()
	// every gated reader finally reads freely, also one whose subscription has left: its
	// channel may carry other subscriptions (same channel subscribed again, re-subscribed)
	for _, s := range subs {
		w.unleash(s)
	}
	how := "no stalled reader"
	if resolvedBy["left"] && resolvedBy["resumed"] {
		how = "left+resumed"
	} else if resolvedBy["left"] {
		how = "left"
	} else if resolvedBy["resumed"] {
		how = "resumed"
	}
	finish(w, how)
}

// finish: the environment is resolved. Demand progress, judge, close, check
// that the closed broadcaster delivers nothing.
func finish(w *world, how string) {
	q := w.quiesce()
	if w.violated() {
		return
	}
	if d, shape := w.stuck(q); d != "" {
		w.wedge(how, d, shape)
		return
	}
	w.judge("environment resolved")
	if w.violated() {
		return
	}
	if !w.closeCalled() {
		if w.idx%2 == 0 {
			// a crowd of prompt subscribers: their forwarders all leave at once when the
			// broadcaster closes and queue up on its lock, which is when an overlapping
			// Close call that does not wait would return too early
			g := w.newGroup(8, "prompt")
			for _, s := range g.subs {
				w.startReader(s)
			}
			w.step("subscribe 8 more prompt subscribers (one call)")
			go w.subscribeGroup(g)
			q = w.quiesce()
			if d, shape := w.stuck(q); d != "" {
				w.wedge(how+"+subscribe", d, shape)
				return
			}
			rec.Count("close.with_crowd_of_forwarders", 1)
		}
		w.step("close")
		w.closeAsync()
		q = w.quiesce()
		if d, shape := w.stuck(q); d != "" {
			w.wedge(how+"+close", d, shape)
			return
		}
	}
	before := w.delivered()
	// after Close returned: Broadcast and Subscribe are no-ops
	w.step("broadcast + subscribe after Close returned")
	g := w.newGroup(1, "prompt")
	w.startReader(g.subs[0])
	go func() {
		w.broadcast(99)
		w.subscribeGroup(g)
		w.broadcast(99)
	}()
	q = w.quiesce()
	if d, shape := w.stuck(q); d != "" {
		w.wedge(how+"+after-close", d, shape)
		return
	}
	w.judge("after Close returned")
	if n := w.delivered() - before; n > 0 {
		rec.Count("recv_after_close_returned_and_quiescent", n)
		rec.Observe("values were received after Close had returned and the bubble had been quiescent (not judged: only a value whose Broadcast was called after Close returned counts)")
	}
	rec.Count("post_close_checked", 1)
}

// ----------------------------------------------------------- lock-step mode

type lsub struct {
	s       *sub
	live    bool // subscribed, not cancelled, broadcaster open
	inf     bool // reads freely
	credit  int
	pending []int
	must    []int
	may     []int
	step    []int
}

type lmodel struct {
	subs     []*lsub
	closed   bool
	cur      *lbc
	parked   *lop
	closeRan bool // a parked Close ran during this step
	nextV    int
	expRet   map[int]bool    // value -> Broadcast expected to have returned
	expCall  map[*group]bool // Subscribe call expected to have returned
	expClose map[*closeRec]bool
	hit11    bool
	hit12    bool
}

type lbc struct{ v, pos int }

type lop struct {
	kind string // broadcast | subscribe | close
	v    int
	lss  []*lsub // the subscriptions of one parked Subscribe call
	grp  *group
	cs   []*closeRec
}

func (m *lmodel) deliver(ls *lsub) {
	for len(ls.pending) > 0 && (ls.inf || ls.credit > 0) {
		ls.step = append(ls.step, ls.pending[0])
		ls.pending = ls.pending[1:]
		if !ls.inf {
			ls.credit--
		}
	}
}

func (m *lmodel) doClose() {
	m.closed = true
	for _, ls := range m.subs {
		ls.live = false
		ls.pending = nil
	}
}

// advance moves the blocked Broadcast (and whatever is parked behind it) as
// far as the reference says it can go.
func (m *lmodel) advance() {
	for m.cur != nil {
		for m.cur.pos < len(m.subs) {
			ls := m.subs[m.cur.pos]
			if !ls.live {
				m.cur.pos++
				continue
			}
			m.deliver(ls)
			if len(ls.pending) >= outstandingCap {
				m.hit12 = true
				return // blocked on ls
			}
			ls.pending = append(ls.pending, m.cur.v)
			if len(ls.pending) == outstandingCap {
				m.hit11 = true
			}
			m.deliver(ls)
			m.cur.pos++
		}
		m.expRet[m.cur.v] = true
		m.cur = nil
		if op := m.parked; op != nil {
			m.parked = nil
			switch op.kind {
			case "broadcast":
				m.cur = &lbc{v: op.v}
			case "subscribe":
				for _, ls := range op.lss {
					ls.live = true
					m.subs = append(m.subs, ls)
				}
				m.expCall[op.grp] = true
			case "close":
				m.doClose()
				m.closeRan = true
				for _, c := range op.cs {
					m.expClose[c] = true
				}
			}
		}
	}
}

// progress identifies how far the blocked Broadcast has got ("" if none).
func (m *lmodel) progress() string {
	if m.cur == nil {
		return ""
	}
	return fmt.Sprintf("%d@%d", m.cur.v, m.cur.pos)
}

func (m *lmodel) blocker() *lsub {
	if m.cur == nil {
		return nil
	}
	return m.subs[m.cur.pos]
}

// lockstep: one operation at a time with a quiescence barrier in between,
// compared with the exact reference. A disagreement with the reference is
// recorded as an observation and the history falls back to the statement-level
// oracle (judge / wedge), which alone decides violations.
func lockstep(w *world, rng *mon.RNG) {
	m := &lmodel{nextV: 1, expRet: map[int]bool{}, expCall: map[*group]bool{}, expClose: map[*closeRec]bool{}}
	var all []*lsub
	agree := true
	how := "resumed"

	newSub := func(gatedSub bool) *lsub {
		kind := "prompt"
		if gatedSub {
			kind = "stalled"
		}
		g := w.newGroup(1, kind)
		s := g.subs[0]
		s.gated = gatedSub
		w.startReader(s)
		ls := &lsub{s: s, inf: !gatedSub}
		all = append(all, ls)
		return ls
	}
	// subscribeCall performs one Subscribe call for the subscriptions lss (one group)
	subscribeCall := func(g *group, lss []*lsub, desc string) {
		switch {
		case m.closed:
			m.expCall[g] = true // silently dropped
			w.step("subscribe %s (closed: dropped)", desc)
		case m.cur == nil:
			for _, ls := range lss {
				ls.live = true
				m.subs = append(m.subs, ls)
			}
			m.expCall[g] = true
			w.step("subscribe %s", desc)
		default:
			m.parked = &lop{kind: "subscribe", lss: lss, grp: g}
			rec.Count("lockstep.parked_subscribe", 1)
			w.step("subscribe %s (parks behind the blocked Broadcast)", desc)
		}
		go w.subscribeGroup(g)
	}
	subscribe := func(gatedSub bool) {
		ls := newSub(gatedSub)
		subscribeCall(ls.s.grp, []*lsub{ls}, fmt.Sprintf("%d gated=%v", ls.s.id, gatedSub))
	}
	// newAlias: one more subscription on the channel of ls (whose reader reads freely)
	newAlias := func(g *group, ls *lsub, kind string) *lsub {
		s := w.addSub(g, kind, ls.s, false)
		a := &lsub{s: s, inf: true}
		all = append(all, a)
		return a
	}
	// freeChannels: subscriptions whose channel is read freely (prompt, or gated and unleashed)
	freeChannels := func(liveOnly bool) []*lsub {
		var out []*lsub
		for _, ls := range all {
			if r := ls.s.rd(); ls.inf && (!r.gated || r.unleashed) && (!liveOnly || ls.live) {
				out = append(out, ls)
			}
		}
		return out
	}
	// subscribeSame: a channel that already carries a subscription is subscribed again with a
	// new context: next to a live one, or (after quiescence) in place of a cancelled one
	subscribeSame := func() bool {
		fc := freeChannels(false)
		if len(fc) == 0 {
			return false
		}
		ls := fc[rng.Intn(len(fc))]
		kind := "alias"
		if !ls.live {
			kind = "resub-quiescent"
		}
		a := newAlias(w.emptyGroup(), ls, kind)
		subscribeCall(a.s.grp, []*lsub{a}, fmt.Sprintf("%d = the channel of sub %d again (%s)", a.s.id, ls.s.rd().id, kind))
		return true
	}
	// subscribeVariadic: one Subscribe call with a fresh channel twice and possibly a channel
	// that is subscribed already
	subscribeVariadic := func() {
		g := w.emptyGroup()
		s := w.addSub(g, "prompt", nil, false)
		w.startReader(s)
		ls := &lsub{s: s, inf: true}
		all = append(all, ls)
		lss := []*lsub{ls, newAlias(g, ls, "dup")}
		desc := fmt.Sprintf("%d,%d = one call with the same fresh channel twice", lss[0].s.id, lss[1].s.id)
		if fc := freeChannels(true); len(fc) > 0 && rng.Bool() {
			o := fc[rng.Intn(len(fc))]
			if o.s.rd() != s {
				lss = append(lss, newAlias(g, o, "alias"))
				desc += fmt.Sprintf(" and %d = the channel of sub %d", lss[2].s.id, o.s.rd().id)
			}
		}
		subscribeCall(g, lss, desc)
	}
	// subscribeArgs: one Subscribe call with a particular argument list: a nil channel in first,
	// middle or last position among fresh prompt channels, no channel at all, or forty channels.
	// A nil channel is a subscriber that never reads: the reference treats it as a gated reader
	// that is never given a token and can only leave.
	longDone := false
	subscribeArgs := func() {
		g := w.emptyGroup()
		var lss []*lsub
		fresh := func() {
			s := w.addSub(g, "prompt", nil, false)
			w.startReader(s)
			ls := &lsub{s: s, inf: true}
			all = append(all, ls)
			lss = append(lss, ls)
		}
		shape := rng.PickStr("nil-first", "nil-middle", "nil-last", "nil-first", "nil-middle", "nil-last", "empty", "long")
		if shape == "long" && longDone {
			shape = "empty"
		}
		switch shape {
		case "empty":
		case "long":
			longDone = true
			for k := 0; k < 40; k++ {
				fresh()
			}
		default:
			pos := map[string]int{"nil-first": 0, "nil-middle": 1, "nil-last": 2}[shape]
			for k := 0; k < 3; k++ {
				if k == pos {
					ls := &lsub{s: w.addSub(g, "nil", nil, true)}
					all = append(all, ls)
					lss = append(lss, ls)
				} else {
					fresh()
				}
			}
		}
		rec.Count("lockstep.subscribe_args_"+shape, 1)
		subscribeCall(g, lss, fmt.Sprintf("%v = one call, argument list %s", subIDs(g.subs), shape))
	}
	// burst: n sequential Broadcast calls from one goroutine; the burst ends
	// with the first call that the reference expects to block.
	burst := func(n int) {
		if m.cur != nil {
			v := m.nextV
			m.nextV++
			m.parked = &lop{kind: "broadcast", v: v}
			rec.Count("lockstep.parked_broadcast", 1)
			w.step("broadcast value %d (parks behind the blocked Broadcast)", v-1)
			go w.broadcast(0)
			return
		}
		cnt := 0
		first := m.nextV
		for cnt < n {
			v := m.nextV
			m.nextV++
			cnt++
			if m.closed {
				m.expRet[v] = true
				continue
			}
			m.cur = &lbc{v: v}
			m.advance()
			if m.cur != nil {
				break
			}
		}
		w.step("broadcast values %d..%d sequentially (blocked=%v)", first-1, first+cnt-2, m.cur != nil)
		go func() {
			for i := 0; i < cnt; i++ {
				w.broadcast(0)
			}
		}()
	}
	tokens := func(ls *lsub, k int) {
		w.step("tokens sub %d +%d", ls.s.id, k)
		w.give(ls.s, k)
		ls.credit += k
		before := m.progress()
		m.deliver(ls)
		m.advance()
		if before != "" && m.progress() != before {
			w.resumeReleased = true
		}
	}
	unleash := func(ls *lsub) {
		w.step("unleash sub %d", ls.s.id)
		w.unleash(ls.s)
		ls.inf = true
		m.deliver(ls)
		m.advance()
	}
	cancel := func(ls *lsub) {
		w.step("cancel sub %d", ls.s.id)
		if m.cur != nil && m.blocker() == ls {
			w.departWhileBlocked = true
		}
		w.cancelSub(ls.s, "root")
		how = "left+resumed"
		if m.parked != nil {
			for _, x := range m.parked.lss {
				if x.s.grp == ls.s.grp {
					// its Subscribe is still parked: it will subscribe with a cancelled context;
					// the forwarder may or may not pass on values before it notices. Leave the model.
					agree = false
					return
				}
			}
		}
		wasBlocker := m.cur != nil && m.blocker() == ls
		before := m.progress()
		for _, x := range all {
			if x.s.grp == ls.s.grp { // one context per Subscribe call
				x.live = false
				x.pending = nil
			}
		}
		m.advance()
		if wasBlocker && m.progress() != before {
			w.departReleased = true
		}
	}
	closeOp := func() {
		cs := w.closeAsync()
		switch {
		case m.cur != nil:
			m.parked = &lop{kind: "close", cs: cs}
			w.closeWhileBlocked = true
			rec.Count("lockstep.parked_close", 1)
			w.step("close (parks behind the blocked Broadcast)")
		default:
			for _, c := range cs {
				m.expClose[c] = true
			}
			if !m.closed {
				m.doClose()
			}
			w.step("close")
		}
	}
	// check compares the quiescent state with the reference.
	check := func(q mon.QuiesceInfo) string {
		w.mu.Lock()
		defer w.mu.Unlock()
		byCh := map[*sub][]*lsub{}
		var owners []*sub
		for _, ls := range all {
			if m.closeRan {
				ls.may = append(ls.may, ls.step...)
			} else {
				ls.must = append(ls.must, ls.step...)
			}
			ls.step = nil
			r := ls.s.rd()
			if byCh[r] == nil {
				owners = append(owners, r)
			}
			byCh[r] = append(byCh[r], ls)
		}
		for _, r := range owners {
			lss := byCh[r]
			got := r.got
			if len(lss) > 1 {
				// several subscriptions on one channel: a receive cannot be attributed, compare multisets
				need, may, have := map[int]int{}, map[int]int{}, map[int]int{}
				for _, ls := range lss {
					for _, v := range ls.must {
						need[v]++
					}
					for _, v := range ls.may {
						may[v]++
					}
				}
				for _, g := range got {
					have[g.v]++
				}
				for v, c := range need {
					if have[v] < c {
						return fmt.Sprintf("the channel of sub %d (%d subscriptions) received value id %d %d times, reference says at least %d", r.id, len(lss), v, have[v], c)
					}
				}
				for v, c := range have {
					if c > need[v]+may[v] {
						return fmt.Sprintf("the channel of sub %d (%d subscriptions) received value id %d %d times, reference says at most %d", r.id, len(lss), v, c, need[v]+may[v])
					}
				}
				for _, g := range got {
					if need[g.v] > 0 {
						need[g.v]--
					} else {
						lss[0].must = append(lss[0].must, g.v) // an optional copy that did arrive
					}
				}
				for _, ls := range lss {
					ls.may = nil
				}
				continue
			}
			ls := lss[0]
			if len(got) < len(ls.must) {
				return fmt.Sprintf("sub %d received %d values, reference says at least %d (%v)", ls.s.id, len(got), len(ls.must), ls.must)
			}
			for i, v := range ls.must {
				if got[i].v != v {
					return fmt.Sprintf("sub %d receive #%d is %d, reference says %d", ls.s.id, i, got[i].v, v)
				}
			}
			extra := got[len(ls.must):]
			if len(extra) > len(ls.may) {
				return fmt.Sprintf("sub %d received %d values, reference says at most %d", ls.s.id, len(got), len(ls.must)+len(ls.may))
			}
			for i, g := range extra {
				if g.v != ls.may[i] {
					return fmt.Sprintf("sub %d receive #%d is %d, reference says %d", ls.s.id, len(ls.must)+i, g.v, ls.may[i])
				}
			}
			ls.must = ls.must[:0]
			for _, g := range got {
				ls.must = append(ls.must, g.v)
			}
			ls.may = nil
		}
		m.closeRan = false
		for _, b := range w.bcs {
			if (b.ret != 0) != m.expRet[b.v] {
				return fmt.Sprintf("Broadcast(value %d) returned=%v, reference says %v", b.v-1, b.ret != 0, m.expRet[b.v])
			}
		}
		for _, g := range w.groups {
			if g.call != 0 && (g.ret != 0) != m.expCall[g] {
				return fmt.Sprintf("Subscribe of subs %v (call stamp %d) returned=%v, reference says %v", subIDs(g.subs), g.call, g.ret != 0, m.expCall[g])
			}
		}
		for _, c := range w.closes {
			if (c.ret != 0) != m.expClose[c] {
				return fmt.Sprintf("Close (call stamp %d) returned=%v, reference says %v", c.call, c.ret != 0, m.expClose[c])
			}
		}
		if m.cur == nil && q.MutexBlocked > 0 {
			return fmt.Sprintf("%d goroutines wait on a mutex although the reference has no blocked Broadcast", q.MutexBlocked)
		}
		return ""
	}
	settle := func() {
		q := w.quiesce()
		w.observe(q)
		if m.cur != nil {
			rec.Count("lockstep.steps_with_blocked_broadcast", 1)
		}
		if agree {
			if d := check(q); d != "" {
				agree = false
				rec.Count("lockstep.model_mismatch", 1)
				rec.Observe("lock-step reference disagreement (not judged by itself): " + d)
				w.step("REFERENCE MISMATCH: %s", d)
			} else {
				rec.Count("lockstep.steps_agreeing_with_reference", 1)
			}
		}
		w.judge("lock-step")
	}
	gatedLive := func() []*lsub {
		var out []*lsub
		for _, ls := range m.subs {
			if ls.live && !ls.inf && !ls.s.nilch {
				out = append(out, ls)
			}
		}
		return out
	}
	liveSubs := func() []*lsub {
		var out []*lsub
		for _, ls := range m.subs {
			if ls.live {
				out = append(out, ls)
			}
		}
		return out
	}

	// initial subscribers: usually at least one gated
	n0 := rng.Range(1, 3)
	for i := 0; i < n0; i++ {
		subscribe(rng.Chance(3, 5))
		settle()
	}
	steps := rng.Range(6, 22)
	for i := 0; i < steps && agree && !w.violated(); i++ {
		r := rng.Intn(100)
		if m.cur == nil {
			switch {
			case r < 45:
				burst(rng.PickInt(1, 2, 3, 5, 8, 11, 12, 13, 14))
			case r < 60:
				if gl := gatedLive(); len(gl) > 0 {
					tokens(gl[rng.Intn(len(gl))], rng.PickInt(1, 1, 2, 3, 5, 11))
				} else {
					burst(rng.Range(1, 4))
				}
			case r < 66:
				subscribe(rng.Chance(1, 2))
			case r < 70:
				if !subscribeSame() {
					subscribe(false)
				}
			case r < 71:
				subscribeVariadic()
			case r < 73:
				subscribeArgs()
			case r < 75:
				// cancel a freely read subscription and subscribe its channel again at once,
				// without waiting for the old forwarder
				if fc := freeChannels(true); len(fc) > 0 {
					ls := fc[rng.Intn(len(fc))]
					cancel(ls)
					if agree {
						a := newAlias(w.emptyGroup(), ls, "resub-now")
						subscribeCall(a.s.grp, []*lsub{a}, fmt.Sprintf("%d = the channel of sub %d again, at once", a.s.id, ls.s.rd().id))
					}
				} else {
					subscribe(false)
				}
			case r < 82:
				if ls := liveSubs(); len(ls) > 0 {
					cancel(ls[rng.Intn(len(ls))])
				} else {
					subscribe(false)
				}
			case r < 88:
				if gl := gatedLive(); len(gl) > 0 {
					unleash(gl[rng.Intn(len(gl))])
				} else {
					burst(rng.Range(1, 4))
				}
			case r < 94 && i > steps/2:
				closeOp()
			default:
				burst(12)
			}
		} else {
			bl := m.blocker()
			canPark := m.parked == nil
			switch {
			case bl.s.nilch && r < 35:
				// a Broadcast blocked on a nil-channel subscriber: it can only leave
				cancel(bl)
			case bl.s.nilch && r < 60:
				if gl := gatedLive(); len(gl) > 0 {
					tokens(gl[rng.Intn(len(gl))], rng.PickInt(1, 2, 4))
				} else if ls := liveSubs(); len(ls) > 0 {
					cancel(ls[rng.Intn(len(ls))])
				}
			case r < 22:
				tokens(bl, rng.PickInt(1, 1, 2, 3, 12, 13))
			case r < 32:
				gl := gatedLive()
				tokens(gl[rng.Intn(len(gl))], rng.PickInt(1, 2, 4))
			case r == 86 && canPark:
				subscribeArgs()
			case r < 44:
				cancel(bl)
			case r < 52:
				ls := liveSubs()
				cancel(ls[rng.Intn(len(ls))])
			case r < 60:
				unleash(bl)
			case r < 73 && canPark:
				burst(1)
			case r < 80 && canPark:
				subscribe(rng.Bool())
			case r < 84 && canPark:
				if !subscribeSame() {
					subscribe(false)
				}
			case r < 86 && canPark:
				subscribeVariadic()
			case r < 89 && canPark:
				if fc := freeChannels(true); len(fc) > 0 {
					ls := fc[rng.Intn(len(fc))]
					cancel(ls)
					if agree {
						a := newAlias(w.emptyGroup(), ls, "resub-now")
						subscribeCall(a.s.grp, []*lsub{a}, fmt.Sprintf("%d = the channel of sub %d again, at once", a.s.id, ls.s.rd().id))
					}
				} else {
					subscribe(false)
				}
			case canPark:
				closeOp()
			case bl.s.nilch:
				cancel(bl)
			default:
				tokens(bl, rng.PickInt(1, 2, 12))
			}
		}
		settle()
	}
	if m.hit11 {
		rec.Count("lockstep.eleven_outstanding_without_blocking", 1)
	}
	if m.hit12 {
		rec.Count("lockstep.twelfth_outstanding_blocks", 1)
	}
	// resolve the environment: every gated reader resumes, one at a time (a
	// Close parked behind a blocked Broadcast runs as soon as that Broadcast
	// completes, so what the other gated readers still get depends on the order)
	for _, ls := range all {
		if ls.inf {
			continue
		}
		if ls.s.nilch {
			// a nil-channel subscriber can only leave
			if w.cancelled(ls.s) {
				continue
			}
			if agree && !w.violated() {
				cancel(ls)
				settle()
			} else {
				w.step("cancel sub %d (nil channel)", ls.s.id)
				w.cancelSub(ls.s, "root")
			}
			continue
		}
		if agree && !w.violated() {
			unleash(ls)
			settle()
		} else {
			w.step("unleash sub %d", ls.s.id)
			w.unleash(ls.s)
		}
	}
	finish(w, how)
}

// ---------------------------------------------------------------- the check

func TestCheck(t *testing.T) {
	rec = mon.Open("C11")
	defer rec.Close()
	rec.Note("rule", "a case is one history against the real Broadcaster[int] inside a synctest bubble, recorded at the client boundary with one atomic logical clock and unique values (g<goroutine>-<id>). (race) 1-4 broadcasting goroutines (plus optionally one started later), 1-5 subscribers that are prompt / slow (read only when handed tokens, in small batches) / stalled (no tokens, >11 values outstanding, i.e. past the 10-slot buffer + the forwarder's hand) / leaving (cancel themselves after k receives, are cancelled by a racing goroutine, or are cancelled while a Broadcast is blocked), some subscribing late or two channels per Subscribe call; a subscription brings a fresh channel, or the channel of another subscriber (subscribed again with a different context - each subscription is entitled to its own copy, so a channel is judged with multiset counts: at least one copy per entitled subscription, at most one per subscription ever made on it, order edges only where the pigeonhole principle attributes two values to one subscription), or the same channel twice in one variadic call, or the channel of a subscription that was just cancelled (re-subscribed at once, without waiting for the old forwarder, or after quiescence), or a nil channel (a subscriber that can only leave); the values passed to Broadcast start at 0, the zero value of T; Subscribe argument lists vary: one channel, several, none at all, forty, a nil channel in first / middle / last position among fresh channels (the channels listed after the nil one are ordinary subscribers); exactly-once is judged at every quiescent point, and while no Broadcast call is in progress every Subscribe and Close call must have returned; Close at the end / while a Broadcast is blocked / racing / in the middle of the resolution, seeded runtime.Gosched perturbation; the harness ends every stall by tokens or cancel, then demands progress (all Broadcast/Subscribe/Close calls returned, nobody on the mutex, by mon.Quiesce) and judges exactly-once, at-most-once, known values, acyclic precedence graph, nothing from a Broadcast called after Close returned (= the earliest return of any Close call). Wherever the workload closes the broadcaster it issues 2 overlapping Close calls from two goroutines, and each call is judged at its own return: a forwarder goroutine still parked inside the broadcaster (mon.BlockedIn) at that moment refutes \"Close waits for its forwarders\". (lockstep) one operation at a time with a quiescence barrier in between, compared step by step with an exact reference (11 outstanding do not block, the 12th does; what is parked behind a blocked Broadcast runs after it), and judged by the same statement-level oracle at every step. Non-trivial = at least one value was delivered; distinct = distinct plan / step list.")
	rec.Note("require", []string{
		"judged", "deliveries", "close.overlapping_calls_checked", "exactly_once_pairs_demanded", "post_close_checked",
		"hist.broadcast_blocked_on_stalled_reader", "hist.goroutine_parked_on_mutex",
		"hist.departure_while_broadcast_blocked", "hist.departure_released_blocked_broadcast", "hist.resume_released_blocked_broadcast",
		"hist.close_while_broadcast_blocked", "hist.close_parked_behind_blocked_broadcast", "hist.subscribe_parked_behind_blocked_broadcast",
		"hist.multi_broadcaster_overlap", "hist.self_leaver_left_mid_delivery", "bcast_called_after_close_returned",
		"lockstep.steps_agreeing_with_reference", "lockstep.steps_with_blocked_broadcast", "lockstep.parked_close", "lockstep.parked_subscribe", "lockstep.parked_broadcast",
		"lockstep.eleven_outstanding_without_blocking", "lockstep.twelfth_outstanding_blocks",
		"hist.same_channel_two_live_subscriptions", "hist.variadic_call_with_duplicate_channel",
		"hist.channel_resubscribed_at_once_after_cancel", "hist.channel_resubscribed_after_quiescence",
		"hist.nil_channel_subscriber", "shared_channel_copies_demanded", "zero_value_deliveries",
		"subscribe_calls.empty_list", "subscribe_calls.forty_channels", "subscribe_calls.nil_first", "subscribe_calls.nil_middle", "subscribe_calls.nil_last",
		"subscribe_calls.channels_listed_after_a_nil_one", "hist.close_returned_while_nil_channel_subscriber_live",
	})
	total := mon.Pick(3000, 150000)
	rec.Planned(total)
	for idx := 0; idx < total; idx++ {
		if !mon.Mine(idx) {
			continue
		}
		mode := "race"
		if idx%5 < 2 {
			mode = "lockstep"
		}
		runCase(t, idx, mode)
	}
}

func runCase(t *testing.T, idx int, mode string) {
	rng := mon.NewRNG("c11", idx)
	w := &world{idx: idx, mode: mode}
	var p *racePlan
	desc := mode
	if mode == "race" {
		p = genRace(rng)
		w.plan = p
		desc = "race " + p.String()
	}
	rec.Begin(idx, desc)
	res := mon.Bubble(t, func() {
		w.bubble = ownBubble()
		w.b = broadcaster.New[int]()
		if mode == "race" {
			race(w, p)
		} else {
			lockstep(w, rng)
		}
		w.cleanup()
	})
	w.vmu.Lock()
	viol, inconc := w.viol, w.inconc
	w.vmu.Unlock()
	if inconc != "" {
		rec.Inconclusive(idx, inconc, desc)
		return
	}
	if !viol {
		if res.Deadlock != "" {
			w.violation("goroutines-left-after-close/"+mode, res.Deadlock+"; goroutines left in the bubble after Close returned and every reader was stopped: "+strings.Join(res.Stacks, " || "))
		} else if res.Panic != "" {
			w.violation("panic/"+mode, res.Panic)
		}
	}
	// evidence
	w.mu.Lock()
	deliveries := 0
	var closeRet int64
	for _, c := range w.closes {
		if c.ret != 0 && (closeRet == 0 || c.ret < closeRet) {
			closeRet = c.ret
		}
	}
	lateRecv := 0
	zeroDelivered := 0
	var sameLive, variadicDup, resubNow, resubQuiescent, nilSub, closeWithNil bool
	for _, g := range w.groups {
		if g.ret == 0 {
			continue
		}
		switch n := len(g.subs); {
		case n == 0:
			rec.Count("subscribe_calls.empty_list", 1)
		case n >= 40:
			rec.Count("subscribe_calls.forty_channels", 1)
		case n > 1:
			for i, s := range g.subs {
				if s.nilch {
					pos := "middle"
					if i == 0 {
						pos = "first"
					} else if i == n-1 {
						pos = "last"
					}
					rec.Count("subscribe_calls.nil_"+pos, 1)
					// a channel listed after the nil one, entitled to values
					if i < n-1 {
						rec.Count("subscribe_calls.channels_listed_after_a_nil_one", n-1-i)
					}
				}
			}
		}
	}
	for i, s := range w.subs {
		if s.subCall != 0 {
			switch s.kind {
			case "resub-now":
				resubNow = true
			case "resub-quiescent":
				resubQuiescent = true
			case "nil":
				nilSub = true
				for _, c := range w.closes {
					if c.ret != 0 && c.call > s.subRet && s.subRet != 0 && (s.cancelAt == 0 || c.ret < s.cancelAt) {
						closeWithNil = true
					}
				}
			}
		}
		for _, o := range w.subs[:i] {
			if s.nilch || o.nilch || o.rd() != s.rd() || o.subRet == 0 || s.subRet == 0 {
				continue
			}
			if o.grp == s.grp {
				variadicDup = true
			} else if (o.cancelAt == 0 || s.subRet < o.cancelAt) && (s.cancelAt == 0 || o.subRet < s.cancelAt) {
				sameLive = true
			}
		}
		for _, g := range s.got {
			if g.v == 1 {
				zeroDelivered++
			}
		}
		deliveries += len(s.got)
		if s.cancelBy == "self" {
			rec.Count("hist.self_leaver_left_mid_delivery", 1)
		}
		for _, g := range s.got {
			if closeRet != 0 && g.pre > closeRet {
				lateRecv++
			}
		}
	}
	overlap := false
	afterClose := 0
	for i, a := range w.bcs {
		if closeRet != 0 && a.call > closeRet {
			afterClose++
		}
		for _, b := range w.bcs[i+1:] {
			if a.g != b.g && a.ret != 0 && b.ret != 0 && a.call < b.ret && b.call < a.ret {
				overlap = true
			}
		}
	}
	steps := append([]string{}, w.steps...)
	nbcs := len(w.bcs)
	w.mu.Unlock()
	rec.Count("deliveries", deliveries)
	if lateRecv > 0 {
		// a value that was already on its way when Close returned; the statement's last clause
		// is judged only for values whose Broadcast was called after Close returned
		rec.Count("recv_started_after_close_returned", lateRecv)
		rec.Observe("a receive operation that was started after Close had returned obtained a value whose Broadcast had been called before (not judged)")
	}
	rec.Count("broadcasts", nbcs)
	rec.Count("bcast_called_after_close_returned", afterClose)
	rec.Count("exactly_once_pairs_demanded", w.demanded)
	rec.Count("shared_channel_copies_demanded", w.demandedShared)
	rec.Count("zero_value_deliveries", zeroDelivered)
	flag := func(name string, b bool) {
		if b {
			rec.Count(name, 1)
		}
	}
	flag("hist.broadcast_blocked_on_stalled_reader", w.sawBlockedOnStalled)
	flag("hist.goroutine_parked_on_mutex", w.sawMutexParked)
	flag("hist.departure_while_broadcast_blocked", w.departWhileBlocked)
	flag("hist.departure_released_blocked_broadcast", w.departReleased)
	flag("hist.resume_released_blocked_broadcast", w.resumeReleased)
	flag("hist.close_while_broadcast_blocked", w.closeWhileBlocked)
	flag("hist.close_parked_behind_blocked_broadcast", w.closeParked)
	flag("hist.subscribe_parked_behind_blocked_broadcast", w.subscribeParked)
	flag("hist.multi_broadcaster_overlap", overlap)
	flag("hist.same_channel_two_live_subscriptions", sameLive)
	flag("hist.variadic_call_with_duplicate_channel", variadicDup)
	flag("hist.channel_resubscribed_at_once_after_cancel", resubNow)
	flag("hist.channel_resubscribed_after_quiescence", resubQuiescent)
	flag("hist.nil_channel_subscriber", nilSub)
	flag("hist.close_returned_while_nil_channel_subscriber_live", closeWithNil)
	flag("hist."+mode, true)
	rec.Case(idx, desc+" "+strings.Join(steps, ";"), deliveries > 0)
	if rec.WantSample() && deliveries > 0 && idx%7 == 0 {
		ev := w.dump()
		if len(ev) > 40 {
			ev = ev[:40]
		}
		rec.Sample(map[string]any{"mode": mode, "plan": w.plan, "steps": steps, "events": ev})
	}
}
