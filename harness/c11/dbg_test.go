package c11

import (
	"fmt"
	"os"
	"strings"
	"testing"

	"verif/harness/internal/mon"
)

func TestDbg(t *testing.T) {
	rec = mon.Open("C11")
	found := 0
	for idx := 0; idx < 12000 && found < 3; idx++ {
		if idx%5 >= 2 {
			continue
		}
		dbgSteps = nil
		runCase(t, idx, "lockstep")
		for _, s := range dbgSteps {
			if strings.Contains(s, "MISMATCH") {
				found++
				fmt.Fprintf(os.Stderr, "idx=%d\n%s\n%s\n\n", idx, strings.Join(dbgSteps, "\n"), strings.Join(dbgDump, "\n"))
			}
		}
	}
}
