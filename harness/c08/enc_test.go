package c08

import (
	"bytes"
	"crypto/sha256"
	"encoding/base64"
	"encoding/hex"
	"errors"
	"fmt"
	"io"
	"strings"

	kc "github.com/dapr/kit/crypto"
	enc "github.com/dapr/kit/schemes/enc/v1"
	"github.com/lestrrat-go/jwx/v2/jwk"

	"verif/harness/internal/mon"
)

// ---------------------------------------------------------------- dimensions

var encAlgs = []struct {
	opt      enc.KeyAlgorithm
	resolved string
}{
	{enc.KeyAlgorithmAES256KW, "A256KW"},
	{enc.KeyAlgorithmAES128CBC, "A128CBC-NOPAD"},
	{enc.KeyAlgorithmAES192CBC, "A192CBC-NOPAD"},
	{enc.KeyAlgorithmAES256CBC, "A256CBC-NOPAD"},
	{enc.KeyAlgorithmRSAOAEP256, "RSA-OAEP-256"},
	{enc.KeyAlgorithmAES, "A256KW"},
	{enc.KeyAlgorithmRSA, "RSA-OAEP-256"},
}

var cipherNames = []string{"nil(default)", "AES-GCM", "CHACHA20-POLY1305"}

const (
	tNone = iota
	tWrongKey
	tUnwrapErr
	tMacZero
	tMacGarbage
	tManifestEmpty
	tManifestNotJSON
	tScheme
	tCutScheme
	tCutAfterScheme
	tCutAfterManifest
	tCutInMac
	tFlipLast
	tTrunc5
	tFlipFirstSeg
	nTamper
)

var tamperNames = []string{"valid", "wrong-key", "unwrap-callback-fails", "mac-replaced-by-zero-mac", "mac-not-base64", "manifest-empty-object", "manifest-not-json",
	"scheme-line-replaced", "cut-inside-scheme-line", "cut-after-scheme-line", "cut-after-manifest-line", "cut-inside-mac-line", "last-byte-flipped", "last-5-bytes-cut", "first-payload-byte-flipped"}

// encSpec is an enc/v1 pipeline. fixedDoc=false ("enc"): every run encrypts
// afresh and decrypts. fixedDoc=true ("dec"): the reference run encrypts and
// keeps the document; concurrent runs decrypt those very bytes again.
type encSpec struct {
	fixedDoc bool
	msg      []byte
	lenClass string
	cipher   int
	alg      int
	keyName  string
	decName  string
	override bool // Decrypt with an explicit KeyName
	kek      []byte
	rsaIdx   int
	tamper   int
	encSrc   int // plaintext source chunk size (0: whole)
	decSrc   int // document source: 0 whole, >0 chunk size, -1 streamed straight from Encrypt (valid "enc" only)
	cons     int // consumer buffer size (0: io.ReadAll)
	wrapD    delay
	unwrapD  [2]delay // before and after the real unwrap
	consD    delay
	doc      []byte // fixedDoc: document of the reference run
	descStr  string
}

func pickLen(rng *mon.RNG) (int, string) {
	switch w := rng.Intn(100); {
	case w < 45:
		// the header is 250-900 bytes: these lengths put the end of the document
		// and the first segment around readHeader's 512-byte steps
		return rng.Range(0, 1200), "around_512_header_step"
	case w < 80:
		k := rng.Range(1, 3)
		return k*enc.SegmentSize + rng.Range(-17, 17), "around_64KiB_boundary"
	default:
		return rng.Range(1201, 200<<10), "random"
	}
}

func newEncSpec(rng *mon.RNG, fixedDoc bool) *encSpec {
	s := &encSpec{fixedDoc: fixedDoc}
	n, cls := pickLen(rng)
	s.msg, s.lenClass = rng.Bytes(n), cls
	s.cipher = rng.Intn(3)
	s.alg = rng.Intn(len(encAlgs))
	s.keyName = "k" + hex.EncodeToString(rng.Bytes(rng.PickInt(0, 1, 4, 12, 40, 149)))
	if rng.Chance(1, 4) {
		s.decName = "d" + hex.EncodeToString(rng.Bytes(rng.PickInt(1, 8, 30)))
	}
	s.override = rng.Chance(1, 6)
	s.kek = rng.Bytes(32)
	s.rsaIdx = rng.Intn(2)
	if rng.Chance(1, 3) {
		s.tamper = rng.Range(1, nTamper-1)
	}
	if rng.Chance(1, 3) {
		s.encSrc = rng.PickInt(1000, 4096, 65536, 65537, 70000)
	}
	switch rng.Intn(4) {
	case 0:
		s.decSrc = rng.PickInt(1, 7, 100, 511, 512, 513, 1024, 65552)
		if s.decSrc < 100 && len(s.msg) > 4096 {
			s.decSrc = 511
		}
	case 1:
		if s.tamper == tNone && !fixedDoc {
			s.decSrc = -1
		}
	}
	if rng.Chance(1, 2) {
		s.cons = rng.PickInt(512, 4096, 30000, 65536, 100000)
	}
	s.wrapD = pickDelay(rng)
	s.unwrapD = [2]delay{pickDelay(rng), pickDelay(rng)}
	s.consD = pickDelay(rng)
	s.descStr = fmt.Sprintf("%s len=%d(%s) cipher=%s alg=%s keyname=%dB decname=%dB override=%v kek=%s rsa=%d doc=%s src=%d docsrc=%d consumer=%d wrap=%s unwrap=%s+%s consumer-pause=%s msg-sha256=%s",
		s.kind(), len(s.msg), cls, cipherNames[s.cipher], encAlgs[s.alg].opt, len(s.keyName), len(s.decName), s.override, hex.EncodeToString(s.kek[:8]), s.rsaIdx,
		tamperNames[s.tamper], s.encSrc, s.decSrc, s.cons, s.wrapD, s.unwrapD[0], s.unwrapD[1], s.consD, shortSum(s.msg))
	return s
}

func (s *encSpec) lateRefMode() int {
	if s.fixedDoc {
		return 0
	}
	return 1
}

func (s *encSpec) kind() string {
	if s.fixedDoc {
		return "dec"
	}
	return "enc"
}
func (s *encSpec) desc() string { return s.descStr }

func (s *encSpec) sig(ref, got outcome) string {
	if strings.HasPrefix(got.class, "encrypt") {
		return "enc/encrypt-result-differs-under-concurrency/" + got.class
	}
	return "enc/decrypt-result-differs-under-concurrency/" + got.class
}

func shortSum(b []byte) string {
	h := sha256.Sum256(b)
	return hex.EncodeToString(h[:8])
}

// ------------------------------------------------------------------ the vault

var zeroIV = make([]byte, 16)

func symSize(alg string) int {
	switch alg {
	case "A128CBC-NOPAD":
		return 16
	case "A192CBC-NOPAD":
		return 24
	case "A256KW", "A256CBC-NOPAD":
		return 32
	}
	return 0
}

// wrapKey / unwrapKey do real key wrapping with kit's crypto package, selected
// by the algorithm string the callback receives.
func (s *encSpec) symKey(alg string, wrong bool) (jwk.Key, error) {
	kb := append([]byte(nil), s.kek[:symSize(alg)]...)
	if wrong {
		kb[0] ^= 0x55
	}
	return kc.ParseKey([]byte(base64.StdEncoding.EncodeToString(kb)), "")
}

func (s *encSpec) nameKnown(name string) bool {
	return name == s.keyName || (s.decName != "" && name == s.decName)
}

func (s *encSpec) wrapKey(c *gctx, fk []byte, alg, name string) ([]byte, error) {
	if !s.nameKnown(name) {
		return nil, fmt.Errorf("vault: no key named %q", name)
	}
	if symSize(alg) > 0 {
		key, err := s.symKey(alg, false)
		if err != nil {
			return nil, err
		}
		var iv []byte
		if alg != "A256KW" {
			iv = zeroIV
		}
		ct, _, err := kc.EncryptSymmetric(fk, alg, key, iv, nil)
		return ct, err
	}
	if alg == "RSA-OAEP-256" {
		return kc.EncryptPublicKey(fk, alg, c.keys.rsaPub[s.rsaIdx], nil)
	}
	return nil, fmt.Errorf("vault: algorithm %q is not a dapr.io/enc/v1 key-wrapping algorithm", alg)
}

func (s *encSpec) unwrapKey(c *gctx, wfk []byte, alg, name string) ([]byte, error) {
	if !s.nameKnown(name) {
		return nil, fmt.Errorf("vault: no key named %q", name)
	}
	if s.tamper == tUnwrapErr {
		return nil, errors.New("vault: unavailable")
	}
	wrong := s.tamper == tWrongKey
	if symSize(alg) > 0 {
		key, err := s.symKey(alg, wrong)
		if err != nil {
			return nil, err
		}
		var iv []byte
		if alg != "A256KW" {
			iv = zeroIV
		}
		return kc.DecryptSymmetric(wfk, alg, key, iv, nil, nil)
	}
	if alg == "RSA-OAEP-256" {
		idx := s.rsaIdx
		if wrong {
			idx = 1 - idx
		}
		return kc.DecryptPrivateKey(wfk, alg, c.keys.rsaPriv[idx], nil)
	}
	return nil, fmt.Errorf("vault: algorithm %q is not a dapr.io/enc/v1 key-wrapping algorithm", alg)
}

// ------------------------------------------------------------------- readers

// source returns a reader over b that hands out at most chunk bytes per Read
// (0: everything at once). It is built from standard-library readers only
// (io.MultiReader over bytes.Readers), so that when kit reads into one of its
// pooled buffers the innermost non-runtime frame of that write is kit's own
// readHeader / processSegments - which is how the driver attributes a race
// report.
func source(b []byte, chunk int) io.Reader {
	if chunk <= 0 || len(b) <= chunk {
		return bytes.NewReader(b)
	}
	rs := make([]io.Reader, 0, len(b)/chunk+1)
	for len(b) > 0 {
		n := chunk
		if n > len(b) {
			n = len(b)
		}
		rs = append(rs, bytes.NewReader(b[:n]))
		b = b[n:]
	}
	return io.MultiReader(rs...)
}

func closeIfCloser(r io.Reader) {
	if c, ok := r.(io.Closer); ok {
		c.Close()
	}
}

func callEncrypt(in io.Reader, o enc.EncryptOptions) (r io.Reader, err error, pan string) {
	defer func() {
		if p := recover(); p != nil {
			r, err, pan = nil, nil, fmt.Sprint(p)
		}
	}()
	r, err = enc.Encrypt(in, o)
	return
}

func callDecrypt(in io.Reader, o enc.DecryptOptions) (r io.Reader, err error, pan string) {
	defer func() {
		if p := recover(); p != nil {
			r, err, pan = nil, nil, fmt.Sprint(p)
		}
	}()
	r, err = enc.Decrypt(in, o)
	return
}

// consume reads a stream to its end with the given buffer size (0: io.ReadAll).
func (s *encSpec) consume(c *gctx, r io.Reader) ([]byte, error) {
	if s.cons == 0 || !c.conc {
		return io.ReadAll(r)
	}
	// a slow consumer: kit's stream goroutine sits in its pipe write, holding its
	// pooled segment buffer, while the other goroutines of the round run
	var out []byte
	buf := make([]byte, s.cons)
	if s.consD.kind != 0 {
		c.count("enc.slow_consumer_streams", 1)
	}
	c.pause(s.consD)
	for i := 0; ; i++ {
		n, err := r.Read(buf)
		out = append(out, buf[:n]...)
		if err == io.EOF {
			return out, nil
		}
		if err != nil {
			return out, err
		}
		if i%4 == 0 {
			c.pause(s.consD)
		}
	}
}

// ------------------------------------------------------------------ tampering

// headerLines returns the offsets just after the first three newlines.
func headerLines(doc []byte) (ends [3]int, ok bool) {
	pos := 0
	for i := 0; i < 3; i++ {
		j := bytes.IndexByte(doc[pos:], '\n')
		if j < 0 {
			return ends, false
		}
		pos += j + 1
		ends[i] = pos
	}
	return ends, true
}

func (s *encSpec) tamperDoc(doc []byte) ([]byte, bool) {
	e, ok := headerLines(doc)
	if !ok {
		return doc, false
	}
	join := func(parts ...[]byte) []byte { return bytes.Join(parts, nil) }
	line1, line2, line3, payload := doc[:e[0]], doc[e[0]:e[1]], doc[e[1]:e[2]], doc[e[2]:]
	switch s.tamper {
	case tMacZero:
		return join(line1, line2, []byte(base64.StdEncoding.EncodeToString(make([]byte, 32))+"\n"), payload), true
	case tMacGarbage:
		return join(line1, line2, []byte("!!!!not-base64!!!!\n"), payload), true
	case tManifestEmpty:
		return join(line1, []byte("{}\n"), line3, payload), true
	case tManifestNotJSON:
		return join(line1, []byte("this is not json\n"), line3, payload), true
	case tScheme:
		return join([]byte("dapr.io/enc/v2\n"), line2, line3, payload), true
	case tCutScheme:
		return append([]byte(nil), doc[:7]...), true
	case tCutAfterScheme:
		return append([]byte(nil), doc[:e[0]]...), true
	case tCutAfterManifest:
		return append([]byte(nil), doc[:e[1]]...), true
	case tCutInMac:
		return append([]byte(nil), doc[:e[1]+10]...), true
	case tFlipLast:
		d := append([]byte(nil), doc...)
		d[len(d)-1] ^= 0x01
		return d, true
	case tTrunc5:
		return append([]byte(nil), doc[:len(doc)-5]...), true
	case tFlipFirstSeg:
		d := append([]byte(nil), doc...)
		if len(payload) > 0 {
			d[e[2]] ^= 0x80
		} else {
			d[e[2]-2] ^= 0x01 // no payload: last character of the MAC
		}
		return d, true
	}
	return doc, true
}

// ------------------------------------------------------------------- running

func errText(err error) string {
	if err == nil {
		return ""
	}
	return err.Error()
}

func encErrClass(e string) string {
	switch {
	case e == "":
		return "no-error"
	case strings.Contains(e, "failed to validate the document's signature"):
		return "signature-invalid"
	case strings.Contains(e, "failed to decode header's signature"), strings.Contains(e, "illegal base64"):
		return "mac-not-base64"
	case strings.Contains(e, "invalid manifest"):
		return "manifest-invalid"
	case strings.Contains(e, "invalid header"):
		return "header-invalid"
	case strings.Contains(e, "failed to decrypt segment"):
		return "segment-authentication"
	case strings.Contains(e, "unexpected EOF"):
		return "unexpected-eof"
	case strings.Contains(e, "does not contain a key name"):
		return "key-name-missing"
	case strings.HasPrefix(e, "panic"):
		return "panic"
	}
	return "other-error"
}

func (s *encSpec) encOpts(c *gctx) enc.EncryptOptions {
	o := enc.EncryptOptions{
		Algorithm:         encAlgs[s.alg].opt,
		KeyName:           s.keyName,
		DecryptionKeyName: s.decName,
		WrapKeyFn: func(fk []byte, alg, name string, nonce []byte) ([]byte, []byte, error) {
			c.pause(s.wrapD)
			out, err := s.wrapKey(c, fk, alg, name)
			return out, nil, err
		},
	}
	switch s.cipher {
	case 1:
		v := enc.CipherAESGCM
		o.Cipher = &v
	case 2:
		v := enc.CipherChaCha20Poly1305
		o.Cipher = &v
	}
	return o
}

func (s *encSpec) decOpts(c *gctx) enc.DecryptOptions {
	o := enc.DecryptOptions{
		UnwrapKeyFn: func(wfk []byte, alg, name string, nonce, tag []byte) ([]byte, error) {
			// the window of interest: Decrypt has parsed the header and has not yet
			// verified its MAC
			c.pause(s.unwrapD[0])
			out, err := s.unwrapKey(c, wfk, alg, name)
			c.pause(s.unwrapD[1])
			if c.conc && (s.unwrapD[0].kind != 0 || s.unwrapD[1].kind != 0) {
				c.count("enc.unwrap_callback_pauses", 1)
			}
			return out, err
		},
	}
	if s.override {
		if s.decName != "" {
			o.KeyName = s.decName
		} else {
			o.KeyName = s.keyName
		}
	}
	return o
}

func (s *encSpec) run(c *gctx) outcome {
	var doc []byte
	if s.fixedDoc && c.conc {
		doc = s.doc
	} else {
		chunk := 0
		if c.conc {
			chunk = s.encSrc
		}
		er, err, pan := callEncrypt(source(s.msg, chunk), s.encOpts(c))
		if pan != "" {
			return outcome{res: "Encrypt panic: " + pan, class: "encrypt-panic", bad: "Encrypt panicked"}
		}
		if err != nil {
			return outcome{res: "Encrypt error: " + err.Error(), class: "encrypt-error", bad: "Encrypt failed"}
		}
		if c.conc && s.decSrc == -1 {
			// Decrypt reads straight from Encrypt's pipe: two streams of this
			// goroutine are live at once
			c.count("enc.streamed_decrypts", 1)
			o := s.decrypt(c, er)
			closeIfCloser(er)
			return o
		}
		raw, err := io.ReadAll(er)
		closeIfCloser(er)
		if err != nil {
			return outcome{res: "Encrypt stream error: " + err.Error(), class: "encrypt-stream-error", bad: "Encrypt stream failed"}
		}
		var ok bool
		if doc, ok = s.tamperDoc(raw); !ok {
			return outcome{res: "Encrypt output has no three-line header", class: "encrypt-malformed-output", bad: "Encrypt output malformed"}
		}
		if s.fixedDoc {
			s.doc = doc
		}
	}
	chunk := 0
	if c.conc && s.decSrc > 0 {
		chunk = s.decSrc
	}
	return s.decrypt(c, source(doc, chunk))
}

func (s *encSpec) decrypt(c *gctx, in io.Reader) outcome {
	var decErr, streamErr string
	var pt []byte
	dr, err, pan := callDecrypt(in, s.decOpts(c))
	switch {
	case pan != "":
		decErr = "panic: " + pan
	case err != nil:
		decErr = err.Error()
	default:
		var rerr error
		pt, rerr = s.consume(c, dr)
		streamErr = errText(rerr)
		closeIfCloser(dr)
	}
	sum := sha256.Sum256(pt)
	o := outcome{res: fmt.Sprintf("decrypt-error=%q stream-error=%q plaintext-len=%d plaintext-sha256=%s", decErr, streamErr, len(pt), hex.EncodeToString(sum[:]))}
	e := decErr
	if e == "" {
		e = streamErr
	}
	o.class = encErrClass(e)
	if s.tamper == tNone {
		o.ok = e == "" && bytes.Equal(pt, s.msg)
		if e == "" && !o.ok {
			o.class = "wrong-plaintext"
		}
		if !c.conc && !o.ok {
			// Decrypt(Encrypt(m)) != m when run alone is C01's subject, not C08's
			o.bad = "a valid document did not decrypt to its message when run alone (" + o.class + ")"
		}
		if c.conc && o.ok {
			c.count("enc.len."+s.lenClass, 1)
		}
	}
	return o
}

// sameCounters names the coverage counters of a concurrent run that agreed
// with its reference.
func (s *encSpec) sameCounters(got outcome) []string {
	if s.tamper != tNone && got.class != "no-error" {
		return []string{"enc.invalid_documents_same_error", "enc.invalid." + tamperNames[s.tamper] + ".same_error"}
	}
	return nil
}
