package c08

import (
	"bytes"
	"encoding/json"
	"errors"
	"fmt"
	"log"
	"regexp"
	"sort"
	"strings"
	"sync"
	"time"
	"unsafe"

	"github.com/dapr/kit/byteslicepool"
	"github.com/dapr/kit/cron"
	"github.com/dapr/kit/logger"

	"verif/harness/internal/mon"
)

// ------------------------------------------------------------------------ cron

var cronParsers = []struct {
	name string
	opts cron.ParseOption // 0: ParseStandard
	n    int              // number of fields a spec needs
}{
	{"ParseStandard", 0, 5},
	{"NewParser(Minute|Hour|Dom|Month|Dow)", cron.Minute | cron.Hour | cron.Dom | cron.Month | cron.Dow, 5},
	{"NewParser(Second|Minute|Hour|Dom|Month|Dow|Descriptor)", cron.Second | cron.Minute | cron.Hour | cron.Dom | cron.Month | cron.Dow | cron.Descriptor, 6},
	{"NewParser(SecondOptional|Minute|Hour|Dom|Month|Dow|Descriptor)", cron.SecondOptional | cron.Minute | cron.Hour | cron.Dom | cron.Month | cron.Dow | cron.Descriptor, 6},
	{"NewParser(Dom|Month|Dow)", cron.Dom | cron.Month | cron.Dow, 3},
	{"NewParser(Dom|Month|DowOptional)", cron.Dom | cron.Month | cron.DowOptional, 3},
	{"NewParser(Hour|Descriptor)", cron.Hour | cron.Descriptor, 1},
}

type cronSpec struct {
	parser  int
	spec    string
	next    bool
	d       delay
	descStr string
}

var fieldBounds = map[string][2]int{"s": {0, 59}, "m": {0, 59}, "h": {0, 23}, "dom": {1, 31}, "mon": {1, 12}, "dow": {0, 6}}

func cronField(rng *mon.RNG, kind string) string {
	b := fieldBounds[kind]
	one := func() string {
		switch w := rng.Intn(20); {
		case w < 3:
			return "*"
		case w < 5:
			return fmt.Sprintf("*/%d", rng.Range(1, 7))
		case w < 8:
			lo := rng.Range(b[0], b[1])
			return fmt.Sprintf("%d-%d", lo, rng.Range(lo, b[1]))
		case w < 10:
			lo := rng.Range(b[0], b[1])
			return fmt.Sprintf("%d-%d/%d", lo, rng.Range(lo, b[1]), rng.Range(1, 5))
		case w < 12:
			if kind == "mon" || kind == "dow" {
				// names in seeded random spellings (see names_test.go): single, range, list, step
				pool := monthNames
				if kind == "dow" {
					pool = dowNames
					if rng.Chance(1, 6) {
						return "?"
					}
				}
				lo := rng.Intn(len(pool))
				hi := rng.Range(lo, len(pool)-1)
				switch rng.Intn(5) {
				case 0:
					return pool[lo] // all lower case
				case 1:
					return pipelineSpelling(rng, pool[lo]) + "-" + pipelineSpelling(rng, pool[hi])
				case 2:
					return pipelineSpelling(rng, pool[lo]) + "," + pipelineSpelling(rng, pool[hi])
				case 3:
					return fmt.Sprintf("%s-%s/%d", pipelineSpelling(rng, pool[lo]), pipelineSpelling(rng, pool[hi]), rng.Range(2, 3))
				}
				return pipelineSpelling(rng, pool[lo])
			}
			if kind == "dom" {
				return "?"
			}
		case w < 13:
			// invalid
			return rng.PickStr(fmt.Sprint(b[1]+1+rng.Intn(40)), "-1", "a", "1-", "*/0", "5-2", "1,,2x", "**")
		}
		return fmt.Sprint(rng.Range(b[0], b[1]))
	}
	parts := []string{one()}
	for rng.Chance(1, 4) && len(parts) < 4 {
		parts = append(parts, one())
	}
	return strings.Join(parts, ",")
}

func newCronSpec(rng *mon.RNG) *cronSpec {
	s := &cronSpec{parser: rng.Intn(len(cronParsers)), d: pickDelay(rng)}
	p := cronParsers[s.parser]
	kinds := map[int][]string{5: {"m", "h", "dom", "mon", "dow"}, 6: {"s", "m", "h", "dom", "mon", "dow"}, 3: {"dom", "mon", "dow"}, 1: {"h"}}[p.n]
	switch w := rng.Intn(10); {
	case w < 2:
		s.spec = rng.PickStr("@yearly", "@annually", "@monthly", "@weekly", "@daily", "@midnight", "@hourly", "@every 1h30m", "@every 90s", "@every 1ms", "@every x", "@never", "")
	default:
		n := len(kinds)
		if rng.Chance(1, 6) {
			n += rng.PickInt(-1, 1) // optional field left out / one too many
		}
		var f []string
		for i := 0; i < n; i++ {
			f = append(f, cronField(rng, kinds[i%len(kinds)]))
		}
		s.spec = strings.Join(f, " ")
	}
	if s.spec != "" && rng.Chance(1, 4) {
		// zones without transitions: Next (C04's subject) is only used as a stable summary here
		tz := rng.PickStr("UTC", "Asia/Tokyo", "Etc/GMT+5", "No/Such_Zone")
		s.spec = rng.PickStr("TZ=", "CRON_TZ=") + tz + " " + s.spec
		s.next = tz != "No/Such_Zone"
	}
	s.descStr = fmt.Sprintf("cron parser=%s spec=%q next=%v pause=%s", p.name, s.spec, s.next, s.d)
	return s
}

func (s *cronSpec) lateRefMode() int {
	return 1
}

func (s *cronSpec) kind() string { return "cron" }
func (s *cronSpec) desc() string { return s.descStr }
func (s *cronSpec) sig(ref, got outcome) string {
	name := "Parser.Parse"
	if s.parser == 0 {
		name = "ParseStandard"
	}
	return "cron/" + name + "-result-differs-under-concurrency/" + got.class
}

var cronT0 = time.Date(2024, 2, 28, 23, 59, 30, 0, time.UTC)

func (s *cronSpec) run(c *gctx) outcome {
	var sched cron.Schedule
	var err error
	if p := cronParsers[s.parser]; p.opts == 0 {
		sched, err = cron.ParseStandard(s.spec)
	} else {
		// a parser of this goroutine's own
		sched, err = cron.NewParser(p.opts).Parse(s.spec)
	}
	c.pause(s.d)
	// a Cron of this goroutine's own reads the package-level default parser and
	// default logger; its AddFunc must agree with ParseStandard
	add := ""
	if cronParsers[s.parser].opts == 0 {
		cr := cron.New()
		id, aerr := cr.AddFunc(s.spec, func() {})
		add = fmt.Sprintf(" | cron.New().AddFunc: id=%d err=%q entries=%d", id, errText(aerr), len(cr.Entries()))
		if c.conc {
			c.count("cron.new_addfunc_calls", 1)
		}
		if (aerr == nil) != (err == nil) {
			add += " DISAGREES with ParseStandard"
		}
	}
	if err != nil {
		return outcome{res: "error: " + err.Error() + add, class: "error"}
	}
	var res string
	switch v := sched.(type) {
	case *cron.SpecSchedule:
		res = fmt.Sprintf("SpecSchedule{S:%x M:%x H:%x Dom:%x Mon:%x Dow:%x Loc:%s}", v.Second, v.Minute, v.Hour, v.Dom, v.Month, v.Dow, v.Location)
	case cron.ConstantDelaySchedule:
		res = fmt.Sprintf("ConstantDelay{%s}", v.Delay)
	default:
		res = fmt.Sprintf("%T %+v", sched, sched)
	}
	if s.next {
		t := cronT0
		for i := 0; i < 3; i++ {
			t = sched.Next(t)
			res += " " + t.UTC().Format(time.RFC3339)
		}
	}
	return outcome{res: res + add, class: "schedule", ok: true}
}

// ---------------------------------------------------------------------- logger

type logLine struct {
	level string // debug info warn error
	msg   string
	field bool // through WithFields
	typ   bool // through WithLogType(LogTypeRequest)
}

type logSpec struct {
	mode     string // distinct | shared | cron
	round    int
	g, k     int
	json     bool
	appID    string
	minLevel logger.LogLevel
	lines    []logLine
	shared   int
	d        delay
	descStr  string
}

func newLogSpec(rng *mon.RNG, round, g, k int) *logSpec {
	s := &logSpec{round: round, g: g, k: k, d: pickDelay(rng)}
	switch w := rng.Intn(10); {
	case w < 6:
		s.mode = "distinct"
	case w < 8:
		s.mode = "shared"
		s.shared = rng.Intn(3)
	default:
		s.mode = "cron"
	}
	s.json = rng.Bool()
	if rng.Bool() {
		s.appID = fmt.Sprintf("app-%d-%d", g, rng.Intn(1000))
	}
	s.minLevel = []logger.LogLevel{logger.DebugLevel, logger.InfoLevel, logger.WarnLevel, logger.ErrorLevel}[rng.Intn(4)]
	for i, n := 0, rng.Range(1, 6); i < n; i++ {
		s.lines = append(s.lines, logLine{level: rng.PickStr("debug", "info", "warn", "error"), msg: fmt.Sprintf("g%d-%d message %x", g, i, rng.U64()), field: rng.Chance(1, 3), typ: rng.Chance(1, 5)})
	}
	s.descStr = fmt.Sprintf("log mode=%s json=%v appid=%q level=%s lines=%v shared=%d pause=%s", s.mode, s.json, s.appID, s.minLevel, s.lines, s.shared, s.d)
	return s
}

func (s *logSpec) kind() string { return "log" }
func (s *logSpec) desc() string { return s.descStr }
func (s *logSpec) sig(ref, got outcome) string {
	switch s.mode {
	case "shared":
		return "logger/equal-name-lookup-differs-under-concurrency"
	case "cron":
		return "cron/logger-lines-differ-under-concurrency"
	}
	return "logger/lines-differ-under-concurrency"
}

func (s *logSpec) phase(c *gctx) string {
	if c.conc {
		return fmt.Sprintf("loop%d", c.loop)
	}
	return "alone"
}

var textTime = regexp.MustCompile(`time="[^"]*" `)

// canonLines removes the time field of every line and, for JSON output,
// re-marshals the object with sorted keys.
func canonLines(out string, isJSON bool, scope string) string {
	var lines []string
	for _, l := range strings.Split(strings.TrimRight(out, "\n"), "\n") {
		if l == "" {
			continue
		}
		if isJSON {
			var m map[string]any
			if err := json.Unmarshal([]byte(l), &m); err != nil {
				lines = append(lines, "UNPARSABLE "+l)
				continue
			}
			delete(m, "time")
			if m["scope"] == scope {
				m["scope"] = "<own name>"
			}
			b, _ := json.Marshal(m)
			lines = append(lines, string(b))
		} else {
			l = textTime.ReplaceAllString(l, "")
			lines = append(lines, strings.ReplaceAll(l, scope, "<own name>"))
		}
	}
	return strings.Join(lines, "\n")
}

// sharedSeen: shared logger name -> instances returned / goroutines that asked.
var sharedSeen = struct {
	sync.Mutex
	m map[string]*sharedEntry
}{m: map[string]*sharedEntry{}}

type sharedEntry struct {
	insts map[logger.Logger]int
	gs    map[int]bool
}

func (s *logSpec) run(c *gctx) outcome {
	switch s.mode {
	case "cron":
		var buf bytes.Buffer
		lg := log.New(&buf, fmt.Sprintf("g%d: ", s.g), 0)
		quiet, verbose := cron.PrintfLogger(lg), cron.VerbosePrintfLogger(lg)
		for i, l := range s.lines {
			switch l.level {
			case "error":
				verbose.Error(errors.New("boom-"+l.msg), l.msg, "i", i, "at", cronT0)
			case "warn":
				quiet.Error(errors.New("quiet-"+l.msg), l.msg)
			case "info":
				verbose.Info(l.msg, "now", cronT0, "entry", i)
			default:
				quiet.Info(l.msg, "dropped", true) // PrintfLogger logs errors only
			}
			if i == 0 {
				c.pause(s.d)
			}
		}
		return outcome{res: buf.String(), class: "lines", ok: true}

	case "shared":
		// several goroutines of the round look the same name up; nobody writes to
		// or reconfigures a shared logger
		name := fmt.Sprintf("c08/shared/r%d/%s/%d", s.round, s.phase(c), s.shared)
		l1 := logger.NewLogger(name)
		c.pause(s.d)
		l2 := logger.NewLogger(name)
		noteShared(name, s.g, l1, l2)
		if c.conc {
			c.count("log.shared_name_lookups", 2)
		}
		return outcome{res: fmt.Sprintf("second-lookup-same-instance=%v info-enabled=%v", l1 == l2, l1.IsOutputLevelEnabled(logger.InfoLevel)), class: "lookup", ok: l1 == l2}
	}

	// a name nobody else uses: created now (registry insert), looked up again
	name := fmt.Sprintf("c08/r%d/g%d/p%d/%s", s.round, s.g, s.k, s.phase(c))
	l := logger.NewLogger(name)
	var buf bytes.Buffer
	l.SetOutput(&buf)
	l.EnableJSONOutput(s.json)
	if s.appID != "" {
		l.SetAppID(s.appID)
	}
	l.SetOutputLevel(s.minLevel)
	again := logger.NewLogger(name)
	for i, ln := range s.lines {
		tgt := again
		if ln.field {
			tgt = tgt.WithFields(map[string]any{"goroutine": s.g, "n": i})
		}
		if ln.typ {
			tgt = tgt.WithLogType(logger.LogTypeRequest)
		}
		switch ln.level {
		case "debug":
			tgt.Debugf("%s #%d", ln.msg, i)
		case "info":
			tgt.Info(ln.msg, " ", i)
		case "warn":
			tgt.Warnf("%s #%d", ln.msg, i)
		default:
			tgt.Error(ln.msg)
		}
		if i == 0 {
			c.pause(s.d)
		}
	}
	res := fmt.Sprintf("same-instance=%v\n%s", l == again, canonLines(buf.String(), s.json, name))
	return outcome{res: res, class: "lines", ok: l == again}
}

func noteShared(name string, g int, ls ...logger.Logger) {
	sharedSeen.Lock()
	e := sharedSeen.m[name]
	if e == nil {
		e = &sharedEntry{insts: map[logger.Logger]int{}, gs: map[int]bool{}}
		sharedSeen.m[name] = e
	}
	for _, l := range ls {
		e.insts[l]++
	}
	e.gs[g] = true
	sharedSeen.Unlock()
}

// checkSharedLoggers judges the equal-name look-ups of the round: every
// look-up of one name must have returned the same instance.
func checkSharedLoggers(rp roundPlan) {
	sharedSeen.Lock()
	defer sharedSeen.Unlock()
	names := make([]string, 0, len(sharedSeen.m))
	for n := range sharedSeen.m {
		names = append(names, n)
	}
	sort.Strings(names)
	for _, n := range names {
		e := sharedSeen.m[n]
		if len(e.gs) > 1 && strings.Contains(n, "/loop") {
			rec.Count("log.shared_names_with_several_goroutines", 1)
		}
		if len(e.insts) > 1 {
			rec.Violation(rp.idx, "logger/equal-name-different-instances",
				fmt.Sprintf("logger.NewLogger(%q) returned %d different instances to %d goroutines", n, len(e.insts), len(e.gs)),
				map[string]any{"round": rp.String(), "name": n, "instances": len(e.insts), "goroutines": len(e.gs)})
		}
		delete(sharedSeen.m, n)
	}
}

// -------------------------------------------------------------- byteslicepool

// poolMon is the ownership monitor. It keeps a *byte to the first element of
// every slice it has seen in the round, so the allocator cannot reuse an
// address while it is tracked.
type poolMon struct {
	mu     sync.Mutex
	owners map[*byte]uint64  // slices currently owned (between Get and Put / drop)
	pooled map[*byte]putInfo // slices that were Put at least once: how they were last Put
}

// putInfo describes the last Put of a backing array: the slice had length n and
// its first n bytes held the non-zero stamp of owner tag.
type putInfo struct {
	n   int
	tag uint64
}

func newPoolMon() *poolMon {
	return &poolMon{owners: map[*byte]uint64{}, pooled: map[*byte]putInfo{}}
}

// recycledDirty judges a slice that Get has just returned and whose backing
// array the monitor saw Put before with length info.n: the unchanged Get
// wipes exactly those info.n bytes, so the new owner must find them zero -
// directly (b[:cap(b)]) and through Resize(b, n) for n <= info.n. Bytes beyond
// info.n are not judged. It returns a description of the first stale byte, or
// "". The slice must not have been written to by its new owner yet.
func recycledDirty(pool *byteslicepool.ByteSlicePool, b []byte, info putInfo) (string, map[string]any) {
	l := min2(info.n, cap(b))
	if l == 0 {
		return "", nil
	}
	describe := func(view []byte, i int, how string) (string, map[string]any) {
		whose := "not the previous owner's stamp"
		if view[i] == stampByte(info.tag, i) {
			whose = "the previous owner's stamp"
		}
		return fmt.Sprintf("Get returned a recycled slice (cap %d, last Put with length %d) whose byte %d, read %s, is %#02x (%s) instead of 0: the previous owner's bytes are visible to the next owner",
				cap(b), info.n, i, how, view[i], whose),
			map[string]any{"offset": i, "cap": cap(b), "length_at_last_put": info.n, "read_through": how, "previous_owner_tag": fmt.Sprintf("%x", info.tag),
				"found": fmt.Sprintf("%x", view[i:min2(i+16, len(view))])}
	}
	full := b[:cap(b)][:l]
	for i := range full {
		if full[i] != 0 {
			return describe(full, i, "through b[:cap(b)]")
		}
	}
	// what Resize hands to the new owner (n < cap: the same array; n == cap: a copy of b's content)
	n := l
	r := pool.Resize(b, n)
	if len(r) == n {
		for i := range r {
			if r[i] != 0 {
				return describe(r, i, fmt.Sprintf("through Resize(b, %d)", n))
			}
		}
	}
	return "", nil
}

type roundPools struct {
	shared  [3]*byteslicepool.ByteSlicePool
	minCaps [3]int
	mon     [3]*poolMon
	viol    []func(rp roundPlan)
	vmu     sync.Mutex
}

func newRoundPools(round int) *roundPools {
	// the third shared pool has a MinCap that no pool of this process had before
	p := &roundPools{minCaps: [3]int{16, 300, 4000 + (round*37)%3000}}
	for i := range p.shared {
		p.shared[i] = byteslicepool.NewByteSlicePool(p.minCaps[i])
		p.mon[i] = newPoolMon()
	}
	return p
}

// report defers a violation to the end of the round (no recorder traffic from
// inside a pipeline).
func (p *roundPools) report(sig, msg string, replay map[string]any) {
	p.vmu.Lock()
	p.viol = append(p.viol, func(rp roundPlan) {
		replay["round"] = rp.String()
		rec.Violation(rp.idx, sig, msg, replay)
	})
	p.vmu.Unlock()
}

func (p *roundPools) finish(rp roundPlan) {
	for _, f := range p.viol {
		f(rp)
	}
}

// sequentialPoolLoop is the one-goroutine version of the recycling check: Get,
// fill with this iteration's stamp, Put with some length, Get again ... On one
// P a sync.Pool hands the object just Put straight back (the -race build
// drops a quarter of the Puts), so most Gets are recycled; only those are
// judged, and only up to the length of the last Put.
func sequentialPoolLoop(rp roundPlan) {
	rng := mon.NewRNG("seqpool", rp.idx)
	minCap := rng.PickInt(8, 64, 1024)
	pool, pm := byteslicepool.NewByteSlicePool(minCap), newPoolMon()
	for i := 0; i < 48; i++ {
		tag := uint64(rp.idx)<<40 ^ uint64(i)<<8 ^ 0xC3 ^ 1<<62
		ask := rng.PickInt(0, 16, 100, 1024, 5000)
		b := pool.Get(ask)
		rec.Count("pool.sequential.gets", 1)
		if cap(b) == 0 {
			continue
		}
		if info, ok := pm.pooled[base(b[:1])]; ok && info.n > 0 {
			rec.Count("pool.sequential.recycled_gets_checked_for_previous_owner_bytes", 1)
			if msg, extra := recycledDirty(pool, b, info); msg != "" {
				extra["round"], extra["iteration"], extra["mincap"], extra["phase"] = rp.String(), i, minCap, "sequential loop, one goroutine"
				rec.Violation(rp.idx, "byteslicepool/recycled-slice-holds-previous-owner-bytes", msg, extra)
			}
		}
		b = b[:cap(b)]
		stamp(b, tag)
		if rng.Chance(1, 4) && cap(b) < 16<<10 {
			// grow now and then, so that arrays of several capacities circulate (Resize
			// at least doubles the capacity, hence the bound)
			b = pool.Resize(b, cap(b)+rng.PickInt(1, 100, 3000))
			stamp(b[:cap(b)], tag)
		}
		b = b[:rng.PickInt(1, cap(b)/2+1, cap(b), cap(b))]
		pm.pooled[base(b[:1])] = putInfo{n: len(b), tag: tag}
		pool.Put(b)
	}
}

type poolOp struct {
	get    int   // capacity asked of Get
	sizes  []int // Resize targets
	putLen int   // permille of the final capacity used as the length of the slice that is Put
}

type poolSpec struct {
	pool int // 0-2 shared pool of the round, 3 a pool of this goroutine's own
	// fresh: MinCap, Get capacities and Resize targets are derived from (round, loop)
	// at run time - values no pool call of this process has used before, the same
	// for every goroutine of the round, met for the first time in the concurrent
	// phase (the reference run follows it)
	fresh   bool
	ownMin  int
	g       int
	ops     []poolOp
	d       delay
	descStr string
}

func newPoolSpec(rng *mon.RNG, g int) *poolSpec {
	s := &poolSpec{pool: rng.Intn(4), ownMin: rng.PickInt(8, 64, 1024), g: g, d: pickDelay(rng), fresh: rng.Chance(1, 3)}
	for i, n := 0, rng.Range(2, 6); i < n; i++ {
		op := poolOp{get: rng.PickInt(0, 1, 16, 100, 300, 301, 4096, 5000, 20000), putLen: rng.PickInt(0, 250, 500, 1000, 1000)}
		for j, m := 0, rng.Intn(4); j < m; j++ {
			op.sizes = append(op.sizes, rng.PickInt(0, 1, 15, 16, 17, 299, 300, 301, 1000, 4999, 5000, 5001, 12000, 40000))
		}
		s.ops = append(s.ops, op)
	}
	s.descStr = fmt.Sprintf("pool pool=%d ownmincap=%d fresh-sizes=%v ops=%v pause=%s", s.pool, s.ownMin, s.fresh, s.ops, s.d)
	return s
}

func (s *poolSpec) kind() string { return "pool" }
func (s *poolSpec) lateRefMode() int {
	if s.fresh {
		return 2
	}
	return 0
}
func (s *poolSpec) desc() string { return s.descStr }
func (s *poolSpec) sig(ref, got outcome) string {
	return "byteslicepool/cycle-result-differs-under-concurrency"
}

func base(b []byte) *byte { return unsafe.SliceData(b) }

// stampByte is byte i of owner tag's pattern; it is never zero, so a wiped
// byte and a stamped byte cannot be confused.
func stampByte(tag uint64, i int) byte {
	v := byte(tag>>(8*(uint(i)%8))) ^ byte(i>>3)
	if v == 0 {
		v = 0x5A
	}
	return v
}

func stamp(b []byte, tag uint64) {
	for i := range b {
		b[i] = stampByte(tag, i)
	}
}

func stampOK(b []byte, tag uint64) int {
	for i := range b {
		if b[i] != stampByte(tag, i) {
			return i
		}
	}
	return -1
}

func (s *poolSpec) run(c *gctx) outcome {
	var (
		pool *byteslicepool.ByteSlicePool
		pm   *poolMon
		min  int
	)
	if s.pool < 3 {
		pool, pm, min = c.pools.shared[s.pool], c.pools.mon[s.pool], c.pools.minCaps[s.pool]
	} else {
		min = s.ownMin
		if s.fresh {
			min = 1000 + ((c.round*4+c.loop)*131)%50000
		}
		pool, pm = byteslicepool.NewByteSlicePool(min), newPoolMon()
	}
	freshBase := 0
	if s.fresh {
		freshBase = 1000 + ((c.round*4+c.loop)*131)%50000
		if c.conc {
			c.count("pool.fresh_size_cycles", 1)
		}
	}
	var notes []string
	fail := func(sig, msg string, extra map[string]any) {
		notes = append(notes, sig)
		extra["pipeline"], extra["goroutine"], extra["concurrent"] = s.descStr, s.g, c.conc
		c.pools.report(sig, msg, extra)
	}
	check := func(b []byte, tag uint64, when string) {
		c.count("pool.stamp_checks", 1)
		if i := stampOK(b[:cap(b)], tag); i >= 0 {
			fail("byteslicepool/owned-slice-modified", fmt.Sprintf("a slice obtained from Get (cap %d) was modified at offset %d while its owner still held it (%s)", cap(b), i, when),
				map[string]any{"offset": i, "cap": cap(b), "when": when, "found": fmt.Sprintf("%x", b[:cap(b)][i:min2(i+16, cap(b))])})
		}
	}
	for n, op := range s.ops {
		if s.fresh {
			op.get = freshBase + n*17
			sizes := make([]int, len(op.sizes))
			for i, sz := range op.sizes {
				sizes[i] = freshBase + n*17 + sz%9000 - 4000 // below and above the capacity asked for
			}
			op.sizes = sizes
		}
		tag := uint64(c.round)<<48 ^ uint64(s.g)<<32 ^ uint64(c.loop+1)<<24 ^ uint64(n)<<8 ^ 0xA5
		if c.conc {
			tag ^= 1 << 63
		}
		b := pool.Get(op.get)
		c.count("pool.gets", 1)
		if len(b) != 0 {
			fail("byteslicepool/get-returned-nonzero-length", fmt.Sprintf("Get(%d) returned a slice of length %d", op.get, len(b)), map[string]any{"len": len(b), "cap": cap(b)})
		}
		if cap(b) == 0 {
			fail("byteslicepool/get-returned-zero-capacity", fmt.Sprintf("Get(%d) on a pool with MinCap %d returned a slice without capacity", op.get, min), map[string]any{})
			continue
		}
		pm.mu.Lock()
		info, recycled := pm.pooled[base(b[:1])]
		other, owned := pm.owners[base(b[:1])]
		pm.owners[base(b[:1])] = tag
		pm.mu.Unlock()
		if owned {
			fail("byteslicepool/slice-handed-out-twice", fmt.Sprintf("Get returned a slice (cap %d) that another caller obtained from Get and has not Put back", cap(b)), map[string]any{"cap": cap(b), "other_owner_tag": fmt.Sprintf("%x", other)})
		}
		if recycled {
			c.count("pool.gets_recycled", 1)
			if bytes.Count(b[:cap(b)], []byte{0}) == cap(b) {
				c.count("pool.gets_recycled.all_zero", 1)
			}
			if info.n > 0 && !owned {
				c.count("pool.recycled_gets_checked_for_previous_owner_bytes", 1)
				c.count("pool.recycled_bytes_checked", min2(info.n, cap(b)))
				if c.conc {
					c.count("pool.recycled_gets_checked.concurrent_phase", 1)
				}
				if msg, extra := recycledDirty(pool, b, info); msg != "" {
					fail("byteslicepool/recycled-slice-holds-previous-owner-bytes", msg, extra)
				}
			}
		} else {
			c.count("pool.gets_fresh", 1)
			if cap(b) < min {
				fail("byteslicepool/fresh-slice-below-mincap", fmt.Sprintf("Get(%d) allocated a slice of capacity %d on a pool with MinCap %d", op.get, cap(b), min), map[string]any{"cap": cap(b)})
			}
			if cap(b) >= op.get {
				c.count("pool.gets_fresh.cap_ge_requested", 1)
			}
		}
		stamp(b[:cap(b)], tag)
		c.pause(s.d)
		check(b, tag, "after Get")
		for _, size := range op.sizes {
			// give the slice some content, remember it, resize
			l := min2(cap(b), size/2+1)
			b = b[:l]
			before := append([]byte(nil), b...)
			oldBase, oldCap := base(b[:1]), cap(b)
			r := pool.Resize(b, size)
			c.count("pool.resizes", 1)
			keep := min2(len(before), size)
			switch {
			case len(r) != size:
				fail("byteslicepool/resize-wrong-length", fmt.Sprintf("Resize(len %d cap %d, %d) returned length %d", l, oldCap, size, len(r)), map[string]any{})
			case !bytes.Equal(r[:keep], before[:keep]):
				fail("byteslicepool/resize-lost-content", fmt.Sprintf("Resize(len %d cap %d, %d) did not keep the first %d bytes", l, oldCap, size, keep), map[string]any{})
			case !bytes.Equal(b, before):
				fail("byteslicepool/resize-modified-original", fmt.Sprintf("Resize(len %d cap %d, %d) changed the original slice", l, oldCap, size), map[string]any{})
			}
			if cap(r) == 0 {
				continue // Resize(_, 0) of ... cannot happen with cap(b) > 0; keep b
			}
			if base(r[:1]) != oldBase {
				c.count("pool.resizes_reallocated", 1)
				// the old slice is dropped (not Put): stop tracking it, track the new one
				check(b, tag, "before dropping the slice replaced by Resize")
				pm.mu.Lock()
				delete(pm.owners, oldBase)
				pm.owners[base(r[:1])] = tag
				pm.mu.Unlock()
				stamp(r[:cap(r)], tag)
			}
			b = r
			c.pause(delay{1, 1})
			check(b, tag, "after Resize")
		}
		b = b[:cap(b)*op.putLen/1000]
		check(b, tag, "before Put")
		pm.mu.Lock()
		delete(pm.owners, base(b[:1]))
		pm.pooled[base(b[:1])] = putInfo{n: len(b), tag: tag}
		pm.mu.Unlock()
		pool.Put(b)
		c.count("pool.puts", 1)
	}
	if len(notes) > 0 {
		return outcome{res: "monitor: " + strings.Join(notes, ","), class: "monitor", bad: "pool monitor fired (reported separately)"}
	}
	return outcome{res: "all Get/Resize/Put postconditions held", class: "ok", ok: true}
}

func min2(a, b int) int {
	if a < b {
		return a
	}
	return b
}
