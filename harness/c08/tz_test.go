package c08

import (
	"fmt"
	"strings"
	"time"

	"github.com/dapr/kit/cron"

	"verif/harness/internal/mon"
)

// tzSpec is the first-use pipeline of the cron clause: whatever a parser might
// memoise at package level (resolved time zones, parsers per option set,
// schedules per spec string) is keyed by something, and these pipelines make
// sure that keys NO goroutine of the process has used before are met for the
// first time by several goroutines at once.
//
// Every (round, loop) has a window of tzWindow entries; an entry is a spec
// with a TZ= / CRON_TZ= prefix whose zone name is new to the process, a way
// of parsing it (ParseStandard, a Parser with a seeded option set,
// cron.New().AddFunc, cron.New(cron.WithSeconds()).AddFunc) and fields to
// match. Each tz pipeline parses tzPicks entries of the window of its current
// loop, so every entry is parsed by several goroutines. Its reference is run
// alone AFTER the concurrent phase (a reference run beforehand would make
// every key a warm one).
//
// Fresh zone names: the fixed list zoneNames is walked with a stride; once it
// is exhausted (thorough tier) the names come back as "posix/<name>",
// "posix//<name>", "posix///<name>" ... - the same tzdata files under names
// that are new as far as any cache key is concerned. Every sixth entry has a
// zone name that does not exist (error expected, the same alone and
// concurrently).
const (
	tzWindow = 10
	tzPicks  = 6
)

type tzEntry struct {
	how  int // 0 ParseStandard, 1 Parser with opts, 2 cron.New().AddFunc, 3 cron.New(WithSeconds()).AddFunc
	opts cron.ParseOption
	spec string
	zone string
}

func freshZone(seq int) string {
	n := len(zoneNames)
	name, lap := zoneNames[(seq*37)%n], seq/n
	if lap == 0 {
		return name
	}
	return "posix" + strings.Repeat("/", lap) + name
}

func simpleField(rng *mon.RNG, kind string) string {
	b := fieldBounds[kind]
	switch kind {
	case "mon":
		return rng.PickStr("*", "*", "*/2", "1-12", pipelineSpelling(rng, monthNames[rng.Intn(12)]), pipelineSpelling(rng, "jan")+"-"+pipelineSpelling(rng, monthNames[rng.Intn(12)]))
	case "dow":
		return rng.PickStr("*", "*", "1-5", "?", "sun", pipelineSpelling(rng, dowNames[rng.Intn(7)]), pipelineSpelling(rng, "sun")+"-"+pipelineSpelling(rng, dowNames[rng.Intn(7)]))
	case "dom":
		return rng.PickStr("*", "*", fmt.Sprint(rng.Range(1, 28)), "?")
	}
	switch rng.Intn(4) {
	case 0:
		return fmt.Sprintf("*/%d", rng.Range(2, 30))
	case 1:
		lo := rng.Range(b[0], b[1])
		return fmt.Sprintf("%d-%d", lo, rng.Range(lo, b[1]))
	}
	return fmt.Sprint(rng.Range(b[0], b[1]))
}

// windowEntry is entry j of the window of (round, loop); it is a function of
// the run seed and its arguments only.
func windowEntry(round, loop, loops, j int) tzEntry {
	seq := (round*loops+loop)*tzWindow + j
	rng := mon.NewRNG("tzwindow", seq)
	e := tzEntry{how: rng.Intn(4), zone: freshZone(seq)}
	if j%6 == 5 {
		e.zone = rng.PickStr(fmt.Sprintf("No/Such_Zone_%d", seq), fmt.Sprintf("Europe/Atlantis%d", seq), "../etc/passwd", fmt.Sprintf("posix/Mars/Base_%d", seq))
	}
	kinds := []string{"m", "h", "dom", "mon", "dow"}
	switch e.how {
	case 3:
		kinds = []string{"s", "m", "h", "dom", "mon", "dow"}
	case 1:
		// a seeded option set: any subset of the fields, optionals and descriptors
		kinds = nil
		for _, f := range []struct {
			k   string
			opt cron.ParseOption
		}{{"s", cron.Second}, {"m", cron.Minute}, {"h", cron.Hour}, {"dom", cron.Dom}, {"mon", cron.Month}, {"dow", cron.Dow}} {
			if rng.Chance(2, 3) {
				e.opts |= f.opt
				kinds = append(kinds, f.k)
			}
		}
		if e.opts == 0 {
			e.opts, kinds = cron.Minute|cron.Hour, []string{"m", "h"}
		}
		if e.opts&cron.Dow == 0 && rng.Chance(1, 4) {
			e.opts |= cron.DowOptional
			if rng.Bool() {
				kinds = append(kinds, "dow")
			}
		} else if e.opts&cron.Second == 0 && rng.Chance(1, 4) {
			e.opts |= cron.SecondOptional
			if rng.Bool() {
				kinds = append([]string{"s"}, kinds...)
			}
		}
		if rng.Bool() {
			e.opts |= cron.Descriptor
		}
	}
	body := ""
	if (e.how != 1 || e.opts&cron.Descriptor != 0) && rng.Chance(1, 5) {
		body = rng.PickStr("@daily", "@hourly", "@weekly", "@monthly", fmt.Sprintf("@every %dm", rng.Range(1, 600)))
	} else {
		var f []string
		for _, k := range kinds {
			f = append(f, simpleField(rng, k))
		}
		body = strings.Join(f, " ")
	}
	e.spec = rng.PickStr("TZ=", "CRON_TZ=") + e.zone + " " + body
	return e
}

func (e tzEntry) String() string {
	how := []string{"ParseStandard", fmt.Sprintf("NewParser(%#x).Parse", int(e.opts)), "cron.New().AddFunc", "cron.New(WithSeconds()).AddFunc"}[e.how]
	return fmt.Sprintf("%s(%q)", how, e.spec)
}

func scheduleRepr(sched cron.Schedule) string {
	var res string
	switch v := sched.(type) {
	case *cron.SpecSchedule:
		res = fmt.Sprintf("SpecSchedule{S:%x M:%x H:%x Dom:%x Mon:%x Dow:%x Loc:%s}", v.Second, v.Minute, v.Hour, v.Dom, v.Month, v.Dow, v.Location)
	case cron.ConstantDelaySchedule:
		res = fmt.Sprintf("ConstantDelay{%s}", v.Delay)
	case nil:
		return "nil schedule"
	default:
		res = fmt.Sprintf("%T %+v", sched, sched)
	}
	t := cronT0
	for i := 0; i < 3; i++ {
		t = sched.Next(t)
		res += " " + t.Format(time.RFC3339)
	}
	return res
}

func (e tzEntry) run() (res string, ok bool) {
	switch e.how {
	case 0, 1:
		var sched cron.Schedule
		var err error
		if e.how == 0 {
			sched, err = cron.ParseStandard(e.spec)
		} else {
			sched, err = cron.NewParser(e.opts).Parse(e.spec)
		}
		if err != nil {
			return "error: " + err.Error(), false
		}
		return scheduleRepr(sched), true
	}
	var cr *cron.Cron
	if e.how == 2 {
		cr = cron.New()
	} else {
		cr = cron.New(cron.WithSeconds())
	}
	id, err := cr.AddFunc(e.spec, func() {})
	if err != nil {
		return fmt.Sprintf("AddFunc id=%d error: %s entries=%d", id, err.Error(), len(cr.Entries())), false
	}
	return fmt.Sprintf("AddFunc id=%d entries=%d ", id, len(cr.Entries())) + scheduleRepr(cr.Entry(id).Schedule), true
}

type tzSpec struct {
	loops   int
	picks   []int
	d       delay
	descStr string
}

func newTZSpec(rng *mon.RNG, rp roundPlan) *tzSpec {
	s := &tzSpec{loops: rp.loops, d: pickDelay(rng)}
	perm := []int{0, 1, 2, 3, 4, 5, 6, 7, 8, 9}
	for i := range perm {
		j := i + rng.Intn(len(perm)-i)
		perm[i], perm[j] = perm[j], perm[i]
	}
	s.picks = perm[:tzPicks]
	var first []string
	for _, j := range s.picks {
		first = append(first, windowEntry(rp.idx, 0, rp.loops, j).String())
	}
	s.descStr = fmt.Sprintf("tz round=%d window-entries=%v (loop 0: %s; other loops: same entries of that loop's window) pause=%s", rp.idx, s.picks, strings.Join(first, "; "), s.d)
	return s
}

func (s *tzSpec) kind() string     { return "tz" }
func (s *tzSpec) desc() string     { return s.descStr }
func (s *tzSpec) lateRefMode() int { return 2 }
func (s *tzSpec) sig(ref, got outcome) string {
	return "cron/timezone-spec-result-differs-under-concurrency/" + got.class
}

func (s *tzSpec) run(c *gctx) outcome {
	var parts []string
	okAll, errs := true, 0
	for i, j := range s.picks {
		e := windowEntry(c.round, c.loop, s.loops, j)
		r, ok := e.run()
		if !ok {
			errs++
			if j%6 != 5 {
				okAll = false // a real zone name failed (a system without it): still compared, not "real work"
			}
		}
		parts = append(parts, e.String()+" -> "+r)
		if i == 0 {
			c.pause(s.d)
		}
		if c.conc {
			c.count("tz.specs_with_fresh_zone_names_parsed", 1)
			c.count(fmt.Sprintf("tz.via.%d", e.how), 1)
			if j%6 == 5 {
				c.count("tz.invalid_zone_names", 1)
			}
		}
	}
	cls := "schedules"
	if !okAll {
		cls = "valid-zone-rejected"
	}
	return outcome{res: strings.Join(parts, "\n"), class: cls, ok: okAll}
}
