package c08

import (
	"fmt"
	"os"
	"strings"
	"time"

	"github.com/dapr/kit/logger"

	"verif/harness/internal/mon"
)

// "A logger's slow sink is that logger's business": while the output writer of
// logger y is stuck in Write, and even while ApplyOptionsToLoggers is waiting
// for y, look-ups of UNRELATED names must go through; and a sink that creates
// a logger from inside Write must not deadlock with ApplyOptionsToLoggers.
//
// Ordering is done with channels (the sink reports "entered" before the
// harness starts the Apply, which also gives the race detector the
// happens-before edge between y's logging call and the Apply that rewrites
// y's fields; the Apply carries no app id, so it never replaces the entry a
// logging call reads). Wall-clock time is only a watchdog: when a wait runs
// out, the verdict comes from a goroutine dump that shows WHERE the waiting
// goroutines are parked (NewLogger on the registry lock), not from the time.
type gateSink struct {
	entered chan struct{}
	gate    chan struct{}
	inside  func() // runs after the gate opened, still inside Write
	written int
}

func (s *gateSink) Write(p []byte) (int, error) {
	s.entered <- struct{}{}
	<-s.gate
	if s.inside != nil {
		s.inside()
	}
	s.written++
	return len(p), nil
}

const slowWatchdog = 15 * time.Second

func waitAll(chs []chan struct{}, d time.Duration) bool {
	deadline := time.After(d)
	for _, c := range chs {
		select {
		case <-c:
		case <-deadline:
			return false
		}
	}
	return true
}

// parkedIn returns the goroutine blocks of a dump that contain all the given
// substrings.
func parkedIn(dump string, subs ...string) []string {
	var out []string
	for _, g := range strings.Split(dump, "\n\n") {
		ok := true
		for _, s := range subs {
			if !strings.Contains(g, s) {
				ok = false
				break
			}
		}
		if ok {
			out = append(out, g)
		}
	}
	return out
}

// waitApplierParked waits until the Apply goroutine is parked on a lock (or has
// finished): from then on it has visited the registry.
func waitApplierParked(done chan struct{}) {
	for i := 0; i < 400; i++ {
		select {
		case <-done:
			return
		default:
		}
		if len(parkedIn(mon.Stacks(), "logger.ApplyOptionsToLoggers", ".Lock")) > 0 {
			return
		}
		time.Sleep(5 * time.Millisecond)
	}
}

func loggerSlowSinkPhase(rp roundPlan) {
	run := func(f func()) chan struct{} {
		c := make(chan struct{})
		go func() { defer close(c); f() }()
		return c
	}
	fatal := func(sig, msg, dump string) {
		rec.Violation(rp.idx, sig, msg, map[string]any{"round": rp.String(), "build": build, "goroutines": clip(dump, 12000)})
		// the registry lock is never coming back: nothing else in this process can be trusted to finish
		rec.Close()
		os.Exit(1)
	}
	opts := logger.DefaultOptions()

	// ---- (1) y's sink is blocked, an Apply is in flight: unrelated look-ups go through
	ySink := &gateSink{entered: make(chan struct{}, 1), gate: make(chan struct{})}
	y := logger.NewLogger(fmt.Sprintf("c08/slow/r%d/y", rp.idx))
	y.SetOutput(ySink)
	yDone := run(func() { y.Info("a line for a slow sink") })
	<-ySink.entered
	applyDone := run(func() { _ = logger.ApplyOptionsToLoggers(&opts) })
	waitApplierParked(applyDone)
	var lookers []chan struct{}
	for i := 0; i < 4; i++ {
		i := i
		lookers = append(lookers, run(func() {
			for j := 0; j < 3; j++ {
				logger.NewLogger(fmt.Sprintf("c08/slow/r%d/unrelated/%d-%d", rp.idx, i, j))
			}
		}))
	}
	if waitAll(lookers, slowWatchdog) {
		rec.Count("logslow.unrelated_lookups_completed_while_another_loggers_sink_was_blocked", 12)
		rec.Count(build+".logslow.unrelated_lookups_completed_while_another_loggers_sink_was_blocked", 12)
	} else {
		dump := mon.Stacks()
		if stuck := parkedIn(dump, "logger.NewLogger", "RWMutex).Lock", "loggerSlowSinkPhase"); len(stuck) > 0 {
			rec.Violation(rp.idx, "logger/lookup-of-unrelated-name-blocked-by-another-loggers-slow-sink",
				fmt.Sprintf("logger %q sits in its sink's Write and ApplyOptionsToLoggers is in flight; %d goroutines calling logger.NewLogger for unrelated fresh names are parked on the registry lock (still after %s)", "c08/slow/.../y", len(stuck), slowWatchdog),
				map[string]any{"round": rp.String(), "build": build, "a_parked_lookup": clip(stuck[0], 3000), "apply": clip(strings.Join(parkedIn(dump, "logger.ApplyOptionsToLoggers"), "\n"), 3000)})
		} else {
			rec.Inconclusive(rp.idx, "look-ups did not finish within the watchdog, but no goroutine is parked in NewLogger on the registry lock", clip(dump, 4000))
		}
	}
	close(ySink.gate)
	if !waitAll(append(lookers, yDone, applyDone), slowWatchdog) {
		fatal("logger/stuck-after-the-slow-sink-was-released", "the sink was released, but the logging call, ApplyOptionsToLoggers or the look-ups still have not returned", mon.Stacks())
	}
	rec.Progress()

	// ---- (2) a sink that creates a logger from inside Write, while options are applied
	zSink := &gateSink{entered: make(chan struct{}, 1), gate: make(chan struct{})}
	zSink.inside = func() { logger.NewLogger(fmt.Sprintf("c08/slow/r%d/z/child-created-inside-write", rp.idx)) }
	z := logger.NewLogger(fmt.Sprintf("c08/slow/r%d/z", rp.idx))
	z.SetOutput(zSink)
	zDone := run(func() { z.Info("a line for a sink that creates a logger") })
	<-zSink.entered
	applyDone = run(func() { _ = logger.ApplyOptionsToLoggers(&opts) })
	waitApplierParked(applyDone)
	close(zSink.gate)
	if !waitAll([]chan struct{}{zDone, applyDone}, slowWatchdog) {
		dump := mon.Stacks()
		if len(parkedIn(dump, "logger.NewLogger", "RWMutex).Lock", "gateSink")) > 0 && len(parkedIn(dump, "logger.ApplyOptionsToLoggers", ".Lock")) > 0 {
			fatal("logger/deadlock-sink-creates-logger-while-options-applied",
				"a sink that calls logger.NewLogger from inside Write and a concurrent ApplyOptionsToLoggers wait for each other: the sink is parked on the registry lock inside NewLogger, ApplyOptionsToLoggers is parked on the logger's own lock", dump)
		}
		fatal("logger/stuck-after-the-slow-sink-was-released", "the re-entrant sink was released, but the logging call or ApplyOptionsToLoggers still have not returned", dump)
	}
	rec.Count("logslow.reentrant_sink_scenarios_completed", 1)
	rec.Count(build+".logslow.reentrant_sink_scenarios_completed", 1)
	rec.Progress()
}
