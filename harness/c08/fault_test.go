package c08

import (
	"bytes"
	"crypto/sha256"
	"encoding/hex"
	"errors"
	"fmt"
	"io"
	"strings"
	"testing/iotest"

	enc "github.com/dapr/kit/schemes/enc/v1"

	"verif/harness/internal/mon"
)

// faultSpec is an enc/v1 stream that ends abnormally for a reason outside kit:
//
//   - "srcerr": the SOURCE reader of Encrypt (plaintext) or Decrypt (document)
//     returns a non-EOF error (a) before any data, (b) in the middle of a
//     segment, (c) exactly at a segment boundary, (d) together with the last
//     data, (e, Decrypt only) inside the header;
//   - "abandon": the CONSUMER reads a prefix of the output and closes the
//     reader, so kit's next pipe write fails.
//
// These exercise the exits of processSegments that hand the pooled segment
// buffer back on an error. Their own result (the error, and what was delivered
// before it) is deterministic and compared like every other pipeline's; what
// they may break is the healthy streams running at the same time.
type faultSpec struct {
	mode    string // srcerr | abandon
	decrypt bool   // fault on the Decrypt side (over the document of the reference run) instead of the Encrypt side
	where   string // before-any-data | mid-segment | segment-boundary | with-last-data | inside-header
	seg     int    // how many whole segments precede the fault
	frac    int    // permille of a segment (mid-segment / abandon offset)
	chunk   int    // source chunk size (0: whole); the same in both phases
	base    *encSpec
	doc     []byte // reference run's document (decrypt side)
	errText string
	d       delay
	descStr string
}

func newFaultSpec(rng *mon.RNG, mode string) *faultSpec {
	s := &faultSpec{mode: mode, decrypt: rng.Bool(), d: pickDelay(rng)}
	b := &encSpec{}
	// a healthy message of 0-3 segments and a bit
	s.seg = rng.Intn(3)
	n := s.seg*enc.SegmentSize + rng.PickInt(0, 1, 700, 30000, enc.SegmentSize-1, enc.SegmentSize)
	b.msg = rng.Bytes(n)
	b.cipher, b.alg = rng.Intn(3), rng.Intn(len(encAlgs))
	b.keyName = "k" + hex.EncodeToString(rng.Bytes(rng.PickInt(1, 12, 100)))
	b.kek, b.rsaIdx = rng.Bytes(32), rng.Intn(2)
	b.wrapD, b.unwrapD = pickDelay(rng), [2]delay{pickDelay(rng), pickDelay(rng)}
	s.base = b
	s.frac = rng.Range(1, 999)
	s.chunk = rng.PickInt(0, 0, 4096, 65536, 65537, 70000)
	if mode == "srcerr" {
		s.where = rng.PickStr("before-any-data", "mid-segment", "segment-boundary", "with-last-data")
		if s.decrypt && rng.Chance(1, 6) {
			s.where = "inside-header"
		}
		if s.where == "segment-boundary" && s.seg == 0 && !s.decrypt {
			s.seg = 1 // for plaintext, boundary 0 is "before any data"
		}
	} else {
		s.where = rng.PickStr("first-byte", "mid-segment", "segment-boundary")
	}
	s.errText = fmt.Sprintf("c08: source failed on purpose (%x)", rng.U64()&0xffffff)
	side := "Encrypt"
	if s.decrypt {
		side = "Decrypt"
	}
	s.descStr = fmt.Sprintf("%s side=%s where=%s segments-before=%d permille=%d chunk=%d len=%d cipher=%s alg=%s keyname=%dB kek=%s rsa=%d wrap=%s unwrap=%s+%s pause=%s msg-sha256=%s",
		mode, side, s.where, s.seg, s.frac, s.chunk, n, cipherNames[b.cipher], encAlgs[b.alg].opt, len(b.keyName), hex.EncodeToString(b.kek[:8]), b.rsaIdx, b.wrapD, b.unwrapD[0], b.unwrapD[1], s.d, shortSum(b.msg))
	return s
}

func (s *faultSpec) lateRefMode() int {
	if s.decrypt {
		return 0 // the reference run produces the document
	}
	return 1
}

func (s *faultSpec) kind() string { return s.mode }
func (s *faultSpec) desc() string { return s.descStr }
func (s *faultSpec) sig(ref, got outcome) string {
	if s.mode == "abandon" {
		return "enc/abandoned-stream-result-differs-under-concurrency/" + got.class
	}
	return "enc/source-error-result-differs-under-concurrency/" + got.class
}

func (s *faultSpec) sameCounters(got outcome) []string {
	side := "encrypt"
	if s.decrypt {
		side = "decrypt"
	}
	if s.mode == "abandon" {
		return []string{"enc.abandoned_stream_pipelines", "enc.abandoned." + side + "." + s.where}
	}
	return []string{"enc.source_error_pipelines", "enc.source_error." + side + "." + s.where, "enc.source_error.class=" + got.class}
}

// lastDataErrReader returns its final chunk together with the error.
type lastDataErrReader struct {
	b   []byte
	n   int
	err error
}

func (r *lastDataErrReader) Read(p []byte) (int, error) {
	n := len(r.b)
	if r.n > 0 && n > r.n {
		n = r.n
	}
	if n > len(p) {
		n = len(p)
	}
	copy(p, r.b[:n])
	r.b = r.b[n:]
	if len(r.b) == 0 {
		return n, r.err
	}
	return n, nil
}

// failingSource yields data[:off] and then fails.
func (s *faultSpec) failingSource(data []byte, off int) io.Reader {
	err := errors.New(s.errText)
	if off > len(data) {
		off = len(data)
	}
	if s.where == "with-last-data" && off > 0 {
		return &lastDataErrReader{b: data[:off], n: s.chunk, err: err}
	}
	return io.MultiReader(source(data[:off], s.chunk), iotest.ErrReader(err))
}

// offset of the fault in a stream whose segments are segLen bytes long and
// start at start.
func (s *faultSpec) offset(start, segLen, total int) int {
	switch s.where {
	case "before-any-data":
		return 0
	case "inside-header":
		return start * s.frac / 1000
	case "segment-boundary":
		return start + s.seg*segLen
	case "first-byte":
		return 1
	case "with-last-data":
		return total
	}
	return start + s.seg*segLen + 1 + (segLen-2)*s.frac/1000 // strictly inside a segment
}

func faultClass(e string) string {
	if strings.Contains(e, "c08: source failed on purpose") {
		return "source-error-reported"
	}
	return encErrClass(e)
}

func (s *faultSpec) run(c *gctx) outcome {
	b := s.base
	if !s.decrypt {
		var src io.Reader = source(b.msg, s.chunk)
		if s.mode == "srcerr" {
			src = s.failingSource(b.msg, s.offset(0, enc.SegmentSize, len(b.msg)))
		}
		er, err, pan := callEncrypt(src, b.encOpts(c))
		if pan != "" || err != nil {
			return outcome{res: fmt.Sprintf("Encrypt error=%q panic=%q", errText(err), pan), class: "encrypt-error", bad: "Encrypt failed before streaming"}
		}
		c.pause(s.d)
		if s.mode == "abandon" {
			want := s.offset(0, enc.SegmentSize+enc.SegmentOverhead, 0) + 200
			n, rerr := io.ReadFull(er, make([]byte, want))
			closeIfCloser(er)
			return outcome{res: fmt.Sprintf("encrypt stream: read %d of %d wanted bytes, error=%q, then closed", n, want, errText(rerr)), class: "closed-early", ok: true}
		}
		ct, rerr := io.ReadAll(er)
		closeIfCloser(er)
		e := errText(rerr)
		return outcome{res: fmt.Sprintf("encrypt stream: %d bytes then error=%q", len(ct), e), class: faultClass(e), ok: e != ""}
	}

	// Decrypt side: the document comes from the reference run
	if !c.conc {
		er, err, pan := callEncrypt(bytes.NewReader(b.msg), b.encOpts(c))
		if pan != "" || err != nil {
			return outcome{res: fmt.Sprintf("Encrypt error=%q panic=%q", errText(err), pan), class: "encrypt-error", bad: "Encrypt failed"}
		}
		doc, err := io.ReadAll(er)
		closeIfCloser(er)
		if err != nil {
			return outcome{res: "Encrypt stream error: " + err.Error(), class: "encrypt-stream-error", bad: "Encrypt stream failed"}
		}
		s.doc = doc
	}
	ends, ok := headerLines(s.doc)
	if !ok {
		return outcome{res: "document has no header", class: "encrypt-malformed-output", bad: "Encrypt output malformed"}
	}
	var src io.Reader = source(s.doc, s.chunk)
	if s.mode == "srcerr" {
		src = s.failingSource(s.doc, s.offset(ends[2], enc.SegmentSize+enc.SegmentOverhead, len(s.doc)))
	}
	dr, err, pan := callDecrypt(src, b.decOpts(c))
	if pan != "" {
		return outcome{res: "Decrypt panic: " + pan, class: "panic"}
	}
	if err != nil {
		return outcome{res: fmt.Sprintf("decrypt-error=%q", err.Error()), class: faultClass(err.Error()), ok: s.mode == "srcerr"}
	}
	c.pause(s.d)
	if s.mode == "abandon" {
		want := s.offset(0, enc.SegmentSize, 0)
		buf := make([]byte, want)
		n, rerr := io.ReadFull(dr, buf)
		closeIfCloser(dr)
		sum := sha256.Sum256(buf[:n])
		good := bytes.Equal(buf[:n], b.msg[:min2(n, len(b.msg))])
		cls := "closed-early"
		if !good {
			cls = "wrong-plaintext"
		}
		return outcome{res: fmt.Sprintf("decrypt stream: read %d of %d wanted bytes sha256=%s matches-message=%v, error=%q, then closed", n, want, hex.EncodeToString(sum[:8]), good, errText(rerr)), class: cls, ok: good}
	}
	pt, rerr := io.ReadAll(dr)
	closeIfCloser(dr)
	e := errText(rerr)
	sum := sha256.Sum256(pt)
	cls := faultClass(e)
	if !bytes.Equal(pt, b.msg[:min2(len(pt), len(b.msg))]) {
		cls = "wrong-plaintext"
	}
	return outcome{res: fmt.Sprintf("decrypt-error=\"\" stream-error=%q plaintext-len=%d plaintext-sha256=%s", e, len(pt), hex.EncodeToString(sum[:])), class: cls, ok: e != ""}
}
