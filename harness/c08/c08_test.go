// Package c08 monitors property C08 (independent operations do not interfere
// through package-level shared state: the enc/v1 buffer pool, the logger
// registry, the default cron parser, pooled byte slices).
//
// A case is a round: G goroutines (16-64), each owning a short list of
// pipelines (enc/v1 Encrypt->Decrypt round trips and deliberately invalid
// documents, symmetric / asymmetric crypto calls, key (de)serialisation, cron
// parses, logger look-ups and output, byteslicepool Get/Resize/Put cycles).
//
//  1. reference phase: every pipeline of the round is run ALONE, one after the
//     other, and its canonical result is recorded;
//  2. concurrent phase: all goroutines start together and loop over their
//     pipelines; every result must equal the pipeline's own reference result
//     (oracle a). The byteslicepool ownership monitor (oracle c) stamps every
//     slice obtained from Get and checks the stamp until the owner Puts it.
//  3. the race detector (oracle b) watches the -race build; its reports are
//     read and attributed by the driver.
//
// The package is built twice (verif.json extra_builds): "main" with -race and
// "plain" without, where sync.Pool recycles every buffer.
package c08

import (
	"fmt"
	"os"
	"runtime"
	"sync"
	"sync/atomic"
	"testing"
	"time"

	"github.com/dapr/kit/logger"

	"verif/harness/internal/mon"
)

var (
	rec   *mon.Rec
	build = func() string {
		if b := os.Getenv("VERIF_BUILD"); b != "" {
			return b
		}
		return "main"
	}()
)

// outcome is the canonical result of one run of a pipeline.
type outcome struct {
	res   string // compared for equality with the reference run
	class string // coarse class of this outcome; names the signature when it differs from the reference
	ok    bool   // the run did the real work (round trip succeeded, schedule parsed, ...): coverage only
	bad   string // non-empty: the run is unusable as a reference (reason)
}

// gctx is what one goroutine of a round owns. Nothing in it is touched by any
// other goroutine while the concurrent phase runs.
type gctx struct {
	round, g int
	conc     bool     // false: reference run (alone); true: concurrent phase
	loop     int      // iteration of the concurrent phase
	rng      *mon.RNG // scheduling perturbation only; never influences a result
	keys     *gkeys
	pools    *roundPools
	// counts are this goroutine's observation counters. They are merged into
	// the recorder after the round: the pipelines themselves perform no
	// operation on shared monitor state (a lock or an atomic would add
	// happens-before edges that could hide a kit race from the detector),
	// except the byteslicepool ownership monitor, which needs one.
	counts map[string]int
}

func (c *gctx) count(name string, n int) { c.counts[name] += n }

// pause perturbs the schedule: d.kind 0 nothing, 1 Gosched d.n times, 2 sleep
// d.n microseconds (the reference run only yields once).
type delay struct{ kind, n int }

func (d delay) String() string {
	switch d.kind {
	case 1:
		return fmt.Sprintf("gosched*%d", d.n)
	case 2:
		return fmt.Sprintf("sleep%dus", d.n)
	}
	return "none"
}

func (c *gctx) pause(d delay) {
	if !c.conc {
		if d.kind != 0 {
			runtime.Gosched()
		}
		return
	}
	switch d.kind {
	case 1:
		for i := 0; i < d.n; i++ {
			runtime.Gosched()
		}
		c.count("sched.gosched_pauses", 1)
	case 2:
		time.Sleep(time.Duration(d.n) * time.Microsecond)
		c.count("sched.sleep_pauses", 1)
	}
}

func pickDelay(rng *mon.RNG) delay {
	switch rng.Intn(5) {
	case 0:
		return delay{}
	case 1, 2:
		return delay{1, rng.Range(1, 20)}
	default:
		return delay{2, rng.Range(20, 300)}
	}
}

// pipeline is one independent operation sequence with a deterministic result.
type pipeline interface {
	kind() string
	desc() string // reconstructs the pipeline; distinct-case key
	run(c *gctx) outcome
	// sig is the violation signature for "concurrent result differs from the
	// reference result".
	sig(ref, got outcome) string
}

func safeRun(p pipeline, c *gctx) (o outcome) {
	defer func() {
		if r := recover(); r != nil {
			o = outcome{res: fmt.Sprintf("panic: %v", r), class: "panic"}
		}
	}()
	return p.run(c)
}

// ------------------------------------------------------------------ a round

type roundPlan struct {
	idx, procs, G, K, loops int
}

func planRound(idx int) roundPlan {
	rng := mon.NewRNG("round", idx)
	return roundPlan{idx: idx, procs: []int{2, 4, 16}[idx%3], G: rng.Range(16, 64), K: 3, loops: 2}
}

func (r roundPlan) String() string {
	return fmt.Sprintf("round=%d GOMAXPROCS=%d goroutines=%d pipelines/goroutine=%d loops=%d build=%s", r.idx, r.procs, r.G, r.K, r.loops, build)
}

func buildPipeline(rng *mon.RNG, rp roundPlan, g, k int) pipeline {
	// the first pipeline of the first six goroutines is always a stream that
	// ends abnormally (failing source reader / consumer that walks away): it
	// runs in the alone phase, at the start of the concurrent phase and again at
	// the start of its second loop, i.e. before and during the healthy streams
	if k == 0 && g < 4 {
		return newFaultSpec(rng, "srcerr")
	}
	if k == 0 && g < 6 {
		return newFaultSpec(rng, "abandon")
	}
	// ... and of the next eight a first-use pipeline (fresh time zone names, parser
	// option sets and specs, met by several goroutines at once right after the
	// start barrier)
	if k == 0 && g < 14 {
		return newTZSpec(rng, rp)
	}
	w := rng.Intn(100)
	switch {
	case w < 28:
		return newEncSpec(rng, false)
	case w < 40:
		return newEncSpec(rng, true)
	case w < 53:
		return newSymSpec(rng)
	case w < 62:
		return newAsymSpec(rng, g)
	case w < 67:
		return newKeysSpec(rng, g)
	case w < 71:
		return newTZSpec(rng, rp)
	case w < 75:
		return newCronSpec(rng)
	case w < 83:
		return newLogSpec(rng, rp.idx, g, k)
	case w < 90:
		return newPoolSpec(rng, g)
	case w < 97:
		return newFaultSpec(rng, "srcerr")
	default:
		return newFaultSpec(rng, "abandon")
	}
}

type evalRec struct {
	g, k, loop int
	ref, got   outcome
	active     int32
}

func runRound(rp roundPlan) {
	old := runtime.GOMAXPROCS(rp.procs)
	defer runtime.GOMAXPROCS(old)
	rec.Count(fmt.Sprintf("gomaxprocs.%d.rounds", rp.procs), 1)
	rec.Count(build+".rounds", 1)

	pools := newRoundPools(rp.idx)
	ctxs := make([]*gctx, rp.G)
	pipes := make([][]pipeline, rp.G)
	for g := 0; g < rp.G; g++ {
		rng := mon.NewRNG(fmt.Sprintf("g%d", g), rp.idx)
		ctxs[g] = &gctx{round: rp.idx, g: g, rng: rng, keys: newGKeys(g), pools: pools, counts: map[string]int{}}
		for k := 0; k < rp.K; k++ {
			pipes[g] = append(pipes[g], buildPipeline(rng, rp, g, k))
		}
	}

	// ---- byteslicepool recycling, one goroutine, nothing else running
	sequentialPoolLoop(rp)

	// ---- reference phase: every pipeline alone. Pipelines whose reference does not
	// have to exist beforehand get it AFTER the concurrent phase instead (always for
	// the first-use pipelines, by a seeded coin for the other stateless ones): their
	// inputs - key bytes, specs, zone names, sizes - are then new to every
	// package-level table or cache when the concurrent phase meets them.
	late := make([][]int, rp.G) // 0: reference beforehand, 1: afterwards, 2: afterwards, one per loop
	refs := make([][]outcome, rp.G)
	for g := 0; g < rp.G; g++ {
		refs[g] = make([]outcome, rp.K)
		late[g] = make([]int, rp.K)
		for k, p := range pipes[g] {
			if lr, ok := p.(interface{ lateRefMode() int }); ok {
				switch m := lr.lateRefMode(); {
				case m == 2, m == 1 && ctxs[g].rng.Bool():
					late[g][k] = m
					continue
				}
			}
			rec.Progress()
			refs[g][k] = safeRun(p, ctxs[g])
		}
	}

	// ---- concurrent phase
	var (
		wg      sync.WaitGroup
		start   = make(chan struct{})
		active  atomic.Int32
		results = make([][]evalRec, rp.G)
	)
	for g := 0; g < rp.G; g++ {
		wg.Add(1)
		ctxs[g].conc = true
		go func(g int) {
			defer wg.Done()
			c := ctxs[g]
			active.Add(1)
			<-start
			defer active.Add(-1)
			for loop := 0; loop < rp.loops; loop++ {
				c.loop = loop
				// every goroutine of the round looks the same logger name up: the first
				// creation is contended by all of them (judged in checkSharedLoggers)
				all := fmt.Sprintf("c08/shared/r%d/loop%d/all", rp.idx, loop)
				noteShared(all, g, logger.NewLogger(all))
				c.count("log.shared_name_lookups", 1)
				for k, p := range pipes[g] {
					rec.Progress()
					a := active.Load()
					got := safeRun(p, c)
					results[g] = append(results[g], evalRec{g: g, k: k, loop: loop, ref: refs[g][k], got: got, active: a})
				}
			}
		}(g)
	}
	// release everybody once all goroutines are parked on the barrier
	for active.Load() < int32(rp.G) {
		runtime.Gosched()
	}
	close(start)
	wg.Wait()

	// ---- late reference runs: alone again, nothing else running
	for g := 0; g < rp.G; g++ {
		c := ctxs[g]
		c.conc = false
		lateRefs := map[[2]int]outcome{}
		for k, p := range pipes[g] {
			switch late[g][k] {
			case 1:
				c.loop = 0
				rec.Progress()
				refs[g][k] = safeRun(p, c)
				rec.Count("pipelines.reference_run_after_the_concurrent_phase", 1)
			case 2:
				for loop := 0; loop < rp.loops; loop++ {
					c.loop = loop
					rec.Progress()
					lateRefs[[2]int{k, loop}] = safeRun(p, c)
				}
				rec.Count("pipelines.reference_run_after_the_concurrent_phase", 1)
			}
		}
		for i := range results[g] {
			e := &results[g][i]
			switch late[g][e.k] {
			case 1:
				e.ref = refs[g][e.k]
			case 2:
				e.ref = lateRefs[[2]int{e.k, e.loop}]
			}
		}
	}

	// ---- judge
	for _, c := range ctxs {
		for k, v := range c.counts {
			rec.Count(k, v)
		}
	}
	pools.finish(rp)
	checkSharedLoggers(rp)
	loggerRegistryPhase(rp)
	cronLoggerPhase(rp)
	cronBackendPhase(rp)
	parserCrossPhase(rp)
	cronNamesPhase(rp)
	loggerOutputKinds(rp.idx, fmt.Sprintf("r%d", rp.idx), rp.idx%2 == 1)
	for g := 0; g < rp.G; g++ {
		per := map[int][2]int{} // k -> (conclusive, with >= 16 goroutines active)
		for _, e := range results[g] {
			p := pipes[g][e.k]
			if e.ref.bad != "" {
				rec.Inconclusive(rp.idx, "reference run of the pipeline is unusable: "+e.ref.bad, map[string]any{"pipeline": p.desc(), "reference": e.ref.res})
				continue
			}
			v := per[e.k]
			v[0]++
			if e.active >= 16 {
				v[1]++
			}
			per[e.k] = v
			rec.Count(build+".pipelines", 1)
			rec.Count("pipelines."+p.kind(), 1)
			if e.got.res == e.ref.res {
				rec.Count(p.kind()+".same_as_alone", 1)
				if sc, ok := p.(interface{ sameCounters(outcome) []string }); ok {
					for _, n := range sc.sameCounters(e.got) {
						rec.Count(n, 1)
					}
				}
				if e.got.ok {
					rec.Count(p.kind()+".same_as_alone.real_work", 1)
				} else {
					rec.Count(p.kind()+".same_as_alone.error_class="+e.got.class, 1)
				}
				continue
			}
			rec.Violation(rp.idx, p.sig(e.ref, e.got),
				fmt.Sprintf("%s pipeline gave a different result when run concurrently with %d other goroutines than when run alone: alone %q, concurrent %q (%s)",
					p.kind(), e.active-1, clip(e.ref.res, 200), clip(e.got.res, 200), p.desc()),
				map[string]any{"round": rp.String(), "goroutine": g, "pipeline_index": e.k, "loop": e.loop, "pipeline": p.desc(),
					"alone": e.ref.res, "concurrent": e.got.res, "active_goroutines": e.active, "build": build})
		}
		for k, v := range per {
			if v[0] > 0 {
				rec.CaseN(rp.idx, pipes[g][k].desc(), v[1] > 0, int64(v[0]))
				if v[1] > 0 {
					rec.Count("pipelines.with_15_or_more_other_goroutines_active", v[1])
				}
			}
		}
		if rec.WantSample() && g == 0 && len(results[g]) > 0 {
			e := results[g][0]
			rec.Sample(map[string]any{"round": rp.String(), "pipeline": pipes[g][e.k].desc(), "alone": clip(e.ref.res, 160), "concurrent": clip(e.got.res, 160), "active_goroutines": e.active})
		}
	}
	// last, because a deadlock found here ends the child: everything above is recorded by then
	loggerSlowSinkPhase(rp)
}

func clip(s string, n int) string {
	if len(s) > n {
		return s[:n] + "..."
	}
	return s
}

// ----------------------------------------------------------------------- main

var prologueDone bool

func TestCheck(t *testing.T) {
	rec = mon.Open("C08")
	defer rec.Close()
	nRounds := mon.Pick(12, 624)
	plannedRounds = nRounds
	rec.Note("rule", "A case is a round (GOMAXPROCS from {2,4,16} by round index, 16-64 goroutines, 3 pipelines per goroutine, 2 loops); an evaluation is one concurrent run of one pipeline whose result was compared with the result of the same pipeline run alone - before the concurrent phase, or (first-use pipelines always, the other stateless kinds by a seeded coin) after it, so that their inputs are new to every package-level table when the concurrent phase meets them. "+
		"tz = first-use pipelines of the cron clause: every (round, loop) has a window of 10 specs with a TZ=/CRON_TZ= prefix whose zone name no goroutine of the process has used before (fixed list of 155 IANA names incl. Etc/GMT+-N walked with a stride, then the same files as posix/<name>, posix//<name> ...; every sixth a non-existent name), parsed by ParseStandard, a Parser with a seeded option set, cron.New().AddFunc or cron.New(WithSeconds()).AddFunc; the first pipeline of goroutines 6-13 parses 6 entries of the window right after the start barrier, so each entry meets several goroutines at once; compared: error text, or the schedule incl. the resolved Location name and the first 3 Next answers. "+
		"Pipelines (seeded): enc = fresh enc/v1 Encrypt->Decrypt per run with own message (lengths 0-1200 around the 512-byte header read step, k*64KiB-17..+17 for k=1..3, random <= 200 KiB), own key-encryption key, the 7 key-wrap algorithm names, 3 cipher options, key names of 1-300 bytes, chunked/whole/streamed readers, slow consumers, wrap/unwrap callbacks that Gosched or sleep, and 14 deliberately invalid document shapes (wrong key, failing unwrap, replaced MAC/manifest/scheme line, cuts inside the header, flipped/truncated segments) compared by decrypt error text, stream error text and the plaintext delivered; "+
		"srcerr = Encrypt or Decrypt (over the reference run's document) whose SOURCE reader returns a non-EOF error before any data / in the middle of a segment / exactly at a segment boundary / together with the last data / inside the header, compared by error text and by what was delivered before it; abandon = the consumer reads a prefix of the Encrypt or Decrypt output and closes the reader; the first pipeline of goroutines 0-3 of every round is a srcerr, of goroutines 4-5 an abandon, so they run alone beforehand, at the start of the concurrent phase and again at the start of the second loop; "+
		"dec = the document produced by the reference run decrypted again concurrently (bit-identical input); sym = EncryptSymmetric/DecryptSymmetric or crypto.Encrypt/Decrypt over all 19 symmetric names with own key/nonce/AAD, with tampered tags; asym = the 5 RSA encryption names and 10 signature names with per-goroutine jwk keys; keys = SerializeKey/ParseKey/pem round trips; cron = ParseStandard and 6 custom parsers over valid and invalid specs, descriptors and TZ prefixes; log = logger.NewLogger under fresh distinct names (JSON and text output into an own buffer, lines compared without time) and under names shared by several goroutines (same instance), cron.PrintfLogger/VerbosePrintfLogger; pool = byteslicepool Get/Resize/Put cycles on 3 shared and per-goroutine pools under the ownership monitor; every slice is Put filled with its owner's non-zero stamp, and a Get that returns a backing array the monitor saw Put before (same element-0 address; the monitor pins every array it tracks) must show zeros in the first L bytes (L = length at the last Put) both through b[:cap(b)] and through Resize(b, L) - also run as a 48-step one-goroutine Get/fill/Put loop at the start of every round. "+
		"After the pipelines of a round a registry phase runs: one goroutine calls logger.ApplyOptionsToLoggers 5 times (seeded level/JSON/app id) while 6 goroutines look up existing names and fresh names (own and common ones) with logger.NewLogger, 5 look-ups per Apply, started when that Apply starts; judged: valid options accepted, loggers registered before an Apply started have its level when it returned, the applier's own buffer-backed loggers write JSON/text and the app id as applied, equal names give one instance; defaults are re-applied at the end. "+
		"Then a cron-logger phase: 4-8 independent cron.PrintfLogger/VerbosePrintfLogger instances over sinks of their own are handed the same 3-5 caller-owned keysAndValues slices (time.Time in several zones, strings, ints, durations, errors; with and without spare capacity) in the spread form of Info and Error - solo on private copies (reference lines), sequentially (A logs, slice element-wise identical to its snapshot, B's lines as solo) and from goroutines all at once, 3 repetitions (lines as solo, slices intact afterwards, no race report: the harness only reads them). "+
		"Then cron loggers over Printf back-ends that keep what they are given: 6-9 independent PrintfLogger/VerbosePrintfLogger instances each log 3-6 Info+Error messages of their own into an immediate, a retaining (keeps format and the args slice as given, formats at the end) or an asynchronous back-end (queues them to a goroutine that formats later) - alone (reference lines), sequentially (A logs into a keeping back-end, B logs, A's records are formatted: as alone) and all at once from goroutines (every back-end's lines as alone; no race report). "+
		"Then a separate-parsers phase: ParseStandard and five Parsers (seconds-first, SecondOptional, Minute|Hour, Descriptor-only, DowOptional) parse the same 8 seeded specs (2/4/5/6 numeric fields valid in every position, TZ=/CRON_TZ= prefixes, descriptors and @every); every text has a run pattern of blanks and tabs between its fields that no parse of the process has seen before, so the expectation for (parser, spec) is the parser's solo result on an equivalent fresh text (accepted/refused, bit sets, Location, Next at 3 instants); judged: B parsing a text right after A parsed the same text (all ordered pairs over the rounds), a parse after the caller changed Location/Minute/Hour of the schedule it got back, schedules retained from descriptor parses under 6 TZ prefixes re-queried after sequential and after 24-goroutine concurrent parses. "+
		"Then a names phase: month and day-of-week names are case-insensitive; the 57 spellings with a lower-case first letter (jAn, jaN, jAN ...) are reserved for it and rationed over the rounds of a child (up to 6 per round), each put into a 5-field spec as a single name, a range, a list or a range with a step next to other spellings; 12 goroutines (ParseStandard, four Parsers, cron.New().AddFunc) are released from a spinning barrier before every spec and parse it at the same moment; expectation = the same parser's result for the numeric form of the spec, parsed beforehand. The cron, tz and separate-parsers specs draw month/day names in random spellings with an upper-case first letter. "+
		"Then separate loggers over different kinds of output: fresh loggers in text and in JSON mode write to a bytes.Buffer, a regular temp file, the write end of an os.Pipe and the slave side of a pseudo-terminal (read back from the master; skipped and counted if no pty can be opened), one after the other (terminal logger first in odd rounds, last in even rounds) and all at once; structural oracle: no ESC and the time=/level=/msg=/scope= layout (or the logger's JSON record) on every non-terminal output, logrus' terminal layout on the terminal in text mode. Children with an odd batch index run the terminal-first pass as a prologue, so that the first text line of the process goes to a terminal there and to a buffer in the other children. "+
		"Then slow sinks: logger y logs into a sink that reports 'entered' and blocks on a gate; with y inside Write an ApplyOptionsToLoggers (no app id) is started and, once it is parked, 4 goroutines look 12 unrelated fresh names up with NewLogger - they must return while the gate is still closed (a 15 s watchdog only triggers a goroutine dump; the verdict is goroutines parked in NewLogger on the registry lock); then the same with a sink that calls NewLogger from inside Write after the gate opens: the logging call and the Apply must both return. "+
		"distinct = distinct pipeline descriptions; non-trivial = at least one of its concurrent runs started while >= 16 goroutines of the round were active. Both builds (-race 'main', 'plain') run the same plan; counters prefixed main./plain. split them.")
	rec.Note("require", []string{"main.pipelines", "plain.pipelines", "gomaxprocs.2.rounds", "gomaxprocs.4.rounds", "gomaxprocs.16.rounds",
		"enc.same_as_alone.real_work", "dec.same_as_alone.real_work", "sym.same_as_alone.real_work", "asym.same_as_alone.real_work", "keys.same_as_alone.real_work",
		"cron.same_as_alone.real_work", "log.same_as_alone.real_work", "pool.same_as_alone.real_work", "srcerr.same_as_alone.real_work", "abandon.same_as_alone.real_work",
		"enc.source_error_pipelines", "enc.abandoned_stream_pipelines", "enc.source_error.encrypt.mid-segment", "enc.source_error.decrypt.mid-segment", "enc.source_error.encrypt.segment-boundary", "enc.source_error.decrypt.segment-boundary",
		"enc.source_error.encrypt.before-any-data", "enc.source_error.encrypt.with-last-data", "enc.source_error.decrypt.with-last-data", "enc.slow_consumer_streams",
		"log.registry.applies", "log.registry.lookups_fresh_names", "log.registry.lookups_existing_names", "main.log.registry.fresh_inserts_during_apply", "plain.log.registry.fresh_inserts_during_apply",
		"log.registry.loggers_level_checked", "log.registry.own_logger_lines_checked", "cron.new_addfunc_calls", "tz.same_as_alone.real_work", "tz.specs_with_fresh_zone_names_parsed", "tz.invalid_zone_names", "tz.via.0", "tz.via.1", "tz.via.2", "tz.via.3",
		"pipelines.reference_run_after_the_concurrent_phase", "pool.fresh_size_cycles",
		"main.cronlog.shared_args.sequential_checks", "plain.cronlog.shared_args.sequential_checks", "main.cronlog.shared_args.concurrent_outputs_compared", "plain.cronlog.shared_args.concurrent_outputs_compared", "cronlog.shared_args.intact_checks", "main.cronlog.backends.sequential_checks", "plain.cronlog.backends.sequential_checks", "main.cronlog.backends.concurrent_checks", "plain.cronlog.backends.concurrent_checks",
		"cronlog.backends.concurrent_checks.retaining", "cronlog.backends.concurrent_checks.asynchronous", "cronlog.backends.concurrent_checks.immediate",
		"main.cronnames.fresh_spellings_first_met_by_12_goroutines_at_once", "plain.cronnames.fresh_spellings_first_met_by_12_goroutines_at_once", "cronnames.named_vs_numeric_checks", "cronparsers.specs_with_names",
		"logkinds.lines_checked.buffer.text", "logkinds.lines_checked.file.text", "logkinds.lines_checked.pipe.text", "logkinds.lines_checked.buffer.json", "logkinds.lines_checked.file.json", "logkinds.lines_checked.pipe.json",
		"logkinds.passes.pty_first=true", "logkinds.passes.pty_first=false", "logkinds.prologue_terminal_first_in_process",
		"main.logslow.unrelated_lookups_completed_while_another_loggers_sink_was_blocked", "plain.logslow.unrelated_lookups_completed_while_another_loggers_sink_was_blocked",
		"main.logslow.reentrant_sink_scenarios_completed", "plain.logslow.reentrant_sink_scenarios_completed",
		"cronparsers.solo_accepted", "cronparsers.solo_refused", "main.cronparsers.cross_order_checks", "plain.cronparsers.cross_order_checks", "main.cronparsers.caller_mutation_checks", "plain.cronparsers.caller_mutation_checks",
		"main.cronparsers.sequential_descriptor_requeries", "plain.cronparsers.sequential_descriptor_requeries", "main.cronparsers.concurrent_descriptor_requeries", "plain.cronparsers.concurrent_descriptor_requeries",
		"enc.invalid_documents_same_error", "enc.unwrap_callback_pauses", "enc.streamed_decrypts", "enc.len.around_512_header_step", "enc.len.around_64KiB_boundary",
		"pool.gets", "pool.gets_recycled", "pool.stamp_checks", "pool.recycled_gets_checked_for_previous_owner_bytes", "pool.recycled_gets_checked.concurrent_phase",
		"pool.sequential.recycled_gets_checked_for_previous_owner_bytes", "log.shared_name_lookups", "log.shared_names_with_several_goroutines",
		"pipelines.with_15_or_more_other_goroutines_active"})
	rec.Note("plan", map[string]any{"rounds": nRounds, "build": "main(-race)+plain"})
	initProcessKeys()
	for idx := 0; idx < nRounds; idx++ {
		if !mon.Mine(idx) {
			continue
		}
		rp := planRound(idx)
		rec.Begin(idx, rp.String())
		if !prologueDone {
			// children with an odd batch index: the first text-mode line of the process is
			// written to a terminal (in the others a buffer-backed logger comes first)
			prologueDone = true
			if bi, _ := mon.Batch(); bi%2 == 1 {
				loggerOutputKinds(idx, fmt.Sprintf("prologue-of-child-%d-at-round-%d", bi, idx), true)
				rec.Count("logkinds.prologue_terminal_first_in_process", 1)
			}
		}
		runRound(rp)
	}
}
