package c08

import (
	"bytes"
	"encoding/json"
	"fmt"
	"io"
	"os"
	"path/filepath"
	"strings"
	"sync"
	"syscall"
	"time"
	"unsafe"

	"github.com/dapr/kit/logger"

	"verif/harness/internal/mon"
)

// "Separate loggers, different kinds of output": what a logger writes depends
// only on ITS OWN configuration and on the kind of ITS OWN output, not on what
// other loggers of the process logged to before it.
//
// Outputs: a bytes.Buffer, a regular temp file, the write end of an os.Pipe
// (drained by a goroutine) and the slave side of a pseudo-terminal (read back
// from the master side). logrus' text formatter uses a coloured layout for a
// terminal ("\x1b[36mINFO\x1b[0m[0000] msg  key=value") and key=value lines
// (time="..." level=info msg=...) for everything else, and decides that on the
// first line a formatter formats; on the pinned tree every logger has a
// formatter of its own.
//
// The oracle is structural, so it needs no reference run: a line written to a
// non-terminal output never contains ESC and has the key=value (text mode) or
// JSON layout; a text-mode line written to the terminal has the terminal
// layout; JSON mode is JSON everywhere. Both orders are run: terminal logger
// first, and terminal logger after the others. Since a process-wide decision
// would be taken on the first text line of the PROCESS, the children with an
// odd batch index run the terminal-first order as a prologue before their
// first round (in the other children the first text line comes from a buffer).
type outputKind struct {
	kind   string
	w      io.Writer
	finish func() string // closes the output and returns everything written to it
}

func openPTY() (*outputKind, error) {
	m, err := os.OpenFile("/dev/ptmx", os.O_RDWR|syscall.O_NOCTTY, 0)
	if err != nil {
		return nil, err
	}
	var unlock int32
	if _, _, e := syscall.Syscall(syscall.SYS_IOCTL, m.Fd(), 0x40045431 /* TIOCSPTLCK */, uintptr(unsafe.Pointer(&unlock))); e != 0 {
		m.Close()
		return nil, fmt.Errorf("unlockpt: %v", e)
	}
	var n uint32
	if _, _, e := syscall.Syscall(syscall.SYS_IOCTL, m.Fd(), 0x80045430 /* TIOCGPTN */, uintptr(unsafe.Pointer(&n))); e != 0 {
		m.Close()
		return nil, fmt.Errorf("ptsname: %v", e)
	}
	s, err := os.OpenFile(fmt.Sprintf("/dev/pts/%d", n), os.O_RDWR|syscall.O_NOCTTY, 0)
	if err != nil {
		m.Close()
		return nil, err
	}
	var t syscall.Termios
	if _, _, e := syscall.Syscall(syscall.SYS_IOCTL, s.Fd(), uintptr(syscall.TCGETS), uintptr(unsafe.Pointer(&t))); e != 0 {
		s.Close()
		m.Close()
		return nil, fmt.Errorf("the pty slave is not a terminal: %v", e)
	}
	var (
		buf  bytes.Buffer
		done = make(chan struct{})
	)
	go func() {
		defer close(done)
		b := make([]byte, 4096)
		for {
			k, err := m.Read(b) // EIO once the slave is closed
			buf.Write(b[:k])
			if err != nil {
				return
			}
		}
	}()
	return &outputKind{kind: "pty", w: s, finish: func() string {
		s.Close()
		select {
		case <-done:
		case <-time.After(2 * time.Second):
			m.SetReadDeadline(time.Now())
			<-done
		}
		m.Close()
		return strings.ReplaceAll(buf.String(), "\r", "")
	}}, nil
}

func openOutput(kind, tag string) (*outputKind, error) {
	switch kind {
	case "buffer":
		b := &bytes.Buffer{}
		return &outputKind{kind: kind, w: b, finish: b.String}, nil
	case "file":
		dir := os.Getenv("VERIF_SCRATCH")
		if dir == "" {
			dir = filepath.Join(os.TempDir(), fmt.Sprintf("verif-c08-%d", os.Getpid()))
		}
		if err := os.MkdirAll(dir, 0o755); err != nil {
			return nil, err
		}
		f, err := os.CreateTemp(dir, "c08-log-*.txt")
		if err != nil {
			return nil, err
		}
		return &outputKind{kind: kind, w: f, finish: func() string {
			f.Close()
			b, _ := os.ReadFile(f.Name())
			os.Remove(f.Name())
			return string(b)
		}}, nil
	case "pipe":
		r, w, err := os.Pipe()
		if err != nil {
			return nil, err
		}
		var buf bytes.Buffer
		done := make(chan struct{})
		go func() { defer close(done); io.Copy(&buf, r) }()
		return &outputKind{kind: kind, w: w, finish: func() string {
			w.Close()
			<-done
			r.Close()
			return buf.String()
		}}, nil
	}
	return openPTY()
}

type kindLogger struct {
	name  string
	json  bool
	out   *outputKind
	l     logger.Logger
	lines int
}

// judgeKindLines checks the structure of what one logger wrote.
func judgeKindLines(idx int, where string, kl *kindLogger, text string) {
	lines := strings.Split(strings.TrimRight(text, "\n"), "\n")
	if text == "" {
		lines = nil
	}
	mode := "text"
	if kl.json {
		mode = "json"
	}
	viol := func(sig, why string) {
		rec.Violation(idx, sig, fmt.Sprintf("%s: logger %q (%s mode, output: %s) %s; it wrote %q", where, kl.name, mode, kl.out.kind, why, clip(text, 300)),
			map[string]any{"where": where, "logger": kl.name, "mode": mode, "output": kl.out.kind, "written": clip(text, 1000), "build": build})
	}
	if len(lines) != kl.lines {
		viol("logger/output-lines-missing/"+kl.out.kind, fmt.Sprintf("logged %d lines but %d arrived", kl.lines, len(lines)))
		return
	}
	for i, ln := range lines {
		rec.Count("logkinds.lines_checked."+kl.out.kind+"."+mode, 1)
		esc := strings.Contains(ln, "\x1b")
		switch {
		case kl.json:
			var m map[string]any
			if esc || json.Unmarshal([]byte(ln), &m) != nil || m["scope"] != kl.name || m["msg"] == nil {
				viol("logger/json-line-malformed/"+kl.out.kind, fmt.Sprintf("line %d is not the JSON record of this logger", i))
				return
			}
		case kl.out.kind == "pty":
			if !esc || !strings.Contains(ln, "INFO") || strings.Contains(ln, "level=info") {
				viol("logger/terminal-output-lost-its-terminal-layout", fmt.Sprintf("line %d written to a terminal does not have logrus' terminal layout (what other loggers write to decided it)", i))
				return
			}
		default:
			if esc || !strings.Contains(ln, `time="`) || !strings.Contains(ln, "level=info") || !strings.Contains(ln, "msg=") || !(strings.Contains(ln, "scope="+kl.name) || strings.Contains(ln, `scope="`+kl.name+`"`)) {
				viol("logger/non-terminal-output-got-terminal-layout/"+kl.out.kind, fmt.Sprintf("line %d written to a %s does not have the key=value layout (ESC present: %v): another logger's output kind decided it", i, kl.out.kind, esc))
				return
			}
		}
	}
}

// loggerOutputKinds runs one pass: loggers of both modes over all output
// kinds; sequentially in the given order, then all at once.
func loggerOutputKinds(idx int, tag string, ptyFirst bool) {
	rng := mon.NewRNG("logkinds-"+tag, idx)
	order := []string{"buffer", "file", "pipe", "pty"}
	if ptyFirst {
		order = []string{"pty", "file", "buffer", "pipe"}
	}
	rec.Count(fmt.Sprintf("logkinds.passes.pty_first=%v", ptyFirst), 1)
	mk := func(phase string) []*kindLogger {
		var out []*kindLogger
		for _, kind := range order {
			for _, js := range []bool{false, true} {
				o, err := openOutput(kind, tag)
				if err != nil {
					if kind == "pty" {
						rec.Count("logkinds.pty_unavailable", 1)
						rec.Observe("no pseudo-terminal could be opened in the harness child: " + err.Error())
					} else {
						rec.Inconclusive(idx, "cannot open a "+kind+" output: "+err.Error(), nil)
					}
					continue
				}
				kl := &kindLogger{name: fmt.Sprintf("c08/kinds/%s/%s/%s/json=%v", tag, phase, kind, js), json: js, out: o}
				kl.l = logger.NewLogger(kl.name)
				kl.l.SetOutput(o.w)
				kl.l.EnableJSONOutput(js)
				out = append(out, kl)
			}
		}
		return out
	}
	// sequential, in order: every logger writes its lines before the next one starts
	ls := mk("sequential")
	for _, kl := range ls {
		for i, n := 0, rng.Range(2, 4); i < n; i++ {
			kl.l.Info(fmt.Sprintf("message %d of %s", i, kl.name))
			kl.lines++
		}
	}
	for _, kl := range ls {
		judgeKindLines(idx, fmt.Sprintf("sequential pass %s, order %v", tag, order), kl, kl.out.finish())
	}
	rec.Progress()
	// all at once
	lc := mk("concurrent")
	var wg sync.WaitGroup
	start := make(chan struct{})
	for _, kl := range lc {
		wg.Add(1)
		kl.lines = 3
		go func(kl *kindLogger) {
			defer wg.Done()
			<-start
			for i := 0; i < 3; i++ {
				kl.l.Info(fmt.Sprintf("message %d of %s", i, kl.name))
			}
		}(kl)
	}
	close(start)
	wg.Wait()
	for _, kl := range lc {
		judgeKindLines(idx, fmt.Sprintf("concurrent pass %s (%d loggers at once)", tag, len(lc)), kl, kl.out.finish())
	}
	rec.Progress()
}
