package c08

import (
	"bytes"
	"crypto/sha256"
	"encoding/base64"
	"encoding/hex"
	"encoding/json"
	"encoding/pem"
	"fmt"

	kc "github.com/dapr/kit/crypto"
	kitpem "github.com/dapr/kit/crypto/pem"
	"github.com/lestrrat-go/jwx/v2/jwk"

	"verif/harness/internal/mon"
)

func sum(b []byte) string {
	h := sha256.Sum256(b)
	return hex.EncodeToString(h[:12])
}

// ----------------------------------------------------------------- symmetric

type symAlg struct {
	name             string
	keyLen, nonceLen int
	mult             int // plaintext length must be a multiple of (0: any)
	minLen           int
	hasTag           bool
}

// the harness's own description of the names in SupportedSymmetricAlgorithms
var symTable = []symAlg{
	{"A128CBC", 16, 16, 0, 0, false}, {"A192CBC", 24, 16, 0, 0, false}, {"A256CBC", 32, 16, 0, 0, false},
	{"A128CBC-NOPAD", 16, 16, 16, 0, false}, {"A192CBC-NOPAD", 24, 16, 16, 0, false}, {"A256CBC-NOPAD", 32, 16, 16, 0, false},
	{"A128GCM", 16, 12, 0, 0, true}, {"A192GCM", 24, 12, 0, 0, true}, {"A256GCM", 32, 12, 0, 0, true},
	{"A128CBC-HS256", 32, 16, 0, 0, true}, {"A192CBC-HS384", 48, 16, 0, 0, true}, {"A256CBC-HS512", 64, 16, 0, 0, true},
	{"A128KW", 16, 0, 8, 16, false}, {"A192KW", 24, 0, 8, 16, false}, {"A256KW", 32, 0, 8, 16, false},
	{"C20P", 32, 12, 0, 0, true}, {"C20PKW", 32, 12, 0, 0, true}, {"XC20P", 32, 24, 0, 0, true}, {"XC20PKW", 32, 24, 0, 0, true},
}

type symSpec struct {
	a               symAlg
	key, nonce, aad []byte
	pt              []byte
	generic         bool // through crypto.Encrypt / crypto.Decrypt
	tamper          int  // 0 none, 1 flipped tag (or ciphertext when the algorithm has no tag), 2 nonce one byte short
	d               delay
	descStr         string
}

func newSymSpec(rng *mon.RNG) *symSpec {
	s := &symSpec{a: symTable[rng.Intn(len(symTable))]}
	n := rng.PickInt(0, 1, 15, 16, 17, 64, 1000, 4096, 70000)
	if s.a.mult > 0 {
		n = n / s.a.mult * s.a.mult
	}
	if n < s.a.minLen {
		n = s.a.minLen
	}
	if s.a.minLen > 0 && n > 512 {
		n = 512
	}
	s.pt = rng.Bytes(n)
	s.key = rng.Bytes(s.a.keyLen)
	s.nonce = rng.Bytes(s.a.nonceLen)
	if rng.Bool() {
		s.aad = rng.Bytes(rng.PickInt(1, 13, 200))
	}
	s.generic = rng.Chance(1, 3)
	if rng.Chance(1, 4) {
		s.tamper = rng.Range(1, 2)
	}
	s.d = pickDelay(rng)
	s.descStr = fmt.Sprintf("sym alg=%s generic=%v len=%d key=%s nonce=%s aad=%dB tamper=%d pause=%s pt=%s", s.a.name, s.generic, n, hex.EncodeToString(s.key), hex.EncodeToString(s.nonce), len(s.aad), s.tamper, s.d, sum(s.pt))
	return s
}

func (s *symSpec) lateRefMode() int {
	return 1
}

func (s *symSpec) kind() string { return "sym" }
func (s *symSpec) desc() string { return s.descStr }
func (s *symSpec) sig(ref, got outcome) string {
	return "crypto/symmetric-result-differs-under-concurrency/" + s.a.name + "/" + got.class
}

func (s *symSpec) run(c *gctx) outcome {
	key, err := jwk.FromRaw(append([]byte(nil), s.key...))
	if err != nil {
		return outcome{res: "jwk.FromRaw: " + err.Error(), class: "key-error", bad: "cannot build key"}
	}
	nonce := s.nonce
	if s.tamper == 2 && len(nonce) > 0 {
		nonce = nonce[:len(nonce)-1]
	}
	if len(nonce) == 0 {
		nonce = nil
	}
	var ct, tag []byte
	if s.generic {
		ct, tag, err = kc.Encrypt(s.pt, s.a.name, key, nonce, s.aad)
	} else {
		ct, tag, err = kc.EncryptSymmetric(s.pt, s.a.name, key, nonce, s.aad)
	}
	res := fmt.Sprintf("encrypt-error=%q ciphertext=%s/%d tag=%s", errText(err), sum(ct), len(ct), hex.EncodeToString(tag))
	if err != nil {
		return outcome{res: res, class: "encrypt-error"}
	}
	c.pause(s.d)
	ct2, tag2 := append([]byte(nil), ct...), append([]byte(nil), tag...)
	if s.tamper == 1 {
		if len(tag2) > 0 {
			tag2[len(tag2)/2] ^= 0x10
		} else if len(ct2) > 0 {
			ct2[len(ct2)-1] ^= 0x10
		}
	}
	var pt []byte
	if s.generic {
		pt, err = kc.Decrypt(ct2, s.a.name, key, nonce, tag2, s.aad)
	} else {
		pt, err = kc.DecryptSymmetric(ct2, s.a.name, key, nonce, tag2, s.aad)
	}
	res += fmt.Sprintf(" decrypt-error=%q plaintext=%s/%d", errText(err), sum(pt), len(pt))
	o := outcome{res: res, class: "decrypt-ok"}
	if err != nil {
		o.class = "decrypt-error"
	} else if !bytes.Equal(pt, s.pt) {
		o.class = "wrong-plaintext"
	}
	o.ok = s.tamper == 0 && err == nil && bytes.Equal(pt, s.pt)
	if c.conc && o.ok {
		c.count("sym.alg."+s.a.name, 1)
	}
	return o
}

// ---------------------------------------------------------------- asymmetric

var rsaEncAlgs = []string{"RSA1_5", "RSA-OAEP", "RSA-OAEP-256", "RSA-OAEP-384", "RSA-OAEP-512"}

var sigAlgs = []struct {
	name          string
	kind          string // rsa | ecdsa | eddsa
	curve         string
	digestLen     int
	deterministic bool
}{
	{"RS256", "rsa", "", 32, true}, {"RS384", "rsa", "", 48, true}, {"RS512", "rsa", "", 64, true},
	{"PS256", "rsa", "", 32, false}, {"PS384", "rsa", "", 48, false}, {"PS512", "rsa", "", 64, false},
	{"ES256", "ecdsa", "P-256", 32, false}, {"ES384", "ecdsa", "P-384", 48, false}, {"ES512", "ecdsa", "P-521", 64, false},
	{"EdDSA", "eddsa", "", 0, true},
}

type asymSpec struct {
	op      string // rsa-enc | sign
	alg     string
	sigIdx  int
	rsaIdx  int
	data    []byte // plaintext or digest
	label   []byte
	tamper  bool
	generic bool
	d       delay
	descStr string
}

func newAsymSpec(rng *mon.RNG, g int) *asymSpec {
	s := &asymSpec{rsaIdx: rng.Intn(2), d: pickDelay(rng)}
	if rng.Chance(2, 5) {
		s.op = "rsa-enc"
		s.alg = rsaEncAlgs[rng.Intn(len(rsaEncAlgs))]
		s.data = rng.Bytes(rng.PickInt(0, 1, 16, 32, 100))
		if s.alg != "RSA1_5" {
			if rng.Bool() {
				s.label = rng.Bytes(rng.PickInt(1, 20))
			}
			// a tampered PKCS#1 v1.5 ciphertext unpads successfully once in ~2^16 tries: not deterministic, not used
			s.tamper = rng.Chance(1, 4)
		}
		s.generic = rng.Chance(1, 3)
	} else {
		s.op = "sign"
		s.sigIdx = rng.Intn(len(sigAlgs))
		a := sigAlgs[s.sigIdx]
		s.alg = a.name
		n := a.digestLen
		if a.kind == "eddsa" {
			n = rng.PickInt(0, 1, 32, 100, 1000)
		}
		s.data = rng.Bytes(n)
		s.tamper = rng.Chance(1, 4)
	}
	s.descStr = fmt.Sprintf("asym op=%s alg=%s rsakey=%d keyset=%d data=%s label=%s tamper=%v generic=%v pause=%s", s.op, s.alg, s.rsaIdx, g%2, hex.EncodeToString(s.data), hex.EncodeToString(s.label), s.tamper, s.generic, s.d)
	return s
}

func (s *asymSpec) lateRefMode() int {
	return 1
}

func (s *asymSpec) kind() string { return "asym" }
func (s *asymSpec) desc() string { return s.descStr }
func (s *asymSpec) sig(ref, got outcome) string {
	return "crypto/asymmetric-result-differs-under-concurrency/" + s.op + "/" + s.alg + "/" + got.class
}

func (s *asymSpec) run(c *gctx) outcome {
	if s.op == "rsa-enc" {
		pub, priv := c.keys.rsaPub[s.rsaIdx], c.keys.rsaPriv[s.rsaIdx]
		var ct []byte
		var err error
		if s.generic {
			ct, _, err = kc.Encrypt(s.data, s.alg, pub, nil, s.label)
		} else {
			ct, err = kc.EncryptPublicKey(s.data, s.alg, pub, s.label)
		}
		if err != nil {
			return outcome{res: "encrypt-error=" + err.Error(), class: "encrypt-error"}
		}
		c.pause(s.d)
		if s.tamper {
			ct = append([]byte(nil), ct...)
			ct[len(ct)/2] ^= 0x04
		}
		var pt []byte
		if s.generic {
			pt, err = kc.Decrypt(ct, s.alg, priv, nil, nil, s.label)
		} else {
			pt, err = kc.DecryptPrivateKey(ct, s.alg, priv, s.label)
		}
		o := outcome{res: fmt.Sprintf("ciphertext-len=%d decrypt-error=%q plaintext=%s", len(ct), errText(err), hex.EncodeToString(pt)), class: "decrypt-ok"}
		if err != nil {
			o.class = "decrypt-error"
		} else if !bytes.Equal(pt, s.data) {
			o.class = "wrong-plaintext"
		}
		o.ok = !s.tamper && err == nil && bytes.Equal(pt, s.data)
		if c.conc && o.ok {
			c.count("asym.alg."+s.alg, 1)
		}
		return o
	}
	a := sigAlgs[s.sigIdx]
	var priv, pub jwk.Key
	switch a.kind {
	case "rsa":
		priv, pub = c.keys.rsaPriv[s.rsaIdx], c.keys.rsaPub[s.rsaIdx]
	case "ecdsa":
		priv, pub = c.keys.ecPriv[a.curve], c.keys.ecPub[a.curve]
	default:
		priv, pub = c.keys.edPriv, c.keys.edPub
	}
	sg, err := kc.SignPrivateKey(s.data, s.alg, priv)
	if err != nil {
		return outcome{res: "sign-error=" + err.Error(), class: "sign-error"}
	}
	c.pause(s.d)
	digest := s.data
	if s.tamper {
		digest = append([]byte(nil), s.data...)
		if len(digest) == 0 {
			digest = []byte{1}
		} else {
			digest[0] ^= 0x01
		}
	}
	valid, err := kc.VerifyPublicKey(digest, sg, s.alg, pub)
	res := fmt.Sprintf("valid=%v verify-error=%q", valid, errText(err))
	if a.deterministic {
		res += " signature=" + sum(sg)
	}
	o := outcome{res: res, class: fmt.Sprintf("verify-valid=%v", valid)}
	if err != nil {
		o.class = "verify-error"
	}
	o.ok = !s.tamper && valid && err == nil
	if c.conc && o.ok {
		c.count("asym.alg."+s.alg, 1)
	}
	return o
}

// ------------------------------------------------------ key (de)serialisation

type keysSpec struct {
	which   string // oct | rsa | ec-P-256 ... | ed
	form    string // pem | json | b64 | kitpem
	oct     []byte
	rsaIdx  int
	d       delay
	descStr string
}

func newKeysSpec(rng *mon.RNG, g int) *keysSpec {
	s := &keysSpec{rsaIdx: rng.Intn(2), d: pickDelay(rng)}
	s.which = rng.PickStr("oct", "rsa", "ec-P-256", "ec-P-384", "ec-P-521", "ed")
	switch s.which {
	case "oct":
		s.oct = rng.Bytes(rng.PickInt(16, 24, 32, 48, 64))
		s.form = rng.PickStr("b64", "json")
	case "rsa", "ed":
		s.form = rng.PickStr("pem", "json")
	default:
		s.form = rng.PickStr("pem", "json", "kitpem")
	}
	s.descStr = fmt.Sprintf("keys key=%s form=%s rsakey=%d keyset=%d oct=%s pause=%s", s.which, s.form, s.rsaIdx, g%2, hex.EncodeToString(s.oct), s.d)
	return s
}

func (s *keysSpec) lateRefMode() int {
	return 1
}

func (s *keysSpec) kind() string { return "keys" }
func (s *keysSpec) desc() string { return s.descStr }
func (s *keysSpec) sig(ref, got outcome) string {
	return "crypto/key-serialisation-differs-under-concurrency/" + s.which + "/" + s.form
}

func (s *keysSpec) run(c *gctx) outcome {
	if s.form == "kitpem" {
		raw := c.keys.rawEC[s.which[3:]]
		b, err := kitpem.EncodePrivateKey(raw)
		if err != nil {
			return outcome{res: "EncodePrivateKey: " + err.Error(), class: "error"}
		}
		c.pause(s.d)
		signer, err := kitpem.DecodePEMPrivateKey(b)
		if err != nil {
			return outcome{res: "DecodePEMPrivateKey: " + err.Error(), class: "error"}
		}
		eq, err := kitpem.PublicKeysEqual(signer.Public(), raw.Public())
		return outcome{res: fmt.Sprintf("pem=%s equal=%v err=%q", sum(b), eq, errText(err)), class: fmt.Sprintf("equal=%v", eq), ok: eq && err == nil}
	}
	var key jwk.Key
	switch s.which {
	case "oct":
		key = mustJWK(append([]byte(nil), s.oct...))
	case "rsa":
		key = c.keys.rsaPriv[s.rsaIdx]
	case "ed":
		key = c.keys.edPriv
	default:
		key = c.keys.ecPriv[s.which[3:]]
	}
	ser, err := kc.SerializeKey(key)
	if err != nil {
		return outcome{res: "SerializeKey: " + err.Error(), class: "serialize-error"}
	}
	c.pause(s.d)
	var enc []byte
	ct := ""
	switch s.form {
	case "pem":
		enc, ct = pem.EncodeToMemory(&pem.Block{Type: "PRIVATE KEY", Bytes: ser}), "application/x-pem-file"
	case "json":
		enc, err = json.Marshal(key)
		if err != nil {
			return outcome{res: "json.Marshal(jwk): " + err.Error(), class: "marshal-error"}
		}
		ct = "application/json"
	case "b64":
		enc = []byte(base64.StdEncoding.EncodeToString(ser))
	}
	back, err := kc.ParseKey(enc, ct)
	if err != nil {
		return outcome{res: fmt.Sprintf("serialized=%s ParseKey-error=%q", sum(ser), err.Error()), class: "parse-error"}
	}
	ser2, err := kc.SerializeKey(back)
	same := err == nil && bytes.Equal(ser, ser2)
	return outcome{res: fmt.Sprintf("serialized=%s encoded=%s reserialized=%s err=%q", sum(ser), sum(enc), sum(ser2), errText(err)), class: fmt.Sprintf("roundtrip-same=%v", same), ok: same}
}
