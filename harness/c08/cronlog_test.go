package c08

import (
	"errors"
	"fmt"
	"reflect"
	"runtime"
	"strings"
	"sync"
	"time"

	"github.com/dapr/kit/cron"

	"verif/harness/internal/mon"
)

// cronLoggerPhase: several independent cron loggers (PrintfLogger /
// VerbosePrintfLogger, each over a sink of its own) are handed the SAME
// caller-owned keysAndValues slices with the spread form
// (Info(msg, kv...), Error(err, msg, kv...)). The slices hold time.Time values
// next to strings, ints, durations and errors, and are read-only as far as the
// caller is concerned.
//
//  1. solo: every logger logs a private copy of every slice; its lines are the
//     reference.
//  2. sequential, no goroutines: logger A logs the shared slice, the slice must
//     still be element-wise identical (same dynamic types and values) to its
//     snapshot, then logger B logs it and must write its solo lines.
//  3. concurrent: all loggers log all shared slices at once from goroutines of
//     their own; their lines must equal the solo lines, the slices must be
//     intact afterwards, and (race build) the detector must stay silent - the
//     harness only reads the slices.
type lineSink struct{ lines []string }

func (s *lineSink) Printf(format string, args ...interface{}) {
	s.lines = append(s.lines, fmt.Sprintf(format, args...))
}

type cronLogger struct {
	verbose bool
	name    string
}

func (cl cronLogger) make(sink *lineSink) cron.Logger {
	if cl.verbose {
		return cron.VerbosePrintfLogger(sink)
	}
	return cron.PrintfLogger(sink)
}

// logAll logs one kv slice through a logger: Info and Error, spread form.
func logAll(l cron.Logger, j int, kv []interface{}, errv error) {
	l.Info(fmt.Sprintf("info about args %d", j), kv...)
	l.Error(errv, fmt.Sprintf("error about args %d", j), kv...)
}

func sameElements(a, b []interface{}) (int, bool) {
	if len(a) != len(b) {
		return -1, false
	}
	for i := range a {
		if reflect.TypeOf(a[i]) != reflect.TypeOf(b[i]) || !reflect.DeepEqual(a[i], b[i]) {
			return i, false
		}
	}
	return 0, true
}

func describeKV(kv []interface{}) string {
	var p []string
	for _, v := range kv {
		p = append(p, fmt.Sprintf("%T(%v)", v, v))
	}
	return "[" + strings.Join(p, ", ") + "]"
}

func cronLoggerPhase(rp roundPlan) {
	const reps = 3
	rng := mon.NewRNG("cronlog", rp.idx)
	viol := func(sig, msg string, extra map[string]any) {
		extra["round"] = rp.String()
		rec.Violation(rp.idx, sig, msg, extra)
	}

	// caller-owned argument slices
	zones := []*time.Location{time.UTC, time.FixedZone("plus5", 5*3600), time.FixedZone("minus9h30", -9*3600-1800)}
	nKV := rng.Range(3, 5)
	kvs := make([][]interface{}, nKV)
	snaps := make([][]interface{}, nKV)
	errVals := make([]error, nKV)
	for j := range kvs {
		pairs := rng.Range(2, 5)
		// some slices have spare capacity, some are exactly full
		kv := make([]interface{}, 0, 2*pairs+rng.PickInt(0, 0, 3))
		timeAt := rng.Intn(pairs)
		for p := 0; p < pairs; p++ {
			kv = append(kv, fmt.Sprintf("key%d", p))
			var v interface{}
			switch w := rng.Intn(6); {
			case p == timeAt || w == 0:
				v = time.Date(2020+rng.Intn(10), time.Month(1+rng.Intn(12)), 1+rng.Intn(28), rng.Intn(24), rng.Intn(60), rng.Intn(60), rng.Intn(1e9), zones[rng.Intn(len(zones))])
			case w == 1:
				v = rng.Intn(100000)
			case w == 2:
				v = errors.New(fmt.Sprintf("value error %d", rng.Intn(1000)))
			case w == 3:
				v = time.Duration(rng.Intn(1e9))
			default:
				v = fmt.Sprintf("value-%x", rng.U64()&0xffff)
			}
			kv = append(kv, v)
		}
		kvs[j] = kv
		snaps[j] = append([]interface{}(nil), kv...)
		errVals[j] = fmt.Errorf("job %d failed", j)
	}
	restore := func() {
		for j := range kvs {
			copy(kvs[j], snaps[j])
		}
	}
	checkIntact := func(when string) bool {
		ok := true
		for j := range kvs {
			rec.Count("cronlog.shared_args.intact_checks", 1)
			if i, same := sameElements(kvs[j], snaps[j]); !same {
				ok = false
				viol("cron/logger-modified-callers-keysAndValues",
					fmt.Sprintf("%s the caller's keysAndValues slice %d differs from its snapshot at element %d: now %s, was %s", when, j, i, describeKV(kvs[j]), describeKV(snaps[j])),
					map[string]any{"when": when, "now": describeKV(kvs[j]), "was": describeKV(snaps[j]), "build": build})
			}
		}
		return ok
	}

	nLog := rng.Range(4, 8)
	loggers := make([]cronLogger, nLog)
	for i := range loggers {
		loggers[i] = cronLogger{verbose: i%2 == 0, name: fmt.Sprintf("logger%d(verbose=%v)", i, i%2 == 0)}
	}

	// (1) solo references, on private copies
	solo := make([][][]string, nLog)
	for i, cl := range loggers {
		solo[i] = make([][]string, nKV)
		for j := range kvs {
			sink := &lineSink{}
			logAll(cl.make(sink), j, append([]interface{}(nil), snaps[j]...), errVals[j])
			solo[i][j] = sink.lines
		}
	}

	// (2) sequential: A logs the shared slice, slice intact, B's lines as solo
	for j := range kvs {
		a, b := rng.Intn(nLog), rng.Intn(nLog)
		logAll(loggers[a].make(&lineSink{}), j, kvs[j], errVals[j])
		checkIntact(fmt.Sprintf("sequential: after %s logged it (Info and Error, spread form),", loggers[a].name))
		sink := &lineSink{}
		logAll(loggers[b].make(sink), j, kvs[j], errVals[j])
		rec.Count("cronlog.shared_args.sequential_checks", 1)
		rec.Count(build+".cronlog.shared_args.sequential_checks", 1)
		if !reflect.DeepEqual(sink.lines, solo[b][j]) {
			viol("cron/logger-output-differs-after-another-logger-used-the-same-args",
				fmt.Sprintf("sequential: %s logging args %d after %s had logged them wrote %q, alone it wrote %q", loggers[b].name, j, loggers[a].name, sink.lines, solo[b][j]),
				map[string]any{"args": describeKV(snaps[j])})
		}
		restore()
	}

	// (3) concurrent: everybody logs every shared slice at once
	var wg sync.WaitGroup
	start := make(chan struct{})
	got := make([][][]string, nLog)
	for i, cl := range loggers {
		wg.Add(1)
		got[i] = make([][]string, nKV)
		go func(i int, cl cronLogger) {
			defer wg.Done()
			<-start
			for r := 0; r < reps; r++ {
				for jj := range kvs {
					j := (jj + i) % nKV
					sink := &lineSink{}
					logAll(cl.make(sink), j, kvs[j], errVals[j])
					got[i][j] = append(got[i][j], sink.lines...)
				}
			}
		}(i, cl)
	}
	close(start)
	wg.Wait()
	rec.Progress()
	for i := range loggers {
		for j := range kvs {
			var want []string
			for r := 0; r < reps; r++ {
				want = append(want, solo[i][j]...)
			}
			rec.Count("cronlog.shared_args.concurrent_outputs_compared", 1)
			rec.Count(build+".cronlog.shared_args.concurrent_outputs_compared", 1)
			if !reflect.DeepEqual(got[i][j], want) {
				viol("cron/logger-lines-differ-under-concurrency/shared-read-only-args",
					fmt.Sprintf("%s logging args %d concurrently with %d other loggers wrote %q, alone it wrote %q", loggers[i].name, j, nLog-1, got[i][j], want),
					map[string]any{"args": describeKV(snaps[j]), "build": build})
			}
		}
	}
	checkIntact(fmt.Sprintf("concurrent: after %d independent loggers logged it at once,", nLog))
	restore()
}

// ------------------------------------------------- back-ends that keep the record

// record is what a Printf back-end is given.
type record struct {
	format string
	args   []interface{} // the variadic slice as given, not copied
}

// backend is a Printf back-end of one of three kinds:
//
//	immediate: formats inside Printf;
//	retaining: keeps (format, args) and formats when asked for its lines;
//	asynchronous: hands (format, args) to a goroutine of its own over a channel,
//	  which yields and then formats.
//
// Nothing in Printf(string, ...interface{}) forbids keeping the slice: every
// call gets its own.
type backend struct {
	kind  string
	lines []string
	recs  []record
	ch    chan record
	done  chan struct{}
}

func newBackend(kind string) *backend {
	b := &backend{kind: kind}
	if kind == "asynchronous" {
		b.ch, b.done = make(chan record, 4096), make(chan struct{})
		go func() {
			defer close(b.done)
			for r := range b.ch {
				runtime.Gosched()
				b.lines = append(b.lines, fmt.Sprintf(r.format, r.args...))
			}
		}()
	}
	return b
}

func (b *backend) Printf(format string, args ...interface{}) {
	switch b.kind {
	case "immediate":
		b.lines = append(b.lines, fmt.Sprintf(format, args...))
	case "retaining":
		b.recs = append(b.recs, record{format, args})
	default:
		b.ch <- record{format, args}
	}
}

// finish returns the back-end's lines; called by the goroutine that owns the
// logger after its last message (asynchronous: after the queue has drained).
func (b *backend) finish() []string {
	switch b.kind {
	case "retaining":
		for _, r := range b.recs {
			b.lines = append(b.lines, fmt.Sprintf(r.format, r.args...))
		}
		b.recs = nil
	case "asynchronous":
		close(b.ch)
		<-b.done
	}
	return b.lines
}

// series logs logger i's own messages with its own values.
func logSeries(l cron.Logger, i, n int, when time.Time) {
	for m := 0; m < n; m++ {
		l.Info(fmt.Sprintf("logger %d info %d", i, m), "owner", i, "seq", m, "at", when.Add(time.Duration(i*1000+m)*time.Second))
		l.Error(fmt.Errorf("logger %d failure %d", i, m), fmt.Sprintf("logger %d error %d", i, m), "owner", i, "at", when.Add(time.Duration(i*1000+m)*time.Minute), "code", i*100+m)
	}
}

// cronBackendPhase: independent cron loggers over back-ends that keep what
// they are given. A record one back-end holds must not change because the
// same or another cron logger logs something later.
func cronBackendPhase(rp roundPlan) {
	rng := mon.NewRNG("cronbackends", rp.idx)
	viol := func(kind, msg string, extra map[string]any) {
		sig := "cron/logger-record-retained-by-backend-changed-after-later-logging/" + kind + "-backend"
		if kind == "immediate" {
			sig = "cron/logger-lines-differ-under-concurrency/own-args"
		}
		extra["round"], extra["build"] = rp.String(), build
		rec.Violation(rp.idx, sig, msg, extra)
	}
	kinds := []string{"retaining", "asynchronous", "immediate"}
	nLog, nMsg := rng.Range(6, 9), rng.Range(3, 6)
	when := time.Date(2021+rng.Intn(5), time.Month(1+rng.Intn(12)), 1+rng.Intn(28), rng.Intn(24), rng.Intn(60), 0, 0, time.UTC)
	mk := func(i int, b *backend) cron.Logger {
		if i%3 == 2 {
			return cron.PrintfLogger(b) // errors only
		}
		return cron.VerbosePrintfLogger(b)
	}

	// solo: every logger alone over an immediate back-end
	solo := make([][]string, nLog)
	for i := range solo {
		b := newBackend("immediate")
		logSeries(mk(i, b), i, nMsg, when)
		solo[i] = b.finish()
	}

	// sequential: A logs into a keeping back-end, B logs its own messages, then A's records are formatted
	for _, kind := range []string{"retaining", "asynchronous"} {
		a, bIdx := rng.Intn(nLog), rng.Intn(nLog)
		ba, bb := newBackend(kind), newBackend(kinds[rng.Intn(3)])
		logSeries(mk(a, ba), a, nMsg, when)
		logSeries(mk(bIdx, bb), bIdx, nMsg, when)
		got := ba.finish()
		bb.finish()
		rec.Count("cronlog.backends.sequential_checks", 1)
		rec.Count(build+".cronlog.backends.sequential_checks", 1)
		if !reflect.DeepEqual(got, solo[a]) {
			viol(kind, fmt.Sprintf("sequential: logger %d logged %d messages into a %s back-end, then logger %d logged its own; the first back-end's records now read %q, alone the lines are %q", a, nMsg, kind, bIdx, got, solo[a]),
				map[string]any{"first_logger": a, "second_logger": bIdx})
		}
	}

	// concurrent: everybody at once, back-end kinds in turn
	var wg sync.WaitGroup
	start := make(chan struct{})
	got := make([][]string, nLog)
	for i := 0; i < nLog; i++ {
		wg.Add(1)
		go func(i int) {
			defer wg.Done()
			b := newBackend(kinds[(i+rp.idx)%3])
			l := mk(i, b)
			<-start
			logSeries(l, i, nMsg, when)
			got[i] = b.finish()
		}(i)
	}
	close(start)
	wg.Wait()
	rec.Progress()
	for i := 0; i < nLog; i++ {
		kind := kinds[(i+rp.idx)%3]
		rec.Count("cronlog.backends.concurrent_checks."+kind, 1)
		rec.Count(build+".cronlog.backends.concurrent_checks", 1)
		if !reflect.DeepEqual(got[i], solo[i]) {
			viol(kind, fmt.Sprintf("concurrent: logger %d over a %s back-end, logging at the same time as %d other cron loggers, ended with the lines %q; alone the lines are %q", i, kind, nLog-1, got[i], solo[i]),
				map[string]any{"logger": i})
		}
	}
}
