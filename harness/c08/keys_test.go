package c08

import (
	"crypto/ecdsa"
	"crypto/ed25519"
	"crypto/elliptic"
	"crypto/rand"
	"crypto/rsa"
	"crypto/x509"
	"encoding/pem"

	"github.com/lestrrat-go/jwx/v2/jwk"
)

// Raw asymmetric keys of the process. They are only read after
// initProcessKeys; every goroutine builds its own jwk.Key objects from them
// (jwk keys carry a mutex and caches: sharing one would not be "independent
// objects").
var proc struct {
	rsa [2]*rsa.PrivateKey
	ec  map[string][2]*ecdsa.PrivateKey // curve name -> two keys
	ed  [2]ed25519.PrivateKey
}

var curves = map[string]elliptic.Curve{"P-256": elliptic.P256(), "P-384": elliptic.P384(), "P-521": elliptic.P521()}

func initProcessKeys() {
	for i, p := range rsaPEMs {
		blk, _ := pem.Decode([]byte(p))
		if blk == nil {
			rec.Fatalf("embedded RSA key %d is not PEM", i)
		}
		k, err := x509.ParsePKCS8PrivateKey(blk.Bytes)
		if err != nil {
			rec.Fatalf("embedded RSA key %d: %v", i, err)
		}
		proc.rsa[i] = k.(*rsa.PrivateKey)
	}
	proc.ec = map[string][2]*ecdsa.PrivateKey{}
	for name, c := range curves {
		var pair [2]*ecdsa.PrivateKey
		for i := range pair {
			k, err := ecdsa.GenerateKey(c, rand.Reader)
			if err != nil {
				rec.Fatalf("ecdsa keygen: %v", err)
			}
			pair[i] = k
		}
		proc.ec[name] = pair
	}
	for i := range proc.ed {
		_, k, err := ed25519.GenerateKey(rand.Reader)
		if err != nil {
			rec.Fatalf("ed25519 keygen: %v", err)
		}
		proc.ed[i] = k
	}
	rec.Progress()
}

// gkeys are the jwk.Key objects of one goroutine.
type gkeys struct {
	idx             int // which of the two process keys of each kind
	rsaPriv, rsaPub [2]jwk.Key
	ecPriv, ecPub   map[string]jwk.Key
	edPriv, edPub   jwk.Key
	rawEC           map[string]*ecdsa.PrivateKey
	rawRSA          *rsa.PrivateKey
	rawEd           ed25519.PrivateKey
	rsaPKCS8PEM     [2][]byte
}

func mustJWK(raw any) jwk.Key {
	k, err := jwk.FromRaw(raw)
	if err != nil {
		rec.Fatalf("cannot build JWK from %T: %v", raw, err)
	}
	return k
}

func mustPub(k jwk.Key) jwk.Key {
	p, err := k.PublicKey()
	if err != nil {
		rec.Fatalf("cannot derive public JWK: %v", err)
	}
	return p
}

func newGKeys(g int) *gkeys {
	k := &gkeys{idx: g % 2, ecPriv: map[string]jwk.Key{}, ecPub: map[string]jwk.Key{}, rawEC: map[string]*ecdsa.PrivateKey{}}
	for i := range proc.rsa {
		k.rsaPriv[i] = mustJWK(proc.rsa[i])
		k.rsaPub[i] = mustPub(k.rsaPriv[i])
		k.rsaPKCS8PEM[i] = []byte(rsaPEMs[i])
	}
	k.rawRSA = proc.rsa[k.idx]
	for name, pair := range proc.ec {
		k.rawEC[name] = pair[k.idx]
		k.ecPriv[name] = mustJWK(pair[k.idx])
		k.ecPub[name] = mustPub(k.ecPriv[name])
	}
	k.rawEd = proc.ed[k.idx]
	k.edPriv = mustJWK(k.rawEd)
	k.edPub = mustPub(k.edPriv)
	return k
}
