package c08

import (
	"bytes"
	"encoding/json"
	"fmt"
	"runtime"
	"strings"
	"sync"
	"sync/atomic"

	"github.com/dapr/kit/logger"

	"verif/harness/internal/mon"
)

// loggerRegistryPhase runs the registry-wide operation of the logger package,
// ApplyOptionsToLoggers (the only exported function besides NewLogger that
// walks the global registry), concurrently with NewLogger look-ups of names
// that exist already and of names that are not registered yet.
//
// It is a phase of its own at the end of a round, because an Apply
// reconfigures EVERY registered logger: while it runs nobody may write to or
// through a registered logger (that would be one object used by two
// goroutines, which C08 does not speak about). So:
//   - exactly one goroutine applies (two overlapping Apply calls configure the
//     same loggers - not independent operations);
//   - the look-up goroutines only call NewLogger and publish (name, instance);
//     they never touch the loggers they obtain;
//   - only the applier reads loggers back, and only after its Apply returned.
//
// Oracle, only what is certain: a valid Options value is accepted; a logger
// registered BEFORE an Apply call started has that call's level once it
// returned (no later Apply has happened yet: there is one applier); the
// applier's own pre-registered loggers, which write into buffers, produce
// JSON or text as applied and carry the applied app id; look-ups of one name
// return one instance. The race detector and the runtime's concurrent-map
// check watch the registry itself.
func loggerRegistryPhase(rp roundPlan) {
	const (
		nLookers       = 6
		nApplies       = 5
		lookupsPerStep = 5
	)
	rng := mon.NewRNG("registry", rp.idx)
	type pub struct {
		name string
		inst logger.Logger
	}
	var (
		mu        sync.Mutex
		published []pub
		started   atomic.Int32 // number of Apply calls started
		applying  atomic.Int32 // 1 while an Apply call is running
		finished  atomic.Int32
		duringCnt atomic.Int64
		freshCnt  atomic.Int64
		existCnt  atomic.Int64
	)
	viol := func(sig, msg string, extra map[string]any) {
		extra["round"] = rp.String()
		rec.Violation(rp.idx, sig, msg, extra)
	}

	// the applier's own loggers: registered now, output into buffers
	type own struct {
		name string
		l    logger.Logger
		buf  *bytes.Buffer
	}
	var owns []own
	existing := []string{fmt.Sprintf("c08/shared/r%d/loop0/all", rp.idx)}
	for i := 0; i < 3; i++ {
		o := own{name: fmt.Sprintf("c08/registry/r%d/own%d", rp.idx, i), buf: &bytes.Buffer{}}
		o.l = logger.NewLogger(o.name)
		o.l.SetOutput(o.buf)
		owns = append(owns, o)
		existing = append(existing, o.name)
		published = append(published, pub{o.name, o.l})
	}

	var wg sync.WaitGroup
	start := make(chan struct{})
	for i := 0; i < nLookers; i++ {
		wg.Add(1)
		go func(i int) {
			defer wg.Done()
			lr := mon.NewRNG(fmt.Sprintf("registry-looker%d", i), rp.idx)
			<-start
			for step := 0; step < nApplies; step++ {
				// look up while the step-th Apply runs (or after the applier has finished)
				for started.Load() <= int32(step) && finished.Load() == 0 {
					runtime.Gosched()
				}
				for j := 0; j < lookupsPerStep; j++ {
					var name string
					fresh := false
					switch lr.Intn(5) {
					case 0, 1:
						name = existing[lr.Intn(len(existing))]
					case 2:
						// a fresh name that the other look-up goroutines ask for as well
						name, fresh = fmt.Sprintf("c08/registry/r%d/common/%d-%d", rp.idx, step, j), true
					default:
						name, fresh = fmt.Sprintf("c08/registry/r%d/looker%d/%d-%d", rp.idx, i, step, j), true
					}
					a0 := applying.Load()
					l := logger.NewLogger(name)
					a1 := applying.Load()
					if fresh {
						freshCnt.Add(1)
						if a0 == 1 && a1 == 1 {
							duringCnt.Add(1)
						}
					} else {
						existCnt.Add(1)
					}
					mu.Lock()
					published = append(published, pub{name, l})
					mu.Unlock()
					rec.Progress()
				}
			}
		}(i)
	}

	levels := []string{"debug", "info", "warn", "error"}
	order := map[string]int{"debug": 0, "info": 1, "warn": 2, "error": 3}
	wg.Add(1)
	go func() {
		defer wg.Done()
		defer finished.Store(1)
		<-start
		for k := 0; k < nApplies; k++ {
			opts := logger.DefaultOptions()
			opts.JSONFormatEnabled = rng.Bool()
			lvl := levels[rng.Intn(len(levels))]
			if err := opts.SetOutputLevel(lvl); err != nil {
				viol("logger/options-valid-level-rejected", fmt.Sprintf("Options.SetOutputLevel(%q): %v", lvl, err), map[string]any{})
			}
			appID := ""
			if rng.Chance(2, 3) {
				appID = fmt.Sprintf("app-r%d-%d", rp.idx, k)
				opts.SetAppID(appID)
			}
			mu.Lock()
			before := append([]pub(nil), published...)
			mu.Unlock()
			started.Add(1)
			applying.Store(1)
			err := logger.ApplyOptionsToLoggers(&opts)
			applying.Store(0)
			rec.Progress()
			rec.Count("log.registry.applies", 1)
			desc := fmt.Sprintf("ApplyOptionsToLoggers(level=%s json=%v appid=%q), call %d of the round", lvl, opts.JSONFormatEnabled, appID, k)
			if err != nil {
				viol("logger/apply-options-valid-options-rejected", desc+" returned "+err.Error(), map[string]any{})
				continue
			}
			// every logger registered before the call started has the level now
			step := 1
			if len(before) > 200 {
				step = len(before) / 200
			}
			for i := 0; i < len(before); i += step {
				p := before[i]
				on := p.inst.IsOutputLevelEnabled(logger.LogLevel(lvl))
				verbose := false
				if order[lvl] > 0 {
					verbose = p.inst.IsOutputLevelEnabled(logger.LogLevel(levels[order[lvl]-1]))
				}
				rec.Count("log.registry.loggers_level_checked", 1)
				if !on || verbose {
					viol("logger/apply-options-level-not-applied-to-registered-logger",
						fmt.Sprintf("logger %q was registered before %s started, but after it returned level %s enabled=%v and the next more verbose level enabled=%v", p.name, desc, lvl, on, verbose),
						map[string]any{"logger": p.name, "apply": desc})
					break
				}
			}
			// the applier's own loggers: format and app id as applied
			for _, o := range owns {
				o.buf.Reset()
				probe := fmt.Sprintf("probe r%d k%d", rp.idx, k)
				o.l.Error(probe)
				line := strings.TrimSpace(o.buf.String())
				rec.Count("log.registry.own_logger_lines_checked", 1)
				var m map[string]any
				isJSON := strings.HasPrefix(line, "{") && json.Unmarshal([]byte(line), &m) == nil
				switch {
				case line == "" || !strings.Contains(line, probe):
					viol("logger/apply-options-error-line-missing", fmt.Sprintf("after %s, Error(%q) on the pre-registered logger %q wrote %q", desc, probe, o.name, clip(line, 200)), map[string]any{})
				case isJSON != opts.JSONFormatEnabled:
					viol("logger/apply-options-format-not-applied", fmt.Sprintf("after %s the pre-registered logger %q wrote %q", desc, o.name, clip(line, 200)), map[string]any{})
				case appID != "" && isJSON && m["app_id"] != appID, appID != "" && !isJSON && !strings.Contains(line, "app_id="+appID):
					viol("logger/apply-options-appid-not-applied", fmt.Sprintf("after %s the pre-registered logger %q wrote %q", desc, o.name, clip(line, 200)), map[string]any{})
				}
			}
		}
	}()
	close(start)
	wg.Wait()

	// same-name look-ups return one instance
	first := map[string]logger.Logger{}
	asked := map[string]int{}
	for _, p := range published {
		asked[p.name]++
		if f, ok := first[p.name]; !ok {
			first[p.name] = p.inst
		} else if f != p.inst {
			viol("logger/equal-name-different-instances", fmt.Sprintf("logger.NewLogger(%q) returned different instances while ApplyOptionsToLoggers was running", p.name), map[string]any{"name": p.name})
			break
		}
	}
	for n, c := range asked {
		if c > 1 && strings.Contains(n, "/common/") {
			rec.Count("log.registry.fresh_names_looked_up_by_several_goroutines", 1)
		}
	}
	rec.Count("log.registry.lookups_fresh_names", int(freshCnt.Load()))
	rec.Count("log.registry.lookups_existing_names", int(existCnt.Load()))
	rec.Count("log.registry.fresh_inserts_during_apply", int(duringCnt.Load()))
	rec.Count(build+".log.registry.fresh_inserts_during_apply", int(duringCnt.Load()))

	// sane defaults for whatever comes next
	def := logger.DefaultOptions()
	if err := logger.ApplyOptionsToLoggers(&def); err != nil {
		viol("logger/apply-options-valid-options-rejected", "ApplyOptionsToLoggers(DefaultOptions()) returned "+err.Error(), map[string]any{})
	}
}
