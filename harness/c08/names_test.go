package c08

import (
	"fmt"
	"runtime"
	"sync"
	"sync/atomic"

	"github.com/dapr/kit/cron"

	"verif/harness/internal/mon"
)

// Month and day-of-week names are case-insensitive. A 3-letter name has 7
// spellings that are not all lower case; whatever the parser might remember
// per spelling at package level is met for the first time exactly once per
// process. The spellings are therefore rationed:
//   - the pipelines and the separate-parsers phase draw from the spellings whose
//     first letter is upper case (Jan, JAn, JaN, JAN ...), at random;
//   - the spellings whose first letter is lower case (jAn, jaN, jAN ...: 57 of
//     them) are reserved for the names phase, which hands a few to every round
//     of the child in turn, so that first sightings keep happening late in the
//     run, and lets several goroutines meet each of them at the same moment.
var (
	monthNames = []string{"jan", "feb", "mar", "apr", "may", "jun", "jul", "aug", "sep", "oct", "nov", "dec"}
	dowNames   = []string{"sun", "mon", "tue", "wed", "thu", "fri", "sat"}
)

// spell applies a case mask (bit i: letter i upper case).
func spell(name string, mask int) string {
	b := []byte(name)
	for i := range b {
		if mask>>uint(i)&1 == 1 {
			b[i] -= 'a' - 'A'
		}
	}
	return string(b)
}

// pipelineSpelling: a random spelling with an upper-case first letter.
func pipelineSpelling(rng *mon.RNG, name string) string {
	return spell(name, rng.PickInt(1, 3, 5, 7))
}

type reservedName struct {
	text  string
	month bool
	value int // 1-12 / 0-6
}

// reservedSpellings is the seed-shuffled list of the 57 reserved spellings.
func reservedSpellings() []reservedName {
	var out []reservedName
	for _, mask := range []int{2, 4, 6} {
		for i, n := range monthNames {
			out = append(out, reservedName{spell(n, mask), true, i + 1})
		}
		for i, n := range dowNames {
			out = append(out, reservedName{spell(n, mask), false, i})
		}
	}
	rng := mon.NewRNG("reserved-spellings", 0)
	for i := range out {
		j := i + rng.Intn(len(out)-i)
		out[i], out[j] = out[j], out[i]
	}
	return out
}

var plannedRounds = 12 // set by TestCheck

// namedSpec is a 5-field spec with names in it and its numeric twin.
type namedSpec struct {
	named, numeric string
	fresh          int
}

func buildNamedSpec(rng *mon.RNG, names []reservedName) namedSpec {
	mon, dow := "*", "*"
	monN, dowN := "*", "*"
	field := func(r reservedName) (string, string) {
		pool, lo, hi := dowNames, 0, 6
		if r.month {
			pool, lo, hi = monthNames, 1, 12
		}
		other := func(v int) string { return pipelineSpelling(rng, pool[v-lo]) }
		switch rng.Intn(4) {
		case 0:
			return r.text, fmt.Sprint(r.value)
		case 1:
			h := rng.Range(r.value, hi)
			return r.text + "-" + other(h), fmt.Sprintf("%d-%d", r.value, h)
		case 2:
			o := rng.Range(lo, hi)
			return other(o) + "," + r.text, fmt.Sprintf("%d,%d", o, r.value)
		}
		l := rng.Range(lo, r.value)
		step := rng.Range(2, 3)
		return fmt.Sprintf("%s-%s/%d", other(l), r.text, step), fmt.Sprintf("%d-%d/%d", l, r.value, step)
	}
	s := namedSpec{}
	for _, r := range names {
		a, b := field(r)
		s.fresh++
		if r.month {
			if mon == "*" {
				mon, monN = a, b
			} else {
				mon, monN = mon+","+a, monN+","+b
			}
		} else {
			if dow == "*" {
				dow, dowN = a, b
			} else {
				dow, dowN = dow+","+a, dowN+","+b
			}
		}
	}
	m, h := rng.Range(0, 59), rng.Range(0, 23)
	s.named = fmt.Sprintf("%d %d * %s %s", m, h, mon, dow)
	s.numeric = fmt.Sprintf("%d %d * %s %s", m, h, monN, dowN)
	return s
}

var nameParsers = []struct {
	name  string
	parse func(spec string) (cron.Schedule, error)
}{
	{"ParseStandard", cron.ParseStandard},
	{"NewParser(Minute|Hour|Dom|Month|Dow)", func(s string) (cron.Schedule, error) {
		return cron.NewParser(cron.Minute | cron.Hour | cron.Dom | cron.Month | cron.Dow).Parse(s)
	}},
	{"NewParser(Minute|Hour|Dom|Month|DowOptional)", func(s string) (cron.Schedule, error) {
		return cron.NewParser(cron.Minute | cron.Hour | cron.Dom | cron.Month | cron.DowOptional).Parse(s)
	}},
	{"NewParser(SecondOptional|...|Descriptor)", func(s string) (cron.Schedule, error) {
		return cron.NewParser(cron.SecondOptional | cron.Minute | cron.Hour | cron.Dom | cron.Month | cron.Dow | cron.Descriptor).Parse(s)
	}},
	{"NewParser(Second|...) with a seconds field", func(s string) (cron.Schedule, error) {
		return cron.NewParser(cron.Second | cron.Minute | cron.Hour | cron.Dom | cron.Month | cron.Dow).Parse("30 " + s)
	}},
	{"cron.New().AddFunc", func(s string) (cron.Schedule, error) {
		c := cron.New()
		id, err := c.AddFunc(s, func() {})
		if err != nil {
			return nil, err
		}
		return c.Entry(id).Schedule, nil
	}},
}

// cronNamesPhase: the goroutines of the phase are released from a spinning
// barrier before every spec, so that they meet each never-seen spelling at the
// same moment. The expectation is independent of any named parse: a named
// spec must mean what its numeric form means, and the numeric form is parsed
// beforehand (numbers never touch the name tables).
func cronNamesPhase(rp roundPlan) {
	rng := mon.NewRNG("cronnames", rp.idx)
	reserved := reservedSpellings()
	_, nBatch := mon.Batch()
	perChild := (plannedRounds + nBatch - 1) / nBatch
	per := len(reserved) / perChild
	if per < 1 {
		per = 1
	}
	if per > 6 {
		per = 6
	}
	k := rp.idx / nBatch // ordinal of this round in its child
	var fresh []reservedName
	for i := k * per; i < (k+1)*per && i < len(reserved); i++ {
		fresh = append(fresh, reserved[i])
	}
	nFresh := len(fresh)
	if nFresh == 0 {
		// the child has used all reserved spellings: keep the phase going with seen ones
		fresh = append(fresh, reserved[rng.Intn(len(reserved))], reserved[rng.Intn(len(reserved))])
	}
	// two fresh spellings per spec (a month and/or day name each)
	var specs []namedSpec
	for i := 0; i < len(fresh); i += 2 {
		j := i + 2
		if j > len(fresh) {
			j = len(fresh)
		}
		specs = append(specs, buildNamedSpec(rng, fresh[i:j]))
	}

	// expectations: the numeric twins, every parser, before any name is parsed
	nP := len(nameParsers)
	expect := make([][]string, len(specs))
	for s, sp := range specs {
		expect[s] = make([]string, nP)
		for p := range nameParsers {
			expect[s][p] = crossResult(nameParsers[p].parse(sp.numeric))
		}
	}

	const G = 12
	var (
		wg      sync.WaitGroup
		arrived atomic.Int32
		gen     atomic.Int32
		got     = make([][]string, G)
	)
	for g := 0; g < G; g++ {
		wg.Add(1)
		got[g] = make([]string, len(specs))
		go func(g int) {
			defer wg.Done()
			p := nameParsers[g%nP]
			for s, sp := range specs {
				arrived.Add(1)
				for i := 0; gen.Load() <= int32(s); i++ {
					if i%32 == 31 {
						runtime.Gosched()
					}
				}
				got[g][s] = crossResult(p.parse(sp.named))
			}
		}(g)
	}
	for s := range specs {
		for arrived.Load() < int32(G*(s+1)) {
			runtime.Gosched()
		}
		gen.Store(int32(s + 1))
	}
	wg.Wait()
	rec.Progress()
	if nFresh > 0 {
		rec.Count("cronnames.fresh_spellings_first_met_by_12_goroutines_at_once", nFresh)
		rec.Count(build+".cronnames.fresh_spellings_first_met_by_12_goroutines_at_once", nFresh)
	}
	for s, sp := range specs {
		for g := 0; g < G; g++ {
			rec.Count("cronnames.named_vs_numeric_checks", 1)
			if got[g][s] != expect[s][g%nP] {
				extra := map[string]any{"round": rp.String(), "build": build, "named": sp.named, "numeric": sp.numeric, "parser": nameParsers[g%nP].name}
				rec.Violation(rp.idx, "cron/named-spec-differs-from-its-numeric-form",
					fmt.Sprintf("%s parsing %q (with %d other goroutines parsing the same never-seen spellings) gave %q; the numeric form %q gave %q", nameParsers[g%nP].name, sp.named, G-1, got[g][s], sp.numeric, expect[s][g%nP]), extra)
				break
			}
		}
	}
}
