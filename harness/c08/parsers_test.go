package c08

import (
	"fmt"
	"strings"
	"sync"
	"time"

	"github.com/dapr/kit/cron"

	"verif/harness/internal/mon"
)

// parserCrossPhase: "separate parsers, same texts". Six parsers with different
// option sets parse the same spec texts; a parser's answer for a text must
// not depend on which other parser saw that text before, on what a caller did
// to a schedule it got back earlier, or on parses running at the same time.
//
// The expectation for (parser B, text) is never taken after another parser has
// parsed the same text in this process. It comes from B's solo parse of an
// EQUIVALENT FRESH TEXT: the same fields separated by a different run of
// blanks and tabs (Parse splits fields with strings.Fields, so the runs are
// immaterial; every text of this phase has a run pattern that no parse of the
// process has seen before, so a package-level table keyed by the text is cold
// for it). Descriptors cannot be respaced ("@daily " is not a descriptor), so
// for them the blanks between the TZ= prefix and the descriptor vary.
var crossParsers = []struct {
	name string
	opts cron.ParseOption // 0: cron.ParseStandard
}{
	{"ParseStandard", 0},
	{"seconds-first", cron.Second | cron.Minute | cron.Hour | cron.Dom | cron.Month | cron.Dow | cron.Descriptor},
	{"SecondOptional", cron.SecondOptional | cron.Minute | cron.Hour | cron.Dom | cron.Month | cron.Dow | cron.Descriptor},
	{"Minute|Hour", cron.Minute | cron.Hour},
	{"Descriptor-only", cron.Descriptor},
	{"DowOptional", cron.Minute | cron.Hour | cron.Dom | cron.Month | cron.DowOptional},
}

func crossParse(p int, text string) (cron.Schedule, error) {
	if crossParsers[p].opts == 0 {
		return cron.ParseStandard(text)
	}
	return cron.NewParser(crossParsers[p].opts).Parse(text)
}

var crossInstants = []time.Time{
	time.Date(2024, 2, 28, 23, 59, 30, 0, time.UTC),
	time.Date(2025, 6, 15, 3, 4, 5, 0, time.UTC),
	time.Date(2026, 12, 31, 12, 0, 0, 0, time.UTC),
}

// answers is the observable meaning of a schedule: its Location and Next at a
// few instants.
func answers(s cron.Schedule) string {
	var b strings.Builder
	switch v := s.(type) {
	case *cron.SpecSchedule:
		fmt.Fprintf(&b, "Loc=%s", v.Location)
	case cron.ConstantDelaySchedule:
		fmt.Fprintf(&b, "every=%s", v.Delay)
	default:
		fmt.Fprintf(&b, "%T", s)
	}
	for _, t := range crossInstants {
		b.WriteString(" " + s.Next(t).Format(time.RFC3339))
	}
	return b.String()
}

func crossResult(s cron.Schedule, err error) string {
	if err != nil {
		return "refused: " + strings.Join(strings.Fields(err.Error()), " ")
	}
	bits := ""
	if v, ok := s.(*cron.SpecSchedule); ok {
		bits = fmt.Sprintf("S:%x M:%x H:%x Dom:%x Mon:%x Dow:%x ", v.Second, v.Minute, v.Hour, v.Dom, v.Month, v.Dow)
	}
	return "accepted: " + bits + answers(s)
}

// logicalSpec is a spec without its spacing.
type logicalSpec struct {
	tz     string   // "" or "TZ=UTC" ...
	fields []string // field texts, or a single descriptor
}

func (l logicalSpec) String() string {
	return strings.TrimSpace(l.tz + " " + strings.Join(l.fields, " "))
}

// text renders l with the spacing pattern number seq (distinct seq, distinct
// text, same fields).
func (l logicalSpec) text(seq int) string {
	var b strings.Builder
	code := seq
	// a gap is 1-5 blanks (one base-5 digit of the number per gap)
	next := func(bool) string {
		g := strings.Repeat(" ", 1+code%5)
		code /= 5
		return g
	}
	if l.tz != "" {
		b.WriteString(l.tz)
		b.WriteString(next(true))
	}
	for i, f := range l.fields {
		if i > 0 {
			b.WriteString(next(false))
		}
		b.WriteString(f)
	}
	// what is left of the number goes into trailing blanks and tabs (ignored by Parse)
	for ; code > 0; code >>= 1 {
		if code&1 == 0 {
			b.WriteByte(' ')
		} else {
			b.WriteByte('\t')
		}
	}
	return b.String()
}

func crossPlan(rp roundPlan) []logicalSpec {
	rng := mon.NewRNG("crossparsers", rp.idx)
	val := func() string {
		switch rng.Intn(5) {
		case 0:
			return "*"
		case 1:
			return fmt.Sprintf("*/%d", rng.Range(2, 5))
		case 2:
			lo := rng.Range(1, 5)
			return fmt.Sprintf("%d-%d", lo, rng.Range(lo, 6))
		}
		return fmt.Sprint(rng.Range(1, 6)) // valid as second, minute, hour, day, month and weekday alike
	}
	tzs := []string{"", "", "TZ=UTC", "CRON_TZ=Asia/Tokyo", "TZ=Etc/GMT+5", "CRON_TZ=America/New_York"}
	var out []logicalSpec
	named := 0
	defer func() { rec.Count("cronparsers.specs_with_names", named) }()
	for _, n := range []int{5, 6, 2, 4, 5} {
		l := logicalSpec{tz: tzs[rng.Intn(len(tzs))]}
		numeric := 0
		for i := 0; i < n; i++ {
			f := val()
			if i < 2 && numeric == i {
				f = fmt.Sprint(rng.Range(1, 6)) // the first two fields are plain numbers: 7 11 means something else to every parser
				numeric++
			}
			l.fields = append(l.fields, f)
		}
		if n >= 5 && rng.Bool() {
			// names where the standard layout has month and day of week (other parsers
			// read these positions differently and must refuse or accept as they do alone)
			l.fields[n-2] = pipelineSpelling(rng, monthNames[rng.Intn(12)])
			lo := rng.Intn(7)
			l.fields[n-1] = pipelineSpelling(rng, dowNames[lo]) + "-" + pipelineSpelling(rng, dowNames[rng.Range(lo, 6)])
			named++
		}
		out = append(out, l)
	}
	for _, d := range []string{rng.PickStr("@daily", "@midnight"), rng.PickStr("@hourly", "@weekly", "@monthly", "@yearly", "@annually"), fmt.Sprintf("@every %dm", rng.Range(1, 300))} {
		out = append(out, logicalSpec{tz: tzs[2+rng.Intn(4)], fields: []string{d}})
	}
	return out
}

// crossTextsSeen: every text the phase has handed out in this process (used by
// the test goroutine only).
var crossTextsSeen = map[string]bool{}

func parserCrossPhase(rp roundPlan) {
	viol := func(sig, msg string, extra map[string]any) {
		extra["round"], extra["build"] = rp.String(), build
		rec.Violation(rp.idx, sig, msg, extra)
	}
	specs := crossPlan(rp)
	nP := len(crossParsers)
	// every text of this phase gets a spacing number of its own; round-unique, so the
	// texts of different rounds of one child differ as well
	seq := rp.idx * 4096
	fresh := func(l logicalSpec) string {
		seq++
		t := l.text(seq)
		if crossTextsSeen[t] {
			rec.Fatalf("separate-parsers phase produced the text %q twice", t)
		}
		crossTextsSeen[t] = true
		return t
	}

	// ---- solo: (parser, spec) on a text nobody else ever parses
	type kept struct {
		p, l   int
		sched  cron.Schedule
		expect string
	}
	solo := make([][]string, nP)
	var retained []kept
	for p := 0; p < nP; p++ {
		solo[p] = make([]string, len(specs))
		for l, ls := range specs {
			s, err := crossParse(p, fresh(ls))
			solo[p][l] = crossResult(s, err)
			rec.Count("cronparsers.solo_results", 1)
			if err == nil {
				rec.Count("cronparsers.solo_accepted", 1)
				retained = append(retained, kept{p, l, s, answers(s)})
			} else {
				rec.Count("cronparsers.solo_refused", 1)
			}
		}
	}
	rec.Progress()

	// ---- (a) cross order on fresh texts: A parses the text, then B parses the same text
	pair := rp.idx * len(specs)
	for l, ls := range specs {
		// all ordered pairs A != B come round over the rounds
		k := (pair + l) % (nP * (nP - 1))
		a, b := k/(nP-1), k%(nP-1)
		if b >= a {
			b++
		}
		text := fresh(ls)
		sa, ea := crossParse(a, text)
		ra := crossResult(sa, ea)
		sb, eb := crossParse(b, text)
		rb := crossResult(sb, eb)
		rec.Count("cronparsers.cross_order_checks", 1)
		rec.Count(build+".cronparsers.cross_order_checks", 1)
		if ra != solo[a][l] {
			viol("cron/parser-result-differs-from-its-solo-result-on-an-equivalent-text",
				fmt.Sprintf("%s parsing %q gave %q, on the equivalent text it parsed alone %q", crossParsers[a].name, text, ra, solo[a][l]), map[string]any{"spec": ls.String()})
		}
		if rb != solo[b][l] {
			viol("cron/parser-result-depends-on-earlier-parse-of-same-text-by-another-parser",
				fmt.Sprintf("%s parsing %q right after %s had parsed the same text gave %q; on an equivalent text that only it ever parsed it gave %q", crossParsers[b].name, text, crossParsers[a].name, rb, solo[b][l]),
				map[string]any{"spec": ls.String(), "first_parser": crossParsers[a].name, "second_parser": crossParsers[b].name, "text": text})
		}
	}

	// ---- (b) the caller changes the schedule it got back; a later parse of the same text is unaffected
	for l, ls := range specs {
		a := (rp.idx + l) % nP
		text := fresh(ls)
		s, err := crossParse(a, text)
		if err != nil {
			continue
		}
		v, ok := s.(*cron.SpecSchedule)
		if !ok {
			continue
		}
		v.Location = time.FixedZone("callers-own", 7*3600+1800)
		v.Minute, v.Hour = 1<<59, 1<<23
		for _, b := range []int{a, (a + 1 + l) % nP} {
			sb, eb := crossParse(b, text)
			rb := crossResult(sb, eb)
			rec.Count("cronparsers.caller_mutation_checks", 1)
			rec.Count(build+".cronparsers.caller_mutation_checks", 1)
			if rb != solo[b][l] {
				viol("cron/parse-result-affected-by-callers-change-to-an-earlier-returned-schedule",
					fmt.Sprintf("%s parsed %q, its caller set Location/Minute/Hour on the *SpecSchedule it got back; %s then parsing the same text gave %q instead of %q", crossParsers[a].name, text, crossParsers[b].name, rb, solo[b][l]),
					map[string]any{"spec": ls.String(), "text": text})
				break
			}
		}
	}

	// ---- (c) descriptors with different TZ prefixes: retained schedules keep their meaning
	descs := []string{"@daily", "@midnight", "@hourly", "@weekly", "@monthly", "@yearly", "@annually"}
	zones := []string{"UTC", "Asia/Tokyo", "Etc/GMT+5", "America/New_York", "Europe/Berlin", "Australia/Sydney"}
	descParsers := []int{0, 1, 2, 4} // the parsers that accept descriptors
	type dkey struct{ z, d int }
	expect := map[dkey]string{}
	for z := range zones {
		for d := range descs {
			s, err := crossParse(0, "TZ="+zones[z]+" "+descs[d])
			if err != nil {
				expect[dkey{z, d}] = "refused: " + err.Error()
				continue
			}
			expect[dkey{z, d}] = answers(s) // queried at once, before any other parse
		}
	}
	requery := func(when string, ks []kept, exp func(kept) string, what func(kept) string) {
		for _, k := range ks {
			rec.Count("cronparsers.retained_schedules_requeried", 1)
			if got := answers(k.sched); got != exp(k) {
				viol("cron/retained-schedule-changed-by-a-later-parse",
					fmt.Sprintf("%s: the schedule %s got from %s now answers %q; when it was returned it answered %q", when, crossParsers[k.p].name, what(k), got, exp(k)),
					map[string]any{"when": when})
				return
			}
		}
	}
	// sequential: one zone after the other, earlier schedules re-queried
	var seqKept []kept
	for i, z := range []int{rp.idx % len(zones), (rp.idx + 1) % len(zones), (rp.idx + 3) % len(zones)} {
		for d := range descs {
			p := descParsers[(i+d)%len(descParsers)]
			if s, err := crossParse(p, "TZ="+zones[z]+" "+descs[d]); err == nil {
				seqKept = append(seqKept, kept{p: p, l: z*100 + d, sched: s})
			}
		}
	}
	descExp := func(k kept) string { return expect[dkey{k.l / 100, k.l % 100}] }
	descWhat := func(k kept) string { return fmt.Sprintf("%q", "TZ="+zones[k.l/100]+" "+descs[k.l%100]) }
	rec.Count(build+".cronparsers.sequential_descriptor_requeries", len(seqKept))
	requery("sequential, after parsing the same descriptors under other TZ prefixes", seqKept, descExp, descWhat)

	// concurrent: one goroutine per (parser, zone), all descriptors, everything retained
	var (
		wg    sync.WaitGroup
		mu    sync.Mutex
		cKept []kept
		start = make(chan struct{})
	)
	for gi := 0; gi < len(descParsers)*len(zones); gi++ {
		wg.Add(1)
		go func(gi int) {
			defer wg.Done()
			p, z := descParsers[gi%len(descParsers)], gi/len(descParsers)
			var mine []kept
			<-start
			for rep := 0; rep < 2; rep++ {
				for dd := range descs {
					d := (dd + gi) % len(descs)
					prefix := "TZ="
					if rep == 1 {
						prefix = "CRON_TZ="
					}
					if s, err := crossParse(p, prefix+zones[z]+" "+descs[d]); err == nil {
						mine = append(mine, kept{p: p, l: z*100 + d, sched: s})
					}
				}
			}
			mu.Lock()
			cKept = append(cKept, mine...)
			mu.Unlock()
		}(gi)
	}
	close(start)
	wg.Wait()
	rec.Progress()
	rec.Count(build+".cronparsers.concurrent_descriptor_requeries", len(cKept))
	requery(fmt.Sprintf("after %d goroutines parsed the descriptors under %d TZ prefixes at once", len(descParsers)*len(zones), len(zones)), cKept, descExp, descWhat)

	// the schedules of the solo step still mean what they meant
	requery("end of the phase", retained, func(k kept) string { return k.expect },
		func(k kept) string { return "an equivalent text of " + fmt.Sprintf("%q", specs[k.l].String()) })
}
