package c08

// zoneNames is a fixed list of IANA time zone names (system tzdata), including the
// fixed-offset Etc/GMT+-N zones. A name that a system lacks simply yields the same
// error alone and concurrently.
var zoneNames = []string{
	"Etc/GMT", "Etc/GMT+0", "Etc/GMT+1", "Etc/GMT+10", "Etc/GMT+11", "Etc/GMT+12", "Etc/GMT+2", "Etc/GMT+3",
	"Etc/GMT+4", "Etc/GMT+5", "Etc/GMT+6", "Etc/GMT+7", "Etc/GMT+8", "Etc/GMT+9", "Etc/GMT-0", "Etc/GMT-1",
	"Etc/GMT-10", "Etc/GMT-11", "Etc/GMT-12", "Etc/GMT-13", "Etc/GMT-14", "Etc/GMT-2", "Etc/GMT-3", "Etc/GMT-4",
	"Etc/GMT-5", "Etc/GMT-6", "Etc/GMT-7", "Etc/GMT-8", "Etc/GMT-9", "Etc/GMT0", "Africa/Bamako",
	"Africa/Cairo", "Africa/Dakar", "Africa/Douala", "Africa/Lagos", "Africa/Lusaka", "Africa/Maputo",
	"Africa/Ndjamena", "Africa/Sao_Tome", "America/Argentina/Buenos_Aires", "America/Argentina/La_Rioja",
	"America/Argentina/Mendoza", "America/Argentina/San_Luis", "America/Bahia", "America/Blanc-Sablon",
	"America/Boa_Vista", "America/Buenos_Aires", "America/Campo_Grande", "America/Cancun", "America/Caracas",
	"America/Cayenne", "America/Coyhaique", "America/Cuiaba", "America/Danmarkshavn", "America/Eirunepe",
	"America/Ensenada", "America/Glace_Bay", "America/Guyana", "America/Indiana/Knox",
	"America/Indiana/Marengo", "America/Indianapolis", "America/Jujuy", "America/Kralendijk", "America/La_Paz",
	"America/Maceio", "America/Managua", "America/Manaus", "America/Mendoza", "America/Merida",
	"America/North_Dakota/Center", "America/North_Dakota/New_Salem", "America/Phoenix", "America/Regina",
	"America/Santa_Isabel", "America/Santarem", "America/Santiago", "America/Shiprock", "America/Thule",
	"America/Thunder_Bay", "America/Tijuana", "America/Tortola", "America/Virgin", "Antarctica/Mawson",
	"Antarctica/Syowa", "Antarctica/Troll", "Asia/Anadyr", "Asia/Aqtau", "Asia/Calcutta", "Asia/Chungking",
	"Asia/Dacca", "Asia/Dhaka", "Asia/Dushanbe", "Asia/Hong_Kong", "Asia/Irkutsk", "Asia/Istanbul",
	"Asia/Karachi", "Asia/Krasnoyarsk", "Asia/Novokuznetsk", "Asia/Oral", "Asia/Riyadh", "Asia/Tel_Aviv",
	"Asia/Vientiane", "Atlantic/Bermuda", "Atlantic/Faeroe", "Atlantic/Stanley", "Australia/Darwin",
	"Australia/Melbourne", "Australia/North", "Brazil/West", "Canada/Mountain", "Chile/Continental", "Cuba",
	"EST", "Eire", "Europe/Amsterdam", "Europe/Athens", "Europe/Bratislava", "Europe/Gibraltar",
	"Europe/Isle_of_Man", "Europe/Jersey", "Europe/Kaliningrad", "Europe/Lisbon", "Europe/Nicosia",
	"Europe/Prague", "Europe/Sarajevo", "Europe/Saratov", "Europe/Simferopol", "Europe/Sofia",
	"Europe/Ulyanovsk", "Europe/Vienna", "Europe/Volgograd", "GMT0", "Greenwich", "Hongkong", "Indian/Chagos",
	"Indian/Comoro", "Indian/Maldives", "MST7MDT", "Mexico/BajaNorte", "Mexico/BajaSur", "Mexico/General", "NZ",
	"Pacific/Chuuk", "Pacific/Enderbury", "Pacific/Fakaofo", "Pacific/Guam", "Pacific/Kanton", "Pacific/Kosrae",
	"Pacific/Marquesas", "Pacific/Niue", "Pacific/Noumea", "Pacific/Pohnpei", "Pacific/Wake", "US/Aleutian",
	"US/Michigan",
}
