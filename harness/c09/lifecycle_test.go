package c09

import (
	"context"
	"fmt"
	"strings"
	"testing"
	"time"

	"github.com/dapr/kit/events/ratelimiting"

	"verif/harness/internal/mon"
)

// runLifecycle: the limiter's life-cycle calls in orders a start-up racing a shutdown produces:
// Close before Run, Run on a closed limiter, Close called again (an explicit Close plus a deferred
// one, two owners), Add before Run or after Close, a second Run, the context ended before Run. The
// statement's clause is "Close returns only when all helper goroutines have finished" - and so it
// does return once they have: at the end the context is cancelled, every window has run out, and
// then every Close call (the ones of the sequence and one issued last) and every Run call must have
// returned, with no goroutine left parked inside the limiter. Signals never exceed Adds.
func runLifecycle(t *testing.T, idx int, rng *mon.RNG) {
	c := genCfg(rng)
	kinds := []string{"close", "run", "add", "close", "run", "cancel", "sleep", "add"}
	n := rng.Range(2, 6)
	var seq []string
	// the first two steps come from a fixed rotation so that every opening pair is planned
	openers := [][]string{{"close", "run"}, {"close", "run", "close"}, {"add", "close", "run"}, {"run", "close", "close"}, {"cancel", "run", "close"}, {"close", "close", "run"}, {"run", "run", "close"}, {"close", "add", "run"}}
	seq = append(seq, openers[idx%len(openers)]...)
	for i := 0; i < n; i++ {
		seq = append(seq, kinds[rng.Intn(len(kinds))])
	}
	w := &world{idx: idx, mode: "lifecycle", c: c}
	desc := "lifecycle " + c.String() + " " + strings.Join(seq, ",")
	rec.Begin(idx, desc)
	var cand string
	res := mon.Bubble(t, func() {
		rl, err := ratelimiting.NewCoalescing(c.opts())
		if err != nil {
			rec.Fatalf("NewCoalescing(%v): %v", c, err)
		}
		ch := make(chan struct{})
		stopCon := make(chan struct{})
		conDone := make(chan struct{})
		signals := 0
		go func() {
			defer close(conDone)
			for {
				select {
				case <-ch:
					signals++
				case <-stopCon:
					return
				}
			}
		}()
		ctx, cancel := context.WithCancel(context.Background())
		defer cancel()
		var closes, runs []chan struct{}
		adds, closedAlready, runAfterClose, closeAgain := 0, false, false, false
		doClose := func() {
			d := make(chan struct{})
			closes = append(closes, d)
			go func() { rl.Close(); close(d) }()
		}
		for _, s := range seq {
			w.step(s)
			switch s {
			case "close":
				if closedAlready {
					closeAgain = true
				}
				closedAlready = true
				doClose()
			case "run":
				if closedAlready {
					runAfterClose = true
				}
				d := make(chan struct{})
				runs = append(runs, d)
				go func() { rl.Run(ctx, ch); close(d) }()
			case "add":
				rl.Add()
				adds++
			case "cancel":
				cancel()
			case "sleep":
				time.Sleep(c.Initial)
			}
			mon.Quiesce()
		}
		cancel()
		mon.Quiesce()
		time.Sleep(3 * c.Max)
		mon.Quiesce()
		w.step("close(last)")
		doClose()
		q := mon.Quiesce()
		if q.OK && q.MutexBlocked == 0 {
			time.Sleep(3 * c.Max)
			q = mon.Quiesce()
		}
		for i, d := range closes {
			select {
			case <-d:
			default:
				cand = fmt.Sprintf("Close call #%d of %d did not return although the context is cancelled and every window has run out: quiescent=%v mutexBlocked=%d frames=%v", i+1, len(closes), q.OK, q.MutexBlocked, q.MutexFrames)
			}
		}
		for i, d := range runs {
			select {
			case <-d:
			default:
				if cand == "" {
					cand = fmt.Sprintf("Run call #%d of %d did not return after cancel and Close", i+1, len(runs))
				}
			}
		}
		if cand != "" {
			reportShutdownWedge(w, "lifecycle", cand)
			return
		}
		var left []string
		for _, g := range mon.BlockedIn("events/ratelimiting.(*coalescing)") {
			left = append(left, "["+g.State+"] "+g.KitFrame())
		}
		if len(left) > 0 {
			w.violation("close-returned-with-helpers-running/lifecycle", fmt.Sprintf("every Close call returned while goroutines of the limiter were still parked inside it: %v", left))
		}
		close(stopCon)
		<-conDone
		if signals > adds {
			w.violation("more-signals-than-adds/lifecycle", fmt.Sprintf("%d signals for %d Adds", signals, adds))
		}
		rec.Count("lifecycle.sequences_completed", 1)
		if runAfterClose {
			rec.Count("lifecycle.run_on_closed_limiter", 1)
		}
		if closeAgain {
			rec.Count("lifecycle.close_called_again", 1)
		}
		if runAfterClose && closeAgain {
			rec.Count("lifecycle.close_again_after_run_on_closed", 1)
		}
	})
	if cand != "" {
		res.Deadlock = ""
	}
	if res.Deadlock != "" {
		w.violation("bubble-deadlock-or-leak/lifecycle", res.Deadlock+"; goroutines left: "+strings.Join(res.Stacks, " || "))
	} else if res.Panic != "" {
		w.violation("panic/lifecycle", res.Panic)
	}
	rec.Case(idx, desc, true)
}
