package c09

import (
	"context"
	"fmt"
	"runtime"
	"testing"
	"testing/synctest"
	"time"

	clocktesting "k8s.io/utils/clock/testing"

	"github.com/dapr/kit/events/ratelimiting"
	"github.com/dapr/kit/ptr"

	"verif/harness/internal/mon"
)

// runFakeClock: the limiter is given an injected clock (the unit-tagged WithTicker hook kit's own
// tests use; k8s FakeClock, whose timers - unlike the runtime's since Go 1.23 - can report
// Stop() == false with a tick still queued). Inside a bubble, k Adds and one clock step that ends the
// open quiet window are released at the same instant from separate goroutines, so the run loop finds
// the timer tick and the input both ready and takes either first. Whatever the order: every Add is
// followed by a signal (no Add lost), signals never exceed Adds. Quiescence is exact (synctest.Wait);
// the fake clock is only stepped while it has waiters.
func runFakeClock(t *testing.T, idx int, rng *mon.RNG) {
	nAdds := rng.Range(1, 3)
	stepBy := []time.Duration{time.Second, time.Second - time.Millisecond, time.Second + time.Millisecond, 2 * time.Second}[rng.Intn(4)]
	yields := rng.Intn(4)
	w := &world{idx: idx, mode: "fakeclock", c: cfg{Initial: time.Second, Max: 5 * time.Second}}
	desc := fmt.Sprintf("fakeclock racingAdds=%d step=%v yields=%d", nAdds, stepBy, yields)
	rec.Begin(idx, desc)
	res := mon.Bubble(t, func() {
		clk := clocktesting.NewFakeClock(time.Now())
		rl, err := ratelimiting.NewCoalescing(ratelimiting.OptionsCoalescing{InitialDelay: ptr.Of(time.Second), MaxDelay: ptr.Of(5 * time.Second)})
		if err != nil {
			w.violation("fakeclock/new", err.Error())
			return
		}
		rl.(ratelimiting.RateLimiterWithTicker).WithTicker(clk)
		ch := make(chan struct{})
		ctx, cancel := context.WithCancel(context.Background())
		defer cancel()
		runDone := make(chan error, 1)
		go func() { runDone <- rl.Run(ctx, ch) }()
		synctest.Wait()
		signals, adds := 0, 0
		drain := func() {
			for {
				synctest.Wait()
				select {
				case <-ch:
					signals++
					continue
				default:
				}
				return
			}
		}
		rl.Add()
		adds++
		drain()
		if signals != 1 {
			w.violation("fakeclock/first-add-not-signalled", fmt.Sprintf("the first Add after idle produced %d signals", signals))
			return
		}
		if !clk.HasWaiters() {
			w.violation("fakeclock/no-window-timer", "no quiet-window timer is armed after the first Add")
			return
		}
		start := make(chan struct{})
		done := make(chan struct{}, nAdds+1)
		go func() {
			<-start
			for i := 0; i < yields; i++ {
				runtime.Gosched()
			}
			clk.Step(stepBy)
			done <- struct{}{}
		}()
		for i := 0; i < nAdds; i++ {
			go func() {
				<-start
				rl.Add()
				done <- struct{}{}
			}()
			adds++
		}
		close(start)
		for i := 0; i < nAdds+1; i++ {
			<-done
		}
		before := signals
		// let every open window run out
		for round := 0; round < 20; round++ {
			drain()
			if !clk.HasWaiters() {
				break
			}
			clk.Step(10 * time.Second)
		}
		drain()
		if signals == before {
			w.violation("fakeclock/add-lost-at-window-end", fmt.Sprintf("%d Adds raced the end of the quiet window (clock stepped by %v at the same instant); afterwards every window has run out and no further signal came: those Adds were never signalled", nAdds, stepBy))
			return
		}
		if signals > adds {
			w.violation("fakeclock/more-signals-than-adds", fmt.Sprintf("%d signals for %d Adds", signals, adds))
			return
		}
		rec.Count("fakeclock.adds_racing_window_end_signalled", 1)
		rl.Close()
		synctest.Wait()
		select {
		case <-runDone:
		default:
			w.violation("fakeclock/run-did-not-return", "Run did not return after Close")
		}
	})
	if res.Deadlock != "" {
		w.violation("bubble-deadlock-or-leak/fakeclock", res.Deadlock)
	} else if res.Panic != "" {
		w.violation("panic/fakeclock", res.Panic)
	}
	rec.Case(idx, desc, true)
}
