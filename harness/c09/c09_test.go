// Package c09 monitors property C09 (coalescing rate limiter: no Add lost,
// bursts collapse, signals never exceed Adds, Close/cancel are clean).
package c09

import (
	"context"
	"fmt"
	"sort"
	"strings"
	"sync"
	"sync/atomic"
	"testing"
	"testing/synctest"
	"time"

	"github.com/dapr/kit/events/ratelimiting"

	"verif/harness/internal/mon"
)

var rec *mon.Rec

type cfg struct {
	Initial, Max time.Duration
	MaxPending   int // 0 = unset
}

func (c cfg) String() string {
	return fmt.Sprintf("initial=%v max=%v cap=%d", c.Initial, c.Max, c.MaxPending)
}

func (c cfg) opts() ratelimiting.OptionsCoalescing {
	o := ratelimiting.OptionsCoalescing{InitialDelay: &c.Initial, MaxDelay: &c.Max}
	if c.MaxPending > 0 {
		mp := c.MaxPending
		o.MaxPendingEvents = &mp
	}
	return o
}

func genCfg(rng *mon.RNG) cfg {
	ini := []time.Duration{time.Millisecond, 10 * time.Millisecond, 500 * time.Millisecond, time.Second, 5 * time.Second}[rng.Intn(5)]
	mul := []int{1, 2, 3, 8, 100}[rng.Intn(5)]
	return cfg{Initial: ini, Max: ini * time.Duration(mul), MaxPending: rng.Intn(5)}
}

// ---- reference automaton of the statement (deterministic in lock-step mode)

type ref struct {
	c       cfg
	idle    bool
	end     time.Time
	cur     time.Duration
	factor  int
	pending int
	signals []time.Time
}

func newRef(c cfg) *ref { return &ref{c: c, idle: true} }

// advance processes a window end that lies at or before now.
func (r *ref) advance(now time.Time) {
	if !r.idle && !r.end.After(now) {
		if r.pending > 0 {
			r.signals = append(r.signals, r.end)
		}
		r.idle, r.pending = true, 0
	}
}

func (r *ref) add(now time.Time) {
	r.advance(now)
	if r.idle {
		r.signals = append(r.signals, now)
		r.idle, r.cur, r.factor, r.pending = false, r.c.Initial, 1, 0
		r.end = now.Add(r.c.Initial)
		return
	}
	r.pending++
	if r.c.MaxPending > 0 && r.pending >= r.c.MaxPending {
		r.signals = append(r.signals, now)
		r.pending = 0
		return
	}
	if r.cur < r.c.Max {
		r.factor *= 2
		r.cur = r.c.Initial * time.Duration(r.factor)
		if r.cur > r.c.Max {
			r.cur = r.c.Max
		}
	}
	r.end = now.Add(r.cur)
}

// ---- world: the real limiter + recorded events

type sig struct {
	t     time.Time
	stamp int64
}
type addRec struct {
	t         time.Time
	call, ret int64
}

type world struct {
	idx     int
	mode    string
	c       cfg
	rl      ratelimiting.RateLimiter
	clk     atomic.Int64
	mu      sync.Mutex
	sigs    []sig
	adds    []addRec
	steps   []string
	ch      chan struct{}
	stopCon chan struct{}
	conDone chan struct{}
	runDone chan error
	cancel  context.CancelFunc
	endAt   time.Time // instant of Close/cancel (zero: not yet)
	viol    bool

	armHook  string
	armN     int
	parked   atomic.Bool
	resume   chan struct{}
	slowGate chan struct{} // non-nil: the consumer waits for a token before each receive
	drained  bool          // a slow consumer was handed enough tokens to receive everything that is pending
	onSignal func(k int)   // called by the consumer right after it received its k-th signal (a consumer that reacts)
}

func (w *world) stamp() int64 { return w.clk.Add(1) }

func (w *world) sigsSnapshot() []sig {
	w.mu.Lock()
	defer w.mu.Unlock()
	return append([]sig{}, w.sigs...)
}
func (w *world) step(s string) {
	w.steps = append(w.steps, s)
	rec.Progress()
}

func (w *world) hook(name string) {
	rec.Count("hook."+name, 1)
	w.mu.Lock()
	park := false
	if name == w.armHook {
		w.armN--
		if w.armN <= 0 {
			w.armHook = ""
			park = true
		}
	}
	w.mu.Unlock()
	if park {
		rec.Count("park."+name, 1)
		w.parked.Store(true)
		<-w.resume
	}
}

func (w *world) start() {
	rl, err := ratelimiting.NewCoalescing(w.c.opts())
	if err != nil {
		rec.Fatalf("NewCoalescing(%v): %v", w.c, err)
	}
	w.rl = rl
	w.ch = make(chan struct{})
	w.stopCon = make(chan struct{})
	w.conDone = make(chan struct{})
	w.runDone = make(chan error, 1)
	w.resume = make(chan struct{})
	ctx, cancel := context.WithCancel(context.Background())
	w.cancel = cancel
	go func() { w.runDone <- rl.Run(ctx, w.ch) }()
	go func() {
		defer close(w.conDone)
		for {
			if g := w.slowGate; g != nil {
				select {
				case <-g:
				case <-w.stopCon:
					return
				}
			}
			select {
			case <-w.ch:
				w.mu.Lock()
				w.sigs = append(w.sigs, sig{time.Now(), w.stamp()})
				k := len(w.sigs)
				w.mu.Unlock()
				if w.onSignal != nil {
					w.onSignal(k)
				}
			case <-w.stopCon:
				return
			}
		}
	}()
}

func (w *world) add() {
	w.mu.Lock()
	a := addRec{t: time.Now(), call: w.stamp()}
	w.mu.Unlock()
	w.rl.Add()
	w.mu.Lock()
	a.ret = w.stamp()
	w.adds = append(w.adds, a)
	w.mu.Unlock()
}

func (w *world) violation(sigName, msg string) {
	w.viol = true
	rec.Violation(w.idx, sigName, msg, map[string]any{"mode": w.mode, "config": w.c.String(), "steps": w.steps, "events": w.dump()})
}

func (w *world) dump() []string {
	w.mu.Lock()
	defer w.mu.Unlock()
	var out []string
	for _, a := range w.adds {
		out = append(out, fmt.Sprintf("add t=%s call=%d ret=%d", a.t.Format("04:05.000000000"), a.call, a.ret))
	}
	for _, s := range w.sigs {
		out = append(out, fmt.Sprintf("signal t=%s stamp=%d", s.t.Format("04:05.000000000"), s.stamp))
	}
	if !w.endAt.IsZero() {
		out = append(out, "end(close/cancel) t="+w.endAt.Format("04:05.000000000"))
	}
	return out
}

// invariants: the statement's clauses that hold for every interleaving.
// quiet: the workload has stopped and at least 2*MaxDelay of virtual time has
// passed (or the limiter was closed/cancelled at endAt).
func (w *world) invariants(promptConsumer bool) {
	w.mu.Lock()
	adds := append([]addRec{}, w.adds...)
	sigs := append([]sig{}, w.sigs...)
	endAt := w.endAt
	w.mu.Unlock()
	now := time.Now()
	sort.Slice(adds, func(i, j int) bool { return adds[i].call < adds[j].call })
	// (1) signals never exceed Adds, at every prefix of the logical clock
	for k, s := range sigs {
		n := 0
		for _, a := range adds {
			if a.call < s.stamp {
				n++
			}
		}
		if k+1 > n {
			w.violation("signals-exceed-adds/"+w.mode, fmt.Sprintf("signal #%d was received when only %d Add calls had been made", k+1, n))
			return
		}
	}
	if len(adds) == 0 {
		return
	}
	// (2) bounded progress / no Add lost
	times := make([]time.Time, len(adds))
	for i, a := range adds {
		times[i] = a.t
	}
	sort.Slice(times, func(i, j int) bool { return times[i].Before(times[j]) })
	for i, t := range times {
		j := i
		for j+1 < len(times) && times[j+1].Sub(times[j]) <= w.c.Max {
			j++
		}
		deadline := times[j].Add(w.c.Max)
		if !endAt.IsZero() && !deadline.Before(endAt) {
			continue // closed / cancelled before the deadline: nothing more is owed
		}
		if !deadline.Before(now) {
			continue // the deadline has not passed yet (a timer firing at this very instant may still be in flight)
		}
		if !promptConsumer {
			continue
		}
		ok := false
		for _, s := range sigs {
			if !s.t.Before(t) && !s.t.After(deadline) {
				ok = true
				break
			}
		}
		if !ok {
			w.violation("add-lost/"+w.mode, fmt.Sprintf("Add at %s: no signal in [%s, %s] (last Add of its chain + MaxDelay)", t.Format("04:05.000000000"), t.Format("04:05.000000000"), deadline.Format("04:05.000000000")))
			return
		}
	}
	// (3) the last Add is followed by a signal (logical clock), unless closed before its deadline
	last := adds[len(adds)-1]
	lastDeadline := times[len(times)-1].Add(w.c.Max)
	if (promptConsumer || w.drained) && (endAt.IsZero() || lastDeadline.Before(endAt)) && lastDeadline.Before(now) {
		ok := false
		for _, s := range sigs {
			if s.stamp > last.call {
				ok = true
			}
		}
		if !ok {
			w.violation("last-add-lost/"+w.mode, "no signal was received after the last Add although the limiter kept running past its quiet window")
		}
	}
}

// shutdown closes the limiter (or cancels its context), and checks that Run
// and Close return and that nothing is left behind. quiesce tolerates mutex
// waits so that a lock deadlock is seen as a state, not as a hang.
func (w *world) shutdown(how string) (candidate string) {
	w.mu.Lock()
	w.endAt = time.Now()
	w.mu.Unlock()
	if how == "cancel" {
		w.cancel()
		// Close is still required to wait for the helpers; let Run notice the cancellation first
		mon.Quiesce()
	}
	// two overlapping Close calls: "Close returns only when all helper goroutines have finished"
	// holds for every caller. Right after its Close returned each caller looks for goroutines that
	// are still parked inside the limiter.
	const nclose = 2
	closeDone := make(chan []string, nclose)
	for i := 0; i < nclose; i++ {
		go func() {
			w.rl.Close()
			var left []string
			for _, g := range mon.BlockedIn("events/ratelimiting.(*coalescing)") {
				if kf := g.KitFrame(); strings.HasSuffix(kf, ".Close") || strings.HasSuffix(kf, ".Add") {
					continue // a client call in progress (the other, overlapping Close; a racing Add), not a helper
				}
				left = append(left, "["+g.State+"] "+g.KitFrame())
			}
			closeDone <- left
		}()
	}
	q := mon.Quiesce()
	if q.OK && q.MutexBlocked == 0 && len(closeDone) < nclose {
		// nobody waits on a mutex, so virtual time can move: give timers a chance
		time.Sleep(3 * w.c.Max)
		q = mon.Quiesce()
	}
	if len(closeDone) < nclose {
		return fmt.Sprintf("Close did not return (%d of %d overlapping calls returned): quiescent=%v mutexBlocked=%d frames=%v", len(closeDone), nclose, q.OK, q.MutexBlocked, q.MutexFrames)
	}
	for i := 0; i < nclose; i++ {
		if left := <-closeDone; len(left) > 0 {
			w.violation("close-returned-with-helpers-running/"+w.mode, fmt.Sprintf("a Close call returned while goroutines of the limiter were still parked inside it: %v", left))
		}
	}
	rec.Count("shutdown.overlapping_close_calls_checked", nclose)
	select {
	case <-w.runDone:
	default:
		return "Run did not return after " + how
	}
	w.cancel()
	close(w.stopCon)
	<-w.conDone
	return ""
}

// ---- plans

type plan struct {
	mode string
	desc string
	hook string
	n    int
	acts []string
}

var hookNames = []string{"loop.top", "input.recv", "timer.recv"}
var placedActs = [][]string{{"add"}, {"close"}, {"cancel"}, {"add", "close"}, {"close", "add"}, {"add", "cancel"}, {"add", "add"}, {"cancel", "close"}}

func plans() []plan {
	var ps []plan
	for _, h := range hookNames {
		for n := 1; n <= 3; n++ {
			for _, a := range placedActs {
				for rep := 0; rep < mon.Pick(2, 12); rep++ {
					ps = append(ps, plan{mode: "directed", hook: h, n: n, acts: a, desc: fmt.Sprintf("%s#%d+%s", h, n, strings.Join(a, ","))})
				}
			}
		}
	}
	for i := 0; i < mon.Pick(2500, 120000); i++ {
		ps = append(ps, plan{mode: "lockstep"})
	}
	for i := 0; i < mon.Pick(800, 40000); i++ {
		ps = append(ps, plan{mode: "racing"})
	}
	for i := 0; i < mon.Pick(60, 2000); i++ {
		ps = append(ps, plan{mode: "longchain"})
	}
	for i := 0; i < mon.Pick(400, 20000); i++ {
		ps = append(ps, plan{mode: "fakeclock"})
	}
	for i := 0; i < mon.Pick(320, 16000); i++ {
		ps = append(ps, plan{mode: "lifecycle"})
	}
	for i := 0; i < mon.Pick(240, 12000); i++ {
		ps = append(ps, plan{mode: "feedback"})
	}
	return ps
}

func TestCheck(t *testing.T) {
	rec = mon.Open("C09")
	defer rec.Close()
	rec.Note("rule", "a case is one timeline against the real limiter in a synctest bubble: (lockstep) seeded Add/burst/sleep sequences with sleeps to just before, exactly at and just after the reference window end, compared signal-for-signal with the statement's automaton; (racing) bursts from 2-8 goroutines at shared virtual instants with a prompt or slow consumer, ended by Close or cancel at a seeded instant, judged by the conservation and bounded-progress invariants; (directed) the run loop parked at loop.top / input.recv / timer.recv while Add / Close / cancel are issued. (longchain) long runs of Adds across many windows; (fakeclock) the limiter on a fake clock that is only stepped while it has waiters, tick and input both ready; (lifecycle) Close before Run, Run called a second time on a live limiter, Close repeated and overlapping, cancel then Close: every Run and Close call returns and nothing stays parked inside the limiter; (feedback) a consumer that answers each signal with an Add - slow, or prompt with a pending-events cap of 1 (ping-pong: 1+n signals for 1+n Adds), the run loop optionally parked at loop.top, half of the cases on one P. Non-trivial = at least two Adds or a placed operation; distinct = distinct (config, step list).")
	rec.Note("require", []string{"park.loop.top", "park.input.recv", "park.timer.recv", "lockstep.signals_matched", "lockstep.window_end_exact", "lockstep.cap_fired", "racing.adds", "longchain.adds_in_one_window", "racing.shutdown_with_undelivered_signals", "lockstep.burst_owed_signal", "shutdown.close", "shutdown.cancel", "shutdown.overlapping_close_calls_checked", "directed.close_while_parked", "fakeclock.adds_racing_window_end_signalled", "lifecycle.run_on_closed_limiter", "lifecycle.close_called_again", "lifecycle.close_again_after_run_on_closed", "feedback.add_right_after_a_late_receive", "pingpong.chains_completed_in_one_instant", "pingpong.opening_adds_while_loop_busy", "lockstep.second_run_call_returned"})
	ps := plans()
	rec.Planned(len(ps))
	for idx, pl := range ps {
		if !mon.Mine(idx) {
			continue
		}
		rng := mon.NewRNG("c09", idx)
		switch pl.mode {
		case "lockstep":
			runLockstep(t, idx, rng, false)
		case "longchain":
			runLockstep(t, idx, rng, true)
		case "racing":
			runRacing(t, idx, rng)
		case "directed":
			runDirected(t, idx, rng, pl)
		case "fakeclock":
			runFakeClock(t, idx, rng)
		case "lifecycle":
			runLifecycle(t, idx, rng)
		case "feedback":
			runFeedback(t, idx, rng)
		}
	}
}

func finish(idx int, w *world, res mon.BubbleResult, nontrivial bool) {
	if res.Deadlock != "" {
		w.violation("bubble-deadlock-or-leak/"+w.mode, res.Deadlock+"; goroutines left: "+strings.Join(res.Stacks, " || "))
	} else if res.Panic != "" {
		w.violation("panic/"+w.mode, res.Panic)
	}
	rec.Case(idx, w.c.String()+" "+strings.Join(w.steps, " "), nontrivial)
	if rec.WantSample() && nontrivial && idx%3 == 0 {
		rec.Sample(map[string]any{"mode": w.mode, "config": w.c.String(), "steps": w.steps, "events": w.dump()})
	}
}

// runLockstep: longChain = one window kept open by 70-140 waited Adds (the window must stay at
// MaxDelay however long events keep arriving; no pending-events cap in that mode).
func runLockstep(t *testing.T, idx int, rng *mon.RNG, longChain bool) {
	c := genCfg(rng)
	mode := "lockstep"
	if longChain {
		mode = "longchain"
		c.MaxPending = 0
	}
	rec.Begin(idx, mode+" "+c.String())
	w := &world{idx: idx, mode: mode, c: c}
	r := newRef(c)
	res := mon.Bubble(t, func() {
		h := w.hook
		ratelimiting.VerifHook.Store(&h)
		defer ratelimiting.VerifHook.Store(nil)
		w.start()
		synctest.Wait()
		compare := func() bool {
			r.advance(time.Now())
			w.mu.Lock()
			got := append([]sig{}, w.sigs...)
			w.mu.Unlock()
			if len(got) != len(r.signals) {
				w.violation("lockstep/signal-count", fmt.Sprintf("after %d steps the reference automaton has %d signals, the limiter produced %d (reference %v)", len(w.steps), len(r.signals), len(got), fmtTimes(r.signals)))
				return false
			}
			for i := range got {
				if !got[i].t.Equal(r.signals[i]) {
					w.violation("lockstep/signal-instant", fmt.Sprintf("signal #%d at %s, reference %s", i+1, got[i].t.Format("04:05.000000000"), r.signals[i].Format("04:05.000000000")))
					return false
				}
			}
			return true
		}
		nsteps := rng.Range(3, 30)
		if longChain {
			nsteps = rng.Range(70, 140)
		}
		for s := 0; s < nsteps && !w.viol; s++ {
			k := rng.Intn(11)
			if longChain {
				// alternate Add and a sleep shorter than the current window, so the chain never breaks
				if s%2 == 0 {
					k = 0
				} else {
					r.advance(time.Now())
					d := c.Initial / 2
					if !r.idle {
						if rem := r.end.Sub(time.Now()); rem > 2 {
							d = time.Duration(1 + rng.Intn(int(rem-1)))
						} else {
							d = 0
						}
					}
					if d > 0 {
						w.step("sleep " + d.String())
						time.Sleep(d)
						synctest.Wait()
						compare()
					}
					rec.Count("longchain.adds_in_one_window", 1)
					continue
				}
			}
			if !longChain && rng.Chance(1, 8) {
				// somebody calls Run again on the running limiter (a second owner, a restart path that does not
				// know better): whatever it answers, the limiter that is running keeps doing its job
				w.step("second Run call")
				d := make(chan error, 1)
				go func() { d <- w.rl.Run(context.Background(), make(chan struct{})) }()
				synctest.Wait()
				select {
				case <-d:
					rec.Count("lockstep.second_run_call_returned", 1)
				default:
					rec.Count("lockstep.observed.second_run_call_blocks", 1)
				}
				if !compare() {
					break
				}
			}
			switch {
			case k == 10:
				// un-waited burst: n Adds back to back from one goroutine (or from n goroutines), the run
				// loop handles them as it pleases. Whatever the interleaving, if the burst starts from
				// idle, or the Adds pending before it plus the burst reach the cap, a signal is owed at
				// this very instant. Afterwards the reference is re-synchronised at an idle point.
				r.advance(time.Now())
				n := rng.Range(2, 6)
				owed := r.idle || (c.MaxPending > 0 && r.pending+n >= c.MaxPending)
				before := len(w.sigsSnapshot())
				parallel := rng.Bool()
				w.step(fmt.Sprintf("burst x%d parallel=%v", n, parallel))
				if parallel {
					var bw sync.WaitGroup
					for i := 0; i < n; i++ {
						bw.Add(1)
						go func() { defer bw.Done(); w.add() }()
					}
					bw.Wait()
				} else {
					for i := 0; i < n; i++ {
						w.add()
					}
				}
				synctest.Wait()
				got := w.sigsSnapshot()
				if owed {
					rec.Count("lockstep.burst_owed_signal", 1)
					if len(got) == before {
						why := "the limiter was idle"
						if !r.idle {
							why = fmt.Sprintf("%d Adds were pending and the burst of %d reaches the cap of %d", r.pending, n, c.MaxPending)
						}
						w.violation("lockstep/burst-no-immediate-signal", "a burst of "+fmt.Sprint(n)+" un-waited Adds produced no signal at its own instant although "+why)
						break
					}
				}
				if len(got)-before > n {
					w.violation("signals-exceed-adds/burst", fmt.Sprintf("a burst of %d Adds produced %d signals", n, len(got)-before))
					break
				}
				// let the window(s) run out, then the limiter is idle again whatever the interleaving was
				time.Sleep(time.Duration(n+2)*c.Max + 1)
				synctest.Wait()
				w.invariants(true)
				got = w.sigsSnapshot()
				r.idle, r.pending = true, 0
				r.signals = r.signals[:0]
				for _, g := range got {
					r.signals = append(r.signals, g.t)
				}
			case k < 5:
				n := 1
				if rng.Chance(1, 3) && !longChain {
					n = rng.Range(2, 5)
				}
				for i := 0; i < n; i++ {
					w.step("add")
					before := len(r.signals)
					wasIdle := r.idle || !r.end.After(time.Now())
					r.add(time.Now())
					if len(r.signals) > before && !wasIdle {
						rec.Count("lockstep.cap_fired", 1)
					}
					w.add()
					synctest.Wait()
					if !compare() {
						break
					}
				}
			default:
				var d time.Duration
				r.advance(time.Now())
				rem := c.Initial
				if !r.idle {
					rem = r.end.Sub(time.Now())
				}
				switch rng.Intn(8) {
				case 0:
					d = 1
				case 1:
					d = c.Initial / 2
				case 2:
					d = rem
					if !r.idle && rem > 0 {
						rec.Count("lockstep.window_end_exact", 1)
					}
				case 3:
					d = rem - 1
				case 4:
					d = rem + 1
				case 5:
					d = c.Max
				case 6:
					d = 2*c.Max + 1
				default:
					d = time.Duration(rng.Intn(int(c.Max) + 1))
				}
				if d <= 0 {
					d = 1
				}
				w.step("sleep " + d.String())
				time.Sleep(d)
				synctest.Wait()
				compare()
			}
		}
		if !w.viol {
			time.Sleep(2*c.Max + 1)
			synctest.Wait()
			if compare() {
				rec.Count("lockstep.signals_matched", len(r.signals))
			}
			w.invariants(true)
		}
		how := "close"
		if rng.Bool() {
			how = "cancel"
		}
		rec.Count("shutdown."+how, 1)
		w.step(how)
		if cand := w.shutdown(how); cand != "" {
			reportShutdownWedge(w, "lockstep-shutdown/"+how, cand)
			w.unstick()
		}
	})
	finish(idx, w, res, len(w.adds) >= 2)
}

func fmtTimes(ts []time.Time) []string {
	var out []string
	for _, t := range ts {
		out = append(out, t.Format("04:05.000000000"))
	}
	return out
}

// unstick lets a wedged bubble end (only after a violation/inconclusive was recorded).
func (w *world) unstick() {
	w.cancel()
	if w.parked.Load() {
		w.parked.Store(false)
		w.resume <- struct{}{}
	}
	select {
	case <-w.stopCon:
	default:
		close(w.stopCon)
	}
}

func runRacing(t *testing.T, idx int, rng *mon.RNG) {
	c := genCfg(rng)
	ng := rng.Range(2, 8)
	slow := rng.Chance(1, 3)
	how := rng.PickStr("close", "cancel")
	grid := []time.Duration{0, c.Initial / 2, c.Initial, c.Initial + 1, 2 * c.Initial, 3 * c.Initial, c.Max, c.Max + c.Initial}
	type ev struct {
		at time.Duration
		n  int
	}
	sched := make([][]ev, ng)
	total := 0
	var horizon time.Duration
	for g := range sched {
		for k := rng.Range(1, 4); k > 0; k-- {
			e := ev{grid[rng.Intn(len(grid))] + time.Duration(rng.Intn(3))*c.Max, rng.Range(1, 3)}
			sched[g] = append(sched[g], e)
			total += e.n
			if e.at > horizon {
				horizon = e.at
			}
		}
		sort.Slice(sched[g], func(i, j int) bool { return sched[g][i].at < sched[g][j].at })
	}
	// the end comes either after everything went quiet or in the middle, often exactly at a window end
	endAt := horizon + 3*c.Max
	if rng.Chance(1, 2) {
		endAt = grid[rng.Intn(len(grid))] + time.Duration(rng.Intn(2))*c.Initial
	}
	desc := fmt.Sprintf("racing %s g=%d slow=%v end=%s@%v sched=%v", c, ng, slow, how, endAt, sched)
	rec.Begin(idx, desc)
	w := &world{idx: idx, mode: "racing", c: c}
	w.steps = []string{desc}
	res := mon.Bubble(t, func() {
		yield := rng.Intn(3)
		h := func(name string) {
			w.hook(name)
			for i := 0; i < yield; i++ {
				time.Sleep(0)
			}
		}
		ratelimiting.VerifHook.Store(&h)
		defer ratelimiting.VerifHook.Store(nil)
		if slow {
			w.slowGate = make(chan struct{}, 1024)
		}
		w.start()
		synctest.Wait()
		var wg sync.WaitGroup
		start := time.Now()
		for g := range sched {
			wg.Add(1)
			go func(g int) {
				defer wg.Done()
				for _, e := range sched[g] {
					if d := e.at - time.Since(start); d > 0 {
						time.Sleep(d)
					}
					for i := 0; i < e.n; i++ {
						rec.Count("racing.adds", 1)
						w.add()
					}
				}
			}(g)
		}
		if d := endAt - time.Since(start); d > 0 {
			time.Sleep(d)
		}
		// a slow consumer either drains everything that is pending before the end, or never reads at
		// all: Close / cancel with signals still undelivered must release the delivery goroutines
		drain := !slow || rng.Bool()
		if slow && drain {
			w.drained = true
			for i := 0; i < total+2; i++ {
				w.slowGate <- struct{}{}
			}
		}
		if slow && !drain {
			rec.Count("racing.shutdown_with_undelivered_signals", 1)
		}
		if endAt > horizon {
			wg.Wait()
			synctest.Wait()
			w.invariants(!slow)
		}
		slowUndrained := slow && !drain
		_ = slowUndrained
		rec.Count("shutdown."+how, 1)
		cand := w.shutdown(how)
		wg.Wait()
		if cand != "" {
			reportShutdownWedge(w, "racing-shutdown/"+how, cand)
			w.unstick()
			return
		}
		w.invariants(!slow)
	})
	finish(idx, w, res, total >= 2)
}

// runDirected parks the run loop at a hook and issues operations there.
func runDirected(t *testing.T, idx int, rng *mon.RNG, pl plan) {
	c := genCfg(rng)
	rec.Begin(idx, "directed "+pl.desc+" "+c.String())
	w := &world{idx: idx, mode: "directed:" + pl.desc, c: c}
	scenario := func(w *world, bubble bool) (candidate string) {
		settle := func() mon.QuiesceInfo {
			if bubble {
				return mon.Quiesce()
			}
			time.Sleep(30 * time.Millisecond)
			return mon.QuiesceInfo{OK: true}
		}
		h := w.hook
		ratelimiting.VerifHook.Store(&h)
		defer ratelimiting.VerifHook.Store(nil)
		w.start()
		settle()
		w.mu.Lock()
		w.armHook, w.armN = pl.hook, pl.n
		w.mu.Unlock()
		// drive the loop to the hook: Adds and window expiries
		for i := 0; i < 8 && !w.parked.Load(); i++ {
			w.step("add")
			w.add()
			settle()
			if w.parked.Load() {
				break
			}
			w.step("sleep window")
			time.Sleep(w.c.Initial + 1)
			settle()
		}
		if !w.parked.Load() {
			return "not-reached"
		}
		closeDone := make(chan struct{})
		closed := false
		for _, a := range pl.acts {
			w.step("placed:" + a)
			switch a {
			case "add":
				w.add() // Add never blocks on the run loop
			case "close":
				closed = true
				rec.Count("directed.close_while_parked", 1)
				w.mu.Lock()
				w.endAt = time.Now()
				w.mu.Unlock()
				go func() { w.rl.Close(); close(closeDone) }()
			case "cancel":
				w.mu.Lock()
				w.endAt = time.Now()
				w.mu.Unlock()
				w.cancel()
			}
			settle()
		}
		w.step("resume")
		w.parked.Store(false)
		w.resume <- struct{}{}
		q := settle()
		if closed {
			select {
			case <-closeDone:
			default:
				return fmt.Sprintf("Close (issued while the run loop was parked at %s) did not return after the loop resumed: mutexBlocked=%d frames=%v", pl.hook, q.MutexBlocked, q.MutexFrames)
			}
			select {
			case <-w.runDone:
				w.runDone <- nil
			default:
				return "Run did not return after Close"
			}
		}
		if w.endAt.IsZero() {
			time.Sleep(2*w.c.Max + 1)
			settle()
			w.invariants(true)
		}
		if !closed {
			if cand := w.shutdown("close"); cand != "" {
				return cand
			}
		} else {
			w.cancel()
			close(w.stopCon)
			<-w.conDone
		}
		return ""
	}
	var cand string
	var candStacks []string
	res := mon.Bubble(t, func() {
		cand = scenario(w, true)
		switch cand {
		case "":
		case "not-reached":
			rec.Inconclusive(idx, "directed plan did not reach its hook", pl.desc)
			w.unstick()
			w.rl.Close()
		default:
			candStacks = mon.KitStacks(mon.Stacks())
			w.unstick()
		}
	})
	if cand != "" && cand != "not-reached" {
		// DESIGN 2.3: a deadlock candidate seen in frozen virtual time becomes a
		// violation only if the same scenario is still stuck on real time.
		w2 := &world{idx: idx, mode: w.mode + "(real time)", c: cfg{Initial: 5 * time.Millisecond, Max: 10 * time.Millisecond, MaxPending: c.MaxPending}}
		done := make(chan string, 1)
		go func() { done <- scenario(w2, false) }()
		select {
		case r := <-done:
			if r != "" && r != "not-reached" {
				w.violation("deadlock/directed/"+pl.hook+"+"+strings.Join(pl.acts, ","), cand+"; confirmed on real time: "+r+"; kit goroutines (bubble): "+strings.Join(candStacks, " || "))
			} else {
				rec.Inconclusive(idx, "deadlock candidate in the bubble did not reproduce on real time (harness artefact?)", cand)
			}
		case <-time.After(5 * time.Second):
			w.violation("deadlock/directed/"+pl.hook+"+"+strings.Join(pl.acts, ","), cand+"; confirmed on real time: scenario still stuck after 5s; kit goroutines (bubble): "+strings.Join(candStacks, " || "))
			ratelimiting.VerifHook.Store(nil)
		}
		res.Deadlock = ""
	}
	finish(idx, w, res, true)
}

// reportShutdownWedge: Close (or Run) did not return although every goroutine
// of the bubble is blocked and the harness has nothing left to do. No blocking
// point of the limiter that is reachable after Close depends on time passing
// (the run loop's select has the closed closeCh case; helper goroutines select
// on closeCh / the cancelled context), so frozen virtual time cannot be hiding
// a timer here: the state is reported as a violation with the kit stacks.
func reportShutdownWedge(w *world, where, cand string) {
	stacks := mon.KitStacks(mon.Stacks())
	w.violation("deadlock/"+where, cand+"; kit goroutines: "+strings.Join(stacks, " || "))
}
